"""Classification of specification disagreements into known-finding classes (DESIGN §4).
A class is excusable only for polygon-receiver containment in a boundary-contact
configuration; everything else (any intersects answer, any non-polygon receiver,
any general-position pair) classifies as None and is therefore always a violation."""

def parse_shape(a, i):
    k = a[i]
    if k == 0: return ('point', a[i+1:i+3]), i+3
    if k == 1: return ('rect', a[i+1:i+5]), i+5
    if k == 2:
        n = a[i+1]; return ('line', a[i+2:i+2+2*n]), i+2+2*n
    nr = a[i+1]; j = i+2; rings = []
    for _ in range(nr):
        n = a[j]; rings.append(a[j+1:j+1+2*n]); j += 1+2*n
    return ('poly', rings), j

def segs_of(sh):
    k, d = sh
    def ring(c):
        pts = [(c[i], c[i+1]) for i in range(0, len(c), 2)]
        if len(pts) > 1 and pts[0] == pts[-1]: pts = pts[:-1]
        return [(pts[i], pts[(i+1) % len(pts)]) for i in range(len(pts))]
    if k == 'point': return [((d[0], d[1]), (d[0], d[1]))]
    if k == 'rect':
        a, b, c, e = d; return ring([a, b, c, b, c, e, a, e])
    if k == 'line':
        pts = [(d[i], d[i+1]) for i in range(0, len(d), 2)]
        return [(pts[i], pts[i+1]) for i in range(len(pts)-1)]
    out = []
    for r in d: out += ring(r)
    return out

def cross(a, b, c): return (b[0]-a[0])*(c[1]-a[1]) - (b[1]-a[1])*(c[0]-a[0])
def on(a, b, p): return cross(a, b, p) == 0 and min(a[0], b[0]) <= p[0] <= max(a[0], b[0]) and min(a[1], b[1]) <= p[1] <= max(a[1], b[1])
def sg(v): return (v > 0) - (v < 0)
def meet(s, t):
    a, b = s; c, d = t
    if on(a, b, c) or on(a, b, d) or on(c, d, a) or on(c, d, b): return True
    return sg(cross(a, b, c))*sg(cross(a, b, d)) < 0 and sg(cross(c, d, a))*sg(cross(c, d, b)) < 0

def contact(A, B):
    sa, sb = segs_of(A), segs_of(B)
    return any(meet(s, t) for s in sa for t in sb)

def split_line(line):
    body, spec = line.split('||')
    lhs, impl = body.split('|')
    t = lhs.split()
    return int(t[2]), list(map(int, t[3:])), list(map(int, impl.split())), [int(x) for x in spec.replace('spec=', '').split()]

def case_key(line):
    """the case text of a MODEL/SPEC driver line (without the per-shard line number)"""
    return line.split('||')[0].split(' ', 2)[2].strip()

def classify_c03(line):
    try:
        tag, args, impl, spec = split_line(line)
        if tag != 53: return None
        A, i = parse_shape(args, 2); B, _ = parse_shape(args, i)
        classes = []
        for k in range(4):
            if k < len(impl) and k < len(spec) and spec[k] != -9 and impl[k] != spec[k]:
                if k < 2: return None
                recv, arg = (A, B) if k == 2 else (B, A)
                if recv[0] != 'poly' or not contact(A, B): return None
                holes = 'holes' if len(recv[1]) > 1 else 'noholes'
                classes.append('contains.poly>%s.%s.%s.contact' % (arg[0], holes, 'false-positive' if impl[k] == 1 else 'false-negative'))
        return classes[0] if len(set(classes)) == 1 else None
    except Exception:
        return None

def classify_c12(line):
    try:
        tag, args, impl, spec = split_line(line)
        if tag != 52: return None
        A, i = parse_shape(args, 5); B, _ = parse_shape(args, i)
        if impl[0] != 1 or impl[1] != 1: return None          # intersects answers must never change
        for k in (2, 3):
            if impl[k] == 0:
                recv = A if k == 2 else B
                if recv[0] != 'poly' or not contact(A, B): return None
        return 'contains.poly.contact.not-invariant'
    except Exception:
        return None



# ---- JSON layer ----

def split_any(line):
    body, spec = line.split('||')
    lhs, impl = body.split('|')
    t = lhs.split()
    return int(t[2]), list(map(int, t[3:])), list(map(int, impl.split())), [int(x) for x in spec.replace('spec=', '').split()]

def dec_doc(a, i):
    """decode the document encoding of harness/json.go encDoc -> python value with raw keys; returns (value, next index)"""
    k = a[i]
    if k == 0: return None, i + 1
    if k == 1: return True, i + 1
    if k == 2: return False, i + 1
    if k == 3:
        n = a[i + 3]; raw = bytes(a[i + 4:i + 4 + n]).decode('latin1')
        return ('num', a[i + 1], a[i + 2], raw), i + 4 + n
    if k == 4:
        n = a[i + 1]; j = i + 2 + n; m = a[j]
        return ('str', bytes(a[j + 1:j + 1 + m]).decode('latin1')), j + 1 + m
    if k == 5:
        n = a[i + 1]; j = i + 2; out = []
        for _ in range(n):
            v, j = dec_doc(a, j); out.append(v)
        return out, j
    n = a[i + 1]; j = i + 2; ms = []
    for _ in range(n):
        nr = a[j]; j += 1 + nr
        nd = a[j]; key = bytes(a[j + 1:j + 1 + nd]).decode('latin1'); j += 1 + nd
        v, j = dec_doc(a, j); ms.append((key, v))
    return ('obj', ms), j

def last(ms, name):
    r = None
    for k, v in ms:
        if k == name: r = v
    return r

def seq_mixed(positions, state):
    """positions of one line / of the rings of one polygon; state = [seen_first, first_is_2d]"""
    for p in positions:
        if not isinstance(p, list): return False
        n = min(len(p), 4)
        if not state[0]:
            state[0] = True; state[1] = (n == 2)
        elif state[1] and n > 2:
            return True
    return False

def doc_mixed(v):
    if not (isinstance(v, tuple) and v[0] == 'obj'): return False
    ms = v[1]; t = last(ms, 'type')
    if not (isinstance(t, tuple) and t[0] == 'str'): return False
    t = t[1]; c = last(ms, 'coordinates')
    try:
        if t == 'LineString': return seq_mixed(c, [False, False])
        if t == 'MultiLineString': return any(seq_mixed(l, [False, False]) for l in c)
        if t == 'Polygon':
            st = [False, False]; return any(seq_mixed(r, st) for r in c)
        if t == 'MultiPolygon':
            for p in c:
                st = [False, False]
                if any(seq_mixed(r, st) for r in p): return True
            return False
        if t == 'Feature': return doc_mixed(last(ms, 'geometry'))
        if t == 'GeometryCollection': return any(doc_mixed(g) for g in last(ms, 'geometries'))
        if t == 'FeatureCollection': return any(doc_mixed(g) for g in last(ms, 'features'))
    except TypeError:
        return False
    return False

def classify_c07(line):
    """a well-formed document rejected with 'invalid coordinates' because a later position of a
    line string / polygon has more ordinates than its first position (pinned by TestIssue714)"""
    try:
        tag, args, impl, spec = split_any(line)
        if tag != 70 or impl != [4] or not spec or spec[0] != 0: return None
        doc, _ = dec_doc(args, 3)
        return 'parse.mixed-dimensions.rejected' if doc_mixed(doc) else None
    except Exception:
        return None

def classify_c06(line):
    """a Circle feature is rewritten in a fixed form (flag 7 = 2); every other flag must hold"""
    try:
        tag, args, impl, spec = split_any(line)
        if tag != 73 or len(impl) < 8 or impl[0] != 0: return None
        if impl[1:4] != [1, 1, 1] or impl[7] != 2: return None
        return 'circle.feature.rewritten'
    except Exception:
        return None


def _bf(b):
    import struct
    return struct.unpack('<d', struct.pack('<q', int(b)))[0]

def _dest(lat, lon, m, brg):
    import math
    d = m / 6371e3; th = math.radians(brg); p1 = math.radians(lat); l1 = math.radians(lon)
    sp2 = math.sin(p1) * math.cos(d) + math.cos(p1) * math.sin(d) * math.cos(th)
    cp2 = math.hypot(math.cos(p1) * math.cos(d) - math.sin(p1) * math.sin(d) * math.cos(th), math.sin(d) * math.sin(th))
    p2 = math.atan2(sp2, cp2)
    l2 = l1 + math.atan2(math.sin(th) * math.sin(d) * math.cos(p1), math.cos(d) - math.sin(p1) * math.sin(p2))
    l2 = math.fmod(l2 + 3 * math.pi, 2 * math.pi) - math.pi
    return math.degrees(p2), math.degrees(l2)

def _circle_rect(clat, clon, m, steps):
    """the rectangle of the polygon approximation (circle.go makeCircleObject)"""
    import math
    steps = max(steps, 3)
    maxY, _ = _dest(clat, clon, m, 0); _, maxX = _dest(clat, clon, m, 90)
    minY, _ = _dest(clat, clon, m, 180); _, minX = _dest(clat, clon, m, 270)
    lons, lats = (maxX - minX) / 2, (maxY - minY) / 2
    xs, ys = [], []
    th = 0.0
    while th <= 360.0:
        r = math.pi / 180 * th
        xs.append(clon + lons * math.cos(r)); ys.append(clat + lats * math.sin(r)); th += 360.0 / steps
    return min(xs), min(ys), max(xs), max(ys)

def classify_c09(line):
    """Circle dispatch laws (tag 83): only the symmetry law (index 1) may fail, and only when the probe point lies
    within the circle's radius but outside the rectangle of its polygon approximation (which the rectangle
    pre-filter of collection.Search consults): few steps, antimeridian crossing, large radius at high latitude"""
    import math
    try:
        tag, args, impl, spec = split_any(line)
        if tag != 83: return None
        if [i for i, x in enumerate(impl) if x != 1] != [1]: return None
        clat, clon, m, steps = _bf(args[0]), _bf(args[1]), _bf(args[2]), args[3]
        plat, plon = _bf(args[4]), _bf(args[5])
        x0, y0, x1, y1 = _circle_rect(clat, clon, m, steps)
        slack = 1e-9
        outside = plon < x0 - slack or plon > x1 + slack or plat < y0 - slack or plat > y1 + slack
        p1, l1, p2, l2 = [math.radians(v) for v in (plat, plon, clat, clon)]
        h = math.sin((p2 - p1) / 2) ** 2 + math.cos(p1) * math.cos(p2) * math.sin((l2 - l1) / 2) ** 2
        inside = 6371e3 * 2 * math.asin(math.sqrt(min(1.0, h))) <= m + 1e-3
        return 'circle.rect-does-not-cover-disc' if (outside and inside) else None
    except Exception:
        return None
