"""Property-specific additional steps of the check driver (filled in per property)."""
