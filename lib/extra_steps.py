"""Property-specific additional steps of the check driver."""
import os, subprocess, re


def _geo(pid, ctx, k_quick, k_thorough):
    """certified tie of the real-valued model (coq/Sphere.v) to the implementation's float64 outputs"""
    scratch, root = ctx["scratch"], ctx["root"]
    cases = os.path.join(scratch, "cases.txt")
    outdir = os.path.join(scratch, "geo_goals")
    os.makedirs(outdir, exist_ok=True)
    k = k_thorough if ctx["tier"] == "thorough" else k_quick
    r = subprocess.run(["python3", os.path.join(root, "tools", "geo_goals.py"), cases, outdir, str(k)],
                       stdout=subprocess.PIPE, stderr=subprocess.STDOUT, text=True)
    m = re.search(r"GOALS (\d+) PROVED (\d+) FAILED (\d+)", r.stdout)
    res = {"interval_goals": 0, "interval_goals_proved": 0, "violations": []}
    if not m:
        rp = os.path.join(root, "replays", "%s-interval.txt" % pid)
        open(rp, "w").write("the interval-goal generator failed:\n" + r.stdout[-3000:])
        res["violations"].append((rp, " no-failing-input-found"))
        return res
    res["interval_goals"], res["interval_goals_proved"] = int(m.group(1)), int(m.group(2))
    res["interval_goal_kinds"] = ("goals closed by the interval tactic: |model formula at the exact inputs - implementation output| <= tolerance "
                                  "(haversine 1e-14, metres->haversine 1e-14, DistanceTo via its haversine 1e-13, DestinationPoint latitude law 1e-12, "
                                  "RectFromCenter latitude band 1e-9 deg and tangent-longitude law 1e-8, Circle point test against the stored haversine 1e-15)")
    if int(m.group(3)) > 0:
        rp = os.path.join(root, "replays", "%s-interval.txt" % pid)
        open(rp, "w").write("# property %s: the real-valued model coq/Sphere.v evaluated at these exact inputs does NOT enclose the\n"
                            "# implementation's output within the stated tolerance (interval tactic could not close the goal)\n" % pid + r.stdout)
        res["violations"].append((rp, ""))
    return res


def extra_C13(ctx): return _geo("C13", ctx, 60, 600)
def extra_C14(ctx): return _geo("C14", ctx, 80, 800)
def extra_C15(ctx): return _geo("C15", ctx, 30, 400)
