"""Property-specific additional steps of the check driver."""
import os, subprocess, re


def _geo(pid, ctx, k_quick, k_thorough):
    """certified tie of the real-valued model (coq/Sphere.v) to the implementation's float64 outputs"""
    scratch, root = ctx["scratch"], ctx["root"]
    cases = os.path.join(scratch, "cases.txt")
    outdir = os.path.join(scratch, "geo_goals")
    os.makedirs(outdir, exist_ok=True)
    k = k_thorough if ctx["tier"] == "thorough" else k_quick
    r = subprocess.run(["python3", os.path.join(root, "tools", "geo_goals.py"), cases, outdir, str(k)],
                       stdout=subprocess.PIPE, stderr=subprocess.STDOUT, text=True)
    m = re.search(r"GOALS (\d+) PROVED (\d+) FAILED (\d+)", r.stdout)
    res = {"interval_goals": 0, "interval_goals_proved": 0, "violations": []}
    if not m:
        rp = os.path.join(root, "replays", "%s-interval.txt" % pid)
        open(rp, "w").write("the interval-goal generator failed:\n" + r.stdout[-3000:])
        res["violations"].append((rp, " no-failing-input-found"))
        return res
    res["interval_goals"], res["interval_goals_proved"] = int(m.group(1)), int(m.group(2))
    res["interval_goal_kinds"] = ("goals closed by the interval tactic: |model formula at the exact inputs - implementation output| <= tolerance "
                                  "(haversine 1e-14, metres->haversine 1e-14, DistanceTo via its haversine 1e-13, DestinationPoint latitude law 1e-12, "
                                  "RectFromCenter latitude band 1e-9 deg, tangent-longitude law in cosine form 1e-8 and in sine form 1e-6 relative, Circle point test against the stored haversine 1e-15)")
    if int(m.group(3)) > 0:
        rp = os.path.join(root, "replays", "%s-interval.txt" % pid)
        open(rp, "w").write("# property %s: the real-valued model coq/Sphere.v evaluated at these exact inputs does NOT enclose the\n"
                            "# implementation's output within the stated tolerance (interval tactic could not close the goal)\n" % pid + r.stdout)
        res["violations"].append((rp, ""))
    return res


def extra_C13(ctx): return _geo("C13", ctx, 60, 600)
def extra_C14(ctx): return _geo("C14", ctx, 80, 800)
def extra_C15(ctx): return _geo("C15", ctx, 30, 400)


def extra_C16(ctx):
    """the translator: regenerate the effect table from /repo's SSA and close table_ok by computation"""
    import shutil, json
    scratch, root, env = ctx["scratch"], ctx["root"], ctx["env"]
    res = {"violations": []}
    tdir = os.path.join(scratch, "effects")
    shutil.copytree(os.path.join(root, "tools", "effects"), tdir)
    r = subprocess.run(["go", "build", "-o", os.path.join(scratch, "effects.bin"), "."], cwd=tdir, env=env,
                       stdout=subprocess.PIPE, stderr=subprocess.STDOUT, text=True)
    gen = os.path.join(scratch, "gen")
    os.makedirs(gen, exist_ok=True)
    ok = r.returncode == 0
    out = r.stdout
    if ok:
        with open(os.path.join(gen, "Effects.v"), "w") as f:
            r = subprocess.run(["timeout", "300", os.path.join(scratch, "effects.bin"), "/repo"], env=env, stdout=f, stderr=subprocess.PIPE, text=True)
        ok = r.returncode == 0
        out = r.stderr
    if not ok:
        rp = os.path.join(root, "replays", "C16-translator.txt")
        open(rp, "w").write("the effect-table translator could not process /repo's working tree:\n" + out[-3000:])
        res["violations"].append((rp, " no-failing-input-found"))
        return res
    src = open(os.path.join(gen, "Effects.v")).read()
    rows = re.findall(r'^\s*\("(.*?)", "(.*?)", "(.*?)", (\d+)\)', src, re.M)
    bad = [x for x in rows if int(x[3]) > 1]
    res["effect_table_rows"] = len(rows)
    res["effect_table_nonlocal"] = len(bad)
    m = re.search(r"functions_analysed : Z := (\d+)", src); res["functions_analysed"] = int(m.group(1)) if m else 0
    m = re.search(r"entry_points : Z := (\d+)", src); res["entry_points"] = int(m.group(1)) if m else 0
    with open(os.path.join(gen, "EffectsCheck.v"), "w") as f:
        f.write("From Coq Require Import List ZArith String.\nFrom GJ Require Import Interleave.\nFrom GEN Require Import Effects.\n"
                "Definition rows : list ((string * string * string) * Z) := effect_table.\n"
                "Theorem no_shared_writes : table_ok rows = true.\nProof. vm_compute. reflexivity. Qed.\n"
                "Theorem generated_code_schedule_irrelevant : forall ts sh sched,\n"
                "  (forall t, In t ts -> forall i, In i (code t) -> In i (abstract_prog rows)) ->\n"
                "  fst (run (sh, ts) sched) = sh /\\\n"
                "  forall k t, nth_error ts k = Some t -> nth_error (snd (run (sh, ts) sched)) k = Some (solo sh t (count k sched)).\n"
                "Proof. intros. apply (table_ok_interleaving rows); [exact no_shared_writes|assumption]. Qed.\n"
                "Print Assumptions generated_code_schedule_irrelevant.\n")
    coq = os.path.join(root, "coq")
    r1 = subprocess.run(["timeout", "600", "coqc", "-Q", coq, "GJ", "-Q", gen, "GEN", os.path.join(gen, "Effects.v")], stdout=subprocess.PIPE, stderr=subprocess.STDOUT, text=True)
    r2 = subprocess.run(["timeout", "600", "coqc", "-Q", coq, "GJ", "-Q", gen, "GEN", os.path.join(gen, "EffectsCheck.v")], stdout=subprocess.PIPE, stderr=subprocess.STDOUT, text=True)
    res["generated_obligations"] = 2
    res["generated_discharged"] = 2 if (r1.returncode == 0 and r2.returncode == 0) else 0
    res["generated_theorems"] = ["no_shared_writes", "generated_code_schedule_irrelevant"]
    res["generated_assumptions"] = re.sub(r"\s+", " ", r2.stdout)[-400:]
    if r1.returncode != 0 or r2.returncode != 0:
        rp = os.path.join(root, "replays", "C16-effects.txt")
        with open(rp, "w") as f:
            f.write("# property C16: the effect table regenerated from /repo's SSA has store-like instructions whose target is not\n"
                    "# provably memory of the same call (class 3 global, 4 shared, 5 unknown): theorem no_shared_writes no longer holds.\n"
                    "# A two-goroutine schedule calling the named function on one shared object is the failing history;\n"
                    "# the race-detector stream of this check runs such schedules.\n")
            for fn, pos, kind, cls in bad[:60]:
                f.write("%s  %s  %s  class=%s\n" % (fn, pos, kind, cls))
            if not bad:
                f.write((r1.stdout + r2.stdout)[-2000:])
        res["violations"].append((rp, "" if bad else " no-failing-input-found"))
    return res
