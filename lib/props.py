"""Per-property configuration of the check driver."""

COMMON_TB = [
    "Coq 8.16.1 kernel (coqc; vm_compute used, native_compute not used)",
    "extraction with ExtrOcamlBasic only (bool, option, unit, list, prod, sumbool, sumor; andb/orb inlined); Z/positive kept as Coq inductives; OCaml 4.13.1; ocaml/driver.ml (decimal <-> Z glue via zarith)",
    "Go harness generators/encoders (harness/*.go) and the decoders in coq/Harness.v",
    "modelling assumption: float64 arithmetic of the kernels is exact on the domain D (coordinates k*2^-s, |k| <= 2^23); validated by the correspondence stream, not proved",
    "hand-written Gallina mirrors of the Go functions (modelled, not verified); Go compiler/runtime outside the model",
]

PROPS = {}

def seg_class(line):
    return None

PROPS["C19"] = dict(
    streams=["C19"],
    kernel_cases=400,
    rule="exhaustive (segment,point) on {0..L}^2 and (segment,segment) on {0..LS}^2 (L=LS=4 quick; L=6, LS=5 thorough) plus seeded random cases on dyadic grids 2^-s, s<=3, |k|<=2^23 with forced level/collinear/nested/zero-length/touching families; non-trivial = not decided by the y-range/bounding-box pre-test; distinct = distinct case lines (hashed)",
    trusted_base=COMMON_TB,
    assumptions=["float64 exact on D (see trusted_base)", "one Nextafter step leaves the grid (no two grid values are adjacent floats)"],
    partial=[],
)

PROPS["C18"] = dict(
    streams=["C18"],
    kernel_cases=300,
    rule="exhaustive: every vertex sequence of length 0..4 (thorough 0..5) on {0..3}^2, closed and open; structured random rings (convex hulls, single-dent, collinear midpoint, duplicated vertex, raw sequences) in all rotations, both directions, with/without closing vertex, grids 2^-s, |k| up to 2^22; long series up to 2000 points inside the shoelace exactness bound; non-trivial = at least 3 points; distinct = distinct case lines",
    trusted_base=COMMON_TB,
    assumptions=["float64 exact on D incl. the shoelace bound n*2^(2b+2) < 2^53"],
    partial=[],
)

PROPS["C01"] = dict(
    streams=["C01"],
    kernel_cases=300,
    rule="exhaustive: all vertex sequences of length 3 (and 1/16 sample of length 4; thorough: all of length 4 and a sample of length 5) on {0..3}^2 against all 49 lattice and half-lattice points; random rings (raw sequences, star polygons with 0-3 holes, long rings of 64-464 (thorough up to 5000) vertices, small-lattice rings with repeats) with probe points biased to vertices/edge midpoints/vertex levels, under index configurations {none, rtree/1, quadtree/1, rtree/64, quadtree/64}; rectangles and lines likewise; each case reports 17 (polygon) or 9 (rect, line) implementation answers: geometry level and object level (Point, SimplePoint, Feature wrappers), all compared with the one model answer; ring-level (hit, edge index) through the verif hook without index. non-trivial: all (every case reaches the membership code); distinct = distinct case lines",
    trusted_base=COMMON_TB + ["index independence at this level rests on C04 (search reports exactly the intersecting segments) + theorem C01_order_independent; the correspondence runs all three index kinds"],
    assumptions=["float64 exact on D"],
    partial=[],
)
