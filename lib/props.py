"""Per-property configuration of the check driver."""

COMMON_TB = [
    "Coq 8.16.1 kernel (coqc; vm_compute used, native_compute not used)",
    "extraction with ExtrOcamlBasic only (bool, option, unit, list, prod, sumbool, sumor; andb/orb inlined); Z/positive kept as Coq inductives; OCaml 4.13.1; ocaml/driver.ml (decimal <-> Z glue via zarith)",
    "Go harness generators/encoders (harness/*.go) and the decoders in coq/Harness.v",
    "modelling assumption: float64 arithmetic of the kernels is exact on the domain D (coordinates k*2^-s, |k| <= 2^23); validated by the correspondence stream, not proved",
    "hand-written Gallina mirrors of the Go functions (modelled, not verified); Go compiler/runtime outside the model",
]

import classes
PROPS = {}

def seg_class(line):
    return None

PROPS["C19"] = dict(
    streams=["C19"],
    kernel_cases=400,
    rule="exhaustive (segment,point) on {0..L}^2 and (segment,segment) on {0..LS}^2 (L=LS=4 quick; L=6, LS=5 thorough) plus seeded random cases on dyadic grids 2^-s, s<=3, |k|<=2^23 with forced level/collinear/nested/zero-length/touching families; non-trivial = not decided by the y-range/bounding-box pre-test; distinct = distinct case lines (hashed)",
    trusted_base=COMMON_TB,
    assumptions=["float64 exact on D (see trusted_base)", "one Nextafter step leaves the grid (no two grid values are adjacent floats)"],
    partial=[],
)

PROPS["C18"] = dict(
    streams=["C18"],
    kernel_cases=300,
    rule="exhaustive: every vertex sequence of length 0..4 (thorough 0..5) on {0..3}^2, closed and open; structured random rings (convex hulls, single-dent, collinear midpoint, duplicated vertex, raw sequences) in all rotations, both directions, with/without closing vertex, grids 2^-s, |k| up to 2^22; long series up to 2000 points inside the shoelace exactness bound; non-trivial = at least 3 points; distinct = distinct case lines",
    trusted_base=COMMON_TB,
    assumptions=["float64 exact on D incl. the shoelace bound n*2^(2b+2) < 2^53"],
    partial=[],
)

PROPS["C01"] = dict(
    streams=["C01"],
    kernel_cases=300,
    rule="exhaustive: all vertex sequences of length 3 (and 1/16 sample of length 4; thorough: all of length 4 and a sample of length 5) on {0..3}^2 against all 49 lattice and half-lattice points; random rings (raw sequences, star polygons with 0-3 holes, long rings of 64-464 (thorough up to 5000) vertices, small-lattice rings with repeats) with probe points biased to vertices/edge midpoints/vertex levels, under index configurations {none, rtree/1, quadtree/1, rtree/64, quadtree/64}; rectangles and lines likewise; each case reports 17 (polygon) or 9 (rect, line) implementation answers: geometry level and object level (Point, SimplePoint, Feature wrappers), all compared with the one model answer; ring-level (hit, edge index) through the verif hook without index. non-trivial: all (every case reaches the membership code); distinct = distinct case lines",
    trusted_base=COMMON_TB + ["index independence at this level rests on C04 (search reports exactly the intersecting segments) + theorem C01_order_independent; the correspondence runs all three index kinds"],
    assumptions=["float64 exact on D"],
    partial=[],
)

PAIR_RULE = ("valid shapes only (simple rings checked exactly, holes strictly inside, pairwise disjoint): polygons from lattice/star/comb/convex-hull generators "
  "with 0-2 holes; B constructed in contact with A (on vertices, edge midpoints/quarter points, along boundary stretches, equal to a hole or the exterior, "
  "bounding boxes, through boundary points) and unrelated; all 16 ordered kind pairs; 4 index configurations on every 10th polygon; collinear line x line families; "
  "grids 2^-s; non-trivial: all; distinct = distinct case lines")

PROPS["C02"] = dict(
    streams=["C02"], kernel_cases=200, timeout=1500,
    rule=PAIR_RULE + "; implementation answers A.Intersects(B), B.Intersects(A) compared with the Coq model and with the arrangement oracle meets_x",
    trusted_base=COMMON_TB + ["the executable arrangement oracle coq/PairSpec.v (meets_x) as ground truth for polygon pairs: its completeness is not proved (polygonal Jordan curve theorem, DESIGN §9)"],
    assumptions=["float64 exact on D"],
    partial=["completeness (Meets -> true) of ring x segment / ring x ring / polygon pairs is explored against the oracle, not proved"],
)
PROPS["C03"] = dict(
    streams=["C03"], kernel_cases=200, timeout=1500, classify=classes.classify_c03,
    rule=PAIR_RULE + "; implementation answers A.Contains(B), B.Contains(A) compared with the Coq model and with the arrangement oracle covers_x",
    trusted_base=COMMON_TB + ["the executable arrangement oracle coq/PairSpec.v (covers_x) as ground truth: its completeness is not proved (DESIGN §9)"],
    assumptions=["float64 exact on D"],
    partial=["containment for concave rings / holes is explored against the oracle, not proved; the pinned tree violates it in contact configurations (KNOWN_FINDINGS.txt)"],
)
PROPS["C12"] = dict(
    streams=["C12"], kernel_cases=200, timeout=1500, classify=classes.classify_c12,
    rule=PAIR_RULE + "; every pair re-run under translation, Move, scaling by 2^k, x->-x, y->-y, transpose, start-vertex rotation (first, random, last), reversal, closing vertex toggled; the four answers must equal those of the untransformed pair",
    trusted_base=COMMON_TB,
    assumptions=["float64 exact on D (also after translation/scaling: the harness keeps |k| <= 2^23)"],
    partial=["reflection/re-encoding invariance of ring-level contains/intersects is explored (metamorphic), not proved"],
)
