"""Per-property configuration of the check driver."""

COMMON_TB = [
    "Coq 8.16.1 kernel (coqc; vm_compute used, native_compute not used)",
    "extraction with ExtrOcamlBasic only (bool, option, unit, list, prod, sumbool, sumor; andb/orb inlined); Z/positive kept as Coq inductives; OCaml 4.13.1; ocaml/driver.ml (decimal <-> Z glue via zarith)",
    "Go harness generators/encoders (harness/*.go) and the decoders in coq/Harness.v",
    "modelling assumption: float64 arithmetic of the kernels is exact on the domain D (coordinates k*2^-s, |k| <= 2^23); validated by the correspondence stream, not proved",
    "hand-written Gallina mirrors of the Go functions (modelled, not verified); Go compiler/runtime outside the model",
    "tools/gen_consts.py: regular-expression translator of the source's numeric constants into kernel-checked goals (model constant = source value), run in every check",
    "tools/gotrans (where the evidence lists functions_tied_by_translation): Go -> Gallina translator of the straight-line kernels (go/parser + symbolic execution); its reading of the Go subset and the mapping of Segment.Raycast to the model's raycast_on are trusted, the generated equalities 'translated function = model function' are kernel-checked for all inputs on every run",
]

import classes
PROPS = {}

def seg_class(line):
    return None

PROPS["C19"] = dict(
    translated_functions=['Segment.Rect', 'Segment.CollinearPoint', 'Segment.ContainsPoint', 'Segment.ContainsSegment', 'Segment.IntersectsSegment'],
    streams=["C19"],
    kernel_cases=400,
    rule="exhaustive (segment,point) on {0..L}^2 and (segment,segment) on {0..LS}^2 (L=LS=4 quick; L=6, LS=5 thorough) plus seeded random cases on dyadic grids 2^-s, s<=3, |k|<=2^23 with forced level/collinear/nested/zero-length/touching families; non-trivial = not decided by the y-range/bounding-box pre-test; distinct = distinct case lines (hashed)",
    trusted_base=COMMON_TB,
    assumptions=["float64 exact on D (see trusted_base)", "one Nextafter step leaves the grid (no two grid values are adjacent floats)"],
    partial=[],
)

PROPS["C18"] = dict(
    streams=["C18"],
    kernel_cases=300,
    rule="exhaustive: every vertex sequence of length 0..4 (thorough 0..5) on {0..3}^2, closed and open; structured random rings (convex hulls, single-dent, collinear midpoint, duplicated vertex, raw sequences) in all rotations, both directions, with/without closing vertex, grids 2^-s, |k| up to 2^22; long series up to 2000 points inside the shoelace exactness bound; non-trivial = at least 3 points; distinct = distinct case lines",
    trusted_base=COMMON_TB,
    assumptions=["float64 exact on D incl. the shoelace bound n*2^(2b+2) < 2^53"],
    partial=[],
)

PROPS["C01"] = dict(
    translated_functions=['Rect.ContainsPoint', 'Rect.IntersectsPoint', 'Segment.Rect', 'Rect.IntersectsRect', 'Point.ContainsPoint'],
    streams=["C01"],
    kernel_cases=300,
    rule="exhaustive: all vertex sequences of length 3 (and 1/16 sample of length 4; thorough: all of length 4 and a sample of length 5) on {0..3}^2 against all 49 lattice and half-lattice points; random rings (raw sequences, star polygons with 0-3 holes, long rings of 64-464 (thorough up to 5000) vertices, small-lattice rings with repeats) with probe points biased to vertices/edge midpoints/vertex levels, under index configurations {none, rtree/1, quadtree/1, rtree/64, quadtree/64}; rectangles and lines likewise; each case reports 17 (polygon) or 9 (rect, line) implementation answers: geometry level and object level (Point, SimplePoint, Feature wrappers), all compared with the one model answer; ring-level (hit, edge index) through the verif hook without index. non-trivial: all (every case reaches the membership code); distinct = distinct case lines",
    trusted_base=COMMON_TB + ["index independence at this level rests on C04 (search reports exactly the intersecting segments) + theorem C01_order_independent; the correspondence runs all three index kinds"],
    assumptions=["float64 exact on D"],
    partial=[],
)

PAIR_RULE = ("valid shapes only (simple rings checked exactly, holes strictly inside, pairwise disjoint): polygons from lattice/star/comb/convex-hull generators "
  "with 0-2 holes; B constructed in contact with A (on vertices, edge midpoints/quarter points, along boundary stretches, equal to a hole or the exterior, "
  "bounding boxes, through boundary points) and unrelated; all 16 ordered kind pairs; each operand of every pair under its own index configuration (none, R-tree/1, quadtree/1, quadtree/64), all four for the receiver on every 10th polygon; collinear line x line families; "
  "grids 2^-s; non-trivial: all; distinct = distinct case lines")

PROPS["C02"] = dict(
    translated_functions=['Rect.ContainsPoint', 'Rect.IntersectsPoint', 'Rect.IntersectsRect', 'Rect.Area', 'Segment.Rect', 'Segment.IntersectsSegment', 'Point.ContainsPoint', 'Point.IntersectsPoint', 'Point.IntersectsRect', 'Rect.IntersectsLine', 'Rect.IntersectsPoly', 'Point.IntersectsLine', 'Point.IntersectsPoly', 'Line.IntersectsPoint', 'Line.IntersectsRect', 'Line.IntersectsPoly', 'Poly.IntersectsPoint', 'Poly.IntersectsRect'],
    streams=["C02"], kernel_cases=200, timeout=1500,
    rule=PAIR_RULE + "; implementation answers A.Intersects(B), B.Intersects(A) compared with the Coq model and with the arrangement oracle meets_x",
    trusted_base=COMMON_TB + ["the executable arrangement oracle coq/PairSpec.v (meets_x) as ground truth for polygon pairs: its completeness is not proved (polygonal Jordan curve theorem, DESIGN §9)"],
    assumptions=["float64 exact on D"],
    partial=["ring x segment, ring x line string and ring x ring (polygons without holes) are proved exact as point sets and symmetric (Jordan.v, JordanQ.v, JordanRing.v); rect x line and rect x polygon-without-holes likewise (JordanRect.v); polygon WITH holes x line string of any length is proved exact under explicit hypotheses (each hole not flagged convex or really convex; holes inside the exterior and not overlapping: Holes.v; the 16-point bounding-box shortcut of ringContainsRing is proved sound in strict mode: HoleBox.v; strict containment of a ring of any size by a ring is exact: HoleRing.v); the other pairs involving holes are explored against the oracle, not proved"],
)
PROPS["C03"] = dict(
    translated_functions=['Rect.ContainsPoint', 'Rect.ContainsRect', 'Rect.IntersectsRect', 'Segment.Rect', 'Segment.IntersectsSegment', 'Segment.ContainsSegment', 'Segment.CollinearPoint', 'Point.ContainsPoint', 'Point.ContainsRect', 'Rect.ContainsLine', 'Rect.ContainsPoly', 'Point.ContainsLine', 'Point.ContainsPoly', 'Poly.ContainsRect'],
    streams=["C03"], kernel_cases=200, timeout=1500, classify=classes.classify_c03,
    rule=PAIR_RULE + "; implementation answers A.Contains(B), B.Contains(A) compared with the Coq model and with the arrangement oracle covers_x",
    trusted_base=COMMON_TB + ["the executable arrangement oracle coq/PairSpec.v (covers_x) as ground truth: its completeness is not proved (DESIGN §9)"],
    assumptions=["float64 exact on D"],
    partial=["strict containment of a segment is proved exact as a point-set statement for rings not flagged convex (JordanQ.v) and for convex rings (Convex.v: every vertex weakly on the inner side of every edge line), and containment with contact allowed in general position (JordanGP.v); Line.ContainsLine is proved exact as a point-set statement - true exactly when every rational point of the argument lies on a segment of the receiver (LineSound.v, LineComplete.v: walk invariant + a counting argument) - and so is Line.ContainsRect for every well-formed rectangle (LineRect.v: a rectangle of positive width and height cannot be covered by finitely many segments) and Point.ContainsPoly (PointPoly.v): 12 of the 16 ordered kind pairs are exact for all inputs, the remaining four (Line x Polygon, Polygon x Rect / Line / Polygon) are the ones that go through ringContainsSegment with contact; containment with boundary contact for concave rings / holes is explored against the oracle, not proved; the pinned tree violates it in contact configurations (KNOWN_FINDINGS.txt)"],
)
PROPS["C12"] = dict(
    translated_functions=['Segment.Rect', 'Segment.CollinearPoint', 'Segment.ContainsPoint', 'Segment.ContainsSegment', 'Segment.IntersectsSegment', 'Rect.ContainsPoint', 'Rect.IntersectsPoint', 'Rect.ContainsRect', 'Rect.IntersectsRect', 'Rect.Area', 'Point.ContainsPoint', 'Point.IntersectsPoint', 'Point.IntersectsRect', 'Point.ContainsRect', 'Rect.IntersectsLine', 'Rect.IntersectsPoly', 'Point.IntersectsLine', 'Point.IntersectsPoly', 'Line.IntersectsPoint', 'Line.IntersectsRect', 'Line.IntersectsPoly', 'Poly.IntersectsPoint', 'Poly.IntersectsRect', 'Rect.ContainsLine', 'Rect.ContainsPoly', 'Point.ContainsLine', 'Point.ContainsPoly', 'Poly.ContainsRect'],
    streams=["C12"], kernel_cases=200, timeout=1500, classify=classes.classify_c12,
    rule=PAIR_RULE + "; every pair re-run under translation, Move, scaling by 2^k, x->-x, y->-y, transpose, start-vertex rotation (first, random, last), reversal, closing vertex toggled; the four answers must equal those of the untransformed pair",
    trusted_base=COMMON_TB,
    assumptions=["float64 exact on D (also after translation/scaling: the harness keeps |k| <= 2^23)"],
    partial=["translation and positive scaling are proved for every pair predicate of the model (AffinePairs.v); the reflections x -> -x, y -> -y and the transposition x <-> y are proved for point membership in rings and polygons with holes and for the Intersects answers of ring x segment / line / ring (Crossing.v: ray-direction independence; Mirror.v, MirrorY.v, Symmetry.v) and for Line.ContainsLine (SymmetryLine.v, through its point-set exactness), IntersectsSegment, Line.IntersectsLine and line membership (SymmetrySeg.v); independence of the starting vertex and of the winding direction is proved for point membership in rings and polygons with holes and for the Intersects answers of ring x segment / line / ring (StartVertex.v: the edge cycle is permuted, reversal swaps edge ends); reflection / re-encoding invariance of ring-level contains, and of intersects with holes, is explored (metamorphic), not proved - it fails exactly on the known findings"],
)

PROPS["C04"] = dict(
    translated_functions=['Segment.Rect', 'Rect.IntersectsRect'],
    streams=["C04"], kernel_cases=120, timeout=1500,
    rule="series of 0-200 points (thorough: up to 70,000 so that 2- and 4-byte item widths, multi-level R-tree nodes and depth-16 overflow buckets occur) in clustered / collinear / all-identical / zero-extent / random layouts, open and closed, index kinds none, R-tree, quadtree (MinPoints 1); (i) Series.Index() bytes compared byte for byte with the model's bytes; (ii) Search with random and boundary query rectangles (on quadtree mid-lines, +-Inf bounds) and a callback that stops at the k-th call: number of callbacks, sorted reported indices and callback order compared with the model, reported set compared with the brute-force specification; (iii) the same after Move. non-trivial = at least one segment; distinct = distinct case lines",
    trusted_base=COMMON_TB + ["float64 byte layout of the R-tree node boxes: IndexExec.f64_bits (normal finite values k*2^-s) — exercised byte-for-byte by the correspondence, not proved equal to IEEE-754",
                              "quadtree mid-lines: the executable instance halves exactly on a grid pre-scaled by 2^16 (16 levels); the theorems hold for an arbitrary mid function"],
    assumptions=["encoded index smaller than 2^32 bytes (the u32 address fields wrap beyond it; same limit in the Go code)", "R-tree height <= 255 (stored in one byte)"],
    partial=["predicates that consume the edge index of a point lying on a shared vertex (ring.go:127-185): proved independent of which of the segments through the point is reported, for rings whose segments meet only at their ends (IndexChoice.v: rcs_choice_independent; strict mode consults no index; IndexChoice2.v: the point search over the candidates in ANY order reports validly, so every candidate order gives the same answer); for rings that touch or cross themselves it rests on the correspondence over the three index kinds (C01/C02/C03 streams)"],
)

OBJ_TB = COMMON_TB + ["object trees are built through the public constructors (NewPoint ... NewFeatureCollection) from an integer encoding; the child-index threshold is set through the verif hook VerifSetChildIndex (re-runs parseInitRectIndex)",
                      "github.com/tidwall/rtree (child index) is outside the model: the model's Search is the linear scan, the correspondence runs thresholds 0/1/2/64"]
PROPS["C09"] = dict(
    translated_functions=['unionRects', 'Rect.ContainsPoint', 'Rect.IntersectsPoint', 'Rect.ContainsRect', 'Rect.IntersectsRect', 'Rect.Area', 'Point.ContainsPoint', 'Point.IntersectsPoint', 'Point.IntersectsRect', 'Point.ContainsRect', 'Rect.IntersectsLine', 'Rect.IntersectsPoly', 'Point.IntersectsLine', 'Point.IntersectsPoly', 'Line.IntersectsPoint', 'Line.IntersectsRect', 'Line.IntersectsPoly', 'Poly.IntersectsPoint', 'Poly.IntersectsRect', 'Rect.ContainsLine', 'Rect.ContainsPoly', 'Point.ContainsLine', 'Point.ContainsPoly', 'Poly.ContainsRect'],
    streams=["C09"], kernel_cases=150, timeout=1500, classify=classes.classify_c09,
    rule="random object trees (depth <= 2; 11 kinds: Point, SimplePoint, Rect, LineString, Polygon, Feature, 5 collection kinds, with 0-4 or 60-70 children, empty children) whose leaves are constructed in contact with a common valid polygon; all ordered pairs; 4 geometry-index x 4 child-index configurations; per pair: 6 predicate answers + 8 algebraic-law flags (within=contains swapped, intersects symmetric, contains=>intersects, contains=>rect covers, intersects=>rects meet, self containment, Feature transparency, SimplePoint/Rect representation transparency) compared with the Coq model; answers compared with the composed point-set oracle when no polygon leaf is in boundary contact (where the C03 findings live). non-trivial: all; distinct = distinct case lines",
    trusted_base=OBJ_TB + ["executable oracle PairSpec.meets_x / covers_x at the leaves (completeness not proved)"],
    assumptions=["float64 exact on D", "Circle is outside this model (real-valued model, C13)"],
    partial=["contains => A's rectangle covers B's is proved (CoversBoxes.v), hence also rectangles meet; intersects symmetry is proved at the Geometry interface and at the object level (through Features, collections, nesting: ObjSym.o_intersects_sym) for everything except a polygon with holes facing a polygon with holes, and a Rect used as a ring is proved to be the ring of its five corners (RR_as_RS); a non-empty object without polygon holes intersects itself (ObjSelf.o_intersects_self); contains => intersects is proved at the Geometry interface for Point, Rect and Line receivers (all argument kinds) and for Polygon receivers with holes when the argument has fewer than 16 points (ObjLaws.v, ObjLaws2.v), and lifted to object trees (ObjLaws3.o_contains_intersects: polygons in the argument without holes); a non-empty object contains itself when no vertex of a polygon ring lies in the interior of an edge of the same ring, holes allowed, through Features / collections / nesting (ObjSelf2.v, ObjSelf3.o_contains_self); contains => intersects for arguments of 16 points and more or with holes (it leans on the bounding-box shortcut of ringContainsRing with boundary contact), symmetry for hole pairs and Circles, and rect-as-polygon for the Rect-specific fast paths are law flags"],
)
PROPS["C10"] = dict(
    translated_functions=['unionRects', 'Rect.IntersectsRect'],
    streams=["C10"], kernel_cases=150, timeout=1500, classify=classes.classify_c09,
    rule="random collections of the five kinds (0-4 or 60-70 children, nested collections, empty and duplicate children, features) against probe objects of all kinds, query rectangles and early-stop counts; per case: 5 answers, 7 composition-law flags computed from the children's OWN implementation answers (intersects = some child x some part, contains = every part in some child, within = every child within, empty, rect = union, point count = sum, children order), child Search results, and a flag that thresholds 0, 1, 2, 64 of the child index give identical outputs. non-trivial: all; distinct = distinct case lines",
    trusted_base=OBJ_TB,
    assumptions=["float64 exact on D"],
    partial=[],
)
PROPS["C11"] = dict(
    translated_functions=['unionRects'],
    streams=["C11"], kernel_cases=300, timeout=1500,
    rule="random object trees of 11 kinds with coordinates on, just inside and just outside the +-180/+-90 limits and small lattice coordinates, 0-6 positions per line, rings with 0-8 positions closed or not, empties mixed with non-empties, single-child collections; outputs Empty, Valid, Rect, 2*Center, NumPoints compared with the model and with the direct specification (tight box over all occupied positions, every position in range); plus an implementation-only stream (tag 63) of Point / LineString / Polygon / MultiPoint / Feature-of-collection objects with arbitrary finite float64 coordinates (decimals, +-0, denormals, magnitudes up to MaxFloat64): Rect = exact min/max, Center = the exact rational midpoint rounded once (math/big), Valid, Empty. non-trivial: all; distinct = distinct case lines",
    trusted_base=OBJ_TB,
    assumptions=["the model's coordinates are grid values k*2^-s; non-dyadic, signed-zero, denormal and huge floats are covered by the implementation-only stream (tag 63), where only (min+max)/2 rounds: its expected value is computed exactly"],
    partial=[],
)

JSON_TB = COMMON_TB + ["independent JSON tokenizer of the harness (harness/json.go), cross-checked against encoding/json on every text; it supplies the model with each number lexeme's float64 value (strconv.ParseFloat, as gjson uses) and each string's decoded content",
                       "gjson reads any JSON text as that tree (Valid, ForEach, Get, Raw, String, Float), pretty.Ugly = whitespace removal: exercised, not proved",
                       "number formatting: JsonExec.fmt_dyadic (exact decimal expansion of k*2^-s) = strconv.AppendFloat(f,'f',-1,64) on the grid; validated byte-for-byte by the correspondence; the theorems hold for an arbitrary formatting function"]
JSON_RULE = ("grammar-generated documents of the nine GeoJSON types and the Circle convention (nesting <= 3, 2-4 dimensional and mixed positions, null ordinates in points, "
  "duplicate / escaped / reordered reserved keys, foreign members of any JSON shape incl. id, bbox, properties, random whitespace, number lexemes with exponents and trailing zeros), "
  "0-2 structured mutants of each (wrong JSON kind, dropped member/item, truncated array, changed ordinate, non-numeric ordinate, bad type, duplicated item, emptied/nulled container), "
  "and texts that are not one JSON object (truncated, trailing garbage, wrong punctuation, random byte, scalars, arrays); every document is rendered to text, re-tokenized by the independent tokenizer, "
  "and parsed by the implementation under random ParseOptions; output: rejection code or (6 flags, kind tree with every x,y, JSON bytes, Members()). non-trivial: all; distinct = distinct case lines")
PROPS["C07"] = dict(streams=["C07"], kernel_cases=100, timeout=600, classify=classes.classify_c07, rule=JSON_RULE + "; compared with the Coq model of Parse and with the classification of C07 (well-formed -> accepted with exactly this tree; listed defect -> rejected)",
    trusted_base=JSON_TB, assumptions=["numbers with dyadic values on the case's grid; other documents are counted as outside-model-domain-skipped"], partial=["the decoding theorem carries the hypothesis nomix (documents of the known mixed-dimension finding excluded; refutation witness in Properties/C07.v)", "theorems are at tree level: invalid JSON, trailing bytes and whitespace are decided per case"])
PROPS["C06"] = dict(streams=["C06"], kernel_cases=100, timeout=600, classify=classes.classify_c06, rule=JSON_RULE + "; for every accepted text the implementation re-parses its own JSON output under the same options: accepted again, same kind tree, byte-identical JSON, identical observables/predicate answers; JSON()/String()/MarshalJSON()/AppendJSON agree; output bytes compared with the Coq model of the writers",
    trusted_base=JSON_TB, assumptions=["numbers finite"], partial=["the theorem is at tree level: tokenizer and strconv (text <-> tree) are outside it and tied per case", "the information clause is proved piecewise (foreign members kept and written in order, z/m values of the declared dimensionality for lines and polygons, x,y / kind tree / child order via C07) and additionally decided per case by an independent tokenizer comparison"])
PROPS["C08"] = dict(streams=["C08"], kernel_cases=100, timeout=600, rule=JSON_RULE + "; every accepted text is re-parsed under 7 index-option variants (child threshold 0/1/3/64, geometry threshold 0/1/64, both kinds), 3 representation-option variants and with RequireValid: JSON, rect, empty, valid, point count and 30 predicate answers against 6 probe objects must be identical; Circle still recognised; RequireValid rejects exactly when a nested standard object is invalid",
    trusted_base=JSON_TB, assumptions=[], partial=[])
PROPS["C17"] = dict(streams=["C17", "C17p"], kernel_cases=150, timeout=600,
    rule="random object trees built through NewPoint/NewPointZ/NewSimplePoint/NewRect/NewLineString/NewPolygon (incl. nil)/NewCircle/NewMulti*/NewGeometryCollection/NewFeatureCollection/NewFeature with finite grid values, NaN and +-Inf ordinates, 0-5 positions per series, and member strings (JSON objects with nested values rendered with random whitespace, the empty object with inner whitespace, non-object and invalid texts); per object: JSON()==String()==MarshalJSON()==AppendJSON(nil); AppendJSON onto a prefix with six spare capacities leaves the prefix untouched and appends exactly those bytes; the bytes are one valid JSON object for two independent tokenizers, with the kind's GeoJSON type name and coordinate nesting depth, no bare NaN/Inf; bytes compared with the Coq model of the writers; plus the grammar/mutant document stream of C06 for objects built through Parse (output valid JSON, spellings agree, AppendJSON appends). non-trivial: all; distinct = distinct case lines",
    trusted_base=JSON_TB, assumptions=["negative zero is not generated (the grid has no -0; strconv prints it as -0)", "member texts with duplicate or escaped \"feature\" keys are not generated (the sjson.Delete path is modelled for plain unique keys: the first member named feature is removed)"], partial=["that the constructors (with arbitrary member strings) only build objects meeting the theorem's well-formedness hypotheses is exercised, not proved (for Parse it is proved: ParsedForm.v, ParsedLex.v)"])

GEO_TB = ["Coq 8.16.1 kernel; the stdlib real-number axioms (ClassicalDedekindReals.sig_forall_dec, sig_not_dec, FunctionalExtensionality.functional_extensionality_dep, Classical_Prop.classic) as Print Assumptions reports them",
          "Interval 4.x tactic (coq-interval, uses primitive integers / BigZ; kernel-checked enclosures) for the per-input tie",
          "the real-valued model coq/Sphere.v is hand-written from geo/geo.go and circle.go (modelled, not verified); Go's math package (Sin, Cos, Asin, Atan2, Hypot, Mod) is outside the model and is tied per input by the certified enclosures, not for all inputs",
          "the clause flags are computed by the harness from the implementation's own float64 answers with the tolerances of the property statements (harness/geo.go)",
          "tools/geo_goals.py (float64 bits -> exact rationals, goal text)",
          "tools/gen_consts.py: earthRadius of the model tied to the source by a kernel-checked goal in every check"]
PROPS["C15"] = dict(streams=["C15"], kernel_cases=0, timeout=600,
    rule="random pairs of locations (poles, +-1e-9 of poles, antimeridian, antipodal and neighbouring pairs), distances 0, sub-millimetre, around 0.3 m, metre, km scales, near half the circumference, all bearings incl. multiples of 45 deg; per case 10 clause flags (symmetric, zero, range, destination in range, distance back, bearing back, haversine monotone, metres<->haversine, normalisation idempotent / haversine unchanged, semicircle round trip) + a sample of cases certified by interval arithmetic against the real-valued model. non-trivial: all; distinct = distinct case lines",
    trusted_base=GEO_TB, assumptions=["bearing-back clause applied for d >= 1 m, |lat| <= 89 deg, d <= half circumference - 1000 km, tolerance 1e-6 deg scaled by conditioning 1/(sin(d/R) cos lat)"],
    partial=["theorems are about real-valued formulas; float64 rounding is bounded per sampled input (interval), not for all inputs", "destination distance-back and bearing-back are proved over the reals with the two Atan2 calls entering through their defining property (SphereDest.v); in float64 they are checked as flags"])
PROPS["C14"] = dict(streams=["C14"], kernel_cases=0, timeout=600,
    rule="random centres (poles, antimeridian) and radii (0, sub-millimetre, around the 0.28 m resolution guard, metre..half circumference, pole-grazing and antimeridian-grazing within 1e-6 relative); per case 5 flags: no NaN, inside world bounds, 48 probe locations (bearings every 45 deg, around the tangent bearings, random) whose own great-circle distance is <= radius lie in the rectangle within 1 cm on the ground (longitudes modulo 360), full longitude range when the disc reaches a pole, degenerate rectangle for unresolvable radii; + a sample certified by interval arithmetic (latitude band, tangent-longitude law). non-trivial: all; distinct = distinct case lines",
    trusted_base=GEO_TB, assumptions=["probe locations are proposed by DestinationPoint and accepted by DistanceTo <= radius (DistanceTo is certified against the model by the C15 goals)"],
    partial=["over the reals the latitude band and the longitude band (tangent longitude) are proved to cover the disc when it reaches neither a pole nor the antimeridian, and the code's atan2 angle is proved to be the tangent longitude (SphereRect.v); the whole function with its pole / antimeridian branches is proved to cover the disc and to stay within the world bounds (SphereRectFull.v; excluded: radii below the resolution guard and exact tangency to a pole); NaN-freedom and float64 rounding are checked by flags and certified samples"])
PROPS["C13"] = dict(streams=["C13"], kernel_cases=0, timeout=600,
    rule="random circles (any centre, radii over all scales, 0..4096 steps) against probe points placed inside, outside, at 1e-4 relative of the radius and in the sliver between the circle and its polygon approximation, and against second circles at controlled centre distances (around the sum and the difference of the radii), different step counts; per case 10 flags: Contains/Intersects of Point and SimplePoint = (distance <= radius) outside the tolerance band, operand order, monotone in the radius, circle-contains-circle only if d + rB <= rA, circle-intersects-circle iff d <= rA + rB, JSON round trip to an identical Circle, polygon approximation closed / centred / rect contains centre; + a sample of point decisions certified by interval arithmetic against the model. non-trivial: all; distinct = distinct case lines",
    trusted_base=GEO_TB, assumptions=["negative, NaN, infinite and larger-than-half-circumference radii are used for serialisation and totality only"],
    partial=["the Circle point test is proved equivalent to 'distance <= radius' over the reals (circle_contains_point_spec); Circle.Contains(Circle) is proved sound (every point of B is within A; triangle inequality of the great-circle distance, SphereTriangle.v) and complete while centre distance + radius of B stays within half the circumference; Circle.Intersects(Circle) is proved exact as point sets: the discs share a location iff centre distance <= sum of radii (SphereMeet.v: the common location is a centre or the point of the great arc at distance rA from A, obtained as a unit vector and turned back into latitude / longitude); float64 rounding and the polygon approximation are checked by flags"])

PROPS["C16"] = dict(streams=["C16"], kernel_cases=0, timeout=900, race=True,
    rule="(translator) every store-like instruction (Store, MapUpdate, append, copy, delete, Send, go, sync calls) of every function reachable from the exported query / serialisation API of the three packages and of the tidwall dependencies they call, classified by the provenance of the written memory; (race detector) a pool of ~70 objects (parsed documents of all kinds under 5 option sets, long indexed rings, a 100-child collection, circles, constructor-built objects) queried by 8 goroutines x 6 rounds x 400 random calls (thorough: 16 x 20 x 3000) of 10 method groups (contains, within, intersects, JSON, rect/center/empty/valid/numpoints, distance, foreach, search/appendjson, string/members, spatial) with every result compared to the result recorded when run alone, under go build -race. non-trivial: all; distinct = distinct (round, worker) lines",
    trusted_base=["Coq 8.16.1 kernel (vm_compute for the table check)", "the translator tools/effects (go/packages + go/ssa + CHA call graph from golang.org/x/tools v0.29.0; provenance analysis: conservative, what is not proved local is reported shared/unknown; its soundness is trusted, not proved)",
                  "the reading of the generic theorem onto Go: every Go store-like instruction is an abstract instruction whose destination is private iff the table says local / caller-owned; reads are unrestricted",
                  "the Go standard library (strconv, math, sort, encoding/binary) is outside the analysed set", "Go's memory model for read-only sharing; the race detector for the observed schedules"],
    assumptions=["constructors and Parse are excluded (the property starts once they have returned)", "AppendJSON's dst buffer belongs to the caller"],
    partial=["actual goroutine schedules are observed under the race detector, not enumerated; the theorem covers all schedules of the abstract machine"])

PROPS["C05"] = dict(streams=["C05"], kernel_cases=0, timeout=900,
    rule="object trees of all 12 kinds incl. Circle (steps 0..69, radii 0, 1, 100 km, negative, beyond half circumference), NewPolygon(nil), lines of 0 / 1 points, zero-length segments, back-and-forth and folding collinear lines, rings of one location / two points, a hole equal to its exterior, one-location rectangles, empty and nested collections, nested features, plus valid shapes in contact; all ordered pairs as receiver and argument of 22 method groups (Contains, Within, Intersects, Distance, Rect/Center, JSON/String/MarshalJSON/AppendJSON, NumPoints/Empty/Valid/Members, ForEach, Search/Children/Indexed, the 12 Spatial methods, geometry-level calls with nil / empty arguments); Parse on random bytes, 1-3000-deep nestings of Feature / array / GeometryCollection, single-byte corruptions and structured mutants of grammar documents, then every query method on whatever it returns; a panic is recorded as the case's output, a call that does not return within 20 s aborts the run naming the case, calls slower than 2 s are counted. non-trivial: all; distinct = distinct case lines",
    trusted_base=COMMON_TB + ["the watchdog and recover() of the harness; wall-clock budgets (20 s per call) are observations, not bounds"],
    assumptions=["finite coordinates (C05's statement); NaN is exercised by the C17 stream only"],
    partial=["time, stack depth and panics of the Go code are observed over generated inputs, not proved; the model-side theorems state that the algorithms themselves return (fuel adequacy) and that Parse yields exactly one of object / error"])
