(* driver.ml — runs the extracted model and spec on case lines.
   Input line:  <tag> <arg>* | <impl-out>*      (decimal integers)
   Output: one line per disagreement
     MODEL <lineno> <line> || model=<..>      implementation <> model
     SPEC  <lineno> <line> || spec=<..>       implementation <> spec (wildcard -9 ignored)
   and a final line  DONE <cases> <model-mismatches> <spec-mismatches>.
   The only glue is decimal <-> Coq Z conversion (via zarith). *)
module ZA = Z
open Gjmodel

let rec pos_of_z (n : ZA.t) : positive =
  if ZA.equal n ZA.one then XH
  else if ZA.is_even n then XO (pos_of_z (ZA.shift_right n 1))
  else XI (pos_of_z (ZA.shift_right n 1))

let coqz_of_z (n : ZA.t) : z =
  let s = ZA.sign n in
  if s = 0 then Z0 else if s > 0 then Zpos (pos_of_z n) else Zneg (pos_of_z (ZA.neg n))

let rec z_of_pos (p : positive) : ZA.t =
  match p with
  | XH -> ZA.one
  | XO q -> ZA.shift_left (z_of_pos q) 1
  | XI q -> ZA.succ (ZA.shift_left (z_of_pos q) 1)

let z_of_coqz (n : z) : ZA.t =
  match n with Z0 -> ZA.zero | Zpos p -> z_of_pos p | Zneg p -> ZA.neg (z_of_pos p)

let parse_ints (s : string) : ZA.t list =
  String.split_on_char ' ' s |> List.filter (fun t -> t <> "") |> List.map ZA.of_string

let show (l : ZA.t list) = String.concat " " (List.map ZA.to_string l)

let wild = ZA.of_int (-9)

let any = ZA.of_int (-8)

let rest = ZA.of_int (-10)
let nonzero = ZA.of_int (-11)
(* the harness records -777 when the implementation panicked: never a rejection *)
let panicked = ZA.of_int (-777)

(* -(2^62)-13: what remains is A ++ B, A strictly increasing and inside the set after the marker, B a permutation of A *)
let half_ok (restl : ZA.t list) (set : ZA.t list) : bool =
  let len = List.length restl in
  if len mod 2 <> 0 then false else begin
    let n = len / 2 in
    let a = List.filteri (fun i _ -> i < n) restl and b = List.filteri (fun i _ -> i >= n) restl in
    let rec inc = function x :: (y :: _ as r) -> ZA.lt x y && inc r | _ -> true in
    inc a && List.for_all (fun x -> List.exists (ZA.equal x) set) a
    && List.equal ZA.equal (List.sort ZA.compare b) a
  end

let rec spec_match' impl sp =
  match impl, sp with
  | _, [y] when ZA.equal y rest -> true
  | _, y :: set when ZA.equal y (ZA.of_string "-4611686018427387917") -> half_ok impl set
  | [], [] -> true
  | x :: a, y :: b -> (ZA.equal y wild || ZA.equal x y) && spec_match' a b
  | _, _ -> false

let spec_match impl sp =
  match sp with
  | [y] when ZA.equal y any -> true
  | [y] when ZA.equal y nonzero -> (match impl with [c] -> not (ZA.equal c ZA.zero) && not (ZA.equal c panicked) | _ -> false)
  | y :: sp' when ZA.equal y (ZA.of_int (-12)) ->
    (match impl with [c] -> not (ZA.equal c ZA.zero) && not (ZA.equal c panicked) | _ -> spec_match' impl sp')
  | _ -> spec_match' impl sp

let () =
  let n = ref 0 and mm = ref 0 and sm = ref 0 in
  (try
     while true do
       let line = input_line stdin in
       if String.length line > 0 && line.[0] <> '#' then begin
         incr n;
         match String.index_opt line '|' with
         | None -> Printf.printf "MODEL %d %s || malformed-line\n" !n line; incr mm
         | Some i ->
           let lhs = parse_ints (String.sub line 0 i) in
           let impl = parse_ints (String.sub line (i + 1) (String.length line - i - 1)) in
           (match lhs with
            | [] -> Printf.printf "MODEL %d %s || malformed-line\n" !n line; incr mm
            | tag :: args ->
              let ctag = coqz_of_z tag and cargs = List.map coqz_of_z args in
              let m = List.map z_of_coqz (run ctag cargs) in
              let s = List.map z_of_coqz (spec ctag cargs) in
              (* a model output [-8] means: no executable model for this tag (real-valued model) *)
              let nomodel = (match m with [y] -> ZA.equal y any | _ -> false) in
              if not nomodel && not (List.length m = List.length impl && List.for_all2 ZA.equal m impl) then begin
                incr mm; Printf.printf "MODEL %d %s || model=%s\n" !n line (show m) end;
              if not (spec_match impl s) then begin
                incr sm; Printf.printf "SPEC %d %s || spec=%s\n" !n line (show s) end)
       end
     done
   with End_of_file -> ());
  Printf.printf "DONE %d %d %d\n" !n !mm !sm
