(* Sphere.v — real-valued model of geo/geo.go (haversine, distances, distance
   normalisation, the latitude part of RectFromCenter) and of the Circle tests of
   circle.go, with the theorems of properties C13, C14, C15 that hold of these
   formulas over the reals.  Go's float64 rounding is not modelled here: each
   run ties the formulas to the code by certified interval enclosures of the
   model at the generated inputs (tools/geo_goals.py). *)
From Coq Require Import Reals Lra Lia ZArith.
Open Scope R_scope.

Definition Rearth : R := 6371000.
Definition rad (d : R) : R := d * (PI / 180).

(* geo.Haversine *)
Definition hav (latA lonA latB lonB : R) : R :=
  let p1 := rad latA in let l1 := rad lonA in
  let p2 := rad latB in let l2 := rad lonB in
  let s1 := sin ((p2 - p1) / 2) in
  let s2 := sin ((l2 - l1) / 2) in
  s1 * s1 + cos p1 * cos p2 * (s2 * s2).

(* geo.DistanceToHaversine / DistanceFromHaversine / DistanceTo *)
Definition dist_to_hav (m : R) : R := let s := sin ((1 / 2) * m / Rearth) in s * s.
(* the square root is clamped to 1 (geo.go, since the repair a5ec9f5: the float haversine of an antipodal
   pair can round to just above 1) *)
Definition dist_from_hav (h : R) : R := Rearth * 2 * asin (Rmin 1 (sqrt h)).
Definition distance_to (latA lonA latB lonB : R) : R := dist_from_hav (hav latA lonA latB lonB).

Definition piR : R := PI * Rearth.

Lemma Rearth_pos : 0 < Rearth.
Proof. unfold Rearth. lra. Qed.

(* ------------------------------------------------------------------ *)
(* C15: symmetry, zero, range                                           *)

Lemma sin_sqr_neg x : sin (- x) * sin (- x) = sin x * sin x.
Proof. rewrite sin_neg. ring. Qed.

Theorem hav_sym a b c d : hav a b c d = hav c d a b.
Proof.
  unfold hav. cbv zeta.
  replace ((rad a - rad c) / 2) with (- ((rad c - rad a) / 2)) by field.
  replace ((rad b - rad d) / 2) with (- ((rad d - rad b) / 2)) by field.
  rewrite !sin_sqr_neg. ring.
Qed.

Theorem hav_refl a b : hav a b a b = 0.
Proof.
  unfold hav. cbv zeta.
  replace ((rad a - rad a) / 2) with 0 by field. replace ((rad b - rad b) / 2) with 0 by field.
  rewrite sin_0. ring.
Qed.

Definition lat_ok (d : R) : Prop := -90 <= d <= 90.

Lemma rad_lat_bounds d : lat_ok d -> - (PI / 2) <= rad d <= PI / 2.
Proof. unfold lat_ok, rad. pose proof PI_RGT_0. intros [H1 H2]. split; nra. Qed.

Lemma cos_lat_nonneg d : lat_ok d -> 0 <= cos (rad d).
Proof. intros H. apply cos_ge_0; apply rad_lat_bounds in H; lra. Qed.

Theorem hav_nonneg a b c d : lat_ok a -> lat_ok c -> 0 <= hav a b c d.
Proof.
  intros Ha Hc. unfold hav. cbv zeta.
  pose proof (cos_lat_nonneg a Ha). pose proof (cos_lat_nonneg c Hc).
  pose proof (Rle_0_sqr (sin ((rad c - rad a) / 2))) as S1. unfold Rsqr in S1.
  pose proof (Rle_0_sqr (sin ((rad d - rad b) / 2))) as S2. unfold Rsqr in S2.
  apply Rplus_le_le_0_compat; [exact S1|].
  apply Rmult_le_pos; [apply Rmult_le_pos; assumption|exact S2].
Qed.

(* hav = (1 - cos of the central angle) / 2, hence at most 1 *)
Lemma sin_half_sqr x : sin (x / 2) * sin (x / 2) = (1 - cos x) / 2.
Proof.
  replace x with (2 * (x / 2)) at 3 by field. rewrite cos_2a_sin. field.
Qed.

Theorem hav_le_1 a b c d : lat_ok a -> lat_ok c -> hav a b c d <= 1.
Proof.
  intros Ha Hc. unfold hav. cbv zeta.
  pose proof (cos_lat_nonneg a Ha) as C1. pose proof (cos_lat_nonneg c Hc) as C2.
  rewrite !sin_half_sqr. rewrite cos_minus.
  pose proof (COS_bound (rad d - rad b)) as [B1 B2].
  pose proof (COS_bound (rad c + rad a)) as [B3 B4]. rewrite cos_plus in B3, B4.
  assert (P : 0 <= cos (rad a) * cos (rad c)) by (apply Rmult_le_pos; assumption).
  assert (Q : 0 <= cos (rad a) * cos (rad c) * (1 + cos (rad d - rad b))) by (apply Rmult_le_pos; lra).
  lra.
Qed.

(* ------------------------------------------------------------------ *)
(* C15: haversine <-> metres                                            *)

Lemma half_angle_bounds m : 0 <= m <= piR -> 0 <= (1 / 2) * m / Rearth <= PI / 2.
Proof. unfold piR, Rearth. pose proof PI_RGT_0. intros [H1 H2]. split; lra. Qed.

(* strictly increasing in the distance on [0, half the circumference] *)
Theorem dist_to_hav_increasing m1 m2 :
  0 <= m1 -> m1 < m2 -> m2 <= piR -> dist_to_hav m1 < dist_to_hav m2.
Proof.
  intros H0 Hlt Hmax. unfold dist_to_hav. cbv zeta.
  pose proof (half_angle_bounds m1 ltac:(lra)) as [A1 A2].
  pose proof (half_angle_bounds m2 ltac:(lra)) as [B1 B2].
  assert (Hx : (1 / 2) * m1 / Rearth < (1 / 2) * m2 / Rearth).
  { pose proof Rearth_pos. unfold Rdiv. apply Rmult_lt_compat_r; [apply Rinv_0_lt_compat; lra|lra]. }
  pose proof PI_RGT_0.
  assert (S : sin ((1 / 2) * m1 / Rearth) < sin ((1 / 2) * m2 / Rearth)) by (apply sin_increasing_1; lra).
  assert (S0 : 0 <= sin ((1 / 2) * m1 / Rearth)) by (apply sin_ge_0; lra).
  nra.
Qed.

Theorem dist_to_hav_range m : 0 <= m <= piR -> 0 <= dist_to_hav m <= 1.
Proof.
  intros H. unfold dist_to_hav. cbv zeta. pose proof (SIN_bound ((1 / 2) * m / Rearth)) as [S1 S2]. split; nra.
Qed.

(* metres -> haversine -> metres without loss *)
Theorem dist_hav_inverse m : 0 <= m <= piR -> dist_from_hav (dist_to_hav m) = m.
Proof.
  intros H. unfold dist_from_hav, dist_to_hav. cbv zeta.
  pose proof (half_angle_bounds m H) as [A1 A2]. pose proof PI_RGT_0.
  assert (S0 : 0 <= sin ((1 / 2) * m / Rearth)) by (apply sin_ge_0; lra).
  rewrite sqrt_square by exact S0. rewrite Rmin_right by (pose proof (SIN_bound ((1 / 2) * m / Rearth)); lra). rewrite asin_sin by lra.
  unfold Rearth. lra.
Qed.

(* haversine -> metres -> haversine without loss *)
Theorem hav_dist_inverse h : 0 <= h <= 1 -> dist_to_hav (dist_from_hav h) = h.
Proof.
  intros [H0 H1]. unfold dist_from_hav, dist_to_hav. cbv zeta.
  pose proof Rearth_pos.
  assert (Hs : 0 <= sqrt h <= 1).
  { split; [apply sqrt_pos|]. rewrite <- sqrt_1. apply sqrt_le_1_alt. exact H1. }
  rewrite Rmin_right by lra.
  replace ((1 / 2) * (Rearth * 2 * asin (sqrt h)) / Rearth) with (asin (sqrt h)) by (unfold Rearth; lra).
  rewrite sin_asin by lra. apply sqrt_sqrt. exact H0.
Qed.

(* the distance is never negative and never more than half the circumference *)
Theorem distance_range a b c d : lat_ok a -> lat_ok c -> 0 <= distance_to a b c d <= piR.
Proof.
  intros Ha Hc. unfold distance_to, dist_from_hav, piR.
  pose proof (hav_nonneg a b c d Ha Hc) as H0. pose proof (hav_le_1 a b c d Ha Hc) as H1.
  set (h := hav a b c d) in *.
  assert (Hs : 0 <= sqrt h <= 1).
  { split; [apply sqrt_pos|]. rewrite <- sqrt_1. apply sqrt_le_1_alt. exact H1. }
  rewrite Rmin_right by lra.
  pose proof (asin_bound (sqrt h)) as [B1 B2].
  assert (A0 : 0 <= asin (sqrt h)).
  { destruct (Rle_dec 0 (asin (sqrt h))) as [L|L]; [exact L|]. exfalso.
    pose proof PI_RGT_0.
    assert (S : sin (asin (sqrt h)) < 0) by (apply sin_lt_0_var; lra).
    rewrite sin_asin in S by lra. lra. }
  pose proof Rearth_pos. pose proof PI_RGT_0. split; nra.
Qed.

(* whatever the haversine rounds to, the metres never exceed half the circumference *)
Theorem dist_from_hav_le_piR h : dist_from_hav h <= piR.
Proof.
  unfold dist_from_hav, piR. pose proof (asin_bound (Rmin 1 (sqrt h))) as [_ B]. pose proof Rearth_pos. nra.
Qed.

Theorem distance_sym a b c d : distance_to a b c d = distance_to c d a b.
Proof. unfold distance_to. rewrite hav_sym. reflexivity. Qed.

Theorem distance_refl a b : distance_to a b a b = 0.
Proof. unfold distance_to, dist_from_hav. rewrite hav_refl, sqrt_0, Rmin_right, asin_0 by lra. ring. Qed.

(* ------------------------------------------------------------------ *)
(* C15: distance normalisation (math.Mod by the full circumference)      *)

(* sin^2 has period PI *)
Lemma sin_sqr_period_nat x (k : nat) : sin (x + INR k * PI) * sin (x + INR k * PI) = sin x * sin x.
Proof.
  induction k as [|k IH].
  - simpl. replace (x + 0 * PI) with x by ring. reflexivity.
  - rewrite S_INR. replace (x + (INR k + 1) * PI) with ((x + INR k * PI) + PI) by ring.
    rewrite neg_sin. rewrite <- IH. ring.
Qed.

Lemma sin_sqr_period x (k : Z) : sin (x + IZR k * PI) * sin (x + IZR k * PI) = sin x * sin x.
Proof.
  destruct k as [|p|p].
  - replace (x + 0 * PI) with x by ring. reflexivity.
  - rewrite <- positive_nat_Z, <- INR_IZR_INZ. apply sin_sqr_period_nat.
  - rewrite <- (sin_sqr_period_nat (x + IZR (Z.neg p) * PI) (Pos.to_nat p)).
    rewrite INR_IZR_INZ, positive_nat_Z.
    replace (x + IZR (Z.neg p) * PI + IZR (Z.pos p) * PI) with x; [reflexivity|].
    change (Z.neg p) with (- Z.pos p)%Z. rewrite opp_IZR. ring.
Qed.

(* NormalizeDistance(m) = m - k * (2 PI R) for the integer k that math.Mod picks *)
Definition normalize (m : R) (k : Z) : R := m - IZR k * (2 * piR).

(* whatever integer multiple of the circumference is removed, the haversine is unchanged *)
Theorem normalize_keeps_hav m k : dist_to_hav (normalize m k) = dist_to_hav m.
Proof.
  unfold dist_to_hav, normalize, piR. cbv zeta. pose proof Rearth_pos.
  replace ((1 / 2) * (m - IZR k * (2 * (PI * Rearth))) / Rearth) with ((1 / 2) * m / Rearth + IZR (- k) * PI)
    by (rewrite opp_IZR; unfold Rearth; field).
  apply sin_sqr_period.
Qed.

(* normalising twice removes nothing more: a value already in [0, 2 PI R) is a fixpoint of math.Mod *)
Theorem normalize_idempotent m k : normalize (normalize m k) 0 = normalize m k.
Proof. unfold normalize. ring. Qed.

(* ------------------------------------------------------------------ *)
(* C13: Circle.containsPoint                                            *)

(* circle.go:84-87 — with the stored haversine of the (normalised) radius *)
Definition circle_contains_point (clat clon meters plat plon : R) : Prop :=
  hav plat plon clat clon <= dist_to_hav meters.

(* ... is exactly "great-circle distance at most the radius", for radii up to half the circumference *)
Theorem circle_contains_point_spec clat clon meters plat plon :
  lat_ok clat -> lat_ok plat -> 0 <= meters <= piR ->
  (circle_contains_point clat clon meters plat plon <-> distance_to plat plon clat clon <= meters).
Proof.
  intros Hc Hp Hm. unfold circle_contains_point.
  pose proof (distance_range plat plon clat clon Hp Hc) as Hd.
  pose proof (hav_nonneg plat plon clat clon Hp Hc) as H0.
  pose proof (hav_le_1 plat plon clat clon Hp Hc) as H1.
  rewrite <- (hav_dist_inverse (hav plat plon clat clon)) by lra.
  fold (distance_to plat plon clat clon). set (dd := distance_to plat plon clat clon) in *.
  split.
  - intros H. destruct (Rle_dec dd meters) as [L|L]; [exact L|]. exfalso.
    assert (meters < dd) by lra.
    pose proof (dist_to_hav_increasing meters dd ltac:(lra) H2 ltac:(lra)). lra.
  - intros H. destruct (Req_dec dd meters) as [->|Hne]; [lra|].
    left. apply dist_to_hav_increasing; lra.
Qed.

(* containment is monotone in the radius *)
Theorem circle_monotone_radius clat clon m1 m2 plat plon :
  0 <= m1 <= m2 -> m2 <= piR ->
  circle_contains_point clat clon m1 plat plon -> circle_contains_point clat clon m2 plat plon.
Proof.
  unfold circle_contains_point. intros [H0 H12] Hmax H.
  destruct (Req_dec m1 m2) as [->|Hne]; [exact H|].
  pose proof (dist_to_hav_increasing m1 m2 H0 ltac:(lra) Hmax). lra.
Qed.

(* the point test does not depend on operand order (hav is symmetric) *)
Theorem circle_point_order clat clon meters plat plon :
  circle_contains_point clat clon meters plat plon <-> hav clat clon plat plon <= dist_to_hav meters.
Proof. unfold circle_contains_point. rewrite hav_sym. tauto. Qed.

(* ------------------------------------------------------------------ *)
(* C14: the latitude band of RectFromCenter covers the disc              *)

(* a location within angular distance r of the centre has |lat - lat0| <= r (r up to PI) *)
Theorem disc_latitude_band lat0 lon0 lat lon (r : R) :
  lat_ok lat0 -> lat_ok lat -> 0 <= r <= PI ->
  hav lat0 lon0 lat lon <= sin (r / 2) * sin (r / 2) ->
  Rabs (rad lat - rad lat0) <= r.
Proof.
  intros H0 H1 Hr Hh.
  pose proof (cos_lat_nonneg lat0 H0) as C0. pose proof (cos_lat_nonneg lat H1) as C1.
  unfold hav in Hh. cbv zeta in Hh.
  pose proof (Rle_0_sqr (sin ((rad lon - rad lon0) / 2))) as S2. unfold Rsqr in S2.
  assert (Hp : 0 <= cos (rad lat0) * cos (rad lat) * (sin ((rad lon - rad lon0) / 2) * sin ((rad lon - rad lon0) / 2)))
    by (apply Rmult_le_pos; [apply Rmult_le_pos; assumption|exact S2]).
  assert (Hs : sin ((rad lat - rad lat0) / 2) * sin ((rad lat - rad lat0) / 2) <= sin (r / 2) * sin (r / 2)) by lra.
  pose proof (rad_lat_bounds lat0 H0) as B0. pose proof (rad_lat_bounds lat H1) as B1. pose proof PI_RGT_0.
  set (x := (rad lat - rad lat0) / 2) in *.
  assert (Hx : - (PI / 2) <= x <= PI / 2) by (unfold x; lra).
  assert (Hr2 : 0 <= r / 2 <= PI / 2) by lra.
  assert (Sr : 0 <= sin (r / 2)) by (apply sin_ge_0; lra).
  (* |x| <= r/2, by monotonicity of sin on [-PI/2, PI/2] *)
  assert (Habs : Rabs x <= r / 2).
  { destruct (Rle_dec (Rabs x) (r / 2)) as [L|L]; [exact L|]. exfalso.
    assert (Hgt : r / 2 < Rabs x) by lra.
    assert (Ha : 0 <= Rabs x <= PI / 2) by (split; [apply Rabs_pos|unfold Rabs; destruct (Rcase_abs x); lra]).
    assert (S : sin (r / 2) < sin (Rabs x)) by (apply sin_increasing_1; lra).
    assert (E : sin (Rabs x) * sin (Rabs x) = sin x * sin x).
    { unfold Rabs. destruct (Rcase_abs x); [apply sin_sqr_neg|reflexivity]. }
    nra. }
  replace (rad lat - rad lat0) with (2 * x) by (unfold x; field).
  rewrite Rabs_mult, (Rabs_right 2) by lra. lra.
Qed.

Print Assumptions hav_sym.
Print Assumptions hav_le_1.
Print Assumptions dist_hav_inverse.
Print Assumptions circle_contains_point_spec.
Print Assumptions normalize_keeps_hav.
Print Assumptions disc_latitude_band.
