(* SymmetryLine.v — property C12: Line.ContainsLine is invariant under the eight symmetries of the
   square (x -> -x, y -> -y, x <-> y and their compositions), through the point-set exactness of
   LineComplete.v: "every rational point of the argument lies on a segment of the receiver" is
   preserved by any map that commutes with scaling and preserves "on the segment". *)
From Coq Require Import ZArith Bool List Lia.
From GJ Require Import Base Kernel KernelSpec Series SeriesSpec Ring RingSpec
  RaycastProofs KernelProofs IntersectsProofs SeriesProofs PipProofs PairProofs LineProofs Invariance
  Jordan JordanQ JordanRing Crossing Mirror MirrorY Symmetry PairSpec Pairs ObjSym LineSound LineComplete.
Import ListNotations.
Open Scope Z_scope.

Section TransferLine.
Variable tau : pt -> pt.
Hypothesis tau_tau : forall p, tau (tau p) = p.
Hypothesis tau_sc : forall k p, sc k (tau p) = tau (sc k p).
Hypothesis tau_on : forall s p, on_segb (taus tau s) (tau p) = on_segb s p.

Lemma on_seg_tau' a b p : on_seg (tau a, tau b) (tau p) <-> on_seg (a, b) p.
Proof. rewrite <- !on_segb_iff. change (tau a, tau b) with (taus tau (a, b)). rewrite tau_on. tauto. Qed.

Lemma Lr_segs_tau ps : ring_segments (Lr (map tau ps)) = map (taus tau) (ring_segments (Lr ps)).
Proof.
  unfold ring_segments, Lr. rewrite !RS_segs. unfold segments_spec. cbn [closed pts]. apply path_segs_tau.
Qed.

Lemma Lr_empty_tau ps : ring_empty (Lr (map tau ps)) = ring_empty (Lr ps).
Proof. change (Lr (map tau ps)) with (RS (mk_line (map tau ps))). change (Lr ps) with (RS (mk_line ps)). rewrite !line_ring_empty, map_length. reflexivity. Qed.

Lemma scs_taus k s : scs k (taus tau s) = taus tau (scs k s).
Proof. destruct s as [s1 s2]. unfold scs, affs, taus. cbn [fst snd]. fold (sc k (tau s1)). fold (sc k (tau s2)). fold (sc k s1). fold (sc k s2). rewrite !tau_sc. reflexivity. Qed.

Lemma covered_tau_1 ps k P : covered (Lr ps) k P -> covered (Lr (map tau ps)) k (tau P).
Proof.
  intros (s & Hs & Hon). exists (taus tau s). split; [rewrite Lr_segs_tau; apply in_map; exact Hs|].
  rewrite scs_taus. destruct (scs k s) as [x y]. apply on_seg_tau'. exact Hon.
Qed.

Lemma map_tau_tau' ps : map tau (map tau ps) = ps.
Proof. rewrite map_map. rewrite <- (map_id ps) at 2. apply map_ext. intros p. apply tau_tau. Qed.

Lemma line_covered_by_tau_1 ps qs : line_covered_by (Lr ps) (Lr qs) -> line_covered_by (Lr (map tau ps)) (Lr (map tau qs)).
Proof.
  intros H sg Hsg k P Hk HP. rewrite Lr_segs_tau in Hsg. apply in_map_iff in Hsg. destruct Hsg as ([c d] & <- & Hcd).
  cbn [taus fst snd] in HP. rewrite !tau_sc in HP.
  assert (HP' : on_seg (tau (sc k c), tau (sc k d)) (tau (tau P))) by (rewrite tau_tau; exact HP).
  apply (proj1 (on_seg_tau' (sc k c) (sc k d) (tau P))) in HP'.
  pose proof (H (c, d) Hcd k (tau P) Hk HP') as C. apply covered_tau_1 in C. rewrite tau_tau in C. exact C.
Qed.

Theorem line_contains_line_tau (ps qs : list pt) :
  line_contains_line (Lr (map tau ps)) (Lr (map tau qs)) = line_contains_line (Lr ps) (Lr qs).
Proof.
  destruct (ring_empty (Lr ps)) eqn:Ep.
  { unfold line_contains_line. rewrite Lr_empty_tau, Ep. reflexivity. }
  destruct (ring_empty (Lr qs)) eqn:Eq.
  { unfold line_contains_line. rewrite !Lr_empty_tau, Ep, Eq. reflexivity. }
  assert (Ep' : ring_empty (Lr (map tau ps)) = false) by (rewrite Lr_empty_tau; exact Ep).
  assert (Eq' : ring_empty (Lr (map tau qs)) = false) by (rewrite Lr_empty_tau; exact Eq).
  pose proof (line_contains_line_exact (Lr ps) (Lr qs) Ep Eq) as X.
  pose proof (line_contains_line_exact (Lr (map tau ps)) (Lr (map tau qs)) Ep' Eq') as X'.
  pose proof (line_contains_line_total (Lr ps) (Lr qs)) as T. pose proof (line_contains_line_total (Lr (map tau ps)) (Lr (map tau qs))) as T'.
  assert (Iff : line_covered_by (Lr (map tau ps)) (Lr (map tau qs)) <-> line_covered_by (Lr ps) (Lr qs)).
  { split; [|apply line_covered_by_tau_1]. intros H. apply line_covered_by_tau_1 in H. rewrite !map_tau_tau' in H. exact H. }
  destruct (line_contains_line (Lr ps) (Lr qs)) as [[|]|]; destruct (line_contains_line (Lr (map tau ps)) (Lr (map tau qs))) as [[|]|];
    try reflexivity; try congruence; exfalso.
  - assert (F : Some false = Some true) by (apply X'; apply Iff; apply X; reflexivity). discriminate.
  - assert (F : Some false = Some true) by (apply X; apply Iff; apply X'; reflexivity). discriminate.
Qed.
End TransferLine.

Definition line_contains_line_my := line_contains_line_tau my my_my sc_my on_segb_my.
Definition line_contains_line_tr := line_contains_line_tau tr tr_tr sc_tr on_segb_tr.
Definition line_contains_line_mx := line_contains_line_tau mir mir_mir sc_mir on_segb_mir.

Print Assumptions line_contains_line_mx.
