(* SphereTriangle.v — properties C13 / C15 over the reals: the great-circle
   distance of geo.go satisfies the triangle inequality, hence
   - Circle.Contains(Circle) (centre distance + radius of B <= radius of A) implies
     that every point of B is within A;
   - two circles that share a point have centre distance <= sum of the radii
     (the "only if" half of Circle.Intersects(Circle)). *)
From Coq Require Import Reals Lra Lia.
From GJ Require Import Sphere SphereRect.
Open Scope R_scope.

(* ------------------------------------------------------------------ *)
(* three unit vectors: the Gram determinant is a square                 *)

Lemma gram (a1 a2 a3 b1 b2 b3 c1 c2 c3 : R) :
  a1 * a1 + a2 * a2 + a3 * a3 = 1 -> b1 * b1 + b2 * b2 + b3 * b3 = 1 -> c1 * c1 + c2 * c2 + c3 * c3 = 1 ->
  let x := a1 * b1 + a2 * b2 + a3 * b3 in
  let y := b1 * c1 + b2 * c2 + b3 * c3 in
  let z := a1 * c1 + a2 * c2 + a3 * c3 in
  (z - x * y) * (z - x * y) <= (1 - x * x) * (1 - y * y).
Proof.
  intros Na Nb Nc x y z.
  set (det := a1 * (b2 * c3 - b3 * c2) - a2 * (b1 * c3 - b3 * c1) + a3 * (b1 * c2 - b2 * c1)).
  assert (G : det * det =
              (a1 * a1 + a2 * a2 + a3 * a3) * (b1 * b1 + b2 * b2 + b3 * b3) * (c1 * c1 + c2 * c2 + c3 * c3)
              + 2 * x * y * z
              - (a1 * a1 + a2 * a2 + a3 * a3) * (y * y) - (b1 * b1 + b2 * b2 + b3 * b3) * (z * z)
              - (c1 * c1 + c2 * c2 + c3 * c3) * (x * x)) by (unfold det, x, y, z; ring).
  rewrite Na, Nb, Nc in G.
  assert (0 <= det * det) by (pose proof (Rle_0_sqr det) as S; unfold Rsqr in S; exact S).
  replace ((1 - x * x) * (1 - y * y)) with ((z - x * y) * (z - x * y) + (1 * 1 * 1 + 2 * x * y * z - 1 * (y * y) - 1 * (z * z) - 1 * (x * x))) by ring.
  lra.
Qed.

(* with x = cos al, y = cos be for angles in [0, PI]: z >= cos (al + be) *)
Lemma cos_sum_lower (al be z : R) : 0 <= al <= PI -> 0 <= be <= PI ->
  (z - cos al * cos be) * (z - cos al * cos be) <= (1 - cos al * cos al) * (1 - cos be * cos be) ->
  cos (al + be) <= z.
Proof.
  intros Ha Hb H. rewrite cos_plus.
  pose proof (sqr_sin_cos al) as Ea. pose proof (sqr_sin_cos be) as Eb.
  assert (Sa : 0 <= sin al) by (apply sin_ge_0; lra). assert (Sb : 0 <= sin be) by (apply sin_ge_0; lra).
  replace (1 - cos al * cos al) with (sin al * sin al) in H by lra.
  replace (1 - cos be * cos be) with (sin be * sin be) in H by lra.
  assert (P : 0 <= sin al * sin be) by (apply Rmult_le_pos; assumption).
  destruct (Rle_dec (cos al * cos be - sin al * sin be) z) as [L|L]; [exact L|]. exfalso.
  assert (D : sin al * sin be < cos al * cos be - z) by lra.
  assert (Q : (sin al * sin be) * (sin al * sin be) < (cos al * cos be - z) * (cos al * cos be - z)) by nra.
  nra.
Qed.

(* ------------------------------------------------------------------ *)
(* the central angle of a pair                                          *)

Definition sdot (latA lonA latB lonB : R) : R :=
  sin (rad latA) * sin (rad latB) + cos (rad latA) * cos (rad latB) * cos (rad lonB - rad lonA).
Definition angle (latA lonA latB lonB : R) : R := distance_to latA lonA latB lonB / Rearth.

Lemma angle_range a b c d : lat_ok a -> lat_ok c -> 0 <= angle a b c d <= PI.
Proof.
  intros Ha Hc. unfold angle. pose proof (distance_range a b c d Ha Hc) as [D0 D1]. unfold piR in D1.
  pose proof Rearth_pos as HR. split.
  - apply Rmult_le_pos; [exact D0|left; apply Rinv_0_lt_compat; exact HR].
  - apply Rmult_le_reg_r with Rearth; [exact HR|]. unfold Rdiv. rewrite Rmult_assoc, Rinv_l, Rmult_1_r by lra. exact D1.
Qed.

Lemma cos_angle a b c d : lat_ok a -> lat_ok c -> cos (angle a b c d) = sdot a b c d.
Proof.
  intros Ha Hc. unfold angle, distance_to, dist_from_hav.
  pose proof (hav_nonneg a b c d Ha Hc) as H0. pose proof (hav_le_1 a b c d Ha Hc) as H1.
  assert (Hs : 0 <= sqrt (hav a b c d) <= 1).
  { split; [apply sqrt_pos|]. rewrite <- sqrt_1. apply sqrt_le_1_alt. exact H1. }
  rewrite Rmin_right by lra.
  replace (Rearth * 2 * asin (sqrt (hav a b c d)) / Rearth) with (2 * asin (sqrt (hav a b c d))) by (unfold Rearth; field).
  rewrite cos_2a_sin, sin_asin by lra.
  replace (2 * sqrt (hav a b c d) * sqrt (hav a b c d)) with (2 * (sqrt (hav a b c d) * sqrt (hav a b c d))) by ring.
  rewrite sqrt_sqrt by exact H0. rewrite hav_cos. unfold sdot. field.
Qed.

(* the unit vector of a location *)
Lemma sdot_as_vectors a b c d :
  sdot a b c d =
  (cos (rad a) * cos (rad b)) * (cos (rad c) * cos (rad d)) + (cos (rad a) * sin (rad b)) * (cos (rad c) * sin (rad d))
  + sin (rad a) * sin (rad c).
Proof. unfold sdot. rewrite cos_minus. ring. Qed.

Lemma unit_vector a b :
  (cos (rad a) * cos (rad b)) * (cos (rad a) * cos (rad b)) + (cos (rad a) * sin (rad b)) * (cos (rad a) * sin (rad b))
  + sin (rad a) * sin (rad a) = 1.
Proof. pose proof (sqr_sin_cos (rad a)). pose proof (sqr_sin_cos (rad b)). nra. Qed.

(* MAIN 1: triangle inequality of DistanceTo *)
Theorem distance_triangle (latA lonA latB lonB latC lonC : R) : lat_ok latA -> lat_ok latB -> lat_ok latC ->
  distance_to latA lonA latC lonC <= distance_to latA lonA latB lonB + distance_to latB lonB latC lonC.
Proof.
  intros Ha Hb Hc.
  pose proof (angle_range latA lonA latB lonB Ha Hb) as Rab. pose proof (angle_range latB lonB latC lonC Hb Hc) as Rbc.
  pose proof (angle_range latA lonA latC lonC Ha Hc) as Rac. pose proof Rearth_pos as HR.
  assert (T : angle latA lonA latC lonC <= angle latA lonA latB lonB + angle latB lonB latC lonC).
  { destruct (Rle_dec PI (angle latA lonA latB lonB + angle latB lonB latC lonC)) as [Big|Small]; [lra|].
    assert (Hsum : angle latA lonA latB lonB + angle latB lonB latC lonC < PI) by lra.
    pose proof (gram (cos (rad latA) * cos (rad lonA)) (cos (rad latA) * sin (rad lonA)) (sin (rad latA))
                     (cos (rad latB) * cos (rad lonB)) (cos (rad latB) * sin (rad lonB)) (sin (rad latB))
                     (cos (rad latC) * cos (rad lonC)) (cos (rad latC) * sin (rad lonC)) (sin (rad latC))
                     (unit_vector latA lonA) (unit_vector latB lonB) (unit_vector latC lonC)) as G.
    cbv zeta in G. rewrite <- !sdot_as_vectors in G.
    rewrite <- (cos_angle latA lonA latB lonB Ha Hb), <- (cos_angle latB lonB latC lonC Hb Hc), <- (cos_angle latA lonA latC lonC Ha Hc) in G.
    pose proof (cos_sum_lower _ _ _ Rab Rbc G) as L.
    destruct (Rle_dec (angle latA lonA latC lonC) (angle latA lonA latB lonB + angle latB lonB latC lonC)) as [Y|N]; [exact Y|]. exfalso.
    assert (Lt : angle latA lonA latB lonB + angle latB lonB latC lonC < angle latA lonA latC lonC) by lra.
    assert (C : cos (angle latA lonA latC lonC) < cos (angle latA lonA latB lonB + angle latB lonB latC lonC)).
    { apply cos_decreasing_1; lra. }
    lra. }
  unfold angle in T.
  apply Rmult_le_compat_r with (r := Rearth) in T; [|lra].
  replace (distance_to latA lonA latC lonC / Rearth * Rearth) with (distance_to latA lonA latC lonC) in T by (field; lra).
  replace ((distance_to latA lonA latB lonB / Rearth + distance_to latB lonB latC lonC / Rearth) * Rearth)
    with (distance_to latA lonA latB lonB + distance_to latB lonB latC lonC) in T by (field; lra).
  exact T.
Qed.

(* MAIN 2: Circle.Contains(Circle) is sound: every point of B is within A *)
Theorem circle_contains_circle_sound (latA lonA rA latB lonB rB plat plon : R) :
  lat_ok latA -> lat_ok latB -> lat_ok plat -> 0 <= rB <= piR -> 0 <= rA <= piR ->
  distance_to latA lonA latB lonB + rB <= rA ->
  circle_contains_point latB lonB rB plat plon -> circle_contains_point latA lonA rA plat plon.
Proof.
  intros Ha Hb Hp HrB HrA Hc Hin.
  apply (circle_contains_point_spec latB lonB rB plat plon Hb Hp HrB) in Hin.
  apply (circle_contains_point_spec latA lonA rA plat plon Ha Hp HrA).
  pose proof (distance_triangle plat plon latB lonB latA lonA Hp Hb Ha) as T.
  rewrite (distance_sym latB lonB latA lonA) in T. lra.
Qed.

(* MAIN 3: circles that share a point have centre distance <= sum of the radii *)
Theorem circles_meet_only_if_close (latA lonA rA latB lonB rB plat plon : R) :
  lat_ok latA -> lat_ok latB -> lat_ok plat -> 0 <= rA <= piR -> 0 <= rB <= piR ->
  circle_contains_point latA lonA rA plat plon -> circle_contains_point latB lonB rB plat plon ->
  distance_to latA lonA latB lonB <= rA + rB.
Proof.
  intros Ha Hb Hp HrA HrB HA HB.
  apply (circle_contains_point_spec latA lonA rA plat plon Ha Hp HrA) in HA.
  apply (circle_contains_point_spec latB lonB rB plat plon Hb Hp HrB) in HB.
  pose proof (distance_triangle latA lonA plat plon latB lonB Ha Hp Hb) as T.
  rewrite (distance_sym latA lonA plat plon) in T. lra.
Qed.

Print Assumptions distance_triangle.
Print Assumptions circle_contains_circle_sound.
