(* PairProofs.v — theorems about the geometry-level pair predicates of Ring.v
   (properties C02, C03) for the pairs whose algorithm is within reach without
   the polygonal Jordan curve theorem: everything involving a point, rect x
   rect, line x line, rect containment, point containment; and operand-order
   symmetry of Intersects where it is structural. *)
From Coq Require Import Sorting.Permutation QArith Lra Lia.
From GJ Require Import Base Kernel KernelSpec KernelProofs IntersectsProofs Series SeriesSpec
  SeriesProofs Ring RingSpec PipProofs.
Open Scope Z_scope.

(* ------------------------------------------------------------------ *)
(* 1. rectangles as closed boxes of rational points                     *)

Definition in_rectQ (r : rect) (x y : Q) : Prop :=
  (inject_Z (px (fst r)) <= x)%Q /\ (x <= inject_Z (px (snd r)))%Q /\
  (inject_Z (py (fst r)) <= y)%Q /\ (y <= inject_Z (py (snd r)))%Q.

Definition rect_wf (r : rect) : Prop := px (fst r) <= px (snd r) /\ py (fst r) <= py (snd r).

Lemma rir_iff (r o : rect) :
  rect_intersects_rect r o = true <->
  py (fst r) <= py (snd o) /\ py (fst o) <= py (snd r) /\
  px (fst r) <= px (snd o) /\ px (fst o) <= px (snd r).
Proof.
  destruct r as [[a b] [c d]], o as [[e f] [g h]].
  unfold rect_intersects_rect, px, py; cbn [fst snd].
  destruct (Z.ltb_spec h b), (Z.ltb_spec d f), (Z.ltb_spec g a), (Z.ltb_spec c e);
    cbn [orb]; split; intros; try discriminate; try lia; reflexivity.
Qed.

Lemma rcr_iff (r o : rect) :
  rect_contains_rect r o = true <->
  px (fst r) <= px (fst o) /\ px (snd o) <= px (snd r) /\
  py (fst r) <= py (fst o) /\ py (snd o) <= py (snd r).
Proof.
  destruct r as [[a b] [c d]], o as [[e f] [g h]].
  unfold rect_contains_rect, px, py; cbn [fst snd].
  destruct (Z.ltb_spec e a), (Z.ltb_spec c g), (Z.ltb_spec f b), (Z.ltb_spec d h);
    cbn [orb]; split; intros; try discriminate; try lia; reflexivity.
Qed.

Lemma inj_le a b : a <= b -> (inject_Z a <= inject_Z b)%Q.
Proof. intros H. rewrite <- Zle_Qle. exact H. Qed.
Lemma inj_le' a b : (inject_Z a <= inject_Z b)%Q -> a <= b.
Proof. intros H. rewrite Zle_Qle. exact H. Qed.

(* Rect x Rect: true exactly when the closed boxes share a (rational) point *)
Theorem rect_intersects_rect_meets (r o : rect) : rect_wf r -> rect_wf o ->
  (rect_intersects_rect r o = true <-> exists x y, in_rectQ r x y /\ in_rectQ o x y).
Proof.
  intros [W1 W2] [W3 W4]. rewrite rir_iff. split.
  - intros (H1 & H2 & H3 & H4).
    exists (inject_Z (Z.max (px (fst r)) (px (fst o)))), (inject_Z (Z.max (py (fst r)) (py (fst o)))).
    unfold in_rectQ. repeat split; apply inj_le; lia.
  - intros (x & y & (A1 & A2 & A3 & A4) & (B1 & B2 & B3 & B4)).
    repeat split; apply inj_le'; eapply Qle_trans; eassumption.
Qed.

Theorem rect_intersects_rect_sym (r o : rect) :
  rect_intersects_rect r o = rect_intersects_rect o r.
Proof.
  apply Bool.eq_true_iff_eq. rewrite !rir_iff. lia.
Qed.

(* Rect contains Rect: true exactly when every point of o's box is in r's box *)
Theorem rect_contains_rect_covers (r o : rect) : rect_wf o ->
  (rect_contains_rect r o = true <-> forall x y, in_rectQ o x y -> in_rectQ r x y).
Proof.
  intros [W1 W2]. rewrite rcr_iff. split.
  - intros (H1 & H2 & H3 & H4) x y (A1 & A2 & A3 & A4). unfold in_rectQ.
    split; [eapply Qle_trans; [apply inj_le, H1|exact A1]|].
    split; [eapply Qle_trans; [exact A2|apply inj_le, H2]|].
    split; [eapply Qle_trans; [apply inj_le, H3|exact A3]|].
    eapply Qle_trans; [exact A4|apply inj_le, H4].
  - intros H.
    destruct (H (inject_Z (px (fst o))) (inject_Z (py (fst o)))) as (A1 & A2 & A3 & A4).
    { unfold in_rectQ. repeat split; apply inj_le; lia. }
    destruct (H (inject_Z (px (snd o))) (inject_Z (py (snd o)))) as (B1 & B2 & B3 & B4).
    { unfold in_rectQ. repeat split; apply inj_le; lia. }
    repeat split; apply inj_le'; assumption.
Qed.

(* ------------------------------------------------------------------ *)
(* 2. every pair with a point operand reduces to point membership (C01)  *)

Definition Lr (ps : list pt) : rng := RS {| closed := false; pts := ps |}.
Definition Rg (ps : list pt) : rng := RS {| closed := true; pts := ps |}.
Definition Pg (e : list pt) (hs : list (list pt)) : poly :=
  {| exterior := Rg e; holes := map Rg hs |}.

Lemma line_contains_point_r_eq (ps : list pt) (p : pt) :
  line_contains_point_r (Lr ps) p = line_contains_point {| closed := false; pts := ps |} p.
Proof. reflexivity. Qed.

Theorem point_intersects_rect_spec p r : point_intersects_rect p r = in_rectb r p.
Proof. apply rect_contains_point_spec. Qed.
Theorem point_intersects_line_spec p ps : point_intersects_line p (Lr ps) = in_lineb ps p.
Proof. unfold point_intersects_line. rewrite line_contains_point_r_eq. apply line_contains_point_spec. Qed.
Theorem point_intersects_poly_spec p e hs :
  point_intersects_poly p (Pg e hs) = in_polyb (ring_edges e) (map ring_edges hs) p.
Proof. apply poly_contains_point_spec. Qed.
Theorem line_intersects_point_spec ps p : line_contains_point_r (Lr ps) p = in_lineb ps p.
Proof. rewrite line_contains_point_r_eq. apply line_contains_point_spec. Qed.
Theorem poly_intersects_point_spec e hs p :
  poly_contains_point (Pg e hs) p = in_polyb (ring_edges e) (map ring_edges hs) p.
Proof. apply poly_contains_point_spec. Qed.

(* X contains Point is the same predicate as X intersects Point: for a single
   point "covers" and "meets" coincide (C03 clause X >= point) *)

(* ------------------------------------------------------------------ *)
(* 3. segments: the bounding-box filter never drops a meeting segment   *)

Lemma intersects_segment_boxes (s o : seg) :
  intersects_segment s o = true -> rect_intersects_rect (seg_rect o) (seg_rect s) = true.
Proof.
  destruct s as [a b], o as [c d]. unfold intersects_segment, intersects_segment_gen.
  destruct (axis_disjoint (py a) (py b) (py c) (py d)) eqn:Ey; [discriminate|].
  destruct (axis_disjoint (px a) (px b) (px c) (px d)) eqn:Ex; [discriminate|].
  intros _.
  assert (Hy : ~ (Z.max (py a) (py b) < Z.min (py c) (py d) \/ Z.max (py c) (py d) < Z.min (py a) (py b))).
  { intros H. apply axis_disjoint_iff in H. congruence. }
  assert (Hx : ~ (Z.max (px a) (px b) < Z.min (px c) (px d) \/ Z.max (px c) (px d) < Z.min (px a) (px b))).
  { intros H. apply axis_disjoint_iff in H. congruence. }
  apply rir_iff. unfold seg_rect, px, py in *; cbn [fst snd] in *. lia.
Qed.

Lemma existsb_swap {A B} (f : A -> B -> bool) (l : list A) (m : list B) :
  existsb (fun a => existsb (fun b => f a b) m) l = existsb (fun b => existsb (fun a => f a b) l) m.
Proof.
  induction l as [|a l IH]; cbn [existsb].
  - induction m as [|b m IHm]; cbn [existsb]; [reflexivity|]. rewrite <- IHm. reflexivity.
  - rewrite IH. clear IH. induction m as [|b m IHm]; cbn [existsb]; [reflexivity|].
    rewrite <- IHm. destruct (f a b), (existsb (fun b0 => f a b0) m),
      (existsb (fun a0 => f a0 b) l); reflexivity.
Qed.

Lemma existsb_ext' {A} (f g : A -> bool) l : (forall x, f x = g x) -> existsb f l = existsb g l.
Proof. intros H. induction l as [|x l IH]; cbn [existsb]; [reflexivity|]. rewrite H, IH. reflexivity. Qed.

(* searching o's segments with sa's box and testing for intersection = testing all of o's segments *)
Lemma search_exists (o : rng) (sa : seg) :
  existsb (fun si : seg * nat => intersects_segment sa (fst si)) (ring_search o (seg_rect sa))
  = existsb (fun sb => intersects_segment sa sb) (ring_segments o).
Proof.
  unfold ring_search.
  rewrite (existsb_filter_irrel (fun si : seg * nat => intersects_segment sa (fst si))).
  - apply (existsb_indexed (fun sb => intersects_segment sa sb)).
  - intros si Hk. destruct (intersects_segment sa (fst si)) eqn:E; [|reflexivity].
    apply intersects_segment_boxes in E. congruence.
Qed.

Definition lil_core (l o : rng) : bool :=
  existsb (fun sa => existsb (fun sb => intersects_segment sa sb) (ring_segments o)) (ring_segments l).

Lemma lil_core_sym l o : lil_core l o = lil_core o l.
Proof.
  unfold lil_core. rewrite existsb_swap. apply existsb_ext'. intros sb.
  apply existsb_ext'. intros sa. apply intersects_segment_sym.
Qed.

(* Line x Line without the shorter-first swap and without the box filters *)
Theorem line_intersects_line_eq (l o : rng) :
  line_intersects_line l o =
  negb (ring_empty l || ring_empty o) && rect_intersects_rect (ring_rect l) (ring_rect o) && lil_core l o.
Proof.
  unfold line_intersects_line.
  destruct (ring_empty l || ring_empty o); [reflexivity|]. cbn [negb andb].
  destruct (rect_intersects_rect (ring_rect l) (ring_rect o)); [|reflexivity]. cbn [negb andb].
  destruct (ring_npoints o <? ring_npoints l)%nat.
  - rewrite lil_core_sym. unfold lil_core. apply existsb_ext'. intros sa. apply search_exists.
  - unfold lil_core. apply existsb_ext'. intros sa. apply search_exists.
Qed.

(* C02 symmetry, line x line *)
Theorem line_intersects_line_sym (l o : rng) : line_intersects_line l o = line_intersects_line o l.
Proof.
  rewrite !line_intersects_line_eq, (rect_intersects_rect_sym (ring_rect l)), (lil_core_sym l o),
    (orb_comm (ring_empty l)). reflexivity.
Qed.

(* the segments of a non-empty series lie inside its rectangle *)
Lemma path_segs_in (ps : list pt) (a b : pt) : In (a, b) (path_segs ps) -> In a ps /\ In b ps.
Proof. apply path_segs_endpoints. Qed.

Lemma seg_rect_in_bbox (ps : list pt) (a b : pt) :
  In a ps -> In b ps -> rect_contains_rect (bbox_spec ps) (seg_rect (a, b)) = true.
Proof.
  intros Ha Hb. pose proof (bbox_spec_tight ps a Ha) as A. pose proof (bbox_spec_tight ps b Hb) as B.
  cbv zeta in A, B. apply rcr_iff. unfold seg_rect. cbn [fst snd]. unfold px, py in *. cbn [fst snd] in *. lia.
Qed.

Lemma rects_meet_mono (r r' o o' : rect) :
  rect_contains_rect r r' = true -> rect_contains_rect o o' = true ->
  rect_intersects_rect r' o' = true -> rect_intersects_rect r o = true.
Proof. rewrite !rcr_iff, !rir_iff. lia. Qed.

(* Line x Line, full statement: true exactly when both lines have a segment
   and some segment of one meets some segment of the other (closed segments
   sharing a rational point, by IntersectsQ.seg_meet_iff_common_point) *)
Theorem line_intersects_line_spec (ps qs : list pt) :
  line_intersects_line (Lr ps) (Lr qs) = true <->
  (2 <= length ps)%nat /\ (2 <= length qs)%nat /\
  exists sa sb, In sa (path_segs ps) /\ In sb (path_segs qs) /\ seg_meet sa sb.
Proof.
  rewrite line_intersects_line_eq. unfold Lr, ring_empty, ring_rect.
  rewrite !RS_empty, !RS_rect. unfold series_empty, npoints. cbn [closed pts andb orb].
  split.
  - rewrite !andb_true_iff, negb_true_iff, orb_false_iff, !Nat.ltb_ge.
    intros [[[H1 H2] _] H3]. split; [exact H1|split; [exact H2|]].
    unfold lil_core, ring_segments in H3. rewrite !RS_segs in H3. unfold segments_spec in H3. cbn [closed pts] in H3.
    apply existsb_exists in H3. destruct H3 as (sa & Ia & H3).
    apply existsb_exists in H3. destruct H3 as (sb & Ib & H3).
    exists sa, sb. split; [exact Ia|split; [exact Ib|]]. apply intersects_segment_iff. exact H3.
  - intros (H1 & H2 & sa & sb & Ia & Ib & Hm).
    assert (Hi : intersects_segment sa sb = true) by (apply intersects_segment_iff; exact Hm).
    rewrite !andb_true_iff, negb_true_iff, orb_false_iff, !Nat.ltb_ge.
    split; [split; [split; assumption|]|].
    + rewrite !series_rect_spec by (unfold series_empty, npoints; cbn [closed pts andb orb]; apply Nat.ltb_ge; assumption).
      cbn [pts]. destruct sa as [a b], sb as [c d].
      destruct (path_segs_in _ _ _ Ia) as [Aa Ab]. destruct (path_segs_in _ _ _ Ib) as [Bc Bd].
      apply (rects_meet_mono _ (seg_rect (a, b)) _ (seg_rect (c, d))).
      * apply seg_rect_in_bbox; assumption.
      * apply seg_rect_in_bbox; assumption.
      * rewrite rect_intersects_rect_sym. apply intersects_segment_boxes. exact Hi.
    + unfold lil_core, ring_segments. rewrite !RS_segs. unfold segments_spec. cbn [closed pts].
      apply existsb_exists. exists sa. split; [exact Ia|].
      apply existsb_exists. exists sb. split; [exact Ib|exact Hi].
Qed.

(* ------------------------------------------------------------------ *)
(* 4. containment by a rectangle (C03): bounding-box inclusion, which is
      inclusion of every vertex, hence (a box is convex) of every point    *)

Lemma on_seg_in_rect (q : rect) (a b p : pt) :
  in_rectb q a = true -> in_rectb q b = true -> on_seg (a, b) p -> in_rectb q p = true.
Proof.
  unfold in_rectb, on_seg. rewrite !andb_true_iff, !Z.leb_le.
  intros [[[A1 A2] A3] A4] [[[B1 B2] B3] B4] (_ & Hx & Hy). lia.
Qed.

Lemma bbox_in_rect_iff (q : rect) (ps : list pt) : ps <> [] ->
  (rect_contains_rect q (bbox_spec ps) = true <-> forall p, In p ps -> in_rectb q p = true).
Proof.
  intros Hne. rewrite rcr_iff. split.
  - intros (H1 & H2 & H3 & H4) p Hp. pose proof (bbox_spec_tight ps p Hp) as T. cbv zeta in T.
    unfold in_rectb. rewrite !andb_true_iff, !Z.leb_le. lia.
  - intros H. destruct (bbox_spec_attained ps Hne) as (p1 & p2 & p3 & p4 & I1 & I2 & I3 & I4 & E1 & E2 & E3 & E4).
    cbv zeta in *.
    pose proof (H _ I1) as Q1. pose proof (H _ I2) as Q2. pose proof (H _ I3) as Q3. pose proof (H _ I4) as Q4.
    unfold in_rectb in *. rewrite !andb_true_iff, !Z.leb_le in *. lia.
Qed.

(* Rect contains Line: true exactly when the line has a segment and all its vertices are in the box *)
Theorem rect_contains_line_spec (q : rect) (ps : list pt) :
  rect_contains_line q (Lr ps) = true <->
  (2 <= length ps)%nat /\ forall p, In p ps -> in_rectb q p = true.
Proof.
  unfold rect_contains_line, Lr, ring_empty, ring_rect. rewrite RS_empty, RS_rect.
  unfold series_empty, npoints. cbn [closed pts andb orb].
  rewrite andb_true_iff, negb_true_iff, Nat.ltb_ge. split.
  - intros [H1 H2]. split; [exact H1|].
    rewrite series_rect_spec in H2 by (unfold series_empty, npoints; cbn [closed pts andb orb]; apply Nat.ltb_ge; exact H1).
    cbn [pts] in H2. apply bbox_in_rect_iff; [|exact H2]. intros ->. cbn in H1. lia.
  - intros [H1 H2]. split; [exact H1|].
    rewrite series_rect_spec by (unfold series_empty, npoints; cbn [closed pts andb orb]; apply Nat.ltb_ge; exact H1).
    cbn [pts]. apply bbox_in_rect_iff; [|exact H2]. intros ->. cbn in H1. lia.
Qed.

(* ... and then every point of every segment of the line is in the box *)
Corollary rect_contains_line_points (q : rect) (ps : list pt) (s : seg) (p : pt) :
  rect_contains_line q (Lr ps) = true -> In s (path_segs ps) -> on_seg s p -> in_rectb q p = true.
Proof.
  intros H Hs Hp. apply rect_contains_line_spec in H. destruct H as [_ H]. destruct s as [a b].
  destruct (path_segs_in _ _ _ Hs) as [Ia Ib].
  apply (on_seg_in_rect q a b p); auto.
Qed.

(* Rect contains Poly: the exterior ring's vertices are all in the box (holes lie inside the exterior) *)
Theorem rect_contains_poly_spec (q : rect) (e : list pt) (hs : list (list pt)) :
  rect_contains_poly q (Pg e hs) = true <->
  (3 <= length e)%nat /\ forall p, In p e -> in_rectb q p = true.
Proof.
  unfold rect_contains_poly, poly_empty, poly_rect, Pg, Rg, ring_empty, ring_rect. cbn [exterior].
  rewrite RS_empty, RS_rect. unfold series_empty, npoints. cbn [closed pts andb orb].
  rewrite andb_true_iff, negb_true_iff, orb_false_iff, !Nat.ltb_ge. split.
  - intros [[H1 H0] H2]. split; [exact H1|].
    rewrite series_rect_spec in H2 by (unfold series_empty, npoints; cbn [closed pts andb]; apply orb_false_iff; split; apply Nat.ltb_ge; lia).
    cbn [pts] in H2. apply bbox_in_rect_iff; [|exact H2]. intros ->. cbn in H1. lia.
  - intros [H1 H2]. split; [split; lia|].
    rewrite series_rect_spec by (unfold series_empty, npoints; cbn [closed pts andb]; apply orb_false_iff; split; apply Nat.ltb_ge; lia).
    cbn [pts]. apply bbox_in_rect_iff; [|exact H2]. intros ->. cbn in H1. lia.
Qed.

(* ------------------------------------------------------------------ *)
(* 5. containment by a point (C03): X is non-empty and all of X's vertices equal the point *)

Lemma rect_eqb_eq r o : rect_eqb r o = true <-> r = o.
Proof.
  unfold rect_eqb. rewrite andb_true_iff, !pt_eqb_eq. destruct r, o; cbn [fst snd].
  split; [intros [-> ->]; reflexivity|intros H; inversion H; auto].
Qed.

Lemma bbox_point_iff (ps : list pt) (p : pt) : ps <> [] ->
  (bbox_spec ps = (p, p) <-> forall v, In v ps -> v = p).
Proof.
  intros Hne. split.
  - intros E v Hv. pose proof (bbox_spec_tight ps v Hv) as T. cbv zeta in T. rewrite E in T. cbn [fst snd] in T.
    destruct v, p. unfold px, py in T. cbn [fst snd] in T. f_equal; lia.
  - intros H. destruct (bbox_spec_attained ps Hne) as (p1 & p2 & p3 & p4 & I1 & I2 & I3 & I4 & E1 & E2 & E3 & E4).
    cbv zeta in *. rewrite (H _ I1) in E1. rewrite (H _ I2) in E2. rewrite (H _ I3) in E3. rewrite (H _ I4) in E4.
    destruct (bbox_spec ps) as [[a b] [c d]]. destruct p as [x y]. unfold px, py in *. cbn [fst snd] in *. subst. reflexivity.
Qed.

Theorem point_contains_rect_spec (p : pt) (q : rect) : point_contains_rect p q = true <-> q = (p, p).
Proof. unfold point_contains_rect, point_rect. rewrite rect_eqb_eq. split; congruence. Qed.

Theorem point_contains_line_spec (p : pt) (ps : list pt) :
  point_contains_line p (Lr ps) = true <-> (2 <= length ps)%nat /\ forall v, In v ps -> v = p.
Proof.
  unfold point_contains_line, point_rect, Lr, ring_empty, ring_rect. rewrite RS_empty, RS_rect.
  unfold series_empty, npoints. cbn [closed pts andb orb].
  rewrite andb_true_iff, negb_true_iff, Nat.ltb_ge, rect_eqb_eq. split.
  - intros [H1 H2]. split; [exact H1|].
    rewrite series_rect_spec in H2 by (unfold series_empty, npoints; cbn [closed pts andb orb]; apply Nat.ltb_ge; exact H1).
    cbn [pts] in H2. apply bbox_point_iff; [|exact H2]. intros ->. cbn in H1. lia.
  - intros [H1 H2]. split; [exact H1|].
    rewrite series_rect_spec by (unfold series_empty, npoints; cbn [closed pts andb orb]; apply Nat.ltb_ge; exact H1).
    cbn [pts]. apply bbox_point_iff; [|exact H2]. intros ->. cbn in H1. lia.
Qed.

(* ------------------------------------------------------------------ *)
(* 6. necessary conditions of containment by a ring, for all inputs      *)

Theorem rcs_endpoints_in (r : rng) (sg : seg) (allow : bool) :
  rcs r sg allow = true -> rcp_hit r (fst sg) allow = true /\ rcp_hit r (snd sg) allow = true.
Proof.
  unfold rcs, ring_contains_segment, rcp_hit. destruct sg as [a b]. cbn [fst snd].
  destruct (negb (rect_contains_point (ring_rect r) a) || negb (rect_contains_point (ring_rect r) b)); [discriminate|].
  destruct (fst (ring_contains_point r a allow)) eqn:Ea; cbn [negb]; [|discriminate].
  destruct (pt_eqb b a) eqn:Eb.
  - apply pt_eqb_eq in Eb. subst b. intros _. split; [reflexivity|exact Ea].
  - destruct (fst (ring_contains_point r b allow)) eqn:Eb'; cbn [negb]; [|discriminate]. auto.
Qed.

Theorem rcr_core_rect (r o : rng) (allow : bool) :
  rcr_core r o allow = true -> rect_contains_rect (ring_rect r) (ring_rect o) = true.
Proof.
  unfold rcr_core. destruct (ring_empty r || ring_empty o); [discriminate|].
  destruct (rect_contains_rect (ring_rect r) (ring_rect o)); [reflexivity|discriminate].
Qed.

(* a ring that contains another (non-shortcut path) contains all of its segments' endpoints *)
Theorem rcr_core_vertices (r o : rng) (allow : bool) (sg : seg) :
  rcr_core r o allow = true -> ring_convex r = false -> In sg (ring_segments o) ->
  rcp_hit r (fst sg) allow = true /\ rcp_hit r (snd sg) allow = true.
Proof.
  unfold rcr_core. destruct (ring_empty r || ring_empty o); [discriminate|].
  destruct (rect_contains_rect (ring_rect r) (ring_rect o)); cbn [negb]; [|discriminate].
  intros H Hc Hin. rewrite Hc in H. rewrite forallb_forall in H. apply rcs_endpoints_in. apply H. exact Hin.
Qed.

Print Assumptions line_intersects_line_spec.
Print Assumptions rect_contains_poly_spec.
