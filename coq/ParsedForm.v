(* ParsedForm.v — property C06: every object that Parse returns for a document
   whose numbers are finite is in parsed form (RoundTrip.pf), for every option
   set.  With RoundTrip.parse_emit_parse: Parse -> JSON -> Parse reaches a
   fixpoint after one step for every accepted document (tree level). *)
From Coq Require Import Lia.
From GJ Require Import Base JsonConst Json JsonSpec JsonProofs EmitProofs RoundTrip Obj JsonExec.
Open Scope Z_scope.

(* every number of the document is finite (no lexeme overflows to an infinity) *)
Fixpoint fin_doc (v : jv) : bool :=
  match v with
  | JNum _ f => match f with FV _ => true | _ => false end
  | JArr l => forallb fin_doc l
  | JObj ms => forallb (fun kv => fin_doc (snd kv)) ms
  | _ => true
  end.

Lemma fin_doc_elems (v : jv) : fin_doc v = true -> Forall (fun x => fin_doc x = true) (elems v).
Proof.
  destruct v as [| | |r f|r d|l|ms]; intros H; cbn [elems]; try (constructor; [exact H|constructor]).
  - cbn [fin_doc] in H. apply Forall_forall. intros x Hx. rewrite forallb_forall in H. auto.
  - cbn [fin_doc] in H. apply Forall_forall. intros x Hx. apply in_map_iff in Hx. destruct Hx as (kv & <- & Hkv).
    rewrite forallb_forall in H. exact (H kv Hkv).
Qed.

(* ------------------------------------------------------------------ *)
(* what the member scan hands to the parsers comes from the document    *)

Lemma last_member_in (name : list Z) (ms : list (jkey * jv)) (v : jv) :
  last_member name ms = Some v -> exists k, In (k, v) ms.
Proof.
  rewrite last_member_fold. intros H.
  assert (G : forall acc, fold_left (lm_step name) ms acc = Some v -> acc = Some v \/ exists k, In (k, v) ms).
  { clear H. induction ms as [|kv ms IH]; intros acc H; cbn [fold_left] in H; [left; exact H|].
    destruct (IH _ H) as [E|[k Hk]]; [|right; exists k; right; exact Hk].
    unfold lm_step in E. destruct kv as [k0 x]. cbn [fst snd] in E.
    match type of E with context [if ?c then _ else _] => destruct c end.
    - right. exists k0. left. inversion E. reflexivity.
    - left. exact E. }
  destruct (G None H) as [E|E]; [discriminate|exact E].
Qed.

Lemma member_fin (ms : list (jkey * jv)) (k : jkey) (v : jv) : fin_doc (JObj ms) = true -> In (k, v) ms -> fin_doc v = true.
Proof. cbn [fin_doc]. intros H Hin. rewrite forallb_forall in H. exact (H (k, v) Hin). Qed.

Lemma last_member_fin (name : list Z) (ms : list (jkey * jv)) (v : jv) :
  fin_doc (JObj ms) = true -> last_member name ms = Some v -> fin_doc v = true.
Proof. intros Hf H. destruct (last_member_in name ms v H) as [k Hk]. exact (member_fin ms k v Hf Hk). Qed.

Lemma scan_foreign_filter (ms : list (jkey * jv)) : forall ks,
  k_foreign (scan_from ks ms) = k_foreign ks ++ filter foreign_key ms.
Proof.
  induction ms as [|kv ms IH]; intros ks; [cbn; rewrite app_nil_r; reflexivity|].
  unfold scan_from in *. cbn [fold_left filter]. rewrite IH. unfold scan_step, foreign_key. cbv zeta.
  destruct (bytes_eqb (snd (fst kv)) s_type); [reflexivity|].
  destruct (bytes_eqb (snd (fst kv)) s_coordinates); [reflexivity|].
  destruct (bytes_eqb (snd (fst kv)) s_geometries); [reflexivity|].
  destruct (bytes_eqb (snd (fst kv)) s_geometry); [reflexivity|].
  destruct (bytes_eqb (snd (fst kv)) s_features); [reflexivity|].
  cbn [k_foreign orb negb]. rewrite <- app_assoc. reflexivity.
Qed.

Lemma foreign_is_filter (ms : list (jkey * jv)) : k_foreign (scan_keys ms) = filter foreign_key ms.
Proof. unfold scan_keys. change (fold_left scan_step ms ?k) with (scan_from k ms). rewrite scan_foreign_filter. reflexivity. Qed.

Lemma foreign_keys_ok (ms : list (jkey * jv)) : forallb foreign_key (k_foreign (scan_keys ms)) = true.
Proof. rewrite foreign_is_filter. apply forallb_forall. intros x Hx. apply filter_In in Hx. tauto. Qed.

Lemma foreign_fin (ms : list (jkey * jv)) : fin_doc (JObj ms) = true -> fin_doc (JObj (k_foreign (scan_keys ms))) = true.
Proof.
  rewrite foreign_is_filter. cbn [fin_doc]. intros H. apply forallb_forall. intros x Hx. apply filter_In in Hx.
  rewrite forallb_forall in H. apply H. tauto.
Qed.

(* ------------------------------------------------------------------ *)
(* numbers                                                              *)

Lemma take_nums_fin (n : nat) : forall l t, Forall (fun x => fin_doc x = true) l -> take_nums false n l = Some t ->
  Forall fin t /\ (length t <= n)%nat.
Proof.
  induction n as [|n IH]; intros l t Hl H; [inversion H; split; [constructor|cbn; lia]|].
  destruct l as [|v l]; [inversion H; split; [constructor|cbn; lia]|]. cbn [take_nums] in H.
  inversion Hl as [|? ? Hv Hl']; subst.
  destruct v as [| | |r f|r d|l0|ms]; try discriminate.
  destruct (take_nums false n l) as [t'|] eqn:E; [|discriminate]. inversion H; subst.
  destruct (IH l t' Hl' E) as [Ht Hn]. cbn [fin_doc] in Hv. split; [|cbn [length]; lia].
  constructor; [destruct f; [exact I|discriminate|discriminate]|exact Ht].
Qed.

Lemma take_nums_len (allow : bool) (n : nat) : forall l t, take_nums allow n l = Some t -> (length t <= n)%nat.
Proof.
  induction n as [|n IH]; intros l t H; [inversion H; cbn; lia|].
  destruct l as [|v l]; [inversion H; cbn; lia|]. cbn [take_nums] in H.
  destruct v as [| | |r f|r d|l0|ms]; try discriminate.
  - destruct allow; [|discriminate]. destruct (take_nums true n l) as [t'|] eqn:E; [|discriminate]. inversion H; subst.
    specialize (IH l t' E). cbn [length]. lia.
  - destruct (take_nums allow n l) as [t'|] eqn:E; [|discriminate]. inversion H; subst.
    specialize (IH l t' E). cbn [length]. lia.
Qed.

(* the running extra of the coordinate parsers after n positions *)
Definition st_ok (n : nat) (ex : option extra) : Prop :=
  match ex with
  | None => True
  | Some e => (1 <= dims e <= 2)%nat /\ length (values e) = (dims e * n)%nat /\ members e = None
  end.

Lemma st_ok_form (n : nat) (ex : option extra) (foreign : list (jkey * jv)) :
  st_ok n ex -> forallb foreign_key foreign = true ->
  ex_form n (with_members ex foreign) /\ ex_values (with_members ex foreign) = ex_values ex.
Proof.
  intros Hs Hf. destruct foreign as [|m r].
  - cbn [with_members]. split; [|reflexivity]. destruct ex as [e|]; [|exact I]. cbn [st_ok ex_form] in *.
    destruct Hs as (Hd & Hl & Hm). rewrite Hm. repeat split; lia.
  - cbn [with_members]. destruct ex as [e|]; cbn [st_ok ex_form dims values members ex_values] in *.
    + destruct Hs as (Hd & Hl & Hm). repeat split; try lia; [congruence|exact Hf].
    + repeat split; try lia; [congruence|exact Hf].
Qed.

Lemma extra_of_nums_ok (nums : list fnum) : (length nums <= 4)%nat -> st_ok 1 (extra_of_nums nums).
Proof.
  intros H. destruct nums as [|x [|y [|z [|m [|w r]]]]]; cbn [extra_of_nums st_ok dims values members length] in *;
    try exact I; try (repeat split; lia).
Qed.

(* ------------------------------------------------------------------ *)
(* the position loop keeps the running extra consistent                 *)

Lemma nth_fin (l : list fnum) (i : nat) : Forall fin l -> fin (nth i l (FV 0)).
Proof.
  intros H. destruct (Nat.lt_ge_cases i (length l)) as [Hi|Hi].
  - rewrite Forall_forall in H. apply H. apply nth_In. exact Hi.
  - rewrite nth_overflow by exact Hi. exact I.
Qed.

Lemma pad_dims_ok (d : nat) (more : list fnum) : Forall fin more -> length (pad_dims d more) = d /\ Forall fin (pad_dims d more).
Proof.
  intros H. unfold pad_dims. split; [rewrite map_length, seq_length; reflexivity|].
  apply Forall_forall. intros x Hx. apply in_map_iff in Hx. destruct Hx as (i & <- & _). apply nth_fin. exact H.
Qed.

Lemma pos_step_inv (mixed arr : bool) (n0 : nat) (pts : list fpt) (ex : option extra) (first : bool) (v : jv)
      (pts' : list fpt) (ex' : option extra) (first' : bool) :
  fin_doc v = true -> st_ok (n0 + length pts) ex -> Forall fin (ex_values ex) ->
  (first = true -> (n0 + length pts = 0)%nat /\ ex = None) ->
  pos_step mixed arr (ROk (pts, ex, first)) v = ROk (pts', ex', first') ->
  (exists p, pts' = p :: pts /\ fin_pt p) /\ st_ok (n0 + length pts') ex' /\ Forall fin (ex_values ex') /\ first' = false.
Proof.
  intros Hv Hs Hf H1 H. unfold pos_step in H. destruct (arr && negb (is_array v)); [discriminate|].
  unfold parse_position in H. destruct (take_nums false 4 (elems v)) as [nums|] eqn:En; [|discriminate].
  destruct (take_nums_fin 4 _ _ (fin_doc_elems v Hv) En) as [Hfin Hlen].
  destruct nums as [|x [|y r]]; try discriminate. cbn [nth skipn] in H.
  inversion Hfin as [|? ? Hx Hfin1]; subst. inversion Hfin1 as [|? ? Hy Hr]; subst. cbn [length] in Hlen.
  assert (Hp : fin_pt (x, y)) by (split; assumption).
  destruct ex as [e|].
  - inversion H; subst. destruct (pad_dims_ok (dims e) r Hr) as [Hpl Hpf].
    cbn [st_ok] in Hs. destruct Hs as (Hd & Hl & Hm).
    split; [exists (x, y); split; [reflexivity|exact Hp]|]. split; [|split; [|reflexivity]].
    + cbn [st_ok dims values members length]. split; [lia|]. split; [|reflexivity].
      rewrite app_length, Hpl, Hl. cbn [length]. nia.
    + cbn [ex_values values] in *. apply Forall_app. split; assumption.
  - destruct r as [|z r'].
    + inversion H; subst. split; [exists (x, y); split; [reflexivity|exact Hp]|].
      split; [exact I|]. split; [constructor|reflexivity].
    + destruct first.
      * inversion H; subst. destruct (H1 eq_refl) as [H0 _].
        split; [exists (x, y); split; [reflexivity|exact Hp]|]. split; [|split; [exact Hr|reflexivity]].
        cbn [st_ok dims values members length] in *. split; [lia|]. split; [nia|reflexivity].
      * destruct mixed; [|discriminate]. inversion H; subst.
        split; [exists (x, y); split; [reflexivity|exact Hp]|]. split; [exact I|]. split; [constructor|reflexivity].
Qed.

Lemma pos_fold_err (mixed arr : bool) (l : list jv) (c : Z) : fold_left (pos_step mixed arr) l (RErr c) = RErr c.
Proof. induction l as [|v l IH]; [reflexivity|]. cbn [fold_left pos_step]. exact IH. Qed.

Lemma pos_fold_inv (mixed arr : bool) (n0 : nat) : forall (l : list jv) (pts : list fpt) (ex : option extra) (first : bool)
      (pts' : list fpt) (ex' : option extra) (first' : bool),
  Forall (fun x => fin_doc x = true) l -> Forall fin_pt pts -> st_ok (n0 + length pts) ex -> Forall fin (ex_values ex) ->
  (first = true -> (n0 + length pts = 0)%nat /\ ex = None) ->
  fold_left (pos_step mixed arr) l (ROk (pts, ex, first)) = ROk (pts', ex', first') ->
  Forall fin_pt pts' /\ st_ok (n0 + length pts') ex' /\ Forall fin (ex_values ex') /\
  (first' = true -> (n0 + length pts' = 0)%nat /\ ex' = None).
Proof.
  induction l as [|v l IH]; intros pts ex first pts' ex' first' Hl Hp Hs Hf H1 H.
  - cbn [fold_left] in H. inversion H; subst. repeat split; try assumption; apply H1; assumption.
  - inversion Hl as [|? ? Hv Hl']; subst. cbn [fold_left] in H.
    destruct (pos_step mixed arr (ROk (pts, ex, first)) v) as [[[pts1 ex1] f1]|c] eqn:E; [|rewrite pos_fold_err in H; discriminate].
    destruct (pos_step_inv mixed arr n0 pts ex first v pts1 ex1 f1 Hv Hs Hf H1 E) as ((p & -> & Hpp) & Hs1 & Hf1 & ->).
    apply (IH (p :: pts) ex1 false pts' ex' first' Hl'); try assumption; [constructor; assumption|discriminate].
Qed.

(* ------------------------------------------------------------------ *)
(* rings                                                                *)

Lemma npts_app (a b : list (list fpt)) : npts (a ++ b) = (npts a + npts b)%nat.
Proof. induction a as [|r a IH]; [reflexivity|]. cbn [app npts fold_right] in *. fold (npts (a ++ b)). fold (npts a). lia. Qed.

Lemma npts_rev (l : list (list fpt)) : npts (rev l) = npts l.
Proof.
  induction l as [|r l IH]; [reflexivity|]. cbn [rev]. rewrite npts_app, IH. cbn [npts fold_right]. fold (npts l). lia.
Qed.

Lemma ring_step_inv (rings : list (list fpt)) (ex : option extra) (first : bool) (ring : jv)
      (rings' : list (list fpt)) (ex' : option extra) (first' : bool) :
  fin_doc ring = true -> Forall (Forall fin_pt) rings -> st_ok (npts rings) ex -> Forall fin (ex_values ex) ->
  (first = true -> npts rings = 0%nat /\ ex = None) ->
  ring_step (ROk (rings, ex, first)) ring = ROk (rings', ex', first') ->
  Forall (Forall fin_pt) rings' /\ st_ok (npts rings') ex' /\ Forall fin (ex_values ex') /\ first' = false.
Proof.
  intros Hv Hr Hs Hf H1 H. unfold ring_step in H. destruct (negb (is_array ring)); [discriminate|].
  destruct (fold_left (pos_step MIXED_OK false) (elems ring) (ROk ([], ex, first))) as [[[pts1 ex1] f1]|c] eqn:E; [|discriminate].
  inversion H; subst.
  destruct (pos_fold_inv MIXED_OK false (npts rings) (elems ring) [] ex first pts1 ex' f1 (fin_doc_elems ring Hv)) as (Hp & Hs1 & Hf1 & _);
    try assumption; [constructor|cbn [length]; rewrite Nat.add_0_r; exact Hs|cbn [length]; rewrite Nat.add_0_r; exact H1|].
  repeat split; try assumption.
  - constructor; [|exact Hr]. apply Forall_rev. exact Hp.
  - cbn [npts fold_right]. fold (npts rings). rewrite rev_length. rewrite Nat.add_comm. exact Hs1.
Qed.

Lemma ring_fold_err (l : list jv) (c : Z) : fold_left ring_step l (RErr c) = RErr c.
Proof. induction l as [|v l IH]; [reflexivity|]. cbn [fold_left ring_step]. exact IH. Qed.

Lemma ring_fold_inv : forall (l : list jv) (rings : list (list fpt)) (ex : option extra) (first : bool)
      (rings' : list (list fpt)) (ex' : option extra) (first' : bool),
  Forall (fun x => fin_doc x = true) l -> Forall (Forall fin_pt) rings -> st_ok (npts rings) ex -> Forall fin (ex_values ex) ->
  (first = true -> npts rings = 0%nat /\ ex = None) ->
  fold_left ring_step l (ROk (rings, ex, first)) = ROk (rings', ex', first') ->
  Forall (Forall fin_pt) rings' /\ st_ok (npts rings') ex' /\ Forall fin (ex_values ex').
Proof.
  induction l as [|v l IH]; intros rings ex first rings' ex' first' Hl Hr Hs Hf H1 H.
  - cbn [fold_left] in H. inversion H; subst. repeat split; assumption.
  - inversion Hl as [|? ? Hv Hl']; subst. cbn [fold_left] in H.
    destruct (ring_step (ROk (rings, ex, first)) v) as [[[r1 ex1] f1]|c] eqn:E; [|rewrite ring_fold_err in H; discriminate].
    destruct (ring_step_inv rings ex first v r1 ex1 f1 Hv Hr Hs Hf H1 E) as (Hr1 & Hs1 & Hf1 & ->).
    apply (IH r1 ex1 false rings' ex' first' Hl'); try assumption. discriminate.
Qed.

(* ------------------------------------------------------------------ *)
(* the coordinate parsers                                               *)

Lemma point_coords_form (top : bool) (rc : option jv) (p : fpt) (ex : option extra) :
  parse_point_coords top rc = ROk (p, ex) -> st_ok 1 ex.
Proof.
  unfold parse_point_coords. destruct rc as [v|]; [|discriminate]. destruct (top && negb (is_array v)); [discriminate|].
  destruct (take_nums true 4 (elems v)) as [nums|] eqn:E; [|discriminate].
  destruct nums as [|x [|y r]]; try discriminate. intros H. inversion H; subst.
  apply (extra_of_nums_ok (x :: y :: r)). exact (take_nums_len true 4 _ _ E).
Qed.

Lemma line_coords_form (top : bool) (v : jv) (ps : list fpt) (ex : option extra) :
  fin_doc v = true -> parse_line_coords top (Some v) = ROk (ps, ex) ->
  Forall fin_pt ps /\ st_ok (length ps) ex /\ Forall fin (ex_values ex).
Proof.
  intros Hv. unfold parse_line_coords. destruct (top && negb (is_array v)); [discriminate|].
  destruct (fold_left (pos_step MIXED_OK true) (elems v) (ROk ([], None, true))) as [[[pts1 ex1] f1]|c] eqn:E; [|discriminate].
  intros H. inversion H; subst.
  destruct (pos_fold_inv MIXED_OK true 0 (elems v) [] None true pts1 ex f1 (fin_doc_elems v Hv)
              (Forall_nil _) I (Forall_nil _) (fun _ => conj eq_refl eq_refl) E) as (Hp & Hs & Hf & _).
  rewrite rev_length. repeat split; [apply Forall_rev; exact Hp|exact Hs|exact Hf].
Qed.

Lemma poly_coords_form (top : bool) (v : jv) (rings : list (list fpt)) (ex : option extra) :
  fin_doc v = true -> parse_poly_coords top (Some v) = ROk (rings, ex) ->
  Forall (Forall fin_pt) rings /\ st_ok (npts rings) ex /\ Forall fin (ex_values ex).
Proof.
  intros Hv. unfold parse_poly_coords. destruct (top && negb (is_array v)); [discriminate|].
  destruct (fold_left ring_step (elems v) (ROk ([], None, true))) as [[[r1 ex1] f1]|c] eqn:E; [|discriminate].
  intros H. inversion H; subst.
  destruct (ring_fold_inv (elems v) [] None true r1 ex f1 (fin_doc_elems v Hv)
              (Forall_nil _) I (Forall_nil _) (fun _ => conj eq_refl eq_refl) E) as (Hr & Hs & Hf).
  rewrite npts_rev. repeat split; [apply Forall_rev; exact Hr|exact Hs|exact Hf].
Qed.

(* ------------------------------------------------------------------ *)
(* pieces of the main theorem                                           *)

Lemma check_inv (o : popts) (g : gobj) (code : Z) (r : gobj) :
  (if require_valid o && negb (g_valid o g) then PErr code else POk g) = POk r -> r = g /\ check_ok o g.
Proof.
  unfold check_ok. destruct (require_valid o && negb (g_valid o g)); [discriminate|]. intros H. inversion H. split; reflexivity.
Qed.

Lemma st_ok_child (n : nat) (ex : option extra) : st_ok n ex -> ex_form n ex /\ no_members ex.
Proof.
  intros H. destruct (st_ok_form n ex [] H eq_refl) as [Hf _]. cbn [with_members] in Hf. split; [exact Hf|].
  destruct ex as [e|]; [|exact I]. cbn [st_ok no_members] in *. tauto.
Qed.

Lemma members_only_with (foreign : list (jkey * jv)) : forallb foreign_key foreign = true ->
  members_only (with_members None foreign) /\ ex_members (with_members None foreign) = foreign.
Proof.
  intros H. destruct (st_ok_form 0 None foreign I H) as [Hf _]. split; [split; [exact Hf|]|]; destruct foreign; reflexivity.
Qed.

Lemma pf_coll_intro (o : popts) (one : Z) (k : Z) (cs : list gobj) (ex : option extra) :
  0 <= k <= 4 -> members_only ex -> (k < 3 -> check_ok o (JColl k cs ex)) ->
  Forall (fun c => if k <? 3 then child_pf k c else pf o one c) cs -> pf o one (JColl k cs ex).
Proof.
  intros Hk Hm Hc Hch. cbn [pf]. split; [exact Hk|]. split; [exact Hm|]. split; [exact Hc|].
  clear Hc. induction Hch as [|c cs Hcc Hcs IH]; [exact I|]. split; [exact Hcc|exact IH].
Qed.

Lemma first_member_in (name : list Z) (ms : list (jkey * jv)) (v : jv) :
  first_member name ms = Some v -> exists k, In (k, v) ms.
Proof.
  unfold first_member.
  match goal with |- context [find ?f ms] => destruct (find f ms) as [kv|] eqn:E end; [|discriminate]. intros H. inversion H; subst.
  apply find_some in E. destruct E as [Hin _]. exists (fst kv). destruct kv; exact Hin.
Qed.

Lemma get2_fin (a b : list Z) (ms : list (jkey * jv)) (v : jv) :
  fin_doc (JObj ms) = true -> get2 a b ms = Some v -> fin_doc v = true.
Proof.
  intros Hf. unfold get2. destruct (first_member a ms) as [w|] eqn:E; [|discriminate].
  destruct w as [| | |r f|r d|l|ms2]; try discriminate. intros H.
  destruct (first_member_in a ms _ E) as [k Hk]. pose proof (member_fin ms k _ Hf Hk) as Hf2.
  destruct (first_member_in b ms2 _ H) as [k2 Hk2]. exact (member_fin ms2 k2 v Hf2 Hk2).
Qed.

Lemma circle_of_form (o : popts) (one : Z) (p : fpt) (ms : list (jkey * jv)) (g : gobj) :
  fin_doc (JObj ms) = true -> circle_of o one p ms = Some (POk g) ->
  exists m, g = JCircle p m /\ fin m /\ disable_circle o = false.
Proof.
  intros Hf. unfold circle_of. destruct (disable_circle o); [discriminate|].
  destruct (get2 s_properties s_type ms) as [tv|]; [|discriminate].
  destruct (bytes_eqb (str_of tv) s_Circle); [|discriminate].
  destruct (negb _); [discriminate|].
  destruct (get2 s_properties s_radius ms) as [rv|] eqn:Er.
  - pose proof (get2_fin _ _ _ _ Hf Er) as Hrv.
    destruct rv as [| | |r f|r d|l|ms2]; try discriminate; intros H; inversion H; subst; eexists; (split; [reflexivity|]); (split; [|reflexivity]);
      try (destruct (bytes_eqb _ s_km); exact I).
    cbn [fin_doc] in Hrv. destruct f; try discriminate. destruct (bytes_eqb _ s_km); exact I.
  - intros H; inversion H; subst; eexists; (split; [reflexivity|]); (split; [|reflexivity]). destruct (bytes_eqb _ s_km); exact I.
Qed.

Lemma circle_of_nil (o : popts) (one : Z) (p : fpt) : circle_of o one p [] = None.
Proof. unfold circle_of. destruct (disable_circle o); reflexivity. Qed.

Lemma fnum_ltb_fin (a b : fnum) : fnum_ltb a b = true -> fin a /\ fin b.
Proof. destruct a, b; cbn; try discriminate. intros _. split; exact I. Qed.
Lemma fnum_eqb_fin (a b : fnum) : fnum_eqb a b = true -> fin a /\ fin b /\ a = b.
Proof. destruct a, b; cbn; try discriminate. intros H. apply Z.eqb_eq in H. subst. repeat split. Qed.

Lemma perfect_rect_form (ext : list fpt) (d : fpt) : perfect_rect ext = true -> rect_form (nth 0 ext d) (nth 2 ext d).
Proof.
  unfold perfect_rect. destruct ext as [|p0 [|p1 [|p2 [|p3 [|p4 [|p5 r]]]]]]; try discriminate. intros H.
  rewrite !andb_true_iff in H. destruct H as (((((((H1 & H2) & H3) & H4) & H5) & H6) & H7) & H8).
  cbn [nth]. destruct (fnum_ltb_fin _ _ H1) as [A1 A2]. destruct (fnum_eqb_fin _ _ H2) as (B1 & B2 & B3).
  destruct (fnum_eqb_fin _ _ H3) as (C1 & C2 & C3). destruct (fnum_ltb_fin _ _ H4) as [D1 D2].
  unfold rect_form, fin_pt. repeat split; try assumption.
  - rewrite <- C3. exact H1.
  - rewrite B3. exact H4.
Qed.

Lemma map_until_forall' {A B} (f : A -> res B) (P : A -> Prop) (Q : B -> Prop) (l : list A) (out : list B) :
  Forall P l -> (forall x y, P x -> f x = ROk y -> Q y) -> map_until f l = ROk out -> Forall Q out.
Proof.
  revert out. induction l as [|x l IH]; intros out Hl Hf H; cbn [map_until] in H.
  - inversion H. constructor.
  - inversion Hl as [|? ? Hx Hl']; subst. destruct (f x) as [b|c] eqn:E; [|discriminate].
    destruct (map_until f l) as [t|c] eqn:Et; [|discriminate]. inversion H; subst.
    constructor; [exact (Hf x b Hx E)|]. apply IH; [exact Hl'|exact Hf|reflexivity].
Qed.

(* MAIN *)
Theorem parse_pf (fuel : nat) : forall (o : popts) (one : Z) (v : jv) (g : gobj),
  fin_doc v = true -> parse fuel o one v = POk g -> pf o one g.
Proof.
  induction fuel as [|f IH]; intros o one v g Hv H; [discriminate|].
  cbn [parse] in H. destruct v as [| | |raw x|raw d|l|ms]; try discriminate.
  pose proof (foreign_keys_ok ms) as Hfor. pose proof (foreign_fin ms Hv) as Hffin.
  destruct (scan_keys_last ms) as (_ & Kc & Kgs & Kg & Kf).
  assert (Hc : forall cv, k_coords (scan_keys ms) = Some cv -> fin_doc cv = true)
    by (intros cv E; rewrite Kc in E; exact (last_member_fin _ ms cv Hv E)).
  assert (Hgs : forall cv, k_geoms (scan_keys ms) = Some cv -> fin_doc cv = true)
    by (intros cv E; rewrite Kgs in E; exact (last_member_fin _ ms cv Hv E)).
  assert (Hg : forall cv, k_geom (scan_keys ms) = Some cv -> fin_doc cv = true)
    by (intros cv E; rewrite Kg in E; exact (last_member_fin _ ms cv Hv E)).
  assert (Hfe : forall cv, k_feats (scan_keys ms) = Some cv -> fin_doc cv = true)
    by (intros cv E; rewrite Kf in E; exact (last_member_fin _ ms cv Hv E)).
  clear Kc Kgs Kg Kf.
  set (foreign := k_foreign (scan_keys ms)) in *.
  destruct (k_type (scan_keys ms)) as [[| | |r0 x0|traw tname|l0|ms0]|]; try discriminate.
  destruct (bytes_eqb tname s_Point).
  { destruct (parse_point_coords true (k_coords (scan_keys ms))) as [[p ex]|c] eqn:Ep; [|discriminate].
    pose proof (point_coords_form _ _ _ _ Ep) as Hs.
    destruct (st_ok_form 1 ex foreign Hs Hfor) as [Hform _].
    destruct (with_members ex foreign) as [e|] eqn:Ew.
    - destruct (check_inv _ _ _ _ H) as [-> Hck]. cbn [pf]. split; [exact Hform|]. split; [discriminate|exact Hck].
    - destruct (allow_simple o) eqn:Ea; destruct (check_inv _ _ _ _ H) as [-> Hck]; cbn [pf].
      + split; [exact Ea|exact Hck].
      + split; [exact I|]. split; [intros _; exact Ea|exact Hck]. }
  destruct (bytes_eqb tname s_LineString).
  { destruct (k_coords (scan_keys ms)) as [cv|] eqn:Ec; [|discriminate].
    destruct (parse_line_coords true (Some cv)) as [[ps ex]|c] eqn:Ep; [|discriminate].
    destruct (line_coords_form _ _ _ _ (Hc cv eq_refl) Ep) as (Hps & Hs & Hfin).
    destruct (length ps <? 2)%nat eqn:El; [discriminate|]. apply Nat.ltb_ge in El.
    destruct (st_ok_form (length ps) ex foreign Hs Hfor) as [Hform Hvals].
    destruct (check_inv _ _ _ _ H) as [-> Hck]. cbn [pf]. split; [|exact Hck].
    repeat split; try assumption. unfold vals_fin. rewrite Hvals. exact Hfin. }
  destruct (bytes_eqb tname s_Polygon).
  { destruct (k_coords (scan_keys ms)) as [cv|] eqn:Ec; [|discriminate].
    destruct (parse_poly_coords true (Some cv)) as [[rings ex]|c] eqn:Ep; [|discriminate].
    destruct (poly_coords_form _ _ _ _ (Hc cv eq_refl) Ep) as (Hr & Hs & Hfin).
    destruct rings as [|ext holes]; [discriminate|].
    destruct (forallb ring_ok (ext :: holes)) eqn:Eok; [|discriminate]. cbn [negb] in H.
    destruct (st_ok_form _ ex foreign Hs Hfor) as [Hform Hvals].
    assert (Hpoly : poly_form (ext :: holes) (with_members ex foreign)).
    { repeat split; try assumption; [discriminate|]. unfold vals_fin. rewrite Hvals. exact Hfin. }
    destruct (with_members ex foreign) as [e|] eqn:Ew.
    - destruct (check_inv _ _ _ _ H) as [-> Hck]. cbn [pf]. split; [exact Hpoly|]. split; [discriminate|exact Hck].
    - destruct holes as [|h holes].
      + destruct (allow_rects o && perfect_rect ext) eqn:Er; destruct (check_inv _ _ _ _ H) as [-> Hck]; cbn [pf].
        * apply andb_true_iff in Er. destruct Er as [Ea Epr]. split; [exact Ea|]. split; [apply perfect_rect_form; exact Epr|exact Hck].
        * split; [exact Hpoly|]. split; [|exact Hck]. intros _ ext' E. inversion E; subst. exact Er.
      + destruct (check_inv _ _ _ _ H) as [-> Hck]. cbn [pf]. split; [exact Hpoly|]. split; [|exact Hck].
        intros _ ext' E. discriminate E. }
  destruct (bytes_eqb tname s_Feature).
  { destruct (k_geom (scan_keys ms)) as [gv|] eqn:Eg; [|discriminate].
    destruct (parse f o one gv) as [base|c] eqn:Eb; [|discriminate].
    pose proof (IH o one gv base (Hg gv eq_refl) Eb) as Hb.
    destruct (members_only_with foreign Hfor) as [Hmo Hmem].
    destruct (match base, foreign with
              | JPoint p _, _ :: _ => circle_of o one p foreign
              | JSimple p, _ :: _ => if CIRCLE_SIMPLE_OK then circle_of o one p foreign else None
              | _, _ => None end) as [r|] eqn:Ec.
    - subst r. destruct base as [p ex|p| | | | | |]; try discriminate; destruct foreign as [|m0 ms'] eqn:Ef; try discriminate.
      + destruct (circle_of_form o one p _ g Hffin Ec) as (m & -> & Hm & Hd). cbn [pf] in *.
        split; [exact Hd|]. split; [exact Hm|]. destruct Hb as (_ & _ & Hck). exact Hck.
      + unfold CIRCLE_SIMPLE_OK in Ec. destruct (circle_of_form o one p _ g Hffin Ec) as (m & -> & Hm & Hd). cbn [pf] in *.
        split; [exact Hd|]. split; [exact Hm|]. destruct Hb as (_ & Hck). exact Hck.
    - inversion H; subst. cbn [pf]. split; [exact Hb|]. split; [exact Hmo|]. rewrite Hmem.
      destruct base as [p ex|p| | | | | |]; cbn [not_circle]; try exact I;
        (destruct foreign as [|m0 ms']; [apply circle_of_nil|exact Ec]). }
  destruct (bytes_eqb tname s_MultiPoint).
  { destruct (k_coords (scan_keys ms)) as [cv|] eqn:Ec; [|discriminate].
    destruct (negb (is_array cv)); [discriminate|].
    destruct (map_until _ (elems cv)) as [kids|c] eqn:Ek; [|discriminate].
    unfold MULTIPOINT_VALID_CHECK in H. destruct (check_inv _ _ _ _ H) as [-> Hck].
    destruct (members_only_with foreign Hfor) as [Hmo _].
    apply pf_coll_intro; [lia|exact Hmo|intros _; exact Hck|].
    eapply (map_until_forall' _ (fun x => fin_doc x = true)); [exact (fin_doc_elems cv (Hc cv eq_refl))| |exact Ek].
    intros x y Hx Hxy. cbv beta in Hxy. destruct (parse_point_coords false (Some x)) as [[p ex]|c] eqn:Ep; [|discriminate].
    inversion Hxy; subst. change (0 <? 3) with true. cbv iota. cbn [child_pf].
    destruct (st_ok_child 1 ex (point_coords_form _ _ _ _ Ep)) as [A B]. repeat split; assumption. }
  destruct (bytes_eqb tname s_MultiLineString).
  { destruct (k_coords (scan_keys ms)) as [cv|] eqn:Ec; [|discriminate].
    destruct (negb (is_array cv)); [discriminate|].
    destruct (map_until _ (elems cv)) as [kids|c] eqn:Ek; [|discriminate].
    destruct (check_inv _ _ _ _ H) as [-> Hck].
    destruct (members_only_with foreign Hfor) as [Hmo _].
    apply pf_coll_intro; [lia|exact Hmo|intros _; exact Hck|].
    eapply (map_until_forall' _ (fun x => fin_doc x = true)); [exact (fin_doc_elems cv (Hc cv eq_refl))| |exact Ek].
    intros x y Hx Hxy. cbv beta in Hxy. destruct (parse_line_coords false (Some x)) as [[ps ex]|c] eqn:Ep; [|discriminate].
    destruct (length ps <? 2)%nat eqn:El; [discriminate|]. apply Nat.ltb_ge in El.
    inversion Hxy; subst. change (1 <? 3) with true. cbv iota. cbn [child_pf].
    destruct (line_coords_form _ _ _ _ Hx Ep) as (Hps & Hs & Hfin).
    destruct (st_ok_child _ ex Hs) as [A B]. repeat split; assumption. }
  destruct (bytes_eqb tname s_MultiPolygon).
  { destruct (k_coords (scan_keys ms)) as [cv|] eqn:Ec; [|discriminate].
    destruct (negb (is_array cv)); [discriminate|].
    destruct (map_until _ (elems cv)) as [kids|c] eqn:Ek; [|discriminate].
    destruct (check_inv _ _ _ _ H) as [-> Hck].
    destruct (members_only_with foreign Hfor) as [Hmo _].
    apply pf_coll_intro; [lia|exact Hmo|intros _; exact Hck|].
    eapply (map_until_forall' _ (fun x => fin_doc x = true)); [exact (fin_doc_elems cv (Hc cv eq_refl))| |exact Ek].
    intros x y Hx Hxy. cbv beta in Hxy. destruct (parse_poly_coords false (Some x)) as [[rings ex]|c] eqn:Ep; [|discriminate].
    destruct rings as [|ext holes]; [discriminate|].
    destruct (forallb ring_ok (ext :: holes)) eqn:Eok; [|discriminate].
    inversion Hxy; subst. change (2 <? 3) with true. cbv iota. cbn [child_pf].
    destruct (poly_coords_form _ _ _ _ Hx Ep) as (Hr & Hs & Hfin).
    destruct (st_ok_child _ ex Hs) as [A B]. repeat split; try assumption. discriminate. }
  destruct (bytes_eqb tname s_GeometryCollection).
  { destruct (k_geoms (scan_keys ms)) as [cv|] eqn:Ec; [|discriminate].
    destruct (negb (is_array cv)); [discriminate|].
    destruct (map_until _ (elems cv)) as [kids|c] eqn:Ek; [|discriminate].
    inversion H; subst. destruct (members_only_with foreign Hfor) as [Hmo _].
    apply pf_coll_intro; [lia|exact Hmo|intros Hlt; lia|].
    eapply (map_until_forall' _ (fun x => fin_doc x = true)); [exact (fin_doc_elems cv (Hgs cv eq_refl))| |exact Ek].
    intros x y Hx Hxy. cbv beta in Hxy. unfold pres_res in Hxy. destruct (parse f o one x) as [gx|cx] eqn:Ex; [|discriminate].
    inversion Hxy; subst. change (3 <? 3) with false. cbv iota. exact (IH o one x y Hx Ex). }
  destruct (bytes_eqb tname s_FeatureCollection); [|discriminate].
  destruct (k_feats (scan_keys ms)) as [cv|] eqn:Ec; [|discriminate].
  destruct (negb (is_array cv)); [discriminate|].
  destruct (map_until _ (elems cv)) as [kids|c] eqn:Ek; [|discriminate].
  inversion H; subst. destruct (members_only_with foreign Hfor) as [Hmo _].
  apply pf_coll_intro; [lia|exact Hmo|intros Hlt; lia|].
  eapply (map_until_forall' _ (fun x => fin_doc x = true)); [exact (fin_doc_elems cv (Hfe cv eq_refl))| |exact Ek].
  intros x y Hx Hxy. cbv beta in Hxy. unfold pres_res in Hxy. destruct (parse f o one x) as [gx|cx] eqn:Ex; [|discriminate].
  inversion Hxy; subst. change (4 <? 3) with false. cbv iota. exact (IH o one x y Hx Ex).
Qed.

(* ------------------------------------------------------------------ *)
(* parsed form implies the writers' well-formedness hypothesis (EmitProofs.wf_o):
   the bytes, not only the trees, are identical                         *)

Lemma ex_form_ok (n : nat) (ex : option extra) : ex_form n ex -> ex_ok ex.
Proof.
  destruct ex as [[d v [ms|]]|]; cbn [ex_form ex_ok members]; try (intros; exact I). intros (_ & _ & H & _). exact H.
Qed.

Lemma wf_coll_intro (k : Z) (cs : list gobj) (ex : option extra) :
  0 <= k <= 4 -> ex_ok ex -> Forall (fun c => if k <? 3 then multi_child_ok c else wf_o c) cs -> wf_o (JColl k cs ex).
Proof.
  intros Hk He H. cbn [wf_o]. split; [exact Hk|]. split; [exact He|].
  induction H as [|c cs Hc Hcs IH]; [exact I|]. split; [exact Hc|exact IH].
Qed.

Lemma child_pf_ok (k : Z) (c : gobj) : child_pf k c -> multi_child_ok c.
Proof.
  destruct c as [p ex|p|mn mx|ps ex|rings ex|b ex|k' cs ex|cc m]; cbn [child_pf multi_child_ok]; try contradiction.
  - intros (_ & H & _). exact (ex_form_ok 1 ex H).
  - intros (_ & (_ & _ & H & _) & _). exact (ex_form_ok _ ex H).
  - intros (_ & (_ & _ & _ & H & _) & _). exact (ex_form_ok _ ex H).
Qed.

Theorem pf_wf (o : popts) (one : Z) (g : gobj) : pf o one g -> wf_o g /\ wf_o (norm g).
Proof.
  induction g as [p ex|p|mn mx|ps ex|rings ex|b ex IHb|k cs ex IHcs|c m] using gobj_ind'; intros Hpf.
  - destruct Hpf as (H & _). cbn [norm wf_o]. split; exact (ex_form_ok 1 ex H).
  - split; exact I.
  - split; exact I.
  - destruct Hpf as ((_ & _ & H & _) & _). cbn [norm wf_o]. split; exact (ex_form_ok _ ex H).
  - destruct Hpf as ((_ & _ & _ & H & _) & _). cbn [norm wf_o]. split; exact (ex_form_ok _ ex H).
  - destruct Hpf as (Hb & (Hm & _) & _). destruct (IHb Hb) as [W1 W2]. cbn [norm wf_o]. split.
    + split; [exact (ex_form_ok 0 ex Hm)|exact W1].
    + split; [|exact W2]. cbn [ex_ok members]. destruct (extra_members_true_ne ex) as (m0 & ms0 & E). rewrite E. discriminate.
  - pose proof (pf_coll_children o one k cs ex Hpf) as Hch. destruct Hpf as (Hk & (Hm & _) & _ & _).
    pose proof (ex_form_ok 0 ex Hm) as He. cbn [norm]. split.
    + apply wf_coll_intro; [exact Hk|exact He|]. apply Forall_forall. intros c Hc. rewrite Forall_forall in Hch, IHcs.
      specialize (Hch c Hc). destruct (k <? 3); [exact (child_pf_ok k c Hch)|exact (proj1 (IHcs c Hc Hch))].
    + apply wf_coll_intro; [exact Hk|exact He|]. rewrite Forall_forall in Hch, IHcs. destruct (k <? 3) eqn:E.
      * apply Forall_forall. intros c Hc. exact (child_pf_ok k c (Hch c Hc)).
      * apply Forall_forall. intros c' Hc'. apply in_map_iff in Hc'. destruct Hc' as (c & <- & Hc).
        exact (proj2 (IHcs c Hc (Hch c Hc))).
  - split; exact I.
Qed.

(* ------------------------------------------------------------------ *)
(* C06 for every accepted document (tree level, bytes of the writers)   *)

Theorem parse_json_parse (fmt : Z -> list Z) (fuel fuel2 : nat) (o : popts) (one : Z) (v : jv) (g : gobj) :
  fin_doc v = true -> parse fuel o one v = POk g -> (gdepth g <= fuel2)%nat ->
  let g' := norm g in
  parse fuel2 o one (emit_jv fmt g) = POk g' /\                       (* the output is accepted again, same options *)
  emit fmt g' = emit fmt g /\                                        (* and writes byte-identical output *)
  emit fmt g = print_min (emit_jv fmt g) /\                          (* which is the minified text of the tree that was parsed *)
  parse fuel2 o one (emit_jv fmt g') = POk g'.                       (* a fixpoint after one step *)
Proof.
  intros Hv Hp Hf. pose proof (parse_pf fuel o one v g Hv Hp) as Hpf.
  destruct (parse_emit_parse fmt o one g fuel2 Hpf Hf) as (A & B & C). destruct (pf_wf o one g Hpf) as [W1 W2].
  cbv zeta. split; [exact A|]. split; [|split; [apply emit_is_print; exact W1|exact C]].
  rewrite (emit_is_print fmt (norm g) W2), (emit_is_print fmt g W1), B. reflexivity.
Qed.

Lemma flat_map_ext_in {A B} (f g : A -> list B) (l : list A) : (forall x, In x l -> f x = g x) -> flat_map f l = flat_map g l.
Proof.
  induction l as [|x l IH]; intros H; [reflexivity|]. cbn [flat_map]. rewrite (H x (or_introl eq_refl)), IH; [reflexivity|].
  intros y Hy. apply H. right. exact Hy.
Qed.

(* the re-parsed object has the same kind tree and coordinates, and the same image in the predicate model
   (Obj.obj): every contains / within / intersects answer is identical *)
Theorem norm_same_geometry (g : gobj) : enc_tree (norm g) = enc_tree g /\ to_obj (norm g) = to_obj g.
Proof.
  induction g as [p ex|p|mn mx|ps ex|rings ex|b ex IHb|k cs ex IHcs|c m] using gobj_ind'; try (split; reflexivity).
  - destruct IHb as [A B]. cbn [norm enc_tree to_obj]. rewrite A, B. split; reflexivity.
  - cbn [norm]. destruct (k <? 3); [split; reflexivity|]. cbn [enc_tree to_obj]. rewrite map_length, map_map.
    rewrite Forall_forall in IHcs. split.
    + do 3 f_equal. rewrite flat_map_map. apply flat_map_ext_in. intros c Hc. exact (proj1 (IHcs c Hc)).
    + do 2 f_equal. apply map_ext_in. intros c Hc. exact (proj2 (IHcs c Hc)).
Qed.

Print Assumptions parse_pf.
Print Assumptions parse_json_parse.
Print Assumptions norm_same_geometry.
