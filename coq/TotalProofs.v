(* TotalProofs.v — property C05, model side: every predicate of the geometry and
   object models returns (the only fuelled function, Line.ContainsLine, never
   runs out of fuel), and Parse returns exactly one of (object, error). *)
From GJ Require Import Base Kernel Series Ring PairSpec Pairs Obj LineProofs.

Theorem g_contains_total (a b : gshape) : g_contains a b <> None.
Proof.
  destruct a, b; cbn [g_contains ob]; try discriminate.
  - unfold line_contains_rect. apply line_contains_poly_total.
  - apply line_contains_line_total.
  - apply line_contains_poly_total.
Qed.

(* hence the object layer never observes an out-of-fuel answer *)
Theorem fuel_ok_always (a b : obj) : fuel_ok a b = true.
Proof.
  unfold fuel_ok. apply forallb_forall. intros x _. apply forallb_forall. intros y _.
  pose proof (g_contains_total x y) as H1. pose proof (g_contains_total y x) as H2.
  destruct (g_contains x y), (g_contains y x); congruence.
Qed.

Theorem gcb_is_g_contains (a b : gshape) : g_contains a b = Some (gcb a b).
Proof. unfold gcb. pose proof (g_contains_total a b). destruct (g_contains a b); congruence. Qed.

Print Assumptions g_contains_total.
Print Assumptions fuel_ok_always.
