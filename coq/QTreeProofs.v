(* QTreeProofs.v — the quadtree of Index.v (geometry/qtree.go) is an exact
   accelerator: a search of the tree built by successive inserts reports
   exactly the items whose rectangle meets the query, each exactly once, for
   ANY function [mid] (nothing below uses what [mid] returns). *)
From Coq Require Import Sorting.Permutation.
From GJ Require Import Base Kernel Index.

Section QProofs.
Variable mid : Z -> Z -> Z.
Variable rect_of : Z -> rect.

(* ------------------------------------------------------------------ *)
(* 1. rectangles                                                        *)

Lemma contains_iff (a b c d e f g h : Z) :
  rect_contains_rect ((a, b), (c, d)) ((e, f), (g, h)) = true <->
  a <= e /\ g <= c /\ b <= f /\ h <= d.
Proof.
  unfold rect_contains_rect, px, py; cbn [fst snd].
  destruct (Z.ltb_spec e a), (Z.ltb_spec c g), (Z.ltb_spec f b), (Z.ltb_spec d h);
    cbn [orb]; split; intros; try discriminate; try lia; reflexivity.
Qed.

Lemma intersects_iff (a b c d e f g h : Z) :
  rect_intersects_rect ((a, b), (c, d)) ((e, f), (g, h)) = true <->
  b <= h /\ f <= d /\ a <= g /\ e <= c.
Proof.
  unfold rect_intersects_rect, px, py; cbn [fst snd].
  destruct (Z.ltb_spec h b), (Z.ltb_spec d f), (Z.ltb_spec g a), (Z.ltb_spec c e);
    cbn [orb]; split; intros; try discriminate; try lia; reflexivity.
Qed.

Lemma choose_quad_range (bounds r : rect) :
  choose_quad mid bounds r = -1 \/ 0 <= choose_quad mid bounds r <= 3.
Proof.
  destruct bounds as [[bnx bny] [bxx bxy]], r as [[rnx rny] [rxx rxy]].
  unfold choose_quad.
  destruct (rxx <? mid bnx bxx), (rxy <? mid bny bxy), (rny <? mid bny bxy),
    (rnx <? mid bnx bxx); lia.
Qed.

Theorem choose_quad_within (bounds r : rect) (q : Z) :
  rect_contains_rect bounds r = true -> choose_quad mid bounds r = q -> q <> -1 ->
  (0 <= q <= 3) /\ rect_contains_rect (quad_bounds mid bounds q) r = true.
Proof.
  destruct bounds as [[bnx bny] [bxx bxy]], r as [[rnx rny] [rxx rxy]].
  intros Hc Hq Hn. apply contains_iff in Hc.
  unfold choose_quad in Hq. unfold quad_bounds.
  destruct (Z.ltb_spec rxx (mid bnx bxx)), (Z.ltb_spec rxy (mid bny bxy)),
    (Z.ltb_spec rny (mid bny bxy)), (Z.ltb_spec rnx (mid bnx bxx));
    subst q; try (exfalso; apply Hn; reflexivity);
    (split; [lia | cbn [Z.eqb]; apply contains_iff; lia]).
Qed.

(* non-emptiness of r is not needed *)
Lemma meets_mono_gen (B r q : rect) :
  rect_contains_rect B r = true -> rect_intersects_rect r q = true ->
  rect_intersects_rect B q = true.
Proof.
  destruct B as [[a b] [c d]], r as [[e f] [g h]], q as [[i j] [k l]].
  rewrite contains_iff, !intersects_iff. lia.
Qed.

Lemma meets_mono (B r q : rect) :
  rect_contains_rect B r = true -> px (fst r) <= px (snd r) -> py (fst r) <= py (snd r) ->
  rect_intersects_rect r q = true -> rect_intersects_rect B q = true.
Proof. intros H _ _. apply meets_mono_gen, H. Qed.

(* ------------------------------------------------------------------ *)
(* 2. list helpers                                                      *)

Definition nones : list (option qnode) := [None; None; None; None].

Lemma set_nth_length {A} (l : list A) i x : length (set_nth l i x) = length l.
Proof. revert i; induction l; destruct i; cbn; auto. Qed.

Lemma nth_error_set_nth_eq {A} (l : list A) i x :
  (i < length l)%nat -> nth_error (set_nth l i x) i = Some x.
Proof.
  revert i; induction l; destruct i; cbn; intros; try lia; auto.
  apply IHl; lia.
Qed.

Lemma nth_error_set_nth_neq {A} (l : list A) i j x :
  i <> j -> nth_error (set_nth l i x) j = nth_error l j.
Proof.
  revert i j; induction l; destruct i, j; cbn; intros; try congruence; auto.
Qed.

Lemma flat_map_set_nth {A} (f : A -> list Z) l i x y item :
  nth_error l i = Some y -> Permutation (f x) (item :: f y) ->
  Permutation (flat_map f (set_nth l i x)) (item :: flat_map f l).
Proof.
  revert i; induction l as [|a l IH]; destruct i; cbn; intros Hn Hp; try discriminate.
  - injection Hn as ->. apply (Permutation_app_tail _ Hp).
  - etransitivity; [apply Permutation_app_head, (IH _ Hn Hp)|].
    symmetry; apply Permutation_middle.
Qed.

Lemma Permutation_filter' {A} (f : A -> bool) l l' :
  Permutation l l' -> Permutation (filter f l) (filter f l').
Proof.
  induction 1; cbn.
  - constructor.
  - destruct (f x); auto.
  - destruct (f x), (f y); auto using Permutation_refl. constructor.
  - etransitivity; eauto.
Qed.

Lemma filter_none {A} (f : A -> bool) l :
  (forall x, In x l -> f x = false) -> filter f l = [].
Proof.
  induction l as [|a l IH]; cbn; intros H; auto.
  rewrite (H a (or_introl eq_refl)). apply IH; auto.
Qed.

Lemma slots4 {A} (l : list A) : length l = 4%nat -> exists a0 a1 a2 a3, l = [a0; a1; a2; a3].
Proof.
  destruct l as [|a0 [|a1 [|a2 [|a3 [|]]]]]; cbn; intros; try discriminate; eauto.
Qed.

(* ------------------------------------------------------------------ *)
(* 3. items of a subtree, equations for qinsert                         *)

Fixpoint qitems (fuel : nat) (n : qnode) : list Z :=
  match n with
  | QNode _ its qs =>
      its ++ match fuel with
             | O => []
             | S f => flat_map (fun o => match o with Some c => qitems f c | None => [] end) qs
             end
  end.

Definition oitems (f : nat) (o : option qnode) : list Z :=
  match o with Some c => qitems f c | None => [] end.

Lemma qitems_S f sp its qs : qitems (S f) (QNode sp its qs) = its ++ flat_map (oitems f) qs.
Proof. reflexivity. Qed.

Lemma qitems_nones F sp its : qitems F (QNode sp its nones) = its.
Proof. destruct F; cbn; apply app_nil_r. Qed.

Lemma qitems_qempty F : qitems F qempty = [].
Proof. apply qitems_nones. Qed.

Definition set_split (s : bool) (n : qnode) : qnode :=
  let '(QNode _ its qs) := n in QNode s its qs.

Lemma qitems_set_split F s n : qitems F (set_split s n) = qitems F n.
Proof. destruct n, F; reflexivity. Qed.

Lemma oitems_get_quad f qs q o :
  nth_error qs (Z.to_nat q) = Some o -> qitems f (get_quad qs q) = oitems f o.
Proof.
  intros H; unfold get_quad; rewrite H. destruct o; [reflexivity | apply qitems_qempty].
Qed.

Definition into_quad (d' : nat) (bounds : rect) (sp : bool) (its : list Z)
           (qs : list (option qnode)) (r0 : rect) (it0 : Z) : qnode :=
  let q := choose_quad mid bounds r0 in
  if q =? -1 then QNode sp (its ++ [it0]) qs
  else QNode sp its
         (set_nth qs (Z.to_nat q)
            (Some (qinsert mid rect_of d' (get_quad qs q) (quad_bounds mid bounds q) r0 it0))).

Definition qstep (d' : nat) (bounds : rect) (acc : qnode) (it0 : Z) : qnode :=
  let '(QNode _ its qs) := acc in into_quad d' bounds false its qs (rect_of it0) it0.

Lemma qinsert_0 sp its qs b r item :
  qinsert mid rect_of 0 (QNode sp its qs) b r item = QNode sp (its ++ [item]) qs.
Proof. reflexivity. Qed.

Lemma qinsert_S d' sp its qs b r item :
  qinsert mid rect_of (S d') (QNode sp its qs) b r item =
  if sp then into_quad d' b true its qs r item
  else if (length its =? qMaxItems)%nat then
         let '(QNode _ its' qs') := fold_left (qstep d' b) its (QNode false [] qs) in
         into_quad d' b true its' qs' r item
       else QNode sp (its ++ [item]) qs.
Proof. reflexivity. Qed.

Lemma into_quad_split d' b sp its qs r it :
  into_quad d' b sp its qs r it = set_split sp (into_quad d' b true its qs r it).
Proof. unfold into_quad. destruct (_ =? -1); reflexivity. Qed.

(* ------------------------------------------------------------------ *)
(* 4. the invariant, generic in the per-item condition C                *)

Section Generic.
Variable C : rect -> Z -> Prop.

(* remaining depth d, bounds b: every item of the SUBTREE satisfies C b (for
   containment: an item pushed down stays inside all its ancestors' bounds,
   which is what makes pruning sound for an arbitrary [mid]); an unsplit node
   has no children; at d = 0 the node is unsplit; children are well-formed
   in their quadrant *)
Fixpoint qwfG (d : nat) (b : rect) (n : qnode) {struct d} : Prop :=
  match n with
  | QNode sp its qs =>
      (forall it, In it (qitems d n) -> C b it) /\
      (sp = false -> qs = nones) /\
      match d with
      | O => sp = false
      | S d' => length qs = 4%nat /\
                forall k c, 0 <= k -> nth_error qs (Z.to_nat k) = Some (Some c) ->
                            qwfG d' (quad_bounds mid b k) c
      end
  end.

Lemma qwfG_0 b sp its qs :
  qwfG 0 b (QNode sp its qs) <->
  (forall it, In it its -> C b it) /\ sp = false /\ qs = nones.
Proof.
  cbn [qwfG qitems]. rewrite app_nil_r. intuition.
Qed.

Lemma qwfG_S d' b sp its qs :
  qwfG (S d') b (QNode sp its qs) <->
  (forall it, In it (qitems (S d') (QNode sp its qs)) -> C b it) /\
  (sp = false -> qs = nones) /\ length qs = 4%nat /\
  (forall k c, 0 <= k -> nth_error qs (Z.to_nat k) = Some (Some c) ->
               qwfG d' (quad_bounds mid b k) c).
Proof. reflexivity. Qed.

Lemma qwfG_items d b n it : qwfG d b n -> In it (qitems d n) -> C b it.
Proof. destruct d, n; intros [H _]; apply H. Qed.

Lemma qwfG_leaf_S d' b sp : qwfG (S d') b (QNode sp [] nones).
Proof.
  apply qwfG_S; rewrite qitems_nones.
  split; [intros ? []|]. split; [reflexivity|]. split; [reflexivity|].
  intros k c Hk H. exfalso.
  assert (Hn : forall j, nth_error nones j = Some (Some c) -> False).
  { intros j. do 4 (destruct j; [discriminate|]). destruct j; discriminate. }
  exact (Hn _ H).
Qed.

Lemma qwfG_qempty d b : qwfG d b qempty.
Proof.
  destruct d; [apply qwfG_0 | apply qwfG_leaf_S].
  split; [intros ? []|split; reflexivity].
Qed.

Lemma qwfG_get_quad d' b sp its qs q :
  qwfG (S d') b (QNode sp its qs) -> 0 <= q -> qwfG d' (quad_bounds mid b q) (get_quad qs q).
Proof.
  intros W Hq. apply qwfG_S in W. destruct W as (_ & _ & _ & Hc).
  unfold get_quad. destruct (nth_error qs (Z.to_nat q)) as [[c|]|] eqn:E;
    [apply Hc; assumption | apply qwfG_qempty | apply qwfG_qempty].
Qed.

(* fuel beyond the depth bound is irrelevant *)
Lemma qitems_fuel d : forall b n F, qwfG d b n -> (d <= F)%nat -> qitems F n = qitems d n.
Proof.
  induction d as [|d' IH]; intros b [sp its qs] F W HF.
  - apply qwfG_0 in W. destruct W as (_ & _ & ->). now rewrite !qitems_nones.
  - destruct F as [|f]; [lia|]. apply qwfG_S in W. destruct W as (_ & _ & L & Hc).
    destruct (slots4 _ L) as (a0 & a1 & a2 & a3 & ->).
    rewrite !qitems_S. f_equal. cbn [flat_map].
    assert (E : forall k o, 0 <= k -> nth_error [a0; a1; a2; a3] (Z.to_nat k) = Some o ->
                            oitems f o = oitems d' o).
    { intros k [c|] Hk Hn; [|reflexivity]. cbn [oitems].
      apply (IH (quad_bounds mid b k)); [apply Hc; assumption | lia]. }
    rewrite (E 0 a0), (E 1 a1), (E 2 a2), (E 3 a3); try lia; reflexivity.
Qed.

(* C survives the descent chosen by choose_quad *)
Definition downp (r : rect) (item : Z) : Prop :=
  forall b q, C b item -> choose_quad mid b r = q -> q <> -1 -> C (quad_bounds mid b q) item.

Hypothesis C_down : forall it, downp (rect_of it) it.

Definition insert_ok (d : nat) : Prop :=
  forall n b r item, qwfG d b n -> C b item -> downp r item ->
    qwfG d b (qinsert mid rect_of d n b r item) /\
    forall F, (d <= F)%nat ->
      Permutation (qitems F (qinsert mid rect_of d n b r item)) (item :: qitems F n).

Lemma into_quad_spec d' (IH : insert_ok d') b its qs r item :
  qwfG (S d') b (QNode true its qs) -> C b item -> downp r item ->
  qwfG (S d') b (into_quad d' b true its qs r item) /\
  forall F, (S d' <= F)%nat ->
    Permutation (qitems F (into_quad d' b true its qs r item))
                (item :: qitems F (QNode true its qs)).
Proof.
  intros W Ci Dn. unfold into_quad.
  destruct (choose_quad_range b r) as [E|R].
  - rewrite E, Z.eqb_refl.
    assert (P : forall F, (S d' <= F)%nat ->
              Permutation (qitems F (QNode true (its ++ [item]) qs))
                          (item :: qitems F (QNode true its qs))).
    { intros [|f] HF; [lia|]. rewrite !qitems_S, <- app_assoc. cbn [app].
      symmetry; apply Permutation_middle. }
    split; [|exact P].
    apply qwfG_S. pose proof W as W0. apply qwfG_S in W. destruct W as (Hi & Hs & L & Hc).
    split; [|auto].
    intros it Hin. apply (Permutation_in _ (P _ (le_n _))) in Hin.
    destruct Hin as [<-|Hin]; auto.
  - set (q := choose_quad mid b r) in *.
    destruct (q =? -1) eqn:E; [apply Z.eqb_eq in E; lia|].
    pose proof W as W0. apply qwfG_S in W. destruct W as (Hi & Hs & L & Hc).
    destruct (nth_error qs (Z.to_nat q)) as [o|] eqn:En;
      [|apply nth_error_None in En; lia].
    assert (Hq1 : q <> -1) by lia.
    destruct (IH (get_quad qs q) (quad_bounds mid b q) r item
                 (qwfG_get_quad _ _ _ _ _ q W0 (proj1 R)) (Dn b q Ci eq_refl Hq1) Dn)
      as [W' P'].
    set (c' := qinsert mid rect_of d' (get_quad qs q) (quad_bounds mid b q) r item) in *.
    assert (P : forall F, (S d' <= F)%nat ->
              Permutation (qitems F (QNode true its (set_nth qs (Z.to_nat q) (Some c'))))
                          (item :: qitems F (QNode true its qs))).
    { intros [|f] HF; [lia|]. rewrite !qitems_S.
      etransitivity; [apply Permutation_app_head|symmetry; apply Permutation_middle].
      apply (flat_map_set_nth (oitems f) qs (Z.to_nat q) (Some c') o item En).
      cbn [oitems]. rewrite <- (oitems_get_quad f qs q o En). apply P'. lia. }
    split; [|exact P].
    apply qwfG_S. split; [|split; [discriminate|split]].
    + intros it Hin. apply (Permutation_in _ (P _ (le_n _))) in Hin.
      destruct Hin as [<-|Hin]; auto.
    + now rewrite set_nth_length.
    + intros k c Hk Hn. destruct (Z.eq_dec k q) as [->|Hne].
      * rewrite nth_error_set_nth_eq in Hn by lia. injection Hn as <-. exact W'.
      * rewrite nth_error_set_nth_neq in Hn by lia. apply Hc; assumption.
Qed.

Lemma qfold_spec d' (IH : insert_ok d') b :
  forall l acc, qwfG (S d') b (set_split true acc) -> (forall it, In it l -> C b it) ->
    qwfG (S d') b (set_split true (fold_left (qstep d' b) l acc)) /\
    forall F, (S d' <= F)%nat ->
      Permutation (qitems F (fold_left (qstep d' b) l acc)) (l ++ qitems F acc).
Proof.
  induction l as [|a l IHl]; intros acc W Hl; cbn [fold_left].
  - split; [exact W | intros; apply Permutation_refl].
  - destruct acc as [s its qs]. cbn [set_split] in W.
    destruct (into_quad_spec d' IH b its qs (rect_of a) a W (Hl a (or_introl eq_refl)) (C_down a))
      as [W1 P1].
    assert (E : set_split true (qstep d' b (QNode s its qs) a)
                = into_quad d' b true its qs (rect_of a) a).
    { cbn [qstep]. rewrite into_quad_split. unfold into_quad.
      destruct (_ =? -1); reflexivity. }
    specialize (IHl (qstep d' b (QNode s its qs) a)). rewrite E in IHl.
    destruct (IHl W1 (fun it H => Hl it (or_intror H))) as [W2 P2].
    split; [exact W2|]. intros F HF.
    etransitivity; [apply (P2 F HF)|].
    rewrite <- (qitems_set_split F true (qstep _ _ _ _)), E.
    etransitivity; [apply Permutation_app_head, (P1 F HF)|].
    rewrite <- (qitems_set_split F true (QNode s its qs)). cbn [set_split app].
    symmetry; apply Permutation_middle.
Qed.

Theorem qinsert_spec d : insert_ok d.
Proof.
  induction d as [|d' IH]; intros [sp its qs] b r item W Ci Dn.
  - rewrite qinsert_0. apply qwfG_0 in W. destruct W as (Hi & -> & ->).
    split.
    + apply qwfG_0. repeat split. intros it Hin. apply in_app_iff in Hin.
      destruct Hin as [Hin|[<-|[]]]; auto.
    + intros F _. rewrite !qitems_nones. symmetry; apply Permutation_cons_append.
  - rewrite qinsert_S. destruct sp.
    + apply into_quad_spec; assumption.
    + pose proof W as W0. apply qwfG_S in W. destruct W as (Hi & Hs & L & Hc).
      specialize (Hs eq_refl). subst qs. rewrite qitems_nones in Hi.
      destruct (length its =? qMaxItems)%nat.
      * assert (Wa : qwfG (S d') b (set_split true (QNode false [] nones)))
          by apply qwfG_leaf_S.
        destruct (qfold_spec d' IH b its (QNode false [] nones) Wa Hi) as [W1 P1].
        destruct (fold_left (qstep d' b) its (QNode false [] nones)) as [s its' qs'].
        cbn [set_split] in W1.
        destruct (into_quad_spec d' IH b its' qs' r item W1 Ci Dn) as [W2 P2].
        split; [exact W2|]. intros F HF.
        etransitivity; [apply (P2 F HF)|]. constructor.
        rewrite <- (qitems_set_split F s (QNode true its' qs')). cbn [set_split].
        etransitivity; [apply (P1 F HF)|]. rewrite !qitems_nones, app_nil_r. apply Permutation_refl.
      * split.
        -- apply qwfG_S. rewrite qitems_nones. repeat split; auto.
           intros it Hin. apply in_app_iff in Hin. destruct Hin as [Hin|[<-|[]]]; auto.
        -- intros F _. rewrite !qitems_nones. symmetry; apply Permutation_cons_append.
Qed.

End Generic.

Lemma qwfG_weaken (C1 C2 : rect -> Z -> Prop) :
  (forall b it, C1 b it -> C2 b it) -> forall d b n, qwfG C1 d b n -> qwfG C2 d b n.
Proof.
  intros H; induction d as [|d' IH]; intros b [sp its qs] W.
  - apply qwfG_0 in W; apply qwfG_0. destruct W as (Hi & Hs & Hq). auto.
  - apply qwfG_S in W; apply qwfG_S. destruct W as (Hi & Hs & L & Hc).
    split; [auto|]. split; [auto|]. split; [auto|].
    intros k c Hk Hn. apply IH, Hc; assumption.
Qed.

(* ------------------------------------------------------------------ *)
(* 5. the concrete invariant: C b it := the item's rectangle lies in b  *)

Definition Cin (b : rect) (it : Z) : Prop := rect_contains_rect b (rect_of it) = true.

Definition qwf : nat -> rect -> qnode -> Prop := qwfG Cin.

Lemma Cin_down it : downp Cin (rect_of it) it.
Proof.
  intros b q Hc Hq Hn. exact (proj2 (choose_quad_within b (rect_of it) q Hc Hq Hn)).
Qed.

Lemma qwf_qempty d b : qwf d b qempty.
Proof. apply qwfG_qempty. Qed.

Lemma qwf_items d b n it F :
  qwf d b n -> (d <= F)%nat -> In it (qitems F n) -> rect_contains_rect b (rect_of it) = true.
Proof.
  intros W HF Hin. rewrite (qitems_fuel Cin d b n F W HF) in Hin.
  exact (qwfG_items Cin d b n it W Hin).
Qed.

Theorem qinsert_wf d n bounds r item :
  qwf d bounds n -> rect_of item = r -> rect_contains_rect bounds r = true ->
  qwf d bounds (qinsert mid rect_of d n bounds r item).
Proof.
  intros W E Hc. apply (qinsert_spec Cin Cin_down d n bounds r item W).
  - unfold Cin; rewrite E; exact Hc.
  - subst r; apply Cin_down.
Qed.

(* no containment hypothesis is needed for the multiset of items *)
Theorem qinsert_items d n bounds r item F :
  qwf d bounds n -> (d <= F)%nat ->
  Permutation (qitems F (qinsert mid rect_of d n bounds r item)) (item :: qitems F n).
Proof.
  intros W HF. set (T := fun (_ : rect) (_ : Z) => True).
  assert (WT : qwfG T d bounds n)
    by (apply (qwfG_weaken Cin T); [intros; exact I | exact W]).
  assert (DT : forall r0 it, downp T r0 it) by (intros r0 it b q _ _ _; exact I).
  apply (qinsert_spec T (fun it => DT _ it) d n bounds r item WT I (DT r item)); exact HF.
Qed.

(* ------------------------------------------------------------------ *)
(* 6. search                                                            *)

Local Notation hit q := (fun it => rect_intersects_rect (rect_of it) q).

Definition ssearch (q : rect) (f : nat) (b : rect) (o : option qnode) (k : Z) : list Z :=
  match o with
  | Some c =>
      if rect_intersects_rect (quad_bounds mid b k) q
      then qsearch mid rect_of f c (quad_bounds mid b k) q else []
  | None => []
  end.

Lemma qsearch_0 q sp its qs b :
  qsearch mid rect_of 0 (QNode sp its qs) b q = filter (hit q) its ++ [].
Proof. reflexivity. Qed.

Lemma qsearch_S q f sp its a0 a1 a2 a3 b :
  qsearch mid rect_of (S f) (QNode sp its [a0; a1; a2; a3]) b q =
  filter (hit q) its ++
  if sp then ssearch q f b a0 0 ++ ssearch q f b a1 1 ++ ssearch q f b a2 2 ++ ssearch q f b a3 3 ++ []
  else [].
Proof. reflexivity. Qed.

(* the search even returns the items in the order of [qitems] *)
Lemma qsearch_eq q d : forall b n F F', qwf d b n -> (d <= F)%nat -> (d <= F')%nat ->
  qsearch mid rect_of F n b q = filter (hit q) (qitems F' n).
Proof.
  induction d as [|d' IH]; intros b [sp its qs] F F' W HF HF'.
  - apply qwfG_0 in W. destruct W as (_ & -> & ->). rewrite qitems_nones.
    destruct F; [rewrite qsearch_0 | unfold nones; rewrite qsearch_S]; apply app_nil_r.
  - destruct F as [|f]; [lia|]. destruct F' as [|f']; [lia|].
    apply qwfG_S in W. destruct W as (Hi & Hs & L & Hc).
    destruct (slots4 _ L) as (a0 & a1 & a2 & a3 & ->).
    rewrite qsearch_S, qitems_S. destruct sp.
    + assert (E : forall k o, 0 <= k -> nth_error [a0; a1; a2; a3] (Z.to_nat k) = Some o ->
                              ssearch q f b o k = filter (hit q) (oitems f' o)).
      { intros k [c|] Hk Hn; [|reflexivity]. cbn [ssearch oitems].
        specialize (Hc k c Hk Hn).
        destruct (rect_intersects_rect (quad_bounds mid b k) q) eqn:Ei.
        - apply IH; [exact Hc | lia | lia].
        - symmetry; apply filter_none. intros it Hin.
          assert (Hin' : rect_contains_rect (quad_bounds mid b k) (rect_of it) = true)
            by (apply (qwf_items d' _ c it f' Hc); [lia | exact Hin]).
          destruct (rect_intersects_rect (rect_of it) q) eqn:Eh; [|reflexivity].
          rewrite (meets_mono_gen _ _ _ Hin' Eh) in Ei. discriminate. }
      rewrite (E 0 a0), (E 1 a1), (E 2 a2), (E 3 a3); try lia; try reflexivity.
      cbn [flat_map]. rewrite !filter_app. reflexivity.
    + injection (Hs eq_refl) as -> -> -> ->.
      cbn [flat_map oitems app]. rewrite !app_nil_r. reflexivity.
Qed.

Theorem qsearch_exact d n bounds q F F' :
  qwf d bounds n -> (d <= F)%nat -> (d <= F')%nat ->
  Permutation (qsearch mid rect_of F n bounds q)
              (filter (fun it => rect_intersects_rect (rect_of it) q) (qitems F' n)).
Proof.
  intros W HF HF'. rewrite (qsearch_eq q d bounds n F F' W HF HF'). apply Permutation_refl.
Qed.

(* ------------------------------------------------------------------ *)
(* 7. the tree built by successive inserts                              *)

Lemma qbuild_gen D b F : (D <= F)%nat ->
  forall l root, qwf D b root -> (forall i, In i l -> Cin b (Z.of_nat i)) ->
    let t := fold_left (fun root i => qinsert mid rect_of D root b (rect_of (Z.of_nat i)) (Z.of_nat i))
                       l root in
    qwf D b t /\ Permutation (qitems F t) (map Z.of_nat l ++ qitems F root).
Proof.
  intros HF. induction l as [|a l IHl]; intros root W Hl; cbn [fold_left map app].
  - split; [exact W | apply Permutation_refl].
  - pose proof (qinsert_wf D root b (rect_of (Z.of_nat a)) (Z.of_nat a) W eq_refl
                           (Hl a (or_introl eq_refl))) as W1.
    pose proof (qinsert_items D root b (rect_of (Z.of_nat a)) (Z.of_nat a) F W HF) as P1.
    destruct (IHl _ W1 (fun i H => Hl i (or_intror H))) as [W2 P2].
    split; [exact W2|].
    etransitivity; [exact P2|].
    etransitivity; [apply Permutation_app_head, P1|].
    symmetry; apply Permutation_middle.
Qed.

Lemma qbuild_wf_items (bounds : rect) (n : nat) :
  (forall i, (i < n)%nat -> rect_contains_rect bounds (rect_of (Z.of_nat i)) = true) ->
  qwf qMaxDepth bounds (qbuild mid rect_of bounds n) /\
  Permutation (qitems (S qMaxDepth) (qbuild mid rect_of bounds n)) (map Z.of_nat (seq 0 n)).
Proof.
  intros H. unfold qbuild.
  assert (Hin : forall i, In i (seq 0 n) -> Cin bounds (Z.of_nat i)).
  { intros i Hi. apply in_seq in Hi. apply H. lia. }
  destruct (qbuild_gen qMaxDepth bounds (S qMaxDepth) (Nat.le_succ_diag_r _)
                       (seq 0 n) qempty (qwf_qempty _ _) Hin) as [W Pm].
  split; [exact W|]. rewrite qitems_qempty, app_nil_r in Pm. exact Pm.
Qed.

Theorem qbuild_search_exact (bounds : rect) (n : nat) (q : rect) :
  (forall i, (i < n)%nat ->
     let r := rect_of (Z.of_nat i) in
     px (fst r) <= px (snd r) /\ py (fst r) <= py (snd r) /\ rect_contains_rect bounds r = true) ->
  Permutation (qsearch mid rect_of (S qMaxDepth) (qbuild mid rect_of bounds n) bounds q)
              (filter (fun it => rect_intersects_rect (rect_of it) q) (map Z.of_nat (seq 0 n))).
Proof.
  intros H.
  destruct (qbuild_wf_items bounds n) as [W Pm].
  { intros i Hi. exact (proj2 (proj2 (H i Hi))). }
  rewrite (qsearch_eq q qMaxDepth bounds _ (S qMaxDepth) (S qMaxDepth) W
                      (Nat.le_succ_diag_r _) (Nat.le_succ_diag_r _)).
  apply Permutation_filter', Pm.
Qed.

Lemma NoDup_map_of_nat l : NoDup l -> NoDup (map Z.of_nat l).
Proof.
  induction 1 as [|a l Hn Hd IH]; cbn; constructor; auto.
  intros Hin. apply in_map_iff in Hin. destruct Hin as (x & Hx & Hin).
  apply Nat2Z.inj in Hx. subst x. contradiction.
Qed.

Theorem qbuild_search_nodup (bounds : rect) (n : nat) (q : rect) :
  (forall i, (i < n)%nat ->
     let r := rect_of (Z.of_nat i) in
     px (fst r) <= px (snd r) /\ py (fst r) <= py (snd r) /\ rect_contains_rect bounds r = true) ->
  NoDup (qsearch mid rect_of (S qMaxDepth) (qbuild mid rect_of bounds n) bounds q).
Proof.
  intros H.
  apply (Permutation_NoDup (Permutation_sym (qbuild_search_exact bounds n q H))).
  apply NoDup_filter, NoDup_map_of_nat, seq_NoDup.
Qed.

End QProofs.

Print Assumptions choose_quad_within.
Print Assumptions meets_mono.
Print Assumptions qinsert_wf.
Print Assumptions qinsert_items.
Print Assumptions qsearch_exact.
Print Assumptions qbuild_search_exact.
Print Assumptions qbuild_search_nodup.
