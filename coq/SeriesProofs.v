(* SeriesProofs.v — proofs relating the Series.v model (processPoints,
   NumSegments, SegmentAt) to the independent specifications of SeriesSpec.v.
   Properties C18 (segment rule, convexity, clockwise, start/closing vertex
   independence) and C11 at series level (tight bounding box).
   No axioms, no admits. *)
From GJ Require Import Base Kernel Series SeriesSpec.
From Coq Require Import Arith.
Open Scope Z_scope.

(* ------------------------------------------------------------------ *)
(* generic list / arithmetic helpers                                   *)
(* ------------------------------------------------------------------ *)

Lemma mod_eq (a b q r : nat) : (r < b)%nat -> (a = b * q + r)%nat -> (a mod b = r)%nat.
Proof. intros Hr Ha. symmetry. eapply Nat.mod_unique; eauto. Qed.

Lemma last_nthp (l : list pt) : last l pt0 = nthp l (length l - 1).
Proof.
  unfold nthp. induction l as [|a l IH]; [reflexivity|].
  destruct l as [|b l]; [reflexivity|].
  change (last (a :: b :: l) pt0) with (last (b :: l) pt0). rewrite IH.
  cbn [length]. replace (S (S (length l)) - 1)%nat with (S (S (length l) - 1)) by lia.
  reflexivity.
Qed.

Lemma px_pair (a b : Z) : px (a, b) = a. Proof. reflexivity. Qed.
Lemma py_pair (a b : Z) : py (a, b) = b. Proof. reflexivity. Qed.

Lemma hd_nthp (l : list pt) : hd pt0 l = nthp l 0.
Proof. destruct l; reflexivity. Qed.

Lemma removelast_len (l : list pt) : length (removelast l) = (length l - 1)%nat.
Proof.
  induction l as [|a l IH]; [reflexivity|].
  destruct l as [|b l]; [reflexivity|].
  change (removelast (a :: b :: l)) with (a :: removelast (b :: l)).
  cbn [length] in *. rewrite IH. lia.
Qed.

Lemma nth_removelast (l : list pt) : forall i, (i < length l - 1)%nat ->
  nth i (removelast l) pt0 = nth i l pt0.
Proof.
  induction l as [|a l IH]; intros i Hi; [reflexivity|].
  destruct l as [|b l]; [cbn in Hi; lia|].
  change (removelast (a :: b :: l)) with (a :: removelast (b :: l)).
  destruct i as [|i]; [reflexivity|].
  cbn [nth]. apply IH. cbn [length] in *. lia.
Qed.

(* ------------------------------------------------------------------ *)
(* A. the segment rule                                                 *)
(* ------------------------------------------------------------------ *)

Lemma path_segs_length (ps : list pt) : length (path_segs ps) = (length ps - 1)%nat.
Proof.
  induction ps as [|a r IH]; [reflexivity|].
  destruct r as [|b r]; [reflexivity|].
  change (path_segs (a :: b :: r)) with ((a, b) :: path_segs (b :: r)).
  cbn [length] in *. rewrite IH. lia.
Qed.

Lemma path_segs_map (ps : list pt) :
  path_segs ps = map (fun i => (nthp ps i, nthp ps (S i))) (seq 0 (length ps - 1)).
Proof.
  induction ps as [|a r IH]; [reflexivity|].
  destruct r as [|b r]; [reflexivity|].
  change (path_segs (a :: b :: r)) with ((a, b) :: path_segs (b :: r)).
  rewrite IH.
  replace (length (a :: b :: r) - 1)%nat with (S (length (b :: r) - 1)) by (cbn [length]; lia).
  cbn [seq map]. f_equal.
  rewrite <- seq_shift, map_map. reflexivity.
Qed.

Lemma segments_closed_open_part (s : series) (k : nat) :
  (k <= npoints s - 1)%nat ->
  map (segment_at s) (seq 0 k) =
  map (fun i => (nthp (pts s) i, nthp (pts s) (S i))) (seq 0 k).
Proof.
  intros Hk. apply map_ext_in. intros i Hi. apply in_seq in Hi.
  unfold segment_at.
  destruct (Nat.eqb_spec i (npoints s - 1)) as [E|E]; [lia|].
  rewrite Nat.add_1_r. reflexivity.
Qed.

Theorem segments_eq_spec (s : series) : segments s = segments_spec s.
Proof.
  unfold segments, segments_spec, num_segments.
  rewrite last_nthp, hd_nthp. fold (npoints s).
  destruct (closed s).
  - destruct (Nat.ltb_spec (npoints s) 3) as [H3|H3]; [reflexivity|].
    destruct (pt_eqb (nthp (pts s) (npoints s - 1)) (nthp (pts s) 0)).
    + rewrite segments_closed_open_part by lia. rewrite path_segs_map. reflexivity.
    + replace (npoints s) with (S (npoints s - 1)) at 1 by lia.
      rewrite seq_S, map_app. rewrite segments_closed_open_part by lia.
      rewrite path_segs_map. fold (npoints s). f_equal.
      cbn [map Nat.add]. unfold segment_at. rewrite Nat.eqb_refl. reflexivity.
  - destruct (Nat.ltb_spec (npoints s) 2) as [H2|H2].
    + rewrite path_segs_map. fold (npoints s).
      replace (npoints s - 1)%nat with 0%nat by lia. reflexivity.
    + rewrite segments_closed_open_part by lia. rewrite path_segs_map. reflexivity.
Qed.

Theorem num_segments_spec (s : series) : num_segments s = length (segments_spec s).
Proof.
  rewrite <- segments_eq_spec. unfold segments. rewrite map_length, seq_length. reflexivity.
Qed.

Lemma num_segments_le (s : series) : (num_segments s <= npoints s)%nat.
Proof.
  unfold num_segments. destruct (closed s).
  - destruct (Nat.ltb_spec (npoints s) 3); [lia|].
    destruct (pt_eqb _ _); lia.
  - destruct (Nat.ltb_spec (npoints s) 2); lia.
Qed.

(* SegmentAt never indexes out of range: index i itself ... *)
Theorem segment_at_in_range (s : series) (i : nat) :
  (i < num_segments s)%nat -> (i < npoints s)%nat.
Proof. pose proof (num_segments_le s). lia. Qed.

(* ... and index i+1, read when i is not the last point (index 0 is then in
   range as well, since i < npoints s). *)
Theorem segment_at_in_range_succ (s : series) (i : nat) :
  (i < num_segments s)%nat -> i <> (npoints s - 1)%nat -> (i + 1 < npoints s)%nat.
Proof. pose proof (num_segments_le s). lia. Qed.

Theorem segment_at_in_range_zero (s : series) (i : nat) :
  (i < num_segments s)%nat -> (0 < npoints s)%nat.
Proof. pose proof (num_segments_le s). lia. Qed.

Theorem open_series_segments (ps : list pt) :
  length (segments_spec {| closed := false; pts := ps |}) = (length ps - 1)%nat.
Proof. unfold segments_spec. cbn [closed pts]. apply path_segs_length. Qed.

Theorem closed_series_segments (ps : list pt) :
  (3 <= length ps)%nat ->
  length (segments_spec {| closed := true; pts := ps |}) =
  if pt_eqb (last ps pt0) (hd pt0 ps) then (length ps - 1)%nat else length ps.
Proof.
  intros H3. unfold segments_spec. cbn [closed pts].
  destruct (Nat.ltb_spec (length ps) 3) as [H|H]; [lia|].
  destruct (pt_eqb (last ps pt0) (hd pt0 ps)).
  - apply path_segs_length.
  - rewrite app_length, path_segs_length. cbn [length]. lia.
Qed.

(* ------------------------------------------------------------------ *)
(* B. bounding box (C11 at series level)                               *)
(* ------------------------------------------------------------------ *)

Lemma inflate_minmax (a b c d : Z) (p : pt) :
  a <= c -> b <= d ->
  inflate ((a, b), (c, d)) p =
  ((Z.min a (px p), Z.min b (py p)), (Z.max c (px p), Z.max d (py p))).
Proof.
  intros Hx Hy. unfold inflate.
  destruct (Z.ltb_spec (px p) a); destruct (Z.ltb_spec c (px p));
  destruct (Z.ltb_spec (py p) b); destruct (Z.ltb_spec d (py p));
  f_equal; f_equal; lia.
Qed.

Lemma fold_inflate (r : list pt) : forall a b c d, a <= c -> b <= d ->
  fold_left inflate r ((a, b), (c, d)) =
  ((min_list a (map px r), min_list b (map py r)),
   (max_list c (map px r), max_list d (map py r))).
Proof.
  unfold min_list, max_list.
  induction r as [|p r IH]; intros a b c d Hx Hy; [reflexivity|].
  cbn [fold_left map]. rewrite inflate_minmax by assumption.
  apply IH; lia.
Qed.

Theorem points_rect_tight (ps : list pt) : points_rect ps = bbox_spec ps.
Proof.
  destruct ps as [|p r]; [reflexivity|].
  unfold points_rect, bbox_spec. destruct p as [x y].
  rewrite fold_inflate by lia. reflexivity.
Qed.

Lemma min_list_le (l : list Z) : forall d,
  min_list d l <= d /\ forall x, In x l -> min_list d l <= x.
Proof.
  unfold min_list. induction l as [|a l IH]; intros d; cbn [fold_left].
  - split; [lia|]. intros x [].
  - destruct (IH (Z.min d a)) as [H1 H2]. split; [lia|].
    intros x [<-|Hx]; [lia|]. apply H2; assumption.
Qed.

Lemma max_list_ge (l : list Z) : forall d,
  d <= max_list d l /\ forall x, In x l -> x <= max_list d l.
Proof.
  unfold max_list. induction l as [|a l IH]; intros d; cbn [fold_left].
  - split; [lia|]. intros x [].
  - destruct (IH (Z.max d a)) as [H1 H2]. split; [lia|].
    intros x [<-|Hx]; [lia|]. apply H2; assumption.
Qed.

Lemma min_list_in (l : list Z) : forall d, min_list d l = d \/ In (min_list d l) l.
Proof.
  unfold min_list. induction l as [|a l IH]; intros d; cbn [fold_left]; [left; reflexivity|].
  destruct (IH (Z.min d a)) as [H|H].
  - rewrite H. destruct (Z.min_spec d a) as [[_ E]|[_ E]]; rewrite E.
    + left; reflexivity.
    + right; left; reflexivity.
  - right; right; assumption.
Qed.

Lemma max_list_in (l : list Z) : forall d, max_list d l = d \/ In (max_list d l) l.
Proof.
  unfold max_list. induction l as [|a l IH]; intros d; cbn [fold_left]; [left; reflexivity|].
  destruct (IH (Z.max d a)) as [H|H].
  - rewrite H. destruct (Z.max_spec d a) as [[_ E]|[_ E]]; rewrite E.
    + right; left; reflexivity.
    + left; reflexivity.
  - right; right; assumption.
Qed.

Theorem bbox_spec_tight (ps : list pt) (p : pt) :
  In p ps ->
  let r := bbox_spec ps in
  px (fst r) <= px p <= px (snd r) /\ py (fst r) <= py p <= py (snd r).
Proof.
  intros Hin. destruct ps as [|q l]; [destruct Hin|].
  cbn [bbox_spec]. cbv zeta. cbn [fst snd]. rewrite !px_pair, !py_pair.
  destruct (min_list_le (map px l) (px q)) as [A1 A2].
  destruct (min_list_le (map py l) (py q)) as [B1 B2].
  destruct (max_list_ge (map px l) (px q)) as [C1 C2].
  destruct (max_list_ge (map py l) (py q)) as [D1 D2].
  destruct Hin as [<-|Hin]; [lia|].
  pose proof (A2 _ (in_map px _ _ Hin)). pose proof (B2 _ (in_map py _ _ Hin)).
  pose proof (C2 _ (in_map px _ _ Hin)). pose proof (D2 _ (in_map py _ _ Hin)).
  lia.
Qed.

Lemma attain_min (f : pt -> Z) (q : pt) (l : list pt) :
  exists p, In p (q :: l) /\ f p = min_list (f q) (map f l).
Proof.
  destruct (min_list_in (map f l) (f q)) as [H|H].
  - exists q. split; [left; reflexivity|]. symmetry; assumption.
  - apply in_map_iff in H. destruct H as [p [E Hp]]. exists p. split; [right; assumption|assumption].
Qed.

Lemma attain_max (f : pt -> Z) (q : pt) (l : list pt) :
  exists p, In p (q :: l) /\ f p = max_list (f q) (map f l).
Proof.
  destruct (max_list_in (map f l) (f q)) as [H|H].
  - exists q. split; [left; reflexivity|]. symmetry; assumption.
  - apply in_map_iff in H. destruct H as [p [E Hp]]. exists p. split; [right; assumption|assumption].
Qed.

Theorem bbox_spec_attained (ps : list pt) :
  ps <> [] ->
  let r := bbox_spec ps in
  exists p1 p2 p3 p4,
    In p1 ps /\ In p2 ps /\ In p3 ps /\ In p4 ps /\
    px p1 = px (fst r) /\ py p2 = py (fst r) /\ px p3 = px (snd r) /\ py p4 = py (snd r).
Proof.
  intros Hne. destruct ps as [|q l]; [congruence|].
  cbn [bbox_spec]. cbv zeta.
  destruct (attain_min px q l) as [p1 [I1 E1]].
  destruct (attain_min py q l) as [p2 [I2 E2]].
  destruct (attain_max px q l) as [p3 [I3 E3]].
  destruct (attain_max py q l) as [p4 [I4 E4]].
  exists p1, p2, p3, p4.
  repeat split; assumption.
Qed.

Theorem series_rect_spec (s : series) :
  series_empty s = false -> series_rect s = bbox_spec (pts s).
Proof.
  unfold series_empty, series_rect, process_points, npoints. intros ->.
  cbn [fst snd]. apply points_rect_tight.
Qed.

(* ------------------------------------------------------------------ *)
(* F. refutation recorded for the un-repaired (pinned) code            *)
(* ------------------------------------------------------------------ *)

Theorem convex_seam_pinned_refuted :
  exists ps, (3 <= length ps)%nat /\
             fst (fst (process_points_pinned ps true)) = true /\
             convex_specb (ring_vertices ps) = false.
Proof.
  exists [(0,-1); (5,-4); (8,2); (-8,3); (0,-1)].
  split; [cbn; lia|]. split; vm_compute; reflexivity.
Qed.

(* ------------------------------------------------------------------ *)
(* C. convexity (C18)                                                  *)
(* ------------------------------------------------------------------ *)

Theorem convex_specb_iff (vs : list pt) : convex_specb vs = true <-> convex_spec vs.
Proof.
  unfold convex_specb, convex_spec. split.
  - intros H [i [j [Hi [Hj [Hp Hn]]]]].
    assert (E1 : existsb (fun z => 0 <? z) (map (turn vs) (seq 0 (length vs))) = true).
    { apply existsb_exists. exists (turn vs i). split.
      - apply in_map. apply in_seq. lia.
      - apply Z.ltb_lt; assumption. }
    assert (E2 : existsb (fun z => z <? 0) (map (turn vs) (seq 0 (length vs))) = true).
    { apply existsb_exists. exists (turn vs j). split.
      - apply in_map. apply in_seq. lia.
      - apply Z.ltb_lt; assumption. }
    rewrite E1, E2 in H. discriminate.
  - intros H.
    destruct (existsb (fun z => 0 <? z) (map (turn vs) (seq 0 (length vs)))) eqn:E1; [|reflexivity].
    destruct (existsb (fun z => z <? 0) (map (turn vs) (seq 0 (length vs)))) eqn:E2; [|reflexivity].
    exfalso. apply H.
    apply existsb_exists in E1. destruct E1 as [z1 [I1 P1]].
    apply existsb_exists in E2. destruct E2 as [z2 [I2 P2]].
    apply in_map_iff in I1. destruct I1 as [i [<- Hi]].
    apply in_map_iff in I2. destruct I2 as [j [<- Hj]].
    apply in_seq in Hi. apply in_seq in Hj.
    apply Z.ltb_lt in P1. apply Z.ltb_lt in P2.
    exists i, j. repeat split; try lia.
Qed.

(* --- ring_vertices against turn_count / nthp --- *)

Lemma ring_vertices_length (ps : list pt) :
  length (ring_vertices ps) = turn_count true ps.
Proof.
  unfold turn_count. cbn [andb].
  destruct ps as [|p r]; [reflexivity|].
  unfold ring_vertices. rewrite last_nthp.
  change (nthp (p :: r) 0) with p.
  destruct (pt_eqb (nthp (p :: r) (length (p :: r) - 1)) p).
  - apply removelast_len.
  - reflexivity.
Qed.

Lemma ring_vertices_nth (ps : list pt) (i : nat) :
  (i < turn_count true ps)%nat -> nth i (ring_vertices ps) pt0 = nthp ps i.
Proof.
  unfold turn_count. cbn [andb].
  destruct ps as [|p r]; [destruct i; reflexivity|].
  unfold ring_vertices. rewrite last_nthp.
  change (nthp (p :: r) 0) with p.
  destruct (pt_eqb (nthp (p :: r) (length (p :: r) - 1)) p); intros Hi.
  - apply nth_removelast; assumption.
  - reflexivity.
Qed.

Lemma turn_count_ge2 (ps : list pt) :
  (3 <= length ps)%nat -> (2 <= turn_count true ps)%nat.
Proof. unfold turn_count. destruct (_ && _); lia. Qed.

Lemma cyc_ring (ps : list pt) (j : nat) :
  (1 <= turn_count true ps)%nat ->
  cyc (ring_vertices ps) j = nthp ps (j mod turn_count true ps).
Proof.
  intros Hm. unfold cyc. rewrite ring_vertices_length.
  apply ring_vertices_nth. apply Nat.mod_upper_bound. lia.
Qed.

(* the three branches of tri_at are the cyclic indices i, i+1, i+2 *)
Lemma tri_at_cyc (ps : list pt) (i : nat) :
  let m := turn_count true ps in
  (2 <= m)%nat -> (i < m)%nat ->
  tri_at ps m i =
  (cyc (ring_vertices ps) i, cyc (ring_vertices ps) (i + 1), cyc (ring_vertices ps) (i + 2)).
Proof.
  intros m Hm Hi. rewrite !cyc_ring by (fold m; lia). fold m.
  unfold tri_at.
  rewrite (Nat.mod_small i m) by assumption.
  destruct (Nat.eqb_spec i (m - 1)) as [E1|E1].
  - rewrite (mod_eq (i + 1) m 1 0) by lia.
    rewrite (mod_eq (i + 2) m 1 1) by lia. reflexivity.
  - destruct (Nat.eqb_spec i (m - 2)) as [E2|E2].
    + rewrite (Nat.mod_small (i + 1) m) by lia.
      rewrite (mod_eq (i + 2) m 1 0) by lia. reflexivity.
    + rewrite (Nat.mod_small (i + 1) m) by lia.
      rewrite (Nat.mod_small (i + 2) m) by lia. reflexivity.
Qed.

Lemma zcross_tri_turn (ps : list pt) (i : nat) :
  (2 <= turn_count true ps)%nat -> (i < turn_count true ps)%nat ->
  zcross (tri_at ps (turn_count true ps) i) = turn (ring_vertices ps) i.
Proof. intros Hm Hi. rewrite tri_at_cyc by assumption. reflexivity. Qed.

(* --- the dir/concave automaton --- *)

Definition st_ok (st : bool * Z) : Prop := snd st = -1 \/ snd st = 0 \/ snd st = 1.

Lemma turn_step_ok (st : bool * Z) (z : Z) : st_ok st -> st_ok (turn_step st z).
Proof.
  destruct st as [c d]. unfold st_ok. cbn [snd]. intros Hd.
  unfold turn_step. destruct c; [cbn [snd]; assumption|].
  destruct Hd as [->|[->| ->]]; destruct (z <? 0); destruct (0 <? z); cbn; auto.
Qed.

(* a concave state is absorbing; from a non-concave state with direction d the
   automaton ends concave iff a positive (or d>0) and a negative (or d<0)
   turn both occur *)
Lemma turn_fold (zs : list Z) : forall st, st_ok st ->
  fst (fold_left turn_step zs st) =
  fst st || (((0 <? snd st) || existsb (fun z => 0 <? z) zs) &&
             ((snd st <? 0) || existsb (fun z => z <? 0) zs)).
Proof.
  induction zs as [|z zs IH]; intros st Hst.
  - destruct st as [c d]. unfold st_ok in Hst. cbn [snd] in Hst.
    cbn [fold_left existsb fst snd]. destruct c; [reflexivity|].
    destruct Hst as [->|[->| ->]]; reflexivity.
  - cbn [fold_left existsb]. rewrite IH by (apply turn_step_ok; assumption).
    set (P := existsb (fun z => 0 <? z) zs). set (N := existsb (fun z => z <? 0) zs).
    destruct st as [c d]. unfold st_ok in Hst. cbn [snd] in Hst.
    unfold turn_step. destruct c; [reflexivity|].
    destruct Hst as [->|[->| ->]];
    destruct (Z.ltb_spec z 0); destruct (Z.ltb_spec 0 z); try lia;
    destruct P; destruct N; reflexivity.
Qed.

Lemma turn_fold_absorbing (zs : list Z) (d : Z) :
  fst (fold_left turn_step zs (true, d)) = true.
Proof. induction zs as [|z zs IH]; [reflexivity|]. cbn [fold_left]. exact IH. Qed.

Lemma ex_pos (zs : list Z) :
  existsb (fun z => 0 <? z) zs = true <-> exists z, In z zs /\ 0 < z.
Proof.
  rewrite existsb_exists.
  split; intros [z [I A]]; exists z; (split; [assumption|]); apply Z.ltb_lt; assumption.
Qed.

Lemma ex_neg (zs : list Z) :
  existsb (fun z => z <? 0) zs = true <-> exists z, In z zs /\ z < 0.
Proof.
  rewrite existsb_exists.
  split; intros [z [I A]]; exists z; (split; [assumption|]); apply Z.ltb_lt; assumption.
Qed.

(* the Prop form of the automaton invariant, as in the property text *)
Lemma turn_fold_iff (zs : list Z) (d : Z) :
  d = -1 \/ d = 0 \/ d = 1 ->
  (fst (fold_left turn_step zs (false, d)) = true <->
   ((0 < d \/ exists z, In z zs /\ 0 < z) /\ (d < 0 \/ exists z, In z zs /\ z < 0))).
Proof.
  intros Hd. rewrite turn_fold by exact Hd. cbn [fst snd orb].
  rewrite andb_true_iff, !orb_true_iff, ex_pos, ex_neg, !Z.ltb_lt. reflexivity.
Qed.

Lemma process_points_closed (ps : list pt) :
  (3 <= length ps)%nat ->
  process_points ps true =
  let m := turn_count true ps in
  let tris := map (tri_at ps m) (seq 0 m) in
  (negb (fst (fold_left turn_step (map zcross tris) (false, 0))),
   points_rect ps,
   0 <? fold_left (fun acc t => acc + cw_term t) tris 0).
Proof.
  intros H3. unfold process_points.
  destruct (Nat.ltb_spec (length ps) 3); [lia|].
  destruct (Nat.ltb_spec (length ps) 2); [lia|].
  reflexivity.
Qed.

Theorem series_convex_spec (ps : list pt) :
  (3 <= length ps)%nat ->
  series_convex {| closed := true; pts := ps |} = convex_specb (ring_vertices ps).
Proof.
  intros H3. unfold series_convex. cbn [closed pts].
  rewrite process_points_closed by assumption. cbv zeta. cbn [fst].
  pose proof (turn_count_ge2 ps H3) as Hm.
  rewrite turn_fold by (unfold st_ok; cbn [snd]; auto).
  cbn [fst snd]. change (0 <? 0) with false. cbn [orb].
  unfold convex_specb. rewrite ring_vertices_length.
  rewrite map_map.
  rewrite (map_ext_in (fun x => zcross (tri_at ps (turn_count true ps) x))
                      (turn (ring_vertices ps))).
  - reflexivity.
  - intros i Hi. apply in_seq in Hi. apply zcross_tri_turn; lia.
Qed.

(* ------------------------------------------------------------------ *)
(* D. clockwise (C18)                                                  *)
(* ------------------------------------------------------------------ *)

Fixpoint zsum (l : list Z) : Z :=
  match l with [] => 0 | x :: r => x + zsum r end.

Lemma fold_add_zsum (l : list Z) : forall a, fold_left Z.add l a = a + zsum l.
Proof.
  induction l as [|x l IH]; intros a; cbn [fold_left zsum]; [lia|].
  rewrite IH. lia.
Qed.

Lemma fold_acc_zsum {A : Type} (h : A -> Z) (l : list A) : forall a,
  fold_left (fun acc t => acc + h t) l a = a + zsum (map h l).
Proof.
  induction l as [|x l IH]; intros a; cbn [fold_left zsum map]; [lia|].
  rewrite IH. lia.
Qed.

Lemma zsum_app (l1 l2 : list Z) : zsum (l1 ++ l2) = zsum l1 + zsum l2.
Proof. induction l1 as [|x l IH]; cbn [app zsum]; [lia|]. rewrite IH. lia. Qed.

Lemma zsum_map_sub {A : Type} (f g : A -> Z) (l : list A) :
  zsum (map (fun i => f i - g i) l) = zsum (map f l) - zsum (map g l).
Proof. induction l as [|x l IH]; cbn [map zsum]; [lia|]. rewrite IH. lia. Qed.

(* telescoping sum over seq *)
Lemma zsum_telescope (g : nat -> Z) (n : nat) : forall s,
  zsum (map (fun i => g (S i) - g i) (seq s n)) = g (s + n)%nat - g s.
Proof.
  induction n as [|n IH]; intros s; cbn [seq map zsum].
  - rewrite Nat.add_0_r. lia.
  - rewrite IH. replace (S s + n)%nat with (s + S n)%nat by lia. lia.
Qed.

Definition sh_term (vs : list pt) (i : nat) : Z :=
  px (cyc vs i) * py (cyc vs (i + 1)) - px (cyc vs (i + 1)) * py (cyc vs i).

Lemma shoelace2_zsum (vs : list pt) :
  shoelace2 vs = zsum (map (sh_term vs) (seq 0 (length vs))).
Proof. unfold shoelace2. rewrite fold_add_zsum. unfold sh_term. lia. Qed.

Definition cw_cyc (vs : list pt) (i : nat) : Z :=
  (px (cyc vs (i + 1)) - px (cyc vs i)) * (py (cyc vs (i + 1)) + py (cyc vs i)).

Lemma cyc_wrap (vs : list pt) : cyc vs (length vs) = cyc vs 0.
Proof.
  unfold cyc. destruct vs as [|v vs]; [reflexivity|].
  rewrite Nat.mod_same, Nat.mod_0_l by (cbn [length]; lia). reflexivity.
Qed.

(* the trapezoid sum is minus the shoelace sum: the difference telescopes
   cyclically *)
Lemma cw_cyc_sum (vs : list pt) :
  zsum (map (cw_cyc vs) (seq 0 (length vs))) = - shoelace2 vs.
Proof.
  rewrite shoelace2_zsum.
  set (g := fun i => px (cyc vs i) * py (cyc vs i)).
  rewrite (map_ext (cw_cyc vs) (fun i => (g (S i) - g i) - sh_term vs i)).
  - rewrite (zsum_map_sub (fun i => g (S i) - g i) (sh_term vs)).
    rewrite zsum_telescope. cbn [Nat.add]. unfold g. rewrite cyc_wrap. lia.
  - intros i. unfold cw_cyc, sh_term, g. rewrite Nat.add_1_r. ring.
Qed.

Lemma cw_term_tri (ps : list pt) (i : nat) :
  (2 <= turn_count true ps)%nat -> (i < turn_count true ps)%nat ->
  cw_term (tri_at ps (turn_count true ps) i) = cw_cyc (ring_vertices ps) i.
Proof. intros Hm Hi. rewrite tri_at_cyc by assumption. reflexivity. Qed.

Theorem series_clockwise_spec (ps : list pt) :
  (3 <= length ps)%nat ->
  series_clockwise {| closed := true; pts := ps |} = clockwise_specb (ring_vertices ps).
Proof.
  intros H3. unfold series_clockwise. cbn [closed pts].
  rewrite process_points_closed by assumption. cbv zeta. cbn [snd].
  pose proof (turn_count_ge2 ps H3) as Hm.
  rewrite fold_acc_zsum, map_map.
  rewrite (map_ext_in (fun x => cw_term (tri_at ps (turn_count true ps) x))
                      (cw_cyc (ring_vertices ps))).
  - rewrite <- ring_vertices_length, cw_cyc_sum.
    unfold clockwise_specb.
    destruct (Z.ltb_spec 0 (0 + - shoelace2 (ring_vertices ps)));
    destruct (Z.ltb_spec (shoelace2 (ring_vertices ps)) 0); try reflexivity; lia.
  - intros i Hi. apply in_seq in Hi. apply cw_term_tri; lia.
Qed.

(* ------------------------------------------------------------------ *)
(* E. independence of the starting vertex and of the closing vertex    *)
(* ------------------------------------------------------------------ *)

Definition rot (k : nat) (vs : list pt) : list pt :=
  skipn (k mod length vs) vs ++ firstn (k mod length vs) vs.

Lemma rot_nil (k : nat) : rot k [] = [].
Proof. unfold rot. rewrite skipn_nil, firstn_nil. reflexivity. Qed.

Lemma rot_length (k : nat) (vs : list pt) : length (rot k vs) = length vs.
Proof.
  unfold rot. rewrite app_length, skipn_length, firstn_length. lia.
Qed.

Lemma nth_app_swap (l1 l2 : list pt) (j : nat) :
  (j < length l1 + length l2)%nat ->
  nth j (l2 ++ l1) pt0 =
  nth ((j + length l1) mod (length l1 + length l2)) (l1 ++ l2) pt0.
Proof.
  intros Hj. destruct (Nat.lt_ge_cases j (length l2)) as [H|H].
  - rewrite app_nth1 by assumption.
    rewrite Nat.mod_small by lia. rewrite app_nth2 by lia.
    f_equal. lia.
  - rewrite app_nth2 by assumption.
    rewrite (mod_eq (j + length l1) (length l1 + length l2) 1 (j - length l2)) by lia.
    rewrite app_nth1 by lia. reflexivity.
Qed.

Lemma cyc_rot (k : nat) (vs : list pt) (i : nat) :
  vs <> [] -> cyc (rot k vs) i = cyc vs (i + k).
Proof.
  intros Hne. unfold cyc. rewrite rot_length.
  assert (Hn : length vs <> 0%nat) by (destruct vs; [congruence|cbn [length]; lia]).
  set (n := length vs) in *. set (r := (k mod n)%nat).
  assert (Hr : (r < n)%nat) by (apply Nat.mod_upper_bound; assumption).
  assert (Hj : (i mod n < n)%nat) by (apply Nat.mod_upper_bound; assumption).
  unfold rot. fold n. fold r.
  assert (L1 : length (firstn r vs) = r) by (rewrite firstn_length; fold n; lia).
  assert (L2 : length (skipn r vs) = (n - r)%nat) by (rewrite skipn_length; reflexivity).
  rewrite nth_app_swap by lia.
  rewrite firstn_skipn, L1, L2.
  replace (r + (n - r))%nat with n by lia.
  unfold r. rewrite <- Nat.add_mod by assumption. reflexivity.
Qed.

Lemma cyc_mod_l (vs : list pt) (i j : nat) :
  vs <> [] -> cyc vs (i mod length vs + j) = cyc vs (i + j).
Proof.
  intros Hne. unfold cyc.
  rewrite Nat.add_mod_idemp_l by (destruct vs; [congruence|cbn [length]; lia]).
  reflexivity.
Qed.

Lemma cyc_mod (vs : list pt) (i : nat) :
  vs <> [] -> cyc vs (i mod length vs) = cyc vs i.
Proof.
  intros Hne. pose proof (cyc_mod_l vs i 0 Hne) as H. rewrite !Nat.add_0_r in H. exact H.
Qed.

Lemma turn_mod (vs : list pt) (i : nat) :
  vs <> [] -> turn vs (i mod length vs) = turn vs i.
Proof.
  intros Hne. unfold turn. rewrite !cyc_mod_l, cyc_mod by assumption. reflexivity.
Qed.

Lemma sh_term_mod (vs : list pt) (i : nat) :
  vs <> [] -> sh_term vs (i mod length vs) = sh_term vs i.
Proof.
  intros Hne. unfold sh_term. rewrite !cyc_mod_l, cyc_mod by assumption. reflexivity.
Qed.

Lemma turn_rot (k : nat) (vs : list pt) (i : nat) :
  vs <> [] -> turn (rot k vs) i = turn vs ((i + k) mod length vs).
Proof.
  intros Hne. rewrite turn_mod by assumption. unfold turn.
  rewrite !cyc_rot by assumption.
  replace (i + 1 + k)%nat with (i + k + 1)%nat by lia.
  replace (i + 2 + k)%nat with (i + k + 2)%nat by lia. reflexivity.
Qed.

Lemma sh_term_rot (k : nat) (vs : list pt) (i : nat) :
  vs <> [] -> sh_term (rot k vs) i = sh_term vs ((i + k) mod length vs).
Proof.
  intros Hne. rewrite sh_term_mod by assumption. unfold sh_term.
  rewrite !cyc_rot by assumption.
  replace (i + 1 + k)%nat with (i + k + 1)%nat by lia. reflexivity.
Qed.

(* the index map i |-> (i+k) mod n sends 0..n-1 to r..n-1 followed by 0..r-1 *)
Lemma map_add_seq (r l : nat) : forall s,
  map (fun i => (i + r)%nat) (seq s l) = seq (s + r) l.
Proof.
  induction l as [|l IH]; intros s; cbn [seq map]; [reflexivity|].
  f_equal. apply (IH (S s)).
Qed.

Lemma map_sub_seq (c l : nat) : forall s,
  map (fun i => (i - c)%nat) (seq (c + s) l) = seq s l.
Proof.
  induction l as [|l IH]; intros s; cbn [seq map]; [reflexivity|].
  f_equal; [lia|]. replace (S (c + s)) with (c + S s)%nat by lia. apply IH.
Qed.

Lemma seq_split (n r : nat) : (r <= n)%nat -> seq 0 n = seq 0 r ++ seq r (n - r).
Proof.
  intros Hr. pose proof (seq_app r (n - r) 0) as H. cbn [Nat.add] in H.
  rewrite <- H. f_equal. lia.
Qed.

Lemma rot_index (n k : nat) :
  n <> 0%nat ->
  map (fun i => ((i + k) mod n)%nat) (seq 0 n) =
  seq (k mod n) (n - k mod n) ++ seq 0 (k mod n).
Proof.
  intros Hn. set (r := (k mod n)%nat).
  assert (Hr : (r < n)%nat) by (apply Nat.mod_upper_bound; assumption).
  assert (Hk : k = (n * (k / n) + r)%nat) by (apply Nat.div_mod; assumption).
  rewrite (seq_split n (n - r)) by lia.
  replace (n - (n - r))%nat with r by lia.
  rewrite map_app. f_equal.
  - change (seq r (n - r)) with (seq (0 + r) (n - r)).
    rewrite <- (map_add_seq r (n - r) 0).
    apply map_ext_in. intros i Hi. apply in_seq in Hi.
    apply (mod_eq (i + k) n (k / n) (i + r)); lia.
  - rewrite <- (map_sub_seq (n - r) r 0). rewrite Nat.add_0_r.
    apply map_ext_in. intros i Hi. apply in_seq in Hi.
    apply (mod_eq (i + k) n (k / n + 1) (i - (n - r))); lia.
Qed.

Lemma existsb_rot (f : Z -> bool) (h : nat -> Z) (n k : nat) :
  n <> 0%nat ->
  existsb f (map (fun i => h ((i + k) mod n)%nat) (seq 0 n)) = existsb f (map h (seq 0 n)).
Proof.
  intros Hn.
  assert (Hr : (k mod n < n)%nat) by (apply Nat.mod_upper_bound; assumption).
  rewrite <- (map_map (fun i => ((i + k) mod n)%nat) h).
  rewrite rot_index by assumption.
  rewrite (seq_split n (k mod n)) by lia.
  rewrite !map_app, !existsb_app. apply orb_comm.
Qed.

Lemma zsum_rot (h : nat -> Z) (n k : nat) :
  n <> 0%nat ->
  zsum (map (fun i => h ((i + k) mod n)%nat) (seq 0 n)) = zsum (map h (seq 0 n)).
Proof.
  intros Hn.
  assert (Hr : (k mod n < n)%nat) by (apply Nat.mod_upper_bound; assumption).
  rewrite <- (map_map (fun i => ((i + k) mod n)%nat) h).
  rewrite rot_index by assumption.
  rewrite (seq_split n (k mod n)) by lia.
  rewrite !map_app, !zsum_app. lia.
Qed.

Theorem convex_rot (k : nat) (vs : list pt) : convex_specb (rot k vs) = convex_specb vs.
Proof.
  destruct vs as [|v vs']; [rewrite rot_nil; reflexivity|].
  set (vs := v :: vs').
  assert (Hne : vs <> []) by (unfold vs; congruence).
  assert (Hn : length vs <> 0%nat) by (unfold vs; cbn [length]; lia).
  unfold convex_specb. rewrite rot_length.
  rewrite (map_ext (turn (rot k vs)) (fun i => turn vs ((i + k) mod length vs)))
    by (intros i; apply turn_rot; assumption).
  rewrite !(existsb_rot _ (turn vs)) by assumption. reflexivity.
Qed.

Theorem shoelace_rot (k : nat) (vs : list pt) : shoelace2 (rot k vs) = shoelace2 vs.
Proof.
  destruct vs as [|v vs']; [rewrite rot_nil; reflexivity|].
  set (vs := v :: vs').
  assert (Hne : vs <> []) by (unfold vs; congruence).
  assert (Hn : length vs <> 0%nat) by (unfold vs; cbn [length]; lia).
  rewrite !shoelace2_zsum. rewrite rot_length.
  rewrite (map_ext (sh_term (rot k vs)) (fun i => sh_term vs ((i + k) mod length vs)))
    by (intros i; apply sh_term_rot; assumption).
  apply (zsum_rot (sh_term vs)). assumption.
Qed.

Theorem clockwise_rot (k : nat) (vs : list pt) :
  clockwise_specb (rot k vs) = clockwise_specb vs.
Proof. unfold clockwise_specb. rewrite shoelace_rot. reflexivity. Qed.

Theorem ring_vertices_closing (vs : list pt) :
  vs <> [] -> pt_eqb (last vs pt0) (hd pt0 vs) = false ->
  ring_vertices (vs ++ [hd pt0 vs]) = vs /\ ring_vertices vs = vs.
Proof.
  intros Hne Hlast. destruct vs as [|v vs']; [congruence|].
  cbn [hd] in *. split.
  - unfold ring_vertices. cbn [app].
    change (v :: vs' ++ [v]) with ((v :: vs') ++ [v]).
    rewrite last_last, pt_eqb_refl. apply removelast_last.
  - unfold ring_vertices. rewrite Hlast. reflexivity.
Qed.

(* ------------------------------------------------------------------ *)

Print Assumptions segments_eq_spec.
Print Assumptions num_segments_spec.
Print Assumptions segment_at_in_range.
Print Assumptions segment_at_in_range_succ.
Print Assumptions segment_at_in_range_zero.
Print Assumptions open_series_segments.
Print Assumptions closed_series_segments.
Print Assumptions points_rect_tight.
Print Assumptions bbox_spec_tight.
Print Assumptions bbox_spec_attained.
Print Assumptions series_rect_spec.
Print Assumptions convex_specb_iff.
Print Assumptions turn_fold_iff.
Print Assumptions turn_fold_absorbing.
Print Assumptions series_convex_spec.
Print Assumptions series_clockwise_spec.
Print Assumptions convex_rot.
Print Assumptions shoelace_rot.
Print Assumptions clockwise_rot.
Print Assumptions ring_vertices_closing.
Print Assumptions convex_seam_pinned_refuted.
