(* PairSpec.v — executable specification ("arrangement oracle") of the point-set
   relations of properties C02 and C03 for valid shapes:
     meets_x A B   : the closed point sets of A and B share a point
     covers_x A B  : B is non-empty and every point of B belongs to A
   Rational points are triples (x, y, d), d > 0, meaning (x/d, y/d); a test of
   such a point against a shape scales the shape's integer coordinates by d, so
   everything is decided in exact integer arithmetic with the membership
   specifications of RingSpec.  Nothing here looks at the code under test. *)
From Coq Require Import QArith.
From GJ Require Import Base Kernel KernelSpec Series SeriesSpec RingSpec.
Open Scope Z_scope.

Inductive shape :=
| SPoint (p : pt)
| SRect (r : rect)
| SLine (ps : list pt)
| SPoly (e : list pt) (hs : list (list pt)).

Definition qpt : Type := (Z * Z * Z)%type.
Definition qp_of (p : pt) : qpt := (px p, py p, 1).

Definition scale_pt (d : Z) (p : pt) : pt := (px p * d, py p * d).
Definition scale_pts (d : Z) (ps : list pt) : list pt := map (scale_pt d) ps.
Definition scale_rectq (d : Z) (r : rect) : rect := (scale_pt d (fst r), scale_pt d (snd r)).

(* membership of a rational point in the closed point set of a shape *)
Definition in_shape (s : shape) (q : qpt) : bool :=
  let '(x, y, d) := q in
  match s with
  | SPoint p => pt_eqb (scale_pt d p) (x, y)
  | SRect r => in_rectb (scale_rectq d r) (x, y)
  | SLine ps => in_lineb (scale_pts d ps) (x, y)
  | SPoly e hs => in_polyb (ring_edges (scale_pts d e)) (map (fun h => ring_edges (scale_pts d h)) hs) (x, y)
  end.

Definition rect_corners (r : rect) : list pt :=
  let '((a, b), (c, d)) := r in [(a, b); (c, b); (c, d); (a, d)].

Definition shape_vertices (s : shape) : list pt :=
  match s with
  | SPoint p => [p]
  | SRect r => rect_corners r
  | SLine ps => ps
  | SPoly e hs => e ++ concat hs
  end.

(* the segments whose union is the shape's boundary (or the shape itself for
   points and lines) *)
Definition shape_segments (s : shape) : list seg :=
  match s with
  | SPoint p => [(p, p)]
  | SRect r => ring_edges (rect_corners r)
  | SLine ps => match ps with [p] => [(p, p)] | _ => path_segs ps end
  | SPoly e hs => ring_edges e ++ flat_map ring_edges hs
  end.

Definition shape_nonempty (s : shape) : bool :=
  match s with
  | SPoint _ | SRect _ => true
  | SLine ps => (2 <=? length ps)%nat
  | SPoly e _ => (3 <=? length e)%nat
  end.

(* ---- meets ---- *)
Definition meets_x (a b : shape) : bool :=
  shape_nonempty a && shape_nonempty b &&
  (existsb (fun v => in_shape b (qp_of v)) (shape_vertices a) ||
   existsb (fun v => in_shape a (qp_of v)) (shape_vertices b) ||
   existsb (fun s => existsb (fun t => seg_meetb s t) (shape_segments b)) (shape_segments a)).

(* ---- covers ---- *)

(* a parameter t = n/m (m > 0) along segment (a,b) *)
Definition par : Type := (Z * Z)%type.
Definition par_norm (n m : Z) : par := if m <? 0 then (- n, - m) else (n, m).
Definition par_in01 (t : par) : bool := let '(n, m) := t in (0 <=? n) && (n <=? m).
Definition par_point (s : seg) (t : par) : qpt :=
  let '(a, b) := s in let '(n, m) := t in
  (px a * m + n * (px b - px a), py a * m + n * (py b - py a), m).
Definition par_mid (t u : par) : par :=
  let '(n1, m1) := t in let '(n2, m2) := u in (n1 * m2 + n2 * m1, 2 * m1 * m2).

Definition vcross (ux uy vx vy : Z) : Z := ux * vy - uy * vx.

(* parameters along s at which s may touch edge e: the transversal intersection,
   or the projections of e's endpoints when e is collinear with s *)
Definition crit_params (s e : seg) : list par :=
  let '(a, b) := s in let '(c, d) := e in
  let rx := px b - px a in let ry := py b - py a in
  let sx := px d - px c in let sy := py d - py c in
  let den := vcross rx ry sx sy in
  let keep l := filter par_in01 l in
  if negb (den =? 0) then
    keep [par_norm (vcross (px c - px a) (py c - py a) sx sy) den]
  else if vcross rx ry (px c - px a) (py c - py a) =? 0 then
    let len2 := rx * rx + ry * ry in
    keep [par_norm ((px c - px a) * rx + (py c - py a) * ry) len2;
          par_norm ((px d - px a) * rx + (py d - py a) * ry) len2]
  else [].

(* every point of segment s satisfies mem, where mem can change only at the
   critical parameters induced by the edges [es]: test all critical points and
   the midpoints of all pairs of them *)
Definition seg_within (mem : qpt -> bool) (es : list seg) (s : seg) : bool :=
  if pt_eqb (fst s) (snd s) then mem (qp_of (fst s))
  else
    let ts := (0, 1) :: (1, 1) :: flat_map (crit_params s) es in
    forallb (fun t => mem (par_point s t)) ts &&
    forallb (fun t => forallb (fun u => mem (par_point s (par_mid t u))) ts) ts.

(* a point strictly inside a simple ring h with positive area: on the horizontal
   line half-way between the lowest vertex level and the next one, the midpoint
   of the two leftmost boundary crossings *)
Definition ring_interior_point (h : list pt) : option qpt :=
  match map py h with
  | [] => None
  | y0 :: ys =>
      let ymin := fold_left Z.min ys y0 in
      let above := filter (fun y => ymin <? y) (y0 :: ys) in
      match above with
      | [] => None
      | y1 :: r =>
          let ynext := fold_left Z.min r y1 in
          (* level Y/2 with Y = ymin + ynext; no vertex lies on it *)
          let Y := ymin + ynext in
          let xs : list Q :=
            flat_map (fun e : seg =>
                        let '(a, b) := e in
                        if ((2 * py a <? Y) && (Y <? 2 * py b)) || ((2 * py b <? Y) && (Y <? 2 * py a)) then
                          [Qred (inject_Z (px a * (2 * (py b - py a)) + (Y - 2 * py a) * (px b - px a))
                                 / inject_Z (2 * (py b - py a)))%Q]
                        else []) (ring_edges h) in
          match xs with
          | x0 :: xr =>
              let x1 := fold_left (fun m x => if Qle_bool x m then x else m) xr x0 in
              let rest := filter (fun x => negb (Qeq_bool x x1)) xs in
              match rest with
              | [] => None
              | z0 :: zr =>
                  let x2 := fold_left (fun m x => if Qle_bool x m then x else m) zr z0 in
                  let xm := Qred ((x1 + x2) / inject_Z 2)%Q in
                  (* common denominator 2 * den(xm) *)
                  let d := 2 * Z.pos (Qden xm) in
                  Some (Qnum xm * 2, Y * Z.pos (Qden xm), d)
              end
          | [] => None
          end
      end
  end.

Definition is_region (s : shape) : bool :=
  match s with SRect _ | SPoly _ _ => true | _ => false end.

(* all vertices collinear: the shape has no interior *)
Definition degenerate (s : shape) : bool :=
  match shape_vertices s with
  | a :: r =>
      match filter (fun v => negb (pt_eqb v a)) r with
      | [] => true
      | b :: _ => forallb (fun v => cross a b v =? 0) r
      end
  | [] => true
  end.

Definition covers_x (a b : shape) : bool :=
  shape_nonempty a && shape_nonempty b &&
  match a with
  | SPoint p => forallb (fun v => pt_eqb v p) (shape_vertices b)
  | SRect r => forallb (fun v => in_rectb r v) (shape_vertices b)
  | SLine _ =>
      (negb (is_region b) || degenerate b) &&
      forallb (seg_within (in_shape a) (shape_segments a)) (shape_segments b)
  | SPoly e hs =>
      forallb (seg_within (in_shape a) (shape_segments a)) (shape_segments b) &&
      (negb (is_region b) ||
       forallb (fun h => match ring_interior_point h with
                         | Some q => negb (in_shape b q)
                         | None => true
                         end) hs)
  end.
