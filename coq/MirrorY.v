(* MirrorY.v — property C12: reflection in the horizontal axis (y -> -y) and transposition
   (x <-> y).  Both move the ray of the point-in-ring test (the half-open rule flips, or the ray
   turns upwards); by the general crossing-parity theorem (Crossing.v) every non-horizontal
   direction counts the same parity as the ray to the right, so ring / polygon membership is
   invariant under them too.  With Mirror.v (x -> -x) this covers the eight symmetries of the
   square. *)
From Coq Require Import ZArith Bool List Lia.
From GJ Require Import Base Kernel KernelSpec Series SeriesSpec Ring RingSpec
  RaycastProofs KernelProofs IntersectsProofs IntersectsQ SeriesProofs PipProofs PairProofs Jordan Crossing.
Import ListNotations.
Open Scope Z_scope.

(* ------------------------------------------------------------------ *)
(* points beyond every vertex are outside                               *)

Lemma beyond_y_outside (ps : list pt) (X : pt) :
  ((forall q, In q ps -> py X < py q) \/ (forall q, In q ps -> py q < py X)) ->
  on_boundaryb (ring_edges ps) X = false /\ parityb (ring_edges ps) X = false.
Proof.
  intros H. split.
  - unfold on_boundaryb. apply existsb_false_iff. intros [a b] Hin.
    destruct (ring_edges_endpoints ps a b Hin) as [Ha Hb].
    destruct (on_segb (a, b) X) eqn:E; [exfalso|reflexivity]. apply on_segb_iff in E. destruct E as (_ & _ & Hy).
    destruct H as [H|H]; pose proof (H a Ha); pose proof (H b Hb); lia.
  - rewrite parityb_xfold. apply xfold_all_false. intros [a b] Hin.
    destruct (ring_edges_endpoints ps a b Hin) as [Ha Hb]. apply not_true_is_false. rewrite crossesb_iff.
    unfold crosses. destruct H as [H|H]; pose proof (H a Ha); pose proof (H b Hb); lia.
Qed.

Definition low_y (ps : list pt) (p : pt) : Z := fold_right (fun q acc => Z.min (py q) acc) (py p) ps - 1.
Definition high_x (ps : list pt) (p : pt) : Z := fold_right (fun q acc => Z.max (px q) acc) (px p) ps + 1.

Lemma low_y_spec ps p : low_y ps p < py p /\ forall q, In q ps -> low_y ps p < py q.
Proof.
  unfold low_y. induction ps as [|x l IH]; cbn [fold_right].
  - split; [lia|intros q []].
  - destruct IH as [I1 I2]. split; [lia|]. intros q [<-|Hq]; [lia|]. pose proof (I2 q Hq). lia.
Qed.

Lemma high_x_spec ps p : px p < high_x ps p /\ forall q, In q ps -> px q < high_x ps p.
Proof.
  unfold high_x. induction ps as [|x l IH]; cbn [fold_right].
  - split; [lia|intros q []].
  - destruct IH as [I1 I2]. split; [lia|]. intros q [<-|Hq]; [lia|]. pose proof (I2 q Hq). lia.
Qed.

(* ------------------------------------------------------------------ *)
(* maps that preserve equality of points: the edges of the image ring   *)

Section Tau.
Variable tau : pt -> pt.
Hypothesis tau_eqb : forall p q, pt_eqb (tau p) (tau q) = pt_eqb p q.
Definition taus (s : seg) : seg := (tau (fst s), tau (snd s)).

Lemma path_segs_tau ps : path_segs (map tau ps) = map taus (path_segs ps).
Proof.
  induction ps as [|a r IH]; [reflexivity|]. destruct r as [|b r']; [reflexivity|].
  change (path_segs (tau a :: map tau (b :: r')) = taus (a, b) :: map taus (path_segs (b :: r'))).
  rewrite <- IH. reflexivity.
Qed.

Lemma last_map_tau ps : ps <> [] -> last (map tau ps) pt0 = tau (last ps pt0).
Proof.
  induction ps as [|a [|b r] IH]; intros H; [congruence|reflexivity|].
  change (map tau (a :: b :: r)) with (tau a :: map tau (b :: r)).
  change (last (tau a :: map tau (b :: r)) pt0) with (last (map tau (b :: r)) pt0).
  rewrite IH by discriminate. reflexivity.
Qed.

Lemma ring_edges_tau ps : ring_edges (map tau ps) = map taus (ring_edges ps).
Proof.
  unfold ring_edges, segments_spec. cbn [closed pts]. rewrite map_length.
  destruct (length ps <? 3)%nat eqn:E; [reflexivity|].
  destruct ps as [|a r]; [reflexivity|].
  rewrite last_map_tau by discriminate. cbn [map hd]. rewrite tau_eqb.
  change (tau a :: map tau r) with (map tau (a :: r)).
  destruct (pt_eqb (last (a :: r) pt0) a).
  - apply path_segs_tau.
  - rewrite path_segs_tau, map_app. reflexivity.
Qed.

Hypothesis tau_on : forall s p, on_segb (taus s) (tau p) = on_segb s p.

Lemma on_boundaryb_tau E p : on_boundaryb (map taus E) (tau p) = on_boundaryb E p.
Proof.
  unfold on_boundaryb. induction E as [|s l IH]; cbn [map existsb]; [reflexivity|]. rewrite tau_on, IH. reflexivity.
Qed.
End Tau.

Lemma cross_swap p G a : cross p G a = - cross G p a.
Proof. unfold cross. ring. Qed.

Lemma soppb_neg_swap x y : soppb (- x) (- y) = soppb y x.
Proof. unfold soppb. apply bool_eq_iff. rewrite !orb_true_iff, !andb_true_iff, !Z.ltb_lt. lia. Qed.

(* ------------------------------------------------------------------ *)
(* y -> -y                                                              *)

Definition my (p : pt) : pt := (px p, - py p).
Definition mys := taus my.

Lemma my_my p : my (my p) = p.
Proof. destruct p as [x y]. unfold my, px, py. cbn [fst snd]. f_equal. lia. Qed.

Lemma cross_my a b p : cross (my a) (my b) (my p) = - cross a b p.
Proof. unfold cross, my, px, py. cbn [fst snd]. ring. Qed.

Lemma pt_eqb_my p q : pt_eqb (my p) (my q) = pt_eqb p q.
Proof. unfold pt_eqb, my, px, py. cbn [fst snd]. f_equal. apply bool_eq_iff. rewrite !Z.eqb_eq. lia. Qed.

Lemma on_segb_my s p : on_segb (mys s) (my p) = on_segb s p.
Proof.
  destruct s as [a b]. unfold mys, taus, on_segb. cbn [fst snd]. rewrite cross_my.
  unfold my, px, py. cbn [fst snd]. apply bool_eq_iff. rewrite !andb_true_iff, !Z.eqb_eq, !Z.leb_le. lia.
Qed.

Theorem in_ringb_my (ps : list pt) (p : pt) :
  in_ringb (ring_edges (map my ps)) (my p) = in_ringb (ring_edges ps) p.
Proof.
  rewrite (ring_edges_tau my pt_eqb_my). fold mys. unfold in_ringb.
  rewrite (on_boundaryb_tau my on_segb_my).
  destruct (on_boundaryb (ring_edges ps) p) eqn:Hb; [reflexivity|]. cbn [orb].
  set (E := ring_edges ps) in *.
  destruct (low_y_spec ps p) as [Lp Lq]. set (G := (px p, low_y ps p)).
  assert (HG : on_boundaryb E G = false /\ parityb E G = false).
  { apply beyond_y_outside. left. intros q Hq. unfold G, py. cbn [snd]. apply Lq. exact Hq. }
  destruct HG as [BG PG].
  (* original plane: from G (below everything) up to p *)
  pose proof (crossing_parity ps G p) as C1. fold E in C1. rewrite PG, xorb_false_l in C1.
  rewrite C1 by (try assumption; unfold G, py; cbn [snd]; exact Lp).
  (* mirrored plane: from my p up to my G (above everything) *)
  assert (HG' : on_boundaryb (ring_edges (map my ps)) (my G) = false /\ parityb (ring_edges (map my ps)) (my G) = false).
  { apply beyond_y_outside. right. intros q Hq. apply in_map_iff in Hq. destruct Hq as (q0 & <- & Hq0).
    unfold my, G, py. cbn [snd]. pose proof (Lq q0 Hq0). unfold py in *. lia. }
  destruct HG' as [BG' PG'].
  pose proof (crossing_parity (map my ps) (my p) (my G)) as C2.
  rewrite PG', xorb_false_r in C2. rewrite (ring_edges_tau my pt_eqb_my) in C2. fold mys in C2. fold E in C2.
  rewrite C2.
  - rewrite xfold_map. apply xfold_ext. intros [a b] _. unfold Xc, mys, taus. cbn [fst snd].
    rewrite !cross_my, soppb_neg_swap, !(cross_swap p G). f_equal. f_equal; f_equal; lia.
  - unfold my, G, py. cbn [snd]. unfold py in Lp. lia.
  - rewrite (on_boundaryb_tau my on_segb_my). exact Hb.
  - rewrite (ring_edges_tau my pt_eqb_my) in BG'. exact BG'.
Qed.

Theorem strictly_in_ringb_my (ps : list pt) (p : pt) :
  strictly_in_ringb (ring_edges (map my ps)) (my p) = strictly_in_ringb (ring_edges ps) p.
Proof.
  pose proof (in_ringb_my ps p) as H. rewrite (ring_edges_tau my pt_eqb_my) in *. fold mys in *.
  unfold in_ringb, strictly_in_ringb in *. rewrite (on_boundaryb_tau my on_segb_my) in *.
  destruct (on_boundaryb (ring_edges ps) p); cbn [orb negb andb] in *; [reflexivity|exact H].
Qed.

(* ------------------------------------------------------------------ *)
(* x <-> y                                                              *)

Definition tr (p : pt) : pt := (py p, px p).
Definition trs := taus tr.

Lemma tr_tr p : tr (tr p) = p.
Proof. destruct p as [x y]. reflexivity. Qed.

Lemma cross_tr a b p : cross (tr a) (tr b) (tr p) = - cross a b p.
Proof. unfold cross, tr, px, py. cbn [fst snd]. ring. Qed.

Lemma pt_eqb_tr p q : pt_eqb (tr p) (tr q) = pt_eqb p q.
Proof. unfold pt_eqb, tr, px, py. cbn [fst snd]. apply andb_comm. Qed.

Lemma on_segb_tr s p : on_segb (trs s) (tr p) = on_segb s p.
Proof.
  destruct s as [a b]. unfold trs, taus, on_segb. cbn [fst snd]. rewrite cross_tr.
  unfold tr, px, py. cbn [fst snd]. apply bool_eq_iff. rewrite !andb_true_iff, !Z.eqb_eq, !Z.leb_le. lia.
Qed.

(* an edge whose ends are left of F, F level with p: F is strictly right of it where it spans *)
Lemma far_right_side (a b p : pt) (M : Z) : px a < M -> px b < M ->
  (py a <= py p < py b -> cross a b (M, py p) < 0) /\ (py b <= py p < py a -> 0 < cross a b (M, py p)).
Proof.
  destruct a as [ax ay], b as [bx by_], p as [x y]. unfold cross, px, py. cbn [fst snd]. intros Ha Hb. split; intros Hs.
  - assert (0 <= (M - bx) * (y - ay)) by nia. assert (0 < (M - ax) * (by_ - y)) by nia. nia.
  - assert (0 <= (M - ax) * (y - by_)) by nia. assert (0 < (M - bx) * (ay - y)) by nia. nia.
Qed.

Theorem in_ringb_tr (ps : list pt) (p : pt) :
  in_ringb (ring_edges (map tr ps)) (tr p) = in_ringb (ring_edges ps) p.
Proof.
  rewrite (ring_edges_tau tr pt_eqb_tr). fold trs. unfold in_ringb.
  rewrite (on_boundaryb_tau tr on_segb_tr).
  destruct (on_boundaryb (ring_edges ps) p) eqn:Hb; [reflexivity|]. cbn [orb].
  set (E := ring_edges ps) in *.
  destruct (high_x_spec ps p) as [Mp Mq]. set (M := high_x ps p) in *. set (F := (M, py p)).
  (* transposed plane: from tr p up to tr F (above everything) *)
  assert (HF' : on_boundaryb (ring_edges (map tr ps)) (tr F) = false /\ parityb (ring_edges (map tr ps)) (tr F) = false).
  { apply beyond_y_outside. right. intros q Hq. apply in_map_iff in Hq. destruct Hq as (q0 & <- & Hq0).
    unfold tr, F, py, px. cbn [fst snd]. apply (Mq q0 Hq0). }
  destruct HF' as [BF' PF'].
  pose proof (crossing_parity (map tr ps) (tr p) (tr F)) as C2.
  rewrite PF', xorb_false_r in C2. rewrite (ring_edges_tau tr pt_eqb_tr) in C2. fold trs in C2. fold E in C2.
  rewrite C2.
  - rewrite xfold_map, parityb_xfold. apply xfold_ext. intros [a b] Hin. unfold Xc, trs, taus. cbn [fst snd].
    rewrite !cross_tr, soppb_neg_swap.
    destruct (ring_edges_endpoints ps a b Hin) as [Ha Hb'].
    pose proof (far_right_side a b p M (Mq a Ha) (Mq b Hb')) as [Up Down]. fold F in Up, Down.
    assert (Ca : cross p F a = (M - px p) * (py a - py p)) by (unfold cross, F, px, py; cbn [fst snd]; ring).
    assert (Cb : cross p F b = (M - px p) * (py b - py p)) by (unfold cross, F, px, py; cbn [fst snd]; ring).
    rewrite Ca, Cb. unfold crossesb, soppb.
    assert (Hpos : 0 < M - px p) by lia.
    destruct (Z.leb_spec (py a) (py p)), (Z.ltb_spec (py p) (py b)), (Z.leb_spec (py b) (py p)), (Z.ltb_spec (py p) (py a));
      try lia; cbn [andb orb].
    all: repeat match goal with
         | |- context [?x <? ?y] => destruct (Z.ltb_spec x y)
         end; cbn [andb orb xorb negb]; try reflexivity; try (exfalso; nia).
  - unfold tr, F, px, py. cbn [fst snd]. exact Mp.
  - rewrite (on_boundaryb_tau tr on_segb_tr). exact Hb.
  - rewrite (ring_edges_tau tr pt_eqb_tr) in BF'. exact BF'.
Qed.

Theorem strictly_in_ringb_tr (ps : list pt) (p : pt) :
  strictly_in_ringb (ring_edges (map tr ps)) (tr p) = strictly_in_ringb (ring_edges ps) p.
Proof.
  pose proof (in_ringb_tr ps p) as H. rewrite (ring_edges_tau tr pt_eqb_tr) in *. fold trs in *.
  unfold in_ringb, strictly_in_ringb in *. rewrite (on_boundaryb_tau tr on_segb_tr) in *.
  destruct (on_boundaryb (ring_edges ps) p); cbn [orb negb andb] in *; [reflexivity|exact H].
Qed.

Print Assumptions in_ringb_my.
Print Assumptions in_ringb_tr.
