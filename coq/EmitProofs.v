(* EmitProofs.v — property C17, the main claim: the bytes written by the
   AppendJSON writers (Json.emit, byte level: literal prefixes, the member
   splice, position index threading) are exactly the minified text of a JSON
   tree [emit_jv o] — an object whose first member is "type" with the kind's
   GeoJSON name — for every well-formed object and every number formatter. *)
From Coq Require Import Lia.
From GJ Require Import Base JsonConst Json.
Open Scope Z_scope.

(* ------------------------------------------------------------------ *)
(* join_comma                                                           *)

Lemma join_cons2 (a b : list Z) (l : list (list Z)) : join_comma (a :: b :: l) = a ++ 44 :: join_comma (b :: l).
Proof. reflexivity. Qed.

Lemma join_flat (a : list Z) (l : list (list Z)) : join_comma (a :: l) = a ++ flat_map (fun x => 44 :: x) l.
Proof.
  revert a. induction l as [|b l IH]; intros a; [cbn; rewrite app_nil_r; reflexivity|].
  rewrite join_cons2, IH. cbn [flat_map]. rewrite <- app_comm_cons. reflexivity.
Qed.

Lemma join_app (l1 l2 : list (list Z)) : l1 <> [] ->
  join_comma (l1 ++ l2) = join_comma l1 ++ match l2 with [] => [] | _ => 44 :: join_comma l2 end.
Proof.
  intros H. destruct l1 as [|a l1]; [congruence|]. clear H.
  revert a. induction l1 as [|b l1 IH]; intros a.
  - cbn [app]. destruct l2 as [|c l2]; [cbn; rewrite app_nil_r; reflexivity|reflexivity].
  - change ((a :: b :: l1) ++ l2) with (a :: (b :: l1) ++ l2).
    change ((b :: l1) ++ l2) with (b :: l1 ++ l2). rewrite join_cons2.
    change (b :: l1 ++ l2) with ((b :: l1) ++ l2). rewrite IH, join_cons2.
    rewrite <- app_assoc. reflexivity.
Qed.

Ltac norm_app := repeat (rewrite <- app_assoc || rewrite <- app_comm_cons); cbn [app].

Section Emit.
Variable fmt : Z -> list Z.

(* ------------------------------------------------------------------ *)
(* the tree                                                             *)

Definition num_jv (f : fnum) : jv :=
  match f with FV k => JNum (fmt k) (FV k) | FNull => JNull | FBad => JNum bad_token FBad end.

Definition key (s : list Z) : jkey := (s, s).
Definition str_jv (s : list Z) : jv := JStr s s.

Definition point_jv (p : fpt) (ex : option extra) (idx : nat) : jv :=
  let d := ex_dims ex in
  JArr (num_jv (fst p) :: num_jv (snd p) :: map (fun i => num_jv (ex_value ex (idx * d + i))) (seq 0 d)).

Definition series_jv (ps : list fpt) (ex : option extra) (pidx : nat) : jv :=
  JArr (map (fun pi => point_jv (fst pi) ex (snd pi)) (combine ps (seq pidx (length ps)))).

Fixpoint rings_jv (rings : list (list fpt)) (ex : option extra) (pidx : nat) : list jv :=
  match rings with
  | [] => []
  | r :: rest => series_jv r ex pidx :: rings_jv rest ex (pidx + length r)
  end.

Definition props_member : jkey * jv := (key s_properties, JObj []).

Definition extra_members (ex : option extra) (props_required : bool) : list (jkey * jv) :=
  let dflt := if props_required then [props_member] else [] in
  match ex with
  | Some e =>
      match members e with
      | Some ms => ms ++ (if props_required then match first_member s_properties ms with Some _ => [] | None => [props_member] end else [])
      | None => dflt
      end
  | None => dflt
  end.

Definition coords_jv (c : gobj) : jv :=
  match c with
  | JPoint p ex => point_jv p ex 0
  | JSimple p => point_jv p None 0
  | JLine ps ex => series_jv ps ex 0
  | JPoly rings ex => JArr (if rings_empty rings then [] else rings_jv rings ex 0)
  | JRect mn mx => JArr [series_jv (fpt_rect_points mn mx) None 0]
  | _ => JNull
  end.

Definition coll_type (k : Z) : list Z :=
  if k =? 0 then s_MultiPoint else if k =? 1 then s_MultiLineString else if k =? 2 then s_MultiPolygon
  else if k =? 3 then s_GeometryCollection else s_FeatureCollection.
Definition coll_key (k : Z) : list Z :=
  if k <? 3 then s_coordinates else if k =? 3 then s_geometries else s_features.

Fixpoint emit_jv (o : gobj) : jv :=
  match o with
  | JPoint p ex => JObj ((key s_type, str_jv s_Point) :: (key s_coordinates, point_jv p ex 0) :: extra_members ex false)
  | JSimple p => JObj [(key s_type, str_jv s_Point); (key s_coordinates, point_jv p None 0)]
  | JRect mn mx => JObj [(key s_type, str_jv s_Polygon); (key s_coordinates, JArr [series_jv (fpt_rect_points mn mx) None 0])]
  | JLine ps ex => JObj ((key s_type, str_jv s_LineString) :: (key s_coordinates, series_jv ps ex 0) :: extra_members ex false)
  | JPoly rings ex =>
      JObj ((key s_type, str_jv s_Polygon)
            :: (key s_coordinates, JArr (if rings_empty rings then [] else rings_jv rings ex 0)) :: extra_members ex false)
  | JFeature b ex => JObj ((key s_type, str_jv s_Feature) :: (key s_geometry, emit_jv b) :: extra_members ex true)
  | JColl k cs ex =>
      JObj ((key s_type, str_jv (coll_type k))
            :: (key (coll_key k), JArr (map (fun c => if k <? 3 then coords_jv c else emit_jv c) cs)) :: extra_members ex false)
  | JCircle c m =>
      JObj [(key s_type, str_jv s_Feature);
            (key s_geometry, JObj [(key s_type, str_jv s_Point); (key s_coordinates, JArr [num_jv (fst c); num_jv (snd c)])]);
            (key s_properties, JObj [(key s_type, str_jv s_Circle); (key s_radius, num_jv m); (key s_radius_units, str_jv s_m)])]
  end.

(* ------------------------------------------------------------------ *)
(* well-formed objects: a stored members text is an object with at least one
   member (what Parse and, after the repair of F9, NewFeature guarantee), and the
   children of a Multi* collection are geometries of the matching kind          *)

Definition ex_ok (ex : option extra) : Prop :=
  match ex with Some e => match members e with Some ms => ms <> [] | None => True end | None => True end.

Definition multi_child_ok (c : gobj) : Prop :=
  match c with
  | JPoint _ ex | JLine _ ex | JPoly _ ex => ex_ok ex
  | JSimple _ | JRect _ _ => True
  | _ => False
  end.

Fixpoint wf_o (o : gobj) : Prop :=
  match o with
  | JPoint _ ex | JLine _ ex | JPoly _ ex => ex_ok ex
  | JSimple _ | JRect _ _ | JCircle _ _ => True
  | JFeature b ex => ex_ok ex /\ wf_o b
  | JColl k cs ex =>
      0 <= k <= 4 /\ ex_ok ex /\
      (fix all (l : list gobj) : Prop :=
         match l with [] => True | c :: r => (if k <? 3 then multi_child_ok c else wf_o c) /\ all r end) cs
  end.

(* ------------------------------------------------------------------ *)
(* pieces                                                               *)

Lemma print_num (f : fnum) : print_min (num_jv f) = emit_float fmt f.
Proof. destruct f; reflexivity. Qed.

Lemma flat_map_map {A B C} (f : B -> list C) (g : A -> B) (l : list A) :
  flat_map f (map g l) = flat_map (fun x => f (g x)) l.
Proof. induction l as [|x l IH]; [reflexivity|]. cbn [map flat_map]. rewrite IH. reflexivity. Qed.

Lemma flat_map_ext' {A B} (f g : A -> list B) (l : list A) : (forall x, f x = g x) -> flat_map f l = flat_map g l.
Proof. intros H. induction l as [|x l IH]; [reflexivity|]. cbn [flat_map]. rewrite H, IH. reflexivity. Qed.

Lemma print_point (p : fpt) (ex : option extra) (idx : nat) :
  print_min (point_jv p ex idx) = emit_point fmt p ex idx.
Proof.
  unfold point_jv, emit_point. cbv zeta. cbn [print_min map].
  rewrite join_cons2, join_flat, !print_num, !map_map, flat_map_map.
  rewrite (flat_map_ext' _ (fun i => 44 :: emit_float fmt (ex_value ex (idx * ex_dims ex + i))))
    by (intros i; rewrite print_num; reflexivity).
  norm_app. reflexivity.
Qed.

Lemma print_series (ps : list fpt) (ex : option extra) (pidx : nat) :
  print_min (series_jv ps ex pidx) = fst (emit_series fmt ps ex pidx).
Proof.
  unfold series_jv, emit_series. cbn [print_min fst]. rewrite map_map.
  f_equal. f_equal. f_equal. apply map_ext. intros pi. apply print_point.
Qed.

Lemma print_rings (rings : list (list fpt)) (ex : option extra) : forall pidx,
  map print_min (rings_jv rings ex pidx) = emit_rings fmt rings ex pidx.
Proof.
  induction rings as [|r rest IH]; intros pidx; [reflexivity|].
  cbn [rings_jv map emit_rings]. rewrite print_series, IH.
  unfold emit_series. cbn [fst]. reflexivity.
Qed.

Definition splice (l : list (jkey * jv)) : list Z :=
  match l with [] => [] | _ => 44 :: join_comma (map member_text l) end.

Lemma props_default_eq : props_default = 44 :: member_text props_member.
Proof. reflexivity. Qed.

(* the member splice: a leading comma and the members' texts, nothing when there is nothing to add *)
Lemma print_extra (ex : option extra) (props : bool) : ex_ok ex ->
  emit_extra ex props = splice (extra_members ex props).
Proof.
  intros Hok. unfold emit_extra, extra_members, splice.
  destruct ex as [e|]; [|destruct props; reflexivity].
  destruct (members e) as [ms|] eqn:E; [|destruct props; reflexivity].
  cbn [ex_ok] in Hok. rewrite E in Hok.
  destruct ms as [|m ms]; [congruence|].
  destruct props.
  - destruct (first_member s_properties (m :: ms)).
    + rewrite !app_nil_r. reflexivity.
    + cbn [app]. change (m :: ms ++ [props_member]) with ((m :: ms) ++ [props_member]).
      rewrite map_app, join_app by discriminate. cbn [map join_comma]. rewrite props_default_eq. reflexivity.
  - rewrite !app_nil_r. reflexivity.
Qed.

(* an object text: '{' two fixed members, the spliced ones, '}' *)
Lemma print_obj2 (m1 m2 : jkey * jv) (rest : list (jkey * jv)) :
  print_min (JObj (m1 :: m2 :: rest)) =
  123 :: member_text m1 ++ 44 :: member_text m2 ++ splice rest ++ [125].
Proof.
  cbn [print_min]. change (fun kv : jkey * jv => 34 :: fst (fst kv) ++ 34 :: 58 :: print_min (snd kv)) with member_text.
  change (m1 :: m2 :: rest) with ([m1; m2] ++ rest). rewrite map_app, join_app by discriminate.
  unfold splice, member_text. cbn [map join_comma]. destruct rest; cbn [map]; norm_app; reflexivity.
Qed.

Lemma member_text_eq (k : list Z) (v : jv) : member_text (key k, v) = 34 :: k ++ 34 :: 58 :: print_min v.
Proof. reflexivity. Qed.

Lemma print_coords (c : gobj) : multi_child_ok c -> print_min (coords_jv c) = child_coords fmt c.
Proof.
  destruct c as [p ex|p|mn mx|ps ex|rings ex|b ex|k cs ex|c m]; cbn [multi_child_ok coords_jv child_coords]; intros H;
    try contradiction.
  - apply print_point.
  - apply print_point.
  - cbn [print_min map join_comma]. rewrite print_series. reflexivity.
  - apply print_series.
  - cbn [print_min]. destruct (rings_empty rings); [reflexivity|]. rewrite print_rings. reflexivity.
Qed.

(* the literal prefixes are the texts of the first members *)
Lemma pre_Point_eq X : pre_Point ++ X = 123 :: member_text (key s_type, str_jv s_Point) ++ 44 :: 34 :: s_coordinates ++ 34 :: 58 :: X.
Proof. reflexivity. Qed.
Lemma pre_LineString_eq X : pre_LineString ++ X = 123 :: member_text (key s_type, str_jv s_LineString) ++ 44 :: 34 :: s_coordinates ++ 34 :: 58 :: X.
Proof. reflexivity. Qed.
Lemma pre_Polygon_eq X : pre_Polygon ++ X = 123 :: member_text (key s_type, str_jv s_Polygon) ++ 44 :: 34 :: s_coordinates ++ 34 :: 58 :: 91 :: X.
Proof. reflexivity. Qed.
Lemma pre_Feature_eq X : pre_Feature ++ X = 123 :: member_text (key s_type, str_jv s_Feature) ++ 44 :: 34 :: s_geometry ++ 34 :: 58 :: X.
Proof. reflexivity. Qed.

(* ------------------------------------------------------------------ *)
(* MAIN                                                                 *)

Section Ind.
Variable P : gobj -> Prop.
Hypothesis H1 : forall p ex, P (JPoint p ex).
Hypothesis H2 : forall p, P (JSimple p).
Hypothesis H3 : forall a b, P (JRect a b).
Hypothesis H4 : forall ps ex, P (JLine ps ex).
Hypothesis H5 : forall rs ex, P (JPoly rs ex).
Hypothesis H6 : forall b ex, P b -> P (JFeature b ex).
Hypothesis H7 : forall k cs ex, Forall P cs -> P (JColl k cs ex).
Hypothesis H8 : forall c m, P (JCircle c m).
Fixpoint gobj_ind' (o : gobj) : P o :=
  match o with
  | JPoint p ex => H1 p ex
  | JSimple p => H2 p
  | JRect a b => H3 a b
  | JLine ps ex => H4 ps ex
  | JPoly rs ex => H5 rs ex
  | JFeature b ex => H6 b ex (gobj_ind' b)
  | JColl k cs ex => H7 k cs ex ((fix go (l : list gobj) : Forall P l :=
                                   match l with [] => Forall_nil P | c :: r => Forall_cons c (gobj_ind' c) (go r) end) cs)
  | JCircle c m => H8 c m
  end.
End Ind.

Lemma wf_coll_children (k : Z) (cs : list gobj) (ex : option extra) :
  wf_o (JColl k cs ex) -> 0 <= k <= 4 /\ ex_ok ex /\ Forall (fun c => if k <? 3 then multi_child_ok c else wf_o c) cs.
Proof.
  cbn [wf_o]. intros [Hk [He H]]. split; [exact Hk|]. split; [exact He|].
  induction cs as [|c cs IH]; [constructor|]. destruct H as [Hc Hr]. constructor; [exact Hc|apply IH; exact Hr].
Qed.

Theorem emit_is_print (o : gobj) : wf_o o -> emit fmt o = print_min (emit_jv o).
Proof.
  induction o as [p ex|p|mn mx|ps ex|rings ex|b ex IH|k cs ex IH|c m] using gobj_ind'; intros Hw.
  - cbn [wf_o] in Hw. cbn [emit emit_jv]. rewrite print_obj2, (print_extra ex false Hw), pre_Point_eq, !member_text_eq, print_point.
    norm_app. reflexivity.
  - cbn [emit emit_jv]. rewrite print_obj2, pre_Point_eq, !member_text_eq, print_point. unfold splice. norm_app. reflexivity.
  - cbn [emit emit_jv]. rewrite print_obj2, pre_Polygon_eq, !member_text_eq. cbn [print_min map join_comma]. rewrite print_series.
    unfold splice. norm_app. reflexivity.
  - cbn [wf_o] in Hw. cbn [emit emit_jv]. rewrite print_obj2, pre_LineString_eq, !member_text_eq, print_series.
    destruct ex as [e|]; [rewrite (print_extra (Some e) false Hw)|unfold extra_members, splice]; norm_app; reflexivity.
  - cbn [wf_o] in Hw. cbn [emit emit_jv]. rewrite print_obj2, pre_Polygon_eq, !member_text_eq. cbn [print_min].
    assert (E : (if rings_empty rings then [] else join_comma (emit_rings fmt rings ex 0))
                = join_comma (map print_min (if rings_empty rings then [] else rings_jv rings ex 0))).
    { destruct (rings_empty rings); [reflexivity|]. rewrite print_rings. reflexivity. }
    rewrite E. destruct ex as [e|]; [rewrite (print_extra (Some e) false Hw)|unfold extra_members, splice]; norm_app; reflexivity.
  - cbn [wf_o] in Hw. destruct Hw as [He Hb]. cbn [emit emit_jv].
    rewrite print_obj2, (print_extra ex true He), pre_Feature_eq, !member_text_eq, (IH Hb). norm_app. reflexivity.
  - destruct (wf_coll_children k cs ex Hw) as [Hk [He Hc]]. cbn [emit emit_jv].
    rewrite print_obj2, !member_text_eq. cbn [print_min]. rewrite map_map.
    assert (E : map (fun c => if k <? 3 then child_coords fmt c else emit fmt c) cs
                = map (fun c => print_min (if k <? 3 then coords_jv c else emit_jv c)) cs).
    { clear Hw. induction cs as [|c cs IHc]; [reflexivity|]. inversion IH; inversion Hc; subst. cbn [map].
      f_equal; [|apply IHc; assumption].
      destruct (k <? 3); [symmetry; apply print_coords; assumption|auto]. }
    rewrite E.
    assert (Pre : (if k =? 0 then pre_MultiPoint else if k =? 1 then pre_MultiLineString else if k =? 2 then pre_MultiPolygon
                   else if k =? 3 then pre_GeometryCollection else pre_FeatureCollection)
                  = 123 :: (34 :: s_type ++ 34 :: 58 :: print_min (str_jv (coll_type k))) ++ 44 :: 34 :: coll_key k ++ [34; 58; 91]).
    { assert (K : k = 0 \/ k = 1 \/ k = 2 \/ k = 3 \/ k = 4) by lia.
      destruct K as [->|[->|[->|[->| ->]]]]; reflexivity. }
    rewrite Pre. destruct ex as [e|]; [rewrite (print_extra (Some e) false He)|unfold extra_members, splice]; norm_app; reflexivity.
  - destruct c as [[kx| |] [ky| |]], m as [km| |]; cbn [emit emit_jv print_min map join_comma num_jv emit_float fst snd]; norm_app; reflexivity.
Qed.

(* the tree is an object whose first member is "type" with the kind's GeoJSON name *)
Definition type_name (o : gobj) : list Z :=
  match o with
  | JPoint _ _ | JSimple _ => s_Point
  | JRect _ _ | JPoly _ _ => s_Polygon
  | JLine _ _ => s_LineString
  | JFeature _ _ | JCircle _ _ => s_Feature
  | JColl k _ _ => coll_type k
  end.

Theorem emit_jv_type (o : gobj) : exists rest, emit_jv o = JObj ((key s_type, str_jv (type_name o)) :: rest).
Proof. destruct o; cbn [emit_jv type_name]; eexists; reflexivity. Qed.

End Emit.

Print Assumptions emit_is_print.
Print Assumptions emit_jv_type.
