(* Symmetry.v — property C12: the Intersects answers of ring x segment, ring x line string and
   ring x ring (polygons without holes), and point membership in polygons with holes, are
   invariant under y -> -y and x <-> y (Mirror.v does x -> -x): the eight symmetries of the
   square.  Everything goes through the point-set theorems: a map that commutes with scaling,
   preserves "on the segment" and preserves membership in closed rings preserves "the two closed
   sets share a rational point". *)
From Coq Require Import ZArith Bool List Lia.
From GJ Require Import Base Kernel KernelSpec Series SeriesSpec Ring RingSpec
  RaycastProofs KernelProofs IntersectsProofs SeriesProofs PipProofs PairProofs Invariance
  Jordan JordanQ JordanRing Crossing MirrorY.
Import ListNotations.
Open Scope Z_scope.

Section Transfer.
Variable tau : pt -> pt.
Hypothesis tau_tau : forall p, tau (tau p) = p.
Hypothesis tau_eqb : forall p q, pt_eqb (tau p) (tau q) = pt_eqb p q.
Hypothesis tau_sc : forall k p, sc k (tau p) = tau (sc k p).
Hypothesis tau_on : forall s p, on_segb (taus tau s) (tau p) = on_segb s p.
Hypothesis tau_in : forall ps p, in_ringb (ring_edges (map tau ps)) (tau p) = in_ringb (ring_edges ps) p.

Lemma map_sc_tau k ps : map (sc k) (map tau ps) = map tau (map (sc k) ps).
Proof. rewrite !map_map. apply map_ext. intros p. apply tau_sc. Qed.

Lemma map_tau_tau ps : map tau (map tau ps) = ps.
Proof. rewrite map_map. rewrite <- (map_id ps) at 2. apply map_ext. intros p. apply tau_tau. Qed.

Lemma on_seg_tau a b p : on_seg (tau a, tau b) (tau p) <-> on_seg (a, b) p.
Proof. rewrite <- !on_segb_iff. change (tau a, tau b) with (taus tau (a, b)). rewrite tau_on. tauto. Qed.

Lemma shares_point_tau_1 ps A B : shares_point ps A B -> shares_point (map tau ps) (tau A) (tau B).
Proof.
  intros (k & P & Hk & Hon & Hin). exists k, (tau P). split; [exact Hk|]. split.
  - rewrite !tau_sc. apply on_seg_tau. exact Hon.
  - rewrite map_sc_tau, tau_in. exact Hin.
Qed.

Lemma shares_point_tau ps A B : shares_point (map tau ps) (tau A) (tau B) <-> shares_point ps A B.
Proof.
  split; [|apply shares_point_tau_1]. intros H. apply shares_point_tau_1 in H.
  rewrite map_tau_tau, !tau_tau in H. exact H.
Qed.

Theorem ring_intersects_segment_tau (ps : list pt) (A B : pt) :
  ring_intersects_segment (RS {| closed := true; pts := map tau ps |}) (tau A, tau B) true =
  ring_intersects_segment (RS {| closed := true; pts := ps |}) (A, B) true.
Proof. apply bool_eq_iff. rewrite !ring_intersects_segment_pointset. apply shares_point_tau. Qed.

Theorem ring_intersects_line_tau (ps qs : list pt) :
  ring_intersects_line (RS {| closed := true; pts := map tau ps |}) (RS {| closed := false; pts := map tau qs |}) true =
  ring_intersects_line (RS {| closed := true; pts := ps |}) (RS {| closed := false; pts := qs |}) true.
Proof.
  apply bool_eq_iff. rewrite !ring_intersects_line_pointset, !map_length, (path_segs_tau tau). split.
  - intros (H1 & H2 & sg & Hin & Hs). split; [exact H1|]. split; [exact H2|].
    apply in_map_iff in Hin. destruct Hin as ([a b] & <- & Hin). exists (a, b). split; [exact Hin|].
    cbn [taus fst snd] in Hs. apply (proj1 (shares_point_tau ps a b)) in Hs. exact Hs.
  - intros (H1 & H2 & [a b] & Hin & Hs). split; [exact H1|]. split; [exact H2|].
    exists (taus tau (a, b)). split; [apply in_map; exact Hin|]. cbn [taus fst snd]. apply (proj2 (shares_point_tau ps a b)). exact Hs.
Qed.

Lemma rings_share_point_tau_1 ps qs : rings_share_point ps qs -> rings_share_point (map tau ps) (map tau qs).
Proof.
  intros (k & P & Hk & H1 & H2). exists k, (tau P). split; [exact Hk|]. unfold edges_at in *.
  rewrite !map_sc_tau, !tau_in. split; assumption.
Qed.

Lemma rings_share_point_tau ps qs : rings_share_point (map tau ps) (map tau qs) <-> rings_share_point ps qs.
Proof.
  split; [|apply rings_share_point_tau_1]. intros H. apply rings_share_point_tau_1 in H.
  rewrite !map_tau_tau in H. exact H.
Qed.

Theorem ring_intersects_ring_tau (ps qs : list pt) :
  ring_intersects_ring (RS {| closed := true; pts := map tau ps |}) (RS {| closed := true; pts := map tau qs |}) true =
  ring_intersects_ring (RS {| closed := true; pts := ps |}) (RS {| closed := true; pts := qs |}) true.
Proof.
  apply bool_eq_iff. rewrite !ring_intersects_ring_pointset, !map_length, rings_share_point_tau. tauto.
Qed.

Theorem poly_intersects_poly_noholes_tau (e1 e2 : list pt) :
  poly_intersects_poly (Pg (map tau e1) []) (Pg (map tau e2) []) = poly_intersects_poly (Pg e1 []) (Pg e2 []).
Proof.
  apply bool_eq_iff. rewrite !poly_intersects_poly_noholes, !map_length, rings_share_point_tau. tauto.
Qed.

(* point membership in a polygon with holes *)
Lemma strictly_in_tau ps p :
  strictly_in_ringb (ring_edges (map tau ps)) (tau p) = strictly_in_ringb (ring_edges ps) p.
Proof.
  pose proof (tau_in ps p) as H. rewrite (ring_edges_tau tau tau_eqb) in *.
  unfold in_ringb, strictly_in_ringb in *. rewrite (on_boundaryb_tau tau tau_on) in *.
  destruct (on_boundaryb (ring_edges ps) p); cbn [orb negb andb] in *; [reflexivity|exact H].
Qed.

Theorem poly_contains_point_tau (e : list pt) (hs : list (list pt)) (p : pt) :
  poly_contains_point (Pg (map tau e) (map (map tau) hs)) (tau p) = poly_contains_point (Pg e hs) p.
Proof.
  rewrite !poly_intersects_point_spec. unfold in_polyb. rewrite tau_in. f_equal.
  rewrite map_map. induction hs as [|h hs IH]; [reflexivity|]. cbn [map forallb]. rewrite strictly_in_tau, IH. reflexivity.
Qed.
End Transfer.

(* the instances *)
Lemma sc_my k p : sc k (my p) = my (sc k p).
Proof. destruct p as [x y]. unfold sc, aff, my, px, py. cbn [fst snd]. f_equal; ring. Qed.
Lemma sc_tr k p : sc k (tr p) = tr (sc k p).
Proof. destruct p as [x y]. reflexivity. Qed.

Definition ring_intersects_segment_my := ring_intersects_segment_tau my my_my sc_my on_segb_my in_ringb_my.
Definition ring_intersects_line_my := ring_intersects_line_tau my my_my sc_my on_segb_my in_ringb_my.
Definition ring_intersects_ring_my := ring_intersects_ring_tau my my_my sc_my in_ringb_my.
Definition poly_intersects_poly_noholes_my := poly_intersects_poly_noholes_tau my my_my sc_my in_ringb_my.
Definition poly_contains_point_my := poly_contains_point_tau my pt_eqb_my on_segb_my in_ringb_my.

Definition ring_intersects_segment_tr := ring_intersects_segment_tau tr tr_tr sc_tr on_segb_tr in_ringb_tr.
Definition ring_intersects_line_tr := ring_intersects_line_tau tr tr_tr sc_tr on_segb_tr in_ringb_tr.
Definition ring_intersects_ring_tr := ring_intersects_ring_tau tr tr_tr sc_tr in_ringb_tr.
Definition poly_intersects_poly_noholes_tr := poly_intersects_poly_noholes_tau tr tr_tr sc_tr in_ringb_tr.
Definition poly_contains_point_tr := poly_contains_point_tau tr pt_eqb_tr on_segb_tr in_ringb_tr.

Print Assumptions ring_intersects_ring_my.
Print Assumptions ring_intersects_ring_tr.
Print Assumptions poly_contains_point_tr.
