(* Interleave.v — property C16, the logic part: threads that never write shared
   memory cannot race and cannot influence each other, whatever the schedule.
   A small machine: one shared heap, one private heap per thread; an instruction
   copies a cell; its source is shared or private, its destination is shared or
   private.  The effect table generated from the Go SSA (tools/effects) says for
   every store-like instruction of the query / serialisation code which of the
   two its destination is; [table_ok] = none is shared. *)
From Coq Require Import List Arith ZArith Lia Bool.
Import ListNotations.

Definition heap := nat -> Z.
Definition upd (h : heap) (a : nat) (v : Z) : heap := fun x => if Nat.eqb x a then v else h x.

Record instr := { src_shared : bool; src : nat; dst_shared : bool; dst : nat }.

Definition prog_ok (p : list instr) : bool := forallb (fun i => negb (dst_shared i)) p.

(* thread state: private heap and the rest of its program *)
Record thread := { priv : heap; code : list instr }.

Definition conf := (heap * list thread)%type.

Definition exec (sh : heap) (t : thread) : heap * thread :=
  match code t with
  | [] => (sh, t)
  | i :: rest =>
      let v := if src_shared i then sh (src i) else priv t (src i) in
      if dst_shared i then (upd sh (dst i) v, {| priv := priv t; code := rest |})
      else (sh, {| priv := upd (priv t) (dst i) v; code := rest |})
  end.

Fixpoint set_nth {A} (l : list A) (n : nat) (x : A) : list A :=
  match l, n with
  | [], _ => []
  | _ :: r, O => x :: r
  | y :: r, S k => y :: set_nth r k x
  end.

Definition idle : thread := {| priv := fun _ => 0%Z; code := [] |}.

(* one scheduling decision: thread number k takes a step *)
Definition step (c : conf) (k : nat) : conf :=
  let '(sh, ts) := c in
  match nth_error ts k with
  | None => c
  | Some t => let '(sh', t') := exec sh t in (sh', set_nth ts k t')
  end.

Definition run (c : conf) (sched : list nat) : conf := fold_left step sched c.

Definition all_ok (ts : list thread) : Prop := forall t, In t ts -> prog_ok (code t) = true.

(* a thread run alone for n steps against a fixed shared heap *)
Fixpoint solo (sh : heap) (t : thread) (n : nat) : thread :=
  match n with O => t | S k => solo sh (snd (exec sh t)) k end.

Lemma exec_ok_shared sh t : prog_ok (code t) = true ->
  fst (exec sh t) = sh /\ prog_ok (code (snd (exec sh t))) = true.
Proof.
  unfold exec. destruct (code t) as [|i rest] eqn:E; intros H.
  - cbn. rewrite E. auto.
  - cbn [prog_ok forallb] in H. apply andb_true_iff in H. destruct H as [Hi Hr].
    apply negb_true_iff in Hi. rewrite Hi. cbn. auto.
Qed.

Lemma nth_error_set_nth_eq {A} (l : list A) k x : k < length l -> nth_error (set_nth l k x) k = Some x.
Proof. revert k. induction l as [|y l IH]; intros [|k] H; cbn in *; try lia; [reflexivity|apply IH; lia]. Qed.

Lemma nth_error_set_nth_neq {A} (l : list A) k j x : k <> j -> nth_error (set_nth l k x) j = nth_error l j.
Proof.
  revert k j. induction l as [|y l IH]; intros [|k] [|j] H; cbn; try reflexivity; try congruence.
  apply IH. congruence.
Qed.

Lemma set_nth_length {A} (l : list A) k x : length (set_nth l k x) = length l.
Proof. revert k. induction l as [|y l IH]; intros [|k]; cbn; auto. Qed.

Lemma in_set_nth {A} (l : list A) k x y : In y (set_nth l k x) -> y = x \/ In y l.
Proof.
  revert k. induction l as [|z l IH]; intros [|k] H; cbn in *; try tauto.
  - destruct H; auto.
  - destruct H as [H|H]; [auto|]. destruct (IH k H); auto.
Qed.

Definition count (k : nat) (sched : list nat) : nat := length (filter (Nat.eqb k) sched).

Lemma count_cons_eq k s : count k (k :: s) = S (count k s).
Proof. unfold count. cbn [filter]. rewrite Nat.eqb_refl. reflexivity. Qed.
Lemma count_cons_neq k j s : k <> j -> count k (j :: s) = count k s.
Proof. intros H. unfold count. cbn [filter]. destruct (Nat.eqb_spec k j); [congruence|reflexivity]. Qed.

(* MAIN: with no shared destination anywhere, after ANY schedule
   (1) the shared heap is what it was, and
   (2) every thread is exactly where it would be had it run alone for as many steps as it was scheduled. *)
Theorem readonly_interleaving (sched : list nat) : forall (sh : heap) (ts : list thread),
  all_ok ts ->
  fst (run (sh, ts) sched) = sh /\
  forall k t, nth_error ts k = Some t ->
    nth_error (snd (run (sh, ts) sched)) k = Some (solo sh t (count k sched)).
Proof.
  induction sched as [|j sched IH]; intros sh ts Hok.
  - cbn. split; [reflexivity|]. intros k t H. exact H.
  - cbn [run fold_left]. change (fold_left step sched (step (sh, ts) j)) with (run (step (sh, ts) j) sched).
    unfold step. destruct (nth_error ts j) as [tj|] eqn:Ej.
    + destruct (exec sh tj) as [sh' tj'] eqn:Ex.
      assert (Hin : In tj ts) by (eapply nth_error_In; eassumption).
      destruct (exec_ok_shared sh tj (Hok tj Hin)) as [Hs Hc]. rewrite Ex in Hs, Hc. cbn [fst snd] in Hs, Hc. subst sh'.
      assert (Hok' : all_ok (set_nth ts j tj')).
      { intros t Ht. destruct (in_set_nth _ _ _ _ Ht) as [->|Ht']; [exact Hc|apply Hok; exact Ht']. }
      destruct (IH sh (set_nth ts j tj') Hok') as [H1 H2]. split; [exact H1|].
      intros k t Hk. destruct (Nat.eq_dec k j) as [->|Hne].
      * rewrite count_cons_eq. cbn [solo]. rewrite Hk in Ej. inversion Ej; subst tj. rewrite Ex. cbn [snd].
        apply H2. apply nth_error_set_nth_eq. apply nth_error_Some. congruence.
      * rewrite count_cons_neq by exact Hne. apply H2. rewrite nth_error_set_nth_neq by congruence. exact Hk.
    + destruct (IH sh ts Hok) as [H1 H2]. split; [exact H1|].
      intros k t Hk. destruct (Nat.eq_dec k j) as [->|Hne]; [congruence|].
      rewrite count_cons_neq by exact Hne. apply H2. exact Hk.
Qed.

(* (3) race freedom: two steps of different threads conflict when they touch the same shared
   cell and one of them writes it; with no shared destination there is no such pair *)
Definition writes_shared_cell (i : instr) (a : nat) : bool := dst_shared i && Nat.eqb (dst i) a.
Definition reads_shared_cell (i : instr) (a : nat) : bool := src_shared i && Nat.eqb (src i) a.
Definition conflict (i j : instr) : bool :=
  existsb (fun a => writes_shared_cell i a && (writes_shared_cell j a || reads_shared_cell j a)
                    || writes_shared_cell j a && reads_shared_cell i a) [dst i; dst j].

Theorem no_conflict (p q : list instr) i j :
  prog_ok p = true -> prog_ok q = true -> In i p -> In j q -> conflict i j = false.
Proof.
  intros Hp Hq Hi Hj. unfold prog_ok in *. rewrite forallb_forall in Hp, Hq.
  pose proof (Hp i Hi) as A. pose proof (Hq j Hj) as B. apply negb_true_iff in A, B.
  unfold conflict, writes_shared_cell. rewrite A, B. reflexivity.
Qed.

(* the effect table: one abstract instruction per store-like instruction of the code *)
Definition local_class (c : Z) : bool := (c <=? 1)%Z.      (* 0 local | 1 caller-owned buffer *)
Definition table_ok {A} (table : list (A * Z)) : bool := forallb (fun e => local_class (snd e)) table.
Definition abstract_instr (c : Z) (n : nat) : instr :=
  {| src_shared := true; src := n; dst_shared := negb (local_class c); dst := n |}.
Definition abstract_prog {A} (table : list (A * Z)) : list instr :=
  map (fun en => abstract_instr (snd (fst en)) (snd en)) (combine table (seq 0 (length table))).

Theorem table_ok_prog_ok {A} (table : list (A * Z)) : table_ok table = true -> prog_ok (abstract_prog table) = true.
Proof.
  unfold table_ok, prog_ok, abstract_prog. rewrite !forallb_forall. intros H i Hi.
  apply in_map_iff in Hi. destruct Hi as ([e n] & <- & Hin). cbn [fst snd abstract_instr dst_shared].
  apply in_combine_l in Hin. rewrite (H e Hin). reflexivity.
Qed.

(* threads running any sub-sequences of the abstract program of an ok table *)
Corollary table_ok_interleaving {A} (table : list (A * Z)) (ts : list thread) (sh : heap) (sched : list nat) :
  table_ok table = true ->
  (forall t, In t ts -> forall i, In i (code t) -> In i (abstract_prog table)) ->
  fst (run (sh, ts) sched) = sh /\
  forall k t, nth_error ts k = Some t -> nth_error (snd (run (sh, ts) sched)) k = Some (solo sh t (count k sched)).
Proof.
  intros Hok Hsub. apply readonly_interleaving. intros t Ht.
  pose proof (table_ok_prog_ok table Hok) as Hp. unfold prog_ok in *. rewrite forallb_forall in *.
  intros i Hi. apply Hp. apply (Hsub t Ht i Hi).
Qed.

Print Assumptions readonly_interleaving.
Print Assumptions no_conflict.
Print Assumptions table_ok_interleaving.
