(* JordanQ.v — property C02, ring x segment as POINT SETS.
   A rational point is written (P, k), k > 0, meaning P / k; it lies on the
   segment A-B when P is on the k-fold scaled segment, and in the closed ring
   when P is in the k-fold scaled ring (membership does not depend on the
   representative: in_ring_scale_invariant).
   Theorem ring_intersects_segment_pointset: ringIntersectsSegment (allowOnEdge)
   answers true exactly when the closed segment and the closed ring share a
   rational point.  Built on Jordan.v (parity is constant along a segment no
   edge meets) and IntersectsQ.v (seg_meet = common rational point). *)
From Coq Require Import QArith ZArith Bool List Lia.
From GJ Require Import Base Kernel KernelSpec Series SeriesSpec Ring RingSpec
  RaycastProofs KernelProofs IntersectsProofs IntersectsQ SeriesProofs PipProofs Invariance Jordan.
Import ListNotations.
Local Open Scope Z_scope.

Definition sc (k : Z) (p : pt) : pt := aff k 0 0 p.
Definition scs (k : Z) (s : seg) : seg := affs k 0 0 s.

Lemma sc_1 p : sc 1 p = p.
Proof. destruct p as [x y]. unfold sc, aff, px, py. cbn [fst snd]. f_equal; lia. Qed.

Lemma map_sc_1 ps : map (sc 1) ps = ps.
Proof. induction ps as [|p ps IH]; [reflexivity|]. cbn [map]. rewrite sc_1, IH. reflexivity. Qed.

Lemma sc_sc j k p : sc j (sc k p) = sc (j * k) p.
Proof. destruct p as [x y]. unfold sc, aff, px, py. cbn [fst snd]. f_equal; ring. Qed.

Lemma sc_edges k ps : 0 < k -> ring_edges (map (sc k) ps) = map (scs k) (ring_edges ps).
Proof. intros Hk. apply ring_edges_aff. exact Hk. Qed.

Lemma in_ringb_sc k E p : 0 < k -> in_ringb (map (scs k) E) (sc k p) = in_ringb E p.
Proof.
  intros Hk. unfold in_ringb, sc, scs. rewrite on_boundaryb_aff, parityb_aff by exact Hk. reflexivity.
Qed.

(* membership of P/k does not depend on the representative *)
Theorem in_ring_scale_invariant (ps : list pt) (j k : Z) (P : pt) : 0 < j ->
  in_ringb (ring_edges (map (sc (j * k)) ps)) (sc j P) = in_ringb (ring_edges (map (sc k) ps)) P.
Proof.
  intros Hj. replace (map (sc (j * k)) ps) with (map (sc j) (map (sc k) ps)).
  - rewrite sc_edges by exact Hj. apply in_ringb_sc. exact Hj.
  - rewrite map_map. apply map_ext. intros p. apply sc_sc.
Qed.

Lemma seg_meet_sc k s o : 0 < k -> seg_meet (scs k s) (scs k o) <-> seg_meet s o.
Proof.
  intros Hk. rewrite <- !intersects_segment_iff. unfold scs. rewrite intersects_segment_aff by exact Hk. tauto.
Qed.

(* ------------------------------------------------------------------ *)
(* sub-segments and shared points                                       *)

Lemma zq_scale d n k r : 0 < d -> d * k = n * r -> (inject_Z k == zq n d * inject_Z r)%Q.
Proof.
  intros Hd E. unfold zq, Qeq, Qmult, inject_Z. simpl. rewrite Pos.mul_1_r, Z2Pos.id by lia. nia.
Qed.

Lemma on_segQ_sub (A B P : pt) (q : Q * Q) : on_seg (A, B) P -> on_segQ (A, P) q -> on_segQ (A, B) q.
Proof.
  intros HP (t & [Ht0 Ht1] & Ex & Ey). cbn [fst snd] in *.
  destruct (on_seg_param A B P HP) as (n & d & Hd & Hn & Hx & Hy).
  pose proof (zq_bounds n d Hd Hn) as [Z0 Z1].
  exists (t * zq n d)%Q. split; [split|split].
  - apply Qmult_le_0_compat; assumption.
  - apply Qle_trans with (1 * zq n d)%Q.
    + apply Qmult_le_compat_r; assumption.
    + rewrite Qmult_1_l. exact Z1.
  - cbn [fst snd]. rewrite Ex. rewrite (zq_scale d n _ _ Hd Hx). ring.
  - cbn [fst snd]. rewrite Ey. rewrite (zq_scale d n _ _ Hd Hy). ring.
Qed.

(* an edge that meets a part of the segment starting at A meets the segment *)
Lemma sub_segment_meet (e : seg) (A B P : pt) :
  on_seg (A, B) P -> seg_meet e (A, P) -> seg_meet e (A, B).
Proof.
  intros HP Hm. apply seg_meet_iff_common_point in Hm. destruct Hm as (q & H1 & H2).
  apply seg_meet_iff_common_point. exists q. split; [exact H1|]. apply (on_segQ_sub A B P q HP H2).
Qed.

(* a grid point on both segments: they meet *)
Lemma shared_point_meet (e : seg) (A B P : pt) : on_seg e P -> on_seg (A, B) P -> seg_meet e (A, B).
Proof.
  intros H1 H2. apply seg_meet_iff_common_point. exists (inject_Z (px P), inject_Z (py P)).
  destruct e as [a b]. split; apply on_seg_on_segQ; assumption.
Qed.

(* two segments that meet share a grid point at some scale *)
Lemma seg_meet_common_scaled (a b c d : pt) :
  seg_meet (a, b) (c, d) ->
  exists k P, 0 < k /\ on_seg (sc k a, sc k b) P /\ on_seg (sc k c, sc k d) P.
Proof.
  rewrite seg_meet_unfold. intros [H|[H|[H|[H|[H1 H2]]]]].
  - exists 1, c. rewrite !sc_1. split; [lia|]. split; [exact H|apply on_seg_left].
  - exists 1, d. rewrite !sc_1. split; [lia|]. split; [exact H|apply on_seg_right].
  - exists 1, a. rewrite !sc_1. split; [lia|]. split; [apply on_seg_left|exact H].
  - exists 1, b. rewrite !sc_1. split; [lia|]. split; [apply on_seg_right|exact H].
  - unfold opp in *.
    pose proof (id_B a b c d) as HB. pose proof (id_D a b c d) as HD.
    pose proof (id_ax a b c d) as Hax. pose proof (id_ay a b c d) as Hay.
    destruct a as [ax ay], b as [bx by_], c as [cx cy], d as [dx dy].
    unfold sc, aff, on_seg, px, py in *. cbn [fst snd] in *.
    set (A := cross (ax, ay) (bx, by_) (cx, cy)) in *. set (B := cross (ax, ay) (bx, by_) (dx, dy)) in *.
    set (C := cross (cx, cy) (dx, dy) (ax, ay)) in *. set (D := cross (cx, cy) (dx, dy) (bx, by_)) in *.
    set (R := rxs (ax, ay) (bx, by_) (cx, cy) (dx, dy)) in *.
    destruct (Z.lt_trichotomy 0 R) as [HR|[HR|HR]]; [|lia|].
    + exists R, (R * ax + C * (bx - ax), R * ay + C * (by_ - ay)). split; [exact HR|].
      unfold cross, px, py. cbn [fst snd].
      assert (Ex : R * ax + C * (bx - ax) = R * cx + (- A) * (dx - cx)) by lia.
      assert (Ey : R * ay + C * (by_ - ay) = R * cy + (- A) * (dy - cy)) by lia.
      split; [split; [ring|]|split; [rewrite Ex, Ey; ring|rewrite Ex, Ey]].
      * assert (0 <= C <= R) by lia. split; split; nia.
      * assert (0 <= - A <= R) by lia. split; split; nia.
    + exists (- R), ((- R) * ax + (- C) * (bx - ax), (- R) * ay + (- C) * (by_ - ay)). split; [lia|].
      unfold cross, px, py. cbn [fst snd].
      assert (Ex : (- R) * ax + (- C) * (bx - ax) = (- R) * cx + A * (dx - cx)) by lia.
      assert (Ey : (- R) * ay + (- C) * (by_ - ay) = (- R) * cy + A * (dy - cy)) by lia.
      split; [split; [ring|]|split; [rewrite Ex, Ey; ring|rewrite Ex, Ey]].
      * assert (0 <= - C <= - R) by lia. split; split; nia.
      * assert (0 <= A <= - R) by lia. split; split; nia.
Qed.

(* ------------------------------------------------------------------ *)
(* the point-set reading of ringIntersectsSegment                       *)

Definition shares_point (ps : list pt) (A B : pt) : Prop :=
  exists k P, 0 < k /\ on_seg (sc k A, sc k B) P /\ in_ringb (ring_edges (map (sc k) ps)) P = true.

Theorem ring_intersects_segment_pointset (ps : list pt) (A B : pt) :
  ring_intersects_segment (RS {| closed := true; pts := ps |}) (A, B) true = true <-> shares_point ps A B.
Proof.
  rewrite ring_intersects_segment_exact. set (E := ring_edges ps). split.
  - rewrite !orb_true_iff. intros [[HA|HB]|Hm].
    + exists 1, A. rewrite !sc_1, map_sc_1. split; [lia|]. split; [apply on_seg_left|exact HA].
    + exists 1, B. rewrite !sc_1, map_sc_1. split; [lia|]. split; [apply on_seg_right|exact HB].
    + apply existsb_exists in Hm. destruct Hm as ([a b] & Hin & Hm). apply seg_meetb_iff in Hm.
      destruct (seg_meet_common_scaled a b A B Hm) as (k & P & Hk & H1 & H2).
      exists k, P. split; [exact Hk|]. split; [exact H2|].
      rewrite sc_edges by exact Hk. unfold in_ringb. apply orb_true_iff. left. apply on_boundaryb_iff.
      exists (scs k (a, b)). split; [apply in_map; exact Hin|exact H1].
  - intros (k & P & Hk & HP & Hin).
    destruct (in_ringb E A) eqn:EA; [reflexivity|]. destruct (in_ringb E B) eqn:EB; [reflexivity|]. cbn [orb].
    destruct (existsb (fun e => seg_meetb e (A, B)) E) eqn:Em; [reflexivity|exfalso].
    rewrite existsb_false_iff in Em. rewrite sc_edges in Hin by exact Hk. fold E in Hin.
    (* no scaled edge meets the scaled segment *)
    assert (N : forall e', In e' (map (scs k) E) -> ~ seg_meet e' (sc k A, sc k B)).
    { intros e' He' Hm. apply in_map_iff in He'. destruct He' as (e & <- & He).
      change (sc k A, sc k B) with (scs k (A, B)) in Hm. apply (seg_meet_sc k e (A, B) Hk) in Hm.
      apply seg_meetb_iff in Hm. rewrite (Em e He) in Hm. discriminate Hm. }
    assert (OutA : in_ringb (map (scs k) E) (sc k A) = false) by (rewrite in_ringb_sc; assumption).
    unfold in_ringb in Hin, OutA. apply orb_false_iff in OutA. destruct OutA as [_ PA].
    apply orb_true_iff in Hin. destruct Hin as [Hb|Hp].
    + apply on_boundaryb_iff in Hb. destruct Hb as (e' & He' & Hon).
      apply (N e' He'). apply (shared_point_meet e' _ _ P Hon HP).
    + assert (J : parityb (map (scs k) E) (sc k A) = parityb (map (scs k) E) P).
      { unfold E. rewrite <- sc_edges by exact Hk. apply parity_constant_off_boundary.
        intros e' He' Hm. rewrite sc_edges in He' by exact Hk. apply (N e' He').
        apply (sub_segment_meet e' (sc k A) (sc k B) P HP Hm). }
      congruence.
Qed.

Print Assumptions ring_intersects_segment_pointset.
Print Assumptions in_ring_scale_invariant.

(* ------------------------------------------------------------------ *)
(* ring x line string (ringIntersectsLine; Poly.IntersectsLine without holes;
   Line.IntersectsPoly)                                                 *)

Lemma in_path_endpoint (qs : list pt) (p : pt) :
  In p qs -> (2 <= length qs)%nat -> exists sg, In sg (path_segs qs) /\ (fst sg = p \/ snd sg = p).
Proof.
  induction qs as [|x l IH]; [intros []|]. intros Hin H2.
  destruct l as [|y r]; [cbn in H2; lia|]. rewrite path_segs_cons2.
  destruct Hin as [<-|Hin].
  - exists (x, y). split; [left; reflexivity|left; reflexivity].
  - destruct r as [|z r'].
    + destruct Hin as [<-|[]]. exists (x, y). split; [left; reflexivity|right; reflexivity].
    + destruct (IH Hin) as (sg & Hs & Hp); [cbn; lia|]. exists sg. split; [right; exact Hs|exact Hp].
Qed.

Lemma line_seg_rect_in (qs : list pt) (sg : seg) : (2 <= length qs)%nat ->
  In sg (path_segs qs) -> rect_contains_rect (bbox_spec qs) (seg_rect sg) = true.
Proof.
  destruct sg as [a b]. intros H2 Hin. destruct (path_segs_endpoints qs a b Hin) as [Ha Hb].
  pose proof (bbox_spec_tight qs a Ha) as Ta. pose proof (bbox_spec_tight qs b Hb) as Tb. cbv zeta in Ta, Tb.
  apply PairProofs.rcr_iff. unfold seg_rect, px, py in *. cbn [fst snd] in *. lia.
Qed.

Theorem ring_intersects_line_pointset (ps qs : list pt) :
  ring_intersects_line (RS {| closed := true; pts := ps |}) (RS {| closed := false; pts := qs |}) true = true <->
  (3 <= length ps)%nat /\ (2 <= length qs)%nat /\
  exists sg, In sg (path_segs qs) /\ shares_point ps (fst sg) (snd sg).
Proof.
  unfold ring_intersects_line, ring_empty, ring_rect, ring_points, ring_segments.
  rewrite !RS_empty, !RS_rect, !RS_segs, RS_pts. cbn [pts].
  rewrite closed_series_empty.
  assert (Eo : series_empty {| closed := false; pts := qs |} = (length qs <? 2)%nat).
  { unfold series_empty, npoints. cbn [closed pts andb orb]. reflexivity. }
  rewrite Eo. change (segments_spec {| closed := false; pts := qs |}) with (path_segs qs).
  destruct (Nat.ltb_spec (length ps) 3) as [S3|H3]; cbn [orb].
  { split; [discriminate|]. intros (? & _). lia. }
  destruct (Nat.ltb_spec (length qs) 2) as [S2|H2].
  { split; [discriminate|]. intros (_ & ? & _). lia. }
  rewrite series_rect_spec by (rewrite closed_series_empty; apply Nat.ltb_ge; exact H3).
  rewrite (series_rect_spec {| closed := false; pts := qs |}) by exact Eo.
  cbn [pts]. split.
  - destruct (rect_intersects_rect (bbox_spec ps) (bbox_spec qs)); cbn [negb]; [|discriminate].
    intros H. split; [exact H3|]. split; [exact H2|].
    destruct (existsb (fun p => rcp_hit (RS {| closed := true; pts := ps |}) p true) qs) eqn:Ep.
    + apply existsb_exists in Ep. destruct Ep as (p & Hin & Hp). rewrite rcp_hit_in_ringb in Hp.
      destruct (in_path_endpoint qs p Hin H2) as ([a b] & Hs & Hab). exists (a, b). split; [exact Hs|].
      cbn [fst snd] in *. exists 1, p. rewrite !sc_1, map_sc_1. split; [lia|]. split; [|exact Hp].
      destruct Hab as [<-|<-]; [apply on_seg_left|apply on_seg_right].
    + apply existsb_exists in H. destruct H as ([a b] & Hs & Hm). exists (a, b). split; [exact Hs|].
      apply ring_intersects_segment_pointset. exact Hm.
  - intros (_ & _ & [a b] & Hs & Hsh). cbn [fst snd] in Hsh.
    apply ring_intersects_segment_pointset in Hsh.
    assert (Hbox : rect_intersects_rect (bbox_spec ps) (bbox_spec qs) = true).
    { pose proof Hsh as Hc. unfold ring_intersects_segment in Hc. unfold ring_rect in Hc. rewrite RS_rect in Hc.
      rewrite series_rect_spec in Hc by (rewrite closed_series_empty; apply Nat.ltb_ge; exact H3). cbn [pts] in Hc.
      destruct (rect_intersects_rect (seg_rect (a, b)) (bbox_spec ps)) eqn:Er; [|discriminate Hc].
      apply (PairProofs.rects_meet_mono _ (bbox_spec ps) _ (seg_rect (a, b))).
      - apply rcr_refl'.
      - apply line_seg_rect_in; assumption.
      - rewrite PairProofs.rect_intersects_rect_sym. exact Er. }
    rewrite Hbox. cbn [negb].
    destruct (existsb (fun p => rcp_hit (RS {| closed := true; pts := ps |}) p true) qs); [reflexivity|].
    apply existsb_exists. exists (a, b). split; [exact Hs|exact Hsh].
Qed.

Print Assumptions ring_intersects_line_pointset.

(* ------------------------------------------------------------------ *)
(* strict containment of a segment (ringContainsSegment, allowOnEdge = false,
   ring not flagged convex): the decision of site 13                    *)

Lemma seg_meet_degenerate (e : seg) (a : pt) : seg_meet e (a, a) -> on_seg e a.
Proof.
  destruct e as [c d]. rewrite seg_meet_unfold. intros [H|[H|[H|[H|[_ O]]]]]; try exact H.
  - destruct H as (_ & Hx & Hy). assert (c = a) as -> by (apply pt_eq_coords; lia). apply on_seg_left.
  - destruct H as (_ & Hx & Hy). assert (d = a) as -> by (apply pt_eq_coords; lia). apply on_seg_right.
  - unfold opp in O. assert (forall p, cross a a p = 0) as Z by (intros; unfold cross; ring).
    rewrite !Z in O. lia.
Qed.

Theorem ring_contains_segment_strict_exact (ps : list pt) (A B : pt) :
  ring_convex (RS {| closed := true; pts := ps |}) = false ->
  rcs (RS {| closed := true; pts := ps |}) (A, B) false =
  strictly_in_ringb (ring_edges ps) A && strictly_in_ringb (ring_edges ps) B &&
  negb (existsb (fun e => seg_meetb e (A, B)) (ring_edges ps)).
Proof.
  intros Hcv. set (E := ring_edges ps).
  assert (Hs : forall p, rcp_hit (RS {| closed := true; pts := ps |}) p false = strictly_in_ringb E p).
  { intros p. rewrite ring_contains_point_spec. unfold strictly_in_ringb. fold E.
    destruct (on_boundaryb E p); reflexivity. }
  assert (Hbb : forall p, strictly_in_ringb E p = true ->
                 rect_contains_point (ring_rect (RS {| closed := true; pts := ps |})) p = true).
  { intros p Hp. destruct (rect_contains_point _ p) eqn:Er; [reflexivity|].
    pose proof (rcp_hit_gen (RS {| closed := true; pts := ps |}) p false) as G. rewrite Er, Hs, Hp in G. discriminate G. }
  unfold rcs, ring_contains_segment.
  change (fst (ring_contains_point ?r ?p ?al)) with (rcp_hit r p al).
  destruct (strictly_in_ringb E A) eqn:SA.
  2:{ destruct (negb (rect_contains_point _ A) || negb (rect_contains_point _ B)); [reflexivity|].
      fold (rcp_hit (RS {| closed := true; pts := ps |}) A false). rewrite Hs, SA. reflexivity. }
  destruct (strictly_in_ringb E B) eqn:SB.
  2:{ destruct (negb (rect_contains_point _ A) || negb (rect_contains_point _ B)); [reflexivity|].
      fold (rcp_hit (RS {| closed := true; pts := ps |}) A false). rewrite Hs, SA. cbn [negb].
      destruct (pt_eqb B A) eqn:Eq; [apply pt_eqb_eq in Eq; subst B; congruence|].
      fold (rcp_hit (RS {| closed := true; pts := ps |}) B false). rewrite Hs, SB. reflexivity. }
  rewrite (Hbb A SA), (Hbb B SB). cbn [negb orb andb].
  fold (rcp_hit (RS {| closed := true; pts := ps |}) A false). rewrite Hs, SA. cbn [negb].
  assert (NbA : on_boundaryb E A = false).
  { unfold strictly_in_ringb in SA. destruct (on_boundaryb E A); [discriminate SA|reflexivity]. }
  destruct (pt_eqb B A) eqn:Eq.
  - apply pt_eqb_eq in Eq. subst B. cbn [fst]. symmetry. apply negb_true_iff. apply existsb_false_iff.
    intros e He. destruct (seg_meetb e (A, A)) eqn:Em; [|reflexivity]. exfalso.
    apply seg_meetb_iff in Em. apply seg_meet_degenerate in Em.
    assert (on_boundaryb E A = true) by (apply on_boundaryb_iff; exists e; split; assumption). congruence.
  - fold (rcp_hit (RS {| closed := true; pts := ps |}) B false). rewrite Hs, SB. cbn [negb]. rewrite Hcv.
    cbn [fst]. f_equal. unfold ring_search, ring_segments. rewrite RS_segs. fold (ring_edges ps). fold E.
    rewrite (existsb_filter_irrel (fun si : seg * nat => intersects_segment (A, B) (fst si) && true)).
    2:{ intros [e i] Hk. cbn [fst] in *. destruct (intersects_segment (A, B) e) eqn:Ei; [|reflexivity].
        apply intersects_segment_iff in Ei. apply seg_meet_boxes in Ei. congruence. }
    rewrite (existsb_indexed (fun e => intersects_segment (A, B) e && true)).
    clear. induction E as [|e E IH]; [reflexivity|]. cbn [existsb]. rewrite IH. f_equal.
    rewrite andb_true_r. apply bool_eq_iff. rewrite seg_meetb_iff, intersects_segment_iff. apply seg_meet_sym.
Qed.

(* point-set reading: every rational point of the closed segment is strictly inside *)
Definition all_strictly_inside (ps : list pt) (A B : pt) : Prop :=
  forall k P, 0 < k -> on_seg (sc k A, sc k B) P -> strictly_in_ringb (ring_edges (map (sc k) ps)) P = true.

Theorem ring_contains_segment_strict_pointset (ps : list pt) (A B : pt) :
  ring_convex (RS {| closed := true; pts := ps |}) = false ->
  (rcs (RS {| closed := true; pts := ps |}) (A, B) false = true <-> all_strictly_inside ps A B).
Proof.
  intros Hcv. rewrite (ring_contains_segment_strict_exact ps A B Hcv). set (E := ring_edges ps).
  rewrite !andb_true_iff, negb_true_iff. split.
  - intros [[SA SB] Em] k P Hk HP. rewrite existsb_false_iff in Em.
    rewrite sc_edges by exact Hk. fold E.
    assert (N : forall e', In e' (map (scs k) E) -> ~ seg_meet e' (sc k A, sc k B)).
    { intros e' He' Hm. apply in_map_iff in He'. destruct He' as (e & <- & He).
      change (sc k A, sc k B) with (scs k (A, B)) in Hm. apply (seg_meet_sc k e (A, B) Hk) in Hm.
      apply seg_meetb_iff in Hm. rewrite (Em e He) in Hm. discriminate Hm. }
    assert (SA' : strictly_in_ringb (map (scs k) E) (sc k A) = true).
    { unfold strictly_in_ringb, sc, scs. rewrite on_boundaryb_aff, parityb_aff by exact Hk. exact SA. }
    unfold strictly_in_ringb in *. apply andb_true_iff in SA'. destruct SA' as [_ PA].
    apply andb_true_iff. split.
    + apply negb_true_iff. destruct (on_boundaryb (map (scs k) E) P) eqn:Hb; [exfalso|reflexivity].
      apply on_boundaryb_iff in Hb. destruct Hb as (e' & He' & Hon).
      apply (N e' He'). apply (shared_point_meet e' _ _ P Hon HP).
    + rewrite <- PA. symmetry. unfold E. rewrite <- sc_edges by exact Hk. apply parity_constant_off_boundary.
      intros e' He' Hm. rewrite sc_edges in He' by exact Hk. apply (N e' He').
      apply (sub_segment_meet e' (sc k A) (sc k B) P HP Hm).
  - intros Hall. split; [split|].
    + pose proof (Hall 1 A) as H1. rewrite !sc_1, map_sc_1 in H1. apply H1; [lia|apply on_seg_left].
    + pose proof (Hall 1 B) as H1. rewrite !sc_1, map_sc_1 in H1. apply H1; [lia|apply on_seg_right].
    + apply existsb_false_iff. intros [a b] He. destruct (seg_meetb (a, b) (A, B)) eqn:Em; [exfalso|reflexivity].
      apply seg_meetb_iff in Em. destruct (seg_meet_common_scaled a b A B Em) as (k & P & Hk & H1 & H2).
      pose proof (Hall k P Hk H2) as S. rewrite sc_edges in S by exact Hk. fold E in S.
      unfold strictly_in_ringb in S. apply andb_true_iff in S. destruct S as [Nb _]. apply negb_true_iff in Nb.
      assert (on_boundaryb (map (scs k) E) P = true); [|congruence].
      apply on_boundaryb_iff. exists (scs k (a, b)). split; [apply in_map; exact He|exact H1].
Qed.

Print Assumptions ring_contains_segment_strict_exact.
Print Assumptions ring_contains_segment_strict_pointset.
