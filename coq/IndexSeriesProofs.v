(* IndexSeriesProofs.v — property C04 at the level of a series: for every index
   kind, baseSeries.Search (model: IndexExec.series_search) reports a
   permutation of the brute-force answer — exactly the segments whose rectangle
   meets the query — and searching the compressed quadtree bytes gives the same. *)
From Coq Require Import Sorting.Permutation FSets.FMapPositive Lia.
From GJ Require Import Base Kernel Series SeriesSpec SeriesProofs Index IndexExec
  QTreeProofs RTreeProofs CodecQProofs Ring RingSpec PipProofs PairProofs.
Open Scope Z_scope.

(* ------------------------------------------------------------------ *)
(* the positive-keyed rectangle table is the list                      *)

Definition add_step (st : rect_map * positive) (r : rect) : rect_map * positive :=
  let '(m, i) := st in (PositiveMap.add i r m, Pos.succ i).

Lemma mk_rect_map_eq rs : mk_rect_map rs = fst (fold_left add_step rs (PositiveMap.empty rect, 1%positive)).
Proof. reflexivity. Qed.

Lemma mk_rect_map_fold (rs : list rect) : forall (m : rect_map) (next : positive),
  (forall k, (Pos.to_nat next <= Pos.to_nat k)%nat -> PositiveMap.find k m = None) ->
  forall k, PositiveMap.find k (fst (fold_left add_step rs (m, next))) =
    if (Pos.to_nat k <? Pos.to_nat next)%nat then PositiveMap.find k m
    else nth_error rs (Pos.to_nat k - Pos.to_nat next).
Proof.
  induction rs as [|r rs IH]; intros m next Hfresh k; cbn [fold_left fst].
  - destruct (Nat.ltb_spec (Pos.to_nat k) (Pos.to_nat next)); [reflexivity|].
    rewrite Hfresh by lia. destruct (Pos.to_nat k - Pos.to_nat next)%nat; reflexivity.
  - change (add_step (m, next) r) with (PositiveMap.add next r m, Pos.succ next).
    assert (Hf' : forall j, (Pos.to_nat (Pos.succ next) <= Pos.to_nat j)%nat ->
                            PositiveMap.find j (PositiveMap.add next r m) = None).
    { intros j Hj. rewrite Pos2Nat.inj_succ in Hj. rewrite PositiveMapAdditionalFacts.gsspec.
      destruct (PositiveMap.E.eq_dec j next) as [->|_]; [lia|]. apply Hfresh. lia. }
    etransitivity; [exact (IH _ _ Hf' k)|]. rewrite Pos2Nat.inj_succ.
    destruct (Nat.ltb_spec (Pos.to_nat k) (S (Pos.to_nat next))) as [L|L].
    + rewrite PositiveMapAdditionalFacts.gsspec. destruct (PositiveMap.E.eq_dec k next) as [->|Hne].
      * rewrite Nat.ltb_irrefl, Nat.sub_diag. reflexivity.
      * assert (Pos.to_nat k <> Pos.to_nat next) by (intros E; apply Hne, Pos2Nat.inj, E).
        destruct (Nat.ltb_spec (Pos.to_nat k) (Pos.to_nat next)); [reflexivity|lia].
    + destruct (Nat.ltb_spec (Pos.to_nat k) (Pos.to_nat next)); [lia|].
      replace (Pos.to_nat k - Pos.to_nat next)%nat with (S (Pos.to_nat k - S (Pos.to_nat next))) by lia.
      reflexivity.
Qed.

Lemma rect_of_list_nth (rs : list rect) (i : nat) (r : rect) :
  nth_error rs i = Some r -> rect_of_list rs (Z.of_nat i) = r.
Proof.
  intros H. unfold rect_of_list. rewrite mk_rect_map_eq.
  rewrite (mk_rect_map_fold rs (PositiveMap.empty rect) 1%positive) by (intros k _; apply PositiveMap.gempty).
  assert (E : Pos.to_nat (Z.to_pos (Z.of_nat i + 1)) = S i).
  { replace (Z.of_nat i + 1) with (Z.of_nat (S i)) by lia.
    rewrite <- Z2Nat.inj_pos, Z2Pos.id by lia. apply Nat2Z.id. }
  rewrite E. change (Pos.to_nat 1) with 1%nat.
  destruct (Nat.ltb_spec (S i) 1); [lia|]. replace (S i - 1)%nat with i by lia. rewrite H. reflexivity.
Qed.

(* ------------------------------------------------------------------ *)
(* brute force, in the form the tree theorems speak of                  *)

Lemma brute_as_filter (rs : list rect) (q : rect) :
  brute rs q = filter (fun it => rect_intersects_rect (rect_of_list rs it) q) (map Z.of_nat (seq 0 (length rs))).
Proof.
  unfold brute.
  assert (G : forall (l : list rect) (s : nat),
            (forall j r, nth_error l j = Some r -> rect_of_list rs (Z.of_nat (s + j)) = r) ->
            map (fun ri : rect * nat => Z.of_nat (snd ri))
                (filter (fun ri => rect_intersects_rect (fst ri) q) (combine l (seq s (length l))))
            = filter (fun it => rect_intersects_rect (rect_of_list rs it) q) (map Z.of_nat (seq s (length l)))).
  { induction l as [|r l IH]; intros s H; [reflexivity|].
    cbn [length seq combine filter map fst snd].
    rewrite (H 0%nat r eq_refl) || (replace (s + 0)%nat with s in * by lia).
    assert (E : rect_of_list rs (Z.of_nat s) = r) by (specialize (H 0%nat r eq_refl); rewrite Nat.add_0_r in H; exact H).
    rewrite E. specialize (IH (S s)).
    assert (H' : forall j r0, nth_error l j = Some r0 -> rect_of_list rs (Z.of_nat (S s + j)) = r0).
    { intros j r0 Hj. specialize (H (S j) r0 Hj). replace (S s + j)%nat with (s + S j)%nat by lia. exact H. }
    destruct (rect_intersects_rect r q); cbn [map snd]; rewrite (IH H'); reflexivity. }
  apply (G rs 0%nat). intros j r Hj. apply rect_of_list_nth. exact Hj.
Qed.

(* segment rectangles are well formed and lie inside the series rectangle *)
Lemma seg_rect_wf (s : seg) : let r := seg_rect s in px (fst r) <= px (snd r) /\ py (fst r) <= py (snd r).
Proof. destruct s as [a b]. unfold seg_rect, px, py. cbn [fst snd]. lia. Qed.

Lemma seg_rects_nth_wf (s : series) (i : nat) : (i < length (seg_rects s))%nat ->
  let r := rect_of_list (seg_rects s) (Z.of_nat i) in px (fst r) <= px (snd r) /\ py (fst r) <= py (snd r).
Proof.
  intros Hi. destruct (nth_error (seg_rects s) i) as [r|] eqn:E; [|apply nth_error_None in E; lia].
  rewrite (rect_of_list_nth _ _ _ E). unfold seg_rects in E. apply nth_error_In, in_map_iff in E.
  destruct E as (sg & <- & _). apply seg_rect_wf.
Qed.

(* R-tree kind: Search reports a permutation of the brute-force answer, each segment once *)
Theorem series_search_rtree_exact (s : series) (q : rect) :
  Permutation (series_search 1 s q) (search_spec s q) /\ NoDup (series_search 1 s q).
Proof.
  unfold series_search, search_spec. cbn [Z.eqb]. set (rs := seg_rects s).
  pose proof (rbuild_search_exact (rect_of_list rs) (length rs) q (seg_rects_nth_wf s)) as Hx.
  pose proof (rbuild_search_nodup (rect_of_list rs) (length rs) q (seg_rects_nth_wf s)) as Hn.
  rewrite brute_as_filter. fold rs.
  destruct (rroot (rbuild (rect_of_list rs) (length rs))) as [r|].
  - split; assumption.
  - rewrite Hx. cbn. split; constructor.
Qed.

(* without an index: the brute-force scan itself *)
Theorem series_search_noindex_exact (s : series) (q : rect) : series_search 0 s q = search_spec s q.
Proof. reflexivity. Qed.

Print Assumptions series_search_rtree_exact.

(* ------------------------------------------------------------------ *)
(* quadtree kind: the executable instance works on coordinates scaled by 2^16 *)

Lemma scale_rect_intersects (r q : rect) :
  rect_intersects_rect (scale_rect r) (scale_rect q) = rect_intersects_rect r q.
Proof.
  destruct r as [[a b] [c d]], q as [[e f] [g h]].
  apply Bool.eq_true_iff_eq. rewrite !rir_iff. unfold scale_rect, QS, px, py. cbn [fst snd]. lia.
Qed.

Lemma scale_rect_contains (r q : rect) :
  rect_contains_rect (scale_rect r) (scale_rect q) = rect_contains_rect r q.
Proof.
  destruct r as [[a b] [c d]], q as [[e f] [g h]].
  apply Bool.eq_true_iff_eq. rewrite !rcr_iff. unfold scale_rect, QS, px, py. cbn [fst snd]. lia.
Qed.

Lemma scale_rect_wf (r : rect) : px (fst r) <= px (snd r) /\ py (fst r) <= py (snd r) ->
  px (fst (scale_rect r)) <= px (snd (scale_rect r)) /\ py (fst (scale_rect r)) <= py (snd (scale_rect r)).
Proof. destruct r as [[a b] [c d]]. unfold scale_rect, QS, px, py. cbn [fst snd]. lia. Qed.

Lemma rect_of_list_map_scale (rs : list rect) (i : nat) : (i < length rs)%nat ->
  rect_of_list (map scale_rect rs) (Z.of_nat i) = scale_rect (rect_of_list rs (Z.of_nat i)).
Proof.
  intros Hi. destruct (nth_error rs i) as [r|] eqn:E; [|apply nth_error_None in E; lia].
  rewrite (rect_of_list_nth rs i r E).
  apply rect_of_list_nth. rewrite nth_error_map, E. reflexivity.
Qed.

(* the endpoints of every segment of a series are points of the series *)
Lemma segments_spec_endpoints (s : series) (a b : pt) :
  In (a, b) (segments_spec s) -> In a (pts s) /\ In b (pts s).
Proof.
  unfold segments_spec. destruct (closed s).
  - destruct (length (pts s) <? 3)%nat eqn:E; [intros []|].
    intros H. apply (ring_edges_endpoints (pts s) a b). unfold ring_edges, segments_spec. cbn [closed pts]. rewrite E. exact H.
  - apply path_segs_endpoints.
Qed.

Lemma seg_rects_in_series_rect (s : series) (r : rect) :
  In r (seg_rects s) -> rect_contains_rect (series_rect s) r = true.
Proof.
  unfold seg_rects. intros H. apply in_map_iff in H. destruct H as ([a b] & <- & Hin).
  destruct (segments_spec_endpoints s a b Hin) as [Ha Hb].
  assert (Hne : series_empty s = false).
  { unfold series_empty, npoints. unfold segments_spec in Hin.
    destruct (closed s) eqn:Ec; cbn [andb orb].
    - destruct (Nat.ltb_spec (length (pts s)) 3) as [L|L]; [destruct Hin|].
      destruct (Nat.ltb_spec (length (pts s)) 2); [lia|reflexivity].
    - destruct (Nat.ltb_spec (length (pts s)) 2) as [L|L]; [|reflexivity].
      destruct (pts s) as [|p [|p' l]]; cbn in *; try tauto; lia. }
  rewrite (series_rect_spec s Hne). apply seg_rect_in_bbox; assumption.
Qed.

Theorem series_search_qtree_exact (s : series) (q : rect) :
  Permutation (series_search 2 s q) (search_spec s q) /\ NoDup (series_search 2 s q).
Proof.
  unfold series_search, search_spec. cbn [Z.eqb]. set (rs := seg_rects s).
  assert (Hlen : length (map scale_rect rs) = length rs) by apply map_length.
  assert (Hyp : forall i, (i < length rs)%nat ->
            let r := rect_of_list (map scale_rect rs) (Z.of_nat i) in
            px (fst r) <= px (snd r) /\ py (fst r) <= py (snd r) /\
            rect_contains_rect (scale_rect (series_rect s)) r = true).
  { intros i Hi. cbv zeta. rewrite rect_of_list_map_scale by exact Hi.
    destruct (nth_error rs i) as [r|] eqn:E; [|apply nth_error_None in E; lia].
    rewrite (rect_of_list_nth rs i r E).
    assert (Hin : In r (seg_rects s)) by (eapply nth_error_In; exact E).
    pose proof (seg_rects_nth_wf s i Hi) as W. cbv zeta in W. fold rs in W. rewrite (rect_of_list_nth rs i r E) in W.
    destruct (scale_rect_wf r W) as [W1 W2]. split; [exact W1|split; [exact W2|]].
    rewrite scale_rect_contains. apply seg_rects_in_series_rect. exact Hin. }
  pose proof (qbuild_search_exact mid_exact (rect_of_list (map scale_rect rs)) (scale_rect (series_rect s)) (length rs) (scale_rect q) Hyp) as Hx.
  pose proof (qbuild_search_nodup mid_exact (rect_of_list (map scale_rect rs)) (scale_rect (series_rect s)) (length rs) (scale_rect q) Hyp) as Hn.
  split; [|exact Hn].
  etransitivity; [exact Hx|]. rewrite brute_as_filter. fold rs.
  assert (E : forall l, (forall i, In i l -> (i < length rs)%nat) ->
            filter (fun it => rect_intersects_rect (rect_of_list (map scale_rect rs) it) (scale_rect q)) (map Z.of_nat l)
            = filter (fun it => rect_intersects_rect (rect_of_list rs it) q) (map Z.of_nat l)).
  { induction l as [|i l IH]; intros Hl; [reflexivity|]. cbn [map filter].
    rewrite rect_of_list_map_scale by (apply Hl; left; reflexivity). rewrite scale_rect_intersects.
    rewrite IH by (intros j Hj; apply Hl; right; exact Hj). reflexivity. }
  rewrite E; [apply Permutation_refl|]. intros i Hi. apply in_seq in Hi. lia.
Qed.

(* every index kind: Search = the segments whose rectangle meets the query, each once *)
Theorem series_search_exact (kind : Z) (s : series) (q : rect) :
  Permutation (series_search kind s q) (search_spec s q).
Proof.
  destruct (Z.eq_dec kind 1) as [->|H1]; [apply series_search_rtree_exact|].
  destruct (Z.eq_dec kind 2) as [->|H2]; [apply series_search_qtree_exact|].
  unfold series_search. destruct (Z.eqb_spec kind 1); [congruence|]. destruct (Z.eqb_spec kind 2); [congruence|].
  apply Permutation_refl.
Qed.

(* Move re-indexes the moved points: the moved series searches as its own brute force *)
Corollary series_search_moved_exact (kind : Z) (s : series) (dx dy : Z) (q : rect) :
  Permutation (series_search kind (series_move s dx dy) q) (search_spec (series_move s dx dy) q).
Proof. apply series_search_exact. Qed.

Print Assumptions series_search_qtree_exact.
Print Assumptions series_search_exact.

(* searching the compressed quadtree bytes of a series = its tree search = brute force *)
Theorem series_search_qtree_bytes (sc : Z) (s : series) (q : rect) :
  Z.of_nat (length (seg_rects s)) < 2 ^ 32 ->
  Z.of_nat (length (build_index_bytes sc 2 s)) < 2 ^ 32 ->
  series_search_bytes sc 2 s q = Some (series_search 2 s q).
Proof.
  intros Hn Hlen. unfold series_search_bytes, series_search, build_index_bytes in *. cbn [Z.eqb] in *.
  apply (q_codec_build mid_exact (rect_of_list (map scale_rect (seg_rects s))) (scale_rect (series_rect s))
                       (length (seg_rects s)) (scale_rect q) Hn Hlen).
Qed.

Print Assumptions series_search_qtree_bytes.
