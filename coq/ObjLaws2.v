(* ObjLaws2.v — property C09: "if A contains a non-empty B then A intersects B" for Line and Polygon
   receivers (ObjLaws.v has Point and Rect receivers).  Contains hands over one point of B that lies on
   / in A (the first vertex of B, or the minimum corner of a flat box); the point-set characterisations
   of Intersects (PairProofs, JordanQ, JordanRing, JordanRect) turn that shared point into the answer true. *)
From Coq Require Import ZArith Bool List Lia.
From GJ Require Import Base Kernel KernelSpec Series SeriesSpec Ring RingSpec PairSpec Pairs PairProofs
  KernelProofs IntersectsProofs RaycastProofs SeriesProofs PipProofs Obj ObjSpec ObjProofs BoxLaws ContainsBoxes CoversBoxes
  Jordan JordanQ JordanRing JordanRect ObjSym ObjSelf ObjLaws.
Import ListNotations.
Open Scope Z_scope.

Lemma seg_meet_touch (s sg : seg) : on_seg s (fst sg) -> seg_meet s sg.
Proof. destruct s as [a b], sg as [c d]. cbn [fst]. intros H. left. exact H. Qed.


(* ---- Line receivers ---- *)
Theorem line_contains_line_intersects (ps qs : list pt) :
  line_contains_line (Lr ps) (Lr qs) = Some true -> line_intersects_line (Lr ps) (Lr qs) = true.
Proof.
  intros E. pose proof E as E0. unfold line_contains_line in E0.
  destruct (ring_empty (Lr ps)) eqn:Ep; [discriminate|]. destruct (ring_empty (Lr qs)) eqn:Eq; [discriminate|]. clear E0.
  destruct (line_rect_is_bbox ps Ep) as (_ & Lp & Sp). destruct (line_rect_is_bbox qs Eq) as (_ & Lq & Sq).
  destruct (first_segment qs Eq) as (sg & Hsg & _).
  assert (Hc : line_covers_segment (Lr ps) sg = Some true).
  { unfold line_contains_line in E. rewrite Ep, Eq in E. cbn [orb] in E. apply (all_some_true_in _ _ E). apply in_map. exact Hsg. }
  destruct (line_covers_true_touch _ _ Hc) as (s & Hs & Hon).
  apply line_intersects_line_spec. split; [exact Lp|]. split; [exact Lq|].
  exists s, sg. rewrite Sp in Hs. rewrite Sq in Hsg. split; [exact Hs|]. split; [exact Hsg|].
  apply seg_meet_touch. apply raycast_on_iff. exact Hon.
Qed.

(* the minimum corner of a flat box over a point list is one of the points *)
Lemma flat_box_corner (ps : list pt) (mn mx : pt) : ps <> [] -> bbox_spec ps = (mn, mx) ->
  px mn = px mx \/ py mn = py mx -> In mn ps.
Proof.
  intros Hne Eb Hflat.
  destruct (bbox_spec_attained ps Hne) as (p1 & p2 & p3 & p4 & I1 & I2 & I3 & I4 & E1 & E2 & E3 & E4).
  cbv zeta in *. rewrite Eb in *. cbn [fst snd] in *.
  pose proof (bbox_spec_tight ps p1 I1) as T1. pose proof (bbox_spec_tight ps p2 I2) as T2. cbv zeta in T1, T2.
  rewrite Eb in T1, T2. cbn [fst snd] in T1, T2.
  destruct Hflat as [Hx|Hy].
  - assert (p2 = mn) as <-; [|exact I2]. destruct p2, mn. unfold px, py in *. cbn [fst snd] in *. f_equal; lia.
  - assert (p1 = mn) as <-; [|exact I1]. destruct p1, mn. unfold px, py in *. cbn [fst snd] in *. f_equal; lia.
Qed.

(* every vertex of a ring of three points or more lies on its boundary *)
Lemma vertex_on_boundary (e : list pt) (v : pt) : (3 <= length e)%nat -> In v e -> in_ringb (ring_edges e) v = true.
Proof.
  intros H3 Hv. destruct (ring_edges_closed_path' e H3) as (l & Hl & Hsub & _).
  destruct (ring_edges_closed_path e H3) as (qs & Hqs & _ & Hq3).
  assert (L2 : (2 <= length l)%nat).
  { destruct l as [|a [|b r]]; cbn [length]; try lia.
    - exfalso. exact (Hsub v Hv).
    - exfalso. rewrite Hqs in Hl. destruct qs as [|x [|y [|z t]]]; cbn in Hq3; try lia; discriminate. }
  destruct (line_point_is_end l v L2 (Hsub v Hv)) as (sg & Hsg & Hend).
  unfold in_ringb. apply orb_true_iff. left. apply on_boundaryb_iff. exists sg. rewrite Hl. split; [exact Hsg|].
  destruct sg as [a b]. cbn [fst snd] in Hend. destruct Hend as [->| ->]; [apply on_seg_left|apply on_seg_right].
Qed.

Lemma diag_touch (ps : list pt) (mn mx : pt) :
  line_contains_line (Lr ps) (diag_line mn mx) = Some true ->
  (2 <= length ps)%nat /\ exists s, In s (path_segs ps) /\ on_seg s mn.
Proof.
  intros E. pose proof E as E0. unfold line_contains_line in E0.
  destruct (ring_empty (Lr ps)) eqn:Ep; [discriminate|]. clear E0.
  destruct (line_rect_is_bbox ps Ep) as (_ & Lp & Sp). split; [exact Lp|].
  assert (Hc : line_covers_segment (Lr ps) (mn, mx) = Some true).
  { unfold line_contains_line in E. rewrite Ep in E. cbn [orb diag_line ring_empty r_empty] in E.
    apply (all_some_true_in _ _ E). apply in_map. left. reflexivity. }
  destruct (line_covers_true_touch _ _ Hc) as (s & Hs & Hon). rewrite Sp in Hs.
  exists s. split; [exact Hs|]. apply raycast_on_iff. exact Hon.
Qed.

Theorem line_contains_rect_intersects (ps : list pt) (q : rect) : rect_wf q ->
  line_contains_rect (Lr ps) q = Some true -> line_intersects_rect (Lr ps) q = true.
Proof.
  intros Hw E. unfold line_contains_rect, line_contains_poly in E.
  destruct (ring_empty (Lr ps) || poly_empty (rect_poly q)); [discriminate|].
  unfold poly_rect, rect_poly in E. cbn [exterior RR r_rect ring_rect] in E. destruct q as [mn mx].
  destruct (negb (px mn =? px mx) && negb (py mn =? py mx)); [discriminate|].
  destruct (diag_touch ps mn mx E) as (L2 & s & Hs & Hon).
  change (rect_intersects_line (mn, mx) (Lr ps) = true). apply (rect_intersects_line_pointset _ ps Hw).
  split; [exact L2|]. exists s, 1, mn. split; [exact Hs|]. split; [lia|]. rewrite !sc_1, scr_1.
  split; [destruct s; exact Hon|].
  destruct Hw as [W1 W2]. cbn [fst snd] in *. unfold in_rectb. cbn [fst snd]. rewrite !andb_true_iff, !Z.leb_le. lia.
Qed.

Theorem line_contains_poly_intersects (ps e : list pt) :
  line_contains_poly (Lr ps) (Pg e []) = Some true -> line_intersects_poly (Lr ps) (Pg e []) = true.
Proof.
  intros E. unfold line_contains_poly in E.
  destruct (ring_empty (Lr ps)); [discriminate|]. cbn [orb] in E.
  destruct (poly_empty (Pg e [])) eqn:Ee; [discriminate|].
  assert (H3 : (3 <= length e)%nat).
  { unfold poly_empty, Pg, Rg, ring_empty in Ee. cbn [exterior] in Ee. rewrite RS_empty, closed_series_empty in Ee.
    apply Nat.ltb_ge in Ee. exact Ee. }
  destruct (poly_rect (Pg e [])) as [mn mx] eqn:Er.
  destruct (negb (px mn =? px mx) && negb (py mn =? py mx)) eqn:Ef; [discriminate|].
  destruct (diag_touch ps mn mx E) as (L2 & s & Hs & Hon).
  change (poly_rect (mk_poly (e :: [])) = (mn, mx)) in Er. rewrite (poly_rect_bbox e [] H3) in Er.
  assert (Hin : In mn e).
  { apply (flat_box_corner e mn mx); [intros ->; cbn in H3; lia|exact Er|].
    apply andb_false_iff in Ef. destruct Ef as [Ef|Ef]; apply negb_false_iff in Ef; apply Z.eqb_eq in Ef; [left|right]; exact Ef. }
  unfold line_intersects_poly. apply poly_intersects_line_noholes. split; [exact H3|]. split; [exact L2|].
  exists s. split; [exact Hs|]. exists 1, mn. split; [lia|]. rewrite !sc_1. split; [destruct s; exact Hon|].
  rewrite map_sc_1. apply vertex_on_boundary; assumption.
Qed.

(* ---- Polygon receivers ---- *)

(* ringContainsRing without the bounding-box shortcut hands over a vertex of the line inside the ring *)
Lemma rcr_core_line_vertex (r : rng) (qs : list pt) (allow : bool) :
  rcr_core r (Lr qs) allow = true -> exists v, In v qs /\ rcp_hit r v allow = true.
Proof.
  unfold rcr_core. destruct (ring_empty r); [discriminate|]. cbn [orb].
  destruct (ring_empty (Lr qs)) eqn:Eq; [discriminate|].
  destruct (negb (rect_contains_rect (ring_rect r) (ring_rect (Lr qs)))); [discriminate|].
  destruct (line_rect_is_bbox qs Eq) as (_ & L2 & Sq).
  destruct (first_segment qs Eq) as (sg & Hsg & Hin).
  destruct (ring_convex r).
  - intros H. exists (fst sg). split; [exact Hin|]. rewrite forallb_forall in H. apply H.
    unfold ring_points, Lr. rewrite RS_pts. exact Hin.
  - intros H. exists (fst sg). split; [exact Hin|]. rewrite forallb_forall in H.
    apply (rcs_endpoints_in r sg allow). apply H. exact Hsg.
Qed.

Lemma rcr_short_line (r : rng) (qs : list pt) (allow : bool) : (length qs < 16)%nat ->
  ring_contains_ring r (Lr qs) allow = rcr_core r (Lr qs) allow.
Proof.
  intros Hs. unfold ring_contains_ring.
  assert (E : (complexRingMinPoints <=? ring_npoints (Lr qs))%nat = false).
  { apply Nat.leb_gt. unfold ring_npoints, ring_points, Lr, complexRingMinPoints. rewrite RS_pts. exact Hs. }
  rewrite E. cbn [andb]. unfold rcr_core. destruct (ring_empty r || ring_empty (Lr qs)); reflexivity.
Qed.

(* containment of a short line by a ring implies the ring meets it — in both modes *)
Lemma rcr_ril (r : rng) (qs : list pt) (allow : bool) : (length qs < 16)%nat ->
  ring_contains_ring r (Lr qs) allow = true -> ring_intersects_line r (Lr qs) allow = true.
Proof.
  intros Hs H. pose proof (ring_contains_ring_boxes _ _ _ H) as Hb. rewrite (rcr_short_line r qs allow Hs) in H.
  destruct (rcr_core_line_vertex r qs allow H) as (v & Hv & Hhit).
  unfold rcr_core in H. unfold ring_intersects_line.
  destruct (ring_empty r); [discriminate|]. cbn [orb] in *. destruct (ring_empty (Lr qs)) eqn:Eq; [discriminate|].
  rewrite (rcr_rir _ _ (line_rect_wf qs Eq) Hb). cbn [negb].
  assert (Ex : existsb (fun p => rcp_hit r p allow) (ring_points (Lr qs)) = true).
  { apply existsb_exists. exists v. split; [|exact Hhit]. unfold ring_points, Lr. rewrite RS_pts. exact Hv. }
  rewrite Ex. reflexivity.
Qed.

Theorem poly_contains_line_intersects (e : list pt) (hs : list (list pt)) (qs : list pt) : (length qs < 16)%nat ->
  poly_contains_line (Pg e hs) (Lr qs) = true -> poly_intersects_line (Pg e hs) (Lr qs) = true.
Proof.
  intros Hs. unfold poly_contains_line, poly_intersects_line.
  destruct (ring_contains_ring (exterior (Pg e hs)) (Lr qs) true) eqn:E; cbn [negb]; [|discriminate].
  rewrite (rcr_ril _ qs true Hs E). cbn [negb]. intros H. apply negb_true_iff in H. apply negb_true_iff.
  destruct (existsb (fun h => ring_contains_ring h (Lr qs) false) (holes (Pg e hs))) eqn:X; [|reflexivity].
  apply existsb_exists in X. destruct X as (h & Hh & Hc).
  assert (T : existsb (fun h => ring_intersects_line h (Lr qs) false) (holes (Pg e hs)) = true).
  { apply existsb_exists. exists h. split; [exact Hh|]. apply (rcr_ril h qs false Hs Hc). }
  congruence.
Qed.

Lemma rcr_area (R r : rect) : rect_wf r -> rect_contains_rect R r = true -> rect_area r <= rect_area R.
Proof.
  destruct R as [[a b] [c d]], r as [[e f] [g h]]. unfold rect_wf, rect_contains_rect, rect_area, px, py. cbn [fst snd].
  intros [W1 W2].
  destruct (Z.ltb_spec e a); cbn [orb]; [discriminate|]. destruct (Z.ltb_spec c g); cbn [orb]; [discriminate|].
  destruct (Z.ltb_spec f b); cbn [orb]; [discriminate|]. destruct (Z.ltb_spec d h); cbn [orb]; [discriminate|].
  intros _. apply Z.mul_le_mono_nonneg; lia.
Qed.

Lemma rcp_hit_in_rect (r : rng) (p : pt) (allow : bool) : rcp_hit r p allow = true -> rect_contains_point (ring_rect r) p = true.
Proof.
  unfold rcp_hit, ring_contains_point. destruct (rect_contains_point (ring_rect r) p); [reflexivity|]. cbn [negb fst]. discriminate.
Qed.

Lemma seg_rect_has_fst (sg : seg) : rect_contains_point (seg_rect sg) (fst sg) = true.
Proof.
  destruct sg as [[a b] [c d]]. unfold seg_rect, rect_contains_point, px, py. cbn [fst snd].
  rewrite !andb_true_iff, !Z.leb_le. lia.
Qed.

(* containment of a ring of fewer than 16 points implies the rings meet — in both modes *)
Lemma rcr_rir_gen (r o : rng) (allow : bool) (sg : seg) :
  (ring_npoints o < 16)%nat -> rect_wf (ring_rect o) -> In sg (ring_segments o) -> In (fst sg) (ring_points o) ->
  ring_contains_ring r o allow = true -> ring_intersects_ring r o allow = true.
Proof.
  intros Hs Hw Hsg Hpt H. pose proof (ring_contains_ring_boxes _ _ _ H) as Hb.
  unfold ring_contains_ring in H. unfold ring_intersects_ring.
  destruct (ring_empty r || ring_empty o) eqn:Ee; [discriminate|].
  assert (E : (complexRingMinPoints <=? ring_npoints o)%nat = false) by (apply Nat.leb_gt; exact Hs).
  rewrite E in H. cbn [andb] in H.
  rewrite (rcr_rir _ _ Hw Hb). cbn [negb].
  pose proof (rcr_area _ _ Hw Hb) as Ha. destruct (Z.ltb_spec (rect_area (ring_rect r)) (rect_area (ring_rect o))) as [?|_]; [lia|].
  assert (Hhit : rcp_hit r (fst sg) allow = true).
  { unfold rcr_core in H. rewrite Ee in H. destruct (negb (rect_contains_rect (ring_rect r) (ring_rect o))); [discriminate|].
    destruct (ring_convex r); rewrite forallb_forall in H.
    - apply H. exact Hpt.
    - apply (rcs_endpoints_in r sg allow). apply H. exact Hsg. }
  apply existsb_exists. exists sg. split; [exact Hsg|]. unfold ring_intersects_segment.
  rewrite (two_points_meet _ _ (fst sg) (seg_rect_has_fst sg) (rcp_hit_in_rect _ _ _ Hhit)). cbn [negb].
  rewrite Hhit. reflexivity.
Qed.

Lemma Rg_first (f : list pt) : (3 <= length f)%nat ->
  exists sg, In sg (ring_segments (Rg f)) /\ In (fst sg) (ring_points (Rg f)) /\ In (fst sg) f.
Proof.
  intros H3. destruct (ring_edges_closed_path f H3) as (qs & Hqs & _ & Hq3).
  destruct qs as [|x [|y l']]; cbn in Hq3; try lia.
  assert (Hxy : In (x, y) (ring_edges f)) by (rewrite Hqs; left; reflexivity).
  destruct (ring_edges_endpoints f x y Hxy) as [Hx _].
  exists (x, y). unfold ring_segments, ring_points, Rg. rewrite RS_segs, RS_pts. cbn [pts fst]. auto.
Qed.

Lemma Rg_rect_wf (f : list pt) : (3 <= length f)%nat -> rect_wf (ring_rect (Rg f)).
Proof.
  intros H3. apply ring_rect_wf. unfold ring_empty, Rg. rewrite RS_empty, closed_series_empty. apply Nat.ltb_ge. exact H3.
Qed.

Lemma rcr_nonempty (r o : rng) allow : ring_contains_ring r o allow = true -> ring_empty r = false /\ ring_empty o = false.
Proof.
  unfold ring_contains_ring. destruct (ring_empty r); [discriminate|]. destruct (ring_empty o); [discriminate|]. auto.
Qed.

Lemma Rg_nonempty (f : list pt) : ring_empty (Rg f) = false -> (3 <= length f)%nat.
Proof. unfold ring_empty, Rg. rewrite RS_empty, closed_series_empty. apply Nat.ltb_ge. Qed.

Theorem poly_contains_poly_intersects (e : list pt) (hs : list (list pt)) (f : list pt) : (length f < 16)%nat ->
  poly_contains_poly (Pg e hs) (Pg f []) = true -> poly_intersects_poly (Pg e hs) (Pg f []) = true.
Proof.
  intros Hs. unfold poly_contains_poly, poly_intersects_poly. cbn [exterior holes Pg map existsb].
  destruct (ring_contains_ring (Rg e) (Rg f) true) eqn:E; cbn [negb]; [|discriminate].
  destruct (rcr_nonempty _ _ _ E) as [Ne Nf]. apply Rg_nonempty in Ne. apply Rg_nonempty in Nf.
  destruct (Rg_first f Nf) as (sg & Hsg & Hpt & Hin).
  assert (Hn : (ring_npoints (Rg f) < 16)%nat) by (unfold ring_npoints, ring_points, Rg; rewrite RS_pts; exact Hs).
  (* the exteriors share the first vertex of f *)
  assert (X : ring_intersects_ring (Rg f) (Rg e) true = true).
  { apply ring_intersects_ring_pointset. split; [exact Nf|]. split; [exact Ne|].
    exists 1, (fst sg). split; [lia|]. rewrite !edges_at_1. split; [apply vertex_on_boundary; assumption|].
    rewrite <- rcp_hit_in_ringb.
    pose proof (rcr_rir_gen (Rg e) (Rg f) true sg Hn (Rg_rect_wf f Nf) Hsg Hpt E) as _.
    unfold ring_contains_ring in E. destruct (ring_empty (Rg e) || ring_empty (Rg f)) eqn:Ee; [discriminate|].
    assert (E16 : (complexRingMinPoints <=? ring_npoints (Rg f))%nat = false) by (apply Nat.leb_gt; exact Hn).
    rewrite E16 in E. cbn [andb] in E. unfold rcr_core in E. rewrite Ee in E.
    destruct (negb (rect_contains_rect (ring_rect (Rg e)) (ring_rect (Rg f)))); [discriminate|].
    destruct (ring_convex (Rg e)); rewrite forallb_forall in E.
    - apply E. exact Hpt.
    - apply (rcs_endpoints_in (Rg e) sg true). apply E. exact Hsg. }
  rewrite X. cbn [negb]. intros H. rewrite forallb_forall in H.
  destruct (existsb (fun h => ring_contains_ring h (Rg f) false) (map Rg hs)) eqn:Y; [|reflexivity].
  apply existsb_exists in Y. destruct Y as (h & Hh & Hc).
  pose proof (rcr_rir_gen h (Rg f) false sg Hn (Rg_rect_wf f Nf) Hsg Hpt Hc) as Hi.
  specialize (H h Hh). rewrite Hi in H. discriminate.
Qed.

Theorem poly_contains_rect_intersects (e : list pt) (hs : list (list pt)) (q : rect) : rect_wf q ->
  poly_contains_rect (Pg e hs) q = true -> poly_intersects_rect (Pg e hs) q = true.
Proof.
  intros Hw. unfold poly_contains_rect, poly_intersects_rect.
  assert (Eq : rect_poly q = Pg (rect_points q) []).
  { unfold rect_poly, Pg, Rg. cbn [map]. rewrite (RR_as_RS q Hw). reflexivity. }
  rewrite Eq. apply poly_contains_poly_intersects. destruct q as [[a b] [c d]]. cbn. lia.
Qed.

(* ---- the law at the Geometry interface ---- *)
Definition short (s : shape) : Prop :=
  match s with SLine ps => (length ps < 16)%nat | SPoly e _ => (length e < 16)%nat | _ => True end.

Theorem g_contains_intersects_line (ps : list pt) (b : shape) : s_wf b ->
  g_contains (g_of_shape (SLine ps)) (g_of_shape b) = Some true ->
  g_intersects (g_of_shape (SLine ps)) (g_of_shape b) = true.
Proof.
  destruct b as [q|o|qs|e hs]; cbn [g_of_shape g_contains g_intersects ob s_wf]; intros Hw H.
  - injection H as H'. exact H'.
  - change (RS (mk_line ps)) with (Lr ps) in *. apply line_contains_rect_intersects; assumption.
  - change (RS (mk_line ps)) with (Lr ps) in *. change (RS (mk_line qs)) with (Lr qs) in *.
    apply line_contains_line_intersects; assumption.
  - subst hs. change (RS (mk_line ps)) with (Lr ps) in *. change (mk_poly [e]) with (Pg e []) in *.
    apply line_contains_poly_intersects; assumption.
Qed.

(* polygon receivers, holes allowed; the argument has fewer than 16 points (below the bounding-box
   shortcut of ringContainsRing, whose soundness with boundary contact is not proved) *)
Theorem g_contains_intersects_poly (e : list pt) (hs : list (list pt)) (b : shape) : s_wf b -> short b ->
  g_contains (g_of_shape (SPoly e hs)) (g_of_shape b) = Some true ->
  g_intersects (g_of_shape (SPoly e hs)) (g_of_shape b) = true.
Proof.
  destruct b as [q|o|qs|f gs]; cbn [g_of_shape g_contains g_intersects ob s_wf short]; intros Hw Hs H; injection H as H'.
  - exact H'.
  - change (mk_poly (e :: hs)) with (Pg e hs) in *. apply poly_contains_rect_intersects; assumption.
  - change (mk_poly (e :: hs)) with (Pg e hs) in *. change (RS (mk_line qs)) with (Lr qs) in *.
    apply poly_contains_line_intersects; assumption.
  - subst gs. change (mk_poly (e :: hs)) with (Pg e hs) in *. change (mk_poly [f]) with (Pg f []) in *.
    apply poly_contains_poly_intersects; assumption.
Qed.

Print Assumptions g_contains_intersects_line.
Print Assumptions g_contains_intersects_poly.

(* the hypotheses are met by contact configurations: a line along a polygon's edge, a triangle in a
   polygon with a hole, a flat rectangle on a line *)
Example law_poly_line_edge :
  g_contains (g_of_shape (SPoly [(0,0);(8,0);(8,8);(0,8);(0,0)] [[(2,2);(4,2);(4,4);(2,4);(2,2)]])) (g_of_shape (SLine [(0,0);(8,0);(8,3)])) = Some true /\
  g_intersects (g_of_shape (SPoly [(0,0);(8,0);(8,8);(0,8);(0,0)] [[(2,2);(4,2);(4,4);(2,4);(2,2)]])) (g_of_shape (SLine [(0,0);(8,0);(8,3)])) = true.
Proof. vm_compute. split; reflexivity. Qed.

Example law_poly_poly_hole :
  g_contains (g_of_shape (SPoly [(0,0);(8,0);(8,8);(0,8);(0,0)] [[(2,2);(4,2);(4,4);(2,4);(2,2)]])) (g_of_shape (SPoly [(4,4);(7,4);(7,7);(4,4)] [])) = Some true.
Proof. vm_compute. reflexivity. Qed.

Example law_line_flat_rect :
  g_contains (g_of_shape (SLine [(0,0);(4,0);(9,0)])) (g_of_shape (SRect ((1,0),(6,0)))) = Some true /\
  g_intersects (g_of_shape (SLine [(0,0);(4,0);(9,0)])) (g_of_shape (SRect ((1,0),(6,0)))) = true.
Proof. vm_compute. split; reflexivity. Qed.

Example law_line_flat_poly :
  g_contains (g_of_shape (SLine [(0,0);(4,0);(9,0)])) (g_of_shape (SPoly [(1,0);(6,0);(3,0);(1,0)] [])) = Some true.
Proof. vm_compute. reflexivity. Qed.
