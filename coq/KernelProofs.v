(* KernelProofs.v — C19: consequences of the raycast characterisation; IntersectsSegment. *)
From GJ Require Import Base Kernel KernelSpec RaycastProofs.

(* ---- symmetry under swapping the segment's endpoints ---- *)

Lemma cross_swap a b p : cross b a p = - cross a b p.
Proof. unfold cross. ring. Qed.

Lemma on_seg_swap a b p : on_seg (a, b) p <-> on_seg (b, a) p.
Proof.
  unfold on_seg. rewrite (cross_swap a b p).
  rewrite (Z.min_comm (px b)), (Z.max_comm (px b)), (Z.min_comm (py b)), (Z.max_comm (py b)).
  split; intros (H & ? & ?); repeat split; try tauto; lia.
Qed.

Lemma crosses_swap a b p : crosses (a, b) p <-> crosses (b, a) p.
Proof. unfold crosses. rewrite (cross_swap a b p). split; intros [[? ?]|[? ?]]; [right|left|right|left]; split; lia. Qed.

Lemma bool_eq_iff (b c : bool) : (b = true <-> c = true) -> b = c.
Proof. destruct b, c; intuition congruence. Qed.

Theorem raycast_sym a b p : raycast (a, b) p = raycast (b, a) p.
Proof.
  rewrite (surjective_pairing (raycast (a, b) p)), (surjective_pairing (raycast (b, a) p)).
  f_equal; apply bool_eq_iff.
  - change (raycast_in (a, b) p = true <-> raycast_in (b, a) p = true).
    rewrite !raycast_in_iff, on_seg_swap, crosses_swap. reflexivity.
  - change (raycast_on (a, b) p = true <-> raycast_on (b, a) p = true).
    rewrite !raycast_on_iff. apply on_seg_swap.
Qed.

Theorem raycast_not_both s p : ~ (raycast_in s p = true /\ raycast_on s p = true).
Proof. rewrite raycast_in_iff, raycast_on_iff. tauto. Qed.

(* boolean specs reflect the propositional ones *)
Lemma on_segb_iff s p : on_segb s p = true <-> on_seg s p.
Proof.
  destruct s as [a b]. unfold on_segb, on_seg.
  rewrite !andb_true_iff, Z.eqb_eq, !Z.leb_le. tauto.
Qed.

Lemma crossesb_iff s p : crossesb s p = true <-> crosses s p.
Proof.
  destruct s as [a b]. unfold crossesb, crosses.
  rewrite orb_true_iff, !andb_true_iff, !Z.leb_le, !Z.ltb_lt. tauto.
Qed.

Theorem raycast_eq_spec s p :
  raycast s p = (crossesb s p && negb (on_segb s p), on_segb s p).
Proof.
  rewrite (surjective_pairing (raycast s p)). f_equal; apply bool_eq_iff.
  - change (raycast_in s p = true <-> crossesb s p && negb (on_segb s p) = true). rewrite raycast_in_iff, andb_true_iff, negb_true_iff.
    rewrite crossesb_iff. rewrite <- on_segb_iff. destruct (on_segb s p); intuition congruence.
  - change (raycast_on s p = true <-> on_segb s p = true). rewrite raycast_on_iff, on_segb_iff. reflexivity.
Qed.
