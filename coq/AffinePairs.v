(* AffinePairs.v — property C12, translation and positive scaling, at the level of
   the model of ring.go / poly.go / line.go / rect.go / point.go: every pair
   predicate (contains, intersects; all sixteen receiver x argument pairs, every
   decision site of ringContainsSegment included) gives the same answer on
   p |-> (k*x+dx, k*y+dy), k > 0, applied to both operands.  Since the model is
   the code on every case of the correspondence, known findings included, this
   is the translation / power-of-two-scaling clause of C12 for the code as it is. *)
From Coq Require Import Lia.
From GJ Require Import Base Kernel KernelSpec KernelProofs IntersectsProofs Series SeriesSpec
  SeriesProofs Ring RingSpec PipProofs PairSpec Pairs Invariance.
Open Scope Z_scope.

Section Affine.
Variables k dx dy : Z.
Hypothesis kpos : 0 < k.

Notation aff := (aff k dx dy).
Notation affs := (affs k dx dy).
Definition affr (r : rect) : rect := (aff (fst r), aff (snd r)).
Definition affsi (si : seg * nat) : seg * nat := (affs (fst si), snd si).

(* ------------------------------------------------------------------ *)
(* rectangles                                                           *)

Lemma seg_rect_aff (s : seg) : seg_rect (affs s) = affr (seg_rect s).
Proof.
  destruct s as [[ax ay] [bx by_]]. unfold seg_rect, affr, Invariance.affs, Invariance.aff, px, py. cbn [fst snd].
  assert (M : forall u v c, Z.min (k * u + c) (k * v + c) = k * Z.min u v + c).
  { intros u v c. destruct (Z.min_spec u v) as [[? ->]|[? ->]]; [rewrite Z.min_l|rewrite Z.min_r]; nia. }
  assert (X : forall u v c, Z.max (k * u + c) (k * v + c) = k * Z.max u v + c).
  { intros u v c. destruct (Z.max_spec u v) as [[? ->]|[? ->]]; [rewrite Z.max_r|rewrite Z.max_l]; nia. }
  rewrite !M, !X. reflexivity.
Qed.

Lemma rir_aff (a b : rect) : rect_intersects_rect (affr a) (affr b) = rect_intersects_rect a b.
Proof.
  destruct a as [[a1 a2] [a3 a4]], b as [[b1 b2] [b3 b4]].
  unfold rect_intersects_rect, affr, Invariance.aff, px, py. cbn [fst snd].
  assert (L : forall u v c, (k * u + c <? k * v + c) = (u <? v)) by (intros; apply Bool.eq_true_iff_eq; rewrite !Z.ltb_lt; nia).
  rewrite !L. reflexivity.
Qed.

Lemma rcr_aff (a b : rect) : rect_contains_rect (affr a) (affr b) = rect_contains_rect a b.
Proof.
  destruct a as [[a1 a2] [a3 a4]], b as [[b1 b2] [b3 b4]].
  unfold rect_contains_rect, affr, Invariance.aff, px, py. cbn [fst snd].
  assert (L : forall u v c, (k * u + c <? k * v + c) = (u <? v)) by (intros; apply Bool.eq_true_iff_eq; rewrite !Z.ltb_lt; nia).
  rewrite !L. reflexivity.
Qed.

Lemma rcp_aff (r : rect) (p : pt) : rect_contains_point (affr r) (aff p) = rect_contains_point r p.
Proof.
  destruct r as [[a1 a2] [a3 a4]], p as [x y].
  unfold rect_contains_point, affr, Invariance.aff, px, py. cbn [fst snd].
  assert (L : forall u v c, (k * u + c <=? k * v + c) = (u <=? v)) by (intros; apply Bool.eq_true_iff_eq; rewrite !Z.leb_le; nia).
  rewrite !L. reflexivity.
Qed.

Lemma rect_eqb_aff (a b : rect) : rect_eqb (affr a) (affr b) = rect_eqb a b.
Proof. unfold rect_eqb, affr. cbn [fst snd]. rewrite !(pt_eqb_aff k dx dy kpos). reflexivity. Qed.

Lemma rect_area_aff (r : rect) : rect_area (affr r) = k * k * rect_area r.
Proof. destruct r as [[a1 a2] [a3 a4]]. unfold rect_area, affr, Invariance.aff, px, py. cbn [fst snd]. ring. Qed.

Lemma area_lt_aff (a b : rect) : (rect_area (affr a) <? rect_area (affr b)) = (rect_area a <? rect_area b).
Proof. rewrite !rect_area_aff. apply Bool.eq_true_iff_eq. rewrite !Z.ltb_lt. nia. Qed.

(* ------------------------------------------------------------------ *)
(* lists of indexed segments                                            *)

Lemma existsb_ext' {A} (f g : A -> bool) (l : list A) : (forall x, f x = g x) -> existsb f l = existsb g l.
Proof. intros H. induction l as [|x l IH]; [reflexivity|]. cbn [existsb]. rewrite H, IH. reflexivity. Qed.

Lemma filter_map_comm {A B} (p : B -> bool) (f : A -> B) (l : list A) : filter p (map f l) = map f (filter (fun x => p (f x)) l).
Proof. induction l as [|x l IH]; [reflexivity|]. cbn [map filter]. destruct (p (f x)); cbn [map]; rewrite IH; reflexivity. Qed.

Lemma combine_map_l {A B C} (f : A -> B) (l : list A) (m : list C) : combine (map f l) m = map (fun x => (f (fst x), snd x)) (combine l m).
Proof. revert m. induction l as [|x l IH]; intros [|y m]; cbn [map combine]; try reflexivity. rewrite IH. reflexivity. Qed.

Lemma indexed_map (l : list seg) : indexed (map affs l) = map affsi (indexed l).
Proof. unfold indexed. rewrite map_length, combine_map_l. reflexivity. Qed.

(* ------------------------------------------------------------------ *)
(* rings related by the map                                             *)

Definition aff_rel (r r' : rng) : Prop :=
  r_pts r' = map aff (r_pts r) /\ r_segs r' = map affs (r_segs r) /\ r_rect r' = affr (r_rect r) /\
  r_convex r' = r_convex r /\ r_cw r' = r_cw r /\ r_empty r' = r_empty r.

Lemma rel_search (r r' : rng) (q : rect) : aff_rel r r' -> ring_search r' (affr q) = map affsi (ring_search r q).
Proof.
  intros (_ & Hs & _). unfold ring_search, ring_segments. rewrite Hs, indexed_map, filter_map_comm.
  f_equal. apply filter_ext. intros si. unfold affsi. cbn [fst]. rewrite seg_rect_aff, rir_aff. reflexivity.
Qed.

Lemma rel_strip (r r' : rng) (y : Z) : aff_rel r r' -> strip_search r' (k * y + dy) = map affsi (strip_search r y).
Proof.
  intros (_ & Hs & _). unfold strip_search, ring_segments. rewrite Hs, indexed_map, filter_map_comm.
  f_equal. apply filter_ext. intros si. unfold affsi. cbn [fst]. rewrite seg_rect_aff.
  destruct (seg_rect (fst si)) as [[a1 a2] [a3 a4]]. unfold affr, Invariance.aff, px, py. cbn [fst snd].
  assert (L : forall u v, (k * u + dy <? k * v + dy) = (u <? v)) by (intros; apply Bool.eq_true_iff_eq; rewrite !Z.ltb_lt; nia).
  rewrite !L. reflexivity.
Qed.

Lemma pip_fold_aff (allow : bool) (p : pt) (l : list (seg * nat)) : forall inn,
  pip_fold allow (aff p) (map affsi l) inn = pip_fold allow p l inn.
Proof.
  induction l as [|[sg i] l IH]; intros inn; [reflexivity|]. cbn [map pip_fold affsi fst snd].
  rewrite (raycast_aff k dx dy kpos). destruct (raycast sg p) as [i_ o_]. destruct o_; [reflexivity|apply IH].
Qed.

Lemma rel_rcp (r r' : rng) (p : pt) (allow : bool) : aff_rel r r' ->
  ring_contains_point r' (aff p) allow = ring_contains_point r p allow.
Proof.
  intros H. pose proof H as (_ & _ & Hr & _). unfold ring_contains_point, ring_rect. rewrite Hr, rcp_aff.
  destruct (negb (rect_contains_point (r_rect r) p)); [reflexivity|].
  change (py (aff p)) with (k * py p + dy). rewrite (rel_strip r r' (py p) H). apply pip_fold_aff.
Qed.

Lemma rel_rcp_hit (r r' : rng) (p : pt) (allow : bool) : aff_rel r r' -> rcp_hit r' (aff p) allow = rcp_hit r p allow.
Proof. intros H. unfold rcp_hit. rewrite (rel_rcp r r' p allow H). reflexivity. Qed.

(* ------------------------------------------------------------------ *)
(* ringContainsSegment, every decision site                             *)

Lemma raycast_on_aff (s : seg) (p : pt) : raycast_on (affs s) (aff p) = raycast_on s p.
Proof. unfold raycast_on. rewrite (raycast_aff k dx dy kpos). reflexivity. Qed.

Lemma quad_cw_aff (sa sb : seg) : quad_cw (affs sa) (affs sb) = quad_cw sa sb.
Proof.
  destruct sa as [[x1 y1] [x2 y2]], sb as [[x3 y3] [x4 y4]].
  unfold quad_cw, Invariance.affs, Invariance.aff, px, py. cbn [fst snd].
  apply Bool.eq_true_iff_eq. rewrite !Z.ltb_lt.
  match goal with |- 0 < ?A <-> 0 < ?B => assert (E : A = k * k * B) by ring; rewrite E end. nia.
Qed.

Lemma nth_map_in {A B} (f : A -> B) (l : list A) (n : nat) (d : A) (d' : B) : (n < length l)%nat -> nth n (map f l) d' = f (nth n l d).
Proof. revert n. induction l as [|x l IH]; intros [|n] H; cbn [length] in H; try lia; cbn [map nth]; [reflexivity|apply IH; lia]. Qed.

Lemma rel_nth_seg (r r' : rng) (i : Z) : aff_rel r r' -> 0 <= i < Z.of_nat (length (ring_segments r)) ->
  nth_seg r' i = affs (nth_seg r i).
Proof.
  intros (_ & Hs & _) Hi. unfold nth_seg, ring_segments in *. rewrite Hs. apply nth_map_in. lia.
Qed.

(* the edge index reported by the point search is -1 or a segment index *)
Lemma pip_fold_idx (allow : bool) (p : pt) (n : nat) : forall (l : list (seg * nat)) (inn : bool),
  (forall si, In si l -> (snd si < n)%nat) ->
  snd (pip_fold allow p l inn) = -1 \/ 0 <= snd (pip_fold allow p l inn) < Z.of_nat n.
Proof.
  induction l as [|[sg i] l IH]; intros inn H; [left; reflexivity|]. cbn [pip_fold].
  destruct (raycast sg p) as [i_ o_]. destruct o_.
  - right. cbn [snd]. specialize (H (sg, i) (or_introl eq_refl)). cbn [snd] in H. lia.
  - apply IH. intros si Hsi. apply H. right. exact Hsi.
Qed.

Lemma rcp_idx (r : rng) (p : pt) (allow : bool) :
  snd (ring_contains_point r p allow) = -1 \/ 0 <= snd (ring_contains_point r p allow) < Z.of_nat (length (ring_segments r)).
Proof.
  unfold ring_contains_point. destruct (negb _); [left; reflexivity|].
  apply pip_fold_idx. intros si Hsi. unfold strip_search in Hsi. apply filter_In in Hsi. destruct Hsi as [Hsi _].
  unfold indexed in Hsi. destruct si as [s0 i0]. apply in_combine_r in Hsi. apply in_seq in Hsi. cbn [snd]. lia.
Qed.

Lemma existsb_map' {A B} (f : B -> bool) (g : A -> B) (l : list A) : existsb f (map g l) = existsb (fun x => f (g x)) l.
Proof. induction l as [|x l IH]; [reflexivity|]. cbn [map existsb]. rewrite IH. reflexivity. Qed.

Lemma hit_aff (sg : seg) (g g' : seg * nat -> bool) (cands : list (seg * nat)) : (forall si, g' (affsi si) = g si) ->
  existsb (fun si => intersects_segment (affs sg) (fst si) && g' si) (map affsi cands)
  = existsb (fun si => intersects_segment sg (fst si) && g si) cands.
Proof.
  intros Hf. rewrite existsb_map'. apply existsb_ext'. intros si. rewrite Hf. unfold affsi. cbn [fst].
  rewrite (intersects_segment_aff k dx dy kpos). reflexivity.
Qed.

Theorem rel_rcs (r r' : rng) (sg : seg) (allow : bool) : aff_rel r r' ->
  ring_contains_segment r' (affs sg) allow = ring_contains_segment r sg allow.
Proof.
  intros H. pose proof H as (_ & _ & Hr & Hcv & Hcw & _).
  destruct sg as [a b]. unfold ring_contains_segment. change (affs (a, b)) with (aff a, aff b). cbv zeta.
  unfold ring_rect, ring_convex, ring_clockwise. rewrite Hr, !rcp_aff, Hcv, Hcw.
  rewrite (rel_rcp r r' a allow H), (rel_rcp r r' b allow H), (pt_eqb_aff k dx dy kpos).
  change (seg_rect (aff a, aff b)) with (seg_rect (affs (a, b))). rewrite seg_rect_aff, (rel_search r r' _ H).
  destruct (negb (rect_contains_point (r_rect r) a) || negb (rect_contains_point (r_rect r) b)); [reflexivity|].
  destruct (ring_contains_point r a allow) as [hitA idxA] eqn:EA. cbn [fst snd].
  destruct (negb hitA); [reflexivity|]. destruct (pt_eqb b a); [reflexivity|].
  destruct (ring_contains_point r b allow) as [hitB idxB] eqn:EB. cbn [fst snd].
  destruct (negb hitB); [reflexivity|]. destruct (r_convex r); [reflexivity|].
  set (cands := ring_search r (seg_rect (a, b))).
  change (aff a, aff b) with (affs (a, b)).
  destruct allow.
  - destruct (negb (idxA =? -1)) eqn:NA.
    + destruct (negb (idxB =? -1)) eqn:NB.
      * destruct (idxB =? idxA); [reflexivity|].
        pose proof (rcp_idx r a true) as IA. rewrite EA in IA. cbn [snd] in IA.
        pose proof (rcp_idx r b true) as IB. rewrite EB in IB. cbn [snd] in IB.
        apply negb_true_iff in NA, NB. apply Z.eqb_neq in NA, NB.
        destruct IA as [IA|IA]; [contradiction|]. destruct IB as [IB|IB]; [contradiction|].
        rewrite (rel_nth_seg r r' idxA H IA), (rel_nth_seg r r' idxB H IB).
        cbn [fst snd]. unfold Invariance.affs at 1 2 3 4 5 6 7 8. cbn [fst snd].
        rewrite !(pt_eqb_aff k dx dy kpos).
        match goal with |- (if ?c then _ else _) = _ => destruct c end; [reflexivity|].
        destruct (idxB <? idxA); rewrite quad_cw_aff;
          match goal with |- (if ?c then _ else _) = _ => destruct c end; try reflexivity;
          (f_equal; f_equal; apply hit_aff; intros si; unfold affsi; cbn [fst]; rewrite !raycast_on_aff; reflexivity).
      * f_equal. f_equal. apply hit_aff. intros si. unfold affsi. cbn [fst]. rewrite raycast_on_aff. reflexivity.
    + destruct (negb (idxB =? -1)).
      * f_equal. f_equal. apply hit_aff. intros si. unfold affsi. cbn [fst]. rewrite raycast_on_aff. reflexivity.
      * f_equal. f_equal. apply hit_aff. intros si. unfold affsi. cbn [fst]. unfold Invariance.affs at 2 4. cbn [fst snd].
        rewrite !raycast_on_aff. reflexivity.
  - f_equal. f_equal. apply hit_aff. reflexivity.
Qed.

Lemma rel_rcs_b (r r' : rng) (sg : seg) (allow : bool) : aff_rel r r' -> rcs r' (affs sg) allow = rcs r sg allow.
Proof. intros H. unfold rcs. rewrite (rel_rcs r r' sg allow H). reflexivity. Qed.

(* ------------------------------------------------------------------ *)
(* ringIntersectsSegment, ringContainsRing, ringIntersectsRing / Line    *)

Lemma fst_affs (s : seg) : fst (affs s) = aff (fst s). Proof. reflexivity. Qed.
Lemma snd_affs (s : seg) : snd (affs s) = aff (snd s). Proof. reflexivity. Qed.

Lemma ris_count_aff (allow : bool) (sg : seg) : forall (l : list (seg * nat)) (st : Z * bool * bool),
  ris_count allow (affs sg) (map affsi l) st = ris_count allow sg l st.
Proof.
  induction l as [|[s2 i] l IH]; intros [[count aon] bon]; [reflexivity|]. cbn [map ris_count affsi fst snd].
  rewrite (intersects_segment_aff k dx dy kpos).
  rewrite !fst_affs, !snd_affs, !(collinear_point_aff k dx dy kpos), !(pt_eqb_aff k dx dy kpos).
  match goal with |- (if fst (fst ?X) <? 2 then _ else _) = (if fst (fst ?Y) <? 2 then _ else _) => change X with Y end.
  match goal with |- (if ?c then _ else _) = _ => destruct c end; [apply IH|reflexivity].
Qed.

Lemma rel_ris (r r' : rng) (sg : seg) (allow : bool) : aff_rel r r' ->
  ring_intersects_segment r' (affs sg) allow = ring_intersects_segment r sg allow.
Proof.
  intros H. pose proof H as (_ & _ & Hr & _). unfold ring_intersects_segment, ring_rect.
  rewrite Hr, seg_rect_aff, rir_aff. destruct (negb _); [reflexivity|].
  rewrite !fst_affs, !snd_affs, !(rel_rcp_hit r r' _ allow H).
  destruct (rcp_hit r (fst sg) allow); [reflexivity|]. destruct (rcp_hit r (snd sg) allow); [reflexivity|].
  rewrite (rel_search r r' _ H), ris_count_aff. reflexivity.
Qed.

Lemma forallb_map' {A B} (f : B -> bool) (g : A -> B) (l : list A) : forallb f (map g l) = forallb (fun x => f (g x)) l.
Proof. induction l as [|x l IH]; [reflexivity|]. cbn [map forallb]. rewrite IH. reflexivity. Qed.

Lemma forallb_ext' {A} (f g : A -> bool) (l : list A) : (forall x, f x = g x) -> forallb f l = forallb g l.
Proof. intros H. induction l as [|x l IH]; [reflexivity|]. cbn [forallb]. rewrite H, IH. reflexivity. Qed.

Lemma rel_rcr_core (r r' o o' : rng) (allow : bool) : aff_rel r r' -> aff_rel o o' -> rcr_core r' o' allow = rcr_core r o allow.
Proof.
  intros H Ho. pose proof H as (_ & _ & Hr & Hcv & _ & He). pose proof Ho as (Hop & Hos & Hor & _ & _ & Hoe).
  unfold rcr_core, ring_empty, ring_rect, ring_convex, ring_points, ring_segments. rewrite He, Hoe, Hr, Hor, rcr_aff, Hcv, Hop, Hos.
  destruct (r_empty r || r_empty o); [reflexivity|]. destruct (negb _); [reflexivity|].
  destruct (r_convex r).
  - rewrite forallb_map'. apply forallb_ext'. intros p. apply (rel_rcp_hit r r' p allow H).
  - rewrite forallb_map'. apply forallb_ext'. intros sg. apply (rel_rcs_b r r' sg allow H).
Qed.

Lemma RR_rel (q : rect) : aff_rel (RR q) (RR (affr q)).
Proof.
  destruct q as [[a b] [c d]]. unfold aff_rel, RR, affr, rect_points, rect_segments, Invariance.affs, Invariance.aff, px, py.
  cbn [fst snd r_pts r_segs r_rect r_convex r_cw r_empty map]. repeat split; reflexivity.
Qed.

Lemma rel_rcr (r r' o o' : rng) (allow : bool) : aff_rel r r' -> aff_rel o o' ->
  ring_contains_ring r' o' allow = ring_contains_ring r o allow.
Proof.
  intros H Ho. pose proof H as (_ & _ & _ & _ & _ & He). pose proof Ho as (Hop & _ & Hor & _ & _ & Hoe).
  unfold ring_contains_ring, ring_empty, ring_npoints, ring_points, ring_rect. rewrite He, Hoe, Hop, map_length, Hor.
  destruct (r_empty r || r_empty o); [reflexivity|].
  rewrite (rel_rcr_core r r' (RR (r_rect o)) (RR (affr (r_rect o))) allow H (RR_rel (r_rect o))).
  rewrite (rel_rcr_core r r' o o' allow H Ho). reflexivity.
Qed.

Lemma rel_rir (r r' o o' : rng) (allow : bool) : aff_rel r r' -> aff_rel o o' ->
  ring_intersects_ring r' o' allow = ring_intersects_ring r o allow.
Proof.
  intros H Ho. pose proof H as (_ & Hs & Hr & _ & _ & He). pose proof Ho as (_ & Hos & Hor & _ & _ & Hoe).
  unfold ring_intersects_ring, ring_empty, ring_rect. rewrite He, Hoe, Hr, Hor, rir_aff, area_lt_aff.
  destruct (r_empty r || r_empty o); [reflexivity|]. destruct (negb _); [reflexivity|].
  destruct (rect_area (r_rect r) <? rect_area (r_rect o)); unfold ring_segments.
  - rewrite Hs, existsb_map'. apply existsb_ext'. intros sg. apply (rel_ris o o' sg allow Ho).
  - rewrite Hos, existsb_map'. apply existsb_ext'. intros sg. apply (rel_ris r r' sg allow H).
Qed.

Lemma rel_ril (r r' l l' : rng) (allow : bool) : aff_rel r r' -> aff_rel l l' ->
  ring_intersects_line r' l' allow = ring_intersects_line r l allow.
Proof.
  intros H Hl. pose proof H as (_ & _ & Hr & _ & _ & He). pose proof Hl as (Hlp & Hls & Hlr & _ & _ & Hle).
  unfold ring_intersects_line, ring_empty, ring_rect, ring_points, ring_segments. rewrite He, Hle, Hr, Hlr, rir_aff, Hlp, Hls.
  destruct (r_empty r || r_empty l); [reflexivity|]. destruct (negb _); [reflexivity|].
  rewrite !existsb_map'.
  rewrite (existsb_ext' _ (fun p => rcp_hit r p allow) (r_pts l)) by (intros p; apply (rel_rcp_hit r r' p allow H)).
  rewrite (existsb_ext' _ (fun sg => ring_intersects_segment r sg allow) (r_segs l)) by (intros sg; apply (rel_ris r r' sg allow H)).
  reflexivity.
Qed.

(* ------------------------------------------------------------------ *)
(* polygons                                                             *)

Definition poly_rel (p p' : poly) : Prop := aff_rel (exterior p) (exterior p') /\ Forall2 aff_rel (holes p) (holes p').

Lemma existsb_rel {A} (f f' : A -> bool) (l l' : list A) (R : A -> A -> Prop) :
  Forall2 R l l' -> (forall x x', R x x' -> f' x' = f x) -> existsb f' l' = existsb f l.
Proof. intros H Hf. induction H as [|x x' l l' Hx Hl IH]; [reflexivity|]. cbn [existsb]. rewrite (Hf x x' Hx), IH. reflexivity. Qed.

Lemma forallb_rel {A} (f f' : A -> bool) (l l' : list A) (R : A -> A -> Prop) :
  Forall2 R l l' -> (forall x x', R x x' -> f' x' = f x) -> forallb f' l' = forallb f l.
Proof. intros H Hf. induction H as [|x x' l l' Hx Hl IH]; [reflexivity|]. cbn [forallb]. rewrite (Hf x x' Hx), IH. reflexivity. Qed.

Lemma rel_poly_contains_point (p p' : poly) (q : pt) : poly_rel p p' -> poly_contains_point p' (aff q) = poly_contains_point p q.
Proof.
  intros [He Hh]. unfold poly_contains_point. rewrite (rel_rcp_hit _ _ q true He). destruct (negb _); [reflexivity|]. f_equal.
  apply (existsb_rel _ _ _ _ aff_rel Hh). intros h h' Hr. apply (rel_rcp_hit h h' q false Hr).
Qed.

Lemma rel_poly_contains_line (p p' : poly) (l l' : rng) : poly_rel p p' -> aff_rel l l' -> poly_contains_line p' l' = poly_contains_line p l.
Proof.
  intros [He Hh] Hl. unfold poly_contains_line. rewrite (rel_rcr _ _ l l' true He Hl). destruct (negb _); [reflexivity|]. f_equal.
  apply (existsb_rel _ _ _ _ aff_rel Hh). intros h h' Hr. apply (rel_ril h h' l l' false Hr Hl).
Qed.

Lemma rel_poly_intersects_line (p p' : poly) (l l' : rng) : poly_rel p p' -> aff_rel l l' -> poly_intersects_line p' l' = poly_intersects_line p l.
Proof.
  intros [He Hh] Hl. unfold poly_intersects_line. rewrite (rel_ril _ _ l l' true He Hl). destruct (negb _); [reflexivity|]. f_equal.
  apply (existsb_rel _ _ _ _ aff_rel Hh). intros h h' Hr. apply (rel_rcr h h' l l' false Hr Hl).
Qed.

Lemma rel_poly_contains_poly (p p' o o' : poly) : poly_rel p p' -> poly_rel o o' -> poly_contains_poly p' o' = poly_contains_poly p o.
Proof.
  intros [He Hh] [Hoe Hoh]. unfold poly_contains_poly. rewrite (rel_rcr _ _ _ _ true He Hoe). destruct (negb _); [reflexivity|].
  apply (forallb_rel _ _ _ _ aff_rel Hh). intros h h' Hr. rewrite (rel_rir h h' _ _ false Hr Hoe).
  destruct (ring_intersects_ring h (exterior o) false); [|reflexivity].
  apply (existsb_rel _ _ _ _ aff_rel Hoh). intros oh oh' Hor. apply (rel_rcr oh oh' h h' true Hor Hr).
Qed.

Lemma rel_poly_intersects_poly (p p' o o' : poly) : poly_rel p p' -> poly_rel o o' -> poly_intersects_poly p' o' = poly_intersects_poly p o.
Proof.
  intros [He Hh] [Hoe Hoh]. unfold poly_intersects_poly. rewrite (rel_rir _ _ _ _ true Hoe He). destruct (negb _); [reflexivity|].
  rewrite (existsb_rel (fun h => ring_contains_ring h (exterior o) false) (fun h => ring_contains_ring h (exterior o') false) _ _ aff_rel Hh)
    by (intros h h' Hr; apply (rel_rcr h h' _ _ false Hr Hoe)).
  destruct (existsb _ (holes p)); [reflexivity|].
  rewrite (existsb_rel (fun h => ring_contains_ring h (exterior p) false) (fun h => ring_contains_ring h (exterior p') false) _ _ aff_rel Hoh)
    by (intros h h' Hr; apply (rel_rcr h h' _ _ false Hr He)).
  reflexivity.
Qed.

Lemma rect_poly_rel (q : rect) : poly_rel (rect_poly q) (rect_poly (affr q)).
Proof. split; [apply RR_rel|constructor]. Qed.

(* ------------------------------------------------------------------ *)
(* lines                                                                *)

Lemma rel_line_contains_point (l l' : rng) (p : pt) : aff_rel l l' -> line_contains_point_r l' (aff p) = line_contains_point_r l p.
Proof.
  intros H. unfold line_contains_point_r. change (aff p, aff p) with (affr (p, p)). rewrite (rel_search l l' _ H), existsb_map'.
  apply existsb_ext'. intros si. unfold affsi. cbn [fst]. apply raycast_on_aff.
Qed.

Lemma dotp_aff (a b e : pt) : dotp (aff a) (aff b) (aff e) = k * k * dotp a b e.
Proof. destruct a, b, e. unfold dotp, Invariance.aff, px, py. cbn [fst snd]. ring. Qed.

Definition affd (acc : pt * Z) : pt * Z := (aff (fst acc), k * k * snd acc).

Lemma ltb_scale (u v : Z) : (k * k * u <? k * k * v) = (u <? v).
Proof. apply Bool.eq_true_iff_eq. rewrite !Z.ltb_lt. nia. Qed.
Lemma leb_scale (u v : Z) : (k * k * u <=? k * k * v) = (u <=? v).
Proof. apply Bool.eq_true_iff_eq. rewrite !Z.leb_le. nia. Qed.

Lemma rel_covers_step (l l' : rng) (sg : seg) (cur : pt) (curd : Z) : aff_rel l l' ->
  covers_step l' (affs sg) (aff cur) (k * k * curd) = affd (covers_step l sg cur curd).
Proof.
  intros H. destruct sg as [a b]. unfold covers_step. change (affs (a, b)) with (aff a, aff b).
  change (aff cur, aff cur) with (affr (cur, cur)). rewrite (rel_search l l' _ H).
  change (aff cur, k * k * curd) with (affd (cur, curd)).
  generalize (cur, curd) as acc. induction (ring_search l (cur, cur)) as [|si cands IH]; intros acc; [reflexivity|].
  cbn [map fold_left]. rewrite <- IH. f_equal. unfold affsi. cbn [fst snd].
  rewrite !(collinear_point_aff k dx dy kpos), raycast_on_aff.
  destruct (collinear_point (fst si) a && collinear_point (fst si) b && raycast_on (fst si) cur); [|reflexivity].
  rewrite !fst_affs, !snd_affs, !dotp_aff. unfold affd at 1 2 3. cbn [fst snd]. rewrite !ltb_scale.
  destruct (snd acc <? dotp a b (fst (fst si))); cbn [fst snd]; rewrite ?ltb_scale;
    match goal with |- (if ?c then _ else _) = _ => destruct c end; reflexivity.
Qed.

Lemma rel_covers_walk (l l' : rng) (sg : seg) : aff_rel l l' -> forall fuel cur curd,
  covers_walk fuel l' (affs sg) (aff cur) (k * k * curd) = covers_walk fuel l sg cur curd.
Proof.
  intros H. induction fuel as [|f IH]; intros cur curd; [reflexivity|]. cbn [covers_walk].
  rewrite (rel_covers_step l l' sg cur curd H). destruct (covers_step l sg cur curd) as [best bestd]. unfold affd. cbn [fst snd].
  rewrite !fst_affs, !snd_affs, dotp_aff, leb_scale, ltb_scale.
  destruct (dotp (fst sg) (snd sg) (snd sg) <=? bestd); [reflexivity|]. destruct (negb (curd <? bestd)); [reflexivity|]. apply IH.
Qed.

Lemma rel_line_covers (l l' : rng) (sg : seg) : aff_rel l l' -> line_covers_segment l' (affs sg) = line_covers_segment l sg.
Proof.
  intros H. unfold line_covers_segment. rewrite !fst_affs, !snd_affs, (pt_eqb_aff k dx dy kpos).
  destruct (pt_eqb (fst sg) (snd sg)); [rewrite (rel_line_contains_point l l' _ H); reflexivity|].
  pose proof H as (_ & Hs & _). unfold covers_fuel, ring_segments. rewrite Hs, map_length.
  replace 0 with (k * k * 0) at 1 by ring. apply (rel_covers_walk l l' sg H).
Qed.

Lemma rel_line_contains_line (l l' o o' : rng) : aff_rel l l' -> aff_rel o o' -> line_contains_line l' o' = line_contains_line l o.
Proof.
  intros H Ho. pose proof H as (_ & _ & _ & _ & _ & He). pose proof Ho as (_ & Hos & _ & _ & _ & Hoe).
  unfold line_contains_line, ring_empty, ring_segments. rewrite He, Hoe, Hos, map_map.
  destruct (r_empty l || r_empty o); [reflexivity|]. f_equal. apply map_ext. intros sg. apply (rel_line_covers l l' sg H).
Qed.

Lemma rel_line_intersects_line (l l' o o' : rng) : aff_rel l l' -> aff_rel o o' -> line_intersects_line l' o' = line_intersects_line l o.
Proof.
  intros H Ho. pose proof H as (Hp & Hs & Hr & _ & _ & He). pose proof Ho as (Hop & Hos & Hor & _ & _ & Hoe).
  unfold line_intersects_line, ring_empty, ring_rect, ring_npoints, ring_points, ring_segments.
  rewrite He, Hoe, Hr, Hor, rir_aff, Hp, Hop, !map_length.
  destruct (r_empty l || r_empty o); [reflexivity|]. destruct (negb _); [reflexivity|].
  destruct (length (r_pts o) <? length (r_pts l))%nat.
  - rewrite Hos, existsb_map'. apply existsb_ext'. intros sa. rewrite seg_rect_aff, (rel_search l l' _ H), existsb_map'.
    apply existsb_ext'. intros si. unfold affsi. cbn [fst]. apply (intersects_segment_aff k dx dy kpos).
  - rewrite Hs, existsb_map'. apply existsb_ext'. intros sa. rewrite seg_rect_aff, (rel_search o o' _ Ho), existsb_map'.
    apply existsb_ext'. intros si. unfold affsi. cbn [fst]. apply (intersects_segment_aff k dx dy kpos).
Qed.

Lemma diag_rel (mn mx : pt) : aff_rel (diag_line mn mx) (diag_line (aff mn) (aff mx)).
Proof. unfold aff_rel, diag_line. cbn. repeat split; reflexivity. Qed.

Lemma px_eqb_aff (p q : pt) : (px (aff p) =? px (aff q)) = (px p =? px q).
Proof. destruct p, q. unfold Invariance.aff, px. cbn [fst]. apply Bool.eq_true_iff_eq. rewrite !Z.eqb_eq. nia. Qed.
Lemma py_eqb_aff (p q : pt) : (py (aff p) =? py (aff q)) = (py p =? py q).
Proof. destruct p, q. unfold Invariance.aff, py. cbn [snd]. apply Bool.eq_true_iff_eq. rewrite !Z.eqb_eq. nia. Qed.

Lemma rel_line_contains_poly (l l' : rng) (p p' : poly) : aff_rel l l' -> poly_rel p p' -> line_contains_poly l' p' = line_contains_poly l p.
Proof.
  intros H [He Hh]. pose proof H as (_ & _ & _ & _ & _ & Hle). pose proof He as (_ & _ & Her & _ & _ & Hee).
  unfold line_contains_poly, poly_empty, poly_rect, ring_empty, ring_rect. rewrite Hle, Hee, Her.
  destruct (r_empty l || r_empty (exterior p)); [reflexivity|].
  destruct (r_rect (exterior p)) as [mn mx]. unfold affr. cbn [fst snd]. rewrite px_eqb_aff, py_eqb_aff.
  destruct (negb (px mn =? px mx) && negb (py mn =? py mx)); [reflexivity|].
  apply (rel_line_contains_line l l' _ _ H (diag_rel mn mx)).
Qed.

(* ------------------------------------------------------------------ *)
(* the Geometry interface                                               *)

Inductive shape_rel : gshape -> gshape -> Prop :=
| sr_point p : shape_rel (GPoint p) (GPoint (aff p))
| sr_rect r : shape_rel (GRect r) (GRect (affr r))
| sr_line l l' : aff_rel l l' -> shape_rel (GLine l) (GLine l')
| sr_poly p p' : poly_rel p p' -> shape_rel (GPoly p) (GPoly p').

Theorem g_intersects_aff (a a' b b' : gshape) : shape_rel a a' -> shape_rel b b' -> g_intersects a' b' = g_intersects a b.
Proof.
  intros Ha Hb. destruct Ha as [p|r|l l' Hl|p p' Hp]; destruct Hb as [q|s|m m' Hm|o o' Ho]; cbn [g_intersects].
  - apply (pt_eqb_aff k dx dy kpos).
  - unfold point_intersects_rect. apply rcp_aff.
  - unfold point_intersects_line. apply (rel_line_contains_point m m' p Hm).
  - unfold point_intersects_poly. apply (rel_poly_contains_point o o' p Ho).
  - apply rcp_aff.
  - apply rir_aff.
  - unfold rect_intersects_line. apply (rel_ril _ _ m m' true (RR_rel r) Hm).
  - unfold rect_intersects_poly, poly_intersects_rect. apply (rel_poly_intersects_poly o o' _ _ Ho (rect_poly_rel r)).
  - apply (rel_line_contains_point l l' q Hl).
  - unfold line_intersects_rect. apply (rel_ril _ _ l l' true (RR_rel s) Hl).
  - apply (rel_line_intersects_line l l' m m' Hl Hm).
  - unfold line_intersects_poly. apply (rel_poly_intersects_line o o' l l' Ho Hl).
  - apply (rel_poly_contains_point p p' q Hp).
  - unfold poly_intersects_rect. apply (rel_poly_intersects_poly p p' _ _ Hp (rect_poly_rel s)).
  - apply (rel_poly_intersects_line p p' m m' Hp Hm).
  - apply (rel_poly_intersects_poly p p' o o' Hp Ho).
Qed.

Lemma point_rect_aff (p : pt) : point_rect (aff p) = affr (point_rect p).
Proof. reflexivity. Qed.

Theorem g_contains_aff (a a' b b' : gshape) : shape_rel a a' -> shape_rel b b' -> g_contains a' b' = g_contains a b.
Proof.
  intros Ha Hb. destruct Ha as [p|r|l l' Hl|p p' Hp]; destruct Hb as [q|s|m m' Hm|o o' Ho]; cbn [g_contains]; unfold ob.
  - f_equal. apply (pt_eqb_aff k dx dy kpos).
  - f_equal. unfold point_contains_rect. rewrite point_rect_aff. apply rect_eqb_aff.
  - f_equal. unfold point_contains_line, ring_empty, ring_rect. destruct Hm as (_ & _ & Hr & _ & _ & He). rewrite He, Hr, point_rect_aff, rect_eqb_aff. reflexivity.
  - f_equal. unfold point_contains_poly, poly_empty, poly_rect, ring_empty, ring_rect. destruct Ho as [(_ & _ & Hr & _ & _ & He) _].
    rewrite He, Hr, point_rect_aff, rect_eqb_aff. reflexivity.
  - f_equal. apply rcp_aff.
  - f_equal. apply rcr_aff.
  - f_equal. unfold rect_contains_line, ring_empty, ring_rect. destruct Hm as (_ & _ & Hr & _ & _ & He). rewrite He, Hr, rcr_aff. reflexivity.
  - f_equal. unfold rect_contains_poly, poly_empty, poly_rect, ring_empty, ring_rect. destruct Ho as [(_ & _ & Hr & _ & _ & He) _].
    rewrite He, Hr, rcr_aff. reflexivity.
  - f_equal. apply (rel_line_contains_point l l' q Hl).
  - unfold line_contains_rect. apply (rel_line_contains_poly l l' _ _ Hl (rect_poly_rel s)).
  - apply (rel_line_contains_line l l' m m' Hl Hm).
  - apply (rel_line_contains_poly l l' o o' Hl Ho).
  - f_equal. apply (rel_poly_contains_point p p' q Hp).
  - f_equal. unfold poly_contains_rect. apply (rel_poly_contains_poly p p' _ _ Hp (rect_poly_rel s)).
  - f_equal. apply (rel_poly_contains_line p p' m m' Hp Hm).
  - f_equal. apply (rel_poly_contains_poly p p' o o' Hp Ho).
Qed.

(* ------------------------------------------------------------------ *)
(* rings built from point lists: processPoints commutes with the map    *)

Definition aff3 (t : pt * pt * pt) : pt * pt * pt := (aff (fst (fst t)), aff (snd (fst t)), aff (snd t)).

Lemma nthp_aff (ps : list pt) (i : nat) : (i < length ps)%nat -> nthp (map aff ps) i = aff (nthp ps i).
Proof. intros H. unfold nthp. apply (nth_map_in aff ps i pt0 pt0 H). Qed.

Lemma min_list_aff (c : Z) (l : list Z) : forall d, min_list (k * d + c) (map (fun v => k * v + c) l) = k * min_list d l + c.
Proof.
  unfold min_list. induction l as [|a l IH]; intros d; [reflexivity|]. cbn [map fold_left]. rewrite <- IH. f_equal.
  destruct (Z.min_spec d a) as [[? ->]|[? ->]]; [rewrite Z.min_l|rewrite Z.min_r]; nia.
Qed.
Lemma max_list_aff (c : Z) (l : list Z) : forall d, max_list (k * d + c) (map (fun v => k * v + c) l) = k * max_list d l + c.
Proof.
  unfold max_list. induction l as [|a l IH]; intros d; [reflexivity|]. cbn [map fold_left]. rewrite <- IH. f_equal.
  destruct (Z.max_spec d a) as [[? ->]|[? ->]]; [rewrite Z.max_r|rewrite Z.max_l]; nia.
Qed.

Lemma points_rect_aff (ps : list pt) : ps <> [] -> points_rect (map aff ps) = affr (points_rect ps).
Proof.
  intros Hne. rewrite !points_rect_tight. destruct ps as [|p r]; [congruence|]. cbn [map bbox_spec]. rewrite !map_map.
  rewrite (map_ext (fun x => px (aff x)) (fun x => k * px x + dx)) by reflexivity.
  rewrite (map_ext (fun x => py (aff x)) (fun x => k * py x + dy)) by reflexivity.
  rewrite <- (map_map px (fun v => k * v + dx)), <- (map_map py (fun v => k * v + dy)).
  change (px (aff p)) with (k * px p + dx). change (py (aff p)) with (k * py p + dy).
  rewrite !min_list_aff, !max_list_aff. reflexivity.
Qed.

Lemma turn_count_aff (cl : bool) (ps : list pt) : (2 <= length ps)%nat -> turn_count cl (map aff ps) = turn_count cl ps.
Proof.
  intros H. unfold turn_count. rewrite map_length, !nthp_aff by lia. rewrite (pt_eqb_aff k dx dy kpos). reflexivity.
Qed.

Lemma tri_at_aff (ps : list pt) (m i : nat) : (2 <= m <= length ps)%nat -> (i < m)%nat ->
  tri_at (map aff ps) m i = aff3 (tri_at ps m i).
Proof.
  intros Hm Hi. unfold tri_at. destruct (i =? m - 1)%nat eqn:E1; [|destruct (i =? m - 2)%nat eqn:E2].
  - rewrite !nthp_aff by lia. reflexivity.
  - apply Nat.eqb_eq in E2. rewrite !nthp_aff by lia. reflexivity.
  - apply Nat.eqb_neq in E1, E2. rewrite !nthp_aff by lia. reflexivity.
Qed.

Lemma zcross_aff3 (t : pt * pt * pt) : zcross (aff3 t) = k * k * zcross t.
Proof. destruct t as [[[ax ay] [bx by_]] [cx cy]]. unfold zcross, aff3, Invariance.aff, px, py. cbn [fst snd]. ring. Qed.

Lemma turn_step_scale (st : bool * Z) (z : Z) : turn_step st (k * k * z) = turn_step st z.
Proof.
  destruct st as [cc dir]. unfold turn_step.
  assert (N : (k * k * z <? 0) = (z <? 0)) by (apply Bool.eq_true_iff_eq; rewrite !Z.ltb_lt; nia).
  assert (P : (0 <? k * k * z) = (0 <? z)) by (apply Bool.eq_true_iff_eq; rewrite !Z.ltb_lt; nia).
  rewrite N, P. reflexivity.
Qed.

Lemma fold_turn_scale (l : list Z) : forall st, fold_left turn_step (map (fun z => k * k * z) l) st = fold_left turn_step l st.
Proof. induction l as [|z l IH]; intros st; [reflexivity|]. cbn [map fold_left]. rewrite turn_step_scale. apply IH. Qed.

(* the edges (a_i, b_i) of the turn pass are the cyclic consecutive pairs of the first m points *)
Lemma tri_at_ab (ps : list pt) (m i : nat) : (2 <= m)%nat -> (i < m)%nat ->
  fst (fst (tri_at ps m i)) = nthp ps i /\ snd (fst (tri_at ps m i)) = nthp ps ((i + 1) mod m).
Proof.
  intros Hm Hi. unfold tri_at. destruct (i =? m - 1)%nat eqn:E1; [|destruct (i =? m - 2)%nat eqn:E2]; cbn [fst snd]; split; try reflexivity.
  - apply Nat.eqb_eq in E1. replace (i + 1)%nat with m by lia. rewrite Nat.mod_same by lia. reflexivity.
  - rewrite Nat.mod_small by (apply Nat.eqb_eq in E2; lia). reflexivity.
  - apply Nat.eqb_neq in E1. rewrite Nat.mod_small by lia. reflexivity.
Qed.

Lemma cw_term_aff3 (t : pt * pt * pt) :
  cw_term (aff3 t) = k * k * cw_term t + 2 * k * dy * (px (snd (fst t)) - px (fst (fst t))).
Proof. destruct t as [[[ax ay] [bx by_]] [cx cy]]. unfold cw_term, aff3, Invariance.aff, px, py. cbn [fst snd]. ring. Qed.

Lemma zsum_scale (c : Z) (l : list Z) : zsum (map (fun z => c * z) l) = c * zsum l.
Proof. induction l as [|z l IH]; cbn [map zsum]; [ring|]. rewrite IH. ring. Qed.

Lemma zsum_map_add {A} (f g : A -> Z) (l : list A) : zsum (map (fun i => f i + g i) l) = zsum (map f l) + zsum (map g l).
Proof. induction l as [|x l IH]; cbn [map zsum]; [reflexivity|]. rewrite IH. ring. Qed.

Lemma cyclic_diff_zero (g : nat -> Z) (m : nat) : m <> 0%nat ->
  zsum (map (fun i => g ((i + 1) mod m)%nat - g i) (seq 0 m)) = 0.
Proof.
  intros Hm. rewrite (zsum_map_sub (fun i => g ((i + 1) mod m)%nat) g). rewrite (zsum_rot g m 1 Hm). ring.
Qed.

Lemma process_points_aff (ps : list pt) (cl : bool) : series_empty {| closed := cl; pts := ps |} = false ->
  process_points (map aff ps) cl =
  (fst (fst (process_points ps cl)), affr (snd (fst (process_points ps cl))), snd (process_points ps cl)).
Proof.
  unfold series_empty, npoints. cbn [closed pts]. intros He. unfold process_points. rewrite map_length, He. cbv zeta.
  apply orb_false_iff in He. destruct He as [He1 He2]. apply Nat.ltb_ge in He2.
  assert (Hn2 : (2 <= length ps)%nat) by exact He2.
  rewrite (turn_count_aff cl ps Hn2).
  set (m := turn_count cl ps).
  assert (Hm : (2 <= m <= length ps)%nat).
  { unfold m, turn_count. destruct cl; cbn [andb] in *.
    - apply Nat.ltb_ge in He1. destruct (pt_eqb _ _); lia.
    - lia. }
  assert (Htris : map (tri_at (map aff ps) m) (seq 0 m) = map aff3 (map (tri_at ps m) (seq 0 m))).
  { rewrite map_map. apply map_ext_in. intros i Hi. apply in_seq in Hi. apply tri_at_aff; lia. }
  rewrite Htris. cbn [fst snd]. f_equal; [f_equal|].
  - (* convex *)
    rewrite !map_map. rewrite (map_ext (fun x => zcross (aff3 (tri_at ps m x))) (fun x => k * k * zcross (tri_at ps m x))) by (intros; apply zcross_aff3).
    rewrite <- (map_map (fun x => zcross (tri_at ps m x)) (fun z => k * k * z)), fold_turn_scale. reflexivity.
  - apply points_rect_aff. destruct ps; [cbn in Hn2; lia|discriminate].
  - (* clockwise *)
    rewrite !fold_acc_zsum, !map_map. rewrite !Z.add_0_l.
    rewrite (map_ext (fun x => cw_term (aff3 (tri_at ps m x)))
                     (fun x => k * k * cw_term (tri_at ps m x) + 2 * k * dy * (px (snd (fst (tri_at ps m x))) - px (fst (fst (tri_at ps m x))))))
      by (intros; apply cw_term_aff3).
    rewrite (zsum_map_add (fun x => k * k * cw_term (tri_at ps m x))).
    rewrite <- (map_map (fun x => cw_term (tri_at ps m x)) (fun z => k * k * z)), zsum_scale.
    assert (Z0 : zsum (map (fun x => 2 * k * dy * (px (snd (fst (tri_at ps m x))) - px (fst (fst (tri_at ps m x))))) (seq 0 m)) = 0).
    { rewrite <- (map_map (fun x => px (snd (fst (tri_at ps m x))) - px (fst (fst (tri_at ps m x)))) (fun z => 2 * k * dy * z)), zsum_scale.
      rewrite (map_ext_in _ (fun i => px (nthp ps ((i + 1) mod m)) - px (nthp ps i))).
      - rewrite (cyclic_diff_zero (fun i => px (nthp ps i)) m) by lia. ring.
      - intros i Hi. apply in_seq in Hi. destruct (tri_at_ab ps m i) as [A B]; try lia. rewrite A, B. reflexivity. }
    rewrite Z0, Z.add_0_r. apply Bool.eq_true_iff_eq. rewrite !Z.ltb_lt. nia.
Qed.

Definition series_aff (s : series) : series := {| closed := closed s; pts := map aff (pts s) |}.

Lemma segments_spec_aff (s : series) : segments_spec (series_aff s) = map affs (segments_spec s).
Proof.
  destruct s as [cl ps]. unfold series_aff. cbn [closed pts]. destruct cl.
  - apply (ring_edges_aff k dx dy kpos ps).
  - unfold segments_spec. cbn [closed pts]. apply (path_segs_aff k dx dy).
Qed.

Theorem RS_rel (s : series) : series_empty s = false -> aff_rel (RS s) (RS (series_aff s)).
Proof.
  intros He. destruct s as [cl ps]. unfold aff_rel, RS, series_aff. cbn [closed pts] in *.
  rewrite (process_points_aff ps cl He). destruct (process_points ps cl) as [[cv rc] cw]. cbn [fst snd r_pts r_segs r_rect r_convex r_cw r_empty].
  repeat split.
  - apply (segments_spec_aff {| closed := cl; pts := ps |}).
  - unfold series_empty, npoints. cbn [closed pts]. rewrite map_length. reflexivity.
Qed.

(* ------------------------------------------------------------------ *)
(* geometries built from coordinates (what the harness and Parse build) *)

Definition shape_aff (s : shape) : shape :=
  match s with
  | SPoint p => SPoint (aff p)
  | SRect r => SRect (affr r)
  | SLine ps => SLine (map aff ps)
  | SPoly e hs => SPoly (map aff e) (map (map aff) hs)
  end.

(* not empty: a line has two points, every ring three (valid geometries are) *)
Definition shape_ok (s : shape) : Prop :=
  match s with
  | SLine ps => (2 <= length ps)%nat
  | SPoly e hs => (3 <= length e)%nat /\ Forall (fun h => (3 <= length h)%nat) hs
  | _ => True
  end.

Lemma ring_nonempty (ps : list pt) : (3 <= length ps)%nat -> series_empty {| closed := true; pts := ps |} = false.
Proof. intros H. unfold series_empty, npoints. cbn [closed pts andb]. apply orb_false_iff. split; apply Nat.ltb_ge; lia. Qed.

Lemma built_rel (s : shape) : shape_ok s -> shape_rel (g_of_shape s) (g_of_shape (shape_aff s)).
Proof.
  destruct s as [p|r|ps|e hs]; cbn [shape_ok g_of_shape shape_aff]; intros H.
  - constructor.
  - constructor.
  - constructor. apply (RS_rel (mk_line ps)). unfold series_empty, mk_line, npoints. cbn [closed pts andb orb]. apply Nat.ltb_ge. exact H.
  - destruct H as [He Hh]. constructor. unfold mk_poly, poly_rel. cbn [exterior holes]. split.
    + apply (RS_rel {| closed := true; pts := e |}). apply ring_nonempty. exact He.
    + rewrite map_map. induction Hh as [|h hs Hh0 Hhs IH]; cbn [map]; constructor; [|exact IH].
      apply (RS_rel {| closed := true; pts := h |}). apply ring_nonempty. exact Hh0.
Qed.

(* MAIN *)
Theorem pair_predicates_affine (a b : shape) : shape_ok a -> shape_ok b ->
  g_intersects (g_of_shape (shape_aff a)) (g_of_shape (shape_aff b)) = g_intersects (g_of_shape a) (g_of_shape b) /\
  g_contains (g_of_shape (shape_aff a)) (g_of_shape (shape_aff b)) = g_contains (g_of_shape a) (g_of_shape b).
Proof.
  intros Ha Hb. split; [apply g_intersects_aff|apply g_contains_aff]; apply built_rel; assumption.
Qed.

End Affine.

Print Assumptions pair_predicates_affine.
Print Assumptions RS_rel.
Print Assumptions g_intersects_aff.
Print Assumptions g_contains_aff.
