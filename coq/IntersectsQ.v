(* IntersectsQ.v — C19 (stretch): the orientation characterisation [seg_meet]
   of KernelSpec.v says exactly that the two closed segments have a common
   point, the points of a segment being taken over the rationals. *)
From Coq Require Import QArith.
From GJ Require Import Base Kernel KernelSpec RaycastProofs KernelProofs IntersectsProofs.

Local Open Scope Z_scope.

(* q is a point a + t (b - a), 0 <= t <= 1, of the closed segment s = (a, b) *)
Definition on_segQ (s : seg) (q : Q * Q) : Prop :=
  exists t : Q,
    (0 <= t <= 1 /\
     fst q == inject_Z (px (fst s)) + t * inject_Z (px (snd s) - px (fst s)) /\
     snd q == inject_Z (py (fst s)) + t * inject_Z (py (snd s) - py (fst s)))%Q.

(* ---------------------------------------------------------------- *)
(* integer side                                                       *)
(* ---------------------------------------------------------------- *)

Lemma collinear_in_x a b c :
  cross a b c = 0 -> px a <> px b ->
  Z.min (px a) (px b) <= px c <= Z.max (px a) (px b) -> on_seg (a, b) c.
Proof.
  unfold on_seg. intros E N H. split; [exact E|]. split; [exact H|].
  unfold cross in E.
  destruct (Z.lt_trichotomy (py a) (py b)) as [?|[?|?]];
    destruct (Z.lt_trichotomy (px a) (px b)) as [?|[?|?]]; try lia; split; nia.
Qed.

Lemma collinear_in_y a b c :
  cross a b c = 0 -> py a <> py b ->
  Z.min (py a) (py b) <= py c <= Z.max (py a) (py b) -> on_seg (a, b) c.
Proof.
  unfold on_seg. intros E N H. split; [exact E|]. split; [|exact H].
  unfold cross in E.
  destruct (Z.lt_trichotomy (py a) (py b)) as [?|[?|?]];
    destruct (Z.lt_trichotomy (px a) (px b)) as [?|[?|?]]; try lia; split; nia.
Qed.

(* two intervals of a line with a common (rational) point: an end of one lies
   in the other *)
Lemma interval_1d T m n a b c d :
  0 < T -> 0 <= m <= T -> 0 <= n <= T ->
  T * (c - a) = m * (b - a) - n * (d - c) ->
  Z.min a b <= c <= Z.max a b \/ Z.min a b <= d <= Z.max a b \/
  Z.min c d <= a <= Z.max c d \/ Z.min c d <= b <= Z.max c d.
Proof.
  intros HT Hm Hn E.
  assert (H1 : T * Z.min a b <= T * a + m * (b - a) <= T * Z.max a b).
  { destruct (Z.lt_trichotomy a b) as [?|[?|?]]; split; nia. }
  assert (H2 : T * Z.min c d <= T * c + n * (d - c) <= T * Z.max c d).
  { destruct (Z.lt_trichotomy c d) as [?|[?|?]]; split; nia. }
  assert (H3 : T * a + m * (b - a) = T * c + n * (d - c)) by lia.
  assert (HH : (Z.min a b <= c <= Z.max a b \/ Z.min a b <= d <= Z.max a b \/
                Z.min c d <= a <= Z.max c d \/ Z.min c d <= b <= Z.max c d) \/
               Z.max a b < Z.min c d \/ Z.max c d < Z.min a b) by lia.
  destruct HH as [HH|[HH|HH]]; [exact HH| exfalso; nia | exfalso; nia].
Qed.

(* a common point a + (m/T) r = c + (n/T) s with m/T, n/T in [0,1] *)
Lemma common_point_Z a b c d T m n :
  0 < T -> 0 <= m <= T -> 0 <= n <= T ->
  T * (px c - px a) = m * (px b - px a) - n * (px d - px c) ->
  T * (py c - py a) = m * (py b - py a) - n * (py d - py c) ->
  seg_meet (a, b) (c, d).
Proof.
  intros HT Hm Hn Ex Ey.
  pose proof (id_B a b c d) as HB. pose proof (id_D a b c d) as HD.
  assert (HTA : T * cross a b c = - n * rxs a b c d).
  { unfold cross, rxs.
    replace (T * ((px b - px a) * (py c - py a) - (py b - py a) * (px c - px a)))
      with ((px b - px a) * (T * (py c - py a)) - (py b - py a) * (T * (px c - px a)))
      by ring.
    rewrite Ex, Ey. ring. }
  assert (HTC : T * cross c d a = m * rxs a b c d).
  { unfold cross, rxs.
    replace (T * ((px d - px c) * (py a - py c) - (py d - py c) * (px a - px c)))
      with ((py d - py c) * (T * (px c - px a)) - (px d - px c) * (T * (py c - py a)))
      by ring.
    rewrite Ex, Ey. ring. }
  destruct (Z.eq_dec (rxs a b c d) 0) as [HR|HR].
  - (* all four points on one line (or a degenerate segment) *)
    rewrite HR in *.
    assert (HA : cross a b c = 0) by nia.
    assert (HC : cross c d a = 0) by nia.
    assert (HB' : cross a b d = 0) by lia.
    assert (HD' : cross c d b = 0) by lia.
    clear HB HD HTA HTC.
    rewrite seg_meet_unfold.
    unfold rxs in HR.
    destruct (Z.eq_dec (px a) (px b)) as [Erx|Nrx].
    + destruct (Z.eq_dec (py a) (py b)) as [Ery|Nry].
      * (* a = b *)
        right; right; left. unfold on_seg. split; [exact HC|].
        assert (Ex' : T * (px a - px c) = n * (px d - px c)) by nia.
        assert (Ey' : T * (py a - py c) = n * (py d - py c)) by nia.
        pose proof (frac_between n T _ _ Ex').
        pose proof (frac_between n T _ _ Ey'). lia.
      * destruct (Z.eq_dec (py c) (py d)) as [Esy|Nsy].
        { (* c = d *)
          assert (Esx : px c = px d) by nia.
          left. unfold on_seg. split; [exact HA|].
          assert (Ex' : T * (px c - px a) = m * (px b - px a)) by nia.
          assert (Ey' : T * (py c - py a) = m * (py b - py a)) by nia.
          pose proof (frac_between m T _ _ Ex').
          pose proof (frac_between m T _ _ Ey'). lia. }
        destruct (interval_1d T m n (py a) (py b) (py c) (py d) HT Hm Hn Ey)
          as [H|[H|[H|H]]].
        -- left. apply collinear_in_y; assumption.
        -- right; left. apply collinear_in_y; assumption.
        -- right; right; left. apply collinear_in_y; assumption.
        -- right; right; right; left. apply collinear_in_y; assumption.
    + destruct (Z.eq_dec (px c) (px d)) as [Esx|Nsx].
      { (* c = d *)
        assert (Esy : py c = py d) by nia.
        left. unfold on_seg. split; [exact HA|].
        assert (Ex' : T * (px c - px a) = m * (px b - px a)) by nia.
        assert (Ey' : T * (py c - py a) = m * (py b - py a)) by nia.
        pose proof (frac_between m T _ _ Ex').
        pose proof (frac_between m T _ _ Ey'). lia. }
      destruct (interval_1d T m n (px a) (px b) (px c) (px d) HT Hm Hn Ex)
        as [H|[H|[H|H]]].
      * left. apply collinear_in_x; assumption.
      * right; left. apply collinear_in_x; assumption.
      * right; right; left. apply collinear_in_x; assumption.
      * right; right; right; left. apply collinear_in_x; assumption.
  - destruct (Z.eq_dec (cross a b c) 0) as [HA|HA].
    + (* c is the common point *)
      assert (En : n = 0) by nia. subst n.
      rewrite seg_meet_unfold. left. unfold on_seg. split; [exact HA|].
      assert (Ex' : T * (px c - px a) = m * (px b - px a)) by lia.
      assert (Ey' : T * (py c - py a) = m * (py b - py a)) by lia.
      pose proof (frac_between m T _ _ Ex').
      pose proof (frac_between m T _ _ Ey'). lia.
    + apply (transversal_meet a b c d HA HR). unfold unit_fracP.
      set (A := cross a b c) in *. set (C := cross c d a) in *.
      set (R := rxs a b c d) in *.
      destruct (Z.lt_trichotomy 0 R) as [?|[?|?]]; [|lia|].
      * split; left; repeat split; nia.
      * split; right; repeat split; nia.
Qed.

(* an integer "rational parameter" for a point of the segment *)
Lemma on_seg_param a b p :
  on_seg (a, b) p ->
  exists n d, 0 < d /\ 0 <= n <= d /\
    d * (px p - px a) = n * (px b - px a) /\
    d * (py p - py a) = n * (py b - py a).
Proof.
  unfold on_seg, cross. intros (E & Hx & Hy).
  destruct (Z.lt_trichotomy (px a) (px b)) as [H|[H|H]].
  - exists (px p - px a), (px b - px a). repeat split; lia.
  - destruct (Z.lt_trichotomy (py a) (py b)) as [H'|[H'|H']].
    + exists (py p - py a), (py b - py a). repeat split; try lia; nia.
    + exists 0, 1. repeat split; lia.
    + exists (py a - py p), (py a - py b). repeat split; try lia; nia.
  - exists (px a - px p), (px a - px b). repeat split; lia.
Qed.

(* ---------------------------------------------------------------- *)
(* rational side                                                      *)
(* ---------------------------------------------------------------- *)

(* the rational n/d, for d > 0 *)
Definition zq (n d : Z) : Q := n # Z.to_pos d.

Lemma zq_bounds n d : 0 < d -> 0 <= n <= d -> (0 <= zq n d <= 1)%Q.
Proof.
  intros Hd Hn. unfold zq, Qle. simpl. rewrite Z2Pos.id by lia. lia.
Qed.

Lemma zq_comb_eq d n m a r c s :
  0 < d -> d * a + n * r = d * c + m * s ->
  (inject_Z a + zq n d * inject_Z r == inject_Z c + zq m d * inject_Z s)%Q.
Proof.
  intros Hd E. unfold zq, Qeq, Qplus, Qmult, inject_Z. simpl.
  rewrite !Pos.mul_1_r. rewrite !Z2Pos.id by lia.
  replace (a * d + n * r * 1) with (d * a + n * r) by ring.
  replace (c * d + m * s * 1) with (d * c + m * s) by ring.
  rewrite E. reflexivity.
Qed.

Lemma zq_eq d n a r k :
  0 < d -> d * k = n * r ->
  (inject_Z (a + k) == inject_Z a + zq n d * inject_Z r)%Q.
Proof.
  intros Hd E. unfold zq, Qeq, Qplus, Qmult, inject_Z. simpl.
  rewrite !Pos.mul_1_r. rewrite !Z2Pos.id by lia.
  nia.
Qed.

(* an integer point of the segment is a rational point of it *)
Lemma on_seg_on_segQ a b p :
  on_seg (a, b) p -> on_segQ (a, b) (inject_Z (px p), inject_Z (py p)).
Proof.
  intros H. destruct (on_seg_param a b p H) as (n & d & Hd & Hn & Ex & Ey).
  exists (zq n d). split; [apply zq_bounds; assumption|]. cbn [fst snd].
  split.
  - replace (px p) with (px a + (px p - px a)) at 1 by ring.
    apply zq_eq; assumption.
  - replace (py p) with (py a + (py p - py a)) at 1 by ring.
    apply zq_eq; assumption.
Qed.

Lemma on_segQ_left a b : on_segQ (a, b) (inject_Z (px a), inject_Z (py a)).
Proof. apply on_seg_on_segQ, on_seg_left. Qed.

Lemma on_segQ_right a b : on_segQ (a, b) (inject_Z (px b), inject_Z (py b)).
Proof. apply on_seg_on_segQ, on_seg_right. Qed.

(* seg_meet ==> common rational point *)
Lemma seg_meet_common_point a b c d :
  seg_meet (a, b) (c, d) -> exists q, on_segQ (a, b) q /\ on_segQ (c, d) q.
Proof.
  rewrite seg_meet_unfold. intros [H|[H|[H|[H|[H1 H2]]]]].
  - exists (inject_Z (px c), inject_Z (py c)).
    split; [apply on_seg_on_segQ; exact H | apply on_segQ_left].
  - exists (inject_Z (px d), inject_Z (py d)).
    split; [apply on_seg_on_segQ; exact H | apply on_segQ_right].
  - exists (inject_Z (px a), inject_Z (py a)).
    split; [apply on_segQ_left | apply on_seg_on_segQ; exact H].
  - exists (inject_Z (px b), inject_Z (py b)).
    split; [apply on_segQ_right | apply on_seg_on_segQ; exact H].
  - (* proper crossing: Cramer's point a + (C/R) r = c + (-A/R) s *)
    unfold opp in *.
    pose proof (id_B a b c d) as HB. pose proof (id_D a b c d) as HD.
    pose proof (id_ax a b c d) as Hax. pose proof (id_ay a b c d) as Hay.
    set (A := cross a b c) in *. set (B := cross a b d) in *.
    set (C := cross c d a) in *. set (D := cross c d b) in *.
    set (R := rxs a b c d) in *.
    destruct (Z.lt_trichotomy 0 R) as [HR|[HR|HR]]; [|lia|].
    + exists ((inject_Z (px a) + zq C R * inject_Z (px b - px a))%Q,
              (inject_Z (py a) + zq C R * inject_Z (py b - py a))%Q).
      split.
      * exists (zq C R). split; [apply zq_bounds; lia|]. cbn [fst snd].
        split; reflexivity.
      * exists (zq (-A) R). split; [apply zq_bounds; lia|]. cbn [fst snd].
        split; apply zq_comb_eq; lia.
    + exists ((inject_Z (px a) + zq (-C) (-R) * inject_Z (px b - px a))%Q,
              (inject_Z (py a) + zq (-C) (-R) * inject_Z (py b - py a))%Q).
      split.
      * exists (zq (-C) (-R)). split; [apply zq_bounds; lia|]. cbn [fst snd].
        split; reflexivity.
      * exists (zq A (-R)). split; [apply zq_bounds; lia|]. cbn [fst snd].
        split; apply zq_comb_eq; lia.
Qed.

(* common rational point ==> seg_meet *)
Lemma common_point_seg_meet a b c d q :
  on_segQ (a, b) q -> on_segQ (c, d) q -> seg_meet (a, b) (c, d).
Proof.
  intros (t & Ht & Etx & Ety) (u & Hu & Eux & Euy). cbn [fst snd] in *.
  rewrite Etx in Eux. rewrite Ety in Euy. clear Etx Ety.
  destruct t as [tn td], u as [un ud].
  unfold Qle in Ht, Hu. simpl in Ht, Hu.
  unfold Qeq, Qplus, Qmult, inject_Z in Eux, Euy. simpl in Eux, Euy.
  rewrite ?Pos.mul_1_r, ?Pos2Z.inj_mul in Eux, Euy.
  assert (Htd : 0 < Z.pos td) by lia. assert (Hud : 0 < Z.pos ud) by lia.
  set (Td := Z.pos td) in *. set (Ud := Z.pos ud) in *.
  apply (common_point_Z a b c d (Td * Ud) (tn * Ud) (un * Td)).
  - nia.
  - split; nia.
  - split; nia.
  - lia.
  - lia.
Qed.

(* ---------------------------------------------------------------- *)
(* 7. seg_meet = the two closed segments share a (rational) point     *)
(* ---------------------------------------------------------------- *)

Theorem seg_meet_iff_common_point s o :
  seg_meet s o <-> exists q, on_segQ s q /\ on_segQ o q.
Proof.
  destruct s as [a b], o as [c d]. split.
  - apply seg_meet_common_point.
  - intros (q & H1 & H2). exact (common_point_seg_meet a b c d q H1 H2).
Qed.

(* hence: the repaired IntersectsSegment decides "the segments share a point" *)
Corollary intersects_segment_iff_common_point s o :
  intersects_segment s o = true <-> exists q, on_segQ s q /\ on_segQ o q.
Proof. rewrite intersects_segment_iff. apply seg_meet_iff_common_point. Qed.

Print Assumptions seg_meet_iff_common_point.
Print Assumptions intersects_segment_iff_common_point.
