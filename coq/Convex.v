(* Convex.v — property C03, convex rings: for a ring all of whose vertices lie weakly on one side of
   every edge line (sigma = 1: counter-clockwise, interior on the left; sigma = -1: clockwise) and
   without zero-length edges, a point that is strictly inside (odd crossing parity, off the
   boundary) is strictly on the inner side of every edge; hence a segment with both ends strictly
   inside has every rational point strictly inside — the convex shortcut of ringContainsSegment
   (decision site 5) is exact for strict containment on such rings. *)
From Coq Require Import ZArith Bool List Lia.
From GJ Require Import Base Kernel KernelSpec Series SeriesSpec Ring RingSpec
  RaycastProofs KernelProofs IntersectsProofs IntersectsQ SeriesProofs PipProofs PairProofs Invariance
  Jordan JordanQ MirrorY.
Import ListNotations.
Open Scope Z_scope.

Definition hpc (sigma : Z) (ps : list pt) : Prop :=
  forall a b c d, In (a, b) (ring_edges ps) -> In (c, d) (ring_edges ps) ->
    0 <= sigma * cross a b c /\ 0 <= sigma * cross a b d.

Definition no_zero_edges (ps : list pt) : Prop := forall a b, In (a, b) (ring_edges ps) -> a <> b.

(* the affine identity of cross along a parametrised point *)
Lemma cross_param (a b P V W : pt) (n d : Z) :
  d * (px W - px P) = n * (px V - px P) -> d * (py W - py P) = n * (py V - py P) ->
  d * cross a b W = (d - n) * cross a b P + n * cross a b V.
Proof.
  intros Ex Ey.
  replace (d * cross a b W) with
    ((px b - px a) * (d * (py W - py P)) - (py b - py a) * (d * (px W - px P)) + d * cross a b P)
    by (unfold cross; ring).
  rewrite Ex, Ey. unfold cross. ring.
Qed.

(* a far point on the outer side: distance bound *)
Definition spread (ps : list pt) (p : pt) : Z :=
  fold_right (fun q acc => acc + Z.abs (px q - px p) + Z.abs (py q - py p)) 1 ps.

Lemma spread_spec ps p : 0 < spread ps p /\
  forall q, In q ps -> Z.abs (px q - px p) < spread ps p /\ Z.abs (py q - py p) < spread ps p.
Proof.
  unfold spread. induction ps as [|x l IH]; cbn [fold_right].
  - split; [lia|intros q []].
  - destruct IH as [I1 I2]. split; [lia|]. intros q [<-|Hq]; [lia|]. destruct (I2 q Hq). lia.
Qed.

Lemma beyond_x_outside (ps : list pt) (X : pt) :
  ((forall q, In q ps -> px X < px q) \/ (forall q, In q ps -> px q < px X)) ->
  on_boundaryb (ring_edges ps) X = false /\ parityb (ring_edges ps) X = false.
Proof.
  intros H. split.
  - unfold on_boundaryb. apply existsb_false_iff. intros [a b] Hin.
    destruct (ring_edges_endpoints ps a b Hin) as [Ha Hb].
    destruct (on_segb (a, b) X) eqn:E; [exfalso|reflexivity]. apply on_segb_iff in E. destruct E as (_ & Hx & _).
    destruct H as [H|H]; pose proof (H a Ha); pose proof (H b Hb); lia.
  - rewrite parityb_xfold. destruct H as [H|H].
    + (* left of everything: crossed iff spanning; the ring closes *)
      rewrite (xfold_ext _ (fun s : seg => xorb (above X (fst s)) (above X (snd s)))); [apply ring_edges_telescope|].
      intros [a b] Hin. destruct (ring_edges_endpoints ps a b Hin) as [Ha Hb]. cbn [fst snd].
      apply left_cross_iff_spans; [apply (H a Ha)|apply (H b Hb)].
    + apply xfold_all_false. intros [a b] Hin. destruct (ring_edges_endpoints ps a b Hin) as [Ha Hb].
      apply right_no_cross; [apply (H a Ha)|apply (H b Hb)].
Qed.

Lemma far_point_outside (ps : list pt) (p : pt) (nx ny : Z) : (nx <> 0 \/ ny <> 0) ->
  let H := (px p + spread ps p * nx, py p + spread ps p * ny) in
  on_boundaryb (ring_edges ps) H = false /\ parityb (ring_edges ps) H = false.
Proof.
  intros Hn H. destruct (spread_spec ps p) as [Sp Sq]. set (t := spread ps p) in *.
  destruct (Z.eq_dec ny 0) as [Ey|Ny].
  - assert (Nx : nx <> 0) by tauto. apply beyond_x_outside.
    destruct (Z.lt_trichotomy nx 0) as [L|[L|L]]; [left|lia|right]; intros q Hq; destruct (Sq q Hq) as [Qx _];
      unfold H, px; cbn [fst]; unfold px in Qx;
      [assert (t * nx <= - t) by nia|assert (t <= t * nx) by nia]; lia.
  - apply beyond_y_outside.
    destruct (Z.lt_trichotomy ny 0) as [L|[L|L]]; [left|lia|right]; intros q Hq; destruct (Sq q Hq) as [_ Qy];
      unfold H, py; cbn [snd]; unfold py in Qy;
      [assert (t * ny <= - t) by nia|assert (t <= t * ny) by nia]; lia.
Qed.

(* on the outer side of an edge line (or on it), off the boundary: outside *)
Lemma outer_side_outside (sigma : Z) (ps : list pt) (a b p : pt) :
  (sigma = 1 \/ sigma = -1) -> hpc sigma ps -> In (a, b) (ring_edges ps) -> a <> b ->
  sigma * cross a b p <= 0 -> on_boundaryb (ring_edges ps) p = false ->
  parityb (ring_edges ps) p = false.
Proof.
  intros Hs Hc Hab Hne Hout Hoff.
  set (nx := sigma * (py b - py a)). set (ny := - sigma * (px b - px a)).
  assert (Hn : nx <> 0 \/ ny <> 0).
  { destruct (Z.eq_dec (py b) (py a)) as [Ey|Ny].
    - right. unfold ny. assert (px b <> px a) by (intros Ex; apply Hne; apply pt_eq_coords; lia). nia.
    - left. unfold nx. nia. }
  destruct (far_point_outside ps p nx ny Hn) as [BH PH]. cbv zeta in BH, PH.
  destruct (spread_spec ps p) as [Sp _]. set (t := spread ps p) in *.
  set (H := (px p + t * nx, py p + t * ny)) in *.
  rewrite <- PH. apply parity_constant_off_boundary.
  intros [c d] Hcd Hm.
  destruct (Hc a b c d Hab Hcd) as [Cc Cd].
  destruct (seg_meet_common_scaled c d p H Hm) as (k & Q & Hk & On1 & On2).
  destruct (on_seg_param (sc k c) (sc k d) Q On1) as (m & e & He & Hme & Fx & Fy).
  destruct (on_seg_param (sc k p) (sc k H) Q On2) as (m' & e' & He' & Hme' & Gx & Gy).
  pose proof (cross_param (sc k a) (sc k b) (sc k c) (sc k d) Q m e Fx Fy) as A1.
  pose proof (cross_param (sc k a) (sc k b) (sc k p) (sc k H) Q m' e' Gx Gy) as A2.
  unfold sc in A1, A2. rewrite !(cross_aff k 0 0) in A1, A2.
  assert (CH : cross a b H = cross a b p - sigma * t * ((px b - px a) * (px b - px a) + (py b - py a) * (py b - py a))).
  { unfold cross, H, nx, ny, px, py. cbn [fst snd]. ring. }
  assert (Len : 0 < (px b - px a) * (px b - px a) + (py b - py a) * (py b - py a)).
  { pose proof (Z.square_nonneg (px b - px a)) as Qx. pose proof (Z.square_nonneg (py b - py a)) as Qy.
    unfold Z.square in Qx, Qy.
    destruct (Z.eq_dec (px b) (px a)) as [Ex|Nx].
    - assert (py b <> py a) by (intros Ey; apply Hne; apply pt_eq_coords; lia).
      assert (0 < (py b - py a) * (py b - py a)) by (destruct (Z.lt_trichotomy (py b) (py a)) as [?|[?|?]]; nia). lia.
    - assert (0 < (px b - px a) * (px b - px a)) by (destruct (Z.lt_trichotomy (px b) (px a)) as [?|[?|?]]; nia). lia. }
  set (L2 := (px b - px a) * (px b - px a) + (py b - py a) * (py b - py a)) in *.
  set (X := cross (aff k 0 0 a) (aff k 0 0 b) Q) in *.
  (* sigma * X >= 0 from the edge side; sigma * X <= 0 from the segment side, = 0 only at p *)
  assert (S1 : 0 <= sigma * (e * X)).
  { rewrite A1. assert (0 <= k * k) by nia. destruct Hs as [-> | ->]; nia. }
  assert (S2 : sigma * (e' * X) <= 0 /\ (sigma * (e' * X) = 0 -> m' = 0)).
  { rewrite A2, CH. assert (0 < k * k) by nia. destruct Hs as [-> | ->].
    - split; [nia|]. intros Z0. destruct (Z.eq_dec m' 0); [assumption|exfalso]. assert (0 < m') by lia. nia.
    - split; [nia|]. intros Z0. destruct (Z.eq_dec m' 0); [assumption|exfalso]. assert (0 < m') by lia. nia. }
  destruct S2 as [S2 S2z].
  assert (X0 : sigma * X = 0) by (destruct Hs as [-> | ->]; nia).
  assert (Mz : m' = 0) by (apply S2z; destruct Hs as [-> | ->]; nia).
  (* Q is the scaled p, which would lie on the edge *)
  assert (Q = sc k p).
  { rewrite Mz in Gx, Gy. apply pt_eq_coords; nia. }
  subst Q. apply on_segb_iff in On1. change (sc k c, sc k d) with (affs k 0 0 (c, d)) in On1. unfold sc in On1.
  rewrite (on_segb_aff k 0 0 Hk) in On1. apply on_segb_iff in On1.
  assert (on_boundaryb (ring_edges ps) p = true) by (apply on_boundaryb_iff; exists (c, d); split; assumption).
  congruence.
Qed.

(* strictly inside => strictly on the inner side of every edge *)
Theorem strictly_inside_inner_side (sigma : Z) (ps : list pt) (p : pt) :
  (sigma = 1 \/ sigma = -1) -> hpc sigma ps -> no_zero_edges ps ->
  strictly_in_ringb (ring_edges ps) p = true ->
  forall a b, In (a, b) (ring_edges ps) -> 0 < sigma * cross a b p.
Proof.
  intros Hs Hc Hz Hin a b Hab. unfold strictly_in_ringb in Hin. apply andb_true_iff in Hin.
  destruct Hin as [Hoff Hpar]. apply negb_true_iff in Hoff.
  destruct (Z_lt_dec 0 (sigma * cross a b p)) as [?|N]; [assumption|exfalso].
  assert (parityb (ring_edges ps) p = false); [|congruence].
  apply (outer_side_outside sigma ps a b p Hs Hc Hab (Hz a b Hab)); [lia|exact Hoff].
Qed.

(* one end strictly inside and no edge meeting the segment: every rational point strictly inside *)
Lemma strict_nomeet_all_inside (ps : list pt) (A B : pt) :
  strictly_in_ringb (ring_edges ps) A = true ->
  (forall e, In e (ring_edges ps) -> seg_meetb e (A, B) = false) ->
  all_strictly_inside ps A B.
Proof.
  intros SA Em k P Hk HP. set (E := ring_edges ps) in *.
  rewrite sc_edges by exact Hk. fold E.
  assert (N : forall e', In e' (map (scs k) E) -> ~ seg_meet e' (sc k A, sc k B)).
  { intros e' He' Hm. apply in_map_iff in He'. destruct He' as (e & <- & He).
    change (sc k A, sc k B) with (scs k (A, B)) in Hm. apply (seg_meet_sc k e (A, B) Hk) in Hm.
    apply seg_meetb_iff in Hm. rewrite (Em e He) in Hm. discriminate Hm. }
  assert (SA' : strictly_in_ringb (map (scs k) E) (sc k A) = true).
  { unfold strictly_in_ringb, sc, scs. rewrite on_boundaryb_aff, parityb_aff by exact Hk. exact SA. }
  unfold strictly_in_ringb in *. apply andb_true_iff in SA'. destruct SA' as [_ PA].
  apply andb_true_iff. split.
  - apply negb_true_iff. destruct (on_boundaryb (map (scs k) E) P) eqn:Hb; [exfalso|reflexivity].
    apply on_boundaryb_iff in Hb. destruct Hb as (e' & He' & Hon).
    apply (N e' He'). apply (shared_point_meet e' _ _ P Hon HP).
  - rewrite <- PA. symmetry. unfold E. rewrite <- sc_edges by exact Hk. apply parity_constant_off_boundary.
    intros e' He' Hm. rewrite sc_edges in He' by exact Hk. apply (N e' He').
    apply (sub_segment_meet e' (sc k A) (sc k B) P HP Hm).
Qed.

(* MAIN: both ends strictly inside a convex ring => every rational point of the segment is *)
Theorem convex_segment_strictly_inside (sigma : Z) (ps : list pt) (A B : pt) :
  (sigma = 1 \/ sigma = -1) -> hpc sigma ps -> no_zero_edges ps ->
  strictly_in_ringb (ring_edges ps) A = true -> strictly_in_ringb (ring_edges ps) B = true ->
  all_strictly_inside ps A B.
Proof.
  intros Hs Hc Hz SA SB. apply strict_nomeet_all_inside; [exact SA|].
  intros [c d] Hcd. destruct (seg_meetb (c, d) (A, B)) eqn:Em; [exfalso|reflexivity].
  apply seg_meetb_iff in Em.
  pose proof (strictly_inside_inner_side sigma ps A Hs Hc Hz SA c d Hcd) as IA.
  pose proof (strictly_inside_inner_side sigma ps B Hs Hc Hz SB c d Hcd) as IB.
  destruct (seg_meet_common_scaled c d A B Em) as (k & Q & Hk & On1 & On2).
  destruct On1 as (C0 & _ & _).
  destruct (on_seg_param (sc k A) (sc k B) Q On2) as (m & e & He & Hme & Gx & Gy).
  pose proof (cross_param (sc k c) (sc k d) (sc k A) (sc k B) Q m e Gx Gy) as A2.
  rewrite C0, Z.mul_0_r in A2. unfold sc in A2. rewrite !(cross_aff k 0 0) in A2.
  assert (Hkk : 0 < k * k) by nia.
  set (u := k * k * cross c d A) in *. set (v := k * k * cross c d B) in *.
  assert (Hu : 0 < sigma * u) by (unfold u; destruct Hs as [-> | ->]; nia).
  assert (Hv : 0 < sigma * v) by (unfold v; destruct Hs as [-> | ->]; nia).
  clearbody u v.
  assert (0 <= e - m) by lia.
  destruct (Z.eq_dec m 0) as [-> | Nm].
  - destruct Hs as [-> | ->]; nia.
  - assert (0 < m) by lia. destruct Hs as [-> | ->]; nia.
Qed.

(* the code: on a ring flagged convex, strict containment of a segment is decided by its two ends *)
Theorem ring_contains_segment_convex_flag (ps : list pt) (A B : pt) :
  ring_convex (RS {| closed := true; pts := ps |}) = true ->
  rcs (RS {| closed := true; pts := ps |}) (A, B) false =
  strictly_in_ringb (ring_edges ps) A && strictly_in_ringb (ring_edges ps) B.
Proof.
  intros Hcv. set (E := ring_edges ps). set (r := RS {| closed := true; pts := ps |}) in *.
  assert (Hs : forall p, rcp_hit r p false = strictly_in_ringb E p).
  { intros p. unfold r. rewrite ring_contains_point_spec. unfold strictly_in_ringb. fold E.
    destruct (on_boundaryb E p); reflexivity. }
  assert (Hbb : forall p, strictly_in_ringb E p = true -> rect_contains_point (ring_rect r) p = true).
  { intros p Hp. destruct (rect_contains_point (ring_rect r) p) eqn:Er; [reflexivity|].
    pose proof (rcp_hit_gen r p false) as G. rewrite Er, Hs, Hp in G. discriminate G. }
  unfold rcs, ring_contains_segment.
  change (fst (ring_contains_point ?x ?p ?al)) with (rcp_hit x p al). fold r.
  destruct (strictly_in_ringb E A) eqn:SA.
  2:{ destruct (negb (rect_contains_point _ A) || negb (rect_contains_point _ B)); [reflexivity|].
      rewrite Hs, SA. reflexivity. }
  destruct (strictly_in_ringb E B) eqn:SB.
  2:{ destruct (negb (rect_contains_point _ A) || negb (rect_contains_point _ B)); [reflexivity|].
      rewrite Hs, SA. cbn [negb].
      destruct (pt_eqb B A) eqn:Eq; [apply pt_eqb_eq in Eq; subst B; congruence|].
      rewrite Hs, SB. reflexivity. }
  rewrite (Hbb A SA), (Hbb B SB). cbn [negb orb andb]. rewrite Hs, SA. cbn [negb].
  destruct (pt_eqb B A); [reflexivity|]. rewrite Hs, SB. cbn [negb]. rewrite Hcv. reflexivity.
Qed.

Corollary ring_contains_segment_convex_pointset (sigma : Z) (ps : list pt) (A B : pt) :
  (sigma = 1 \/ sigma = -1) -> hpc sigma ps -> no_zero_edges ps ->
  ring_convex (RS {| closed := true; pts := ps |}) = true ->
  (rcs (RS {| closed := true; pts := ps |}) (A, B) false = true <-> all_strictly_inside ps A B).
Proof.
  intros Hs Hc Hz Hcv. rewrite (ring_contains_segment_convex_flag ps A B Hcv), andb_true_iff. split.
  - intros [SA SB]. apply (convex_segment_strictly_inside sigma); assumption.
  - intros Hall. split.
    + pose proof (Hall 1 A) as H1. rewrite !sc_1, map_sc_1 in H1. apply H1; [lia|apply on_seg_left].
    + pose proof (Hall 1 B) as H1. rewrite !sc_1, map_sc_1 in H1. apply H1; [lia|apply on_seg_right].
Qed.

Print Assumptions convex_segment_strictly_inside.
Print Assumptions ring_contains_segment_convex_pointset.
