(* LineComplete.v — property C03: Line.ContainsLine (after the repair) is complete: if every rational
   point of a segment lies on a segment of the receiver, the coverage walk accepts it.  The heart is a
   counting argument: just beyond the current point there are more rational points than the receiver
   has segments; a segment that is not collinear with the covered one carries at most one of them, and
   a collinear one that carries any of them reaches back to the current point and beyond it. *)
From Coq Require Import ZArith Bool List Lia.
From GJ Require Import Base Kernel KernelSpec Series SeriesSpec Ring RingSpec PairSpec Pairs PairProofs
  KernelProofs IntersectsProofs RaycastProofs SeriesProofs PipProofs LineProofs ContainsBoxes CoversBoxes Invariance JordanQ JordanRing
  ObjSelf2 LineSound.
Import ListNotations.
Open Scope Z_scope.

(* a point of the line AB whose projection is within [0, |AB|^2] is on the segment *)
Lemma on_seg_of_dot (A B P : pt) : A <> B -> cross A B P = 0 -> 0 <= dotp A B P <= dotp A B B -> on_seg (A, B) P.
Proof.
  intros Hab Hc Hd. destruct A as [ax ay], B as [bx by_], P as [qx qy].
  unfold on_seg, cross, dotp, px, py in *. cbn [fst snd] in *.
  assert (Hu : bx - ax <> 0 \/ by_ - ay <> 0).
  { destruct (Z.eq_dec bx ax) as [E1|E1]; [|left; lia]. destruct (Z.eq_dec by_ ay) as [E2|E2]; [|right; lia].
    exfalso. apply Hab. congruence. }
  destruct (between_coord_gen (bx - ax) (by_ - ay) 0 0 (bx - ax) (by_ - ay) (qx - ax) (qy - ay) Hu) as [Bx By]; try lia.
  split; [lia|]. split; nia.
Qed.

(* a point of the line of a segment S (S1 <> S2) whose projection on a parallel direction u lies between
   those of the ends is on S *)
Lemma on_seg_between_ends (A B S1 S2 P : pt) :
  A <> B -> S1 <> S2 -> cross S1 S2 A = 0 -> cross S1 S2 B = 0 -> cross A B P = 0 ->
  (dotp A B S1 <= dotp A B P <= dotp A B S2 \/ dotp A B S2 <= dotp A B P <= dotp A B S1) -> on_seg (S1, S2) P.
Proof.
  intros Hab Hs HA HB HP [Hd|Hd].
  - apply (stretch_on_segment A B S1 S2 S1 S2 P Hab Hs HA HB (on_seg_left S1 S2)); [right; reflexivity|exact HP|exact Hd].
  - apply on_seg_swap. apply (stretch_on_segment A B S2 S1 S2 S1 P Hab).
    + intros E. apply Hs. symmetry. exact E.
    + destruct A, B, S1, S2. unfold cross, px, py in *. cbn [fst snd] in *. lia.
    + destruct A, B, S1, S2. unfold cross, px, py in *. cbn [fst snd] in *. lia.
    + apply on_seg_left.
    + right. reflexivity.
    + exact HP.
    + exact Hd.
Qed.

(* along a segment S collinear with AB the projection of a point of S lies between those of the ends *)
Lemma dot_between_ends (A B S1 S2 P : pt) : on_seg (S1, S2) P ->
  (dotp A B S1 <= dotp A B P <= dotp A B S2 \/ dotp A B S2 <= dotp A B P <= dotp A B S1).
Proof.
  destruct A as [ax ay], B as [bx by_], S1 as [s1x s1y], S2 as [s2x s2y], P as [qx qy].
  unfold on_seg, cross, dotp, px, py. cbn [fst snd]. intros (Hc & Hx & Hy).
  (* P = S1 + t (S2 - S1) with 0 <= t <= 1: the projection is affine in t *)
  set (p := s2x - s1x) in *. set (q := s2y - s1y) in *. set (u := bx - ax) in *. set (v := by_ - ay) in *.
  set (dx := qx - s1x) in *. set (dy := qy - s1y) in *.
  assert (Hdx : dx * (p - dx) >= 0) by (unfold dx, p; nia).
  assert (Hdy : dy * (q - dy) >= 0) by (unfold dy, q; nia).
  assert (Hpar : p * dy - q * dx = 0) by lia.
  (* w = u p + v q is the projection of S2 - S1; d = u dx + v dy that of P - S1; claim d (w - d) >= 0 *)
  assert (Key : (u * dx + v * dy) * ((u * p + v * q) - (u * dx + v * dy)) >= 0).
  { replace ((u * dx + v * dy) * ((u * p + v * q) - (u * dx + v * dy)))
      with (u * u * (dx * (p - dx)) + v * v * (dy * (q - dy)) + u * v * (dx * (q - dy) + dy * (p - dx))) by ring.
    (* dx (q - dy) + dy (p - dx) = dx q + dy p - 2 dx dy; with p dy = q dx this is 2 (dx q - dx dy) ... use case analysis on the sign *)
    assert (E1 : dx * (q - dy) = dy * (p - dx)) by nia.
    replace (dx * (q - dy) + dy * (p - dx)) with (2 * (dx * (q - dy))) by lia.
    (* (u a)^2 + (v b)^2 + 2 u v c >= 0 where a^2 = dx(p-dx), b^2 = dy(q-dy), c^2 = a^2 b^2: Cauchy-Schwarz *)
    assert (Sq : (dx * (q - dy)) * (dx * (q - dy)) = (dx * (p - dx)) * (dy * (q - dy))) by (rewrite E1 at 2; ring).
    set (X := dx * (p - dx)) in *. set (Y := dy * (q - dy)) in *. set (W := dx * (q - dy)) in *.
    destruct (Z.eq_dec X 0) as [X0|X0].
    - assert (W = 0) by nia. nia.
    - assert (0 < X) by lia.
      assert (G : X * (u * u * X + v * v * Y + u * v * (2 * W)) = (u * X + v * W) * (u * X + v * W)) by nia.
      pose proof (Z.square_nonneg (u * X + v * W)) as Hsq. rewrite <- G in Hsq.
      apply (proj1 (Z.mul_nonneg_cancel_l X _ H)) in Hsq. lia. }
  unfold u, v, dx, dy, p, q in Key. nia.
Qed.

Lemma cross_collinear (s : seg) (a : pt) : cross (fst s) (snd s) a = 0 -> collinear_point s a = true.
Proof.
  destruct s as [[s1x s1y] [s2x s2y]], a as [ax ay]. unfold collinear_point, cross, px, py. cbn [fst snd].
  intros H. apply Z.eqb_eq. lia.
Qed.

Lemma cstep_reach_fst a b cur acc si :
  collinear_point (fst si) a && collinear_point (fst si) b && raycast_on (fst si) cur = true ->
  dotp a b (fst (fst si)) <= snd (cstep a b cur acc si).
Proof.
  intros G. unfold cstep. rewrite G. cbv zeta.
  destruct (Z.ltb_spec (snd acc) (dotp a b (fst (fst si)))); cbn [snd];
  match goal with |- context [if ?c then _ else _] => destruct c eqn:E end; cbn [snd]; try lia;
  try (apply Z.ltb_lt in E; cbn [snd] in E; lia); try (apply Z.ltb_ge in E; cbn [snd] in E; lia).
Qed.

Lemma cfold_reach_fst a b cur si cands : In si cands ->
  collinear_point (fst si) a && collinear_point (fst si) b && raycast_on (fst si) cur = true ->
  forall acc, dotp a b (fst (fst si)) <= snd (fold_left (cstep a b cur) cands acc).
Proof.
  induction cands as [|x cands IH]; [intros []|]. intros [->|Hin] G acc; cbn [fold_left].
  - pose proof (cstep_reach_fst a b cur acc si G). pose proof (cfold_mono a b cur cands (cstep a b cur acc si)). lia.
  - apply IH; assumption.
Qed.

(* a receiver segment through cur, collinear with ab: the pass reaches the projections of both its ends *)
Lemma pass_reaches (l : rng) (a b cur : pt) (curd : Z) (s : seg) :
  In s (ring_segments l) -> cross (fst s) (snd s) a = 0 -> cross (fst s) (snd s) b = 0 -> on_seg s cur ->
  dotp a b (fst s) <= snd (covers_step l (a, b) cur curd) /\ dotp a b (snd s) <= snd (covers_step l (a, b) cur curd).
Proof.
  intros Hs Ca Cb Hon. destruct (in_indexed _ _ Hs) as (i & Hi).
  assert (Hin : In (s, i) (ring_search l (cur, cur))).
  { unfold ring_search. apply filter_In. split; [exact Hi|]. cbn [fst].
    destruct s as [[s1x s1y] [s2x s2y]], cur as [cx cy]. unfold on_seg, px, py in Hon. cbn [fst snd] in Hon.
    apply rir_iff. unfold seg_rect, px, py. cbn [fst snd]. lia. }
  assert (G : collinear_point (fst (s, i)) a && collinear_point (fst (s, i)) b && raycast_on (fst (s, i)) cur = true).
  { cbn [fst]. rewrite (cross_collinear s a Ca), (cross_collinear s b Cb). cbn [andb]. apply raycast_on_iff. exact Hon. }
  rewrite covers_step_fold. split.
  - apply (cfold_reach_fst a b cur (s, i) _ Hin G).
  - apply (cfold_reach a b cur (s, i) _ Hin G).
Qed.

Definition probe (k : Z) (a b cur : pt) (j : Z) : pt := (k * px cur + j * (px b - px a), k * py cur + j * (py b - py a)).

Lemma probe_cross k a b cur j : cross a b cur = 0 -> cross (sc k a) (sc k b) (probe k a b cur j) = 0.
Proof.
  intros Hcc. rewrite !sc_xy. destruct a as [ax ay], b as [bx by_], cur as [cx cy]. unfold probe, cross, px, py in *. cbn [fst snd] in *.
  replace ((k * bx - k * ax) * (k * cy + j * (by_ - ay) - k * ay) - (k * by_ - k * ay) * (k * cx + j * (bx - ax) - k * ax))
    with (k * k * ((bx - ax) * (cy - ay) - (by_ - ay) * (cx - ax))) by ring. rewrite Hcc. ring.
Qed.

Lemma probe_dot k a b cur j : dotp (sc k a) (sc k b) (probe k a b cur j) = k * k * dotp a b cur + j * k * dotp a b b.
Proof.
  rewrite !sc_xy. destruct a as [ax ay], b as [bx by_], cur as [cx cy]. unfold probe, dotp, px, py. cbn [fst snd]. ring.
Qed.

(* two different probes on one segment make it collinear with ab *)
Lemma two_probes_collinear k a b cur (s : seg) (i j : Z) : 0 < k -> a <> b -> cross a b cur = 0 -> i <> j ->
  on_seg (scs k s) (probe k a b cur i) -> on_seg (scs k s) (probe k a b cur j) ->
  cross (fst s) (snd s) a = 0 /\ cross (fst s) (snd s) b = 0.
Proof.
  intros Hk Hne Hcc Hij Hi Hj.
  destruct s as [[s1x s1y] [s2x s2y]]. unfold scs, affs, aff in Hi, Hj. cbn [fst snd] in *.
  destruct Hi as (Ci & _). destruct Hj as (Cj & _).
  destruct a as [ax ay], b as [bx by_], cur as [cx cy]. unfold probe, cross, px, py in *. cbn [fst snd] in *.
  set (p := s2x - s1x) in *. set (q := s2y - s1y) in *. set (u := bx - ax) in *. set (v := by_ - ay) in *.
  assert (Par : p * v - q * u = 0).
  { assert (E : k * (j - i) * (p * v - q * u) = 0) by (unfold p, q, u, v in *; lia).
    apply Z.mul_eq_0 in E. destruct E as [E|E]; [|exact E]. apply Z.mul_eq_0 in E. lia. }
  assert (Hu : u <> 0 \/ v <> 0).
  { unfold u, v. destruct (Z.eq_dec bx ax) as [E1|E1]; [|left; lia]. destruct (Z.eq_dec by_ ay) as [E2|E2]; [|right; lia].
    exfalso. apply Hne. congruence. }
  assert (Pc : p * (cy - ay) - q * (cx - ax) = 0).
  { assert (G := parallel2 u v (cx - ax) (cy - ay) p q Hu ltac:(lia) ltac:(lia)). lia. }
  assert (T : k * k * (p * (cy - s1y) - q * (cx - s1x)) + k * i * (p * v - q * u) = 0) by (unfold p, q, u, v in *; lia).
  rewrite Par in T.
  assert (Ea : k * k * (p * (ay - s1y) - q * (ax - s1x)) = 0).
  { replace (p * (ay - s1y) - q * (ax - s1x)) with ((p * (cy - s1y) - q * (cx - s1x)) - (p * (cy - ay) - q * (cx - ax))) by ring.
    rewrite Pc. lia. }
  assert (Ka : p * (ay - s1y) - q * (ax - s1x) = 0) by nia.
  split; [lia|]. unfold u, v in *. lia.
Qed.

Section Progress.
Variables (l : rng) (a b cur : pt) (curd : Z).
Hypothesis Hab : pt_eqb a b = false.
Hypothesis Hcc : cross a b cur = 0.
Hypothesis Hcd : curd = dotp a b cur.
Hypothesis Hlo : 0 <= curd.
Hypothesis Hhi : curd < dotp a b b.
Hypothesis Hcov : forall k P, 0 < k -> on_seg (sc k a, sc k b) P -> covered l k P.

Let N := dotp a b b.
Let n := Z.of_nat (length (ring_segments l)).
Let k := (n + 2) * N.
Let pr (j : Z) : pt := probe k a b cur j.

Lemma N_pos : 0 < N. Proof. apply dot_pos. exact Hab. Qed.
Lemma k_pos : 0 < k. Proof. unfold k. pose proof N_pos. assert (0 <= n) by (unfold n; lia). nia. Qed.
Lemma ab_ne : a <> b. Proof. intros E. rewrite E in Hab. rewrite pt_eqb_refl in Hab. discriminate. Qed.

Lemma pr_dot j : dotp (sc k a) (sc k b) (pr j) = k * k * curd + j * k * N.
Proof. unfold pr. rewrite probe_dot, <- Hcd. reflexivity. Qed.

Lemma pr_on j : 1 <= j <= n + 1 -> on_seg (sc k a, sc k b) (pr j).
Proof.
  intros Hj. pose proof N_pos as HN. pose proof k_pos as Hk. apply on_seg_of_dot.
  - intros E. apply ab_ne. apply (sc_inj k a b Hk E).
  - apply probe_cross. exact Hcc.
  - rewrite pr_dot, dotp_sc. fold N. split; [nia|].
    assert (j * N < k) by (unfold k; nia). assert (curd + 1 <= N) by (unfold N; lia). nia.
Qed.

Lemma pr_window j : 1 <= j <= n + 1 -> k * k * curd < dotp (sc k a) (sc k b) (pr j) < k * k * (curd + 1).
Proof.
  intros Hj. pose proof N_pos as HN. pose proof k_pos as Hk. rewrite pr_dot.
  assert (j * N < k) by (unfold k; nia). split; nia.
Qed.

(* a receiver segment collinear with ab that carries a probe makes the pass progress *)
Lemma collinear_cover_progress (s : seg) (j : Z) : 1 <= j <= n + 1 ->
  In s (ring_segments l) -> cross (fst s) (snd s) a = 0 -> cross (fst s) (snd s) b = 0 ->
  on_seg (scs k s) (pr j) -> curd < snd (covers_step l (a, b) cur curd).
Proof.
  intros Hj Hs Ca Cb Hon. pose proof k_pos as Hk. pose proof (pr_window j Hj) as [W1 W2].
  destruct s as [e1 e2]. cbn [fst snd] in *. unfold scs, affs in Hon. cbn [fst snd] in Hon. fold (sc k e1) in Hon. fold (sc k e2) in Hon.
  assert (Kpos : 0 < k * k) by nia.
  destruct (dot_between_ends (sc k a) (sc k b) (sc k e1) (sc k e2) (pr j) Hon) as [D|D]; rewrite !dotp_sc in D.
  - assert (d1 : dotp a b e1 <= curd) by nia. assert (d2 : curd < dotp a b e2) by nia.
    assert (Hne : e1 <> e2) by (intros E; rewrite E in d1; lia).
    assert (Hc : on_seg (e1, e2) cur).
    { apply (on_seg_between_ends a b e1 e2 cur ab_ne Hne Ca Cb Hcc). left. lia. }
    destruct (pass_reaches l a b cur curd (e1, e2) Hs Ca Cb Hc) as [_ R]. cbn [snd] in R. lia.
  - assert (d2 : dotp a b e2 <= curd) by nia. assert (d1 : curd < dotp a b e1) by nia.
    assert (Hne : e1 <> e2) by (intros E; rewrite E in d1; lia).
    assert (Hc : on_seg (e1, e2) cur).
    { apply (on_seg_between_ends a b e1 e2 cur ab_ne Hne Ca Cb Hcc). right. lia. }
    destruct (pass_reaches l a b cur curd (e1, e2) Hs Ca Cb Hc) as [R _]. cbn [fst] in R. lia.
Qed.

Lemma seg_eq_dec (s t : seg) : {s = t} + {s <> t}.
Proof. repeat decide equality. Qed.

(* the counting argument *)
Lemma progress : curd < snd (covers_step l (a, b) cur curd).
Proof.
  destruct (Z.lt_ge_cases curd (snd (covers_step l (a, b) cur curd))) as [Y|Hno]; [exact Y|]. exfalso.
  pose proof k_pos as Hk.
  assert (Pick : forall j, 1 <= j <= n + 1 -> exists s, In s (ring_segments l) /\ on_seg (scs k s) (pr j)).
  { intros j Hj. apply (Hcov k (pr j) Hk (pr_on j Hj)). }
  assert (NotCol : forall s j, 1 <= j <= n + 1 -> In s (ring_segments l) -> on_seg (scs k s) (pr j) ->
                   ~ (cross (fst s) (snd s) a = 0 /\ cross (fst s) (snd s) b = 0)).
  { intros s j Hj Hs Hon [Ca Cb]. pose proof (collinear_cover_progress s j Hj Hs Ca Cb Hon). lia. }
  assert (Build : forall m : nat, Z.of_nat m <= n + 1 ->
            exists L : list seg, length L = m /\ NoDup L /\ incl L (ring_segments l) /\
              forall s, In s L -> exists j, 1 <= j <= Z.of_nat m /\ on_seg (scs k s) (pr j)).
  { induction m as [|m IH]; intros Hm.
    - exists []. split; [reflexivity|]. split; [constructor|]. split; [intros x []|intros s []].
    - destruct (IH ltac:(lia)) as (L & Hlen & Hnd & Hinc & Hall).
      destruct (Pick (Z.of_nat (S m)) ltac:(lia)) as (s & Hs & Hon).
      destruct (in_dec seg_eq_dec s L) as [Hin|Hnin].
      + exfalso. destruct (Hall s Hin) as (j & Hj & Honj).
        apply (NotCol s (Z.of_nat (S m)) ltac:(lia) Hs Hon).
        apply (two_probes_collinear k a b cur s j (Z.of_nat (S m)) Hk ab_ne Hcc ltac:(lia) Honj Hon).
      + exists (s :: L). split; [cbn [length]; lia|]. split; [constructor; assumption|]. split.
        * intros x [<-|Hx]; [exact Hs|apply Hinc; exact Hx].
        * intros x [<-|Hx]; [exists (Z.of_nat (S m)); split; [lia|exact Hon]|].
          destruct (Hall x Hx) as (j & Hj & Honj). exists j. split; [lia|exact Honj]. }
  destruct (Build (S (length (ring_segments l))) ltac:(unfold n; lia)) as (L & Hlen & Hnd & Hinc & _).
  pose proof (NoDup_incl_length Hnd Hinc). lia.
Qed.
End Progress.

(* the walk never rejects a segment all of whose rational points are covered *)
Lemma walk_complete (l : rng) (a b : pt) : pt_eqb a b = false ->
  (forall k P, 0 < k -> on_seg (sc k a, sc k b) P -> covered l k P) ->
  forall fuel cur curd, cross a b cur = 0 -> curd = dotp a b cur -> 0 <= curd -> curd < dotp a b b ->
  covers_walk fuel l (a, b) cur curd <> Some false.
Proof.
  intros Hab Hcov. induction fuel as [|f IH]; intros cur curd Hcc Hcd Hlo Hhi; [discriminate|].
  cbn [covers_walk]. pose proof (progress l a b cur curd Hab Hcc Hcd Hlo Hhi Hcov) as Pg.
  pose proof (covers_step_strong l a b cur curd) as S. cbv zeta in S.
  destruct (covers_step l (a, b) cur curd) as [best bestd]. cbn [fst snd] in *.
  destruct (Z.leb_spec (dotp a b b) bestd) as [L|L]; [discriminate|].
  destruct (Z.ltb_spec curd bestd) as [Lt|Ge]; cbn [negb]; [|lia].
  destruct S as [_ [E|[Hsrc _]]]; [inversion E; lia|].
  destruct (src_line l a b cur curd (best, bestd) Hab Hcc Hcd Hsrc Lt) as (s & _ & _ & _ & _ & _ & _ & Hbd & Hcb). cbn [fst snd] in *.
  apply IH; [exact Hcb|exact Hbd|lia|exact L].
Qed.

Theorem line_covers_segment_complete (l : rng) (a b : pt) :
  (forall k P, 0 < k -> on_seg (sc k a, sc k b) P -> covered l k P) -> line_covers_segment l (a, b) = Some true.
Proof.
  intros Hcov. pose proof (line_covers_segment_total l (a, b)) as T.
  destruct (line_covers_segment l (a, b)) as [[|]|] eqn:E; [reflexivity| |congruence]. exfalso.
  unfold line_covers_segment in E. cbn [fst snd] in E. destruct (pt_eqb a b) eqn:Eab.
  - apply pt_eqb_eq in Eab. subst b. destruct (Hcov 1 a ltac:(lia)) as (s & Hs & Hon).
    { rewrite !sc_1. apply on_seg_left. }
    assert (Hs1 : scs 1 s = s) by (destruct s as [s1 s2]; unfold scs, affs; cbn [fst snd]; fold (sc 1 s1); fold (sc 1 s2); rewrite !sc_1; reflexivity).
    rewrite Hs1 in Hon.
    assert (T' : line_contains_point_r l a = true).
    { destruct (in_indexed _ _ Hs) as (i & Hi). unfold line_contains_point_r. apply existsb_exists. exists (s, i). split.
      - unfold ring_search. apply filter_In. split; [exact Hi|]. cbn [fst].
        destruct s as [[s1x s1y] [s2x s2y]], a as [cx cy]. unfold on_seg, px, py in Hon. cbn [fst snd] in Hon.
        apply rir_iff. unfold seg_rect, px, py. cbn [fst snd]. lia.
      - cbn [fst]. apply raycast_on_iff. exact Hon. }
    rewrite T' in E. discriminate.
  - apply (walk_complete l a b Eab Hcov (covers_fuel l) a 0); [unfold cross; lia|unfold dotp; lia|lia|apply dot_pos; exact Eab|exact E].
Qed.

(* MAIN: Line.ContainsLine is exact as a point-set statement *)
Theorem line_contains_line_exact (l o : rng) : ring_empty l = false -> ring_empty o = false ->
  (line_contains_line l o = Some true <-> line_covered_by l o).
Proof.
  intros El Eo. split.
  - intros H. apply (line_contains_line_sound l o H).
  - intros Hcov. unfold line_contains_line. rewrite El, Eo. cbn [orb]. apply all_some_all_true.
    intros x Hx. apply in_map_iff in Hx. destruct Hx as ([a b] & <- & Hsg). apply line_covers_segment_complete.
    intros k P Hk HP. apply (Hcov (a, b) Hsg k P Hk HP).
Qed.

(* Line.ContainsRect for a flat rectangle (the only kind a line string can contain): exact as well *)
Theorem line_contains_flat_rect_exact (l : rng) (mn mx : pt) : ring_empty l = false ->
  px mn = px mx \/ py mn = py mx ->
  (line_contains_rect l (mn, mx) = Some true <-> forall k P, 0 < k -> on_seg (sc k mn, sc k mx) P -> covered l k P).
Proof.
  intros El Hflat. unfold line_contains_rect, line_contains_poly. rewrite El. cbn [orb poly_empty rect_poly exterior RR ring_empty r_empty poly_rect ring_rect r_rect].
  assert (F : negb (px mn =? px mx) && negb (py mn =? py mx) = false).
  { destruct Hflat as [H|H]; rewrite H, Z.eqb_refl; cbn [negb andb]; [reflexivity|apply andb_false_r]. }
  rewrite F. rewrite (line_contains_line_exact l (diag_line mn mx) El eq_refl). unfold line_covered_by. cbn [diag_line ring_segments r_segs]. split.
  - intros H k P Hk HP. apply (H (mn, mx) (or_introl eq_refl) k P Hk HP).
  - intros H sg [<-|[]] k P Hk HP. apply (H k P Hk HP).
Qed.

Print Assumptions line_contains_line_exact.

(* not vacuous: a bent line covers a piece that runs through its vertex, and not one that leaves it *)
Example exact_yes : line_contains_line (Lr [(0,0);(4,0);(4,4);(9,4)]) (Lr [(2,0);(4,0);(4,3)]) = Some true.
Proof. vm_compute. reflexivity. Qed.
Example exact_no : line_contains_line (Lr [(0,0);(4,0);(4,4);(9,4)]) (Lr [(2,0);(5,0)]) = Some false.
Proof. vm_compute. reflexivity. Qed.
