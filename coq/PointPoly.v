(* PointPoly.v — property C03: Point.ContainsPoly is exact: a point contains a polygon exactly when the
   polygon is non-empty and every vertex of its exterior ring is that point (holes lie inside the exterior). *)
From Coq Require Import ZArith Bool List Lia.
From GJ Require Import Base Kernel KernelSpec Series SeriesSpec Ring RingSpec PairSpec Pairs PairProofs
  KernelProofs IntersectsProofs SeriesProofs PipProofs.
Import ListNotations.
Open Scope Z_scope.

Theorem point_contains_poly_spec (p : pt) (e : list pt) (hs : list (list pt)) :
  point_contains_poly p (Pg e hs) = true <-> (3 <= length e)%nat /\ forall v, In v e -> v = p.
Proof.
  unfold point_contains_poly, point_rect, poly_empty, poly_rect, Pg, Rg. cbn [exterior].
  unfold ring_empty, ring_rect. rewrite RS_empty, RS_rect. rewrite closed_series_empty.
  rewrite andb_true_iff, negb_true_iff, rect_eqb_eq, Nat.ltb_ge. split.
  - intros [H1 H2]. split; [exact H1|].
    rewrite series_rect_spec in H2 by (rewrite closed_series_empty; apply Nat.ltb_ge; exact H1).
    cbn [pts] in H2. apply bbox_point_iff; [|exact H2]. intros ->. cbn in H1. lia.
  - intros [H1 H2]. split; [exact H1|].
    rewrite series_rect_spec by (rewrite closed_series_empty; apply Nat.ltb_ge; exact H1).
    cbn [pts]. apply bbox_point_iff; [|exact H2]. intros ->. cbn in H1. lia.
Qed.
Print Assumptions point_contains_poly_spec.
