(* ObjLaws3.v — property C09 at the object level: if A contains a non-empty B then A intersects B,
   through Features, collections and nesting.  Contains hands over a leaf x of A and a non-empty leaf
   y of B with x.Contains(y) at the Geometry interface; the geometry-level law (ObjLaws, ObjLaws2)
   gives x.Intersects(y); symmetry at the interface and the leaf flattening of Intersects (ObjSym)
   give A.Intersects(B). *)
From Coq Require Import ZArith Bool List Lia.
From GJ Require Import Base Kernel KernelSpec Series SeriesSpec Ring RingSpec PairSpec Pairs PairProofs
  KernelProofs IntersectsProofs SeriesProofs PipProofs Obj ObjSpec ObjProofs BoxLaws ContainsBoxes
  Jordan JordanQ JordanRing JordanRect ObjSym ObjSelf ObjLaws ObjLaws2.
Import ListNotations.
Open Scope Z_scope.

Definition recv_ok (x : shape) : Prop := match x with SRect r => rect_wf r | _ => True end.
Definition arg_ok (y : shape) : Prop := s_wf y /\ short y.

Lemma gcb_true a b : gcb a b = true -> g_contains a b = Some true.
Proof. unfold gcb. destruct (g_contains a b) as [[|]|]; intros H; try discriminate; reflexivity. Qed.

Theorem g_contains_intersects_all (x y : shape) : recv_ok x -> arg_ok y -> s_empty y = false ->
  gcb (g_of_shape x) (g_of_shape y) = true -> g_intersects (g_of_shape x) (g_of_shape y) = true.
Proof.
  intros Hx [Hy Hs] Hne H. apply gcb_true in H. destruct x as [p|r|ps|e hs].
  - apply g_contains_intersects; cbn [rect_decided s_wf]; auto.
  - apply g_contains_intersects; cbn [rect_decided s_wf]; auto.
  - apply g_contains_intersects_line; assumption.
  - apply g_contains_intersects_poly; assumption.
Qed.

Lemma sleaves_for_each_part (b : obj) : sleaves b = flat_map sleaves (for_each_part b).
Proof.
  induction b as [p|p|r|ps|rs|b IH|k cs IH] using obj_ind'; cbn [for_each_part flat_map sleaves]; try (rewrite app_nil_r; reflexivity).
  - destruct (ends_in_coll b); [exact IH|]. cbn [flat_map sleaves]. rewrite app_nil_r. reflexivity.
  - rewrite flat_map_flat_map. apply flat_map_ext_in'. intros c Hc. rewrite Forall_forall in IH. apply IH. exact Hc.
Qed.

Lemma nonempty_child' (cs : list obj) : forallb o_empty cs = false -> exists c, In c cs /\ o_empty c = false.
Proof.
  induction cs as [|c cs IH]; [discriminate|]. cbn [forallb]. destruct (o_empty c) eqn:Ec; cbn [andb].
  - intros H. destruct (IH H) as (c' & Hc' & He'). exists c'. split; [right; exact Hc'|exact He'].
  - intros _. exists c. split; [left; reflexivity|exact Ec].
Qed.

(* B within a geometry g: some non-empty leaf of B is contained by g *)
Lemma o_within_g_leaf (b : obj) : forall g, o_within_g b g = true -> o_empty b = false ->
  exists y, In y (sleaves b) /\ s_empty y = false /\ gcb g (g_of_shape y) = true.
Proof.
  induction b as [p|p|r|ps|rs|b IH|k cs IH] using obj_ind'; intros g H Hne; cbn [o_within_g sleaves o_empty] in *.
  - exists (SPoint p). split; [left; reflexivity|]. split; [reflexivity|exact H].
  - exists (SPoint p). split; [left; reflexivity|]. split; [reflexivity|exact H].
  - exists (SRect r). split; [left; reflexivity|]. split; [reflexivity|exact H].
  - exists (SLine ps). split; [left; reflexivity|]. split; [cbn [s_empty]; rewrite <- line_empty_eq; exact Hne|exact H].
  - exists (poly_shape rs). split; [left; reflexivity|]. split.
    + rewrite poly_empty_eq in Hne. destruct rs as [|e hs]; [discriminate Hne|exact Hne].
    + rewrite poly_shape_geom. exact H.
  - apply IH; assumption.
  - apply andb_true_iff in H. destruct H as [_ H]. rewrite forallb_forall in H.
    destruct (nonempty_child' cs Hne) as (c & Hc & Ec). specialize (H c Hc). apply andb_true_iff in H. destruct H as [_ H].
    rewrite Forall_forall in IH. destruct (IH c Hc g H Ec) as (y & Hy & Ny & Hg).
    exists y. split; [apply in_flat_map; exists c; split; assumption|]. split; assumption.
Qed.

(* A contains a non-empty B: a leaf of A contains a non-empty leaf of B at the Geometry interface *)
Lemma o_contains_leaf (a : obj) : forall b, o_contains a b = true -> o_empty b = false ->
  exists x y, In x (sleaves a) /\ In y (sleaves b) /\ s_empty y = false /\ gcb (g_of_shape x) (g_of_shape y) = true.
Proof.
  induction a as [p|p|r|ps|rs|a IH|k cs IH] using obj_ind'; intros b H Hne; cbn [o_contains sleaves] in *.
  - destruct (o_within_g_leaf b _ H Hne) as (y & Hy & Ny & Hg). exists (SPoint p), y. split; [left; reflexivity|]. auto.
  - destruct (o_within_g_leaf b _ H Hne) as (y & Hy & Ny & Hg). exists (SPoint p), y. split; [left; reflexivity|]. auto.
  - destruct (o_within_g_leaf b _ H Hne) as (y & Hy & Ny & Hg). exists (SRect r), y. split; [left; reflexivity|]. auto.
  - destruct (o_within_g_leaf b _ H Hne) as (y & Hy & Ny & Hg). exists (SLine ps), y. split; [left; reflexivity|]. auto.
  - destruct (o_within_g_leaf b _ H Hne) as (y & Hy & Ny & Hg). exists (poly_shape rs), y. split; [left; reflexivity|].
    rewrite poly_shape_geom. auto.
  - apply IH; assumption.
  - destruct (forallb o_empty cs); [discriminate|].
    destruct (nonempty_parts_c b) as [|geom parts] eqn:Ep; [discriminate|].
    assert (Hg : In geom (nonempty_parts_c b)) by (rewrite Ep; left; reflexivity).
    cbn [forallb] in H. apply andb_true_iff in H. destruct H as [H _].
    apply existsb_exists in H. destruct H as (c & Hc & H). apply andb_true_iff in H. destruct H as [_ H].
    unfold nonempty_parts_c in Hg. apply filter_In in Hg. destruct Hg as [Hg Eg]. apply negb_true_iff in Eg.
    rewrite Forall_forall in IH. destruct (IH c Hc geom H Eg) as (x & y & Hx & Hy & Ny & Hgc).
    exists x, y. split; [apply in_flat_map; exists c; split; assumption|]. split; [|auto].
    rewrite sleaves_for_each_part. apply in_flat_map. exists geom. split; assumption.
Qed.

(* MAIN *)
Theorem o_contains_intersects (a b : obj) : obj_wf a -> obj_wf b ->
  (forall x, In x (sleaves a) -> recv_ok x) -> (forall y, In y (sleaves b) -> arg_ok y) ->
  (forall x y, In x (sleaves a) -> In y (sleaves b) -> no_hole_pair x y) ->
  o_empty b = false -> o_contains a b = true -> o_intersects a b = true.
Proof.
  intros Hwa Hwb Ha Hb Hnh Hne H. destruct (o_contains_leaf a b H Hne) as (x & y & Hx & Hy & Ny & Hg).
  apply (o_intersects_flat a b Hwa Hwb). exists x, y. split; [exact Hx|]. split; [exact Hy|].
  rewrite <- (g_intersects_sym x y (Hnh x y Hx Hy)).
  apply g_contains_intersects_all; [apply Ha; exact Hx|apply Hb; exact Hy|exact Ny|exact Hg].
Qed.

Print Assumptions o_contains_intersects.

(* not vacuous: a FeatureCollection of a polygon with a hole and a line contains a Feature of a
   collection (line along the rim, point in the material, empty line string skipped) *)
Definition law_a : obj :=
  OColl 4 [OFeature (OPoly [[(0,0);(8,0);(8,8);(0,8);(0,0)]; [(2,2);(4,2);(4,4);(2,4);(2,2)]]); OLine [(10,0);(14,0);(20,0)]].
Definition law_b : obj :=
  OFeature (OColl 3 [OLine [(0,0);(8,0);(8,3)]; OLine []; OPoint (5,5); ORect ((11,0),(13,0))]).
Example law_objects : o_contains law_a law_b = true /\ o_empty law_b = false /\ o_intersects law_a law_b = true.
Proof. vm_compute. repeat split; reflexivity. Qed.
