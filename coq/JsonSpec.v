(* JsonSpec.v — the specification of property C07, written from its text and
   independent of the parser's shape: a document is WELL-FORMED (then it must be
   accepted and decode to the stated tree), has a LISTED DEFECT (then it must be
   rejected), or is neither (then C07 says nothing).  "Standard decoding": the
   last of duplicate members counts; a position's x,y are its first two numbers. *)
From GJ Require Import Base JsonConst Json.

Inductive sclass := WF (t : gobj) | DEFECT | UNSPEC.

(* last member with that (decoded) name *)
Definition last_member (name : list Z) (ms : list (jkey * jv)) : option jv :=
  fold_left (fun acc kv => if bytes_eqb (snd (fst kv)) name then Some (snd kv) else acc) ms None.

Definition is_num (v : jv) : bool := match v with JNum _ (FV _) => true | _ => false end.
Definition num_of (v : jv) : fnum := match v with JNum _ f => f | _ => FNull end.

(* a position: an array of two to four numbers.  allow_null: Point / MultiPoint *)
Definition class_position (allow_null : bool) (v : jv) : sclass :=
  match v with
  | JArr l =>
      let first4 := firstn 4 l in
      if (length l <? 2)%nat then DEFECT
      else if negb (forallb (fun x => is_num x || (allow_null && match x with JNull => true | _ => false end)
                                       || match x with JNum _ _ => true | _ => false end) first4)
           then DEFECT                                        (* a non-numeric value among the first four *)
      else if forallb is_num l && (length l <=? 4)%nat
           then WF (JPoint (num_of (nth 0 l JNull), num_of (nth 1 l JNull)) None)
      else UNSPEC                                             (* nulls, non-finite numbers, more than four values *)
  | _ => UNSPEC
  end.

(* combine the classes of a sequence: a defect anywhere is a defect *)
Fixpoint class_all (l : list sclass) : option (list gobj) + bool :=   (* inl (Some ts) all WF | inr true DEFECT | inr false UNSPEC *)
  match l with
  | [] => inl (Some [])
  | c :: r =>
      match c, class_all r with
      | DEFECT, _ => inr true
      | _, inr true => inr true
      | UNSPEC, _ => inr false
      | _, inr false => inr false
      | WF t, inl (Some ts) => inl (Some (t :: ts))
      | WF t, inl None => inr false
      end
  end.

Definition pt_of (g : gobj) : fpt := match g with JPoint p _ => p | _ => (FNull, FNull) end.

Definition class_positions (v : jv) : option (list fpt) + bool :=
  match v with
  | JArr l =>
      match class_all (map (class_position false) l) with
      | inl (Some ts) => inl (Some (map pt_of ts))
      | inl None => inr false
      | inr b => inr b
      end
  | _ => inr false
  end.

(* a line: an array of at least two positions *)
Definition class_line (v : jv) : sclass :=
  match class_positions v with
  | inl (Some ps) => if (length ps <? 2)%nat then DEFECT else WF (JLine ps None)
  | inl None => UNSPEC
  | inr true => DEFECT
  | inr false => match v with JArr l => if (length l <? 2)%nat then DEFECT else UNSPEC | _ => UNSPEC end
  end.

(* a ring: an array of at least four positions, first = last *)
Definition class_ring (v : jv) : sclass :=
  match class_positions v with
  | inl (Some ps) => if ring_ok ps then WF (JLine ps None) else DEFECT
  | inl None => UNSPEC
  | inr true => DEFECT
  | inr false => match v with JArr l => if (length l <? 4)%nat then DEFECT else UNSPEC | _ => UNSPEC end
  end.

Definition line_of (g : gobj) : list fpt := match g with JLine ps _ => ps | _ => [] end.

(* a polygon: an array of at least one ring *)
Definition class_polygon (v : jv) : sclass :=
  match v with
  | JArr [] => DEFECT
  | JArr l =>
      match class_all (map class_ring l) with
      | inl (Some ts) => WF (JPoly (map line_of ts) None)
      | inl None => UNSPEC
      | inr true => DEFECT
      | inr false => UNSPEC
      end
  | _ => UNSPEC
  end.

Definition class_multi (k : Z) (f : jv -> sclass) (v : jv) : sclass :=
  match v with
  | JArr l =>
      match class_all (map f l) with
      | inl (Some ts) => WF (JColl k ts None)
      | inl None => UNSPEC
      | inr true => DEFECT
      | inr false => UNSPEC
      end
  | _ => DEFECT                 (* required member that is not an array *)
  end.

Fixpoint class_doc (fuel : nat) (v : jv) : sclass :=
  match fuel with
  | O => UNSPEC
  | S f =>
  match v with
  | JObj ms =>
      match last_member s_type ms with
      | None => DEFECT
      | Some (JStr _ t) =>
          let req (name : list Z) (k : jv -> sclass) : sclass :=
            match last_member name ms with None => DEFECT | Some m => k m end in
          let arr (k : jv -> sclass) (m : jv) : sclass := if is_array m then k m else DEFECT in
          if bytes_eqb t s_Point then req s_coordinates (arr (class_position true))
          else if bytes_eqb t s_LineString then req s_coordinates (arr class_line)
          else if bytes_eqb t s_Polygon then req s_coordinates (arr class_polygon)
          else if bytes_eqb t s_MultiPoint then req s_coordinates (class_multi 0 (class_position true))
          else if bytes_eqb t s_MultiLineString then req s_coordinates (class_multi 1 class_line)
          else if bytes_eqb t s_MultiPolygon then req s_coordinates (class_multi 2 class_polygon)
          else if bytes_eqb t s_GeometryCollection then req s_geometries (class_multi 3 (class_doc f))
          else if bytes_eqb t s_FeatureCollection then req s_features (class_multi 4 (class_doc f))
          else if bytes_eqb t s_Feature then
            (* the Tile38 Circle convention yields a Circle object, not a Feature: outside C07's decoding clause *)
            if match get2 s_properties s_type ms with Some tv => bytes_eqb (str_of tv) s_Circle | None => false end
            then match last_member s_geometry ms with None => DEFECT | Some _ => UNSPEC end
            else
            req s_geometry (fun g => match g with
                                     | JObj _ => match class_doc f g with WF t => WF (JFeature t None) | c => c end
                                     | _ => UNSPEC
                                     end)
          else DEFECT           (* unknown type *)
      | Some _ => DEFECT         (* non-string type *)
      end
  | _ => DEFECT                   (* not an object *)
  end
  end.
