(* SphereSemi.v — property C15, the semicircle encoding over the reals:
   DegsToSemi truncates degs * 2^31/180 toward zero (Go's int32 conversion, no
   overflow for |degs| < 180) and SemiToDegs multiplies back; the round trip
   moves a coordinate by less than 180/2^31 degrees, i.e. less than 1 cm of arc
   on the Earth (the property allows 2 cm). *)
From Coq Require Import Reals Lra Lia.
From Interval Require Import Tactic.
From GJ Require Import Sphere.
Open Scope R_scope.

(* truncation toward zero *)
Definition trunc (r : R) : Z := if Rle_dec 0 r then Int_part r else (- Int_part (- r))%Z.

Lemma trunc_close (r : R) : Rabs (IZR (trunc r) - r) < 1.
Proof.
  unfold trunc. destruct (Rle_dec 0 r) as [H|H].
  - destruct (base_Int_part r) as [A B]. apply Rabs_def1; lra.
  - destruct (base_Int_part (- r)) as [A B]. rewrite opp_IZR. apply Rabs_def1; lra.
Qed.

Definition semi_scale : R := 2 ^ 31 / 180.
Definition degs_to_semi (x : R) : Z := trunc (x * semi_scale).
Definition semi_to_degs (s : Z) : R := IZR s * (180 / 2 ^ 31).

Theorem semi_roundtrip (x : R) : Rabs (semi_to_degs (degs_to_semi x) - x) < 180 / 2 ^ 31.
Proof.
  unfold semi_to_degs, degs_to_semi, semi_scale. pose proof (trunc_close (x * (2 ^ 31 / 180))) as H.
  set (t := IZR (trunc (x * (2 ^ 31 / 180)))) in *.
  assert (P : 0 < 180 / 2 ^ 31) by (apply Rdiv_lt_0_compat; [lra|apply pow_lt; lra]).
  replace (t * (180 / 2 ^ 31) - x) with ((t - x * (2 ^ 31 / 180)) * (180 / 2 ^ 31)).
  2:{ field. }
  rewrite Rabs_mult, (Rabs_right (180 / 2 ^ 31)) by lra.
  rewrite <- (Rmult_1_l (180 / 2 ^ 31)) at 2. apply Rmult_lt_compat_r; assumption.
Qed.

(* on the ground: less than one centimetre of arc *)
Theorem semi_roundtrip_ground : rad (180 / 2 ^ 31) * Rearth < 1 / 100.
Proof. unfold rad, Rearth. interval. Qed.

Print Assumptions semi_roundtrip.
