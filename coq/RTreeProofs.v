(* RTreeProofs.v — the R-tree of geometry/rtree.go (model: Index.v) is an exact
   accelerator at the tree level: a search of the tree built by successive
   inserts reports exactly the items whose rectangle meets the query, each
   once; nodes hold at most 17 kids transiently and at most 16 after each
   insert; all leaves are at depth = height.

   Key modelling fact used throughout: in the order "c contains b" on boxes,
   [rexpand] is the binary join and [rrecalc] the join of a non-empty list, and
   every node box of a tree built by inserts is the EXACT join of its kids'
   boxes ([is_lub]).  Exactness (tightness) is what makes both halves of
   [rsplit] non-empty, hence the 16-kid bound. *)
From Coq Require Import Sorting.Permutation.
From GJ Require Import Base Kernel Index.
Open Scope Z_scope.

(* ------------------------------------------------------------------ *)
(* generic list helpers                                                 *)

Lemma filter_none {A} (f : A -> bool) (l : list A) :
  (forall x, In x l -> f x = false) -> filter f l = [].
Proof.
  induction l as [|a l IH]; intros H; [reflexivity|].
  cbn [filter]. rewrite (H a (or_introl eq_refl)). apply IH.
  intros x Hx. apply H. right; exact Hx.
Qed.

Lemma filter_flat_map {A B} (f : B -> bool) (g : A -> list B) (l : list A) :
  filter f (flat_map g l) = flat_map (fun x => filter f (g x)) l.
Proof.
  induction l as [|a l IH]; [reflexivity|].
  cbn [flat_map]. rewrite filter_app, IH. reflexivity.
Qed.

Lemma flat_map_ext_in' {A B} (f g : A -> list B) (l : list A) :
  (forall x, In x l -> f x = g x) -> flat_map f l = flat_map g l.
Proof.
  induction l as [|a l IH]; intros H; [reflexivity|].
  cbn [flat_map]. rewrite (H a (or_introl eq_refl)), IH; [reflexivity|].
  intros x Hx. apply H. right; exact Hx.
Qed.

Lemma perm_flat_map {A B} (f : A -> list B) (l l' : list A) :
  Permutation l l' -> Permutation (flat_map f l) (flat_map f l').
Proof.
  induction 1 as [|x l l' _ IH|x y l|l l' l'' _ IH1 _ IH2].
  - constructor.
  - cbn [flat_map]. apply Permutation_app_head. exact IH.
  - cbn [flat_map]. rewrite !app_assoc. apply Permutation_app_tail, Permutation_app_comm.
  - eapply perm_trans; eassumption.
Qed.

Lemma fm_cons {A B} (f : A -> list B) x l : flat_map f (x :: l) = f x ++ flat_map f l.
Proof. reflexivity. Qed.

Lemma perm_insert_mid {T} (A B C B' : list T) x :
  Permutation B' (x :: B) -> Permutation (A ++ B' ++ C) (x :: A ++ B ++ C).
Proof.
  intros H. eapply perm_trans.
  - apply Permutation_app_head, Permutation_app_tail, H.
  - cbn [app]. apply Permutation_sym, Permutation_middle.
Qed.

Lemma perm_Forall {A} (P : A -> Prop) (l l' : list A) :
  Permutation l l' -> Forall P l -> Forall P l'.
Proof.
  intros Hp Hf. rewrite Forall_forall in *. intros x Hx. apply Hf.
  eapply Permutation_in; [apply Permutation_sym; exact Hp|exact Hx].
Qed.

Lemma incl_Forall' {A} (P : A -> Prop) (l l' : list A) :
  (forall x, In x l -> In x l') -> Forall P l' -> Forall P l.
Proof.
  intros Hi Hf. rewrite Forall_forall in *. intros x Hx. apply Hf, Hi, Hx.
Qed.

Lemma length_pos_ne {A} (l : list A) : l <> [] <-> (0 < length l)%nat.
Proof. destruct l; cbn [length]; split; intros; try congruence; try lia. Qed.

(* the element at position i, and what set_nth does there *)
Lemma nth_split_set {A} (l : list A) : forall i, (i < length l)%nat ->
  exists k1 x k2, l = k1 ++ x :: k2 /\ nth_error l i = Some x /\
                  forall y, set_nth l i y = k1 ++ y :: k2.
Proof.
  induction l as [|a l IH]; intros i Hi; cbn [length] in Hi; [lia|].
  destruct i as [|i].
  - exists [], a, l. repeat split.
  - destruct (IH i) as (k1 & x & k2 & E & N & S); [lia|].
    exists (a :: k1), x, k2. repeat split.
    + cbn [app]. f_equal. exact E.
    + exact N.
    + intros y. cbn [set_nth app]. f_equal. apply S.
Qed.

(* ------------------------------------------------------------------ *)
(* 1. Box lemmas                                                        *)

Definition nonempty (r : rect) : Prop :=
  px (fst r) <= px (snd r) /\ py (fst r) <= py (snd r).

(* rcontains c b : "c contains b", a product order on the 4 coordinates *)
Lemma rcontains_iff c b :
  rcontains c b = true <->
  fst (fst c) <= fst (fst b) /\ snd (fst c) <= snd (fst b) /\
  fst (snd b) <= fst (snd c) /\ snd (snd b) <= snd (snd c).
Proof.
  destruct c as [[c1 c2] [c3 c4]], b as [[b1 b2] [b3 b4]].
  unfold rcontains. cbn [fst snd].
  rewrite negb_true_iff, !orb_false_iff, !Z.ltb_ge. lia.
Qed.

Lemma rcontains_refl b : rcontains b b = true.
Proof. apply rcontains_iff. lia. Qed.

Lemma rcontains_trans a b c :
  rcontains a b = true -> rcontains b c = true -> rcontains a c = true.
Proof. rewrite !rcontains_iff. lia. Qed.

(* rexpand is the join: it covers both arguments and is the least such box *)
Lemma rexpand_lub c r b :
  rcontains c (rexpand r b) = true <-> rcontains c r = true /\ rcontains c b = true.
Proof.
  rewrite !rcontains_iff.
  destruct c as [[c1 c2] [c3 c4]], r as [[r1 r2] [r3 r4]], b as [[b1 b2] [b3 b4]].
  unfold rexpand. cbn [fst snd].
  destruct (Z.ltb_spec b1 r1), (Z.ltb_spec b2 r2), (Z.ltb_spec r3 b3), (Z.ltb_spec r4 b4); lia.
Qed.

Lemma rexpand_covers_l r b : rcontains (rexpand r b) r = true.
Proof. apply (proj1 (rexpand_lub _ r b)), rcontains_refl. Qed.

Lemma rexpand_covers_r r b : rcontains (rexpand r b) b = true.
Proof. apply (proj1 (rexpand_lub _ r b)), rcontains_refl. Qed.

(* the form asked for (non-emptiness is not actually needed) *)
Lemma rexpand_covers r b :
  nonempty r -> nonempty b ->
  rcontains (rexpand r b) r = true /\ rcontains (rexpand r b) b = true.
Proof. intros _ _. split; [apply rexpand_covers_l|apply rexpand_covers_r]. Qed.

Lemma rexpand_absorb r b : rcontains r b = true -> rexpand r b = r.
Proof.
  rewrite rcontains_iff.
  destruct r as [[r1 r2] [r3 r4]], b as [[b1 b2] [b3 b4]].
  unfold rexpand. cbn [fst snd]. intros H.
  destruct (Z.ltb_spec b1 r1), (Z.ltb_spec b2 r2), (Z.ltb_spec r3 b3), (Z.ltb_spec r4 b4);
    try lia; reflexivity.
Qed.

Lemma nonempty_mono c b : rcontains c b = true -> nonempty b -> nonempty c.
Proof.
  rewrite rcontains_iff. unfold nonempty, px, py. lia.
Qed.

Lemma rexpand_nonempty r b : nonempty r -> nonempty (rexpand r b).
Proof. apply nonempty_mono, rexpand_covers_l. Qed.

Lemma rir_iff r o :
  rect_intersects_rect r o = true <->
  snd (fst r) <= snd (snd o) /\ snd (fst o) <= snd (snd r) /\
  fst (fst r) <= fst (snd o) /\ fst (fst o) <= fst (snd r).
Proof.
  destruct r as [[r1 r2] [r3 r4]], o as [[o1 o2] [o3 o4]].
  unfold rect_intersects_rect, px, py. cbn [fst snd].
  destruct (Z.ltb_spec o4 r2), (Z.ltb_spec r4 o2), (Z.ltb_spec o3 r1), (Z.ltb_spec r3 o1);
    cbn [orb]; split; intros; try discriminate; try lia; reflexivity.
Qed.

(* a box meeting the query forces every covering box to meet it (argument
   order as used by rsearch: rect_intersects_rect q B) *)
Lemma contains_intersects B r q :
  rcontains B r = true -> rect_intersects_rect r q = true ->
  rect_intersects_rect q B = true.
Proof. rewrite rcontains_iff, !rir_iff. lia. Qed.

Lemma contains_intersects_ne B r q :
  rcontains B r = true -> nonempty r -> rect_intersects_rect r q = true ->
  rect_intersects_rect q B = true.
Proof. intros H _. apply contains_intersects, H. Qed.

(* covers / least upper bound *)
Definition covers (c : rect) (kids : list rnode) : Prop :=
  Forall (fun k => rcontains c (rbox k) = true) kids.

Definition is_lub (b : rect) (kids : list rnode) : Prop :=
  forall c, rcontains c b = true <-> covers c kids.

Lemma covers_nil c : covers c [] <-> True.
Proof. unfold covers. split; auto. Qed.

Lemma covers_cons c k l : covers c (k :: l) <-> rcontains c (rbox k) = true /\ covers c l.
Proof. apply Forall_cons_iff. Qed.

Lemma covers_app c l1 l2 : covers c (l1 ++ l2) <-> covers c l1 /\ covers c l2.
Proof. apply Forall_app. Qed.

Lemma covers_perm c l l' : Permutation l l' -> (covers c l <-> covers c l').
Proof.
  intros H. split; apply perm_Forall; [exact H|apply Permutation_sym, H].
Qed.

Lemma is_lub_covers b kids : is_lub b kids -> covers b kids.
Proof. intros H. apply H, rcontains_refl. Qed.

Lemma recalc_fold_lub c : forall r acc,
  rcontains c (fold_left (fun acc x => rexpand acc (rbox x)) r acc) = true <->
  rcontains c acc = true /\ covers c r.
Proof.
  induction r as [|k r IH]; intros acc; cbn [fold_left].
  - rewrite covers_nil. tauto.
  - rewrite IH, rexpand_lub, covers_cons. tauto.
Qed.

(* rrecalc is the exact join of a non-empty list of kids *)
Lemma rrecalc_lub kids : kids <> [] -> is_lub (rrecalc kids) kids.
Proof.
  destruct kids as [|k r]; [congruence|]. intros _ c.
  unfold rrecalc. rewrite recalc_fold_lub, covers_cons. tauto.
Qed.

Lemma rrecalc_covers kids : kids <> [] -> covers (rrecalc kids) kids.
Proof. intros H. apply is_lub_covers, rrecalc_lub, H. Qed.

(* rrecalc covers every kid's box (vacuous for the empty list) *)
Lemma rrecalc_covers_all kids k :
  In k kids -> rcontains (rrecalc kids) (rbox k) = true.
Proof.
  intros Hk. assert (Hne : kids <> []) by (destruct kids; [contradiction|congruence]).
  pose proof (rrecalc_covers kids Hne) as Hc. unfold covers in Hc.
  rewrite Forall_forall in Hc. apply Hc, Hk.
Qed.

(* ------------------------------------------------------------------ *)
(* choose_least returns a valid index                                   *)

Definition cl_step (bnx bny bxx bxy : Z) (st : Z * Z * Z * Z) (c : rnode) : Z * Z * Z * Z :=
  let '(i, j, jenl, jarea) := st in
  let '((rnx, rny), (rxx, rxy)) := rbox c in
  let area := (rxx - rnx) * (rxy - rny) in
  let enl := enlarged_len bnx bxx rnx rxx * enlarged_len bny bxy rny rxy - area in
  if (j =? -1) || (enl <? jenl) then (i + 1, i, enl, area)
  else if (enl =? jenl) && (area <? jarea) then (i + 1, i, enl, area)
  else (i + 1, j, jenl, jarea).

Lemma choose_least_eq kids bnx bny bxx bxy :
  choose_least kids ((bnx, bny), (bxx, bxy)) =
  let '(_, j, _, _) := fold_left (cl_step bnx bny bxx bxy) kids (0, -1, 0, 0) in Z.to_nat j.
Proof. reflexivity. Qed.

Lemma cl_step_spec bnx bny bxx bxy i j e a c :
  exists j' e' a', cl_step bnx bny bxx bxy (i, j, e, a) c = (i + 1, j', e', a') /\
                   (j' = i \/ (j' = j /\ j <> -1)).
Proof.
  unfold cl_step. destruct (rbox c) as [[rnx rny] [rxx rxy]].
  cbv zeta.
  destruct (Z.eqb_spec j (-1)) as [Hj|Hj]; cbn [orb].
  - do 3 eexists. split; [reflexivity|]. left; reflexivity.
  - match goal with |- context [if ?x <? ?y then _ else _] => destruct (x <? y) end.
    + do 3 eexists. split; [reflexivity|]. left; reflexivity.
    + match goal with |- context [if ?x && ?y then _ else _] => destruct (x && y) end.
      * do 3 eexists. split; [reflexivity|]. left; reflexivity.
      * do 3 eexists. split; [reflexivity|]. right; split; [reflexivity|exact Hj].
Qed.

Lemma cl_fold_spec bnx bny bxx bxy : forall kids i j e a,
  0 <= i -> -1 <= j < i ->
  exists j' e' a',
    fold_left (cl_step bnx bny bxx bxy) kids (i, j, e, a) = (i + Z.of_nat (length kids), j', e', a') /\
    -1 <= j' < i + Z.of_nat (length kids) /\
    ((0 <= j \/ kids <> []) -> 0 <= j').
Proof.
  induction kids as [|c kids IH]; intros i j e a Hi Hj.
  - exists j, e, a. cbn [fold_left length]. rewrite Z.add_0_r. repeat split; try lia.
    intros [H|H]; [lia|congruence].
  - cbn [fold_left].
    destruct (cl_step_spec bnx bny bxx bxy i j e a c) as (j1 & e1 & a1 & E & Hj1).
    rewrite E.
    destruct (IH (i + 1) j1 e1 a1) as (j' & e' & a' & E' & B & P); [lia|lia|].
    exists j', e', a'. cbn [length]. rewrite Nat2Z.inj_succ.
    replace (i + Z.succ (Z.of_nat (length kids))) with (i + 1 + Z.of_nat (length kids)) by lia.
    split; [exact E'|]. split; [exact B|].
    intros _. apply P. left. lia.
Qed.

Lemma choose_least_lt kids ib : kids <> [] -> (choose_least kids ib < length kids)%nat.
Proof.
  intros Hne. destruct ib as [[bnx bny] [bxx bxy]]. rewrite choose_least_eq.
  destruct (cl_fold_spec bnx bny bxx bxy kids 0 (-1) 0 0) as (j & e & a & E & B & P); [lia|lia|].
  rewrite E. specialize (P (or_intror Hne)). lia.
Qed.

(* ------------------------------------------------------------------ *)
(* split_loop / rsplit                                                  *)

Definition mind (ax : bool) (lb : rect) (x : rnode) : Z :=
  if ax then fst (fst (rbox x)) - fst (fst lb) else snd (fst (rbox x)) - snd (fst lb).
Definition maxd (ax : bool) (lb : rect) (x : rnode) : Z :=
  if ax then fst (snd lb) - fst (snd (rbox x)) else snd (snd lb) - snd (snd (rbox x)).

Lemma split_loop_step f ax lb kept x rest' right equals :
  split_loop (S f) ax lb kept (x :: rest') right equals =
  if mind ax lb x <? maxd ax lb x then split_loop f ax lb (kept ++ [x]) rest' right equals
  else
    let right' := if maxd ax lb x <? mind ax lb x then right ++ [x] else right in
    let equals' := if maxd ax lb x <? mind ax lb x then equals else equals ++ [x] in
    match rest' with
    | [] => (kept, right', equals')
    | _ => split_loop f ax lb kept (last rest' x :: removelast rest') right' equals'
    end.
Proof.
  unfold mind, maxd. destruct lb as [[lnx lny] [lxx lxy]].
  cbn [split_loop]. destruct (rbox x) as [[xnx xny] [xxx xxy]]. cbn [fst snd].
  reflexivity.
Qed.

Section SplitLoop.
  Variable ax : bool.
  Variable lb : rect.
  Let PL (x : rnode) : Prop := mind ax lb x < maxd ax lb x.
  Let PR (x : rnode) : Prop := maxd ax lb x < mind ax lb x.
  Let PE (x : rnode) : Prop := mind ax lb x = maxd ax lb x.

  (* fuel = length rest suffices; the four lists are preserved as a multiset
     and every element is classified by the sign of mind - maxd *)
  Lemma split_loop_spec : forall fuel kept rest right equals,
    (length rest <= fuel)%nat ->
    Forall PL kept -> Forall PR right -> Forall PE equals ->
    exists L R E,
      split_loop fuel ax lb kept rest right equals = (L, R, E) /\
      Permutation (L ++ R ++ E) (kept ++ rest ++ right ++ equals) /\
      Forall PL L /\ Forall PR R /\ Forall PE E.
  Proof.
    induction fuel as [|f IH]; intros kept rest right equals Hlen HL HR HE.
    - destruct rest; cbn [length] in Hlen; [|lia].
      cbn [split_loop]. exists (kept ++ []), right, equals.
      rewrite app_nil_r. cbn [app]. repeat split; auto.
    - destruct rest as [|x rest'].
      + cbn [split_loop]. exists kept, right, equals. cbn [app]. repeat split; auto.
      + rewrite split_loop_step. cbn [length] in Hlen.
        destruct (Z.ltb_spec (mind ax lb x) (maxd ax lb x)) as [Hlt|Hge].
        * destruct (IH (kept ++ [x]) rest' right equals) as (L & R & E & Eq & Hp & H1 & H2 & H3);
            [lia| |exact HR|exact HE|].
          { apply Forall_app. split; [exact HL|]. constructor; [exact Hlt|constructor]. }
          exists L, R, E. split; [exact Eq|]. split; [|auto].
          rewrite <- app_assoc in Hp. exact Hp.
        * cbv zeta.
          set (right' := if maxd ax lb x <? mind ax lb x then right ++ [x] else right).
          set (equals' := if maxd ax lb x <? mind ax lb x then equals else equals ++ [x]).
          assert (HR' : Forall PR right').
          { subst right'. destruct (Z.ltb_spec (maxd ax lb x) (mind ax lb x)); [|exact HR].
            apply Forall_app. split; [exact HR|]. constructor; [assumption|constructor]. }
          assert (HE' : Forall PE equals').
          { subst equals'. destruct (Z.ltb_spec (maxd ax lb x) (mind ax lb x)); [exact HE|].
            apply Forall_app. split; [exact HE|]. constructor; [unfold PE; lia|constructor]. }
          assert (Hp' : Permutation (right' ++ equals') (x :: right ++ equals)).
          { subst right' equals'. destruct (maxd ax lb x <? mind ax lb x).
            - rewrite <- app_assoc. cbn [app]. apply Permutation_sym, Permutation_middle.
            - rewrite app_assoc. apply Permutation_sym, Permutation_cons_append. }
          clearbody right' equals'.
          destruct rest' as [|y rest''].
          { exists kept, right', equals'. split; [reflexivity|]. split; [|auto].
            cbn [app]. apply Permutation_app_head. exact Hp'. }
          set (rest' := y :: rest'') in *.
          assert (Hne : rest' <> []) by (subst rest'; congruence).
          destruct (IH kept (last rest' x :: removelast rest') right' equals')
            as (L & R & E & Eq & Hp & H1 & H2 & H3); [|exact HL|exact HR'|exact HE'|].
          { pose proof (app_removelast_last x Hne) as Hrl.
            apply (f_equal (@length _)) in Hrl. rewrite app_length in Hrl.
            cbn [length] in *. lia. }
          exists L, R, E. split; [exact Eq|]. split; [|auto].
          eapply perm_trans; [exact Hp|].
          apply Permutation_app_head.
          (* (last :: removelast) ++ right' ++ equals'  ~  x :: rest' ++ right ++ equals *)
          assert (Hrl : Permutation (last rest' x :: removelast rest') rest').
          { rewrite (app_removelast_last x Hne) at 3.
            apply Permutation_cons_append. }
          eapply perm_trans; [apply Permutation_app; [exact Hrl|exact Hp']|].
          apply Permutation_sym. change (Permutation (x :: rest' ++ right ++ equals) (rest' ++ x :: right ++ equals)).
          apply Permutation_middle.
  Qed.
End SplitLoop.

(* Tightness is necessary for both halves to be non-empty: with a box that is
   not the exact join of the kids, every kid can fall on the same side. *)
Example rsplit_needs_tight :
  rsplit ((0, 0), (100, 1)) [RItem ((0, 0), (1, 1)) 0; RItem ((1, 0), (2, 1)) 1] =
  (RNode ((0, 0), (2, 1)) [RItem ((0, 0), (1, 1)) 0; RItem ((1, 0), (2, 1)) 1],
   RNode ((0, 0), (0, 0)) []).
Proof. vm_compute. reflexivity. Qed.

(* distribution of the "equals" between the two sides *)
Definition dist (lr : list rnode * list rnode) (e : rnode) : list rnode * list rnode :=
  let '(l, r) := lr in
  if (length l <? length r)%nat then (l ++ [e], r) else (l, r ++ [e]).

Lemma dist_spec : forall eq l0 r0,
  exists l r, fold_left dist eq (l0, r0) = (l, r) /\
    Permutation (l ++ r) (l0 ++ r0 ++ eq) /\
    (((0 < length l0)%nat /\ (0 < length r0)%nat) \/
     (eq <> [] /\ (2 <= length l0 + length r0 + length eq)%nat) ->
     (0 < length l)%nat /\ (0 < length r)%nat).
Proof.
  induction eq as [|e eq IH]; intros l0 r0.
  - exists l0, r0. cbn [fold_left]. rewrite app_nil_r.
    split; [reflexivity|]. split; [reflexivity|].
    intros [H|[H _]]; [exact H|congruence].
  - cbn [fold_left]. unfold dist at 2.
    destruct (Nat.ltb_spec (length l0) (length r0)) as [Hlt|Hge].
    + destruct (IH (l0 ++ [e]) r0) as (l & r & E & Hp & Hne).
      exists l, r. split; [exact E|]. split.
      * eapply perm_trans; [exact Hp|]. rewrite <- app_assoc. apply Permutation_app_head.
        cbn [app]. apply Permutation_middle.
      * intros _. apply Hne. left. rewrite app_length. cbn [length]. lia.
    + destruct (IH l0 (r0 ++ [e])) as (l & r & E & Hp & Hne).
      exists l, r. split; [exact E|]. split.
      * eapply perm_trans; [exact Hp|]. apply Permutation_app_head.
        rewrite <- app_assoc. reflexivity.
      * intros H. apply Hne. rewrite app_length. cbn [length] in *.
        destruct l0 as [|a l0'].
        -- right. cbn [length] in *. destruct H as [[H _]|[_ H]]; [lia|].
           split; [|lia]. destruct eq; cbn [length] in *; [lia|congruence].
        -- left. cbn [length]. lia.
Qed.

Lemma rsplit_eq bnx bny bxx bxy kids :
  rsplit ((bnx, bny), (bxx, bxy)) kids =
  let ax := negb (bxx - bnx <? bxy - bny) in
  let '(lft, rgt, equals) := split_loop (length kids) ax ((bnx, bny), (bxx, bxy)) [] kids [] [] in
  let '(l, r) := fold_left dist equals (lft, rgt) in
  (RNode (rrecalc l) l, RNode (rrecalc r) r).
Proof. reflexivity. Qed.

(* rsplit partitions the kids (no tightness needed) *)
Lemma rsplit_perm b kids :
  exists l r, rsplit b kids = (RNode (rrecalc l) l, RNode (rrecalc r) r) /\
              Permutation (l ++ r) kids.
Proof.
  destruct b as [[bnx bny] [bxx bxy]]. rewrite rsplit_eq. cbv zeta.
  set (ax := negb (bxx - bnx <? bxy - bny)). set (b := ((bnx, bny), (bxx, bxy))).
  destruct (split_loop_spec ax b (length kids) [] kids [] [] (le_n _)
              (Forall_nil _) (Forall_nil _) (Forall_nil _))
    as (L & R & E & Eq & Hp & _).
  rewrite Eq.
  destruct (dist_spec E L R) as (l & r & Ed & Hpd & _). rewrite Ed.
  exists l, r. split; [reflexivity|].
  eapply perm_trans; [exact Hpd|]. cbn [app] in Hp. rewrite !app_nil_r in Hp. exact Hp.
Qed.

(* with an exact (tight) box and >= 2 kids both halves are non-empty *)
Lemma rsplit_spec b kids :
  is_lub b kids -> (2 <= length kids)%nat ->
  exists l r, rsplit b kids = (RNode (rrecalc l) l, RNode (rrecalc r) r) /\
              Permutation (l ++ r) kids /\ l <> [] /\ r <> [].
Proof.
  intros Hlub Hlen.
  pose proof (is_lub_covers _ _ Hlub) as Hcov.
  destruct b as [[bnx bny] [bxx bxy]]. rewrite rsplit_eq. cbv zeta.
  set (ax := negb (bxx - bnx <? bxy - bny)). set (b := ((bnx, bny), (bxx, bxy))) in *.
  destruct (split_loop_spec ax b (length kids) [] kids [] [] (le_n _)
              (Forall_nil _) (Forall_nil _) (Forall_nil _))
    as (L & R & E & Eq & Hp & HL & HR & HE).
  rewrite Eq. cbn [app] in Hp. rewrite !app_nil_r in Hp.
  destruct (dist_spec E L R) as (l & r & Ed & Hpd & Hne). rewrite Ed.
  exists l, r. split; [reflexivity|].
  split; [eapply perm_trans; [exact Hpd|exact Hp]|].
  rewrite !length_pos_ne. apply Hne.
  pose proof (Permutation_length Hp) as Hl. rewrite !app_length in Hl.
  destruct E as [|e E'].
  2:{ right. split; [congruence|]. lia. }
  left. rewrite app_nil_r in Hp. cbn [length] in Hl.
  split.
  - (* L empty: every kid is strictly nearer the max side, so the box min is not attained *)
    destruct L as [|x L']; [exfalso|cbn [length]; lia]. cbn [app] in Hp.
    assert (HRk : Forall (fun x => maxd ax b x < mind ax b x) kids)
      by (eapply perm_Forall; [exact Hp|exact HR]).
    destruct ax.
    + assert (Hc : covers ((bnx + 1, bny), (bxx, bxy)) kids).
      { unfold covers in *. rewrite Forall_forall in *. intros k Hk.
        specialize (HRk k Hk). specialize (Hcov k Hk).
        unfold mind, maxd in HRk. subst b. cbn [fst snd] in HRk.
        rewrite rcontains_iff in *. cbn [fst snd] in *. lia. }
      apply Hlub in Hc. rewrite rcontains_iff in Hc. subst b. cbn [fst snd] in Hc. lia.
    + assert (Hc : covers ((bnx, bny + 1), (bxx, bxy)) kids).
      { unfold covers in *. rewrite Forall_forall in *. intros k Hk.
        specialize (HRk k Hk). specialize (Hcov k Hk).
        unfold mind, maxd in HRk. subst b. cbn [fst snd] in HRk.
        rewrite rcontains_iff in *. cbn [fst snd] in *. lia. }
      apply Hlub in Hc. rewrite rcontains_iff in Hc. subst b. cbn [fst snd] in Hc. lia.
  - destruct R as [|x R']; [exfalso|cbn [length]; lia]. rewrite app_nil_r in Hp.
    assert (HLk : Forall (fun x => mind ax b x < maxd ax b x) kids)
      by (eapply perm_Forall; [exact Hp|exact HL]).
    destruct ax.
    + assert (Hc : covers ((bnx, bny), (bxx - 1, bxy)) kids).
      { unfold covers in *. rewrite Forall_forall in *. intros k Hk.
        specialize (HLk k Hk). specialize (Hcov k Hk).
        unfold mind, maxd in HLk. subst b. cbn [fst snd] in HLk.
        rewrite rcontains_iff in *. cbn [fst snd] in *. lia. }
      apply Hlub in Hc. rewrite rcontains_iff in Hc. subst b. cbn [fst snd] in Hc. lia.
    + assert (Hc : covers ((bnx, bny), (bxx, bxy - 1)) kids).
      { unfold covers in *. rewrite Forall_forall in *. intros k Hk.
        specialize (HLk k Hk). specialize (Hcov k Hk).
        unfold mind, maxd in HLk. subst b. cbn [fst snd] in HLk.
        rewrite rcontains_iff in *. cbn [fst snd] in *. lia. }
      apply Hlub in Hc. rewrite rcontains_iff in Hc. subst b. cbn [fst snd] in Hc. lia.
Qed.

(* for the 17-kid overflow node: both halves hold between 1 and 16 kids *)
Corollary rsplit_17 b kids :
  is_lub b kids -> length kids = 17%nat ->
  exists l r, rsplit b kids = (RNode (rrecalc l) l, RNode (rrecalc r) r) /\
              Permutation (l ++ r) kids /\
              (1 <= length l <= 16)%nat /\ (1 <= length r <= 16)%nat.
Proof.
  intros Hlub H17.
  destruct (rsplit_spec b kids Hlub) as (l & r & E & Hp & Hl & Hr); [lia|].
  exists l, r. split; [exact E|]. split; [exact Hp|].
  apply length_pos_ne in Hl. apply length_pos_ne in Hr.
  pose proof (Permutation_length Hp) as Hlen. rewrite app_length in Hlen. lia.
Qed.

(* ------------------------------------------------------------------ *)
(* rinsert equations                                                    *)

(* what the caller of rinsert makes of its result: expand the box when grown *)
Definition rins2 (h : nat) (n : rnode) (ib : rect) (item : Z) : rnode :=
  let '(n1, g) := rinsert h n ib item in
  if g then set_box n1 (rexpand (rbox n1) ib) else n1.

Lemma rinsert_0 b kids ib item :
  rinsert 0 (RNode b kids) ib item =
  (RNode b (kids ++ [RItem ib item]), negb (rcontains b ib)).
Proof. reflexivity. Qed.

Lemma rinsert_S h b kids ib item :
  rinsert (S h) (RNode b kids) ib item =
  match nth_error kids (choose_least kids ib) with
  | None => (RNode b kids, false)
  | Some child =>
      let child2 := rins2 h child ib item in
      let grown := if snd (rinsert h child ib item) then negb (rcontains b ib) else false in
      if (length (rkids child2) =? 17)%nat then
        let '(l, r) := rsplit (rbox child2) (rkids child2) in
        (RNode b (set_nth kids (choose_least kids ib) l ++ [r]), grown)
      else (RNode b (set_nth kids (choose_least kids ib) child2), grown)
  end.
Proof.
  cbn [rinsert]. destruct (nth_error kids (choose_least kids ib)) as [child|]; [|reflexivity].
  unfold rins2. destruct (rinsert h child ib item) as [c1 g]. reflexivity.
Qed.

Lemma rt_insert_eq t ib item :
  rt_insert t ib item =
  let root0 := match rroot t with Some r => r | None => RNode ib [] end in
  let root2 := rins2 (rheight t) root0 ib item in
  if (length (rkids root2) =? 17)%nat then
    let '(l, r) := rsplit (rbox root2) (rkids root2) in
    {| rheight := S (rheight t); rroot := Some (RNode (rrecalc [l; r]) [l; r]) |}
  else {| rheight := rheight t; rroot := Some root2 |}.
Proof.
  unfold rt_insert, rins2. cbv zeta.
  destruct (rinsert (rheight t) match rroot t with Some r => r | None => RNode ib [] end ib item)
    as [r1 g].
  reflexivity.
Qed.

Lemma set_box_id n : set_box n (rbox n) = n.
Proof. destruct n; reflexivity. Qed.
Lemma rbox_set_box n b : rbox (set_box n b) = b.
Proof. destruct n; reflexivity. Qed.
Lemma rkids_set_box n b : rkids (set_box n b) = rkids n.
Proof. destruct n; reflexivity. Qed.

(* every node has at most m kids *)
Fixpoint max_kids (m : nat) (n : rnode) : Prop :=
  match n with
  | RItem _ _ => True
  | RNode _ kids =>
      (length kids <= m)%nat /\
      (fix all (l : list rnode) : Prop :=
         match l with [] => True | k :: l' => max_kids m k /\ all l' end) kids
  end.

Lemma max_kids_node m b kids :
  max_kids m (RNode b kids) <-> (length kids <= m)%nat /\ Forall (max_kids m) kids.
Proof.
  cbn [max_kids].
  assert (H : (fix all (l : list rnode) : Prop :=
                 match l with [] => True | k :: l' => max_kids m k /\ all l' end) kids
              <-> Forall (max_kids m) kids).
  { induction kids as [|k kids IH]; [split; auto|].
    rewrite Forall_cons_iff, <- IH. reflexivity. }
  rewrite H. reflexivity.
Qed.

(* ------------------------------------------------------------------ *)
Section RProofs.
Variable rect_of : Z -> rect.

(* all leaf items below a node, in traversal order *)
Fixpoint ritems (n : rnode) : list Z :=
  match n with
  | RItem _ it => [it]
  | RNode _ kids => flat_map ritems kids
  end.

Lemma ritems_node b kids : ritems (RNode b kids) = flat_map ritems kids.
Proof. reflexivity. Qed.

Lemma ritems_set_box n b : ritems (set_box n b) = ritems n.
Proof. destruct n; reflexivity. Qed.

Definition is_item (k : rnode) : Prop :=
  exists it, k = RItem (rect_of it) it /\ nonempty (rect_of it).

(* 2. The invariant, indexed by height.  A node's box is non-empty and is the
   exact join of its kids' boxes (so in particular it covers each of them);
   kids of a height-0 node are items carrying their own rectangle, kids of a
   height-(S h) node are well-formed at height h and hold at most 16 kids.
   Nothing is said about the node's own kid count. *)
Fixpoint rwf (h : nat) (n : rnode) : Prop :=
  match n with
  | RItem _ _ => False
  | RNode b kids =>
      nonempty b /\ kids <> [] /\ is_lub b kids /\
      match h with
      | O => Forall is_item kids
      | S h' => Forall (fun k => rwf h' k /\ (length (rkids k) <= 16)%nat) kids
      end
  end.

(* well-formed except that the node's own box has not yet been expanded by ib
   (rinsert leaves that to its caller) *)
Definition rwf_but (h : nat) (ib : rect) (n : rnode) : Prop :=
  rwf h (set_box n (rexpand (rbox n) ib)).

Lemma rwf_node h n : rwf h n -> n = RNode (rbox n) (rkids n).
Proof. destruct n; [destruct h; contradiction|reflexivity]. Qed.

Lemma rwf_nonempty h n : rwf h n -> nonempty (rbox n).
Proof. destruct n; destruct h; cbn [rwf rbox]; tauto. Qed.

Lemma rwf_kids_ne h n : rwf h n -> rkids n <> [].
Proof. destruct n; destruct h; cbn [rwf rkids]; tauto. Qed.

Lemma rwf_lub h n : rwf h n -> is_lub (rbox n) (rkids n).
Proof. destruct n; destruct h; cbn [rwf rkids rbox]; tauto. Qed.

Lemma rwf_covers h n : rwf h n -> covers (rbox n) (rkids n).
Proof. intros H. apply is_lub_covers, (rwf_lub h), H. Qed.

Lemma rwf_kids_0 n : rwf 0 n -> Forall is_item (rkids n).
Proof. destruct n; cbn [rwf rkids]; tauto. Qed.

Lemma rwf_kids_S h n :
  rwf (S h) n -> Forall (fun k => rwf h k /\ (length (rkids k) <= 16)%nat) (rkids n).
Proof. destruct n; cbn [rwf rkids]; tauto. Qed.

Lemma is_item_nonempty k : is_item k -> nonempty (rbox k).
Proof. intros (it & -> & H). exact H. Qed.

Lemma rwf_kid_nonempty h n k : rwf h n -> In k (rkids n) -> nonempty (rbox k).
Proof.
  intros H Hk. destruct h.
  - apply rwf_kids_0 in H. rewrite Forall_forall in H. apply is_item_nonempty, H, Hk.
  - apply rwf_kids_S in H. rewrite Forall_forall in H. apply (rwf_nonempty h), H, Hk.
Qed.

(* items at height 0 / kids at height S h are covered, as in the informal spec *)
Lemma rwf_item_covered n it :
  rwf 0 n -> In (RItem (rect_of it) it) (rkids n) -> rcontains (rbox n) (rect_of it) = true.
Proof.
  intros H Hk. apply rwf_covers in H. unfold covers in H. rewrite Forall_forall in H.
  apply (H _ Hk).
Qed.

Lemma rwf_kid_covered h n k :
  rwf h n -> In k (rkids n) -> rcontains (rbox n) (rbox k) = true.
Proof.
  intros H Hk. apply rwf_covers in H. unfold covers in H. rewrite Forall_forall in H.
  apply (H _ Hk).
Qed.

(* any non-empty sub-collection of a node's kids, re-boxed by rrecalc, is
   well-formed at the same height (this is what rsplit produces) *)
Lemma rwf_sublist h b kids l :
  rwf h (RNode b kids) -> l <> [] -> (forall x, In x l -> In x kids) ->
  rwf h (RNode (rrecalc l) l).
Proof.
  intros H Hne Hin.
  assert (Hbox : nonempty (rrecalc l)).
  { destruct l as [|k l']; [congruence|].
    apply (nonempty_mono _ (rbox k)).
    - pose proof (rrecalc_covers (k :: l') Hne) as Hc. apply covers_cons in Hc. apply Hc.
    - apply (rwf_kid_nonempty h (RNode b kids) k H). apply Hin. left; reflexivity. }
  destruct h; cbn [rwf] in *; (split; [exact Hbox|]); (split; [exact Hne|]);
    (split; [apply rrecalc_lub, Hne|]);
    destruct H as (_ & _ & _ & H); eapply incl_Forall'; eauto.
Qed.

(* the raw contract of rinsert, in the form that goes through the induction *)
Definition rinsert_post (h : nat) (n : rnode) (ib : rect) (item : Z) : Prop :=
  let r := rinsert h n ib item in
  rbox (fst r) = rbox n /\
  snd r = negb (rcontains (rbox n) ib) /\
  rwf h (set_box (fst r) (rexpand (rbox n) ib)) /\
  Permutation (ritems (fst r)) (item :: ritems n) /\
  (length (rkids (fst r)) <= S (length (rkids n)))%nat.

Lemma rins2_of_post h n ib item :
  rinsert_post h n ib item ->
  rins2 h n ib item = set_box (fst (rinsert h n ib item)) (rexpand (rbox n) ib).
Proof.
  unfold rinsert_post, rins2. destruct (rinsert h n ib item) as [n1 g]. cbn [fst snd].
  intros (Hb & Hg & _). rewrite Hb. destruct g; [reflexivity|].
  symmetry in Hg. apply negb_false_iff in Hg.
  rewrite (rexpand_absorb _ _ Hg), <- Hb. symmetry. apply set_box_id.
Qed.

Lemma rins2_facts h n ib item :
  rinsert_post h n ib item ->
  let n2 := rins2 h n ib item in
  rwf h n2 /\ rbox n2 = rexpand (rbox n) ib /\
  Permutation (ritems n2) (item :: ritems n) /\
  (length (rkids n2) <= S (length (rkids n)))%nat.
Proof.
  intros H. cbv zeta. rewrite (rins2_of_post _ _ _ _ H).
  destruct H as (Hb & Hg & Hw & Hp & Hl).
  rewrite rbox_set_box, ritems_set_box, rkids_set_box. auto.
Qed.

Lemma rinsert_post_0 n ib item :
  rwf 0 n -> ib = rect_of item -> nonempty ib -> rinsert_post 0 n ib item.
Proof.
  intros Hw Hib Hne. destruct n as [?b ?i|b kids]; [contradiction|].
  unfold rinsert_post. rewrite rinsert_0. cbn [fst snd rbox rkids set_box ritems].
  cbn [rwf] in Hw. destruct Hw as (Hb & Hk & Hlub & Hit).
  split; [reflexivity|]. split; [reflexivity|]. split; [|split].
  - cbn [rwf]. split; [apply rexpand_nonempty, Hb|].
    split; [destruct kids; cbn [app]; congruence|].
    split.
    + intros c. rewrite rexpand_lub, covers_app, covers_cons, covers_nil, (Hlub c).
      cbn [rbox]. tauto.
    + apply Forall_app. split; [exact Hit|]. constructor; [|constructor].
      exists item. subst ib. split; [reflexivity|exact Hne].
  - rewrite flat_map_app. cbn [flat_map ritems app].
    apply Permutation_sym, Permutation_cons_append.
  - rewrite app_length. cbn [length]. lia.
Qed.

Lemma rinsert_post_S h :
  (forall n ib item, rwf h n -> ib = rect_of item -> nonempty ib -> rinsert_post h n ib item) ->
  forall n ib item, rwf (S h) n -> ib = rect_of item -> nonempty ib ->
                    rinsert_post (S h) n ib item.
Proof.
  intros IH n ib item Hw Hib Hne. destruct n as [?b ?i|b kids]; [contradiction|].
  cbn [rwf] in Hw. destruct Hw as (Hb & Hk & Hlub & Hkids).
  unfold rinsert_post. rewrite rinsert_S.
  destruct (nth_split_set kids (choose_least kids ib) (choose_least_lt kids ib Hk))
    as (k1 & child & k2 & Ekids & Enth & Eset).
  rewrite Enth. cbv zeta. rewrite !Eset.
  (* the child and what insertion does to it *)
  assert (Hchild : rwf h child /\ (length (rkids child) <= 16)%nat).
  { rewrite Forall_forall in Hkids. apply Hkids. rewrite Ekids. apply in_or_app. right; left; reflexivity. }
  destruct Hchild as (Hcw & Hcl).
  pose proof (IH child ib item Hcw Hib Hne) as Hpost.
  pose proof (rins2_facts _ _ _ _ Hpost) as Hf. cbv zeta in Hf.
  destruct Hpost as (_ & Hg & _).
  set (child2 := rins2 h child ib item) in *.
  destruct Hf as (Hw2 & Hb2 & Hp2 & Hl2).
  (* grown is exactly "b does not contain ib" *)
  assert (Hcb : rcontains b (rbox child) = true).
  { pose proof (is_lub_covers _ _ Hlub) as Hc. rewrite Ekids in Hc.
    apply covers_app in Hc. destruct Hc as (_ & Hc). apply covers_cons in Hc. apply Hc. }
  assert (Hgrown : (if snd (rinsert h child ib item) then negb (rcontains b ib) else false)
                   = negb (rcontains b ib)).
  { rewrite Hg. destruct (rcontains (rbox child) ib) eqn:Hci; cbn [negb]; [|reflexivity].
    rewrite (rcontains_trans _ _ _ Hcb Hci). reflexivity. }
  rewrite Hgrown.
  (* old kids *)
  assert (Hk1 : Forall (fun k => rwf h k /\ (length (rkids k) <= 16)%nat) k1 /\
                Forall (fun k => rwf h k /\ (length (rkids k) <= 16)%nat) k2).
  { rewrite Ekids in Hkids. apply Forall_app in Hkids. destruct Hkids as (H1 & H2).
    apply Forall_cons_iff in H2. tauto. }
  destruct Hk1 as (Hk1 & Hk2).
  assert (Hlub' : forall c, rcontains c (rexpand b ib) = true <->
                            covers c k1 /\ (rcontains c (rbox child) = true /\ rcontains c ib = true) /\ covers c k2).
  { intros c. rewrite rexpand_lub, (Hlub c), Ekids, covers_app, covers_cons. tauto. }
  destruct (Nat.eqb_spec (length (rkids child2)) 17) as [H17|H17].
  - (* the child overflows and is split *)
    destruct (rsplit_spec (rbox child2) (rkids child2) (rwf_lub _ _ Hw2)) as (l & r & Es & Hps & Hl & Hr);
      [lia|].
    rewrite Es. rewrite ?Eset. cbn [fst snd rbox rkids set_box].
    assert (Hlen : (length l + length r = 17)%nat).
    { rewrite <- H17, <- (Permutation_length Hps), app_length. reflexivity. }
    apply length_pos_ne in Hl as Hl'. apply length_pos_ne in Hr as Hr'.
    pose proof (rwf_lub _ _ Hw2) as Hlub2. pose proof Hw2 as Hw2'.
    rewrite (rwf_node _ _ Hw2) in Hw2.
    assert (HwL : rwf h (RNode (rrecalc l) l)).
    { apply (rwf_sublist h _ _ l Hw2 Hl). intros x Hx.
      eapply Permutation_in; [exact Hps|]. apply in_or_app. left; exact Hx. }
    assert (HwR : rwf h (RNode (rrecalc r) r)).
    { apply (rwf_sublist h _ _ r Hw2 Hr). intros x Hx.
      eapply Permutation_in; [exact Hps|]. apply in_or_app. right; exact Hx. }
    split; [reflexivity|]. split; [reflexivity|]. split; [|split].
    + cbn [rwf]. split; [apply rexpand_nonempty, Hb|].
      split; [intros Habs; apply app_eq_nil in Habs; destruct Habs; discriminate|].
      split.
      * intros c. rewrite Hlub', covers_app, covers_app, covers_cons, covers_cons, covers_nil.
        cbn [rbox].
        rewrite (rrecalc_lub l Hl c), (rrecalc_lub r Hr c).
        assert (Hc2 : rcontains c (rbox child) = true /\ rcontains c ib = true <->
                      covers c l /\ covers c r).
        { rewrite <- rexpand_lub, <- Hb2, (Hlub2 c), <- (covers_perm c _ _ Hps), covers_app.
          reflexivity. }
        tauto.
      * apply Forall_app. split.
        -- apply Forall_app. split; [exact Hk1|]. constructor; [|exact Hk2].
           split; [exact HwL|]. cbn [rkids]. lia.
        -- constructor; [|constructor]. split; [exact HwR|]. cbn [rkids]. lia.
    + rewrite !ritems_node, Ekids, !flat_map_app, !fm_cons, !ritems_node.
      cbn [flat_map]. rewrite !app_nil_r, <- !app_assoc.
      assert (Hlr : Permutation (flat_map ritems l ++ flat_map ritems r) (item :: ritems child)).
      { eapply perm_trans; [|exact Hp2]. rewrite <- flat_map_app.
        rewrite (rwf_node _ _ Hw2'), ritems_node. apply perm_flat_map, Hps. }
      eapply perm_trans; [|apply (perm_insert_mid _ _ _ _ _ Hlr)].
      apply Permutation_app_head. rewrite <- !app_assoc. apply Permutation_app_head.
      apply Permutation_app_comm.
    + rewrite Ekids, !app_length. cbn [length]. lia.
  - (* no split *)
    cbn [fst snd rbox rkids set_box].
    split; [reflexivity|]. split; [reflexivity|]. split; [|split].
    + cbn [rwf]. split; [apply rexpand_nonempty, Hb|].
      split; [intros Habs; apply app_eq_nil in Habs; destruct Habs; discriminate|].
      split.
      * intros c. rewrite Hlub', covers_app, covers_cons, Hb2, rexpand_lub. tauto.
      * apply Forall_app. split; [exact Hk1|]. constructor; [|exact Hk2].
        split; [exact Hw2|]. lia.
    + rewrite !ritems_node, Ekids, !flat_map_app, !fm_cons.
      apply perm_insert_mid, Hp2.
    + rewrite Ekids, !app_length. cbn [length]. lia.
Qed.

Lemma rinsert_post_all h : forall n ib item,
  rwf h n -> ib = rect_of item -> nonempty ib -> rinsert_post h n ib item.
Proof.
  induction h as [|h IH].
  - apply rinsert_post_0.
  - apply rinsert_post_S, IH.
Qed.

(* rwf + a bound on the root's own count gives the global count bound *)
Lemma rwf_max_kids h : forall n m,
  rwf h n -> (16 <= m)%nat -> (length (rkids n) <= m)%nat -> max_kids m n.
Proof.
  induction h as [|h IH]; intros n m Hw Hm Hl; destruct n as [?b ?i|b kids]; try contradiction;
    apply max_kids_node; (split; [exact Hl|]); cbn [rwf] in Hw; destruct Hw as (_ & _ & _ & Hk).
  - eapply Forall_impl; [|exact Hk]. intros k (it & -> & _). exact I.
  - eapply Forall_impl; [|exact Hk]. intros k (Hwk & Hlk). cbv beta in *.
    apply IH; [exact Hwk|exact Hm|lia].
Qed.

Lemma rwf_desc_max_kids h n :
  rwf h n -> Forall (max_kids 16) (rkids n).
Proof.
  intros Hw. destruct n as [?b ?i|b kids]; [destruct h; contradiction|].
  cbn [rkids]. destruct h; cbn [rwf] in Hw; destruct Hw as (_ & _ & _ & Hk).
  - eapply Forall_impl; [|exact Hk]. intros k (it & -> & _). exact I.
  - eapply Forall_impl; [|exact Hk]. intros k (Hwk & Hlk). cbv beta in *.
    apply (rwf_max_kids h); [exact Hwk|lia|exact Hlk].
Qed.

(* 2. the contract of rinsert as stated in the task *)
Theorem rinsert_spec h n ib item :
  rwf h n -> ib = rect_of item -> nonempty ib -> (length (rkids n) <= 16)%nat ->
  let '(n', g) := rinsert h n ib item in
  rwf_but h ib n' /\
  (g = false -> rcontains (rbox n') ib = true) /\
  Permutation (ritems n') (item :: ritems n) /\
  (length (rkids n') <= 17)%nat /\
  Forall (max_kids 16) (rkids n').
Proof.
  intros Hw Hib Hne Hl.
  pose proof (rinsert_post_all h n ib item Hw Hib Hne) as Hpost.
  unfold rinsert_post in Hpost. destruct (rinsert h n ib item) as [n' g].
  cbn [fst snd] in Hpost. destruct Hpost as (Hb & Hg & Hw' & Hp & Hl').
  unfold rwf_but. rewrite Hb. split; [exact Hw'|]. split; [|split; [exact Hp|split; [lia|]]].
  - intros ->. symmetry in Hg. apply negb_false_iff in Hg. exact Hg.
  - rewrite <- (rkids_set_box n' (rexpand (rbox n) ib)). apply (rwf_desc_max_kids h), Hw'.
Qed.

(* ------------------------------------------------------------------ *)
(* 3. search exactness                                                  *)

Lemma ritems_in_box h : forall n it,
  rwf h n -> In it (ritems n) -> rcontains (rbox n) (rect_of it) = true.
Proof.
  induction h as [|h IH]; intros n it Hw Hin; destruct n as [?b ?i|b kids]; try contradiction;
    pose proof (rwf_covers _ _ Hw) as Hc; cbn [rbox rkids] in Hc;
    rewrite ritems_node in Hin; apply in_flat_map in Hin; destruct Hin as (k & Hk & Hit);
    unfold covers in Hc; rewrite Forall_forall in Hc; specialize (Hc k Hk);
    cbn [rwf] in Hw; destruct Hw as (_ & _ & _ & Hkids); rewrite Forall_forall in Hkids;
    specialize (Hkids k Hk); cbn [rbox].
  - destruct Hkids as (it' & -> & _). cbn [ritems In] in Hit. destruct Hit as [->|[]].
    exact Hc.
  - destruct Hkids as (Hwk & _). eapply rcontains_trans; [exact Hc|]. apply IH; assumption.
Qed.

Lemma rsearch_eq h : forall n q,
  rwf h n ->
  rsearch rect_of n q = filter (fun it => rect_intersects_rect (rect_of it) q) (ritems n).
Proof.
  induction h as [|h IH]; intros n q Hw; destruct n as [?b ?i|b kids]; try contradiction;
    cbn [rsearch]; destruct (rect_intersects_rect q b) eqn:Hq; cbn [negb].
  - rewrite ritems_node, filter_flat_map. apply flat_map_ext_in'. intros k Hk.
    cbn [rwf] in Hw. destruct Hw as (_ & _ & _ & Hkids). rewrite Forall_forall in Hkids.
    destruct (Hkids k Hk) as (it & -> & _). cbn [rsearch ritems filter].
    destruct (rect_intersects_rect (rect_of it) q); reflexivity.
  - symmetry. apply filter_none. intros it Hit.
    destruct (rect_intersects_rect (rect_of it) q) eqn:Hi; [|reflexivity].
    pose proof (ritems_in_box _ _ _ Hw Hit) as Hc. cbn [rbox] in Hc.
    rewrite (contains_intersects _ _ _ Hc Hi) in Hq. discriminate.
  - rewrite ritems_node, filter_flat_map. apply flat_map_ext_in'. intros k Hk.
    cbn [rwf] in Hw. destruct Hw as (_ & _ & _ & Hkids). rewrite Forall_forall in Hkids.
    destruct (Hkids k Hk) as (Hwk & _). apply IH, Hwk.
  - symmetry. apply filter_none. intros it Hit.
    destruct (rect_intersects_rect (rect_of it) q) eqn:Hi; [|reflexivity].
    pose proof (ritems_in_box _ _ _ Hw Hit) as Hc. cbn [rbox] in Hc.
    rewrite (contains_intersects _ _ _ Hc Hi) in Hq. discriminate.
Qed.

Theorem rsearch_exact h n q :
  rwf h n ->
  Permutation (rsearch rect_of n q)
              (filter (fun it => rect_intersects_rect (rect_of it) q) (ritems n)).
Proof. intros Hw. rewrite (rsearch_eq h n q Hw). apply Permutation_refl. Qed.

(* ------------------------------------------------------------------ *)
(* 4. the tree built by successive inserts                              *)

Lemma perm_filter {A} (f : A -> bool) (l l' : list A) :
  Permutation l l' -> Permutation (filter f l) (filter f l').
Proof.
  induction 1 as [|x l l' _ IH|x y l|l l' l'' _ IH1 _ IH2]; cbn [filter].
  - constructor.
  - destruct (f x); [apply perm_skip|]; exact IH.
  - destruct (f x), (f y); try apply Permutation_refl. apply perm_swap.
  - eapply perm_trans; eassumption.
Qed.

Lemma NoDup_map_inj {A B} (f : A -> B) (l : list A) :
  (forall x y, f x = f y -> x = y) -> NoDup l -> NoDup (map f l).
Proof.
  intros Hinj. induction 1 as [|a l Hnin _ IH]; cbn [map]; constructor; [|exact IH].
  rewrite in_map_iff. intros (y & E & Hy). apply Hinj in E. subst y. contradiction.
Qed.

(* state after k inserts *)
Definition tree_inv (k : nat) (t : rtree) : Prop :=
  match rroot t with
  | None => k = 0%nat /\ rheight t = 0%nat
  | Some r => (0 < k)%nat /\ rwf (rheight t) r /\ (length (rkids r) <= 16)%nat /\
              Permutation (ritems r) (map Z.of_nat (seq 0 k))
  end.

Lemma items_step k its :
  Permutation its (map Z.of_nat (seq 0 k)) ->
  Permutation (Z.of_nat k :: its) (map Z.of_nat (seq 0 (S k))).
Proof.
  intros H. rewrite seq_S, map_app. cbn [map]. rewrite Nat.add_0_l.
  eapply perm_trans; [apply perm_skip, H|apply Permutation_cons_append].
Qed.

(* transient bound: between rinsert and the split no node exceeds 17 kids *)
Lemma rins2_max17 h n ib item :
  rwf h n -> ib = rect_of item -> nonempty ib -> (length (rkids n) <= 16)%nat ->
  max_kids 17 (rins2 h n ib item).
Proof.
  intros Hw Hib Hne Hl.
  pose proof (rins2_facts _ _ _ _ (rinsert_post_all h n ib item Hw Hib Hne)) as Hf.
  cbv zeta in Hf. destruct Hf as (Hw2 & _ & _ & Hl2).
  apply (rwf_max_kids h); [exact Hw2|lia|lia].
Qed.

Lemma rt_insert_inv k t :
  tree_inv k t -> nonempty (rect_of (Z.of_nat k)) ->
  tree_inv (S k) (rt_insert t (rect_of (Z.of_nat k)) (Z.of_nat k)).
Proof.
  intros Hinv Hne. rewrite rt_insert_eq. cbv zeta.
  set (ib := rect_of (Z.of_nat k)) in *. set (item := Z.of_nat k).
  unfold tree_inv in Hinv. destruct (rroot t) as [r|].
  - destruct Hinv as (Hk & Hw & Hl & Hp).
    pose proof (rins2_facts _ _ _ _ (rinsert_post_all (rheight t) r ib item Hw eq_refl Hne)) as Hf.
    cbv zeta in Hf. set (root2 := rins2 (rheight t) r ib item) in *.
    destruct Hf as (Hw2 & Hb2 & Hp2 & Hl2).
    destruct (Nat.eqb_spec (length (rkids root2)) 17) as [H17|H17].
    + destruct (rsplit_spec (rbox root2) (rkids root2) (rwf_lub _ _ Hw2)) as (l & rr & Es & Hps & Hl0 & Hr0);
        [lia|].
      rewrite Es.
      assert (Hlen : (length l + length rr = 17)%nat).
      { rewrite <- H17, <- (Permutation_length Hps), app_length. reflexivity. }
      apply length_pos_ne in Hl0 as Hl'. apply length_pos_ne in Hr0 as Hr'.
      pose proof Hw2 as Hw2'. rewrite (rwf_node _ _ Hw2) in Hw2.
      assert (HwL : rwf (rheight t) (RNode (rrecalc l) l)).
      { apply (rwf_sublist _ _ _ l Hw2 Hl0). intros x Hx.
        eapply Permutation_in; [exact Hps|]. apply in_or_app. left; exact Hx. }
      assert (HwR : rwf (rheight t) (RNode (rrecalc rr) rr)).
      { apply (rwf_sublist _ _ _ rr Hw2 Hr0). intros x Hx.
        eapply Permutation_in; [exact Hps|]. apply in_or_app. right; exact Hx. }
      unfold tree_inv. cbn [rroot rheight].
      split; [lia|]. split; [|split].
      * set (L := RNode (rrecalc l) l) in *. set (R := RNode (rrecalc rr) rr) in *.
        assert (Hne2 : [L; R] <> []) by congruence.
        cbn [rwf]. split.
        { apply (nonempty_mono _ (rbox L)); [|apply (rwf_nonempty _ _ HwL)].
          pose proof (rrecalc_covers _ Hne2) as Hc. apply covers_cons in Hc. apply Hc. }
        split; [exact Hne2|]. split; [apply rrecalc_lub, Hne2|].
        constructor; [|constructor; [|constructor]].
        -- split; [exact HwL|]. subst L. cbn [rkids]. lia.
        -- split; [exact HwR|]. subst R. cbn [rkids]. lia.
      * cbn [rkids length]. lia.
      * rewrite ritems_node, !fm_cons, !ritems_node. cbn [flat_map]. rewrite app_nil_r.
        rewrite <- flat_map_app.
        eapply perm_trans; [apply perm_flat_map, Hps|].
        rewrite <- (ritems_node (rbox root2)), <- (rwf_node _ _ Hw2').
        eapply perm_trans; [exact Hp2|]. apply items_step, Hp.
    + unfold tree_inv. cbn [rroot rheight].
      split; [lia|]. split; [exact Hw2|]. split; [lia|].
      eapply perm_trans; [exact Hp2|]. apply items_step, Hp.
  - destruct Hinv as (-> & Hh). rewrite Hh.
    unfold rins2. rewrite rinsert_0, rcontains_refl. cbn [negb rkids length Nat.eqb app].
    unfold tree_inv. cbn [rroot rheight]. rewrite ?Hh.
    split; [lia|]. split; [|split].
    + cbn [rwf]. split; [exact Hne|]. split; [congruence|]. split.
      * intros c. rewrite covers_cons, covers_nil. cbn [rbox]. tauto.
      * constructor; [|constructor]. exists item. split; [reflexivity|exact Hne].
    + cbn [rkids length]. lia.
    + cbn [ritems flat_map app seq map]. apply Permutation_refl.
Qed.

Lemma rbuild_S n :
  rbuild rect_of (S n) = rt_insert (rbuild rect_of n) (rect_of (Z.of_nat n)) (Z.of_nat n).
Proof.
  unfold rbuild. rewrite seq_S, fold_left_app. cbn [fold_left]. rewrite Nat.add_0_l. reflexivity.
Qed.

Definition rects_nonempty (n : nat) : Prop :=
  forall i, (i < n)%nat ->
    let r := rect_of (Z.of_nat i) in px (fst r) <= px (snd r) /\ py (fst r) <= py (snd r).

Lemma rbuild_inv n : rects_nonempty n -> tree_inv n (rbuild rect_of n).
Proof.
  induction n as [|n IH]; intros H.
  - unfold tree_inv. cbn. split; reflexivity.
  - rewrite rbuild_S. apply rt_insert_inv.
    + apply IH. intros i Hi. apply H. lia.
    + apply (H n). lia.
Qed.

(* MAIN *)
Theorem rbuild_search_exact (n : nat) (q : rect) :
  (forall i, (i < n)%nat ->
     let r := rect_of (Z.of_nat i) in px (fst r) <= px (snd r) /\ py (fst r) <= py (snd r)) ->
  match rroot (rbuild rect_of n) with
  | None => n = 0%nat
  | Some r => Permutation (rsearch rect_of r q)
                (filter (fun it => rect_intersects_rect (rect_of it) q) (map Z.of_nat (seq 0 n)))
  end.
Proof.
  intros H. pose proof (rbuild_inv n H) as Hinv. unfold tree_inv in Hinv.
  destruct (rroot (rbuild rect_of n)) as [r|].
  - destruct Hinv as (_ & Hw & _ & Hp).
    rewrite (rsearch_eq _ _ q Hw). apply perm_filter, Hp.
  - apply Hinv.
Qed.

Corollary rbuild_search_nodup (n : nat) (q : rect) :
  (forall i, (i < n)%nat ->
     let r := rect_of (Z.of_nat i) in px (fst r) <= px (snd r) /\ py (fst r) <= py (snd r)) ->
  match rroot (rbuild rect_of n) with
  | None => True
  | Some r => NoDup (rsearch rect_of r q)
  end.
Proof.
  intros H. pose proof (rbuild_search_exact n q H) as Hs.
  destruct (rroot (rbuild rect_of n)) as [r|]; [|exact I].
  eapply Permutation_NoDup; [apply Permutation_sym, Hs|].
  apply NoDup_filter, NoDup_map_inj; [apply Nat2Z.inj|apply seq_NoDup].
Qed.

(* after every insert all nodes hold <= 16 kids and all leaves are at depth
   = height (rwf is indexed by the height) *)
Theorem rbuild_counts (n : nat) :
  (forall i, (i < n)%nat ->
     let r := rect_of (Z.of_nat i) in px (fst r) <= px (snd r) /\ py (fst r) <= py (snd r)) ->
  match rroot (rbuild rect_of n) with
  | None => n = 0%nat
  | Some r => max_kids 16 r /\ rwf (rheight (rbuild rect_of n)) r
  end.
Proof.
  intros H. pose proof (rbuild_inv n H) as Hinv. unfold tree_inv in Hinv.
  destruct (rroot (rbuild rect_of n)) as [r|].
  - destruct Hinv as (_ & Hw & Hl & _). split; [|exact Hw].
    apply (rwf_max_kids _ _ _ Hw); [lia|exact Hl].
  - apply Hinv.
Qed.

(* the transient state inside rt_insert: the root returned by rinsert (box
   expanded by the caller) never holds more than 17 kids anywhere, and only
   the root itself can hold 17 *)
Theorem rbuild_transient (n : nat) :
  (forall i, (i < S n)%nat ->
     let r := rect_of (Z.of_nat i) in px (fst r) <= px (snd r) /\ py (fst r) <= py (snd r)) ->
  match rroot (rbuild rect_of n) with
  | None => True
  | Some r =>
      let root2 := rins2 (rheight (rbuild rect_of n)) r (rect_of (Z.of_nat n)) (Z.of_nat n) in
      max_kids 17 root2 /\ Forall (max_kids 16) (rkids root2)
  end.
Proof.
  intros H.
  assert (H' : rects_nonempty n) by (intros i Hi; apply H; lia).
  pose proof (rbuild_inv n H') as Hinv. unfold tree_inv in Hinv.
  destruct (rroot (rbuild rect_of n)) as [r|]; [|exact I].
  destruct Hinv as (_ & Hw & Hl & _). cbv zeta.
  assert (Hne : nonempty (rect_of (Z.of_nat n))) by (apply (H n); lia).
  split.
  - apply rins2_max17; auto.
  - pose proof (rins2_facts _ _ _ _ (rinsert_post_all _ r _ (Z.of_nat n) Hw eq_refl Hne)) as Hf.
    cbv zeta in Hf. destruct Hf as (Hw2 & _). apply (rwf_desc_max_kids _ _ Hw2).
Qed.

End RProofs.

Print Assumptions rinsert_spec.
Print Assumptions rsplit_spec.
Print Assumptions rsplit_17.
Print Assumptions choose_least_lt.
Print Assumptions rsearch_exact.
Print Assumptions rbuild_search_exact.
Print Assumptions rbuild_search_nodup.
Print Assumptions rbuild_counts.
Print Assumptions rbuild_transient.
