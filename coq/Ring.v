(* Ring.v — models of geometry/ring.go, poly.go, line.go, rect.go, point.go
   (predicates), over the index-free Series model.  Search results are consumed
   in index order, as the Go code does without an index.  No proofs here. *)
From GJ Require Import Base Kernel Series SeriesSpec.

(* A Ring (= Series interface) is a baseSeries or a Rect used as a ring.  As in
   Go, the derived attributes are computed once, at construction. *)
Record rng := {
  r_pts : list pt;        (* PointAt 0..NumPoints-1 *)
  r_segs : list seg;      (* SegmentAt 0..NumSegments-1 *)
  r_rect : rect;
  r_convex : bool;
  r_cw : bool;
  r_empty : bool }.

(* Rect.PointAt / SegmentAt (rect.go:42-87) *)
Definition rect_points (r : rect) : list pt :=
  let '((mnx, mny), (mxx, mxy)) := r in
  [(mnx, mny); (mxx, mny); (mxx, mxy); (mnx, mxy); (mnx, mny)].
Definition rect_segments (r : rect) : list seg :=
  let '((mnx, mny), (mxx, mxy)) := r in
  [((mnx, mny), (mxx, mny)); ((mxx, mny), (mxx, mxy));
   ((mxx, mxy), (mnx, mxy)); ((mnx, mxy), (mnx, mny))].

(* makeSeries: the segment list is [segments s] (SegmentAt over 0..NumSegments-1);
   it is written here in its linear form, equal by SeriesProofs.segments_eq_spec *)
Definition RS (s : series) : rng :=
  let '(cv, rc, cw) := process_points (pts s) (closed s) in
  {| r_pts := pts s; r_segs := segments_spec s; r_rect := rc;
     r_convex := cv; r_cw := cw; r_empty := series_empty s |}.

Definition RR (q : rect) : rng :=
  {| r_pts := rect_points q; r_segs := rect_segments q; r_rect := q;
     r_convex := true; r_cw := false; r_empty := false |}.

Definition ring_rect (r : rng) : rect := r_rect r.
Definition ring_empty (r : rng) : bool := r_empty r.
Definition ring_convex (r : rng) : bool := r_convex r.
Definition ring_clockwise (r : rng) : bool := r_cw r.
Definition ring_points (r : rng) : list pt := r_pts r.
Definition ring_segments (r : rng) : list seg := r_segs r.
Definition ring_npoints (r : rng) : nat := length (ring_points r).

Definition indexed {A} (l : list A) : list (A * nat) := combine l (seq 0 (length l)).

(* Series.Search (brute force; Rect.Search rect.go:89-101 is the same loop) *)
Definition ring_search (r : rng) (q : rect) : list (seg * nat) :=
  filter (fun si => rect_intersects_rect (seg_rect (fst si)) q) (indexed (ring_segments r)).

(* the horizontal strip query Rect{(-Inf,y),(+Inf,y)} of ring.go:35: only the
   y-tests of IntersectsRect can fail *)
Definition strip_search (r : rng) (y : Z) : list (seg * nat) :=
  filter (fun si => let '((_, mny), (_, mxy)) := seg_rect (fst si) in
                    negb ((y <? mny) || (mxy <? y)))
         (indexed (ring_segments r)).

(* containsPointSearcher folded over the search results (ring.go:42-86) *)
Fixpoint pip_fold (allow : bool) (p : pt) (l : list (seg * nat)) (inn : bool) : bool * Z :=
  match l with
  | [] => (inn, -1)
  | (sg, i) :: r =>
      let '(i_, o_) := raycast sg p in
      if o_ then (allow, Z.of_nat i)
      else pip_fold allow p r (if i_ then negb inn else inn)
  end.

(* ringContainsPoint (ring.go:25-40): (hit, idx) *)
Definition ring_contains_point (r : rng) (p : pt) (allow : bool) : bool * Z :=
  if negb (rect_contains_point (ring_rect r) p) then (false, -1)
  else pip_fold allow p (strip_search r (py p)) false.

Definition rcp_hit r p allow := fst (ring_contains_point r p allow).

(* winding of the 4-point ring built from two ring segments (ring.go:164-171) *)
Definition quad_cw (sa sb : seg) : bool :=
  let p := [fst sa; snd sa; fst sb; snd sb; fst sa] in
  let fix go (l : list pt) (acc : Z) : Z :=
    match l with
    | a :: ((b :: _) as r) => go r (acc + (px b - px a) * (py b + py a))
    | _ => acc
    end in
  0 <? go p 0.

Definition nth_seg (r : rng) (i : Z) : seg := nth (Z.to_nat i) (ring_segments r) ((0,0),(0,0)).

(* ringContainsSegment (ring.go:99-243): (answer, decision site) *)
Definition ring_contains_segment (r : rng) (sg : seg) (allow : bool) : bool * Z :=
  let '(a, b) := sg in
  let rr := ring_rect r in
  if negb (rect_contains_point rr a) || negb (rect_contains_point rr b) then (false, 1)
  else
  let resA := ring_contains_point r a allow in
  if negb (fst resA) then (false, 2)
  else if pt_eqb b a then (true, 3)
  else
  let resB := ring_contains_point r b allow in
  if negb (fst resB) then (false, 4)
  else if ring_convex r then (true, 5)
  else
  let cands := ring_search r (seg_rect sg) in
  let hit (f : seg -> bool) := existsb (fun si => intersects_segment sg (fst si) && f (fst si)) cands in
  if allow then
    if negb (snd resA =? -1) then
      if negb (snd resB =? -1) then
        if snd resB =? snd resA then (true, 6)
        else
          let rsa := nth_seg r (snd resA) in
          let rsb := nth_seg r (snd resB) in
          if pt_eqb (fst rsa) a || pt_eqb (snd rsa) a || pt_eqb (fst rsb) a || pt_eqb (snd rsb) a ||
             pt_eqb (fst rsa) b || pt_eqb (snd rsa) b || pt_eqb (fst rsb) b || pt_eqb (snd rsb) b
          then (true, 7)
          else
            let '(rsa', rsb') := if snd resB <? snd resA then (rsb, rsa) else (rsa, rsb) in
            if negb (Bool.eqb (quad_cw rsa' rsb') (ring_clockwise r)) then (false, 8)
            else (negb (hit (fun s2 => negb (raycast_on s2 a) && negb (raycast_on s2 b))), 9)
      else (negb (hit (fun s2 => negb (raycast_on s2 a))), 10)
    else if negb (snd resB =? -1) then (negb (hit (fun s2 => negb (raycast_on s2 b))), 11)
    else (negb (hit (fun s2 => negb (raycast_on sg (fst s2)) && negb (raycast_on sg (snd s2)))), 12)
  else (negb (hit (fun _ => true)), 13).

Definition rcs r sg allow := fst (ring_contains_segment r sg allow).

(* the counting loop of ringIntersectsSegment (ring.go:263-289);
   state = (count, segAOn, segBOn); stops once count >= 2 *)
Fixpoint ris_count (allow : bool) (sg : seg) (l : list (seg * nat)) (st : Z * bool * bool) : Z :=
  let '(count, aon, bon) := st in
  match l with
  | [] => count
  | (s2, _) :: r =>
      let st' :=
        if intersects_segment sg s2 then
          if negb allow then
            if negb (collinear_point sg (fst s2) && collinear_point sg (snd s2)) then
              if negb aon && (pt_eqb (fst sg) (fst s2) || pt_eqb (fst sg) (snd s2)) then (count, true, bon)
              else if negb bon && (pt_eqb (snd sg) (fst s2) || pt_eqb (snd sg) (snd s2)) then (count, aon, true)
              else (count + 1, aon, bon)
            else st
          else (count + 1, aon, bon)
        else st in
      if fst (fst st') <? 2 then ris_count allow sg r st' else fst (fst st')
  end.

(* ringIntersectsSegment (ring.go:246-290) *)
Definition ring_intersects_segment (r : rng) (sg : seg) (allow : bool) : bool :=
  if negb (rect_intersects_rect (seg_rect sg) (ring_rect r)) then false
  else if rcp_hit r (fst sg) allow then true
  else if rcp_hit r (snd sg) allow then true
  else 2 <=? ris_count allow sg (ring_search r (seg_rect sg)) (0, false, false).

Definition complexRingMinPoints : nat := 16.

(* body of ringContainsRing after the >=16-point shortcut (ring.go:304-330) *)
Definition rcr_core (r o : rng) (allow : bool) : bool :=
  if ring_empty r || ring_empty o then false
  else if negb (rect_contains_rect (ring_rect r) (ring_rect o)) then false
  else if ring_convex r then forallb (fun p => rcp_hit r p allow) (ring_points o)
  else forallb (fun sg => rcs r sg allow) (ring_segments o).

(* ringContainsRing (ring.go:292-331); ringContainsLine passes the line's series *)
Definition ring_contains_ring (r o : rng) (allow : bool) : bool :=
  if ring_empty r || ring_empty o then false
  else if (complexRingMinPoints <=? ring_npoints o)%nat && rcr_core r (RR (ring_rect o)) allow then true
  else rcr_core r o allow.

(* ringIntersectsRing (ring.go:333-355) *)
Definition ring_intersects_ring (r o : rng) (allow : bool) : bool :=
  if ring_empty r || ring_empty o then false
  else if negb (rect_intersects_rect (ring_rect r) (ring_rect o)) then false
  else
    let '(r', o') := if rect_area (ring_rect r) <? rect_area (ring_rect o) then (o, r) else (r, o) in
    existsb (fun sg => ring_intersects_segment r' sg allow) (ring_segments o').

(* ringIntersectsLine (ring.go:362-382); the line is an open series, prepared *)
Definition ring_intersects_line (r : rng) (l : rng) (allow : bool) : bool :=
  if ring_empty r || ring_empty l then false
  else if negb (rect_intersects_rect (ring_rect r) (ring_rect l)) then false
  else if existsb (fun p => rcp_hit r p allow) (ring_points l) then true
  else existsb (fun sg => ring_intersects_segment r sg allow) (ring_segments l).

(* ---- Poly (poly.go) ---- *)
Record poly := { exterior : rng; holes : list rng }.

Definition rect_poly (q : rect) : poly := {| exterior := RR q; holes := [] |}.
Definition poly_empty (p : poly) : bool := ring_empty (exterior p).
Definition poly_rect (p : poly) : rect := ring_rect (exterior p).

(* Poly.ContainsPoint (poly.go:88-103) *)
Definition poly_contains_point (p : poly) (q : pt) : bool :=
  if negb (rcp_hit (exterior p) q true) then false
  else negb (existsb (fun h => rcp_hit h q false) (holes p)).

(* Poly.ContainsLine (poly.go:128-141) *)
Definition poly_contains_line (p : poly) (l : rng) : bool :=
  if negb (ring_contains_ring (exterior p) l true) then false
  else negb (existsb (fun h => ring_intersects_line h l false) (holes p)).

(* Poly.IntersectsLine (poly.go:143-156) *)
Definition poly_intersects_line (p : poly) (l : rng) : bool :=
  if negb (ring_intersects_line (exterior p) l true) then false
  else negb (existsb (fun h => ring_contains_ring h l false) (holes p)).

(* Poly.ContainsPoly (poly.go:158-186) *)
Definition poly_contains_poly (p o : poly) : bool :=
  if negb (ring_contains_ring (exterior p) (exterior o) true) then false
  else forallb (fun ph =>
         if ring_intersects_ring ph (exterior o) false
         then existsb (fun oh => ring_contains_ring oh ph true) (holes o)
         else true) (holes p).

(* Poly.IntersectsPoly (poly.go:188-207) *)
Definition poly_intersects_poly (p o : poly) : bool :=
  if negb (ring_intersects_ring (exterior o) (exterior p) true) then false
  else if existsb (fun h => ring_contains_ring h (exterior o) false) (holes p) then false
  else if existsb (fun h => ring_contains_ring h (exterior p) false) (holes o) then false
  else true.

Definition poly_contains_rect (p : poly) (q : rect) : bool := poly_contains_poly p (rect_poly q).
Definition poly_intersects_rect (p : poly) (q : rect) : bool := poly_intersects_poly p (rect_poly q).

(* ---- Line (line.go); a line is an open series ---- *)

(* Line.ContainsPoint (line.go:32-45) *)
Definition line_contains_point (l : series) (p : pt) : bool :=
  existsb (fun si => raycast_on (fst si) p) (ring_search (RS l) (p, p)).

(* ---- pinned (pre-repair) Line.ContainsLine: the segment-walk matcher, kept
   for the refutation theorems (findings F2, F4).  None = fuel ran out. ---- *)
Fixpoint cl_walk (fuel : nat) (ls os : list seg) (k i : nat) : option bool :=
  match fuel with
  | O => None
  | S f =>
      if (length os <=? i)%nat then Some true
      else
        let lseg := nth k ls ((0,0),(0,0)) in
        let oseg := nth i os ((0,0),(0,0)) in
        if seg_contains_segment lseg oseg then cl_walk f ls os k (i + 1)
        else if pt_eqb (fst oseg) (fst lseg) then
          if (k =? 0)%nat then Some false else cl_walk f ls os (k - 1) i
        else if pt_eqb (fst oseg) (snd lseg) then
          if (k =? length ls - 1)%nat then Some false else cl_walk f ls os (k + 1) i
        else cl_walk f ls os k (i + 1)
  end.

Fixpoint find_index {A} (f : A -> bool) (l : list A) (i : nat) : option nat :=
  match l with
  | [] => None
  | x :: r => if f x then Some i else find_index f r (i + 1)
  end.

Definition line_contains_line_pinned (fuel : nat) (l o : rng) : option bool :=
  if ring_empty l || ring_empty o then Some false
  else
    let ls := ring_segments l in let os := ring_segments o in
    match os with
    | [] => Some false
    | o0 :: _ =>
        match find_index (fun sg => seg_contains_segment sg o0) ls 0 with
        | None => Some false
        | Some k => cl_walk fuel ls os k 1
        end
    end.

(* ---- Line.ContainsLine after the repair (line.go): every segment of other is
   covered by line's segments; coversSegment walks from seg.A towards seg.B ---- *)
Definition line_contains_point_r (l : rng) (p : pt) : bool :=
  existsb (fun si => raycast_on (fst si) p) (ring_search l (p, p)).

Definition dotp (a b e : pt) : Z :=
  (px e - px a) * (px b - px a) + (py e - py a) * (py b - py a).

(* one pass of the Search callback: the farthest end of a segment along sg that contains cur *)
Definition covers_step (l : rng) (sg : seg) (cur : pt) (curd : Z) : pt * Z :=
  let '(a, b) := sg in
  fold_left
    (fun acc si =>
       let s := fst si in
       if collinear_point s a && collinear_point s b && raycast_on s cur then
         let acc1 := let d := dotp a b (fst s) in if snd acc <? d then (fst s, d) else acc in
         let d := dotp a b (snd s) in if snd acc1 <? d then (snd s, d) else acc1
       else acc)
    (ring_search l (cur, cur)) (cur, curd).

Fixpoint covers_walk (fuel : nat) (l : rng) (sg : seg) (cur : pt) (curd : Z) : option bool :=
  match fuel with
  | O => None
  | S f =>
      let '(best, bestd) := covers_step l sg cur curd in
      if dotp (fst sg) (snd sg) (snd sg) <=? bestd then Some true
      else if negb (curd <? bestd) then Some false
      else covers_walk f l sg best bestd
  end.

(* every step moves to a new segment end with a strictly larger distance:
   2 * NumSegments + 2 steps always suffice (proved in LineProofs) *)
Definition covers_fuel (l : rng) : nat := (2 * length (ring_segments l) + 2)%nat.

Definition line_covers_segment (l : rng) (sg : seg) : option bool :=
  if pt_eqb (fst sg) (snd sg) then Some (line_contains_point_r l (fst sg))
  else covers_walk (covers_fuel l) l sg (fst sg) 0.

Fixpoint all_some (l : list (option bool)) : option bool :=
  match l with
  | [] => Some true
  | None :: _ => None
  | Some false :: _ => Some false
  | Some true :: r => all_some r
  end.

(* Line.ContainsLine; None = the walk ran out of fuel (would not terminate) *)
Definition line_contains_line (l o : rng) : option bool :=
  if ring_empty l || ring_empty o then Some false
  else all_some (map (line_covers_segment l) (ring_segments o)).

(* Line.IntersectsLine (line.go) *)
Definition line_intersects_line (l o : rng) : bool :=
  if ring_empty l || ring_empty o then false
  else if negb (rect_intersects_rect (ring_rect l) (ring_rect o)) then false
  else
    let '(l', o') := if (ring_npoints o <? ring_npoints l)%nat then (o, l) else (l, o) in
    existsb (fun sa => existsb (fun si => intersects_segment sa (fst si))
                               (ring_search o' (seg_rect sa)))
            (ring_segments l').

(* the synthetic two-point Line of Line.ContainsPoly: only points and rect are
   set; closed = false; NumSegments = 1 *)
Definition diag_line (mn mx : pt) : rng :=
  {| r_pts := [mn; mx]; r_segs := [(mn, mx)]; r_rect := (mn, mx);
     r_convex := false; r_cw := false; r_empty := false |}.

(* Line.ContainsPoly (line.go): reduces to ContainsLine on the degenerate box *)
Definition line_contains_poly (l : rng) (p : poly) : option bool :=
  if ring_empty l || poly_empty p then Some false
  else
    let '(mn, mx) := poly_rect p in
    if negb (px mn =? px mx) && negb (py mn =? py mx) then Some false
    else line_contains_line l (diag_line mn mx).

Definition line_contains_rect (l : rng) (q : rect) : option bool :=
  line_contains_poly l (rect_poly q).

Definition line_intersects_rect (l : rng) (q : rect) : bool := ring_intersects_line (RR q) l true.
Definition line_intersects_poly (l : rng) (p : poly) : bool := poly_intersects_line p l.

(* ---- Rect (rect.go) ---- *)
Definition rect_contains_line (q : rect) (l : rng) : bool :=
  negb (ring_empty l) && rect_contains_rect q (ring_rect l).
Definition rect_intersects_line (q : rect) (l : rng) : bool := ring_intersects_line (RR q) l true.
Definition rect_contains_poly (q : rect) (p : poly) : bool :=
  negb (poly_empty p) && rect_contains_rect q (poly_rect p).
Definition rect_intersects_poly (q : rect) (p : poly) : bool := poly_intersects_rect p q.

(* ---- Point (point.go) ---- *)
Definition point_rect (p : pt) : rect := (p, p).
Definition point_contains_rect (p : pt) (q : rect) : bool := rect_eqb (point_rect p) q.
Definition point_intersects_rect (p : pt) (q : rect) : bool := rect_contains_point q p.
Definition point_contains_line (p : pt) (l : rng) : bool :=
  negb (ring_empty l) && rect_eqb (ring_rect l) (point_rect p).
Definition point_intersects_line (p : pt) (l : rng) : bool := line_contains_point_r l p.
Definition point_contains_poly (p : pt) (o : poly) : bool :=
  negb (poly_empty o) && rect_eqb (poly_rect o) (point_rect p).
Definition point_intersects_poly (p : pt) (o : poly) : bool := poly_contains_point o p.
