(* LineSound.v — property C03: Line.ContainsLine (after the repair) is sound as a point-set statement:
   when the coverage walk accepts a segment, every rational point of the segment lies on a segment
   of the receiver. *)
From Coq Require Import ZArith Bool List Lia.
From GJ Require Import Base Kernel KernelSpec Series SeriesSpec Ring RingSpec PairSpec Pairs PairProofs
  KernelProofs IntersectsProofs RaycastProofs SeriesProofs PipProofs LineProofs ContainsBoxes CoversBoxes Invariance JordanQ JordanRing.
Import ListNotations.
Open Scope Z_scope.

(* on a line with direction u <> 0 (all vectors relative to one origin): a point whose projection lies
   between those of c and e has its coordinates between theirs *)
Lemma between_coord_gen (ux uy cx cy ex ey qx qy : Z) :
  (ux <> 0 \/ uy <> 0) ->
  cx * uy - cy * ux = 0 -> ex * uy - ey * ux = 0 -> qx * uy - qy * ux = 0 ->
  cx * ux + cy * uy <= qx * ux + qy * uy <= ex * ux + ey * uy ->
  (qx - cx) * (ex - qx) >= 0 /\ (qy - cy) * (ey - qy) >= 0.
Proof.
  intros Hu Hc He Hq [Hd1 Hd2]. set (N := ux * ux + uy * uy) in *.
  set (dc := cx * ux + cy * uy) in *. set (de := ex * ux + ey * uy) in *. set (dq := qx * ux + qy * uy) in *.
  assert (HN : 0 < N) by (unfold N; destruct Hu; nia).
  assert (Ecx : N * cx = ux * dc).
  { unfold N, dc. assert (G : (ux * ux + uy * uy) * cx - ux * (cx * ux + cy * uy) = uy * (cx * uy - cy * ux)) by ring. rewrite Hc in G. lia. }
  assert (Ecy : N * cy = uy * dc).
  { unfold N, dc. assert (G : (ux * ux + uy * uy) * cy - uy * (cx * ux + cy * uy) = - ux * (cx * uy - cy * ux)) by ring. rewrite Hc in G. lia. }
  assert (Eex : N * ex = ux * de).
  { unfold N, de. assert (G : (ux * ux + uy * uy) * ex - ux * (ex * ux + ey * uy) = uy * (ex * uy - ey * ux)) by ring. rewrite He in G. lia. }
  assert (Eey : N * ey = uy * de).
  { unfold N, de. assert (G : (ux * ux + uy * uy) * ey - uy * (ex * ux + ey * uy) = - ux * (ex * uy - ey * ux)) by ring. rewrite He in G. lia. }
  assert (Eqx : N * qx = ux * dq).
  { unfold N, dq. assert (G : (ux * ux + uy * uy) * qx - ux * (qx * ux + qy * uy) = uy * (qx * uy - qy * ux)) by ring. rewrite Hq in G. lia. }
  assert (Eqy : N * qy = uy * dq).
  { unfold N, dq. assert (G : (ux * ux + uy * uy) * qy - uy * (qx * ux + qy * uy) = - ux * (qx * uy - qy * ux)) by ring. rewrite Hq in G. lia. }
  assert (Px : N * N * ((qx - cx) * (ex - qx)) = ux * ux * ((dq - dc) * (de - dq))).
  { replace (N * N * ((qx - cx) * (ex - qx))) with ((N * qx - N * cx) * (N * ex - N * qx)) by ring. rewrite Ecx, Eex, Eqx. ring. }
  assert (Py : N * N * ((qy - cy) * (ey - qy)) = uy * uy * ((dq - dc) * (de - dq))).
  { replace (N * N * ((qy - cy) * (ey - qy))) with ((N * qy - N * cy) * (N * ey - N * qy)) by ring. rewrite Ecy, Eey, Eqy. ring. }
  assert (K : 0 <= (dq - dc) * (de - dq)) by (apply Z.mul_nonneg_nonneg; lia).
  assert (Kx : 0 <= ux * ux * ((dq - dc) * (de - dq))) by (apply Z.mul_nonneg_nonneg; [apply Z.square_nonneg|exact K]).
  assert (Ky : 0 <= uy * uy * ((dq - dc) * (de - dq))) by (apply Z.mul_nonneg_nonneg; [apply Z.square_nonneg|exact K]).
  assert (NN : 0 < N * N) by (apply Z.mul_pos_pos; exact HN).
  rewrite <- Px in Kx. rewrite <- Py in Ky.
  apply (proj1 (Z.mul_nonneg_cancel_l _ _ NN)) in Kx. apply (proj1 (Z.mul_nonneg_cancel_l _ _ NN)) in Ky. split; lia.
Qed.

(* the stretch of the line AB between a point C of a collinear segment S and an end E of S lies on S *)
Lemma stretch_on_segment (A B S1 S2 C E P : pt) :
  A <> B -> S1 <> S2 -> cross S1 S2 A = 0 -> cross S1 S2 B = 0 ->
  on_seg (S1, S2) C -> (E = S1 \/ E = S2) -> cross A B P = 0 ->
  dotp A B C <= dotp A B P <= dotp A B E -> on_seg (S1, S2) P.
Proof.
  intros Hab Hs HA HB HC HE HP Hd.
  assert (HE' : on_seg (S1, S2) E) by (destruct HE as [-> | ->]; [apply on_seg_left|apply on_seg_right]).
  destruct A as [ax ay], B as [bx by_], S1 as [s1x s1y], S2 as [s2x s2y], C as [cx cy], E as [ex ey], P as [qx qy].
  unfold on_seg, cross, dotp, px, py in *. cbn [fst snd] in *.
  destruct HC as (Cc & Cx & Cy). destruct HE' as (Ec & Ex & Ey).
  set (p := s2x - s1x) in *. set (q := s2y - s1y) in *.
  assert (Hv : p <> 0 \/ q <> 0).
  { unfold p, q. destruct (Z.eq_dec s2x s1x) as [E1|E1]; [|left; lia]. destruct (Z.eq_dec s2y s1y) as [E2|E2]; [|right; lia].
    exfalso. apply Hs. congruence. }
  assert (Hu : bx - ax <> 0 \/ by_ - ay <> 0).
  { destruct (Z.eq_dec bx ax) as [E1|E1]; [|left; lia]. destruct (Z.eq_dec by_ ay) as [E2|E2]; [|right; lia].
    exfalso. apply Hab. congruence. }
  (* everything relative to S1 is parallel to (p, q) *)
  assert (PA : p * (ay - s1y) - q * (ax - s1x) = 0) by lia.
  assert (PB : p * (by_ - s1y) - q * (bx - s1x) = 0) by lia.
  assert (PC : p * (cy - s1y) - q * (cx - s1x) = 0) by lia.
  assert (PE : p * (ey - s1y) - q * (ex - s1x) = 0) by lia.
  (* u = B - A, C - A, E - A are parallel to (p, q) as differences *)
  assert (PU : p * (by_ - ay) - q * (bx - ax) = 0) by lia.
  assert (PCA : p * (cy - ay) - q * (cx - ax) = 0) by lia.
  assert (PEA : p * (ey - ay) - q * (ex - ax) = 0) by lia.
  pose proof (parallel2 p q (cx - ax) (cy - ay) (bx - ax) (by_ - ay) Hv PCA PU) as XC.
  pose proof (parallel2 p q (ex - ax) (ey - ay) (bx - ax) (by_ - ay) Hv PEA PU) as XE.
  destruct (between_coord_gen (bx - ax) (by_ - ay) (cx - ax) (cy - ay) (ex - ax) (ey - ay) (qx - ax) (qy - ay) Hu) as [Bx By]; try lia.
  (* P - A is parallel to u, u is parallel to (p, q), u <> 0: P - A is parallel to (p, q) *)
  assert (PPA : p * (qy - ay) - q * (qx - ax) = 0).
  { assert (G := parallel2 (bx - ax) (by_ - ay) (qx - ax) (qy - ay) p q Hu ltac:(lia) ltac:(lia)). lia. }
  split; [lia|]. split; nia.
Qed.

(* ---- scaling ---- *)
Lemma sc_xy k p : sc k p = (k * px p, k * py p).
Proof. destruct p as [x y]. unfold sc, aff, px, py. cbn [fst snd]. f_equal; lia. Qed.

Lemma cross_sc k a b p : cross (sc k a) (sc k b) (sc k p) = k * k * cross a b p.
Proof. rewrite !sc_xy. unfold cross, px, py. cbn [fst snd]. ring. Qed.

Lemma dotp_sc k a b p : dotp (sc k a) (sc k b) (sc k p) = k * k * dotp a b p.
Proof. rewrite !sc_xy. unfold dotp, px, py. cbn [fst snd]. ring. Qed.

Lemma sc_inj k a b : 0 < k -> sc k a = sc k b -> a = b.
Proof.
  intros Hk. rewrite !sc_xy. destruct a as [ax ay], b as [bx by_]. unfold px, py. cbn [fst snd]. intros H. inversion H.
  f_equal; nia.
Qed.

Lemma collinear_cross (s : seg) (a : pt) : collinear_point s a = true -> cross (fst s) (snd s) a = 0.
Proof.
  destruct s as [[s1x s1y] [s2x s2y]], a as [ax ay]. unfold collinear_point, cross, px, py. cbn [fst snd].
  intros H. apply Z.eqb_eq in H. lia.
Qed.

(* along the segment the projection runs from 0 to |AB|^2 *)
Lemma on_seg_dot_range (A B P : pt) : on_seg (A, B) P -> 0 <= dotp A B P <= dotp A B B.
Proof.
  destruct A as [ax ay], B as [bx by_], P as [qx qy]. unfold on_seg, cross, dotp, px, py. cbn [fst snd].
  intros (Hc & Hx & Hy). split; nia.
Qed.

Definition covered (l : rng) (k : Z) (P : pt) : Prop := exists s, In s (ring_segments l) /\ on_seg (scs k s) P.

(* what a pass that makes progress tells about its source segment *)
Lemma src_line (l : rng) (a b cur : pt) (curd : Z) (r : pt * Z) :
  pt_eqb a b = false -> cross a b cur = 0 -> curd = dotp a b cur -> step_src l a b cur r -> curd < snd r ->
  exists s, In s (ring_segments l) /\ fst s <> snd s /\ cross (fst s) (snd s) a = 0 /\ cross (fst s) (snd s) b = 0 /\
            on_seg s cur /\ (fst r = fst s \/ fst r = snd s) /\ snd r = dotp a b (fst r) /\ cross a b (fst r) = 0.
Proof.
  intros Hab Hcc Hcd (s & Hs & Ca & Cb & Ron & Hend & Hd) Hlt.
  exists s. split; [exact Hs|]. apply collinear_cross in Ca. apply collinear_cross in Cb. apply raycast_on_iff in Ron.
  assert (Hne : fst s <> snd s).
  { intros E. destruct s as [s1 s2]. cbn [fst snd] in *. subst s2.
    destruct s1 as [x y], cur as [cx cy]. unfold on_seg, px, py in Ron. cbn [fst snd] in Ron. rewrite !Z.min_id, !Z.max_id in Ron.
    assert (cx = x) by lia. assert (cy = y) by lia. subst cx cy. destruct Hend as [E|E]; rewrite E in Hd; lia. }
  split; [exact Hne|]. split; [exact Ca|]. split; [exact Cb|]. split; [destruct s; exact Ron|]. split; [exact Hend|]. split; [exact Hd|].
  (* the end is on the line of s, which is the line ab *)
  destruct s as [[s1x s1y] [s2x s2y]], a as [ax ay], b as [bx by_], r as [[ex ey] rd].
  unfold cross, px, py in *. cbn [fst snd] in *.
  set (p := s2x - s1x) in *. set (q := s2y - s1y) in *.
  assert (Hv : p <> 0 \/ q <> 0).
  { unfold p, q. destruct (Z.eq_dec s2x s1x) as [E1|E1]; [|left; lia]. destruct (Z.eq_dec s2y s1y) as [E2|E2]; [|right; lia].
    exfalso. apply Hne. congruence. }
  assert (Pu : p * (by_ - ay) - q * (bx - ax) = 0) by lia.
  assert (Pe : p * (ey - ay) - q * (ex - ax) = 0).
  { destruct Hend as [E|E]; inversion E; subst ex ey; unfold p, q in *; lia. }
  pose proof (parallel2 p q (bx - ax) (by_ - ay) (ex - ax) (ey - ay) Hv Pu Pe) as Hcross. lia.
Qed.

Section Walk.
Variables (l : rng) (a b : pt).
Hypothesis Hab : pt_eqb a b = false.

Definition inv (cur : pt) (curd : Z) : Prop :=
  cross a b cur = 0 /\ curd = dotp a b cur /\
  forall k P, 0 < k -> on_seg (sc k a, sc k b) P -> dotp (sc k a) (sc k b) P < k * k * curd -> covered l k P.

Lemma stretch_covered (cur best : pt) (curd bestd : Z) (s : seg) (k : Z) (P : pt) :
  0 < k -> cross a b cur = 0 -> curd = dotp a b cur ->
  In s (ring_segments l) -> fst s <> snd s -> cross (fst s) (snd s) a = 0 -> cross (fst s) (snd s) b = 0 ->
  on_seg s cur -> (best = fst s \/ best = snd s) -> bestd = dotp a b best ->
  on_seg (sc k a, sc k b) P -> k * k * curd <= dotp (sc k a) (sc k b) P <= k * k * bestd -> covered l k P.
Proof.
  intros Hk Hcc Hcd Hs Hne Ca Cb Hon Hend Hbd HP Hd. exists s. split; [exact Hs|].
  destruct s as [s1 s2]. cbn [fst snd] in *. unfold scs, affs. cbn [fst snd]. fold (sc k s1). fold (sc k s2).
  apply (stretch_on_segment (sc k a) (sc k b) (sc k s1) (sc k s2) (sc k cur) (sc k best) P).
  - intros E. apply (sc_inj k a b Hk) in E. subst b. rewrite pt_eqb_refl in Hab. discriminate.
  - intros E. apply Hne. apply (sc_inj k s1 s2 Hk E).
  - rewrite cross_sc, Ca. ring.
  - rewrite cross_sc, Cb. ring.
  - apply (on_seg_sc k (s1, s2) cur Hk Hon).
  - destruct Hend as [-> | ->]; [left|right]; reflexivity.
  - destruct HP as (Hc & _). exact Hc.
  - rewrite !dotp_sc. subst curd bestd. exact Hd.
Qed.

Lemma walk_sound : forall fuel cur curd, inv cur curd -> curd < dotp a b b -> covers_walk fuel l (a, b) cur curd = Some true ->
  forall k P, 0 < k -> on_seg (sc k a, sc k b) P -> covered l k P.
Proof.
  induction fuel as [|f IH]; intros cur curd (Hcc & Hcd & Hbefore) Hlt H k P Hk HP; [discriminate|].
  cbn [covers_walk] in H. pose proof (covers_step_strong l a b cur curd) as S. cbv zeta in S.
  destruct (covers_step l (a, b) cur curd) as [best bestd]. cbn [fst snd] in *.
  destruct S as [Hle [E|[Hsrc Hprog]]].
  - inversion E; subst best bestd. destruct (Z.leb_spec (dotp a b b) curd) as [L|L]; [lia|].
    rewrite Z.ltb_irrefl in H. cbn [negb] in H. discriminate.
  - destruct (src_line l a b cur curd (best, bestd) Hab Hcc Hcd Hsrc Hprog) as (s & Hs & Hne & Ca & Cb & Hon & Hend & Hbd & Hcb).
    cbn [fst snd] in *.
    assert (Step : forall k P, 0 < k -> on_seg (sc k a, sc k b) P -> dotp (sc k a) (sc k b) P <= k * k * bestd -> covered l k P).
    { intros k' P' Hk' HP' Hd'.
      destruct (Z.lt_ge_cases (dotp (sc k' a) (sc k' b) P') (k' * k' * curd)) as [Lt|Ge]; [apply (Hbefore k' P' Hk' HP' Lt)|].
      apply (stretch_covered cur best curd bestd s k' P' Hk' Hcc Hcd Hs Hne Ca Cb Hon Hend Hbd HP'). lia. }
    destruct (Z.leb_spec (dotp a b b) bestd) as [L|L].
    + apply (Step k P Hk HP). destruct (on_seg_dot_range _ _ _ HP) as [_ D1]. rewrite dotp_sc in D1.
      assert (0 <= k * k) by nia. nia.
    + destruct (Z.ltb_spec curd bestd) as [Lt|Ge]; cbn [negb] in H; [|discriminate].
      apply (IH best bestd); [|exact L|exact H|exact Hk|exact HP].
      split; [exact Hcb|]. split; [exact Hbd|]. intros k' P' Hk' HP' Hd'. apply (Step k' P' Hk' HP'). lia.
Qed.
End Walk.

Lemma dot_pos (a b : pt) : pt_eqb a b = false -> 0 < dotp a b b.
Proof.
  destruct a as [ax ay], b as [bx by_]. unfold pt_eqb, dotp, px, py. cbn [fst snd]. intros H. apply andb_false_iff in H.
  pose proof (Z.square_nonneg (bx - ax)). pose proof (Z.square_nonneg (by_ - ay)).
  destruct H as [H|H]; apply Z.eqb_neq in H.
  - assert (0 < (bx - ax) * (bx - ax)) by nia. nia.
  - assert (0 < (by_ - ay) * (by_ - ay)) by nia. nia.
Qed.

(* MAIN: an accepted segment is covered, point by point *)
Theorem line_covers_segment_sound (l : rng) (a b : pt) : line_covers_segment l (a, b) = Some true ->
  forall k P, 0 < k -> on_seg (sc k a, sc k b) P -> covered l k P.
Proof.
  unfold line_covers_segment. cbn [fst snd]. destruct (pt_eqb a b) eqn:E.
  - intros H k P Hk HP. apply pt_eqb_eq in E. subst b.
    assert (H' : line_contains_point_r l a = true) by congruence.
    unfold line_contains_point_r in H'. apply existsb_exists in H'. destruct H' as ([s i] & Hin & Hon). cbn [fst] in Hon.
    unfold ring_search in Hin. apply filter_In in Hin. destruct Hin as [Hin _]. unfold indexed in Hin. apply in_combine_l in Hin.
    exists s. split; [exact Hin|]. apply raycast_on_iff in Hon.
    assert (P = sc k a).
    { destruct (sc k a) as [x y], P as [qx qy]. unfold on_seg, px, py in HP. cbn [fst snd] in HP. rewrite !Z.min_id, !Z.max_id in HP.
      f_equal; lia. }
    subst P. apply (on_seg_sc k s a Hk Hon).
  - intros H. apply (walk_sound l a b E (covers_fuel l) a 0); [|apply dot_pos; exact E|exact H].
    split; [unfold cross; lia|]. split; [unfold dotp; lia|].
    intros k P Hk HP Hd. destruct (on_seg_dot_range _ _ _ HP) as [D0 _]. lia.
Qed.

(* every rational point of every segment of the argument lies on a segment of the receiver *)
Definition line_covered_by (l o : rng) : Prop :=
  forall sg, In sg (ring_segments o) -> forall k P, 0 < k -> on_seg (sc k (fst sg), sc k (snd sg)) P -> covered l k P.

Theorem line_contains_line_sound (l o : rng) : line_contains_line l o = Some true ->
  ring_empty l = false /\ ring_empty o = false /\ line_covered_by l o.
Proof.
  unfold line_contains_line. destruct (ring_empty l); [discriminate|]. destruct (ring_empty o); [discriminate|]. cbn [orb].
  intros H. split; [reflexivity|]. split; [reflexivity|]. intros [a b] Hsg k P Hk HP. cbn [fst snd] in HP.
  apply (line_covers_segment_sound l a b); [|exact Hk|exact HP].
  apply (all_some_true_in _ _ H). apply in_map_iff. exists (a, b). split; [reflexivity|exact Hsg].
Qed.

Print Assumptions line_contains_line_sound.
