(* ObjSelf.v — property C09: a non-empty object intersects itself (rectangles
   well-formed; polygons without holes — with holes the answer depends on the
   holes lying inside the exterior, which no hypothesis here provides). *)
From Coq Require Import ZArith Bool List Lia.
From GJ Require Import Base Kernel KernelSpec Series SeriesSpec Ring RingSpec PairSpec Pairs PairProofs
  KernelProofs IntersectsProofs PipProofs Obj ObjSpec ObjProofs BoxLaws ContainsBoxes Jordan JordanQ JordanRing JordanRect ObjSym.
Import ListNotations.
Open Scope Z_scope.

Definition s_wf (s : shape) : Prop :=
  match s with SRect r => rect_wf r | SPoly _ hs => hs = [] | _ => True end.

(* a non-empty shape meets itself *)
Theorem g_intersects_self (s : shape) : s_wf s -> s_empty s = false ->
  g_intersects (g_of_shape s) (g_of_shape s) = true.
Proof.
  destruct s as [p|r|ps|e hs]; cbn [s_wf s_empty g_of_shape g_intersects]; intros Hw Hne.
  - apply pt_eqb_refl.
  - destruct r as [[a b] [c d]]. unfold rect_wf, px, py in Hw. cbn [fst snd] in Hw.
    apply rir_iff. unfold px, py. cbn [fst snd]. lia.
  - apply Nat.ltb_ge in Hne. change (RS (mk_line ps)) with (Lr ps). apply line_intersects_line_spec.
    split; [exact Hne|]. split; [exact Hne|].
    destruct ps as [|x [|y l]]; cbn in Hne; try lia.
    exists (x, y), (x, y). split; [left; reflexivity|]. split; [left; reflexivity|].
    rewrite seg_meet_unfold. left. apply on_seg_left.
  - subst hs. apply Nat.ltb_ge in Hne. change (mk_poly [e]) with (Pg e []). apply poly_intersects_poly_noholes.
    split; [exact Hne|]. split; [exact Hne|].
    (* the first vertex lies on the boundary of the ring *)
    destruct (ring_edges_closed_path e Hne) as (qs & Hqs & _ & Hq3).
    destruct qs as [|x [|y l]]; cbn in Hq3; try lia.
    exists 1, x. split; [lia|].
    assert (Hin : in_ringb (edges_at 1 e) x = true).
    { rewrite edges_at_1. unfold in_ringb. apply orb_true_iff. left. apply on_boundaryb_iff.
      exists (x, y). split; [rewrite Hqs; left; reflexivity|apply on_seg_left]. }
    split; exact Hin.
Qed.

(* every non-empty tree has a non-empty leaf *)
Lemma nonempty_has_leaf (a : obj) : o_empty a = false -> exists x, In x (sleaves a) /\ s_empty x = false.
Proof.
  induction a as [p|p|r|ps|rs|b IH|k cs IH] using obj_ind'; cbn [o_empty sleaves]; intros Hne.
  - exists (SPoint p). split; [left; reflexivity|reflexivity].
  - exists (SPoint p). split; [left; reflexivity|reflexivity].
  - exists (SRect r). split; [left; reflexivity|reflexivity].
  - exists (SLine ps). split; [left; reflexivity|]. cbn [s_empty]. rewrite <- line_empty_eq. exact Hne.
  - exists (poly_shape rs). split; [left; reflexivity|]. rewrite poly_empty_eq in Hne.
    destruct rs as [|e hs]; [discriminate Hne|exact Hne].
  - apply IH. exact Hne.
  - assert (Hex : exists c, In c cs /\ o_empty c = false).
    { clear IH. induction cs as [|c cs IHc]; [discriminate Hne|]. cbn [forallb] in Hne.
      destruct (o_empty c) eqn:Ec.
      - cbn [andb] in Hne. destruct (IHc Hne) as (c' & Hc' & He'). exists c'. split; [right; exact Hc'|exact He'].
      - exists c. split; [left; reflexivity|exact Ec]. }
    destruct Hex as (c & Hc & Ec). rewrite Forall_forall in IH. destruct (IH c Hc Ec) as (x & Hx & Nx).
    exists x. split; [apply in_flat_map; exists c; split; assumption|exact Nx].
Qed.

Theorem o_intersects_self (a : obj) : obj_wf a -> o_empty a = false ->
  (forall x, In x (sleaves a) -> s_wf x) -> o_intersects a a = true.
Proof.
  intros Hw Hne Hs. destruct (nonempty_has_leaf a Hne) as (x & Hx & Nx).
  apply (o_intersects_flat a a Hw Hw). exists x, x. split; [exact Hx|]. split; [exact Hx|].
  apply g_intersects_self; [apply Hs; exact Hx|exact Nx].
Qed.

Print Assumptions o_intersects_self.
