(* IndexChoice2.v — property C04, continued: the report of the point search for ANY order in which the
   candidates of the strip query are delivered is a valid report in the sense of IndexChoice.v; hence
   ringContainsSegment computed from point searches over differently ordered candidate lists (the
   three index kinds) gives one and the same answer on rings whose segments meet only at their ends. *)
From Coq Require Import ZArith Bool List Lia Sorting.Permutation.
From GJ Require Import Base Kernel KernelSpec Series SeriesSpec Ring RingSpec
  RaycastProofs KernelProofs IntersectsProofs SeriesProofs PipProofs PairProofs ObjSelf2 IndexChoice.
Import ListNotations.
Open Scope Z_scope.

Lemma pip_fold_off (allow : bool) (p : pt) (l : list (seg * nat)) : forall inn,
  existsb (fun si => on_segb (fst si) p) l = false -> snd (pip_fold allow p l inn) = -1.
Proof.
  induction l as [|[sg i] l IH]; intros inn E; [reflexivity|].
  cbn [existsb fst] in E. apply orb_false_iff in E. destruct E as [E1 E2].
  cbn [pip_fold]. rewrite raycast_eq_spec, E1. apply IH. exact E2.
Qed.

(* the point search over the strip candidates in any order *)
Definition search_in_order (r : rng) (p : pt) (allow : bool) (l : list (seg * nat)) : bool * Z :=
  if negb (rect_contains_point (ring_rect r) p) then (false, -1) else pip_fold allow p l false.

Lemma search_model_order (r : rng) (p : pt) (allow : bool) :
  ring_contains_point r p allow = search_in_order r p allow (strip_search r (py p)).
Proof. reflexivity. Qed.

Theorem any_order_valid (r : rng) (p : pt) (allow : bool) (l : list (seg * nat)) :
  Permutation l (strip_search r (py p)) -> rect_contains_point (ring_rect r) p = true ->
  valid_res r p allow (search_in_order r p allow l).
Proof.
  intros HP Hr. unfold search_in_order, valid_res. rewrite Hr. cbn [negb].
  destruct (strip_search_sound r p) as [E _].
  assert (El : existsb (fun si => on_segb (fst si) p) l = on_boundaryb (ring_segments r) p).
  { rewrite <- E. apply existsb_perm. exact HP. }
  split; [|split].
  - unfold ring_contains_point. rewrite Hr. cbn [negb]. apply pip_fold_perm. exact HP.
  - intros Hb. apply pip_fold_off. rewrite El. exact Hb.
  - intros Hb. rewrite <- El in Hb. destruct (pip_fold_on allow p l false Hb) as (s & i & Hin & Hon & Hp).
    exists i. rewrite Hp. cbn [snd]. split; [reflexivity|].
    assert (Hin' : In (s, i) (strip_search r (py p))) by (apply (Permutation_in _ HP); exact Hin).
    unfold strip_search in Hin'. apply filter_In in Hin'. destruct Hin' as [Hin' _].
    assert (En : nth_seg r (Z.of_nat i) = s) by (unfold nth_seg; rewrite Nat2Z.id; apply (indexed_nth _ s _ i Hin')).
    rewrite En. split; [apply (in_combine_l _ _ _ _ Hin')|apply on_segb_iff; exact Hon].
Qed.

(* MAIN: the answer of ringContainsSegment does not depend on the order of the candidates *)
Theorem rcs_any_candidate_order (r : rng) (a b : pt) (la la' lb lb' : list (seg * nat)) :
  meets_at_ends r ->
  Permutation la (strip_search r (py a)) -> Permutation la' (strip_search r (py a)) ->
  Permutation lb (strip_search r (py b)) -> Permutation lb' (strip_search r (py b)) ->
  fst (rcs_with r (a, b) true (search_in_order r a true la) (search_in_order r b true lb)) =
  fst (rcs_with r (a, b) true (search_in_order r a true la') (search_in_order r b true lb')).
Proof.
  intros Hm Pa Pa' Pb Pb'.
  destruct (rect_contains_point (ring_rect r) a) eqn:Ra; [|unfold rcs_with; rewrite Ra; reflexivity].
  destruct (rect_contains_point (ring_rect r) b) eqn:Rb; [|unfold rcs_with; rewrite Ra, Rb; reflexivity].
  apply rcs_choice_independent; [exact Hm| | | |]; apply any_order_valid; assumption.
Qed.

(* with the candidates in index order this is the model (and the code without an index) *)
Theorem rcs_index_order (r : rng) (a b : pt) :
  ring_contains_segment r (a, b) true =
  rcs_with r (a, b) true (search_in_order r a true (strip_search r (py a))) (search_in_order r b true (strip_search r (py b))).
Proof. rewrite rcs_with_model. reflexivity. Qed.

Print Assumptions rcs_any_candidate_order.
