(* BoxLaws.v — the rectangle laws of property C09 and the unconditional
   composition law of C10:
     if A intersects B then their rectangles intersect
   for every pair of geometries (all sixteen kind pairs) and, lifted through
   Features and collections, for every pair of object trees whose rectangles are
   well formed.  With it the rectangle pre-filter of collection.Search becomes
   invisible in "a collection intersects X iff some non-empty child intersects
   some non-empty part of X". *)
From Coq Require Import Lia.
From GJ Require Import Base Kernel KernelSpec KernelProofs Series SeriesSpec SeriesProofs Ring RingSpec PipProofs
  PairSpec PairProofs Pairs Obj ObjSpec ObjProofs.
Open Scope Z_scope.

(* ------------------------------------------------------------------ *)
(* rectangles                                                           *)

Lemma rir_sym (r o : rect) : rect_intersects_rect r o = rect_intersects_rect o r.
Proof. apply rect_intersects_rect_sym. Qed.

Lemma rir_point_in (r : rect) (p : pt) : rect_contains_point r p = true -> rect_intersects_rect r (p, p) = true.
Proof.
  destruct r as [[a b] [c d]]. unfold rect_contains_point. rewrite !andb_true_iff, !Z.leb_le.
  intros [[[H1 H2] H3] H4]. apply rir_iff. unfold px, py in *. cbn [fst snd] in *. lia.
Qed.

Lemma rir_mono (r r' o o' : rect) :
  rect_contains_rect r r' = true -> rect_contains_rect o o' = true ->
  rect_intersects_rect r' o' = true -> rect_intersects_rect r o = true.
Proof. apply rects_meet_mono. Qed.

Lemma rcr_refl (r : rect) : rect_contains_rect r r = true.
Proof. apply rcr_iff. lia. Qed.

Lemma rcr_trans (a b c : rect) : rect_contains_rect a b = true -> rect_contains_rect b c = true -> rect_contains_rect a c = true.
Proof. rewrite !rcr_iff. lia. Qed.

(* ------------------------------------------------------------------ *)
(* geometry level                                                       *)

(* a point that is on a line lies in the line's rectangle *)
Lemma line_point_in_rect (ps : list pt) (p : pt) :
  line_contains_point_r (Lr ps) p = true -> rect_contains_point (ring_rect (Lr ps)) p = true.
Proof.
  rewrite line_intersects_point_spec. unfold in_lineb, on_boundaryb. intros H.
  apply existsb_exists in H. destruct H as ([a b] & Hin & Hon).
  destruct (path_segs_endpoints ps a b Hin) as [Ha Hb].
  assert (Hlen : (2 <= length ps)%nat).
  { destruct ps as [|x [|y l]]; cbn in Hin; try tauto. cbn. lia. }
  unfold Lr, ring_rect. rewrite RS_rect.
  rewrite series_rect_spec by (unfold series_empty, npoints; cbn [closed pts andb orb]; apply Nat.ltb_ge; exact Hlen).
  cbn [pts]. apply rect_contains_point_inbox.
  pose proof (bbox_spec_tight ps a Ha) as Ta. pose proof (bbox_spec_tight ps b Hb) as Tb. cbv zeta in Ta, Tb.
  apply (on_segb_inbox _ a b p); [unfold inbox; lia|unfold inbox; lia|exact Hon].
Qed.

Lemma ring_intersects_line_boxes (r l : rng) (allow : bool) :
  ring_intersects_line r l allow = true -> rect_intersects_rect (ring_rect r) (ring_rect l) = true.
Proof.
  unfold ring_intersects_line. destruct (ring_empty r || ring_empty l); [discriminate|].
  destruct (rect_intersects_rect (ring_rect r) (ring_rect l)); [reflexivity|discriminate].
Qed.

Lemma ring_intersects_ring_boxes (r o : rng) (allow : bool) :
  ring_intersects_ring r o allow = true -> rect_intersects_rect (ring_rect r) (ring_rect o) = true.
Proof.
  unfold ring_intersects_ring. destruct (ring_empty r || ring_empty o); [discriminate|].
  destruct (rect_intersects_rect (ring_rect r) (ring_rect o)); [reflexivity|discriminate].
Qed.

Lemma poly_point_boxes (o : poly) (p : pt) :
  poly_contains_point o p = true -> rect_intersects_rect (poly_rect o) (p, p) = true.
Proof.
  unfold poly_contains_point, poly_rect. rewrite rcp_hit_gen.
  destruct (rect_contains_point (ring_rect (exterior o)) p) eqn:E; [|discriminate]. intros _.
  apply rir_point_in. exact E.
Qed.

Lemma poly_intersects_poly_boxes (p o : poly) :
  poly_intersects_poly p o = true -> rect_intersects_rect (poly_rect p) (poly_rect o) = true.
Proof.
  unfold poly_intersects_poly, poly_rect.
  destruct (ring_intersects_ring (exterior o) (exterior p) true) eqn:E; [|discriminate]. intros _.
  rewrite rir_sym. apply (ring_intersects_ring_boxes _ _ _ E).
Qed.

Lemma poly_intersects_line_boxes (p : poly) (l : rng) :
  poly_intersects_line p l = true -> rect_intersects_rect (poly_rect p) (ring_rect l) = true.
Proof.
  unfold poly_intersects_line, poly_rect.
  destruct (ring_intersects_line (exterior p) l true) eqn:E; [|discriminate]. intros _.
  apply (ring_intersects_line_boxes _ _ _ E).
Qed.

(* the geometries the object layer builds: lines and polygons come from point lists *)
Inductive built : gshape -> Prop :=
| built_point p : built (GPoint p)
| built_rect r : built (GRect r)
| built_line ps : built (GLine (Lr ps))
| built_poly p : built (GPoly p).

(* MAIN (geometry level): all sixteen pairs *)
Theorem g_intersects_boxes (a b : gshape) : built a -> built b ->
  g_intersects a b = true -> rect_intersects_rect (g_rect a) (g_rect b) = true.
Proof.
  intros Ba Bb. destruct Ba as [p|r|ps|p]; destruct Bb as [q|s|qs|q]; cbn [g_intersects g_rect].
  - intros H. apply pt_eqb_eq in H. subst q. apply rir_point_in. unfold rect_contains_point.
    cbn [fst snd]. rewrite !Z.leb_refl. reflexivity.
  - unfold point_intersects_rect. intros H. rewrite rir_sym. apply rir_point_in. exact H.
  - unfold point_intersects_line. intros H. rewrite rir_sym. apply rir_point_in. apply line_point_in_rect. exact H.
  - unfold point_intersects_poly. intros H. rewrite rir_sym. apply poly_point_boxes. exact H.
  - apply rir_point_in.
  - trivial.
  - unfold rect_intersects_line. intros H. apply (ring_intersects_line_boxes (RR r) _ _ H).
  - unfold rect_intersects_poly, poly_intersects_rect. intros H. apply poly_intersects_poly_boxes in H.
    rewrite rir_sym. exact H.
  - intros H. apply rir_point_in. apply line_point_in_rect. exact H.
  - unfold line_intersects_rect. intros H. rewrite rir_sym. apply (ring_intersects_line_boxes (RR s) _ _ H).
  - rewrite line_intersects_line_eq. rewrite !andb_true_iff. intros [[_ H] _]. exact H.
  - unfold line_intersects_poly. intros H. rewrite rir_sym. apply poly_intersects_line_boxes. exact H.
  - apply poly_point_boxes.
  - unfold poly_intersects_rect. apply poly_intersects_poly_boxes.
  - apply poly_intersects_line_boxes.
  - apply poly_intersects_poly_boxes.
Qed.

(* ------------------------------------------------------------------ *)
(* object level                                                         *)

Lemma leaf_geom_built (o : obj) (g : gshape) : leaf_geom o = Some g -> built g.
Proof. destruct o; cbn [leaf_geom]; intros H; inversion H; constructor. Qed.

Lemma g_rect_line (ps : list pt) : g_rect (GLine (Lr ps)) = series_rect (mk_line ps).
Proof. cbn [g_rect]. unfold Lr, ring_rect. apply RS_rect. Qed.

Lemma in_rectb_contains (r : rect) (p : pt) : in_rectb r p = rect_contains_point r p.
Proof. symmetry. apply rect_contains_point_spec. Qed.

(* the tight box of a list contains the tight box of any non-empty list of its points *)
Lemma bbox_incl (big small : list pt) : small <> [] -> (forall p, In p small -> In p big) ->
  rect_contains_rect (bbox_spec big) (bbox_spec small) = true.
Proof.
  intros Hne Hsub. apply (bbox_in_rect_iff (bbox_spec big) small Hne). intros p Hp.
  pose proof (bbox_spec_tight big p (Hsub p Hp)) as T. cbv zeta in T.
  unfold in_rectb. rewrite !andb_true_iff, !Z.leb_le. lia.
Qed.

(* a non-empty child's rectangle lies inside its collection's rectangle *)
Lemma child_rect_in_coll (k : Z) (cs : list obj) (c : obj) :
  obj_wf (OColl k cs) -> In c cs -> o_empty c = false ->
  rect_contains_rect (o_rect (OColl k cs)) (o_rect c) = true.
Proof.
  intros Hw Hin He.
  assert (Hwc : obj_wf c) by (apply obj_wf_coll in Hw; rewrite Forall_forall in Hw; apply Hw; exact Hin).
  assert (Hne : o_empty (OColl k cs) = false).
  { cbn [o_empty]. apply not_true_is_false. intros H. rewrite forallb_forall in H. rewrite (H c Hin) in He. discriminate. }
  rewrite (o_rect_spec _ Hw Hne), (o_rect_spec _ Hwc He). cbn [positions]. apply bbox_incl.
  - rewrite o_empty_spec in He. apply spec_empty_false_iff. exact He.
  - intros p Hp. apply in_flat_map. exists c. split; assumption.
Qed.

(* a non-empty part (ForEach) of an object lies inside the object's rectangle *)
Lemma part_rect_in_obj (b : obj) : forall geom, obj_wf b -> In geom (for_each b) -> o_empty geom = false ->
  rect_contains_rect (o_rect b) (o_rect geom) = true.
Proof.
  induction b as [p|p|r|ps|rs|b IH|k cs IH] using obj_ind'; intros geom Hw Hin He; cbn [for_each] in Hin;
    try (destruct Hin as [<-|[]]; apply rcr_refl).
  apply in_flat_map in Hin. destruct Hin as (c & Hc & Hg).
  assert (Hwc : obj_wf c) by (apply obj_wf_coll in Hw; rewrite Forall_forall in Hw; apply Hw; exact Hc).
  rewrite Forall_forall in IH. pose proof (IH c Hc geom Hwc Hg He) as H1.
  assert (Hce : o_empty c = false).
  { (* a part of c is non-empty, so c is *)
    destruct (o_empty c) eqn:E; [|reflexivity]. exfalso.
    assert (G : forall x, o_empty x = true -> forall y, In y (for_each x) -> o_empty y = true).
    { clear. induction x as [p|p|r|ps|rs|b IHb|k cs IHc] using obj_ind'; intros Hx y Hy; cbn [for_each] in Hy;
        try (destruct Hy as [<-|[]]; exact Hx).
      apply in_flat_map in Hy. destruct Hy as (c & Hc & Hy). cbn [o_empty] in Hx. rewrite forallb_forall in Hx.
      rewrite Forall_forall in IHc. apply (IHc c Hc (Hx c Hc) y Hy). }
    rewrite (G c E geom Hg) in He. discriminate. }
  eapply rcr_trans; [apply (child_rect_in_coll k cs c Hw Hc Hce)|exact H1].
Qed.

Lemma for_each_wf (b : obj) : obj_wf b -> forall g, In g (for_each b) -> obj_wf g.
Proof.
  induction b as [p|p|r|ps|rs|b IH|k cs IH] using obj_ind'; intros Hw g Hg; cbn [for_each] in Hg;
    try (destruct Hg as [<-|[]]; exact Hw).
  apply in_flat_map in Hg. destruct Hg as (c & Hc & Hg). rewrite Forall_forall in IH.
  apply (IH c Hc); [|exact Hg]. apply obj_wf_coll in Hw. rewrite Forall_forall in Hw. apply Hw. exact Hc.
Qed.

(* Spatial().IntersectsX(g): receiver tree b, geometry g *)
Lemma o_intersects_g_boxes (b : obj) : forall g, obj_wf b -> built g ->
  o_intersects_g b g = true -> rect_intersects_rect (o_rect b) (g_rect g) = true.
Proof.
  induction b as [p|p|r|ps|rs|b IH|k cs IH] using obj_ind'; intros g Hw Bg H; cbn [o_intersects_g o_rect] in *.
  - apply (g_intersects_boxes (GPoint p) g (built_point p) Bg H).
  - apply (g_intersects_boxes (GPoint p) g (built_point p) Bg H).
  - apply (g_intersects_boxes (GRect r) g (built_rect r) Bg H).
  - rewrite <- g_rect_line. apply (g_intersects_boxes (GLine (Lr ps)) g (built_line ps) Bg H).
  - apply (g_intersects_boxes (GPoly (mk_poly rs)) g (built_poly _) Bg H).
  - apply IH; assumption.
  - apply existsb_exists in H. destruct H as (c & Hc & H). unfold visits in H.
    rewrite !andb_true_iff, negb_true_iff in H. destruct H as [[He Hr] Hi].
    apply (rir_mono _ (o_rect c) _ (g_rect g)); [|apply rcr_refl|exact Hr].
    apply (child_rect_in_coll k cs c Hw Hc He).
Qed.

(* MAIN (object level): if A intersects B their rectangles intersect *)
Theorem o_intersects_boxes (a : obj) : forall b, obj_wf a -> obj_wf b ->
  o_intersects a b = true -> rect_intersects_rect (o_rect a) (o_rect b) = true.
Proof.
  induction a as [p|p|r|ps|rs|a IH|k cs IH] using obj_ind'; intros b Hwa Hwb H; cbn [o_intersects o_rect] in *.
  - rewrite rir_sym. apply (o_intersects_g_boxes b (GPoint p) Hwb (built_point p) H).
  - rewrite rir_sym. apply (o_intersects_g_boxes b (GPoint p) Hwb (built_point p) H).
  - rewrite rir_sym. apply (o_intersects_g_boxes b (GRect r) Hwb (built_rect r) H).
  - rewrite rir_sym, <- g_rect_line. apply (o_intersects_g_boxes b (GLine (Lr ps)) Hwb (built_line ps) H).
  - rewrite rir_sym. apply (o_intersects_g_boxes b (GPoly (mk_poly rs)) Hwb (built_poly _) H).
  - apply IH; assumption.
  - apply existsb_exists in H. destruct H as (geom & Hg & H).
    unfold nonempty_parts in Hg. apply filter_In in Hg. destruct Hg as [Hg Hge]. apply negb_true_iff in Hge.
    apply existsb_exists in H. destruct H as (c & Hc & H). unfold visits in H.
    rewrite !andb_true_iff, negb_true_iff in H. destruct H as [[He Hr] Hi].
    apply (rir_mono _ (o_rect c) _ (o_rect geom)); [| |exact Hr].
    + apply (child_rect_in_coll k cs c Hwa Hc He).
    + apply (part_rect_in_obj b geom Hwb Hg Hge).
Qed.

(* C10, unconditional: a collection intersects X iff some non-empty child intersects some
   non-empty part of X — the rectangle pre-filter of Search is implied *)
Theorem coll_intersects_iff (k : Z) (cs : list obj) (x : obj) :
  obj_wf (OColl k cs) -> obj_wf x ->
  (o_intersects (OColl k cs) x = true <->
   exists c p, In c cs /\ In p (for_each x) /\ o_empty c = false /\ o_empty p = false /\ o_intersects c p = true).
Proof.
  intros Hw Hwx. rewrite coll_intersects_spec. split.
  - intros (c & p & H1 & H2 & H3 & H4 & _ & H6). exists c, p. auto.
  - intros (c & p & H1 & H2 & H3 & H4 & H5). exists c, p. repeat split; try assumption.
    apply o_intersects_boxes; try assumption.
    + apply obj_wf_coll in Hw. rewrite Forall_forall in Hw. apply Hw. exact H1.
    + apply (for_each_wf x Hwx p H2).
Qed.

Print Assumptions g_intersects_boxes.
Print Assumptions o_intersects_boxes.
Print Assumptions coll_intersects_iff.
