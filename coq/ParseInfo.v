(* ParseInfo.v — property C06, the information clause, foreign members: every
   object Parse returns (other than a Circle, the known finding) stores exactly
   the document's non-reserved members, with their values, in their original
   order (duplicates included); the writers splice that list after the two
   reserved members (EmitProofs.emit_jv).  No hypothesis on the document. *)
From Coq Require Import Lia.
From GJ Require Import Base JsonConst Json JsonSpec JsonProofs EmitProofs RoundTrip ParsedForm ParseSpec.
Open Scope Z_scope.

Definition top_extra (g : gobj) : option extra :=
  match g with
  | JPoint _ ex | JLine _ ex | JPoly _ ex | JFeature _ ex | JColl _ _ ex => ex
  | _ => None
  end.

Definition nomem (ex : option extra) : Prop := match ex with Some e => members e = None | None => True end.

Lemma with_members_members (ex : option extra) (foreign : list (jkey * jv)) :
  nomem ex -> ex_members (with_members ex foreign) = foreign.
Proof.
  intros H. destruct foreign as [|m r]; cbn [with_members].
  - destruct ex as [e|]; [|reflexivity]. cbn [nomem ex_members] in *. rewrite H. reflexivity.
  - destruct ex as [e|]; reflexivity.
Qed.

Lemma with_members_none (ex : option extra) (foreign : list (jkey * jv)) : with_members ex foreign = None -> foreign = [].
Proof. destruct foreign as [|m r]; [reflexivity|]. cbn [with_members]. destruct ex; discriminate. Qed.

Lemma extra_of_nums_nomem (nums : list fnum) : nomem (extra_of_nums nums).
Proof. destruct nums as [|x [|y [|z [|m r]]]]; cbn; auto. Qed.

Lemma point_coords_nomem (top : bool) (rc : option jv) (p : fpt) (ex : option extra) :
  parse_point_coords top rc = ROk (p, ex) -> nomem ex.
Proof.
  unfold parse_point_coords. destruct rc as [v|]; [|discriminate]. destruct (top && negb (is_array v)); [discriminate|].
  destruct (take_nums true 4 (elems v)) as [nums|]; [|discriminate]. destruct nums as [|x [|y r]]; try discriminate.
  intros H. inversion H. apply (extra_of_nums_nomem (x :: y :: r)).
Qed.

Lemma pos_step_nomem (mixed arr : bool) st (v : jv) pts' ex' f' :
  pos_step mixed arr st v = ROk (pts', ex', f') ->
  (forall pts ex f, st = ROk (pts, ex, f) -> nomem ex) -> nomem ex'.
Proof.
  destruct st as [[[pts ex] f]|c]; [|discriminate]. intros H Hn. specialize (Hn pts ex f eq_refl).
  unfold pos_step in H. destruct (arr && negb (is_array v)); [discriminate|].
  destruct (parse_position v) as [nums|c]; [|discriminate].
  destruct ex as [e|].
  - inversion H. reflexivity.
  - destruct (skipn 2 nums); [inversion H; exact I|]. destruct f; [inversion H; reflexivity|].
    destruct mixed; [inversion H; exact I|discriminate].
Qed.

Lemma pos_fold_nomem (mixed arr : bool) : forall (l : list jv) st pts' ex' f',
  fold_left (pos_step mixed arr) l st = ROk (pts', ex', f') ->
  (forall pts ex f, st = ROk (pts, ex, f) -> nomem ex) -> nomem ex'.
Proof.
  induction l as [|v l IH]; intros st pts' ex' f' H Hn.
  - cbn in H. exact (Hn _ _ _ H).
  - cbn [fold_left] in H. apply (IH _ _ _ _ H). intros pts ex f E. exact (pos_step_nomem _ _ _ _ _ _ _ E Hn).
Qed.

Lemma line_coords_nomem (top : bool) (rc : option jv) ps ex : parse_line_coords top rc = ROk (ps, ex) -> nomem ex.
Proof.
  unfold parse_line_coords. destruct rc as [v|]; [|discriminate]. destruct (top && negb (is_array v)); [discriminate|].
  destruct (fold_left _ (elems v) _) as [[[pts e] f]|c] eqn:E; [|discriminate]. intros H. inversion H; subst.
  apply (pos_fold_nomem _ _ _ _ _ _ _ E). intros pts0 ex0 f0 E0. inversion E0. exact I.
Qed.

Lemma ring_fold_nomem : forall (l : list jv) st rings' ex' f',
  fold_left ring_step l st = ROk (rings', ex', f') ->
  (forall rings ex f, st = ROk (rings, ex, f) -> nomem ex) -> nomem ex'.
Proof.
  induction l as [|v l IH]; intros st rings' ex' f' H Hn.
  - cbn in H. exact (Hn _ _ _ H).
  - cbn [fold_left] in H. apply (IH _ _ _ _ H). intros rings ex f E.
    destruct st as [[[r0 ex0] f0]|c]; [|discriminate]. unfold ring_step in E. destruct (negb (is_array v)); [discriminate|].
    destruct (fold_left _ (elems v) _) as [[[pts e] f1]|c] eqn:E1; [|discriminate]. inversion E; subst.
    apply (pos_fold_nomem _ _ _ _ _ _ _ E1). intros pts2 ex2 f2 E2. inversion E2; subst. exact (Hn _ _ _ eq_refl).
Qed.

Lemma poly_coords_nomem (top : bool) (rc : option jv) rings ex : parse_poly_coords top rc = ROk (rings, ex) -> nomem ex.
Proof.
  unfold parse_poly_coords. destruct rc as [v|]; [|discriminate]. destruct (top && negb (is_array v)); [discriminate|].
  destruct (fold_left _ (elems v) _) as [[[rs e] f]|c] eqn:E; [|discriminate]. intros H. inversion H; subst.
  apply (ring_fold_nomem _ _ _ _ _ E). intros r0 ex0 f0 E0. inversion E0. exact I.
Qed.

Definition is_circle (g : gobj) : bool := match g with JCircle _ _ => true | _ => false end.

(* MAIN *)
Theorem parse_keeps_foreign (fuel : nat) (o : popts) (one : Z) (ms : list (jkey * jv)) (g : gobj) :
  parse fuel o one (JObj ms) = POk g -> is_circle g = false ->
  ex_members (top_extra g) = filter foreign_key ms.
Proof.
  destruct fuel as [|f]; [discriminate|]. intros H Hc. cbn [parse] in H. rewrite <- foreign_is_filter.
  set (foreign := k_foreign (scan_keys ms)) in *.
  destruct (k_type (scan_keys ms)) as [[| | |r0 x0|traw tname|l0|ms0]|]; try discriminate.
  destruct (bytes_eqb tname s_Point).
  { destruct (parse_point_coords true (k_coords (scan_keys ms))) as [[p ex]|c] eqn:Ep; [|discriminate].
    pose proof (point_coords_nomem _ _ _ _ Ep) as Hn. pose proof (with_members_members ex foreign Hn) as Hm.
    destruct (with_members ex foreign) as [e|] eqn:Ew.
    - destruct (check_inv _ _ _ _ H) as [-> _]. exact Hm.
    - destruct (allow_simple o); destruct (check_inv _ _ _ _ H) as [-> _]; exact Hm. }
  destruct (bytes_eqb tname s_LineString).
  { destruct (parse_line_coords true (k_coords (scan_keys ms))) as [[ps ex]|c] eqn:Ep; [|discriminate].
    destruct (length ps <? 2)%nat; [discriminate|]. destruct (check_inv _ _ _ _ H) as [-> _].
    exact (with_members_members ex foreign (line_coords_nomem _ _ _ _ Ep)). }
  destruct (bytes_eqb tname s_Polygon).
  { destruct (parse_poly_coords true (k_coords (scan_keys ms))) as [[rings ex]|c] eqn:Ep; [|discriminate].
    destruct rings as [|ext holes]; [discriminate|]. destruct (negb (forallb ring_ok (ext :: holes))); [discriminate|].
    pose proof (with_members_members ex foreign (poly_coords_nomem _ _ _ _ Ep)) as Hm.
    destruct (with_members ex foreign) as [e|] eqn:Ew.
    - destruct (check_inv _ _ _ _ H) as [-> _]. exact Hm.
    - destruct holes as [|h holes]; [destruct (allow_rects o && perfect_rect ext)|]; destruct (check_inv _ _ _ _ H) as [-> _]; exact Hm. }
  destruct (bytes_eqb tname s_Feature).
  { destruct (k_geom (scan_keys ms)) as [gv|]; [|discriminate].
    destruct (parse f o one gv) as [base|c]; [|discriminate].
    destruct (match base, foreign with
              | JPoint p _, _ :: _ => circle_of o one p foreign
              | JSimple p, _ :: _ => if CIRCLE_SIMPLE_OK then circle_of o one p foreign else None
              | _, _ => None end) as [r|] eqn:Ec.
    - subst r. exfalso. destruct base as [p ex|p| | | | | |]; try discriminate; destruct foreign as [|m0 ms'] eqn:Ef; try discriminate;
        unfold CIRCLE_SIMPLE_OK in Ec; unfold circle_of in Ec; destruct (disable_circle o); try discriminate;
        destruct (get2 s_properties s_type _) as [tv|]; try discriminate; destruct (bytes_eqb (str_of tv) s_Circle); try discriminate;
        destruct (negb _); try discriminate;
        destruct (match get2 s_properties s_radius _ with Some (JNum _ f0) => ROk f0 | Some JTrue => ROk (FV one) | Some (JStr _ _) => RErr E_Unmodelled | _ => ROk (FV 0) end);
        try discriminate; inversion Ec; subst; discriminate.
    - inversion H; subst. exact (with_members_members None foreign I). }
  destruct (bytes_eqb tname s_MultiPoint).
  { destruct (k_coords (scan_keys ms)) as [cv|]; [|discriminate]. destruct (negb (is_array cv)); [discriminate|].
    destruct (map_until _ (elems cv)) as [kids|c]; [|discriminate]. unfold MULTIPOINT_VALID_CHECK in H.
    destruct (check_inv _ _ _ _ H) as [-> _]. exact (with_members_members None foreign I). }
  destruct (bytes_eqb tname s_MultiLineString).
  { destruct (k_coords (scan_keys ms)) as [cv|]; [|discriminate]. destruct (negb (is_array cv)); [discriminate|].
    destruct (map_until _ (elems cv)) as [kids|c]; [|discriminate].
    destruct (check_inv _ _ _ _ H) as [-> _]. exact (with_members_members None foreign I). }
  destruct (bytes_eqb tname s_MultiPolygon).
  { destruct (k_coords (scan_keys ms)) as [cv|]; [|discriminate]. destruct (negb (is_array cv)); [discriminate|].
    destruct (map_until _ (elems cv)) as [kids|c]; [|discriminate].
    destruct (check_inv _ _ _ _ H) as [-> _]. exact (with_members_members None foreign I). }
  destruct (bytes_eqb tname s_GeometryCollection).
  { destruct (k_geoms (scan_keys ms)) as [cv|]; [|discriminate]. destruct (negb (is_array cv)); [discriminate|].
    destruct (map_until _ (elems cv)) as [kids|c]; [|discriminate]. inversion H; subst.
    exact (with_members_members None foreign I). }
  destruct (bytes_eqb tname s_FeatureCollection); [|discriminate].
  destruct (k_feats (scan_keys ms)) as [cv|]; [|discriminate]. destruct (negb (is_array cv)); [discriminate|].
  destruct (map_until _ (elems cv)) as [kids|c]; [|discriminate]. inversion H; subst.
  exact (with_members_members None foreign I).
Qed.

(* ------------------------------------------------------------------ *)
(* z / m values: the dimensionality is declared by the first position; every
   position contributes exactly that many values - its own, truncated, or padded
   with zeros - in document order, across the rings of a polygon           *)

Definition pos_more (p : jv) : list fnum := map num_of (skipn 2 (elems p)).
Definition pos_pad (d : nat) (p : jv) : list fnum := pad_dims d (pos_more p).

Definition declared_extra (ls : list jv) : option extra :=
  match ls with
  | [] => None
  | p0 :: _ =>
      match length (pos_more p0) with
      | O => None
      | d => Some {| dims := d; values := flat_map (pos_pad d) ls; members := None |}
      end
  end.

Lemma wf_position_nums (l : list jv) : wfpos l -> parse_position (JArr l) = ROk (map num_of l) /\ skipn 2 (map num_of l) = pos_more (JArr l).
Proof.
  intros [[L2 L4] Hn]. unfold parse_position, pos_more. cbn [elems].
  rewrite (take_nums_isnum false 4 l Hn), firstn_all2 by lia.
  destruct l as [|a [|b l2]]; cbn [length] in L2; try lia. split; reflexivity.
Qed.

(* once values are being kept, every well-formed position appends its padded values *)
Lemma pos_fold_values (mixed arr : bool) (d : nat) : forall (l : list jv) (pts : list fpt) (vals : list fnum) (f : bool),
  Forall wfposv l ->
  fold_left (pos_step mixed arr) l (ROk (pts, Some {| dims := d; values := vals; members := None |}, f))
  = ROk (rev (map pos_xy l) ++ pts, Some {| dims := d; values := vals ++ flat_map (pos_pad d) l; members := None |},
         match l with [] => f | _ => false end).
Proof.
  induction l as [|p l IH]; intros pts vals f Hw.
  - cbn. rewrite app_nil_r. reflexivity.
  - inversion Hw as [|? ? (lp & -> & Hp) Hw']; subst. cbn [fold_left].
    destruct (wf_position_nums lp Hp) as [En Em].
    assert (E1 : pos_step mixed arr (ROk (pts, Some {| dims := d; values := vals; members := None |}, f)) (JArr lp)
                 = ROk (pos_xy (JArr lp) :: pts, Some {| dims := d; values := vals ++ pos_pad d (JArr lp); members := None |}, false)).
    { unfold pos_step. cbn [is_array negb]. rewrite andb_false_r, En. unfold pos_pad. rewrite <- Em. cbn [dims values].
      destruct Hp as [[L2 _] _]. destruct lp as [|a [|b l2]]; cbn [length] in L2; try lia. reflexivity. }
    rewrite E1, (IH _ _ false Hw'). cbn [map rev flat_map]. rewrite <- !app_assoc. cbn [app].
    destruct l; reflexivity.
Qed.

Lemma pad_self (more : list fnum) : pad_dims (length more) more = more.
Proof. unfold pad_dims. apply map_nth_id. Qed.

Lemma pos_fold_two (arr : bool) : forall (l : list jv) (acc pts' : list fpt) (ex' : option extra) (f' : bool),
  Forall wfposv l -> fold_left (pos_step false arr) l (ROk (acc, None, false)) = ROk (pts', ex', f') -> ex' = None.
Proof.
  induction l as [|q l IH]; intros acc pts' ex' f' Hw H.
  - cbn in H. inversion H. reflexivity.
  - inversion Hw as [|? ? (lq & -> & Hq) Hw']; subst. cbn [fold_left] in H.
    destruct (wf_position_nums lq Hq) as [Enq Emq].
    assert (Eq : pos_step false arr (ROk (acc, None, false)) (JArr lq)
                 = match pos_more (JArr lq) with [] => ROk (pos_xy (JArr lq) :: acc, None, false) | _ => RErr E_CoordsInvalid end).
    { unfold pos_step. cbn [is_array negb]. rewrite andb_false_r, Enq, Emq.
      destruct Hq as [[L2 _] _]. destruct lq as [|a [|b l2]]; cbn [length] in L2; try lia.
      destruct (pos_more (JArr (a :: b :: l2))); reflexivity. }
    rewrite Eq in H. destruct (pos_more (JArr lq)); [|rewrite pos_fold_err in H; discriminate].
    exact (IH _ _ _ _ Hw' H).
Qed.

(* from the initial state: the first position declares the dimensionality *)
Lemma pos_fold_declared (mixed arr : bool) (l : list jv) (pts' : list fpt) (ex' : option extra) (f' : bool) :
  Forall wfposv l ->
  fold_left (pos_step mixed arr) l (ROk ([], None, true)) = ROk (pts', ex', f') ->
  (mixed = false -> ex' = declared_extra l) /\ pts' = rev (map pos_xy l).
Proof.
  intros Hw H. split; [|destruct (pos_fold_shape _ _ _ _ _ _ _ H) as (p0 & e0 & f0 & E0 & ->); inversion E0; apply app_nil_r].
  intros Hmix. subst mixed. destruct l as [|p l]; [cbn in H; inversion H; reflexivity|].
  inversion Hw as [|? ? (lp & -> & Hp) Hw']; subst. cbn [fold_left] in H.
  destruct (wf_position_nums lp Hp) as [En Em]. cbn [declared_extra].
  assert (E1 : pos_step false arr (ROk ([], None, true)) (JArr lp)
               = ROk ([pos_xy (JArr lp)],
                      match pos_more (JArr lp) with
                      | [] => None
                      | more => Some {| dims := length more; values := more; members := None |}
                      end, false)).
  { unfold pos_step. cbn [is_array negb]. rewrite andb_false_r, En, Em.
    destruct Hp as [[L2 _] _]. destruct lp as [|a [|b l2]]; cbn [length] in L2; try lia.
    destruct (pos_more (JArr (a :: b :: l2))); reflexivity. }
  rewrite E1 in H. destruct (pos_more (JArr lp)) as [|m0 more] eqn:Emore.
  - (* two ordinates: nothing is kept, and every later position has two as well (else Parse fails) *)
    cbn [length]. exact (pos_fold_two arr l _ _ _ _ Hw' H).
  - rewrite (pos_fold_values false arr (length (m0 :: more)) l _ _ false Hw') in H. inversion H; subst.
    cbn [length flat_map]. unfold pos_pad at 2. rewrite Emore.
    change (S (length more)) with (length (m0 :: more)). rewrite pad_self. reflexivity.
Qed.

(* LineString / MultiLineString member *)
Theorem line_values (top : bool) (l : list jv) (ps : list fpt) (ex : option extra) :
  Forall wfposv l -> parse_line_coords top (Some (JArr l)) = ROk (ps, ex) ->
  ex = declared_extra l /\ ps = map pos_xy l.
Proof.
  intros Hw H. unfold parse_line_coords in H. cbn [is_array negb elems] in H. rewrite andb_false_r in H.
  destruct (fold_left _ l _) as [[[pts e] f]|c] eqn:E; [|discriminate]. inversion H; subst.
  destruct (pos_fold_declared MIXED_OK true l pts ex f Hw E) as [A B]. split; [exact (A eq_refl)|].
  rewrite B, rev_involutive. reflexivity.
Qed.

(* Polygon / MultiPolygon member: the values run across the rings *)
Definition wfring_pos (r : jv) : Prop := exists l, r = JArr l /\ Forall wfposv l.

Lemma ring_fold_values (d : nat) : forall (rs : list jv) (rings : list (list fpt)) (vals : list fnum) (f : bool),
  Forall wfring_pos rs ->
  exists f', fold_left ring_step rs (ROk (rings, Some {| dims := d; values := vals; members := None |}, f))
  = ROk (rev (map ring_pts rs) ++ rings,
         Some {| dims := d; values := vals ++ flat_map (pos_pad d) (concat (map elems rs)); members := None |}, f').
Proof.
  induction rs as [|r rs IH]; intros rings vals f Hw.
  - exists f. cbn. rewrite app_nil_r. reflexivity.
  - inversion Hw as [|? ? (l & -> & Hl) Hw']; subst. cbn [fold_left]. unfold ring_step at 2. cbn [is_array negb elems].
    rewrite (pos_fold_values MIXED_OK false d l [] vals f Hl). rewrite app_nil_r, rev_involutive.
    destruct (IH (map pos_xy l :: rings) (vals ++ flat_map (pos_pad d) l) false Hw') as [f' E]. exists f'. rewrite E.
    cbn [map rev concat elems]. unfold ring_pts at 2. cbn [elems]. rewrite <- !app_assoc. cbn [app]. rewrite flat_map_app. reflexivity.
Qed.

Lemma ring_fold_two : forall (rs : list jv) (rings rings' : list (list fpt)) (ex' : option extra) (f' : bool),
  Forall wfring_pos rs -> fold_left ring_step rs (ROk (rings, None, false)) = ROk (rings', ex', f') -> ex' = None.
Proof.
  induction rs as [|r rs IH]; intros rings rings' ex' f' Hw H.
  - cbn in H. inversion H. reflexivity.
  - inversion Hw as [|? ? (l & -> & Hl) Hw']; subst. cbn [fold_left] in H. unfold ring_step at 2 in H. cbn [is_array negb elems] in H.
    destruct (fold_left (pos_step MIXED_OK false) l (ROk ([], None, false))) as [[[pts e] f1]|c] eqn:E; [|rewrite ring_fold_err in H; discriminate].
    rewrite (pos_fold_two false l [] pts e f1 Hl E) in H. exact (IH _ _ _ _ Hw' H).
Qed.

Theorem polygon_values (top : bool) (rs : list jv) (rings : list (list fpt)) (ex : option extra) :
  Forall wfring_pos rs -> (match rs with r1 :: _ => elems r1 <> [] | [] => True end) ->
  parse_poly_coords top (Some (JArr rs)) = ROk (rings, ex) ->
  ex = declared_extra (concat (map elems rs)) /\ rings = map ring_pts rs.
Proof.
  intros Hw Hne H. split; [|exact (poly_coords_shape top rs rings ex H)].
  unfold parse_poly_coords in H. cbn [is_array negb elems] in H. rewrite andb_false_r in H.
  destruct (fold_left ring_step rs _) as [[[rr e] f]|c] eqn:E; [|discriminate]. inversion H; subst. clear H.
  destruct rs as [|r1 rs]; [cbn in E; inversion E; reflexivity|].
  inversion Hw as [|? ? (l1 & -> & Hl1) Hw']; subst. cbn [elems] in Hne. cbn [fold_left] in E. unfold ring_step at 2 in E.
  cbn [is_array negb elems] in E.
  destruct (fold_left (pos_step MIXED_OK false) l1 (ROk ([], None, true))) as [[[pts0 e0] f0]|c0] eqn:E0;
    [|rewrite ring_fold_err in E; discriminate].
  destruct (pos_fold_declared MIXED_OK false l1 pts0 e0 f0 Hl1 E0) as [A _]. specialize (A eq_refl). subst e0.
  destruct l1 as [|p0 l1]; [congruence|]. cbn [map concat elems app declared_extra] in *.
  destruct (length (pos_more p0)) as [|d'] eqn:Ed.
  - exact (ring_fold_two rs _ _ _ _ Hw' E).
  - destruct (ring_fold_values (S d') rs [rev pts0] (flat_map (pos_pad (S d')) (p0 :: l1)) false Hw') as [f' E2].
    rewrite E2 in E. inversion E; subst. change (p0 :: l1 ++ concat (map elems rs)) with ((p0 :: l1) ++ concat (map elems rs)).
    rewrite flat_map_app. reflexivity.
Qed.

(* the writers put that list right after the two reserved members (a Feature adds the default
   "properties" member at the end when the document had none) *)
Definition is_feature (g : gobj) : bool := match g with JFeature _ _ => true | _ => false end.

Lemma emit_members (fmt : Z -> list Z) (g : gobj) : is_circle g = false ->
  exists a b, emit_jv fmt g = JObj (a :: b :: extra_members (top_extra g) (is_feature g)).
Proof. destruct g; cbn [is_circle]; intros H; try discriminate; cbn [emit_jv top_extra is_feature]; eexists; eexists; reflexivity. Qed.

Theorem written_members (fmt : Z -> list Z) (fuel : nat) (o : popts) (one : Z) (ms : list (jkey * jv)) (g : gobj) :
  parse fuel o one (JObj ms) = POk g -> is_circle g = false ->
  exists a b, emit_jv fmt g =
    JObj (a :: b :: filter foreign_key ms ++
          (if is_feature g then match first_member s_properties (filter foreign_key ms) with Some _ => [] | None => [props_member] end else [])).
Proof.
  intros H Hc. destruct (emit_members fmt g Hc) as (a & b & E). exists a, b. rewrite E. f_equal. f_equal. f_equal.
  pose proof (parse_keeps_foreign fuel o one ms g H Hc) as Hm. destruct (is_feature g).
  - rewrite extra_members_true, Hm. reflexivity.
  - rewrite extra_members_false, Hm, app_nil_r. reflexivity.
Qed.

Print Assumptions parse_keeps_foreign.
Print Assumptions line_values.
Print Assumptions polygon_values.
Print Assumptions written_members.
