(* ParseRepr.v — property C08, the representation options: AllowSimplePoints and
   AllowRects change only the concrete type.  For every document and every two
   option sets that differ only in those two options, Parse accepts under one
   iff under the other; the two objects are equal once SimplePoint is read as
   Point and Rect as its five-point Polygon ([erase]); they write the same
   bytes, report the same validity, and a Circle feature is recognised under
   both. *)
From Coq Require Import Lia.
From GJ Require Import Base JsonConst Json JsonProofs EmitProofs RoundTrip ParsedForm.
Open Scope Z_scope.

Definition with_repr (o : popts) (simple rects : bool) : popts :=
  {| allow_simple := simple; allow_rects := rects; require_valid := require_valid o;
     disable_circle := disable_circle o; l180 := l180 o; l90 := l90 o |}.

Fixpoint erase (g : gobj) : gobj :=
  match g with
  | JSimple p => JPoint p None
  | JRect mn mx => JPoly [fpt_rect_points mn mx] None
  | JFeature b ex => JFeature (erase b) ex
  | JColl k cs ex => JColl k (map erase cs) ex
  | _ => g
  end.

(* ------------------------------------------------------------------ *)
(* validity and bytes do not see the representation                     *)

Lemma fpt_valid_repr (o : popts) (a r : bool) (p : fpt) : fpt_valid (with_repr o a r) p = fpt_valid o p.
Proof. reflexivity. Qed.

Lemma g_valid_repr (o : popts) (a r : bool) (g : gobj) : g_valid (with_repr o a r) g = g_valid o g.
Proof.
  induction g as [p ex|p|mn mx|ps ex|rings ex|b ex IHb|k cs ex IHcs|c m] using gobj_ind'; cbn [g_valid]; try reflexivity.
  - exact IHb.
  - induction IHcs as [|c cs Hc Hcs IH]; [reflexivity|]. cbn [forallb]. rewrite Hc, IH. reflexivity.
Qed.

Lemma g_valid_erase (o : popts) (g : gobj) : g_valid o (erase g) = g_valid o g.
Proof.
  induction g as [p ex|p|mn mx|ps ex|rings ex|b ex IHb|k cs ex IHcs|c m] using gobj_ind'; cbn [erase g_valid]; try reflexivity.
  - unfold fpt_rect_points. cbn [forallb]. unfold fpt_valid. cbn [fst snd].
    destruct (fnum_valid (l180 o) (fst mn)), (fnum_valid (l90 o) (snd mn)), (fnum_valid (l180 o) (fst mx)), (fnum_valid (l90 o) (snd mx)); reflexivity.
  - exact IHb.
  - induction IHcs as [|c cs Hc Hcs IH]; [reflexivity|]. cbn [map forallb]. rewrite Hc, IH. reflexivity.
Qed.

Lemma child_coords_erase (fmt : Z -> list Z) (c : gobj) : child_coords fmt (erase c) = child_coords fmt c.
Proof.
  destruct c; reflexivity.
Qed.

Theorem emit_erase (fmt : Z -> list Z) (g : gobj) : emit fmt (erase g) = emit fmt g.
Proof.
  induction g as [p ex|p|mn mx|ps ex|rings ex|b ex IHb|k cs ex IHcs|c m] using gobj_ind'; cbn [erase]; try reflexivity.
  - cbn [emit]. rewrite IHb. reflexivity.
  - cbn [emit]. rewrite map_map. f_equal. f_equal. f_equal.
    apply map_ext_in. intros c Hc. rewrite Forall_forall in IHcs. destruct (k <? 3); [apply child_coords_erase|exact (IHcs c Hc)].
Qed.

(* ------------------------------------------------------------------ *)
(* a ring accepted by the AllowRects test is the ring of its two corners *)

Lemma fnum_eqb_eq (a b : fnum) : fnum_eqb a b = true -> a = b.
Proof. destruct a, b; cbn; try discriminate. intros H. apply Z.eqb_eq in H. subst. reflexivity. Qed.

Lemma perfect_rect_points (ext : list fpt) : ring_ok ext = true -> perfect_rect ext = true ->
  ext = fpt_rect_points (nth 0 ext (FV 0, FV 0)) (nth 2 ext (FV 0, FV 0)).
Proof.
  unfold perfect_rect. destruct ext as [|p0 [|p1 [|p2 [|p3 [|p4 [|p5 r]]]]]]; try discriminate. intros Hok H.
  rewrite !andb_true_iff in H. destruct H as (((((((H1 & H2) & H3) & H4) & H5) & H6) & H7) & H8).
  unfold ring_ok in Hok. apply andb_true_iff in Hok. destruct Hok as [_ Hcl]. cbn [last] in Hcl.
  unfold fpt_eqb in Hcl. apply andb_true_iff in Hcl. destruct Hcl as [Cx Cy].
  apply fnum_eqb_eq in H2, H3, H6, H7, Cx, Cy.
  cbn [nth]. unfold fpt_rect_points. destruct p0 as [x0 y0], p1 as [x1 y1], p2 as [x2 y2], p3 as [x3 y3], p4 as [x4 y4].
  cbn [fst snd] in *. subst. reflexivity.
Qed.

(* ------------------------------------------------------------------ *)
(* Circle recognition looks at the point only                           *)

Definition base_point (g : gobj) : option fpt := match g with JPoint p _ | JSimple p => Some p | _ => None end.

Lemma erase_base_point (g1 g2 : gobj) : erase g2 = erase g1 -> base_point g2 = base_point g1.
Proof.
  destruct g1, g2; cbn [erase base_point]; intros H; try discriminate; try reflexivity; inversion H; reflexivity.
Qed.

Definition circ_of (o : popts) (one : Z) (base : gobj) (foreign : list (jkey * jv)) : option pres :=
  match base, foreign with
  | JPoint p _, _ :: _ => circle_of o one p foreign
  | JSimple p, _ :: _ => if CIRCLE_SIMPLE_OK then circle_of o one p foreign else None
  | _, _ => None
  end.

Lemma circ_of_base (o : popts) (one : Z) (base : gobj) (foreign : list (jkey * jv)) :
  circ_of o one base foreign =
  match base_point base, foreign with Some p, _ :: _ => circle_of o one p foreign | _, _ => None end.
Proof. destruct base; cbn [circ_of base_point]; try reflexivity; destruct foreign; reflexivity. Qed.

Lemma circle_of_repr (o : popts) (a r : bool) (one : Z) (p : fpt) (ms : list (jkey * jv)) :
  circle_of (with_repr o a r) one p ms = circle_of o one p ms.
Proof. reflexivity. Qed.

(* ------------------------------------------------------------------ *)
(* MAIN                                                                 *)

Definition repr_rel (w1 w2 : pres) : Prop :=
  match w1 with
  | POk g1 => exists g2, w2 = POk g2 /\ erase g2 = erase g1
  | PErr _ => exists c, w2 = PErr c
  end.

Lemma check_repr (o : popts) (a1 r1 a2 r2 : bool) (g1 g2 : gobj) (code : Z) : erase g2 = erase g1 ->
  repr_rel (if require_valid (with_repr o a1 r1) && negb (g_valid (with_repr o a1 r1) g1) then PErr code else POk g1)
           (if require_valid (with_repr o a2 r2) && negb (g_valid (with_repr o a2 r2) g2) then PErr code else POk g2).
Proof.
  intros E. rewrite !g_valid_repr. cbn [require_valid with_repr].
  rewrite <- (g_valid_erase o g1), <- (g_valid_erase o g2), E.
  destruct (require_valid o && negb (g_valid o (erase g1))); cbn [repr_rel]; [eexists; reflexivity|].
  exists g2. split; [reflexivity|exact E].
Qed.

Lemma map_until_repr (f1 f2 : jv -> res gobj) (l : list jv) :
  (forall x, In x l -> match f1 x with ROk g1 => exists g2, f2 x = ROk g2 /\ erase g2 = erase g1 | RErr _ => exists c, f2 x = RErr c end) ->
  match map_until f1 l with
  | ROk k1 => exists k2, map_until f2 l = ROk k2 /\ map erase k2 = map erase k1
  | RErr _ => exists c, map_until f2 l = RErr c
  end.
Proof.
  induction l as [|x l IH]; intros H; cbn [map_until]; [exists []; split; reflexivity|].
  pose proof (H x (or_introl eq_refl)) as Hx. specialize (IH (fun y Hy => H y (or_intror Hy))).
  destruct (f1 x) as [g1|c1].
  - destruct Hx as (g2 & -> & Eg). destruct (map_until f1 l) as [k1|c].
    + destruct IH as (k2 & -> & Ek). exists (g2 :: k2). split; [reflexivity|]. cbn [map]. rewrite Eg, Ek. reflexivity.
    + destruct IH as (c' & ->). eexists; reflexivity.
  - destruct Hx as (c & ->). eexists; reflexivity.
Qed.

Theorem parse_repr (fuel : nat) : forall (o : popts) (a1 r1 a2 r2 : bool) (one : Z) (v : jv),
  repr_rel (parse fuel (with_repr o a1 r1) one v) (parse fuel (with_repr o a2 r2) one v).
Proof.
  induction fuel as [|f IH]; intros o a1 r1 a2 r2 one v; [cbn; eexists; reflexivity|].
  cbn [parse]. destruct v as [| | |raw x|raw d|l|ms]; try (cbn; eexists; reflexivity).
  destruct (k_type (scan_keys ms)) as [[| | |r0 x0|traw tname|l0|ms0]|]; try (cbn; eexists; reflexivity).
  change (allow_simple (with_repr o a1 r1)) with a1. change (allow_simple (with_repr o a2 r2)) with a2.
  change (allow_rects (with_repr o a1 r1)) with r1. change (allow_rects (with_repr o a2 r2)) with r2.
  destruct (bytes_eqb tname s_Point).
  { destruct (parse_point_coords true (k_coords (scan_keys ms))) as [[p ex]|c]; [|cbn; eexists; reflexivity].
    destruct (with_members ex (k_foreign (scan_keys ms))); [apply check_repr; reflexivity|].
    destruct a1, a2; apply check_repr; reflexivity. }
  destruct (bytes_eqb tname s_LineString).
  { destruct (parse_line_coords true (k_coords (scan_keys ms))) as [[ps ex]|c]; [|cbn; eexists; reflexivity].
    destruct (length ps <? 2)%nat; [cbn; eexists; reflexivity|]. apply check_repr. reflexivity. }
  destruct (bytes_eqb tname s_Polygon).
  { destruct (parse_poly_coords true (k_coords (scan_keys ms))) as [[rings ex]|c]; [|cbn; eexists; reflexivity].
    destruct rings as [|ext holes]; [cbn; eexists; reflexivity|].
    destruct (forallb ring_ok (ext :: holes)) eqn:Eok; cbn [negb]; [|cbn; eexists; reflexivity].
    destruct (with_members ex (k_foreign (scan_keys ms))) as [e|]; [apply check_repr; reflexivity|].
    destruct holes as [|h holes]; [|apply check_repr; reflexivity].
    cbn [forallb] in Eok. rewrite andb_true_r in Eok.
    destruct (perfect_rect ext) eqn:Ep.
    - pose proof (perfect_rect_points ext Eok Ep) as Hext. rewrite !andb_true_r.
      destruct r1, r2; apply check_repr; cbn [erase]; try reflexivity; rewrite <- Hext; reflexivity.
    - rewrite !andb_false_r. apply check_repr. reflexivity. }
  destruct (bytes_eqb tname s_Feature).
  { destruct (k_geom (scan_keys ms)) as [gv|]; [|cbn; eexists; reflexivity].
    pose proof (IH o a1 r1 a2 r2 one gv) as Hg. unfold repr_rel in Hg.
    destruct (parse f (with_repr o a1 r1) one gv) as [base1|c].
    - destruct Hg as (base2 & -> & Eb).
      fold (circ_of (with_repr o a1 r1) one base1 (k_foreign (scan_keys ms))).
      fold (circ_of (with_repr o a2 r2) one base2 (k_foreign (scan_keys ms))).
      rewrite !circ_of_base, (erase_base_point base1 base2 Eb).
      destruct (base_point base1) as [p|]; [destruct (k_foreign (scan_keys ms)) as [|m0 ms'] eqn:Ef|].
      + cbn [repr_rel]. eexists. split; [reflexivity|]. cbn [erase]. rewrite Eb. reflexivity.
      + rewrite !circle_of_repr. destruct (circle_of o one p (m0 :: ms')) as [[gc|cc]|]; cbn [repr_rel].
        * exists gc. split; reflexivity.
        * eexists; reflexivity.
        * eexists. split; [reflexivity|]. cbn [erase]. rewrite Eb. reflexivity.
      + destruct (k_foreign (scan_keys ms)); cbn [repr_rel]; eexists; (split; [reflexivity|]); cbn [erase]; rewrite Eb; reflexivity.
    - destruct Hg as (c' & ->). cbn. eexists; reflexivity. }
  destruct (bytes_eqb tname s_MultiPoint).
  { destruct (k_coords (scan_keys ms)) as [cv|]; [|cbn; eexists; reflexivity].
    destruct (negb (is_array cv)); [cbn; eexists; reflexivity|].
    destruct (map_until _ (elems cv)) as [kids|c]; [|cbn; eexists; reflexivity].
    unfold MULTIPOINT_VALID_CHECK. apply check_repr. reflexivity. }
  destruct (bytes_eqb tname s_MultiLineString).
  { destruct (k_coords (scan_keys ms)) as [cv|]; [|cbn; eexists; reflexivity].
    destruct (negb (is_array cv)); [cbn; eexists; reflexivity|].
    destruct (map_until _ (elems cv)) as [kids|c]; [|cbn; eexists; reflexivity]. apply check_repr. reflexivity. }
  destruct (bytes_eqb tname s_MultiPolygon).
  { destruct (k_coords (scan_keys ms)) as [cv|]; [|cbn; eexists; reflexivity].
    destruct (negb (is_array cv)); [cbn; eexists; reflexivity|].
    destruct (map_until _ (elems cv)) as [kids|c]; [|cbn; eexists; reflexivity]. apply check_repr. reflexivity. }
  destruct (bytes_eqb tname s_GeometryCollection).
  { destruct (k_geoms (scan_keys ms)) as [cv|]; [|cbn; eexists; reflexivity].
    destruct (negb (is_array cv)); [cbn; eexists; reflexivity|].
    pose proof (map_until_repr (fun c => pres_res (parse f (with_repr o a1 r1) one c)) (fun c => pres_res (parse f (with_repr o a2 r2) one c)) (elems cv)) as M.
    cbv beta in M.
    assert (Hx : forall x, In x (elems cv) ->
              match pres_res (parse f (with_repr o a1 r1) one x) with
              | ROk g1 => exists g2, pres_res (parse f (with_repr o a2 r2) one x) = ROk g2 /\ erase g2 = erase g1
              | RErr _ => exists c, pres_res (parse f (with_repr o a2 r2) one x) = RErr c end).
    { intros x _. pose proof (IH o a1 r1 a2 r2 one x) as Hxx. unfold repr_rel in Hxx.
      destruct (parse f (with_repr o a1 r1) one x) as [g1|c1]; cbn [pres_res].
      - destruct Hxx as (g2 & -> & E). exists g2. split; [reflexivity|exact E].
      - destruct Hxx as (c & ->). eexists; reflexivity. }
    specialize (M Hx). destruct (map_until _ (elems cv)) as [k1|c].
    - destruct M as (k2 & -> & Ek). cbn [repr_rel]. eexists. split; [reflexivity|]. cbn [erase]. rewrite Ek. reflexivity.
    - destruct M as (c' & ->). cbn. eexists; reflexivity. }
  destruct (bytes_eqb tname s_FeatureCollection); [|cbn; eexists; reflexivity].
  destruct (k_feats (scan_keys ms)) as [cv|]; [|cbn; eexists; reflexivity].
  destruct (negb (is_array cv)); [cbn; eexists; reflexivity|].
  pose proof (map_until_repr (fun c => pres_res (parse f (with_repr o a1 r1) one c)) (fun c => pres_res (parse f (with_repr o a2 r2) one c)) (elems cv)) as M.
  cbv beta in M.
  assert (Hx : forall x, In x (elems cv) ->
            match pres_res (parse f (with_repr o a1 r1) one x) with
            | ROk g1 => exists g2, pres_res (parse f (with_repr o a2 r2) one x) = ROk g2 /\ erase g2 = erase g1
            | RErr _ => exists c, pres_res (parse f (with_repr o a2 r2) one x) = RErr c end).
  { intros x _. pose proof (IH o a1 r1 a2 r2 one x) as Hxx. unfold repr_rel in Hxx.
    destruct (parse f (with_repr o a1 r1) one x) as [g1|c1]; cbn [pres_res].
    - destruct Hxx as (g2 & -> & E). exists g2. split; [reflexivity|exact E].
    - destruct Hxx as (c & ->). eexists; reflexivity. }
  specialize (M Hx). destruct (map_until _ (elems cv)) as [k1|c].
  - destruct M as (k2 & -> & Ek). cbn [repr_rel]. eexists. split; [reflexivity|]. cbn [erase]. rewrite Ek. reflexivity.
  - destruct M as (c' & ->). cbn. eexists; reflexivity.
Qed.

(* corollary: identical bytes, identical validity, Circle recognised under both *)
Definition is_circle_g (g : gobj) : bool := match g with JCircle _ _ => true | _ => false end.

Lemma erase_circle (g1 g2 : gobj) : erase g2 = erase g1 -> is_circle_g g2 = is_circle_g g1.
Proof. destruct g1, g2; cbn [erase is_circle_g]; intros H; try discriminate; reflexivity. Qed.

Theorem repr_options_only_change_the_type (fmt : Z -> list Z) (fuel : nat) (o : popts) (a1 r1 a2 r2 : bool) (one : Z) (v : jv) (g1 : gobj) :
  parse fuel (with_repr o a1 r1) one v = POk g1 ->
  exists g2, parse fuel (with_repr o a2 r2) one v = POk g2 /\
             emit fmt g2 = emit fmt g1 /\ g_valid o g2 = g_valid o g1 /\ is_circle_g g2 = is_circle_g g1.
Proof.
  intros H. pose proof (parse_repr fuel o a1 r1 a2 r2 one v) as R. rewrite H in R. destruct R as (g2 & E2 & Ee).
  exists g2. split; [exact E2|]. split; [|split].
  - rewrite <- (emit_erase fmt g2), <- (emit_erase fmt g1), Ee. reflexivity.
  - rewrite <- (g_valid_erase o g2), <- (g_valid_erase o g1), Ee. reflexivity.
  - exact (erase_circle g1 g2 Ee).
Qed.

Print Assumptions parse_repr.
Print Assumptions repr_options_only_change_the_type.
