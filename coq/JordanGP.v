(* JordanGP.v — property C03 in general position: for a ring not flagged convex, a segment whose
   two ends are off the boundary and through which no ring vertex passes is contained (allowOnEdge,
   the test applied to exteriors) exactly when every rational point of it is strictly inside —
   there the contact heuristics of ringContainsSegment (decision sites 6-11) are not reached and
   site 12 coincides with the strict test of site 13. *)
From Coq Require Import ZArith Bool List Lia.
From GJ Require Import Base Kernel KernelSpec Series SeriesSpec Ring RingSpec
  RaycastProofs KernelProofs IntersectsProofs SeriesProofs PipProofs PairProofs Jordan JordanQ.
Import ListNotations.
Open Scope Z_scope.

Definition no_vertex_on (ps : list pt) (sg : seg) : Prop :=
  forall e, In e (ring_edges ps) -> raycast_on sg (fst e) = false /\ raycast_on sg (snd e) = false.

Lemma pip_idx_off_boundary (ps : list pt) (p : pt) :
  on_boundaryb (ring_edges ps) p = false ->
  snd (ring_contains_point (RS {| closed := true; pts := ps |}) p true) = -1.
Proof.
  intros Hb. unfold ring_contains_point.
  destruct (rect_contains_point _ p); cbn [negb]; [|reflexivity].
  unfold strip_search, ring_segments. rewrite RS_segs. fold (ring_edges ps).
  set (l := filter _ (indexed (ring_edges ps))).
  assert (Hl : forall si, In si l -> raycast_on (fst si) p = false).
  { intros [s i] Hin. unfold l in Hin. apply filter_In in Hin. destruct Hin as [Hin _].
    assert (Hs : In s (ring_edges ps)).
    { rewrite <- (map_fst_indexed (ring_edges ps)). apply in_map_iff. exists (s, i). split; [reflexivity|exact Hin]. }
    cbn [fst]. rewrite IntersectsProofs.raycast_on_eq. unfold on_boundaryb in Hb.
    apply (proj1 (existsb_false_iff _ _) Hb s Hs). }
  clearbody l. generalize false as inn. induction l as [|[s i] l IH]; intros inn; [reflexivity|].
  cbn [pip_fold]. destruct (raycast s p) as [i_ o_] eqn:Er.
  assert (o_ = false) as ->.
  { pose proof (Hl (s, i) (or_introl eq_refl)) as H. cbn [fst] in H. unfold raycast_on in H. rewrite Er in H. exact H. }
  apply IH. intros si Hsi. apply Hl. right. exact Hsi.
Qed.

Theorem ring_contains_segment_general_position (ps : list pt) (A B : pt) :
  ring_convex (RS {| closed := true; pts := ps |}) = false ->
  on_boundaryb (ring_edges ps) A = false -> on_boundaryb (ring_edges ps) B = false ->
  no_vertex_on ps (A, B) ->
  rcs (RS {| closed := true; pts := ps |}) (A, B) true = rcs (RS {| closed := true; pts := ps |}) (A, B) false.
Proof.
  intros Hcv HbA HbB Hnv. set (r := RS {| closed := true; pts := ps |}).
  assert (HA : forall al, fst (ring_contains_point r A al) = parityb (ring_edges ps) A).
  { intros al. change (fst (ring_contains_point r A al)) with (rcp_hit r A al). unfold r.
    rewrite ring_contains_point_spec, HbA. reflexivity. }
  assert (HB : forall al, fst (ring_contains_point r B al) = parityb (ring_edges ps) B).
  { intros al. change (fst (ring_contains_point r B al)) with (rcp_hit r B al). unfold r.
    rewrite ring_contains_point_spec, HbB. reflexivity. }
  unfold rcs, ring_contains_segment. fold r.
  destruct (negb (rect_contains_point (ring_rect r) A) || negb (rect_contains_point (ring_rect r) B)); [reflexivity|].
  rewrite !HA. destruct (parityb (ring_edges ps) A); cbn [negb]; [|reflexivity].
  destruct (pt_eqb B A); [reflexivity|].
  rewrite !HB. destruct (parityb (ring_edges ps) B); cbn [negb]; [|reflexivity].
  fold r in Hcv. rewrite Hcv.
  assert (IA : snd (ring_contains_point r A true) = -1) by (apply pip_idx_off_boundary; exact HbA).
  assert (IB : snd (ring_contains_point r B true) = -1) by (apply pip_idx_off_boundary; exact HbB).
  rewrite !IA, !IB, !Z.eqb_refl. cbn [negb fst]. f_equal.
  (* site 12 = site 13: every candidate edge has both ends off the segment *)
  set (cands := ring_search r (seg_rect (A, B))).
  assert (Hc : forall si, In si cands -> In (fst si) (ring_edges ps)).
  { intros [s i] Hin. unfold cands, ring_search in Hin. apply filter_In in Hin. destruct Hin as [Hin _].
    unfold r, ring_segments in Hin. rewrite RS_segs in Hin. fold (ring_edges ps) in Hin.
    rewrite <- (map_fst_indexed (ring_edges ps)). apply in_map_iff. exists (s, i). split; [reflexivity|exact Hin]. }
  clearbody cands. induction cands as [|si l IH]; [reflexivity|]. cbn [existsb].
  rewrite IH by (intros x Hx; apply Hc; right; exact Hx). f_equal.
  destruct (Hnv (fst si) (Hc si (or_introl eq_refl))) as [E1 E2]. rewrite E1, E2. reflexivity.
Qed.

(* hence, in general position, "contains with contact allowed" is the point-set statement *)
Corollary ring_contains_segment_general_position_pointset (ps : list pt) (A B : pt) :
  ring_convex (RS {| closed := true; pts := ps |}) = false ->
  on_boundaryb (ring_edges ps) A = false -> on_boundaryb (ring_edges ps) B = false ->
  no_vertex_on ps (A, B) ->
  (rcs (RS {| closed := true; pts := ps |}) (A, B) true = true <-> all_strictly_inside ps A B).
Proof.
  intros Hcv HbA HbB Hnv. rewrite (ring_contains_segment_general_position ps A B Hcv HbA HbB Hnv).
  apply ring_contains_segment_strict_pointset. exact Hcv.
Qed.

Print Assumptions ring_contains_segment_general_position_pointset.
