(* Harness.v — the executable interface of the models used by the
   correspondence check: [run tag args] evaluates the model of one Go entry
   point on integer-encoded arguments, [spec tag args] evaluates the
   independent specification (wildcard -9 where the spec has no opinion).
   Both are extracted to OCaml and also evaluated by vm_compute in cases_*.v. *)
From GJ Require Import Base Kernel KernelSpec Series SeriesSpec Ring RingSpec Index IndexExec PairSpec Pairs Obj ObjSpec Json JsonSpec JsonExec.

Definition WILD : Z := -9.
Definition BAD : list Z := [-1].
Definition ANY : list Z := [-8].      (* spec has no opinion on this output at all *)

Definition mkseg (ax ay bx by_ : Z) : seg := ((ax, ay), (bx, by_)).

Fixpoint decode_pts (l : list Z) : list pt :=
  match l with
  | x :: y :: r => (x, y) :: decode_pts r
  | _ => []
  end.

Definition enc_rect (r : rect) : list Z := [px (fst r); py (fst r); px (snd r); py (snd r)].
Definition enc_seg (s : seg) : list Z := [px (fst s); py (fst s); px (snd s); py (snd s)].

(* tag 10: series attributes. args = s :: closed :: coordinates *)
Definition run_series (cl : Z) (coords : list Z) : list Z :=
  let s := {| closed := cl =? 1; pts := decode_pts coords |} in
  [b2z (series_convex s); b2z (series_clockwise s); b2z (series_empty s);
   Z.of_nat (npoints s); Z.of_nat (num_segments s)] ++ enc_rect (series_rect s)
  ++ flat_map enc_seg (segments s).

Definition spec_series (cl : Z) (coords : list Z) : list Z :=
  let ps := decode_pts coords in
  let s := {| closed := cl =? 1; pts := ps |} in
  let degenerate := series_empty s in
  let vs := ring_vertices ps in
  let nospec := degenerate || negb (cl =? 1) in   (* C18 speaks of closed rings *)
  [if nospec then WILD else b2z (convex_specb vs);
   if nospec then WILD else b2z (clockwise_specb vs);
   WILD; Z.of_nat (length ps); Z.of_nat (length (segments_spec s))]
  ++ (if degenerate then [WILD; WILD; WILD; WILD] else enc_rect (bbox_spec ps))
  ++ flat_map enc_seg (segments_spec s).

(* rings section: nrings :: (n_i :: 2*n_i coordinates)* ; returns rings and the rest *)
Fixpoint take_pts (n : nat) (l : list Z) : list pt * list Z :=
  match n, l with
  | S k, x :: y :: r => let '(ps, rest) := take_pts k r in ((x, y) :: ps, rest)
  | _, _ => ([], l)
  end.

Fixpoint take_rings (n : nat) (l : list Z) : list (list pt) * list Z :=
  match n, l with
  | S k, c :: r =>
      let '(ps, rest) := take_pts (Z.to_nat c) r in
      let '(rs, rest') := take_rings k rest in (ps :: rs, rest')
  | _, _ => ([], l)
  end.

(* tag 20: polygon point membership; args = s kind minpts nrings rings... x y.
   The implementation reports 17 answers (geometry level, object level with
   Point / SimplePoint / Feature wrappers); all must equal the one model answer. *)
Definition rep (n : nat) (z : Z) : list Z := repeat z n.

Definition run_poly_pip (l : list Z) : list Z :=
  match l with
  | nr :: r =>
      let '(rs, rest) := take_rings (Z.to_nat nr) r in
      match rest with
      | [x; y] => rep 17 (b2z (poly_contains_point (mk_poly rs) (x, y)))
      | _ => BAD
      end
  | _ => BAD
  end.

Definition spec_poly_pip (l : list Z) : list Z :=
  match l with
  | nr :: r =>
      let '(rs, rest) := take_rings (Z.to_nat nr) r in
      match rs, rest with
      | e :: hs, [x; y] => rep 17 (b2z (in_polyb (ring_edges e) (map ring_edges hs) (x, y)))
      | _, _ => BAD
      end
  | _ => BAD
  end.

(* tag 21: ringContainsPoint through the hook, no index: (hit, idx) for allow = true, false *)
Definition run_ring_pip (l : list Z) : list Z :=
  match l with
  | n :: r =>
      let '(ps, rest) := take_pts (Z.to_nat n) r in
      match rest with
      | [x; y] =>
          let '(h1, i1) := ring_contains_point (mk_ring ps) (x, y) true in
          let '(h0, i0) := ring_contains_point (mk_ring ps) (x, y) false in
          [b2z h1; i1; b2z h0; i0]
      | _ => BAD
      end
  | _ => BAD
  end.

Definition spec_ring_pip (l : list Z) : list Z :=
  match l with
  | n :: r =>
      let '(ps, rest) := take_pts (Z.to_nat n) r in
      match rest with
      | [x; y] =>
          let e := ring_edges ps in
          [b2z (in_ringb e (x, y)); WILD; b2z (strictly_in_ringb e (x, y)); WILD]
      | _ => BAD
      end
  | _ => BAD
  end.

(* tag 23: line point membership; args = s kind minpts n coords x y; 9 answers *)
Definition run_line_pip (l : list Z) : list Z :=
  match l with
  | n :: r =>
      let '(ps, rest) := take_pts (Z.to_nat n) r in
      match rest with
      | [x; y] => rep 9 (b2z (line_contains_point (mk_line ps) (x, y)))
      | _ => BAD
      end
  | _ => BAD
  end.

Definition spec_line_pip (l : list Z) : list Z :=
  match l with
  | n :: r =>
      let '(ps, rest) := take_pts (Z.to_nat n) r in
      match rest with
      | [x; y] => rep 9 (b2z (in_lineb ps (x, y)))
      | _ => BAD
      end
  | _ => BAD
  end.

(* C04.  tag 40: index bytes; args = s kind closed n coords.
   tag 41: search; args = s kind closed n coords qminx qminy qmaxx qmaxy stopk
           output = ncallbacks :: sorted reported ++ reported in callback order
   tag 42: search after Move; args = ... stopk dx dy
   tag 43: implementation-only differential outside the dyadic grid (float64 bits); 1 = exact *)
Fixpoint insert_sorted (x : Z) (l : list Z) : list Z :=
  match l with [] => [x] | y :: r => if x <=? y then x :: l else y :: insert_sorted x r end.
Definition sort_z (l : list Z) : list Z := fold_right insert_sorted [] l.

Definition firstn_z (k : Z) (l : list Z) : list Z := if k <? 0 then l else firstn (Z.to_nat k) l.

Definition mk_series (cl : Z) (ps : list pt) : series := {| closed := cl =? 1; pts := ps |}.

Definition run_index_bytes (l : list Z) : list Z :=
  match l with
  | sc :: kind :: cl :: n :: r =>
      let '(ps, rest) := take_pts (Z.to_nat n) r in
      match rest with
      | [] => if (length ps <? 1)%nat then [] else build_index_bytes sc kind (mk_series cl ps)
      | _ => BAD
      end
  | _ => BAD
  end.

Definition search_out (reported : list Z) : list Z :=
  Z.of_nat (length reported) :: sort_z reported ++ reported.

(* geometry.DefaultIndexOptions (series.go:39-42), used by Move; tied to the source by tools/gen_consts.py *)
Definition default_index_min_points : nat := 64.
Definition default_index_kind : Z := 2.

Definition run_search (moved : bool) (l : list Z) : list Z :=
  match l with
  | sc :: kind :: cl :: n :: r =>
      let '(ps, rest) := take_pts (Z.to_nat n) r in
      match moved, rest with
      | false, [a; b; c; d; k] =>
          (* makeSeries (series.go:96-99): MinPoints = 1, so the index exists iff there is a point *)
          let kind' := if (length ps <? 1)%nat then 0 else kind in
          search_out (firstn_z k (series_search kind' (mk_series cl ps) ((a, b), (c, d))))
      | true, [a; b; c; d; k; dx; dy] =>
          (* baseSeries.Move (series.go:111-123): makeSeries with the default options
             (QuadTree, MinPoints 64) first; the original kind is used only when that
             built no index and the original series had one *)
          let kind0 := if (length ps <? 1)%nat then 0 else kind in
          let kind' := if (default_index_min_points <=? length ps)%nat then default_index_kind else kind0 in
          search_out (firstn_z k (series_search kind' (mk_series cl (move_pts ps dx dy)) ((a, b), (c, d))))
      | _, _ => BAD
      end
  | _ => BAD
  end.

(* marker: what remains of the output is A ++ B, A strictly increasing with every element in the set that follows
   the marker, B a permutation of A (the reported indices, sorted and in callback order) *)
Definition SUBSET : Z := -4611686018427387917.   (* -(2^62) - 13: outside every data range, unlike the small markers *)

Definition spec_search (moved : bool) (l : list Z) : list Z :=
  match l with
  | sc :: kind :: cl :: n :: r =>
      let '(ps, rest) := take_pts (Z.to_nat n) r in
      let go ps' a b c d k :=
        let all := search_spec (mk_series cl ps') ((a, b), (c, d)) in
        if k <? 0 then Z.of_nat (length all) :: all ++ repeat WILD (length all)
        else let m := Nat.min (Z.to_nat k) (length all) in Z.of_nat m :: SUBSET :: all in   (* early stop: any m of them, each once *)
      match moved, rest with
      | false, [a; b; c; d; k] => go ps a b c d k
      | true, [a; b; c; d; k; dx; dy] => go (move_pts ps dx dy) a b c d k
      | _, _ => BAD
      end
  | _ => BAD
  end.

(* ---- C02/C03/C12: geometry-level pairs ----
   tag 50: args = s valid shapeA shapeB ; shape = 0 x y | 1 minx miny maxx maxy | 2 n coords | 3 nrings rings
   output = [A.Intersects(B); B.Intersects(A); A.Contains(B); B.Contains(A)]  (-2 = out of fuel) *)
Definition take_shape (l : list Z) : option (shape * list Z) :=
  match l with
  | 0 :: x :: y :: r => Some (SPoint (x, y), r)
  | 1 :: a :: b :: c :: d :: r => Some (SRect ((a, b), (c, d)), r)
  | 2 :: n :: r => let '(ps, rest) := take_pts (Z.to_nat n) r in Some (SLine ps, rest)
  | 3 :: nr :: r =>
      let '(rs, rest) := take_rings (Z.to_nat nr) r in
      match rs with
      | e :: hs => Some (SPoly e hs, rest)
      | [] => Some (SPoly [] [], rest)
      end
  | _ => None
  end.

Definition ob2z (o : option bool) : Z := match o with Some b => b2z b | None => -2 end.

Definition run_pair (l : list Z) : list Z :=
  match l with
  | _ :: _ :: r =>
      match take_shape r with
      | Some (sa, r1) =>
          match take_shape r1 with
          | Some (sb, []) =>
              let a := g_of_shape sa in let b := g_of_shape sb in
              [b2z (g_intersects a b); b2z (g_intersects b a); ob2z (g_contains a b); ob2z (g_contains b a)]
          | _ => BAD
          end
      | None => BAD
      end
  | _ => BAD
  end.

(* which: 0 = intersects answers only (C02), 1 = contains answers only (C03) *)
Definition spec_pair (which : Z) (l : list Z) : list Z :=
  match l with
  | _ :: flags :: r =>
      if negb (Z.odd flags) then ANY else
      match take_shape r with
      | Some (sa, r1) =>
          match take_shape r1 with
          | Some (sb, []) =>
              if which =? 0 then let m := b2z (meets_x sa sb) in [m; m; WILD; WILD]
              else [WILD; WILD; b2z (covers_x sa sb); b2z (covers_x sb sa)]
          | _ => BAD
          end
      | None => BAD
      end
  | _ => BAD
  end.

(* ---- C12: symmetries and re-encodings ----
   tag 52: args = s flags t p1 p2 shapeA shapeB ; transformation t with parameters p1 p2:
     1 translate both by (p1,p2)   2 scale both by 2^p1      3 x -> -x (both)   4 y -> -y (both)
     5 transpose x<->y (both)      6 rotate start vertex of A's rings by p1     7 reverse A
     8 toggle A's closing vertex   9 Move both by (p1,p2) (same as 1 on the model side)
   output = [eq0; eq1; eq2; eq3] ++ base answers ++ transformed answers *)
Definition map_shape (f : pt -> pt) (s : shape) : shape :=
  match s with
  | SPoint p => SPoint (f p)
  | SRect r =>
      let a := f (fst r) in let b := f (snd r) in
      SRect ((Z.min (px a) (px b), Z.min (py a) (py b)), (Z.max (px a) (px b), Z.max (py a) (py b)))
  | SLine ps => SLine (map f ps)
  | SPoly e hs => SPoly (map f e) (map (map f) hs)
  end.

Definition rot_list {A} (k : nat) (l : list A) : list A :=
  match l with [] => [] | _ => skipn (k mod length l) l ++ firstn (k mod length l) l end.

(* rings are given closed (last = first): operate on the open vertex list *)
Definition open_ring (r : list pt) : list pt :=
  match r with
  | [] => []
  | p :: _ => if pt_eqb (last r pt0) p then removelast r else r
  end.
Definition close_ring (r : list pt) : list pt := match r with [] => [] | p :: _ => r ++ [p] end.
Definition is_closed_ring (r : list pt) : bool :=
  match r with [] => false | p :: _ => (2 <=? length r)%nat && pt_eqb (last r pt0) p end.

Definition reencode_ring (t : Z) (k : nat) (r : list pt) : list pt :=
  if t =? 6 then (if is_closed_ring r then close_ring (rot_list k (open_ring r)) else rot_list k r)
  else if t =? 7 then rev r
  else if t =? 8 then (if is_closed_ring r then open_ring r else close_ring r)
  else r.

Definition transform_a (t p1 p2 : Z) (s : shape) : shape :=
  if (t =? 1) || (t =? 9) then map_shape (fun p => (px p + p1, py p + p2)) s
  else if t =? 2 then map_shape (fun p => (px p * 2 ^ p1, py p * 2 ^ p1)) s
  else if t =? 3 then map_shape (fun p => (- px p, py p)) s
  else if t =? 4 then map_shape (fun p => (px p, - py p)) s
  else if t =? 5 then map_shape (fun p => (py p, px p)) s
  else match s with
       | SLine ps => if t =? 7 then SLine (rev ps) else s
       | SPoly e hs => SPoly (reencode_ring t (Z.to_nat p1) e) (map (reencode_ring t (Z.to_nat p1)) hs)
       | _ => s
       end.

Definition transform_b (t p1 p2 : Z) (s : shape) : shape :=
  if 6 <=? t then (if t =? 9 then transform_a t p1 p2 s else s) else transform_a t p1 p2 s.

Definition pair_answers (sa sb : shape) : list Z :=
  let a := g_of_shape sa in let b := g_of_shape sb in
  [b2z (g_intersects a b); b2z (g_intersects b a); ob2z (g_contains a b); ob2z (g_contains b a)].

Definition run_sym (l : list Z) : list Z :=
  match l with
  | _ :: _ :: t :: p1 :: p2 :: r =>
      match take_shape r with
      | Some (sa, r1) =>
          match take_shape r1 with
          | Some (sb, []) =>
              let base := pair_answers sa sb in
              let tr := pair_answers (transform_a t p1 p2 sa) (transform_b t p1 p2 sb) in
              map (fun xy => b2z (fst xy =? snd xy)) (combine base tr) ++ base ++ tr
          | _ => BAD
          end
      | None => BAD
      end
  | _ => BAD
  end.

Definition spec_sym (l : list Z) : list Z :=
  match l with
  | _ :: flags :: _ => if negb (Z.odd flags) then ANY else [1; 1; 1; 1] ++ repeat WILD 8
  | _ => BAD
  end.


(* ---- object layer (C09, C10, C11) ----
   object encoding: 0 x y Point | 1 x y SimplePoint | 2 a b c d Rect | 3 n coords LineString
                    | 4 nrings rings Polygon | 5 obj Feature | 6 kind n obj* collection *)
Fixpoint take_obj (fuel : nat) (l : list Z) : option (obj * list Z) :=
  match fuel with
  | O => None
  | S f =>
      match l with
      | 0 :: x :: y :: r => Some (OPoint (x, y), r)
      | 1 :: x :: y :: r => Some (OSimple (x, y), r)
      | 2 :: a :: b :: c :: d :: r => Some (ORect ((a, b), (c, d)), r)
      | 3 :: n :: r => let '(ps, rest) := take_pts (Z.to_nat n) r in Some (OLine ps, rest)
      | 4 :: nr :: r => let '(rs, rest) := take_rings (Z.to_nat nr) r in Some (OPoly rs, rest)
      | 5 :: r => match take_obj f r with Some (b, rest) => Some (OFeature b, rest) | None => None end
      | 6 :: k :: n :: r =>
          let fix kids (m : nat) (l : list Z) : option (list obj * list Z) :=
            match m with
            | O => Some ([], l)
            | S m' =>
                match take_obj f l with
                | Some (c, rest) =>
                    match kids m' rest with Some (cs, rest') => Some (c :: cs, rest') | None => None end
                | None => None
                end
            end in
          match kids (Z.to_nat n) r with Some (cs, rest) => Some (OColl k cs, rest) | None => None end
      | _ => None
      end
  end.

Definition impl_b (x y : bool) : bool := negb x || y.

Definition equivalent_repr (o : obj) : option obj :=
  match o with
  | OPoint p => Some (OSimple p)
  | OSimple p => Some (OPoint p)
  | ORect r => Some (OPoly [rect_points r])
  | _ => None
  end.

(* tag 60: args = s flags objA objB *)
Definition six (a b : obj) : list bool :=
  [o_contains a b; o_within a b; o_intersects a b; o_contains b a; o_within b a; o_intersects b a].

Fixpoint blist_eqb (a b : list bool) : bool :=
  match a, b with
  | [], [] => true
  | x :: a', y :: b' => Bool.eqb x y && blist_eqb a' b'
  | _, _ => false
  end.

Definition run_obj_pair (l : list Z) : list Z :=
  match l with
  | _ :: _ :: r =>
      match take_obj (length r) r with
      | Some (a, r1) =>
          match take_obj (length r1) r1 with
          | Some (b, []) =>
              let o0 := o_contains a b in let o1 := o_within a b in let o2 := o_intersects a b in
              let o3 := o_contains b a in let o4 := o_within b a in let o5 := o_intersects b a in
              map b2z
                [o0; o1; o2; o3; o4; o5; fuel_ok a b;
                 Bool.eqb o1 o3 && Bool.eqb o4 o0;
                 Bool.eqb o2 o5;
                 impl_b (o0 && negb (o_empty b)) o2 && impl_b (o3 && negb (o_empty a)) o5;
                 impl_b (o0 && negb (o_empty b)) (rect_contains_rect (o_rect a) (o_rect b)) &&
                 impl_b (o3 && negb (o_empty a)) (rect_contains_rect (o_rect b) (o_rect a));
                 impl_b o2 (rect_intersects_rect (o_rect a) (o_rect b)) &&
                 impl_b o5 (rect_intersects_rect (o_rect b) (o_rect a));
                 o_empty a || (o_contains a a && o_intersects a a);
                 blist_eqb (six (OFeature a) b) (six a b);
                 match equivalent_repr a with Some e => blist_eqb (six e b) (six a b) | None => true end]
          | _ => BAD
          end
      | None => BAD
      end
  | _ => BAD
  end.

Definition spec_obj_pair (l : list Z) : list Z :=
  match l with
  | _ :: flags :: r =>
      match take_obj (length r) r with
      | Some (a, r1) =>
          match take_obj (length r1) r1 with
          | Some (b, []) =>
              (if Z.odd (flags / 16) then
                 let c := b2z (spec_contains a b) in let d := b2z (spec_contains b a) in
                 let i := b2z (spec_intersects a b) in
                 [c; d; i; d; c; i]
               else repeat WILD 6)
              ++ [1; 1; 1; 1; 1; 1; 1; 1; 1]
          | _ => BAD
          end
      | None => BAD
      end
  | _ => BAD
  end.

(* tag 61: args = s flags obj -> empty valid rect(4) center2(2) npoints *)
Definition lim180 (s : Z) : Z := 180 * 2 ^ s.
Definition lim90 (s : Z) : Z := 90 * 2 ^ s.

Definition run_obj_attrs (l : list Z) : list Z :=
  match l with
  | s :: _ :: r =>
      match take_obj (length r) r with
      | Some (o, []) =>
          [b2z (o_empty o); b2z (o_valid (lim180 s) (lim90 s) o)] ++ enc_rect (o_rect o)
          ++ [px (o_center2 o); py (o_center2 o); o_npoints o]
      | _ => BAD
      end
  | _ => BAD
  end.

Definition spec_obj_attrs (l : list Z) : list Z :=
  match l with
  | s :: _ :: r =>
      match take_obj (length r) r with
      | Some (o, []) =>
          if spec_empty o then
            (* an object without any occupied position has no box to speak of *)
            [1; b2z (spec_valid (lim180 s) (lim90 s) o); WILD; WILD; WILD; WILD; WILD; WILD; spec_npoints o]
          else
            [0; b2z (spec_valid (lim180 s) (lim90 s) o)] ++ enc_rect (spec_rect o)
            ++ [px (spec_center2 o); py (spec_center2 o); spec_npoints o]
      | _ => BAD
      end
  | _ => BAD
  end.

(* tag 62: args = s cfg coll probe qminx qminy qmaxx qmaxy stopk
   output: answers(5) laws(7) nreported [sorted reported when stopk < 0] same-with-index *)
Definition run_coll (l : list Z) : list Z :=
  match l with
  | _ :: _ :: r =>
      match take_obj (length r) r with
      | Some (OColl k cs, r1) =>
          match take_obj (length r1) r1 with
          | Some (x, [a; b; c; d; stopk]) =>
              let C := OColl k cs in
              let rep := map Z.of_nat (o_search cs ((a, b), (c, d))) in
              [b2z (o_intersects C x); b2z (o_contains C x); b2z (o_within C x);
               b2z (o_intersects x C); b2z (o_contains x C)]
              ++ [1; 1; 1; 1; 1; 1; 1]
              ++ (if stopk <? 0 then Z.of_nat (length rep) :: rep
                  else [Z.of_nat (Nat.min (Z.to_nat stopk) (length rep))])
              ++ [1]
          | _ => BAD
          end
      | _ => BAD
      end
  | _ => BAD
  end.

Definition spec_coll (l : list Z) : list Z :=
  match l with
  | _ :: flags :: r =>
      match take_obj (length r) r with
      | Some (OColl k cs, r1) =>
          match take_obj (length r1) r1 with
          | Some (x, [a; b; c; d; stopk]) =>
              let C := OColl k cs in
              let q := ((a, b), (c, d)) in
              (* children with an occupied position whose tight box meets the query *)
              let want := map (fun ci => Z.of_nat (snd ci))
                              (filter (fun ci => negb (spec_empty (fst ci)) && rect_intersects_rect (spec_rect (fst ci)) q)
                                      (combine cs (seq 0 (length cs)))) in
              (if Z.odd (flags / 16) then
                 [b2z (spec_intersects C x); b2z (spec_contains C x); b2z (spec_contains x C);
                  b2z (spec_intersects x C); b2z (spec_contains x C)]
               else repeat WILD 5)
              ++ [1; 1; 1; 1; 1; 1; 1]
              ++ (if stopk <? 0 then Z.of_nat (length want) :: want
                  else [Z.of_nat (Nat.min (Z.to_nat stopk) (length want))])
              ++ [1]
          | _ => BAD
          end
      | _ => BAD
      end
  | _ => BAD
  end.

Definition run (tag : Z) (args : list Z) : list Z :=
  match tag, args with
  | 1, [_; ax; ay; bx; by_; x; y] =>
      let '(i, o) := raycast (mkseg ax ay bx by_) (x, y) in [b2z i; b2z o]
  | 2, [_; ax; ay; bx; by_; cx; cy; dx; dy] =>
      [b2z (intersects_segment (mkseg ax ay bx by_) (mkseg cx cy dx dy))]
  | 3, [_; ax; ay; bx; by_; cx; cy; dx; dy] =>
      [b2z (seg_contains_segment (mkseg ax ay bx by_) (mkseg cx cy dx dy))]
  | 4, [_; ax; ay; bx; by_; x; y] =>
      [b2z (collinear_point (mkseg ax ay bx by_) (x, y))]
  | 5, [_; ax; ay; bx; by_] =>
      let '((a, b), (c, d)) := seg_rect (mkseg ax ay bx by_) in [a; b; c; d]
  | 6, [_; ax; ay; bx; by_; x; y] =>
      [b2z (seg_contains_point (mkseg ax ay bx by_) (x, y))]
  | 10, _ :: cl :: coords => run_series cl coords
  | 20, _ :: _ :: _ :: l => run_poly_pip l
  | 21, _ :: l => run_ring_pip l
  | 22, [_; mnx; mny; mxx; mxy; x; y] => rep 9 (b2z (rect_contains_point ((mnx, mny), (mxx, mxy)) (x, y)))
  | 23, _ :: _ :: _ :: l => run_line_pip l
  | 40, l => run_index_bytes l
  | 41, l => run_search false l
  | 42, l => run_search true l
  | 43, _ => [1]
  | 50, l => run_pair l
  | 53, l => run_pair l
  | 52, l => run_sym l
  | 60, l => run_obj_pair l
  | 61, l => run_obj_attrs l
  | 63, _ => ANY
  | 62, l => run_coll l
  | 70, l => run_parse l
  | 73, l => run_parse l
  | 74, l => run_parse l
  | 76, l => run_parse l
  | 71, _ => [1]
  | 72, l => run_ctor l
  | 75, _ => [1]
  | 80, _ => ANY
  | 81, _ => ANY
  | 82, _ => ANY
  | 83, _ => ANY
  | 90, _ => ANY
  | 95, _ => ANY
  | 96, _ => ANY
  | 97, _ => ANY
  | _, _ => BAD
  end.

Definition spec (tag : Z) (args : list Z) : list Z :=
  match tag, args with
  | 1, [_; ax; ay; bx; by_; x; y] =>
      let s := mkseg ax ay bx by_ in
      [b2z (crossesb s (x, y) && negb (on_segb s (x, y))); b2z (on_segb s (x, y))]
  | 2, [_; ax; ay; bx; by_; cx; cy; dx; dy] =>
      [b2z (seg_meetb (mkseg ax ay bx by_) (mkseg cx cy dx dy))]
  | 3, [_; ax; ay; bx; by_; cx; cy; dx; dy] =>
      let s := mkseg ax ay bx by_ in [b2z (on_segb s (cx, cy) && on_segb s (dx, dy))]
  | 4, [_; ax; ay; bx; by_; x; y] =>
      [b2z (cross (ax, ay) (bx, by_) (x, y) =? 0)]
  | 5, [_; ax; ay; bx; by_] =>
      [Z.min ax bx; Z.min ay by_; Z.max ax bx; Z.max ay by_]
  | 6, [_; ax; ay; bx; by_; x; y] =>
      [b2z (on_segb (mkseg ax ay bx by_) (x, y))]
  | 10, _ :: cl :: coords => spec_series cl coords
  | 20, _ :: _ :: _ :: l => spec_poly_pip l
  | 21, _ :: l => spec_ring_pip l
  | 22, [_; mnx; mny; mxx; mxy; x; y] => rep 9 (b2z (in_rectb ((mnx, mny), (mxx, mxy)) (x, y)))
  | 23, _ :: _ :: _ :: l => spec_line_pip l
  | 40, l => ANY
  | 41, l => spec_search false l
  | 42, l => spec_search true l
  | 43, _ => [1]
  | 50, l => spec_pair 0 l
  | 53, l => spec_pair 1 l
  | 52, l => spec_sym l
  | 60, l => spec_obj_pair l
  | 61, l => spec_obj_attrs l
  | 62, l => spec_coll l
  | 63, _ => [1]
  | 70, l => spec_parse l
  | 73, l => spec_fixpoint l
  | 74, l => spec_options l
  | 76, l => spec_wellformed l
  | 71, _ => [-11]
  | 72, l => spec_ctor l
  | 75, _ => [1]
  | 80, _ => repeat 1 11
  | 81, _ => repeat 1 6
  | 82, _ => repeat 1 10
  | 83, _ => repeat 1 5
  | 90, _ => [0]
  | 95, _ => [1]
  | 96, _ => [1]
  | 97, _ => [1]
  | _, _ => BAD
  end.

(* used by the kernel-evaluated sample (cases_*.v) *)
Fixpoint zlist_eqb (a b : list Z) : bool :=
  match a, b with
  | [], [] => true
  | x :: a', y :: b' => (x =? y) && zlist_eqb a' b'
  | _, _ => false
  end.

Fixpoint strictly_inc (l : list Z) : bool :=
  match l with
  | x :: ((y :: _) as r) => (x <? y) && strictly_inc r
  | _ => true
  end.
Definition half_ok (rest set : list Z) : bool :=
  let n := Nat.div2 (length rest) in
  let A := firstn n rest in let B := skipn n rest in
  (length rest =? n + n)%nat && strictly_inc A && forallb (fun x => existsb (Z.eqb x) set) A && zlist_eqb (sort_z B) A.

Fixpoint zlist_match' (impl sp : list Z) : bool :=   (* spec may hold wildcards; -10 = the rest is free *)
  match impl, sp with
  | _, [-10] => true
  | _, -4611686018427387917 :: set => half_ok impl set
  | [], [] => true
  | x :: a', y :: b' => ((y =? WILD) || (x =? y)) && zlist_match' a' b'
  | _, _ => false
  end.
Definition zlist_match (impl sp : list Z) : bool :=
  match sp with
  | [-8] => true
  | [-11] => match impl with [c] => negb (c =? 0) && negb (c =? -777) | _ => false end     (* rejected, whatever the error; -777 = the implementation panicked *)
  | -12 :: sp' => match impl with [c] => negb (c =? 0) && negb (c =? -777) | _ => zlist_match' impl sp' end
  | _ => zlist_match' impl sp
  end.

Definition case := (Z * list Z * list Z)%type.     (* tag, args, implementation output *)

Definition model_ok (t : Z) (a o : list Z) : bool :=
  match run t a with [-8] => true | m => zlist_eqb m o end.      (* [-8]: no executable model (real-valued) *)

Definition mismatches (cs : list case) : list case :=
  filter (fun c => let '(t, a, o) := c in
                   negb (model_ok t a o && zlist_match o (spec t a))) cs.

(* model only: used where the implementation is known to disagree with the
   specification on some cases (KNOWN_FINDINGS.txt) *)
Definition model_mismatches (cs : list case) : list case :=
  filter (fun c => let '(t, a, o) := c in negb (model_ok t a o)) cs.
