(* Harness.v — the executable interface of the models used by the
   correspondence check: [run tag args] evaluates the model of one Go entry
   point on integer-encoded arguments, [spec tag args] evaluates the
   independent specification (wildcard -9 where the spec has no opinion).
   Both are extracted to OCaml and also evaluated by vm_compute in cases_*.v. *)
From GJ Require Import Base Kernel KernelSpec.

Definition WILD : Z := -9.
Definition BAD : list Z := [-1].

Definition mkseg (ax ay bx by_ : Z) : seg := ((ax, ay), (bx, by_)).

Definition run (tag : Z) (args : list Z) : list Z :=
  match tag, args with
  | 1, [_; ax; ay; bx; by_; x; y] =>
      let '(i, o) := raycast (mkseg ax ay bx by_) (x, y) in [b2z i; b2z o]
  | 2, [_; ax; ay; bx; by_; cx; cy; dx; dy] =>
      [b2z (intersects_segment (mkseg ax ay bx by_) (mkseg cx cy dx dy))]
  | 3, [_; ax; ay; bx; by_; cx; cy; dx; dy] =>
      [b2z (seg_contains_segment (mkseg ax ay bx by_) (mkseg cx cy dx dy))]
  | 4, [_; ax; ay; bx; by_; x; y] =>
      [b2z (collinear_point (mkseg ax ay bx by_) (x, y))]
  | 5, [_; ax; ay; bx; by_] =>
      let '((a, b), (c, d)) := seg_rect (mkseg ax ay bx by_) in [a; b; c; d]
  | 6, [_; ax; ay; bx; by_; x; y] =>
      [b2z (seg_contains_point (mkseg ax ay bx by_) (x, y))]
  | _, _ => BAD
  end.

Definition spec (tag : Z) (args : list Z) : list Z :=
  match tag, args with
  | 1, [_; ax; ay; bx; by_; x; y] =>
      let s := mkseg ax ay bx by_ in
      [b2z (crossesb s (x, y) && negb (on_segb s (x, y))); b2z (on_segb s (x, y))]
  | 2, [_; ax; ay; bx; by_; cx; cy; dx; dy] =>
      [b2z (seg_meetb (mkseg ax ay bx by_) (mkseg cx cy dx dy))]
  | 3, [_; ax; ay; bx; by_; cx; cy; dx; dy] =>
      let s := mkseg ax ay bx by_ in [b2z (on_segb s (cx, cy) && on_segb s (dx, dy))]
  | 4, [_; ax; ay; bx; by_; x; y] =>
      [b2z (cross (ax, ay) (bx, by_) (x, y) =? 0)]
  | 5, [_; ax; ay; bx; by_] =>
      [Z.min ax bx; Z.min ay by_; Z.max ax bx; Z.max ay by_]
  | 6, [_; ax; ay; bx; by_; x; y] =>
      [b2z (on_segb (mkseg ax ay bx by_) (x, y))]
  | _, _ => BAD
  end.

(* used by the kernel-evaluated sample (cases_*.v) *)
Fixpoint zlist_eqb (a b : list Z) : bool :=
  match a, b with
  | [], [] => true
  | x :: a', y :: b' => (x =? y) && zlist_eqb a' b'
  | _, _ => false
  end.

Fixpoint zlist_match (impl sp : list Z) : bool :=   (* spec may hold wildcards *)
  match impl, sp with
  | [], [] => true
  | x :: a', y :: b' => ((y =? WILD) || (x =? y)) && zlist_match a' b'
  | _, _ => false
  end.

Definition case := (Z * list Z * list Z)%type.     (* tag, args, implementation output *)

Definition mismatches (cs : list case) : list case :=
  filter (fun c => let '(t, a, o) := c in
                   negb (zlist_eqb (run t a) o && zlist_match o (spec t a))) cs.
