(* RaycastProofs.v — C19: Raycast equals its specification (heavy case analysis). *)
From GJ Require Import Base Kernel KernelSpec.

(* Decide every linear boolean comparison in the goal from the context. *)
Ltac dec_cmp :=
  repeat match goal with
  | |- context [?a <? ?b] =>
      first [ replace (a <? b) with true by (symmetry; apply Z.ltb_lt; lia)
            | replace (a <? b) with false by (symmetry; apply Z.ltb_ge; lia) ]
  | |- context [?a <=? ?b] =>
      first [ replace (a <=? b) with true by (symmetry; apply Z.leb_le; lia)
            | replace (a <=? b) with false by (symmetry; apply Z.leb_gt; lia) ]
  | |- context [?a =? ?b] =>
      first [ replace (a =? b) with true by (symmetry; apply Z.eqb_eq; lia)
            | replace (a =? b) with false by (symmetry; apply Z.eqb_neq; lia) ]
  end.

Ltac tri a b := destruct (Z.lt_trichotomy a b) as [?|[?|?]].

Ltac unfold_kernel :=
  unfold raycast_on, raycast_in, raycast, fq_eq, lt_n, gt_n, slope_ge, pt_eqb,
         on_seg, crosses, cross, px, py in *; cbn [fst snd] in *.

(* finish a goal whose remaining boolean tests are non-linear *)
Ltac finish_nl :=
  repeat match goal with
  | |- context [?a =? ?b] => destruct (Z.eqb_spec a b)
  | |- context [?a <? ?b] => destruct (Z.ltb_spec a b)
  | |- context [?a <=? ?b] => destruct (Z.leb_spec a b)
  end; cbn [andb orb negb fst snd];
  try (split; [ intros ?; try discriminate; repeat split; try nia; try lia
              | intros ?; try reflexivity; exfalso; try nia; try lia ]).

Theorem raycast_on_iff (s : seg) (p : pt) : raycast_on s p = true <-> on_seg s p.
Proof.
  destruct s as [[ax ay] [bx by_]], p as [x y].
  unfold_kernel.
  tri ay by_; tri ax bx; tri y ay; try tri y by_; try tri x ax; try tri x bx;
    try lia; dec_cmp; cbn [andb orb negb fst snd]; dec_cmp;
    cbn [andb orb negb fst snd];
    try (split; [intros ?; try discriminate; repeat split; nia | intros ?; try reflexivity; exfalso; nia]);
    finish_nl.
Qed.

Lemma sgn_mul_pos D P : 0 < P ->
  (0 < D * P <-> 0 < D) /\ (0 <= D * P <-> 0 <= D) /\
  (D * P < 0 <-> D < 0) /\ (D * P <= 0 <-> D <= 0).
Proof. intros HP. repeat split; intros; nia. Qed.

(* turn sign facts about det * (d1*d2), d1*d2 > 0, into sign facts about det *)
Ltac strip_prod :=
  repeat match goal with
  | H : context [?D * (?u * ?v)] |- _ =>
      let HP := fresh "HP" in
      assert (HP : 0 < u * v) by nia;
      destruct (sgn_mul_pos D (u * v) HP) as (?E1 & ?E2 & ?E3 & ?E4);
      first [ apply E1 in H | apply E2 in H | apply E3 in H | apply E4 in H ];
      clear E1 E2 E3 E4
  end.

Ltac fin_in :=
  split;
  [ intros Ht; first [ discriminate Ht |
    split;
    [ intros (Hc & Hx & Hy); first [lia | nia]
    | first [lia | left; first [lia | nia] | right; first [lia | nia]] ] ]
  | intros [Hn [[Hr Hc]|[Hr Hc]]]; first [ reflexivity | exfalso;
    first [lia | nia | apply Hn; repeat split; first [lia | nia]] ] ].

Theorem raycast_in_iff (s : seg) (p : pt) :
  raycast_in s p = true <-> (~ on_seg s p /\ crosses s p).
Proof.
  destruct s as [[ax ay] [bx by_]], p as [x y].
  unfold_kernel.
  tri ay by_; tri ax bx; tri y ay; try tri y by_; try tri x ax; try tri x bx;
    try lia; dec_cmp; cbn [andb orb negb fst snd]; dec_cmp;
    cbn [andb orb negb fst snd];
    try solve [fin_in];
    repeat match goal with
    | |- context [?a =? ?b] => destruct (Z.eqb_spec a b)
    | |- context [?a <? ?b] => destruct (Z.ltb_spec a b)
    | |- context [?a <=? ?b] => destruct (Z.leb_spec a b)
    end; cbn [andb orb negb fst snd];
    try solve [fin_in];
    strip_prod; try solve [exfalso; nia]; try solve [fin_in].
Qed.

