(* ContainsBoxes.v — "if A contains a non-empty B their rectangles intersect",
   for every pair of built geometries and every pair of object trees with
   well-formed rectangles; with it the rectangle pre-filter disappears from the
   composition laws of collections (C10): contains and within. *)
From Coq Require Import Lia.
From GJ Require Import Base Kernel KernelSpec KernelProofs Series SeriesSpec SeriesProofs Ring RingSpec PipProofs
  PairSpec PairProofs LineProofs Pairs Obj ObjSpec ObjProofs BoxLaws.
Open Scope Z_scope.

(* ------------------------------------------------------------------ *)
(* rectangles                                                           *)

Lemma rcr_rir (r o : rect) : rect_wf o -> rect_contains_rect r o = true -> rect_intersects_rect r o = true.
Proof. intros [W1 W2]. rewrite rcr_iff, rir_iff. lia. Qed.

Lemma rir_refl_wf (r : rect) : rect_wf r -> rect_intersects_rect r r = true.
Proof. intros [W1 W2]. apply rir_iff. lia. Qed.

Lemma bbox_wf (ps : list pt) : ps <> [] -> rect_wf (bbox_spec ps).
Proof.
  intros H. destruct ps as [|p l]; [congruence|].
  pose proof (bbox_spec_tight (p :: l) p (or_introl eq_refl)) as T. cbv zeta in T. unfold rect_wf. lia.
Qed.

Lemma line_rect_wf (ps : list pt) : ring_empty (Lr ps) = false -> rect_wf (ring_rect (Lr ps)).
Proof.
  unfold Lr, ring_empty, ring_rect. rewrite RS_empty, RS_rect. intros He.
  rewrite (series_rect_spec _ He). cbn [pts]. apply bbox_wf.
  unfold series_empty, npoints in He. cbn [closed pts andb orb] in He. apply Nat.ltb_ge in He.
  intros ->. cbn in He. lia.
Qed.

Lemma ring_rect_wf (ps : list pt) : ring_empty (Rg ps) = false -> rect_wf (ring_rect (Rg ps)).
Proof.
  unfold Rg, ring_empty, ring_rect. rewrite RS_empty, RS_rect. intros He.
  rewrite (series_rect_spec _ He). cbn [pts]. apply bbox_wf.
  rewrite closed_series_empty in He. apply Nat.ltb_ge in He. intros ->. cbn in He. lia.
Qed.

(* ------------------------------------------------------------------ *)
(* a line that covers a segment touches the segment's first point        *)

Lemma covers_step_progress (l : rng) (sg : seg) (cur : pt) (curd : Z) :
  curd < snd (covers_step l sg cur curd) ->
  exists s, In s (ring_segments l) /\ raycast_on s cur = true.
Proof.
  unfold covers_step. destruct sg as [a b].
  assert (G : forall (cands : list (seg * nat)) (acc : pt * Z),
            (forall si, In si cands -> In (fst si) (ring_segments l)) ->
            snd acc = curd \/ (exists s, In s (ring_segments l) /\ raycast_on s cur = true) ->
            let r := fold_left
              (fun acc0 (si : seg * nat) =>
                 let s := fst si in
                 if collinear_point s a && collinear_point s b && raycast_on s cur then
                   let acc1 := let d := dotp a b (fst s) in if snd acc0 <? d then (fst s, d) else acc0 in
                   let d := dotp a b (snd s) in if snd acc1 <? d then (snd s, d) else acc1
                 else acc0) cands acc in
            snd r = curd \/ (exists s, In s (ring_segments l) /\ raycast_on s cur = true)).
  { induction cands as [|si cands IH]; intros acc Hin Hacc; cbn [fold_left]; [exact Hacc|].
    apply IH; [intros x Hx; apply Hin; right; exact Hx|].
    cbv zeta. destruct (collinear_point (fst si) a && collinear_point (fst si) b && raycast_on (fst si) cur) eqn:E; [|exact Hacc].
    right. exists (fst si). split; [apply Hin; left; reflexivity|].
    rewrite !andb_true_iff in E. tauto. }
  intros Hlt.
  destruct (G (ring_search l (cur, cur)) (cur, curd)) as [E|E].
  - intros si Hsi. unfold ring_search in Hsi. apply filter_In in Hsi. destruct Hsi as [Hsi _].
    unfold indexed in Hsi. destruct si as [s0 i0]. apply in_combine_l in Hsi. exact Hsi.
  - left. reflexivity.
  - exfalso. cbv zeta in E. rewrite E in Hlt. lia.
  - exact E.
Qed.

Lemma covers_walk_true_touch (l : rng) (sg : seg) : forall fuel,
  pt_eqb (fst sg) (snd sg) = false ->
  covers_walk fuel l sg (fst sg) 0 = Some true ->
  exists s, In s (ring_segments l) /\ raycast_on s (fst sg) = true.
Proof.
  intros fuel Hne. destruct fuel as [|f]; [discriminate|]. cbn [covers_walk].
  pose proof (covers_step_progress l sg (fst sg) 0) as P.
  pose proof (covers_step_result l sg (fst sg) 0) as R. cbv zeta in R.
  destruct (covers_step l sg (fst sg) 0) as [best bestd]. cbn [snd fst] in *.
  assert (Goal : 0 < dotp (fst sg) (snd sg) (snd sg)).
  { destruct sg as [[ax ay] [bx by_]]. unfold dotp, px, py. cbn [fst snd] in *.
    unfold pt_eqb, px, py in Hne. cbn [fst snd] in Hne. apply andb_false_iff in Hne.
    pose proof (Z.square_nonneg (bx - ax)) as S1. pose proof (Z.square_nonneg (by_ - ay)) as S2.
    destruct Hne as [Hn|Hn]; apply Z.eqb_neq in Hn.
    - assert (0 < (bx - ax) * (bx - ax)) by nia. nia.
    - assert (0 < (by_ - ay) * (by_ - ay)) by nia. nia. }
  destruct (Z.leb_spec (dotp (fst sg) (snd sg) (snd sg)) bestd) as [L|L].
  - intros _. apply P. lia.
  - destruct (Z.ltb_spec 0 bestd) as [Lt|Ge]; cbn [negb]; [intros _; apply P; exact Lt|discriminate].
Qed.

Lemma line_covers_true_touch (l : rng) (sg : seg) :
  line_covers_segment l sg = Some true -> exists s, In s (ring_segments l) /\ raycast_on s (fst sg) = true.
Proof.
  unfold line_covers_segment. destruct (pt_eqb (fst sg) (snd sg)) eqn:E.
  - intros H. assert (H' : line_contains_point_r l (fst sg) = true) by congruence.
    unfold line_contains_point_r in H'. apply existsb_exists in H'.
    destruct H' as ([s i] & Hin & Hon). cbn [fst] in Hon. exists s. split; [|exact Hon].
    unfold ring_search in Hin. apply filter_In in Hin. destruct Hin as [Hin _]. unfold indexed in Hin.
    apply in_combine_l in Hin. exact Hin.
  - apply covers_walk_true_touch. exact E.
Qed.

(* a point on a segment of a built line lies in the line's rectangle *)
Lemma on_line_segment_in_rect (ps : list pt) (s : seg) (p : pt) :
  In s (ring_segments (Lr ps)) -> raycast_on s p = true -> rect_contains_point (ring_rect (Lr ps)) p = true.
Proof.
  intros Hin Hon. apply line_point_in_rect. rewrite line_intersects_point_spec.
  unfold in_lineb, on_boundaryb. apply existsb_exists. exists s. split.
  - unfold Lr, ring_segments in Hin. rewrite RS_segs in Hin. exact Hin.
  - rewrite <- raycast_on_eq. exact Hon.
Qed.

Lemma all_some_true_in (xs : list (option bool)) (x : option bool) : all_some xs = Some true -> In x xs -> x = Some true.
Proof.
  induction xs as [|y xs IH]; [intros _ []|]. intros H [<-|Hin]; cbn [all_some] in H.
  - destruct y as [[|]|]; try discriminate. reflexivity.
  - destruct y as [[|]|]; try discriminate. apply IH; assumption.
Qed.

(* Line.ContainsLine: the first point of the argument is on the receiver *)
Lemma line_contains_line_touch (ps : list pt) (o : rng) (sg : seg) :
  line_contains_line (Lr ps) o = Some true -> In sg (ring_segments o) ->
  rect_contains_point (ring_rect (Lr ps)) (fst sg) = true.
Proof.
  unfold line_contains_line. destruct (ring_empty (Lr ps) || ring_empty o); [discriminate|].
  intros H Hin.
  assert (Hc : line_covers_segment (Lr ps) sg = Some true).
  { apply (all_some_true_in _ _ H). apply in_map. exact Hin. }
  destruct (line_covers_true_touch _ _ Hc) as (s & Hs & Hon).
  apply (on_line_segment_in_rect ps s (fst sg) Hs Hon).
Qed.

(* ------------------------------------------------------------------ *)
(* geometry level: contains a non-empty argument => rectangles intersect *)

Definition g_nonempty (g : gshape) : bool :=
  match g with
  | GPoint _ | GRect _ => true
  | GLine l => negb (ring_empty l)
  | GPoly p => negb (poly_empty p)
  end.

Definition g_wf (g : gshape) : Prop := match g with GRect r => rect_wf r | _ => True end.

Inductive built2 : gshape -> Prop :=
| b2_point p : built2 (GPoint p)
| b2_rect r : built2 (GRect r)
| b2_line ps : built2 (GLine (Lr ps))
| b2_poly e hs : built2 (GPoly (Pg e hs))
| b2_nil : built2 (GPoly (mk_poly [])).

Lemma built2_built g : built2 g -> built g.
Proof. destruct 1; constructor. Qed.

Lemma g_rect_wf (g : gshape) : built2 g -> g_wf g -> g_nonempty g = true -> rect_wf (g_rect g).
Proof.
  intros B W N. destruct B as [p|r|ps|e hs|]; cbn [g_rect g_wf g_nonempty] in *.
  - unfold rect_wf. cbn [fst snd]. lia.
  - exact W.
  - apply line_rect_wf. apply negb_true_iff. exact N.
  - unfold poly_rect, Pg. cbn [exterior]. apply ring_rect_wf. unfold poly_empty, Pg in N. cbn [exterior] in N.
    apply negb_true_iff. exact N.
  - cbn in N. discriminate.
Qed.

Lemma rect_eqb_rir (r o : rect) : rect_wf r -> rect_eqb r o = true -> rect_intersects_rect o r = true.
Proof. intros W E. apply rect_eqb_eq in E. subst o. apply rir_refl_wf. exact W. Qed.

Lemma ring_contains_ring_boxes (r o : rng) (allow : bool) :
  ring_contains_ring r o allow = true -> rect_contains_rect (ring_rect r) (ring_rect o) = true.
Proof.
  unfold ring_contains_ring. destruct (ring_empty r || ring_empty o); [discriminate|].
  destruct ((complexRingMinPoints <=? ring_npoints o)%nat && rcr_core r (RR (ring_rect o)) allow) eqn:E.
  - intros _. apply andb_true_iff in E. destruct E as [_ E]. apply rcr_core_rect in E. exact E.
  - apply rcr_core_rect.
Qed.

Lemma first_segment (ps : list pt) : ring_empty (Lr ps) = false -> exists sg, In sg (ring_segments (Lr ps)) /\ In (fst sg) ps.
Proof.
  unfold Lr, ring_empty, ring_segments. rewrite RS_empty, RS_segs. unfold series_empty, npoints, segments_spec.
  cbn [closed pts andb orb]. intros H. apply Nat.ltb_ge in H.
  destruct ps as [|a [|b r]]; cbn in H; try lia.
  exists (a, b). split; [left; reflexivity|left; reflexivity].
Qed.

Lemma point_in_line_rect (ps : list pt) (p : pt) : ring_empty (Lr ps) = false -> In p ps ->
  rect_contains_point (ring_rect (Lr ps)) p = true.
Proof.
  unfold Lr, ring_empty, ring_rect. rewrite RS_empty, RS_rect. intros He Hin.
  rewrite (series_rect_spec _ He). cbn [pts]. apply rect_contains_point_inbox.
  pose proof (bbox_spec_tight ps p Hin) as T. cbv zeta in T. unfold inbox. lia.
Qed.

Lemma two_points_meet (r o : rect) (p : pt) :
  rect_contains_point r p = true -> rect_contains_point o p = true -> rect_intersects_rect r o = true.
Proof.
  destruct r as [[a b] [c d]], o as [[e f] [g h]]. unfold rect_contains_point.
  rewrite !andb_true_iff, !Z.leb_le, rir_iff. unfold px, py. cbn [fst snd]. lia.
Qed.

(* MAIN (geometry level) *)
Theorem g_contains_boxes (a b : gshape) : built2 a -> built2 b -> g_wf a -> g_wf b ->
  g_nonempty b = true -> gcb a b = true -> rect_intersects_rect (g_rect a) (g_rect b) = true.
Proof.
  intros Ba Bb Wa Wb Nb. pose proof (g_rect_wf b Bb Wb Nb) as Wrb.
  unfold gcb. destruct Ba as [p|r|ps|e hs|]; destruct Bb as [q|s|qs|f gs|];
    cbn [g_contains ob g_rect g_nonempty] in *; intros H; try discriminate.
  (* point receiver *)
  - apply pt_eqb_eq in H. subst q. apply rir_refl_wf. unfold rect_wf. cbn [fst snd]. lia.
  - unfold point_contains_rect, point_rect in H. apply rect_eqb_eq in H. subst s. apply rir_refl_wf. exact Wrb.
  - unfold point_contains_line, point_rect in H. apply andb_true_iff in H. destruct H as [_ H].
    apply rect_eqb_eq in H. rewrite H. apply rir_refl_wf. unfold rect_wf. cbn [fst snd]. lia.
  - unfold point_contains_poly, point_rect in H. apply andb_true_iff in H. destruct H as [_ H].
    apply rect_eqb_eq in H. rewrite H. apply rir_refl_wf. unfold rect_wf. cbn [fst snd]. lia.
  (* rect receiver *)
  - apply rir_point_in. exact H.
  - apply rcr_rir; assumption.
  - unfold rect_contains_line in H. apply andb_true_iff in H. destruct H as [_ H]. apply rcr_rir; assumption.
  - unfold rect_contains_poly in H. apply andb_true_iff in H. destruct H as [_ H]. apply rcr_rir; assumption.
  (* line receiver *)
  - apply rir_point_in. apply line_point_in_rect. exact H.
  - (* line contains rect: the box's min corner is on the line *)
    destruct (line_contains_rect (Lr ps) s) as [[|]|] eqn:E; try discriminate.
    unfold line_contains_rect, line_contains_poly in E.
    destruct (ring_empty (Lr ps) || poly_empty (rect_poly s)); [discriminate|].
    unfold poly_rect, rect_poly in E. cbn [exterior RR r_rect ring_rect] in E. destruct s as [mn mx].
    destruct (negb (px mn =? px mx) && negb (py mn =? py mx)); [discriminate|].
    pose proof (line_contains_line_touch ps (diag_line mn mx) (mn, mx) E (or_introl eq_refl)) as T. cbn [fst] in T.
    apply (two_points_meet _ _ mn T). destruct Wrb as [W1 W2]. cbn [fst snd] in *.
    unfold rect_contains_point. cbn [fst snd]. rewrite !andb_true_iff, !Z.leb_le. lia.
  - (* line contains line *)
    destruct (line_contains_line (Lr ps) (Lr qs)) as [[|]|] eqn:E; try discriminate.
    apply negb_true_iff in Nb. destruct (first_segment qs Nb) as (sg & Hsg & Hin).
    pose proof (line_contains_line_touch ps (Lr qs) sg E Hsg) as T.
    apply (two_points_meet _ _ (fst sg) T). apply point_in_line_rect; assumption.
  - (* line contains poly: the min corner of the polygon's box is on the line *)
    destruct (line_contains_poly (Lr ps) (Pg f gs)) as [[|]|] eqn:E; try discriminate.
    unfold line_contains_poly in E. destruct (ring_empty (Lr ps) || poly_empty (Pg f gs)); [discriminate|].
    destruct (poly_rect (Pg f gs)) as [mn mx] eqn:Er.
    destruct (negb (px mn =? px mx) && negb (py mn =? py mx)); [discriminate|].
    pose proof (line_contains_line_touch ps (diag_line mn mx) (mn, mx) E (or_introl eq_refl)) as T. cbn [fst] in T.
    apply (two_points_meet _ _ mn T). destruct Wrb as [W1 W2]. cbn [fst snd] in *.
    unfold rect_contains_point. cbn [fst snd]. rewrite !andb_true_iff, !Z.leb_le. lia.
  (* polygon receiver *)
  - apply poly_point_boxes. exact H.
  - unfold poly_contains_rect, poly_contains_poly in H.
    destruct (ring_contains_ring (exterior (Pg e hs)) (exterior (rect_poly s)) true) eqn:E; [|discriminate].
    apply ring_contains_ring_boxes in E. apply rcr_rir; [exact Wrb|exact E].
  - unfold poly_contains_line in H. destruct (ring_contains_ring (exterior (Pg e hs)) (Lr qs) true) eqn:E; [|discriminate].
    apply ring_contains_ring_boxes in E. apply rcr_rir; [exact Wrb|exact E].
  - unfold poly_contains_poly in H. destruct (ring_contains_ring (exterior (Pg e hs)) (exterior (Pg f gs)) true) eqn:E; [|discriminate].
    apply ring_contains_ring_boxes in E. apply rcr_rir; [exact Wrb|exact E].
  (* the nil polygon as receiver contains nothing *)
  - exfalso. unfold poly_contains_point, mk_poly in H. cbn [exterior holes existsb] in H.
    rewrite rcp_hit_gen in H. unfold ring_segments, mk_ring in H. rewrite RS_segs in H.
    cbn [segments_spec closed pts length Nat.ltb Nat.leb on_boundaryb parityb existsb fold_right] in H.
    destruct (rect_contains_point _ q); discriminate.
Qed.

Print Assumptions g_contains_boxes.

(* ------------------------------------------------------------------ *)
(* object level                                                         *)

Definition leaf_built2 (o : obj) (g : gshape) : leaf_geom o = Some g -> built2 g.
Proof.
  destruct o as [p|p|r|ps|rs|b|k cs]; cbn [leaf_geom]; intros H; inversion H.
  - constructor.
  - constructor.
  - constructor.
  - exact (b2_line ps).
  - destruct rs as [|e hs]; [exact b2_nil|exact (b2_poly e hs)].
Qed.

Lemma leaf_g_wf (o : obj) (g : gshape) : leaf_geom o = Some g -> obj_wf o -> g_wf g.
Proof. destruct o; cbn [leaf_geom]; intros H; inversion H; cbn [obj_wf g_wf]; auto. Qed.

Lemma leaf_g_nonempty (o : obj) (g : gshape) : leaf_geom o = Some g -> o_empty o = false -> g_nonempty g = true.
Proof.
  destruct o; cbn [leaf_geom]; intros H; inversion H; cbn [o_empty g_nonempty]; intros E; try reflexivity.
  - unfold ring_empty. rewrite RS_empty. rewrite E. reflexivity.
  - rewrite E. reflexivity.
Qed.

Lemma leaf_g_rect (o : obj) (g : gshape) : leaf_geom o = Some g -> g_rect g = o_rect o.
Proof.
  destruct o; cbn [leaf_geom]; intros H; inversion H; cbn [g_rect o_rect]; try reflexivity.
  unfold ring_rect. apply RS_rect.
Qed.

Lemma nonempty_child (cs : list obj) : forallb o_empty cs = false -> exists c, In c cs /\ o_empty c = false.
Proof.
  induction cs as [|c cs IH]; cbn [forallb]; [discriminate|].
  destruct (o_empty c) eqn:E; cbn [andb].
  - intros H. destruct (IH H) as (x & Hx & Ex). exists x. split; [right; exact Hx|exact Ex].
  - intros _. exists c. split; [left; reflexivity|exact E].
Qed.

(* b.Spatial().WithinX(g) for a non-empty b: the rectangles intersect *)
Theorem o_within_g_boxes (b : obj) : forall g, obj_wf b -> built2 g -> g_wf g -> o_empty b = false ->
  o_within_g b g = true -> rect_intersects_rect (o_rect b) (g_rect g) = true.
Proof.
  assert (Leaf : forall o go g, leaf_geom o = Some go -> obj_wf o -> built2 g -> g_wf g -> o_empty o = false ->
                   gcb g go = true -> rect_intersects_rect (o_rect o) (g_rect g) = true).
  { intros o go g Hl Hw Bg Wg He H. rewrite rir_sym, <- (leaf_g_rect o go Hl).
    apply (g_contains_boxes g go Bg (leaf_built2 o go Hl) Wg (leaf_g_wf o go Hl Hw) (leaf_g_nonempty o go Hl He) H). }
  induction b as [p|p|r|ps|rs|b IH|k cs IH] using obj_ind'; intros g Hw Bg Wg He H; cbn [o_within_g] in H.
  - apply (Leaf (OPoint p) _ g eq_refl Hw Bg Wg He H).
  - apply (Leaf (OSimple p) _ g eq_refl Hw Bg Wg He H).
  - apply (Leaf (ORect r) _ g eq_refl Hw Bg Wg He H).
  - apply (Leaf (OLine ps) _ g eq_refl Hw Bg Wg He H).
  - apply (Leaf (OPoly rs) _ g eq_refl Hw Bg Wg He H).
  - apply IH; assumption.
  - cbn [o_empty] in He. destruct (nonempty_child cs He) as (c & Hc & Ec).
    apply andb_true_iff in H. destruct H as [_ H]. rewrite forallb_forall in H. specialize (H c Hc).
    unfold visits in H. rewrite !andb_true_iff in H. destruct H as [[_ Hr] _].
    apply (rir_mono _ (o_rect c) _ (g_rect g)); [apply (child_rect_in_coll k cs c Hw Hc Ec)|apply rcr_refl|exact Hr].
Qed.

(* the parts used by collection.Contains (Features of collections looked through) lie inside the object *)
Lemma part_c_rect_in_obj (b : obj) : forall geom, obj_wf b -> In geom (for_each_part b) -> o_empty geom = false ->
  rect_contains_rect (o_rect b) (o_rect geom) = true /\ obj_wf geom.
Proof.
  induction b as [p|p|r|ps|rs|b IH|k cs IH] using obj_ind'; intros geom Hw Hin He; cbn [for_each_part] in Hin;
    try (destruct Hin as [<-|[]]; split; [apply rcr_refl|exact Hw]).
  - destruct (ends_in_coll b).
    + cbn [o_rect obj_wf] in *. apply IH; assumption.
    + destruct Hin as [<-|[]]. split; [apply rcr_refl|exact Hw].
  - apply in_flat_map in Hin. destruct Hin as (c & Hc & Hg).
    assert (Hwc : obj_wf c) by (apply obj_wf_coll in Hw; rewrite Forall_forall in Hw; apply Hw; exact Hc).
    rewrite Forall_forall in IH. destruct (IH c Hc geom Hwc Hg He) as [H1 H2]. split; [|exact H2].
    assert (Hce : o_empty c = false).
    { destruct (o_empty c) eqn:E; [|reflexivity]. exfalso.
      assert (G : forall x, o_empty x = true -> forall y, In y (for_each_part x) -> o_empty y = true).
      { clear. induction x as [p|p|r|ps|rs|b IHb|k cs IHc] using obj_ind'; intros Hx y Hy; cbn [for_each_part] in Hy;
          try (destruct Hy as [<-|[]]; exact Hx).
        - destruct (ends_in_coll b); [apply IHb; assumption|destruct Hy as [<-|[]]; exact Hx].
        - apply in_flat_map in Hy. destruct Hy as (c & Hc & Hy). cbn [o_empty] in Hx. rewrite forallb_forall in Hx.
          rewrite Forall_forall in IHc. apply (IHc c Hc (Hx c Hc) y Hy). }
      rewrite (G c E geom Hg) in He. discriminate. }
    eapply rcr_trans; [apply (child_rect_in_coll k cs c Hw Hc Hce)|exact H1].
Qed.

(* MAIN (object level): if A contains a non-empty B their rectangles intersect *)
Theorem o_contains_boxes (a : obj) : forall b, obj_wf a -> obj_wf b -> o_empty b = false ->
  o_contains a b = true -> rect_intersects_rect (o_rect a) (o_rect b) = true.
Proof.
  assert (Leaf : forall o go b, leaf_geom o = Some go -> obj_wf o -> obj_wf b -> o_empty b = false ->
                   o_within_g b go = true -> rect_intersects_rect (o_rect o) (o_rect b) = true).
  { intros o go b Hl Hwo Hwb He H. rewrite rir_sym, <- (leaf_g_rect o go Hl).
    apply (o_within_g_boxes b go Hwb (leaf_built2 o go Hl) (leaf_g_wf o go Hl Hwo) He H). }
  induction a as [p|p|r|ps|rs|a IH|k cs IH] using obj_ind'; intros b Hwa Hwb He H; cbn [o_contains] in H.
  - apply (Leaf (OPoint p) _ b eq_refl Hwa Hwb He H).
  - apply (Leaf (OSimple p) _ b eq_refl Hwa Hwb He H).
  - apply (Leaf (ORect r) _ b eq_refl Hwa Hwb He H).
  - apply (Leaf (OLine ps) _ b eq_refl Hwa Hwb He H).
  - apply (Leaf (OPoly rs) _ b eq_refl Hwa Hwb He H).
  - apply IH; assumption.
  - destruct (forallb o_empty cs); [discriminate|].
    destruct (nonempty_parts_c b) as [|p0 parts] eqn:Ep; [discriminate|].
    rewrite forallb_forall in H. specialize (H p0 (or_introl eq_refl)).
    apply existsb_exists in H. destruct H as (c & Hc & H). unfold visits in H.
    rewrite !andb_true_iff, negb_true_iff in H. destruct H as [[Ec Hr] _].
    assert (Hp : In p0 (for_each_part b) /\ o_empty p0 = false).
    { assert (I : In p0 (nonempty_parts_c b)) by (rewrite Ep; left; reflexivity).
      unfold nonempty_parts_c in I. apply filter_In in I. destruct I as [I1 I2]. apply negb_true_iff in I2. auto. }
    destruct Hp as [Hp Hpe]. destruct (part_c_rect_in_obj b p0 Hwb Hp Hpe) as [Hin _].
    apply (rir_mono _ (o_rect c) _ (o_rect p0)); [apply (child_rect_in_coll k cs c Hwa Hc Ec)|exact Hin|exact Hr].
Qed.

(* C10, unconditional: contains X iff X has a non-empty part and every non-empty part is contained by some child *)
Theorem coll_contains_iff (k : Z) (cs : list obj) (x : obj) : obj_wf (OColl k cs) -> obj_wf x ->
  (o_contains (OColl k cs) x = true <->
   o_empty (OColl k cs) = false /\ nonempty_parts_c x <> [] /\
   forall p, In p (nonempty_parts_c x) -> exists c, In c cs /\ o_empty c = false /\ o_contains c p = true).
Proof.
  intros Hw Hwx. rewrite coll_contains_spec. split.
  - intros (H1 & H2 & H3). split; [exact H1|]. split; [exact H2|]. intros p Hp.
    destruct (H3 p Hp) as (c & A & B & _ & D). exists c. auto.
  - intros (H1 & H2 & H3). split; [exact H1|]. split; [exact H2|]. intros p Hp.
    destruct (H3 p Hp) as (c & A & B & D). exists c. repeat split; try assumption.
    unfold nonempty_parts_c in Hp. apply filter_In in Hp. destruct Hp as [Hp Hpe]. apply negb_true_iff in Hpe.
    destruct (part_c_rect_in_obj x p Hwx Hp Hpe) as [_ Hwp].
    apply o_contains_boxes; try assumption.
    apply obj_wf_coll in Hw. rewrite Forall_forall in Hw. apply Hw. exact A.
Qed.

(* C10, unconditional: within a geometry X iff non-empty and every child is non-empty and within X *)
Theorem coll_within_iff (k : Z) (cs : list obj) (g : gshape) : obj_wf (OColl k cs) -> built2 g -> g_wf g ->
  (o_within_g (OColl k cs) g = true <->
   o_empty (OColl k cs) = false /\ forall c, In c cs -> o_empty c = false /\ o_within_g c g = true).
Proof.
  intros Hw Bg Wg. rewrite coll_within_spec. split.
  - intros [H1 H2]. split; [exact H1|]. intros c Hc. destruct (H2 c Hc) as (A & _ & C). auto.
  - intros [H1 H2]. split; [exact H1|]. intros c Hc. destruct (H2 c Hc) as [A C]. repeat split; try assumption.
    apply o_within_g_boxes; try assumption.
    apply obj_wf_coll in Hw. rewrite Forall_forall in Hw. apply Hw. exact Hc.
Qed.

Print Assumptions o_contains_boxes.
Print Assumptions coll_contains_iff.
Print Assumptions coll_within_iff.
