(* Obj.v — model of the GeoJSON object layer (point.go, simplepoint.go, rect.go,
   linestring.go, polygon.go, feature.go, collection.go, multi*.go,
   geometrycollection.go, featurecollection.go): eleven of the twelve kinds
   (Circle is modelled over the reals, Geo/), their attributes and the double
   dispatch of Contains / Within / Intersects through Spatial().  Collections
   carry their kind: 0 MultiPoint, 1 MultiLineString, 2 MultiPolygon,
   3 GeometryCollection, 4 FeatureCollection.  The child R-tree is not part of
   the model: Search is the linear scan, which the index must reproduce (C10).
   No proofs here. *)
From GJ Require Import Base Kernel KernelSpec Series SeriesSpec Ring RingSpec PairSpec Pairs.

Inductive obj :=
| OPoint (p : pt)
| OSimple (p : pt)
| ORect (r : rect)
| OLine (ps : list pt)
| OPoly (rs : list (list pt))          (* exterior :: holes; [] = NewPolygon(nil) *)
| OFeature (b : obj)
| OColl (k : Z) (cs : list obj).

Definition zrect : rect := (pt0, pt0).

(* the geometry base of a leaf *)
Definition leaf_geom (o : obj) : option gshape :=
  match o with
  | OPoint p | OSimple p => Some (GPoint p)
  | ORect r => Some (GRect r)
  | OLine ps => Some (GLine (RS (mk_line ps)))
  | OPoly rs => Some (GPoly (mk_poly rs))
  | _ => None
  end.

Definition g_rect (g : gshape) : rect :=
  match g with
  | GPoint p => (p, p)
  | GRect r => r
  | GLine l => ring_rect l
  | GPoly p => poly_rect p
  end.

(* unionRects (object.go:300-314) *)
Definition union_rects (a b : rect) : rect :=
  let '((amnx, amny), (amxx, amxy)) := a in
  let '((bmnx, bmny), (bmxx, bmxy)) := b in
  ((if bmnx <? amnx then bmnx else amnx, if bmny <? amny then bmny else amny),
   (if amxx <? bmxx then bmxx else amxx, if amxy <? bmxy then bmxy else amxy)).

(* parseInitRectIndex (collection.go:267-287) over (empty, rect) of the children:
   state = (count, prect) *)
Definition coll_rect_step (nchildren : nat) (st : nat * rect) (er : bool * rect) : nat * rect :=
  let '(count, prect) := st in
  let '(e, r) := er in
  if e then st
  else if (count =? 0)%nat then (S count, r)
  else if (nchildren =? 1)%nat then (S count, r)
  else (S count, union_rects prect r).

Definition coll_rect (ers : list (bool * rect)) : rect :=
  snd (fold_left (coll_rect_step (length ers)) ers (0%nat, zrect)).

Fixpoint o_empty (o : obj) : bool :=
  match o with
  | OPoint _ | OSimple _ | ORect _ => false
  | OLine ps => series_empty (mk_line ps)
  | OPoly rs => poly_empty (mk_poly rs)
  | OFeature b => o_empty b
  | OColl _ cs => forallb o_empty cs
  end.

Fixpoint o_rect (o : obj) : rect :=
  match o with
  | OPoint p | OSimple p => (p, p)
  | ORect r => r
  | OLine ps => series_rect (mk_line ps)
  | OPoly rs => poly_rect (mk_poly rs)
  | OFeature b => o_rect b
  | OColl _ cs => coll_rect (map (fun c => (o_empty c, o_rect c)) cs)
  end.

Definition rect_valid (l180 l90 : Z) (r : rect) : bool :=
  pt_valid l180 l90 (fst r) && pt_valid l180 l90 (snd r).

(* Valid(): every collection asks every child (collection.go after the repair of F11) *)
Fixpoint o_valid (l180 l90 : Z) (o : obj) : bool :=
  match o with
  | OPoint p | OSimple p => pt_valid l180 l90 p
  | ORect r => rect_valid l180 l90 r
  | OLine ps => forallb (pt_valid l180 l90) ps
  | OPoly rs => forallb (forallb (pt_valid l180 l90)) rs
  | OFeature b => o_valid l180 l90 b
  | OColl k cs => forallb (o_valid l180 l90) cs
  end.

(* pinned (pre-repair) collection.Valid of MultiPoint / GeometryCollection /
   FeatureCollection: the cached rectangle only (finding F11) *)
Definition o_valid_pinned_coll (l180 l90 : Z) (cs : list obj) : bool :=
  rect_valid l180 l90 (coll_rect (map (fun c => (o_empty c, o_rect c)) cs)).

(* twice the centre (exact on the grid): the position itself for points *)
Definition rect_center2 (r : rect) : pt := (px (snd r) + px (fst r), py (snd r) + py (fst r)).
Definition o_center2 (o : obj) : pt :=
  match o with
  | OPoint p | OSimple p => (2 * px p, 2 * py p)
  | _ => rect_center2 (o_rect o)
  end.

Fixpoint o_npoints (o : obj) : Z :=
  match o with
  | OPoint _ | OSimple _ => 1
  | ORect _ => 2
  | OLine ps => Z.of_nat (length ps)
  | OPoly rs => fold_right (fun r acc => Z.of_nat (length r) + acc) 0 rs
  | OFeature b => o_npoints b
  | OColl _ cs => fold_right (fun c acc => o_npoints c + acc) 0 cs
  end.

(* ForEach: leaves and features yield themselves, collections their children's parts *)
Fixpoint for_each (o : obj) : list obj :=
  match o with
  | OColl _ cs => flat_map for_each cs
  | _ => [o]
  end.

(* the condition under which collection.Search(q) visits child c (collection.go:37-58) *)
Definition visits (c_empty : bool) (c_rect q : rect) : bool :=
  negb c_empty && rect_intersects_rect c_rect q.

(* Geometry-level Contains with the fuel of Line.ContainsLine made invisible: the
   model's fuel is adequate (C05), and the harness reports separately whether any
   call ran out *)
Definition gcb (a b : gshape) : bool :=
  match g_contains a b with Some x => x | None => false end.

(* o.Spatial().WithinX(g): g contains o *)
Fixpoint o_within_g (o : obj) (g : gshape) : bool :=
  match o with
  | OPoint p | OSimple p => gcb g (GPoint p)
  | ORect r => gcb g (GRect r)
  | OLine ps => gcb g (GLine (RS (mk_line ps)))
  | OPoly rs => gcb g (GPoly (mk_poly rs))
  | OFeature b => o_within_g b g
  | OColl _ cs =>
      negb (forallb o_empty cs) &&
      forallb (fun c => visits (o_empty c) (o_rect c) (g_rect g) && o_within_g c g) cs
  end.

(* o.Spatial().IntersectsX(g) *)
Fixpoint o_intersects_g (o : obj) (g : gshape) : bool :=
  match o with
  | OPoint p | OSimple p => g_intersects (GPoint p) g
  | ORect r => g_intersects (GRect r) g
  | OLine ps => g_intersects (GLine (RS (mk_line ps))) g
  | OPoly rs => g_intersects (GPoly (mk_poly rs)) g
  | OFeature b => o_intersects_g b g
  | OColl _ cs => existsb (fun c => visits (o_empty c) (o_rect c) (g_rect g) && o_intersects_g c g) cs
  end.

Definition nonempty_parts (o : obj) : list obj := filter (fun g => negb (o_empty g)) (for_each o).

(* forEachPart (collection.go, after the repair of F8): like ForEach, but a Feature
   of a collection is looked through *)
Fixpoint ends_in_coll (o : obj) : bool :=
  match o with OFeature b => ends_in_coll b | OColl _ _ => true | _ => false end.
Fixpoint for_each_part (o : obj) : list obj :=
  match o with
  | OColl _ cs => flat_map for_each_part cs
  | OFeature b => if ends_in_coll b then for_each_part b else [o]
  | _ => [o]
  end.
Definition nonempty_parts_c (o : obj) : list obj := filter (fun g => negb (o_empty g)) (for_each_part o).

(* a.Contains(b) *)
Fixpoint o_contains (a b : obj) : bool :=
  match a with
  | OPoint p | OSimple p => o_within_g b (GPoint p)
  | ORect r => o_within_g b (GRect r)
  | OLine ps => o_within_g b (GLine (RS (mk_line ps)))
  | OPoly rs => o_within_g b (GPoly (mk_poly rs))
  | OFeature base => o_contains base b
  | OColl _ cs =>
      if forallb o_empty cs then false
      else
        match nonempty_parts_c b with
        | [] => false
        | parts =>
            forallb (fun geom =>
                       existsb (fun c => visits (o_empty c) (o_rect c) (o_rect geom) && o_contains c geom) cs)
                    parts
        end
  end.

(* a.Intersects(b) *)
Fixpoint o_intersects (a b : obj) : bool :=
  match a with
  | OPoint p | OSimple p => o_intersects_g b (GPoint p)
  | ORect r => o_intersects_g b (GRect r)
  | OLine ps => o_intersects_g b (GLine (RS (mk_line ps)))
  | OPoly rs => o_intersects_g b (GPoly (mk_poly rs))
  | OFeature base => o_intersects base b
  | OColl _ cs =>
      existsb (fun geom =>
                 existsb (fun c => visits (o_empty c) (o_rect c) (o_rect geom) && o_intersects c geom) cs)
              (nonempty_parts b)
  end.

(* a.Within(b) = b.Contains(a) for every kind (…/Within methods) *)
Definition o_within (a b : obj) : bool := o_contains b a.

(* Collection.Search(q): the children reported, in document order; a consumer
   that stops after k callbacks sees the first k *)
Definition o_search (cs : list obj) (q : rect) : list nat :=
  map snd (filter (fun ci => visits (o_empty (fst ci)) (o_rect (fst ci)) q)
                  (combine cs (seq 0 (length cs)))).

(* did any geometry-level ContainsLine reachable from the pair run out of fuel? *)
Fixpoint leaves (o : obj) : list gshape :=
  match o with
  | OFeature b => leaves b
  | OColl _ cs => flat_map leaves cs
  | _ => match leaf_geom o with Some g => [g] | None => [] end
  end.
Definition fuel_ok (a b : obj) : bool :=
  forallb (fun x => forallb (fun y =>
     match g_contains x y, g_contains y x with Some _, Some _ => true | _, _ => false end) (leaves b)) (leaves a).
