(* ObjSym.v — property C09: A.Intersects(B) = B.Intersects(A) at the OBJECT
   level, for all trees of the eleven modelled kinds (Point, SimplePoint, Rect,
   LineString, Polygon, Feature, the five collections, nested), with
   well-formed rectangles; excluded: a polygon with holes on one side facing a
   polygon with holes on the other (JordanRect.g_intersects_sym).
   Both answers are shown to be "some leaf of B, as receiver, intersects some
   leaf of A" (flattening through Features, collections and the rectangle
   pre-filter of Search), and the leaf level is symmetric. *)
From Coq Require Import ZArith Bool List Lia.
From GJ Require Import Base Kernel KernelSpec Series SeriesSpec Ring RingSpec PairSpec Pairs PairProofs
  KernelProofs PipProofs Obj ObjSpec ObjProofs BoxLaws ContainsBoxes JordanRing JordanRect.
Import ListNotations.
Open Scope Z_scope.

(* emptiness of a shape, as the objects see it *)
Definition s_empty (s : shape) : bool :=
  match s with
  | SPoint _ | SRect _ => false
  | SLine ps => (length ps <? 2)%nat
  | SPoly e _ => (length e <? 3)%nat
  end.

Lemma line_ring_empty ps : ring_empty (RS (mk_line ps)) = (length ps <? 2)%nat.
Proof. unfold ring_empty. rewrite RS_empty. unfold series_empty, npoints, mk_line. cbn [closed pts andb orb]. reflexivity. Qed.

Lemma poly_ring_empty e : ring_empty (mk_ring e) = (length e <? 3)%nat.
Proof. unfold ring_empty, mk_ring. rewrite RS_empty. apply closed_series_empty. Qed.

Lemma empty_line_no_point ps p : (length ps <? 2)%nat = true -> line_contains_point_r (RS (mk_line ps)) p = false.
Proof.
  intros E. apply Nat.ltb_lt in E. change (RS (mk_line ps)) with (Lr ps). rewrite line_intersects_point_spec.
  destruct ps as [|x [|y l]]; cbn in *; try reflexivity; lia.
Qed.

Lemma empty_poly_no_point e hs p : (length e <? 3)%nat = true -> poly_contains_point (mk_poly (e :: hs)) p = false.
Proof.
  intros E. apply Nat.ltb_lt in E. unfold poly_contains_point, mk_poly. cbn [exterior]. unfold mk_ring.
  rewrite ring_contains_point_spec, (ring_edges_short e E). reflexivity.
Qed.

(* an empty receiver or argument never intersects *)
Lemma g_intersects_empty_l (s t : shape) : s_empty s = true -> g_intersects (g_of_shape s) (g_of_shape t) = false.
Proof.
  destruct s as [p|r|ps|e hs]; cbn [s_empty]; try discriminate; intros E.
  - destruct t as [q|r|qs|e hs]; cbn [g_of_shape g_intersects].
    + apply empty_line_no_point. exact E.
    + unfold line_intersects_rect, ring_intersects_line. rewrite line_ring_empty, E, orb_true_r. reflexivity.
    + unfold line_intersects_line. rewrite line_ring_empty, E. reflexivity.
    + unfold line_intersects_poly, poly_intersects_line, ring_intersects_line. rewrite line_ring_empty, E, orb_true_r. reflexivity.
  - destruct t as [q|r|qs|e' hs']; cbn [g_of_shape g_intersects].
    + apply empty_poly_no_point. exact E.
    + unfold poly_intersects_rect, poly_intersects_poly, rect_poly. cbn [exterior mk_poly].
      unfold ring_intersects_ring. rewrite poly_ring_empty, E, orb_true_r. reflexivity.
    + unfold poly_intersects_line, ring_intersects_line. cbn [exterior mk_poly]. rewrite poly_ring_empty, E. reflexivity.
    + unfold poly_intersects_poly, ring_intersects_ring. cbn [exterior mk_poly]. rewrite (poly_ring_empty e), E, orb_true_r. reflexivity.
Qed.

Lemma g_intersects_empty_r (s t : shape) : s_empty t = true -> g_intersects (g_of_shape s) (g_of_shape t) = false.
Proof.
  destruct t as [p|r|ps|e hs]; cbn [s_empty]; try discriminate; intros E.
  - destruct s as [q|r|qs|e hs]; cbn [g_of_shape g_intersects].
    + unfold point_intersects_line. apply empty_line_no_point. exact E.
    + unfold rect_intersects_line, ring_intersects_line. rewrite line_ring_empty, E, orb_true_r. reflexivity.
    + unfold line_intersects_line. rewrite (line_ring_empty ps), E, orb_true_r. reflexivity.
    + unfold poly_intersects_line, ring_intersects_line. rewrite line_ring_empty, E, orb_true_r. reflexivity.
  - destruct s as [q|r|qs|e' hs']; cbn [g_of_shape g_intersects].
    + unfold point_intersects_poly. apply empty_poly_no_point. exact E.
    + unfold rect_intersects_poly, poly_intersects_rect, poly_intersects_poly, rect_poly. cbn [exterior mk_poly].
      unfold ring_intersects_ring. rewrite poly_ring_empty, E, orb_true_r. reflexivity.
    + unfold line_intersects_poly, poly_intersects_line, ring_intersects_line. cbn [exterior mk_poly]. rewrite poly_ring_empty, E. reflexivity.
    + unfold poly_intersects_poly, ring_intersects_ring. cbn [exterior mk_poly]. rewrite (poly_ring_empty e), E. reflexivity.
Qed.

(* ------------------------------------------------------------------ *)
(* the leaves of an object tree, as shapes                              *)

Definition poly_shape (rs : list (list pt)) : shape :=
  match rs with [] => SPoly [] [] | e :: hs => SPoly e hs end.

Fixpoint sleaves (o : obj) : list shape :=
  match o with
  | OPoint p | OSimple p => [SPoint p]
  | ORect r => [SRect r]
  | OLine ps => [SLine ps]
  | OPoly rs => [poly_shape rs]
  | OFeature b => sleaves b
  | OColl _ cs => flat_map sleaves cs
  end.

Lemma poly_shape_geom rs : g_of_shape (poly_shape rs) = GPoly (mk_poly rs).
Proof. destruct rs as [|e hs]; reflexivity. Qed.

Lemma g_of_shape_built t : built (g_of_shape t).
Proof. destruct t; cbn [g_of_shape]; constructor. Qed.

Lemma flat_map_flat_map {A B C} (f : B -> list C) (g : A -> list B) (l : list A) :
  flat_map f (flat_map g l) = flat_map (fun x => flat_map f (g x)) l.
Proof. induction l as [|x l IH]; [reflexivity|]. cbn [flat_map]. rewrite flat_map_app, IH. reflexivity. Qed.

Lemma flat_map_ext_in' {A B} (f g : A -> list B) (l : list A) :
  (forall x, In x l -> f x = g x) -> flat_map f l = flat_map g l.
Proof.
  induction l as [|x l IH]; intros H; [reflexivity|]. cbn [flat_map]. rewrite (H x (or_introl eq_refl)), IH; [reflexivity|].
  intros y Hy. apply H. right. exact Hy.
Qed.

Lemma sleaves_for_each (b : obj) : sleaves b = flat_map sleaves (for_each b).
Proof.
  induction b as [p|p|r|ps|rs|b IH|k cs IH] using obj_ind'; cbn [for_each flat_map sleaves]; try (rewrite app_nil_r; reflexivity).
  rewrite flat_map_flat_map. apply flat_map_ext_in'. intros c Hc. rewrite Forall_forall in IH. apply IH. exact Hc.
Qed.

Lemma sleaves_nonempty (c : obj) : forall y, In y (sleaves c) -> s_empty y = false -> o_empty c = false.
Proof.
  induction c as [p|p|r|ps|rs|b IH|k cs IH] using obj_ind'; intros y Hy Hne; cbn [sleaves o_empty] in *; try reflexivity.
  - destruct Hy as [<-|[]]. cbn [s_empty] in Hne. rewrite line_empty_eq. exact Hne.
  - destruct Hy as [<-|[]]. destruct rs as [|e hs]; cbn [poly_shape s_empty] in Hne; [discriminate Hne|].
    unfold poly_empty, mk_poly. cbn [exterior]. rewrite poly_ring_empty. exact Hne.
  - apply (IH y Hy Hne).
  - apply in_flat_map in Hy. destruct Hy as (c & Hc & Hy). rewrite Forall_forall in IH.
    apply not_true_iff_false. intros Hall. rewrite forallb_forall in Hall.
    specialize (Hall c Hc). rewrite (IH c Hc y Hy Hne) in Hall. discriminate Hall.
Qed.

Lemma intersecting_nonempty (s t : shape) :
  g_intersects (g_of_shape s) (g_of_shape t) = true -> s_empty s = false /\ s_empty t = false.
Proof.
  intros H. split.
  - destruct (s_empty s) eqn:E; [|reflexivity]. rewrite (g_intersects_empty_l s t E) in H. discriminate H.
  - destruct (s_empty t) eqn:E; [|reflexivity]. rewrite (g_intersects_empty_r s t E) in H. discriminate H.
Qed.

(* ------------------------------------------------------------------ *)
(* flattening                                                           *)

(* Spatial().IntersectsX(g) of a tree = some leaf, as receiver, intersects g *)
Lemma o_intersects_g_flat (b : obj) : forall t, obj_wf b ->
  (o_intersects_g b (g_of_shape t) = true <->
   exists y, In y (sleaves b) /\ g_intersects (g_of_shape y) (g_of_shape t) = true).
Proof.
  induction b as [p|p|r|ps|rs|b IH|k cs IH] using obj_ind'; intros t Hw; cbn [o_intersects_g sleaves].
  - split; [intros H; exists (SPoint p); split; [left; reflexivity|exact H]|intros (y & [<-|[]] & H); exact H].
  - split; [intros H; exists (SPoint p); split; [left; reflexivity|exact H]|intros (y & [<-|[]] & H); exact H].
  - split; [intros H; exists (SRect r); split; [left; reflexivity|exact H]|intros (y & [<-|[]] & H); exact H].
  - split; [intros H; exists (SLine ps); split; [left; reflexivity|exact H]|intros (y & [<-|[]] & H); exact H].
  - rewrite <- poly_shape_geom.
    split; [intros H; exists (poly_shape rs); split; [left; reflexivity|exact H]|intros (y & [<-|[]] & H); exact H].
  - apply IH. exact Hw.
  - rewrite Forall_forall in IH. pose proof (proj1 (obj_wf_coll k cs) Hw) as Hwc. rewrite Forall_forall in Hwc. split.
    + intros H. apply existsb_exists in H. destruct H as (c & Hc & H). apply andb_true_iff in H. destruct H as [_ H].
      apply (IH c Hc t (Hwc c Hc)) in H. destruct H as (y & Hy & H). exists y. split; [|exact H].
      apply in_flat_map. exists c. split; assumption.
    + intros (y & Hy & H). apply in_flat_map in Hy. destruct Hy as (c & Hc & Hy).
      assert (Hi : o_intersects_g c (g_of_shape t) = true) by (apply (IH c Hc t (Hwc c Hc)); exists y; split; assumption).
      apply existsb_exists. exists c. split; [exact Hc|]. apply andb_true_iff. split; [|exact Hi].
      unfold visits. apply andb_true_iff. split.
      * apply negb_true_iff. apply (sleaves_nonempty c y Hy). apply (intersecting_nonempty y t H).
      * apply (o_intersects_g_boxes c _ (Hwc c Hc) (g_of_shape_built t) Hi).
Qed.

(* A.Intersects(B) = some leaf of B, as receiver, intersects some leaf of A *)
Lemma o_intersects_flat (a : obj) : forall b, obj_wf a -> obj_wf b ->
  (o_intersects a b = true <->
   exists x y, In x (sleaves a) /\ In y (sleaves b) /\ g_intersects (g_of_shape y) (g_of_shape x) = true).
Proof.
  induction a as [p|p|r|ps|rs|a IH|k cs IH] using obj_ind'; intros b Hwa Hwb.
  - cbn [o_intersects sleaves]. change (GPoint p) with (g_of_shape (SPoint p)). rewrite (o_intersects_g_flat b _ Hwb).
    split; [intros (y & Hy & H); exists (SPoint p), y; split; [left; reflexivity|split; assumption]|intros (x & y & [<-|[]] & Hy & H); exists y; split; assumption].
  - cbn [o_intersects sleaves]. change (GPoint p) with (g_of_shape (SPoint p)). rewrite (o_intersects_g_flat b _ Hwb).
    split; [intros (y & Hy & H); exists (SPoint p), y; split; [left; reflexivity|split; assumption]|intros (x & y & [<-|[]] & Hy & H); exists y; split; assumption].
  - cbn [o_intersects sleaves]. change (GRect r) with (g_of_shape (SRect r)). rewrite (o_intersects_g_flat b _ Hwb).
    split; [intros (y & Hy & H); exists (SRect r), y; split; [left; reflexivity|split; assumption]|intros (x & y & [<-|[]] & Hy & H); exists y; split; assumption].
  - cbn [o_intersects sleaves]. change (GLine (RS (mk_line ps))) with (g_of_shape (SLine ps)). rewrite (o_intersects_g_flat b _ Hwb).
    split; [intros (y & Hy & H); exists (SLine ps), y; split; [left; reflexivity|split; assumption]|intros (x & y & [<-|[]] & Hy & H); exists y; split; assumption].
  - cbn [o_intersects sleaves]. rewrite <- poly_shape_geom. rewrite (o_intersects_g_flat b _ Hwb).
    split; [intros (y & Hy & H); exists (poly_shape rs), y; split; [left; reflexivity|split; assumption]|intros (x & y & [<-|[]] & Hy & H); exists y; split; assumption].
  - rewrite feature_receiver_intersects. cbn [sleaves]. apply IH; assumption.
  - rewrite (coll_intersects_iff k cs b Hwa Hwb). cbn [sleaves].
    rewrite Forall_forall in IH. pose proof (proj1 (obj_wf_coll k cs) Hwa) as Hwc. rewrite Forall_forall in Hwc. split.
    + intros (c & p & Hc & Hp & _ & _ & H). apply (IH c Hc p (Hwc c Hc) (for_each_wf b Hwb p Hp)) in H.
      destruct H as (x & y & Hx & Hy & H). exists x, y. split; [apply in_flat_map; exists c; split; assumption|].
      split; [|exact H]. rewrite sleaves_for_each. apply in_flat_map. exists p. split; assumption.
    + intros (x & y & Hx & Hy & H). apply in_flat_map in Hx. destruct Hx as (c & Hc & Hx).
      rewrite sleaves_for_each in Hy. apply in_flat_map in Hy. destruct Hy as (p & Hp & Hy).
      destruct (intersecting_nonempty y x H) as [Ny Nx].
      exists c, p. split; [exact Hc|]. split; [exact Hp|].
      split; [apply (sleaves_nonempty c x Hx Nx)|]. split; [apply (sleaves_nonempty p y Hy Ny)|].
      apply (IH c Hc p (Hwc c Hc) (for_each_wf b Hwb p Hp)). exists x, y. split; [exact Hx|]. split; [exact Hy|exact H].
Qed.

Lemma no_hole_pair_sym x y : no_hole_pair x y -> no_hole_pair y x.
Proof. destruct x, y; cbn [no_hole_pair]; tauto. Qed.

(* MAIN: Intersects does not depend on which operand is the receiver *)
Theorem o_intersects_sym (a b : obj) : obj_wf a -> obj_wf b ->
  (forall x y, In x (sleaves a) -> In y (sleaves b) -> no_hole_pair x y) ->
  o_intersects a b = o_intersects b a.
Proof.
  intros Hwa Hwb Hnh. apply bool_eq_iff. rewrite (o_intersects_flat a b Hwa Hwb), (o_intersects_flat b a Hwb Hwa). split.
  - intros (x & y & Hx & Hy & H). exists y, x. split; [exact Hy|]. split; [exact Hx|].
    rewrite <- H. apply g_intersects_sym. apply (Hnh x y Hx Hy).
  - intros (y & x & Hy & Hx & H). exists x, y. split; [exact Hx|]. split; [exact Hy|].
    rewrite <- H. apply g_intersects_sym. apply no_hole_pair_sym. apply (Hnh x y Hx Hy).
Qed.

Print Assumptions o_intersects_sym.
