(* ObjSelf2.v — property C09: "a non-empty valid object contains itself", at the Geometry interface
   for Point, Rect and Line, and for polygons whose exterior ring is flagged convex ... *)
From Coq Require Import ZArith Bool List Lia.
From GJ Require Import Base Kernel KernelSpec Series SeriesSpec Ring RingSpec PairSpec Pairs PairProofs
  KernelProofs IntersectsProofs RaycastProofs SeriesProofs PipProofs LineProofs Obj ObjSpec ObjProofs BoxLaws ContainsBoxes CoversBoxes
  Jordan JordanQ JordanRing JordanRect ObjSym ObjSelf ObjLaws ObjLaws2.
Import ListNotations.
Open Scope Z_scope.

Definition cstep (a b cur : pt) (acc0 : pt * Z) (si : seg * nat) : pt * Z :=
  let s := fst si in
  if collinear_point s a && collinear_point s b && raycast_on s cur then
    let acc1 := let d := dotp a b (fst s) in if snd acc0 <? d then (fst s, d) else acc0 in
    let d := dotp a b (snd s) in if snd acc1 <? d then (snd s, d) else acc1
  else acc0.

Lemma covers_step_fold l a b cur curd :
  covers_step l (a, b) cur curd = fold_left (cstep a b cur) (ring_search l (cur, cur)) (cur, curd).
Proof. reflexivity. Qed.

Lemma cstep_mono a b cur acc si : snd acc <= snd (cstep a b cur acc si).
Proof.
  unfold cstep. destruct (collinear_point (fst si) a && collinear_point (fst si) b && raycast_on (fst si) cur); [|lia].
  cbv zeta. destruct (Z.ltb_spec (snd acc) (dotp a b (fst (fst si)))); cbn [snd];
  match goal with |- context [if ?c then _ else _] => destruct c eqn:E end; cbn [snd]; try lia;
  apply Z.ltb_lt in E; cbn [snd] in E; lia.
Qed.

Lemma cfold_mono a b cur cands : forall acc, snd acc <= snd (fold_left (cstep a b cur) cands acc).
Proof.
  induction cands as [|si cands IH]; intros acc; cbn [fold_left]; [lia|].
  pose proof (cstep_mono a b cur acc si). pose proof (IH (cstep a b cur acc si)). lia.
Qed.

Lemma cstep_reach a b cur acc si :
  collinear_point (fst si) a && collinear_point (fst si) b && raycast_on (fst si) cur = true ->
  dotp a b (snd (fst si)) <= snd (cstep a b cur acc si).
Proof.
  intros G. unfold cstep. rewrite G. cbv zeta.
  destruct (Z.ltb_spec (snd acc) (dotp a b (fst (fst si)))); cbn [snd];
  match goal with |- context [if ?c then _ else _] => destruct c eqn:E end; cbn [snd]; try lia;
  apply Z.ltb_ge in E; cbn [snd] in E; lia.
Qed.

Lemma cfold_reach a b cur si cands : In si cands ->
  collinear_point (fst si) a && collinear_point (fst si) b && raycast_on (fst si) cur = true ->
  forall acc, dotp a b (snd (fst si)) <= snd (fold_left (cstep a b cur) cands acc).
Proof.
  induction cands as [|x cands IH]; [intros []|]. intros [->|Hin] G acc; cbn [fold_left].
  - pose proof (cstep_reach a b cur acc si G). pose proof (cfold_mono a b cur cands (cstep a b cur acc si)). lia.
  - apply IH; assumption.
Qed.

Lemma in_indexed {A} (l : list A) (x : A) : In x l -> exists i, In (x, i) (indexed l).
Proof.
  unfold indexed. generalize 0%nat. induction l as [|y l IH]; intros n; [intros []|].
  intros [->|Hin]; cbn [length seq combine].
  - exists n. left. reflexivity.
  - destruct (IH (S n) Hin) as (i & Hi). exists i. right. exact Hi.
Qed.

Lemma collinear_self_l a b : collinear_point (a, b) a = true.
Proof. unfold collinear_point. apply Z.eqb_eq. lia. Qed.
Lemma collinear_self_r a b : collinear_point (a, b) b = true.
Proof. unfold collinear_point. apply Z.eqb_eq. lia. Qed.

Lemma search_self (l : rng) (a b : pt) : In (a, b) (ring_segments l) -> exists i, In ((a, b), i) (ring_search l (a, a)).
Proof.
  intros Hin. destruct (in_indexed _ _ Hin) as (i & Hi). exists i. unfold ring_search. apply filter_In. split; [exact Hi|].
  cbn [fst]. apply (two_points_meet _ _ a); [apply (seg_rect_has_fst (a, b))|].
  destruct a as [x y]. unfold rect_contains_point. cbn [fst snd]. rewrite !Z.leb_refl. reflexivity.
Qed.

(* a line covers each of its own segments in one pass *)
Lemma line_covers_own_segment (l : rng) (sg : seg) : In sg (ring_segments l) -> line_covers_segment l sg = Some true.
Proof.
  destruct sg as [a b]. intros Hin. destruct (search_self l a b Hin) as (i & Hi).
  assert (Ron : raycast_on (a, b) a = true) by (apply raycast_on_iff; apply on_seg_left).
  unfold line_covers_segment. cbn [fst snd]. destruct (pt_eqb a b) eqn:E.
  - f_equal. unfold line_contains_point_r. apply existsb_exists. exists ((a, b), i). split; [exact Hi|exact Ron].
  - unfold covers_fuel. replace (2 * length (ring_segments l) + 2)%nat with (S (2 * length (ring_segments l) + 1)) by lia.
    cbn [covers_walk]. rewrite covers_step_fold.
    assert (G : collinear_point (fst ((a, b), i)) a && collinear_point (fst ((a, b), i)) b && raycast_on (fst ((a, b), i)) a = true).
    { cbn [fst]. rewrite collinear_self_l, collinear_self_r, Ron. reflexivity. }
    pose proof (cfold_reach a b a ((a, b), i) _ Hi G (a, 0)) as R. cbn [fst snd] in R.
    destruct (fold_left (cstep a b a) (ring_search l (a, a)) (a, 0)) as [best bestd]. cbn [snd] in R. cbn [fst snd].
    destruct (Z.leb_spec (dotp a b b) bestd); [reflexivity|lia].
Qed.

Lemma all_some_all_true (xs : list (option bool)) : (forall x, In x xs -> x = Some true) -> all_some xs = Some true.
Proof.
  induction xs as [|x xs IH]; intros H; cbn [all_some]; [reflexivity|].
  rewrite (H x (or_introl eq_refl)). apply IH. intros y Hy. apply H. right. exact Hy.
Qed.

Theorem line_contains_self (l : rng) : ring_empty l = false -> line_contains_line l l = Some true.
Proof.
  intros He. unfold line_contains_line. rewrite He. cbn [orb]. apply all_some_all_true.
  intros x Hx. apply in_map_iff in Hx. destruct Hx as (sg & <- & Hsg). apply line_covers_own_segment. exact Hsg.
Qed.

(* ---- a ring contains itself ---- *)

(* the point search on a boundary point reports a segment that carries the point *)
Lemma pip_fold_on (allow : bool) (p : pt) (l : list (seg * nat)) : forall inn,
  existsb (fun si => on_segb (fst si) p) l = true ->
  exists s i, In (s, i) l /\ on_segb s p = true /\ pip_fold allow p l inn = (allow, Z.of_nat i).
Proof.
  induction l as [|[sg i] l IH]; intros inn H; [discriminate|]. cbn [pip_fold existsb fst] in *.
  rewrite raycast_eq_spec. destruct (on_segb sg p) eqn:E; cbn [orb] in H.
  - exists sg, i. split; [left; reflexivity|]. split; [exact E|reflexivity].
  - destruct (IH (if crossesb sg p && true then negb inn else inn) H) as (s & j & Hin & Hon & Hp).
    exists s, j. split; [right; exact Hin|]. split; [exact Hon|]. rewrite andb_true_r in Hp. rewrite andb_true_r. exact Hp.
Qed.

Lemma indexed_nth_gen {A} (l : list A) (x d : A) : forall n i,
  In (x, i) (combine l (seq n (length l))) -> (n <= i)%nat /\ nth (i - n) l d = x.
Proof.
  induction l as [|y l IH]; intros n i H; [destruct H|]. cbn [length seq combine] in H. destruct H as [H|H].
  - inversion H; subst. split; [lia|]. rewrite Nat.sub_diag. reflexivity.
  - destruct (IH (S n) i H) as [Hle Hn]. split; [lia|]. replace (i - n)%nat with (S (i - S n)) by lia. exact Hn.
Qed.

Lemma indexed_nth {A} (l : list A) (x d : A) (i : nat) : In (x, i) (indexed l) -> nth i l d = x.
Proof. intros H. destruct (indexed_nth_gen l x d 0 i H) as [_ Hn]. rewrite Nat.sub_0_r in Hn. exact Hn. Qed.

Lemma rcp_on_boundary (r : rng) (p : pt) (allow : bool) :
  rect_contains_point (ring_rect r) p = true -> on_boundaryb (ring_segments r) p = true ->
  exists i s, In s (ring_segments r) /\ nth_seg r (Z.of_nat i) = s /\ on_segb s p = true /\
              ring_contains_point r p allow = (allow, Z.of_nat i).
Proof.
  intros Hr Hb. unfold ring_contains_point. rewrite Hr. cbn [negb].
  destruct (strip_search_sound r p) as [E _]. rewrite Hb in E.
  destruct (pip_fold_on allow p _ false E) as (s & i & Hin & Hon & Hp).
  unfold strip_search in Hin. apply filter_In in Hin. destruct Hin as [Hin _].
  exists i, s. split; [apply (in_combine_l _ _ _ _ Hin)|]. split; [|split; [exact Hon|exact Hp]].
  unfold nth_seg. rewrite Nat2Z.id. apply (indexed_nth _ s _ i Hin).
Qed.

(* no vertex of the ring lies in the interior of an edge *)
Definition simple_vertices (e : list pt) : Prop :=
  forall v s, In v e -> In s (ring_edges e) -> on_seg s v -> v = fst s \/ v = snd s.

Lemma edge_end_in_rect (e : list pt) (v : pt) : (3 <= length e)%nat -> In v e ->
  rect_contains_point (ring_rect (Rg e)) v = true.
Proof.
  intros H3 Hv. apply (rcp_hit_in_rect (Rg e) v true). unfold Rg. rewrite rcp_hit_in_ringb. apply vertex_on_boundary; assumption.
Qed.

Lemma vertex_on_boundaryb (e : list pt) (v : pt) : (3 <= length e)%nat -> In v e -> on_boundaryb (ring_segments (Rg e)) v = true.
Proof.
  intros H3 Hv. pose proof (vertex_on_boundary e v H3 Hv) as H. unfold in_ringb in H.
  unfold ring_segments, Rg. rewrite RS_segs. fold (ring_edges e).
  destruct (on_boundaryb (ring_edges e) v) eqn:E; [reflexivity|]. cbn [orb] in H.
  (* a vertex is on an incident edge, so the boundary test cannot fail *)
  exfalso. destruct (ring_edges_closed_path' e H3) as (l & Hl & Hsub & _).
  destruct (ring_edges_closed_path e H3) as (qs & Hqs & _ & Hq3).
  assert (L2 : (2 <= length l)%nat).
  { destruct l as [|a [|b r]]; cbn [length]; try lia.
    - exfalso. exact (Hsub v Hv).
    - exfalso. rewrite Hqs in Hl. destruct qs as [|x [|y [|z t]]]; cbn in Hq3; try lia; discriminate. }
  destruct (line_point_is_end l v L2 (Hsub v Hv)) as (sg & Hsg & Hend).
  assert (T : on_boundaryb (ring_edges e) v = true).
  { apply on_boundaryb_iff. exists sg. rewrite Hl. split; [exact Hsg|].
    destruct sg as [a b]. cbn [fst snd] in Hend. destruct Hend as [->| ->]; [apply on_seg_left|apply on_seg_right]. }
  congruence.
Qed.

(* ringContainsSegment accepts every edge of a ring whose vertices are not interior to edges *)
Lemma rcs_own_edge (e : list pt) (a b : pt) : simple_vertices e -> In (a, b) (ring_edges e) -> rcs (Rg e) (a, b) true = true.
Proof.
  intros Hs Hin.
  assert (H3 : (3 <= length e)%nat).
  { destruct (Nat.ltb_spec (length e) 3) as [L|L]; [|exact L]. rewrite (ring_edges_short e L) in Hin. destruct Hin. }
  destruct (ring_edges_endpoints e a b Hin) as [Ia Ib].
  pose proof (edge_end_in_rect e a H3 Ia) as Ra. pose proof (edge_end_in_rect e b H3 Ib) as Rb.
  destruct (rcp_on_boundary (Rg e) a true Ra (vertex_on_boundaryb e a H3 Ia)) as (ia & sa & Sa & Na & Oa & Pa).
  destruct (rcp_on_boundary (Rg e) b true Rb (vertex_on_boundaryb e b H3 Ib)) as (ib & sb & Sb & Nb & Ob & Pb).
  assert (Es : ring_segments (Rg e) = ring_edges e) by (unfold ring_segments, Rg; rewrite RS_segs; reflexivity).
  rewrite Es in Sa, Sb. apply on_segb_iff in Oa. apply on_segb_iff in Ob.
  unfold rcs, ring_contains_segment. rewrite Ra, Rb, Pa, Pb. cbn [negb orb fst snd].
  destruct (pt_eqb b a); [reflexivity|].
  destruct (ring_convex (Rg e)); [reflexivity|].
  assert (NA : (Z.of_nat ia =? -1) = false) by (apply Z.eqb_neq; lia).
  assert (NB : (Z.of_nat ib =? -1) = false) by (apply Z.eqb_neq; lia).
  rewrite NA, NB. cbn [negb].
  destruct (Z.of_nat ib =? Z.of_nat ia); [reflexivity|].
  rewrite Na, Nb.
  destruct (Hs a sa Ia Sa Oa) as [Ea|Ea].
  - assert (T : pt_eqb (fst sa) a = true) by (apply pt_eqb_eq; congruence). rewrite T. reflexivity.
  - assert (T : pt_eqb (snd sa) a = true) by (apply pt_eqb_eq; congruence). rewrite T, !orb_true_r. reflexivity.
Qed.

Theorem ring_contains_self (e : list pt) : (3 <= length e)%nat -> simple_vertices e ->
  ring_contains_ring (Rg e) (Rg e) true = true.
Proof.
  intros H3 Hs.
  assert (Ne : ring_empty (Rg e) = false) by (unfold ring_empty, Rg; rewrite RS_empty, closed_series_empty; apply Nat.ltb_ge; exact H3).
  assert (Core : rcr_core (Rg e) (Rg e) true = true).
  { unfold rcr_core. rewrite Ne. cbn [orb]. rewrite (rcr_refl_wf _ (Rg_rect_wf e H3)). cbn [negb].
    destruct (ring_convex (Rg e)); apply forallb_forall.
    - intros v Hv. unfold ring_points, Rg in Hv. rewrite RS_pts in Hv. cbn [pts] in Hv.
      unfold Rg. rewrite rcp_hit_in_ringb. apply vertex_on_boundary; assumption.
    - intros [a b] Hsg. unfold ring_segments, Rg in Hsg. rewrite RS_segs in Hsg. apply rcs_own_edge; assumption. }
  unfold ring_contains_ring. rewrite Ne. cbn [orb].
  destruct ((complexRingMinPoints <=? ring_npoints (Rg e))%nat && rcr_core (Rg e) (RR (ring_rect (Rg e))) true); [reflexivity|exact Core].
Qed.

Lemma ring_intersects_ring_empty_l (r o : rng) allow : ring_empty r = true -> ring_intersects_ring r o allow = false.
Proof. unfold ring_intersects_ring. intros ->. reflexivity. Qed.

(* a polygon contains itself: exterior of three points or more; no vertex of a ring interior to an
   edge of the same ring; holes allowed (each hole is covered by itself) *)
Theorem poly_contains_self (e : list pt) (hs : list (list pt)) : (3 <= length e)%nat -> simple_vertices e ->
  (forall h, In h hs -> simple_vertices h) -> poly_contains_poly (Pg e hs) (Pg e hs) = true.
Proof.
  intros H3 Hs Hh. unfold poly_contains_poly. cbn [exterior holes Pg].
  rewrite (ring_contains_self e H3 Hs). cbn [negb]. apply forallb_forall. intros ph Hph.
  apply in_map_iff in Hph. destruct Hph as (h & <- & Hin).
  destruct (Nat.ltb_spec (length h) 3) as [L|L].
  - rewrite ring_intersects_ring_empty_l; [reflexivity|]. unfold ring_empty, Rg. rewrite RS_empty, closed_series_empty.
    apply Nat.ltb_lt. exact L.
  - destruct (ring_intersects_ring (Rg h) (Rg e) false); [|reflexivity].
    apply existsb_exists. exists (Rg h). split; [apply in_map; exact Hin|]. apply ring_contains_self; [exact L|apply Hh; exact Hin].
Qed.

Definition self_ok (s : shape) : Prop :=
  match s with
  | SRect r => rect_wf r
  | SPoly e hs => simple_vertices e /\ forall h, In h hs -> simple_vertices h
  | _ => True
  end.

(* MAIN (Geometry interface): a non-empty shape contains itself *)
Theorem g_contains_self (s : shape) : self_ok s -> s_empty s = false ->
  g_contains (g_of_shape s) (g_of_shape s) = Some true.
Proof.
  destruct s as [p|r|ps|e hs]; cbn [self_ok s_empty g_of_shape g_contains ob]; intros Hok Hne.
  - rewrite pt_eqb_refl. reflexivity.
  - rewrite (rcr_refl_wf r Hok). reflexivity.
  - apply line_contains_self. rewrite line_ring_empty. exact Hne.
  - apply Nat.ltb_ge in Hne. destruct Hok as [He Hh]. change (mk_poly (e :: hs)) with (Pg e hs).
    rewrite (poly_contains_self e hs Hne He Hh). reflexivity.
Qed.

Print Assumptions g_contains_self.

(* the hypothesis is met by a concave polygon with a hole, and fails for a ring that runs through one of its own vertices *)
Example self_ok_concave : self_ok (SPoly [(0,0);(8,0);(8,8);(4,4);(0,8);(0,0)] [[(1,1);(3,1);(2,3);(1,1)]]).
Proof.
  assert (D : forall e, (forallb (fun v => forallb (fun s => negb (on_segb s v) || pt_eqb v (fst s) || pt_eqb v (snd s)) (ring_edges e)) e = true) -> simple_vertices e).
  { intros e H v s Hv Hsin Hon. rewrite forallb_forall in H. specialize (H v Hv). rewrite forallb_forall in H. specialize (H s Hsin).
    apply on_segb_iff in Hon. rewrite Hon in H. cbn [negb orb] in H. apply orb_true_iff in H. destruct H as [H|H]; apply pt_eqb_eq in H; auto. }
  split; [apply D; vm_compute; reflexivity|]. intros h [<-|[]]. apply D. vm_compute. reflexivity.
Qed.
Example self_contains_concave :
  g_contains (g_of_shape (SPoly [(0,0);(8,0);(8,8);(4,4);(0,8);(0,0)] [[(1,1);(3,1);(2,3);(1,1)]]))
             (g_of_shape (SPoly [(0,0);(8,0);(8,8);(4,4);(0,8);(0,0)] [[(1,1);(3,1);(2,3);(1,1)]])) = Some true.
Proof. vm_compute. reflexivity. Qed.
