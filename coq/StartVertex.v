(* StartVertex.v — property C12: point membership in a ring (and in a polygon with holes), and through
   the point-set theorems the Intersects answers of ring x segment / line / ring, do not depend on the
   vertex the ring starts at nor on its winding direction.  Rotating or reversing the vertex list
   permutes the edge cycle (reversal also swaps the ends of every edge); boundary test and crossing
   parity are symmetric functions of the edges. *)
From Coq Require Import ZArith Bool List Lia Sorting.Permutation.
From GJ Require Import Base Kernel KernelSpec Series SeriesSpec Ring RingSpec
  RaycastProofs KernelProofs IntersectsProofs SeriesProofs PipProofs PairProofs Invariance
  Jordan JordanQ JordanRing.
Import ListNotations.
Open Scope Z_scope.

(* the edge cycle through a vertex list given without the repeated closing point *)
Definition cyc_edges (vs : list pt) : list seg := path_segs (vs ++ [hd pt0 vs]).

Lemma last_snoc (l : list pt) (a : pt) : last (l ++ [a]) pt0 = a.
Proof. apply last_last. Qed.

Lemma ring_edges_cyc (vs : list pt) : (3 <= length vs)%nat -> pt_eqb (last vs pt0) (hd pt0 vs) = false ->
  ring_edges vs = cyc_edges vs.
Proof.
  intros H3 Hne. unfold ring_edges, segments_spec, cyc_edges. cbn [closed pts].
  destruct (Nat.ltb_spec (length vs) 3) as [?|_]; [lia|]. rewrite Hne.
  symmetry. apply path_segs_snoc. intros ->. cbn in H3. lia.
Qed.

Lemma cyc_rot1 (a : pt) (r : list pt) : r <> [] -> Permutation (cyc_edges (r ++ [a])) (cyc_edges (a :: r)).
Proof.
  intros Hr. unfold cyc_edges.
  assert (Hh : hd pt0 (r ++ [a]) = hd pt0 r) by (destruct r; [congruence|reflexivity]).
  rewrite Hh. cbn [hd].
  rewrite (path_segs_snoc (r ++ [a]) (hd pt0 r)) by (destruct r; discriminate). rewrite last_snoc.
  change ((a :: r) ++ [a]) with (a :: (r ++ [a])).
  destruct r as [|y r']; [congruence|]. change (a :: (y :: r') ++ [a]) with (a :: y :: (r' ++ [a])).
  rewrite path_segs_cons2. cbn [hd]. change (y :: r' ++ [a]) with ((y :: r') ++ [a]).
  apply Permutation_sym. apply Permutation_cons_append.
Qed.

Lemma cyc_split (l1 : list pt) : forall l2, Permutation (cyc_edges (l2 ++ l1)) (cyc_edges (l1 ++ l2)).
Proof.
  induction l1 as [|a l1 IH]; intros l2; [rewrite app_nil_r; apply Permutation_refl|].
  replace (l2 ++ a :: l1) with ((l2 ++ [a]) ++ l1) by (rewrite <- app_assoc; reflexivity).
  eapply Permutation_trans; [apply IH|]. rewrite app_assoc.
  change ((a :: l1) ++ l2) with (a :: (l1 ++ l2)).
  destruct (l1 ++ l2) as [|x t] eqn:E.
  - apply Permutation_refl.
  - apply cyc_rot1. discriminate.
Qed.

Lemma cyc_rot (k : nat) (vs : list pt) : Permutation (cyc_edges (rot k vs)) (cyc_edges vs).
Proof.
  unfold rot. set (m := (k mod length vs)%nat).
  rewrite <- (firstn_skipn m vs) at 3. apply cyc_split.
Qed.

(* boundary test and parity are symmetric in the edges *)
Lemma in_ringb_perm (E E' : list seg) (p : pt) : Permutation E E' -> in_ringb E p = in_ringb E' p.
Proof.
  intros H. unfold in_ringb, on_boundaryb, parityb.
  rewrite (existsb_perm _ _ _ H). change (fold_right (fun s acc => xorb (crossesb s p) acc) false E) with (xfold (fun s => crossesb s p) E).
  change (fold_right (fun s acc => xorb (crossesb s p) acc) false E') with (xfold (fun s => crossesb s p) E').
  rewrite (xfold_perm _ _ _ H). reflexivity.
Qed.

Lemma strictly_in_ringb_perm (E E' : list seg) (p : pt) : Permutation E E' -> strictly_in_ringb E p = strictly_in_ringb E' p.
Proof.
  intros H. unfold strictly_in_ringb, on_boundaryb, parityb.
  rewrite (existsb_perm _ _ _ H). change (fold_right (fun s acc => xorb (crossesb s p) acc) false E) with (xfold (fun s => crossesb s p) E).
  change (fold_right (fun s acc => xorb (crossesb s p) acc) false E') with (xfold (fun s => crossesb s p) E').
  rewrite (xfold_perm _ _ _ H). reflexivity.
Qed.

Lemma rot_perm (k : nat) (vs : list pt) : Permutation (rot k vs) vs.
Proof.
  unfold rot. set (m := (k mod length vs)%nat). rewrite <- (firstn_skipn m vs) at 3. apply Permutation_app_comm.
Qed.

Lemma NoDup_last_hd (vs : list pt) : NoDup vs -> (2 <= length vs)%nat -> pt_eqb (last vs pt0) (hd pt0 vs) = false.
Proof.
  intros Hnd H2. destruct vs as [|a r]; [cbn in H2; lia|]. destruct r as [|b r']; [cbn in H2; lia|].
  cbn [hd]. destruct (pt_eqb (last (a :: b :: r') pt0) a) eqn:E; [|reflexivity]. exfalso.
  apply pt_eqb_eq in E. inversion Hnd as [|x l Hnin Hnd']; subst. apply Hnin.
  change (last (a :: b :: r') pt0) with (last (b :: r') pt0) in E. rewrite <- E. apply last_In. discriminate.
Qed.

Lemma ring_edges_rot_perm (k : nat) (vs : list pt) : NoDup vs -> (3 <= length vs)%nat ->
  Permutation (ring_edges (rot k vs)) (ring_edges vs).
Proof.
  intros Hnd H3.
  assert (Hnd' : NoDup (rot k vs)) by (apply (Permutation_NoDup (Permutation_sym (rot_perm k vs))); exact Hnd).
  assert (H3' : (3 <= length (rot k vs))%nat) by (rewrite rot_length; exact H3).
  rewrite (ring_edges_cyc vs H3 (NoDup_last_hd vs Hnd ltac:(lia))).
  rewrite (ring_edges_cyc (rot k vs) H3' (NoDup_last_hd _ Hnd' ltac:(lia))). apply cyc_rot.
Qed.

(* MAIN 1: the starting vertex does not matter *)
Theorem in_ringb_start_vertex (k : nat) (vs : list pt) (p : pt) : NoDup vs -> (3 <= length vs)%nat ->
  in_ringb (ring_edges (rot k vs)) p = in_ringb (ring_edges vs) p.
Proof. intros Hnd H3. apply in_ringb_perm. apply ring_edges_rot_perm; assumption. Qed.

Theorem strictly_in_ringb_start_vertex (k : nat) (vs : list pt) (p : pt) : NoDup vs -> (3 <= length vs)%nat ->
  strictly_in_ringb (ring_edges (rot k vs)) p = strictly_in_ringb (ring_edges vs) p.
Proof. intros Hnd H3. apply strictly_in_ringb_perm. apply ring_edges_rot_perm; assumption. Qed.

(* ---- winding direction ---- *)
Definition swap (s : seg) : seg := (snd s, fst s).

Lemma path_segs_rev (l : list pt) : path_segs (rev l) = map swap (rev (path_segs l)).
Proof.
  induction l as [|x l IH]; [reflexivity|]. destruct l as [|y r]; [reflexivity|].
  rewrite path_segs_cons2. cbn [rev] in *. rewrite map_app. cbn [map swap fst snd].
  rewrite <- IH. rewrite (path_segs_snoc (rev r ++ [y]) x) by (destruct (rev r); discriminate).
  rewrite last_snoc. reflexivity.
Qed.

Lemma cyc_rev (vs : list pt) : Permutation (cyc_edges (rev vs)) (map swap (rev (cyc_edges vs))).
Proof.
  destruct vs as [|a r]; [apply Permutation_refl|].
  assert (E : map swap (rev (cyc_edges (a :: r))) = cyc_edges (a :: rev r)).
  { unfold cyc_edges. cbn [hd]. rewrite <- path_segs_rev. f_equal.
    change ((a :: r) ++ [a]) with (a :: (r ++ [a])). cbn [rev]. rewrite rev_app_distr. reflexivity. }
  rewrite E. cbn [rev]. destruct (rev r) as [|x t] eqn:Er.
  - apply Permutation_refl.
  - apply cyc_rot1. discriminate.
Qed.

Lemma on_segb_swap (s : seg) (p : pt) : on_segb (swap s) p = on_segb s p.
Proof.
  destruct s as [a b]. unfold swap. cbn [fst snd]. apply bool_eq_iff. rewrite !on_segb_iff. apply on_seg_swap.
Qed.

Lemma crossesb_swap (s : seg) (p : pt) : crossesb (swap s) p = crossesb s p.
Proof.
  destruct s as [a b]. unfold swap. cbn [fst snd]. apply bool_eq_iff. rewrite !crossesb_iff. apply crosses_swap.
Qed.

Lemma in_ringb_swap (E : list seg) (p : pt) : in_ringb (map swap E) p = in_ringb E p /\ strictly_in_ringb (map swap E) p = strictly_in_ringb E p.
Proof.
  assert (B : on_boundaryb (map swap E) p = on_boundaryb E p).
  { unfold on_boundaryb. induction E as [|s E IH]; [reflexivity|]. cbn [map existsb]. rewrite on_segb_swap, IH. reflexivity. }
  assert (P : parityb (map swap E) p = parityb E p).
  { clear B. unfold parityb. induction E as [|s E IH]; [reflexivity|]. cbn [map fold_right]. rewrite crossesb_swap, IH. reflexivity. }
  unfold in_ringb, strictly_in_ringb. rewrite B, P. split; reflexivity.
Qed.

Lemma ring_edges_rev (vs : list pt) (p : pt) : NoDup vs -> (3 <= length vs)%nat ->
  in_ringb (ring_edges (rev vs)) p = in_ringb (ring_edges vs) p /\
  strictly_in_ringb (ring_edges (rev vs)) p = strictly_in_ringb (ring_edges vs) p.
Proof.
  intros Hnd H3.
  assert (Hnd' : NoDup (rev vs)) by (apply NoDup_rev; exact Hnd).
  assert (H3' : (3 <= length (rev vs))%nat) by (rewrite rev_length; exact H3).
  rewrite (ring_edges_cyc vs H3 (NoDup_last_hd vs Hnd ltac:(lia))).
  rewrite (ring_edges_cyc (rev vs) H3' (NoDup_last_hd _ Hnd' ltac:(lia))).
  pose proof (cyc_rev vs) as P. destruct (in_ringb_swap (rev (cyc_edges vs)) p) as [S1 S2].
  pose proof (Permutation_sym (Permutation_rev (cyc_edges vs))) as R.
  split.
  - rewrite (in_ringb_perm _ _ p P), S1. apply in_ringb_perm. exact R.
  - rewrite (strictly_in_ringb_perm _ _ p P), S2. apply strictly_in_ringb_perm. exact R.
Qed.

(* MAIN 2: the winding direction does not matter *)
Theorem in_ringb_winding (vs : list pt) (p : pt) : NoDup vs -> (3 <= length vs)%nat ->
  in_ringb (ring_edges (rev vs)) p = in_ringb (ring_edges vs) p.
Proof. intros Hnd H3. apply (ring_edges_rev vs p Hnd H3). Qed.

(* ---- transfer to polygons and to the Intersects answers ---- *)
Section Reorder.
Variable f : list pt -> list pt.
Hypothesis f_len : forall vs, length (f vs) = length vs.
Hypothesis f_map : forall (g : pt -> pt) vs, map g (f vs) = f (map g vs).
Hypothesis f_in : forall vs p, NoDup vs -> (3 <= length vs)%nat ->
  in_ringb (ring_edges (f vs)) p = in_ringb (ring_edges vs) p /\
  strictly_in_ringb (ring_edges (f vs)) p = strictly_in_ringb (ring_edges vs) p.

Lemma NoDup_map_sc k vs : 0 < k -> NoDup vs -> NoDup (map (sc k) vs).
Proof.
  intros Hk. apply FinFun.Injective_map_NoDup. intros a b E.
  destruct a as [ax ay], b as [bx by_]. unfold sc, aff, px, py in E. cbn [fst snd] in E. inversion E. f_equal; nia.
Qed.

Lemma edges_at_f k vs p : 0 < k -> NoDup vs -> (3 <= length vs)%nat ->
  in_ringb (edges_at k (f vs)) p = in_ringb (edges_at k vs) p.
Proof.
  intros Hk Hnd H3. unfold edges_at. rewrite f_map. apply f_in; [apply NoDup_map_sc; assumption|rewrite map_length; exact H3].
Qed.

Lemma shares_point_f ps A B : NoDup ps -> (3 <= length ps)%nat -> (shares_point (f ps) A B <-> shares_point ps A B).
Proof.
  intros Hnd H3. unfold shares_point. split; intros (k & P & Hk & Hon & Hin); exists k, P; (split; [exact Hk|]); (split; [exact Hon|]).
  - change (ring_edges (map (sc k) (f ps))) with (edges_at k (f ps)) in Hin. rewrite (edges_at_f k ps P Hk Hnd H3) in Hin. exact Hin.
  - change (ring_edges (map (sc k) (f ps))) with (edges_at k (f ps)). rewrite (edges_at_f k ps P Hk Hnd H3). exact Hin.
Qed.

Theorem ring_intersects_segment_reorder (ps : list pt) (A B : pt) : NoDup ps -> (3 <= length ps)%nat ->
  ring_intersects_segment (RS {| closed := true; pts := f ps |}) (A, B) true =
  ring_intersects_segment (RS {| closed := true; pts := ps |}) (A, B) true.
Proof. intros Hnd H3. apply bool_eq_iff. rewrite !ring_intersects_segment_pointset. apply shares_point_f; assumption. Qed.

Theorem ring_intersects_line_reorder (ps qs : list pt) : NoDup ps -> (3 <= length ps)%nat ->
  ring_intersects_line (RS {| closed := true; pts := f ps |}) (RS {| closed := false; pts := qs |}) true =
  ring_intersects_line (RS {| closed := true; pts := ps |}) (RS {| closed := false; pts := qs |}) true.
Proof.
  intros Hnd H3. apply bool_eq_iff. rewrite !ring_intersects_line_pointset, f_len. split.
  - intros (H1 & H2 & sg & Hin & Hs). split; [exact H1|]. split; [exact H2|]. exists sg. split; [exact Hin|].
    apply (shares_point_f ps _ _ Hnd H3). exact Hs.
  - intros (H1 & H2 & sg & Hin & Hs). split; [exact H1|]. split; [exact H2|]. exists sg. split; [exact Hin|].
    apply (shares_point_f ps _ _ Hnd H3). exact Hs.
Qed.

Lemma rings_share_point_f ps qs : NoDup ps -> (3 <= length ps)%nat -> NoDup qs -> (3 <= length qs)%nat ->
  (rings_share_point (f ps) (f qs) <-> rings_share_point ps qs).
Proof.
  intros Hp H3p Hq H3q. unfold rings_share_point. split; intros (k & P & Hk & H1 & H2); exists k, P; (split; [exact Hk|]).
  - rewrite (edges_at_f k ps P Hk Hp H3p) in H1. rewrite (edges_at_f k qs P Hk Hq H3q) in H2. split; assumption.
  - rewrite (edges_at_f k ps P Hk Hp H3p), (edges_at_f k qs P Hk Hq H3q). split; assumption.
Qed.

Theorem ring_intersects_ring_reorder (ps qs : list pt) : NoDup ps -> NoDup qs ->
  ring_intersects_ring (RS {| closed := true; pts := f ps |}) (RS {| closed := true; pts := f qs |}) true =
  ring_intersects_ring (RS {| closed := true; pts := ps |}) (RS {| closed := true; pts := qs |}) true.
Proof.
  intros Hp Hq. apply bool_eq_iff. rewrite !ring_intersects_ring_pointset, !f_len. split.
  - intros (H1 & H2 & H). split; [exact H1|]. split; [exact H2|]. apply (rings_share_point_f ps qs Hp H1 Hq H2). exact H.
  - intros (H1 & H2 & H). split; [exact H1|]. split; [exact H2|]. apply (rings_share_point_f ps qs Hp H1 Hq H2). exact H.
Qed.

(* point membership in a polygon with holes, every ring reordered *)
Theorem poly_contains_point_reorder (e : list pt) (hs : list (list pt)) (p : pt) :
  NoDup e -> (3 <= length e)%nat -> (forall h, In h hs -> NoDup h /\ (3 <= length h)%nat) ->
  poly_contains_point (Pg (f e) (map f hs)) p = poly_contains_point (Pg e hs) p.
Proof.
  intros He H3 Hh. rewrite !poly_intersects_point_spec. unfold in_polyb.
  rewrite (proj1 (f_in e p He H3)). f_equal. rewrite map_map.
  induction hs as [|h hs IH]; [reflexivity|]. cbn [map forallb].
  destruct (Hh h (or_introl eq_refl)) as [Nh Lh]. rewrite (proj2 (f_in h p Nh Lh)), IH; [reflexivity|].
  intros h' Hin. apply Hh. right. exact Hin.
Qed.
End Reorder.

Lemma map_rot (g : pt -> pt) (k : nat) (vs : list pt) : map g (rot k vs) = rot k (map g vs).
Proof. unfold rot. rewrite map_app, map_length, <- skipn_map, <- firstn_map. reflexivity. Qed.

Lemma rot_in (k : nat) (vs : list pt) (p : pt) : NoDup vs -> (3 <= length vs)%nat ->
  in_ringb (ring_edges (rot k vs)) p = in_ringb (ring_edges vs) p /\
  strictly_in_ringb (ring_edges (rot k vs)) p = strictly_in_ringb (ring_edges vs) p.
Proof. intros Hnd H3. split; [apply in_ringb_start_vertex|apply strictly_in_ringb_start_vertex]; assumption. Qed.

Definition ring_intersects_segment_start_vertex k := ring_intersects_segment_reorder (rot k) (fun g => map_rot g k) (rot_in k).
Definition ring_intersects_line_start_vertex k := ring_intersects_line_reorder (rot k) (rot_length k) (fun g => map_rot g k) (rot_in k).
Definition ring_intersects_ring_start_vertex k := ring_intersects_ring_reorder (rot k) (rot_length k) (fun g => map_rot g k) (rot_in k).
Definition poly_contains_point_start_vertex k := poly_contains_point_reorder (rot k) (rot_in k).

Definition ring_intersects_segment_winding := ring_intersects_segment_reorder (@rev pt) (fun g vs => map_rev g vs) ring_edges_rev.
Definition ring_intersects_line_winding := ring_intersects_line_reorder (@rev pt) (@rev_length pt) (fun g vs => map_rev g vs) ring_edges_rev.
Definition ring_intersects_ring_winding := ring_intersects_ring_reorder (@rev pt) (@rev_length pt) (fun g vs => map_rev g vs) ring_edges_rev.
Definition poly_contains_point_winding := poly_contains_point_reorder (@rev pt) ring_edges_rev.

Print Assumptions ring_intersects_ring_start_vertex.
Print Assumptions poly_contains_point_winding.

(* not vacuous: a concave ring, started elsewhere and reversed *)
Example reorder_example :
  let vs := [(0,0);(8,0);(8,8);(4,4);(0,8)] in
  NoDup vs /\ rot 2 vs = [(8,8);(4,4);(0,8);(0,0);(8,0)] /\
  in_ringb (ring_edges (rot 2 vs)) (4,5) = false /\ in_ringb (ring_edges (rev vs)) (2,5) = true.
Proof.
  split; [|vm_compute; repeat split; reflexivity].
  repeat constructor; cbn; intros H; repeat (destruct H as [H|H]; [discriminate H|]); exact H.
Qed.
