(* Extract.v — extraction of the executable models and specs to OCaml.
   Only ExtrOcamlBasic's directives are used (bool, option, unit, list, prod,
   sumbool, sumor to the OCaml types of the same shape; andb/orb inlined).
   Z, N, positive stay Coq inductives. *)
From Coq Require Extraction ExtrOcamlBasic.
From GJ Require Import Harness.
Extraction Language OCaml.
Extraction "gjmodel.ml" run spec.
