(* LineRect.v — property C03: Line.ContainsRect is exact as a point-set statement.  A flat rectangle is
   its diagonal (LineComplete.v); a rectangle with positive width and height is never covered by
   finitely many segments: it contains more horizontal chords at different heights than the line string
   has segments, each chord needs a receiver segment of its own on its carrier line. *)
From Coq Require Import ZArith Bool List Lia.
From GJ Require Import Base Kernel KernelSpec Series SeriesSpec Ring RingSpec PairSpec Pairs PairProofs
  KernelProofs IntersectsProofs RaycastProofs SeriesProofs PipProofs LineProofs ContainsBoxes CoversBoxes Invariance JordanQ JordanRing JordanRect
  MirrorY ObjSym ObjSelf2 LineSound LineComplete.
Import ListNotations.
Open Scope Z_scope.

(* the receiver scaled by K *)
Lemma Lr_segs_sc (K : Z) (ps : list pt) : ring_segments (Lr (map (sc K) ps)) = map (scs K) (ring_segments (Lr ps)).
Proof.
  unfold ring_segments, Lr. rewrite !RS_segs. unfold segments_spec. cbn [closed pts].
  rewrite (path_segs_tau (sc K)). apply map_ext. intros [a b]. reflexivity.
Qed.

Lemma scs_scs (k K : Z) (s : seg) : scs k (scs K s) = scs (k * K) s.
Proof.
  destruct s as [[ax ay] [bx by_]]. unfold scs, affs, aff, px, py. cbn [fst snd]. f_equal; f_equal; ring.
Qed.

Lemma covered_scaled (K k : Z) (ps : list pt) (P : pt) : covered (Lr ps) (k * K) P -> covered (Lr (map (sc K) ps)) k P.
Proof.
  intros (s & Hs & Hon). exists (scs K s). split; [rewrite Lr_segs_sc; apply in_map; exact Hs|]. rewrite scs_scs. exact Hon.
Qed.

(* an accepted non-degenerate segment has a non-degenerate receiver segment on its carrier line *)
Lemma accepted_has_carrier (l : rng) (a b : pt) : pt_eqb a b = false -> line_covers_segment l (a, b) = Some true ->
  exists s, In s (ring_segments l) /\ fst s <> snd s /\ cross (fst s) (snd s) a = 0 /\ cross (fst s) (snd s) b = 0.
Proof.
  intros Hab H. unfold line_covers_segment in H. cbn [fst snd] in H. rewrite Hab in H.
  unfold covers_fuel in H. replace (2 * length (ring_segments l) + 2)%nat with (S (2 * length (ring_segments l) + 1)) in H by lia.
  cbn [covers_walk] in H. pose proof (covers_step_strong l a b a 0) as S. cbv zeta in S.
  destruct (covers_step l (a, b) a 0) as [best bestd]. cbn [fst snd] in *.
  pose proof (dot_pos a b Hab) as Hp.
  destruct S as [Hle [E|[Hsrc Hprog]]].
  - inversion E; subst best bestd. destruct (Z.leb_spec (dotp a b b) 0) as [L|L]; [lia|].
    rewrite Z.ltb_irrefl in H. cbn [negb] in H. discriminate.
  - destruct (src_line l a b a 0 (best, bestd) Hab ltac:(unfold cross; lia) ltac:(unfold dotp; lia) Hsrc Hprog)
      as (s & Hs & Hne & Ca & Cb & _). exists s. auto.
Qed.

Section NonFlat.
Variables (ps : list pt) (x0 y0 x1 y1 : Z).
Hypothesis Hx : x0 < x1.
Hypothesis Hy : y0 < y1.
Hypothesis Hcov : forall k P, 0 < k -> in_rectb (scr k ((x0, y0), (x1, y1))) P = true -> covered (Lr ps) k P.

Let n := Z.of_nat (length (ring_segments (Lr ps))).
Let K := n + 2.
Let l' := Lr (map (sc K) ps).
Definition chordA (j : Z) : pt := (K * x0, K * y0 + j * (y1 - y0)).
Definition chordB (j : Z) : pt := (K * x1, K * y0 + j * (y1 - y0)).

Lemma K_pos : 0 < K. Proof. unfold K, n. lia. Qed.

Lemma chord_ne j : pt_eqb (chordA j) (chordB j) = false.
Proof.
  unfold pt_eqb, chordA, chordB, px, py. cbn [fst snd]. apply andb_false_iff. left. apply Z.eqb_neq. pose proof K_pos. nia.
Qed.

Lemma chord_covered j : 1 <= j <= n + 1 -> forall k P, 0 < k -> on_seg (sc k (chordA j), sc k (chordB j)) P -> covered l' k P.
Proof.
  intros Hj k P Hk Hon. apply covered_scaled. apply Hcov; [pose proof K_pos; nia|].
  pose proof K_pos as HK. rewrite !sc_xy in Hon. unfold chordA, chordB, on_seg, cross, px, py in Hon. cbn [fst snd] in Hon.
  destruct P as [qx qy]. cbn [fst snd] in Hon. destruct Hon as (Hc & Hxr & Hyr).
  unfold scr, in_rectb. rewrite !sc_xy. unfold px, py. cbn [fst snd].
  rewrite !andb_true_iff, !Z.leb_le.
  assert (Hjr : 0 <= j * (y1 - y0) <= K * (y1 - y0)) by (unfold K; nia).
  set (T := j * (y1 - y0)) in *.
  assert (HT : 0 <= k * T <= k * (K * (y1 - y0))) by nia.
  assert (HX : k * (K * x0) <= k * (K * x1)) by nia.
  rewrite Z.min_id, Z.max_id in Hyr. rewrite Z.min_l, Z.max_r in Hxr by lia.
  assert (Eq : qy = k * (K * y0) + k * T) by lia.
  assert (E0 : k * K * x0 = k * (K * x0)) by ring. assert (E1 : k * K * x1 = k * (K * x1)) by ring.
  assert (E2 : k * K * y0 = k * (K * y0)) by ring. assert (E3 : k * K * y1 = k * (K * y0) + k * (K * (y1 - y0))) by ring.
  rewrite E0, E1, E2, E3. repeat split; lia.
Qed.

Lemma chord_carrier j : 1 <= j <= n + 1 ->
  exists s, In s (ring_segments l') /\ fst s <> snd s /\ cross (fst s) (snd s) (chordA j) = 0 /\ cross (fst s) (snd s) (chordB j) = 0.
Proof.
  intros Hj. apply accepted_has_carrier; [apply chord_ne|]. apply line_covers_segment_complete. apply chord_covered. exact Hj.
Qed.

(* one receiver segment cannot carry two chords at different heights *)
Lemma carrier_height (s : seg) (i j : Z) : fst s <> snd s ->
  cross (fst s) (snd s) (chordA i) = 0 -> cross (fst s) (snd s) (chordB i) = 0 ->
  cross (fst s) (snd s) (chordA j) = 0 -> i = j.
Proof.
  destruct s as [[s1x s1y] [s2x s2y]]. cbn [fst snd]. unfold chordA, chordB, cross, px, py. cbn [fst snd].
  intros Hne A1 B1 A2. pose proof K_pos as HK.
  set (p := s2x - s1x) in *. set (q := s2y - s1y) in *.
  assert (Q0 : q = 0).
  { assert (E : q * (K * (x1 - x0)) = 0) by lia. apply Z.mul_eq_0 in E. destruct E as [E|E]; [exact E|]. nia. }
  assert (P0 : p <> 0).
  { intros E. apply Hne. unfold p, q in *. f_equal; lia. }
  rewrite Q0 in *.
  assert (E1 : K * y0 + i * (y1 - y0) - s1y = 0) by nia.
  assert (E2 : K * y0 + j * (y1 - y0) - s1y = 0) by nia.
  assert (E3 : (i - j) * (y1 - y0) = 0) by lia. apply Z.mul_eq_0 in E3. lia.
Qed.

Lemma impossible : False.
Proof.
  assert (Build : forall m : nat, Z.of_nat m <= n + 1 ->
            exists L : list seg, length L = m /\ NoDup L /\ incl L (ring_segments l') /\
              forall s, In s L -> exists j, 1 <= j <= Z.of_nat m /\ fst s <> snd s /\
                cross (fst s) (snd s) (chordA j) = 0 /\ cross (fst s) (snd s) (chordB j) = 0).
  { induction m as [|m IH]; intros Hm.
    - exists []. split; [reflexivity|]. split; [constructor|]. split; [intros x []|intros s []].
    - destruct (IH ltac:(lia)) as (L & Hlen & Hnd & Hinc & Hall).
      destruct (chord_carrier (Z.of_nat (S m)) ltac:(lia)) as (s & Hs & Hne & Ca & Cb).
      destruct (in_dec seg_eq_dec s L) as [Hin|Hnin].
      + exfalso. destruct (Hall s Hin) as (j & Hj & _ & Ca' & Cb').
        pose proof (carrier_height s j (Z.of_nat (S m)) Hne Ca' Cb' Ca). lia.
      + exists (s :: L). split; [cbn [length]; lia|]. split; [constructor; assumption|]. split.
        * intros x [<-|Hx']; [exact Hs|apply Hinc; exact Hx'].
        * intros x [<-|Hx']; [exists (Z.of_nat (S m)); split; [lia|auto]|].
          destruct (Hall x Hx') as (j & Hj & R). exists j. split; [lia|exact R]. }
  assert (Len : length (ring_segments l') = length (ring_segments (Lr ps))).
  { unfold l'. rewrite Lr_segs_sc, map_length. reflexivity. }
  destruct (Build (S (length (ring_segments (Lr ps)))) ltac:(unfold n; lia)) as (L & Hlen & Hnd & Hinc & _).
  pose proof (NoDup_incl_length Hnd Hinc). lia.
Qed.
End NonFlat.

(* MAIN: a rectangle of positive width and height is not covered by a line string *)
Theorem nonflat_rect_not_covered (ps : list pt) (mn mx : pt) : px mn < px mx -> py mn < py mx ->
  ~ (forall k P, 0 < k -> in_rectb (scr k (mn, mx)) P = true -> covered (Lr ps) k P).
Proof.
  destruct mn as [x0 y0], mx as [x1 y1]. unfold px, py. cbn [fst snd]. intros Hx Hy H.
  exact (impossible ps x0 y0 x1 y1 Hx Hy H).
Qed.

(* the points of a flat rectangle are the points of its diagonal *)
Lemma flat_rect_points (mn mx P : pt) : rect_wf (mn, mx) -> px mn = px mx \/ py mn = py mx ->
  (in_rectb (mn, mx) P = true <-> on_seg (mn, mx) P).
Proof.
  destruct mn as [x0 y0], mx as [x1 y1], P as [qx qy]. unfold rect_wf, in_rectb, on_seg, cross, px, py. cbn [fst snd].
  intros [W1 W2] Hf. rewrite !andb_true_iff, !Z.leb_le. split.
  - intros (((A & B) & C) & D). split; [destruct Hf; nia|]. lia.
  - intros (Hc & Hxr & Hyr). lia.
Qed.

(* Line.ContainsRect, every well-formed rectangle: true exactly when every rational point of the closed
   rectangle lies on a segment of the (non-empty) line string *)
Theorem line_contains_rect_exact (ps : list pt) (q : rect) : ring_empty (Lr ps) = false -> rect_wf q ->
  (line_contains_rect (Lr ps) q = Some true <-> forall k P, 0 < k -> in_rectb (scr k q) P = true -> covered (Lr ps) k P).
Proof.
  intros El Hw. destruct q as [mn mx].
  destruct (Z.eq_dec (px mn) (px mx)) as [Ex|Nx]; [|destruct (Z.eq_dec (py mn) (py mx)) as [Ey|Ny]].
  - rewrite (line_contains_flat_rect_exact (Lr ps) mn mx El (or_introl Ex)). split; intros H k P Hk HP.
    + apply (H k P Hk). apply (flat_rect_points (sc k mn) (sc k mx) P); [apply (scr_wf k (mn, mx) Hk Hw)|rewrite !sc_xy; unfold px, py; cbn [fst snd]; left; f_equal; exact Ex|exact HP].
    + apply (H k P Hk). apply (flat_rect_points (sc k mn) (sc k mx) P); [apply (scr_wf k (mn, mx) Hk Hw)|rewrite !sc_xy; unfold px, py; cbn [fst snd]; left; f_equal; exact Ex|exact HP].
  - rewrite (line_contains_flat_rect_exact (Lr ps) mn mx El (or_intror Ey)). split; intros H k P Hk HP.
    + apply (H k P Hk). apply (flat_rect_points (sc k mn) (sc k mx) P); [apply (scr_wf k (mn, mx) Hk Hw)|rewrite !sc_xy; unfold px, py; cbn [fst snd]; right; f_equal; exact Ey|exact HP].
    + apply (H k P Hk). apply (flat_rect_points (sc k mn) (sc k mx) P); [apply (scr_wf k (mn, mx) Hk Hw)|rewrite !sc_xy; unfold px, py; cbn [fst snd]; right; f_equal; exact Ey|exact HP].
  - (* positive width and height: the code answers false, and the rectangle is not covered *)
    destruct Hw as [W1 W2]. cbn [fst snd] in W1, W2.
    assert (Code : line_contains_rect (Lr ps) (mn, mx) = Some false).
    { unfold line_contains_rect, line_contains_poly. rewrite El. cbn [orb poly_empty rect_poly exterior RR ring_empty r_empty poly_rect ring_rect r_rect].
      assert (F : negb (px mn =? px mx) && negb (py mn =? py mx) = true).
      { apply andb_true_iff. split; apply negb_true_iff; apply Z.eqb_neq; assumption. }
      rewrite F. reflexivity. }
    rewrite Code. split; [discriminate|]. intros H. exfalso.
    apply (nonflat_rect_not_covered ps mn mx ltac:(lia) ltac:(lia) H).
Qed.

Print Assumptions line_contains_rect_exact.
