(* ParseValid.v — property C08, the RequireValid clause: every object that Parse
   returns under RequireValid is valid, and so is every nested object of the nine
   standard types (for a Circle: the Point it was recognised from). *)
From Coq Require Import Lia.
From GJ Require Import Base JsonConst Json JsonProofs EmitProofs.
Open Scope Z_scope.

Lemma map_until_forall {A B} (f : A -> res B) (P : B -> Prop) (l : list A) (out : list B) :
  (forall x y, In x l -> f x = ROk y -> P y) -> map_until f l = ROk out -> Forall P out.
Proof.
  revert out. induction l as [|x l IH]; intros out Hf H; cbn [map_until] in H.
  - inversion H. constructor.
  - destruct (f x) as [b|c] eqn:E; [|discriminate].
    destruct (map_until f l) as [t|c] eqn:Et; [|discriminate]. inversion H; subst.
    constructor; [apply (Hf x b (or_introl eq_refl) E)|].
    apply IH; [intros x' y' Hx'; apply Hf; right; exact Hx'|reflexivity].
Qed.

Lemma forallb_Forall {A} (f : A -> bool) (l : list A) : Forall (fun x => f x = true) l -> forallb f l = true.
Proof. induction 1 as [|x l Hx Hl IH]; [reflexivity|]. cbn [forallb]. rewrite Hx, IH. reflexivity. Qed.

Lemma check_valid (o : popts) (g : gobj) (code : Z) (r : gobj) :
  require_valid o = true ->
  (if require_valid o && negb (g_valid o g) then PErr code else POk g) = POk r -> g_valid o r = true.
Proof.
  intros Hv. rewrite Hv. cbn [andb]. destruct (g_valid o g) eqn:E; cbn [negb]; intros H; inversion H; subst; exact E.
Qed.

Lemma circle_of_valid (o : popts) (one : Z) (p : fpt) (ms : list (jkey * jv)) (r : gobj) :
  fpt_valid o p = true -> circle_of o one p ms = Some (POk r) -> g_valid o r = true.
Proof.
  intros Hp. unfold circle_of. destruct (disable_circle o); [discriminate|].
  destruct (get2 s_properties s_type ms) as [tv|]; [|discriminate].
  destruct (bytes_eqb (str_of tv) s_Circle); [|discriminate].
  destruct (negb _); [discriminate|].
  destruct (match get2 s_properties s_radius ms with Some (JNum _ f) => ROk f | Some JTrue => ROk (FV one)
            | Some (JStr _ _) => RErr E_Unmodelled | _ => ROk (FV 0) end) as [rad|c]; [|discriminate].
  intros H. inversion H; subst. cbn [g_valid]. exact Hp.
Qed.

(* MAIN *)
Theorem parse_require_valid (fuel : nat) : forall (o : popts) (one : Z) (v : jv) (g : gobj),
  require_valid o = true -> parse fuel o one v = POk g -> g_valid o g = true.
Proof.
  induction fuel as [|f IH]; intros o one v g Hv H; [discriminate|].
  cbn [parse] in H. destruct v as [| | |raw x|raw d|l|ms]; try discriminate.
  destruct (k_type (scan_keys ms)) as [[| | |r0 x0|traw tname|l0|ms0]|]; try discriminate.
  destruct (bytes_eqb tname s_Point).
  { destruct (parse_point_coords true (k_coords (scan_keys ms))) as [[p ex]|c]; [|discriminate].
    destruct (with_members ex (k_foreign (scan_keys ms))); [|destruct (allow_simple o)];
      apply (check_valid o _ _ g Hv H). }
  destruct (bytes_eqb tname s_LineString).
  { destruct (parse_line_coords true (k_coords (scan_keys ms))) as [[ps ex]|c]; [|discriminate].
    destruct (length ps <? 2)%nat; [discriminate|]. apply (check_valid o _ _ g Hv H). }
  destruct (bytes_eqb tname s_Polygon).
  { destruct (parse_poly_coords true (k_coords (scan_keys ms))) as [[rings ex]|c]; [|discriminate].
    destruct rings as [|ext holes]; [discriminate|].
    destruct (negb (forallb ring_ok (ext :: holes))); [discriminate|].
    destruct (with_members ex (k_foreign (scan_keys ms))) as [e|].
    - apply (check_valid o _ _ g Hv H).
    - destruct holes; [destruct (allow_rects o && perfect_rect ext)|]; apply (check_valid o _ _ g Hv H). }
  destruct (bytes_eqb tname s_Feature).
  { destruct (k_geom (scan_keys ms)) as [gv|]; [|discriminate].
    destruct (parse f o one gv) as [base|c] eqn:Eb; [|discriminate].
    pose proof (IH o one gv base Hv Eb) as Hb.
    destruct (match base, k_foreign (scan_keys ms) with
              | JPoint p _, _ :: _ => circle_of o one p (k_foreign (scan_keys ms))
              | JSimple p, _ :: _ => if CIRCLE_SIMPLE_OK then circle_of o one p (k_foreign (scan_keys ms)) else None
              | _, _ => None end) as [r|] eqn:Ec.
    - subst r. destruct base as [p ex|p| | | | | |]; try discriminate;
        destruct (k_foreign (scan_keys ms)) as [|m0 ms']; try discriminate.
      + cbn [g_valid] in Hb. apply (circle_of_valid o one p _ g Hb Ec).
      + cbn [g_valid] in Hb. unfold CIRCLE_SIMPLE_OK in Ec. apply (circle_of_valid o one p _ g Hb Ec).
    - inversion H; subst. cbn [g_valid]. exact Hb. }
  destruct (bytes_eqb tname s_MultiPoint).
  { destruct (k_coords (scan_keys ms)) as [cv|]; [|discriminate].
    destruct (negb (is_array cv)); [discriminate|].
    destruct (map_until _ (elems cv)) as [kids|c]; [|discriminate].
    unfold MULTIPOINT_VALID_CHECK in H. apply (check_valid o _ _ g Hv H). }
  destruct (bytes_eqb tname s_MultiLineString).
  { destruct (k_coords (scan_keys ms)) as [cv|]; [|discriminate].
    destruct (negb (is_array cv)); [discriminate|].
    destruct (map_until _ (elems cv)) as [kids|c]; [|discriminate]. apply (check_valid o _ _ g Hv H). }
  destruct (bytes_eqb tname s_MultiPolygon).
  { destruct (k_coords (scan_keys ms)) as [cv|]; [|discriminate].
    destruct (negb (is_array cv)); [discriminate|].
    destruct (map_until _ (elems cv)) as [kids|c]; [|discriminate]. apply (check_valid o _ _ g Hv H). }
  destruct (bytes_eqb tname s_GeometryCollection).
  { destruct (k_geoms (scan_keys ms)) as [cv|]; [|discriminate].
    destruct (negb (is_array cv)); [discriminate|].
    destruct (map_until (fun c => pres_res (parse f o one c)) (elems cv)) as [kids|c] eqn:Ek; [|discriminate].
    inversion H; subst. cbn [g_valid]. apply forallb_Forall.
    eapply (map_until_forall _ (fun y => g_valid o y = true)); [|exact Ek].
    intros x y _ Hx. cbv beta in Hx. unfold pres_res in Hx. destruct (parse f o one x) as [gx|cx] eqn:Ex; [|discriminate].
    inversion Hx; subst. apply (IH o one x y Hv Ex). }
  destruct (bytes_eqb tname s_FeatureCollection); [|discriminate].
  destruct (k_feats (scan_keys ms)) as [cv|]; [|discriminate].
  destruct (negb (is_array cv)); [discriminate|].
  destruct (map_until (fun c => pres_res (parse f o one c)) (elems cv)) as [kids|c] eqn:Ek; [|discriminate].
  inversion H; subst. cbn [g_valid]. apply forallb_Forall.
  eapply (map_until_forall _ (fun y => g_valid o y = true)); [|exact Ek].
    intros x y _ Hx. cbv beta in Hx. unfold pres_res in Hx. destruct (parse f o one x) as [gx|cx] eqn:Ex; [|discriminate].
    inversion Hx; subst. apply (IH o one x y Hv Ex).
Qed.

(* ------------------------------------------------------------------ *)
(* RequireValid only turns acceptance into rejection, exactly when the object
   (or a nested object) would report itself invalid                     *)

Definition with_rv (o : popts) (b : bool) : popts :=
  {| allow_simple := allow_simple o; allow_rects := allow_rects o; require_valid := b;
     disable_circle := disable_circle o; l180 := l180 o; l90 := l90 o |}.

Lemma g_valid_rv (o : popts) (b : bool) (g : gobj) : g_valid (with_rv o b) g = g_valid o g.
Proof.
  induction g as [p ex|p|mn mx|ps ex|rings ex|base ex IH|k cs ex IH|c m] using gobj_ind'; cbn [g_valid]; try reflexivity.
  - exact IH.
  - induction IH as [|x l Hx Hl IHl]; [reflexivity|]. cbn [forallb]. rewrite Hx, IHl. reflexivity.
Qed.

(* the relation between the run without and the run with RequireValid: a rejection stays a rejection;
   an accepted object is returned unchanged when valid and rejected when not *)
Definition rv_rel (o : popts) (without with_ : pres) : Prop :=
  match without with
  | PErr _ => exists c, with_ = PErr c
  | POk g => if g_valid o g then with_ = POk g else exists c, with_ = PErr c
  end.

Lemma check_rel (o : popts) (g : gobj) (code : Z) :
  rv_rel o (if require_valid (with_rv o false) && negb (g_valid (with_rv o false) g) then PErr code else POk g)
           (if require_valid (with_rv o true) && negb (g_valid (with_rv o true) g) then PErr code else POk g).
Proof.
  cbn [with_rv require_valid andb]. rewrite g_valid_rv. unfold rv_rel.
  destruct (g_valid o g); cbn [negb]; [reflexivity|eexists; reflexivity].
Qed.

Definition res_pres (r : res gobj) : pres := match r with ROk g => POk g | RErr c => PErr c end.

Lemma map_until_rel (o : popts) (f0 f1 : jv -> res gobj) (l : list jv) :
  (forall x, In x l -> rv_rel o (res_pres (f0 x)) (res_pres (f1 x))) ->
  match map_until f0 l with
  | RErr _ => exists c, map_until f1 l = RErr c
  | ROk kids => if forallb (g_valid o) kids then map_until f1 l = ROk kids else exists c, map_until f1 l = RErr c
  end.
Proof.
  induction l as [|x l IH]; intros H; cbn [map_until]; [reflexivity|].
  pose proof (H x (or_introl eq_refl)) as Hx. unfold rv_rel, res_pres in Hx.
  assert (IH' := IH (fun y Hy => H y (or_intror Hy))).
  destruct (f0 x) as [g|c].
  - destruct (g_valid o g) eqn:Eg.
    + destruct (f1 x) as [g1|c1]; [|discriminate]. inversion Hx; subst g1.
      destruct (map_until f0 l) as [kids|c].
      * cbn [forallb]. rewrite Eg. cbn [andb]. destruct (forallb (g_valid o) kids).
        -- rewrite IH'. reflexivity.
        -- destruct IH' as [c Hc]. rewrite Hc. eexists; reflexivity.
      * destruct IH' as [c' Hc]. rewrite Hc. eexists; reflexivity.
    + destruct Hx as [c1 Hc1]. destruct (f1 x) as [g1|c1']; [discriminate|].
      destruct (map_until f0 l) as [kids|c]; [cbn [forallb]; rewrite Eg; cbn [andb]|]; eexists; reflexivity.
  - destruct Hx as [c1 Hc1]. destruct (f1 x) as [g1|c1']; [discriminate|]. eexists; reflexivity.
Qed.

Lemma circle_of_rv_all (o : popts) (b : bool) (one : Z) (p : fpt) (ms : list (jkey * jv)) :
  circle_of (with_rv o b) one p ms = circle_of o one p ms.
Proof. reflexivity. Qed.

Lemma circle_of_invalid (o : popts) (one : Z) (p : fpt) (ms : list (jkey * jv)) (r : gobj) :
  fpt_valid o p = false -> circle_of o one p ms = Some (POk r) -> g_valid o r = false.
Proof.
  intros Hp. unfold circle_of. destruct (disable_circle o); [discriminate|].
  destruct (get2 s_properties s_type ms) as [tv|]; [|discriminate].
  destruct (bytes_eqb (str_of tv) s_Circle); [|discriminate].
  destruct (negb _); [discriminate|].
  destruct (match get2 s_properties s_radius ms with Some (JNum _ f) => ROk f | Some JTrue => ROk (FV one)
            | Some (JStr _ _) => RErr E_Unmodelled | _ => ROk (FV 0) end) as [rad|c]; [|discriminate].
  intros H. inversion H; subst. cbn [g_valid]. exact Hp.
Qed.

Lemma res_pres_pres_res (p : pres) : res_pres (pres_res p) = p.
Proof. destruct p; reflexivity. Qed.

Lemma rv_rel_err (o : popts) (c : Z) (w : pres) : (exists c', w = PErr c') -> rv_rel o (PErr c) w.
Proof. intros H. exact H. Qed.

(* MAIN: the two runs of Parse on the same document *)
Theorem parse_rv_exact (fuel : nat) : forall (o : popts) (one : Z) (v : jv),
  rv_rel o (parse fuel (with_rv o false) one v) (parse fuel (with_rv o true) one v).
Proof.
  induction fuel as [|f IH]; intros o one v; [cbn; eexists; reflexivity|].
  cbn [parse]. destruct v as [| | |raw x|raw d|l|ms]; try (cbn; eexists; reflexivity).
  destruct (k_type (scan_keys ms)) as [[| | |r0 x0|traw tname|l0|ms0]|]; try (cbn; eexists; reflexivity).
  change (allow_simple (with_rv o false)) with (allow_simple o). change (allow_simple (with_rv o true)) with (allow_simple o).
  change (allow_rects (with_rv o false)) with (allow_rects o). change (allow_rects (with_rv o true)) with (allow_rects o).
  destruct (bytes_eqb tname s_Point).
  { destruct (parse_point_coords true (k_coords (scan_keys ms))) as [[p ex]|c]; [|cbn; eexists; reflexivity].
    destruct (with_members ex (k_foreign (scan_keys ms))); [|destruct (allow_simple o)]; apply check_rel. }
  destruct (bytes_eqb tname s_LineString).
  { destruct (parse_line_coords true (k_coords (scan_keys ms))) as [[ps ex]|c]; [|cbn; eexists; reflexivity].
    destruct (length ps <? 2)%nat; [cbn; eexists; reflexivity|]. apply check_rel. }
  destruct (bytes_eqb tname s_Polygon).
  { destruct (parse_poly_coords true (k_coords (scan_keys ms))) as [[rings ex]|c]; [|cbn; eexists; reflexivity].
    destruct rings as [|ext holes]; [cbn; eexists; reflexivity|].
    destruct (negb (forallb ring_ok (ext :: holes))); [cbn; eexists; reflexivity|].
    destruct (with_members ex (k_foreign (scan_keys ms))) as [e|]; [apply check_rel|].
    destruct holes; [destruct (allow_rects o && perfect_rect ext)|]; apply check_rel. }
  destruct (bytes_eqb tname s_Feature).
  { destruct (k_geom (scan_keys ms)) as [gv|]; [|cbn; eexists; reflexivity].
    pose proof (IH o one gv) as Hg. unfold rv_rel in Hg.
    destruct (parse f (with_rv o false) one gv) as [base|c].
    - destruct (g_valid o base) eqn:Eb.
      + rewrite Hg. cbv beta iota zeta. change (circle_of (with_rv o true)) with (circle_of o). change (circle_of (with_rv o false)) with (circle_of o).
        set (circ := match base, k_foreign (scan_keys ms) with
                     | JPoint p _, _ :: _ => circle_of o one p (k_foreign (scan_keys ms))
                     | JSimple p, _ :: _ => if CIRCLE_SIMPLE_OK then circle_of o one p (k_foreign (scan_keys ms)) else None
                     | _, _ => None end).
        destruct circ as [[g|c]|] eqn:Ec; unfold rv_rel.
        * assert (Hgv : g_valid o g = true).
          { subst circ. destruct base as [p ex|p| | | | | |]; try discriminate;
              destruct (k_foreign (scan_keys ms)) as [|m0 ms']; try discriminate; cbn [g_valid] in Eb.
            - apply (circle_of_valid o one p _ g Eb Ec).
            - unfold CIRCLE_SIMPLE_OK in Ec. apply (circle_of_valid o one p _ g Eb Ec). }
          rewrite Hgv. reflexivity.
        * eexists; reflexivity.
        * cbn [g_valid]. rewrite Eb. reflexivity.
      + destruct Hg as [c Hc]. rewrite Hc. cbv beta iota zeta. change (circle_of (with_rv o true)) with (circle_of o). change (circle_of (with_rv o false)) with (circle_of o).
        set (circ := match base, k_foreign (scan_keys ms) with
                     | JPoint p _, _ :: _ => circle_of o one p (k_foreign (scan_keys ms))
                     | JSimple p, _ :: _ => if CIRCLE_SIMPLE_OK then circle_of o one p (k_foreign (scan_keys ms)) else None
                     | _, _ => None end).
        destruct circ as [[g|c']|] eqn:Ec; unfold rv_rel.
        * assert (Hgv : g_valid o g = false).
          { subst circ. destruct base as [p ex|p| | | | | |]; try discriminate;
              destruct (k_foreign (scan_keys ms)) as [|m0 ms']; try discriminate; cbn [g_valid] in Eb.
            - apply (circle_of_invalid o one p _ g Eb Ec).
            - unfold CIRCLE_SIMPLE_OK in Ec. apply (circle_of_invalid o one p _ g Eb Ec). }
          rewrite Hgv. eexists; reflexivity.
        * eexists; reflexivity.
        * cbn [g_valid]. rewrite Eb. eexists; reflexivity.
    - destruct Hg as [c' Hc]. rewrite Hc. cbn. eexists; reflexivity. }
  destruct (bytes_eqb tname s_MultiPoint).
  { destruct (k_coords (scan_keys ms)) as [cv|]; [|cbn; eexists; reflexivity].
    destruct (negb (is_array cv)); [cbn; eexists; reflexivity|].
    destruct (map_until _ (elems cv)) as [kids|c]; [|cbn; eexists; reflexivity].
    unfold MULTIPOINT_VALID_CHECK. apply check_rel. }
  destruct (bytes_eqb tname s_MultiLineString).
  { destruct (k_coords (scan_keys ms)) as [cv|]; [|cbn; eexists; reflexivity].
    destruct (negb (is_array cv)); [cbn; eexists; reflexivity|].
    destruct (map_until _ (elems cv)) as [kids|c]; [|cbn; eexists; reflexivity]. apply check_rel. }
  destruct (bytes_eqb tname s_MultiPolygon).
  { destruct (k_coords (scan_keys ms)) as [cv|]; [|cbn; eexists; reflexivity].
    destruct (negb (is_array cv)); [cbn; eexists; reflexivity|].
    destruct (map_until _ (elems cv)) as [kids|c]; [|cbn; eexists; reflexivity]. apply check_rel. }
  destruct (bytes_eqb tname s_GeometryCollection).
  { destruct (k_geoms (scan_keys ms)) as [cv|]; [|cbn; eexists; reflexivity].
    destruct (negb (is_array cv)); [cbn; eexists; reflexivity|].
    pose proof (map_until_rel o (fun c => pres_res (parse f (with_rv o false) one c)) (fun c => pres_res (parse f (with_rv o true) one c)) (elems cv)) as M.
    cbv beta in M. specialize (M (fun x _ => ltac:(rewrite !res_pres_pres_res; apply IH))).
    destruct (map_until (fun c => pres_res (parse f (with_rv o false) one c)) (elems cv)) as [kids|c].
    - unfold rv_rel. cbn [g_valid]. destruct (forallb (g_valid o) kids).
      + rewrite M. reflexivity.
      + destruct M as [c Hc]. rewrite Hc. eexists; reflexivity.
    - destruct M as [c' Hc]. rewrite Hc. cbn. eexists; reflexivity. }
  destruct (bytes_eqb tname s_FeatureCollection); [|cbn; eexists; reflexivity].
  destruct (k_feats (scan_keys ms)) as [cv|]; [|cbn; eexists; reflexivity].
  destruct (negb (is_array cv)); [cbn; eexists; reflexivity|].
  pose proof (map_until_rel o (fun c => pres_res (parse f (with_rv o false) one c)) (fun c => pres_res (parse f (with_rv o true) one c)) (elems cv)) as M.
  cbv beta in M. specialize (M (fun x _ => ltac:(rewrite !res_pres_pres_res; apply IH))).
  destruct (map_until (fun c => pres_res (parse f (with_rv o false) one c)) (elems cv)) as [kids|c].
  - unfold rv_rel. cbn [g_valid]. destruct (forallb (g_valid o) kids).
    + rewrite M. reflexivity.
    + destruct M as [c Hc]. rewrite Hc. eexists; reflexivity.
  - destruct M as [c' Hc]. rewrite Hc. cbn. eexists; reflexivity.
Qed.

Print Assumptions parse_require_valid.
Print Assumptions parse_rv_exact.
