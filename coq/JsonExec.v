(* JsonExec.v — executable glue for the JSON model: decimal formatting of grid
   values (what strconv.AppendFloat(f,'f',-1,64) prints for a dyadic rational of
   small denominator), the integer encodings of documents and object trees used
   on the case lines, and the link from parsed objects to the predicate model. *)
From GJ Require Import Base JsonConst Json JsonSpec Series Obj.

(* decimal digits of a non-negative integer *)
Fixpoint digits_fuel (fuel : nat) (n : Z) : list Z :=
  match fuel with
  | O => []
  | S f => if n <? 10 then [48 + n] else digits_fuel f (n / 10) ++ [48 + n mod 10]
  end.
Definition digits (n : Z) : list Z := digits_fuel (S (Z.to_nat (Z.log2 (Z.max n 1)))) n.

Fixpoint strip_zeros_rev (l : list Z) : list Z :=
  match l with 48 :: r => strip_zeros_rev r | _ => l end.

(* k * 2^-s, s <= 8, as the shortest decimal that round-trips = its exact expansion *)
Definition fmt_dyadic (s k : Z) : list Z :=
  let a := Z.abs k in
  let ip := a / 2 ^ s in
  let fp := (a mod 2 ^ s) * 10 ^ s / 2 ^ s in               (* exactly s fractional digits *)
  let fd := digits fp in
  let frac := repeat 48 (Z.to_nat s - length fd) ++ fd in
  let frac' := rev (strip_zeros_rev (rev frac)) in
  (if k <? 0 then [45] else []) ++ digits ip ++ (if fp =? 0 then [] else 46 :: frac').

(* ---- documents on the case line ----
   0 null | 1 true | 2 false | 3 tag val nraw raw.. (tag 0: finite grid value val, 1: non-finite)
   | 4 nraw raw.. ndec dec.. | 5 n items.. | 6 n (nraw raw.. ndec dec.. value)..  *)
Fixpoint take_n (n : nat) (l : list Z) : list Z * list Z :=
  match n, l with
  | S k, x :: r => let '(a, b) := take_n k r in (x :: a, b)
  | _, _ => ([], l)
  end.

Fixpoint take_jv (fuel : nat) (l : list Z) : option (jv * list Z) :=
  match fuel with
  | O => None
  | S f =>
      match l with
      | 0 :: r => Some (JNull, r)
      | 1 :: r => Some (JTrue, r)
      | 2 :: r => Some (JFalse, r)
      | 3 :: tag :: val :: n :: r =>
          let '(raw, rest) := take_n (Z.to_nat n) r in
          Some (JNum raw (if tag =? 0 then FV val else FNull), rest)
      | 4 :: n :: r =>
          let '(raw, r1) := take_n (Z.to_nat n) r in
          match r1 with
          | m :: r2 => let '(dec, rest) := take_n (Z.to_nat m) r2 in Some (JStr raw dec, rest)
          | [] => None
          end
      | 5 :: n :: r =>
          let fix items (m : nat) (l : list Z) : option (list jv * list Z) :=
            match m with
            | O => Some ([], l)
            | S m' =>
                match take_jv f l with
                | Some (v, rest) => match items m' rest with Some (vs, rest') => Some (v :: vs, rest') | None => None end
                | None => None
                end
            end in
          match items (Z.to_nat n) r with Some (vs, rest) => Some (JArr vs, rest) | None => None end
      | 6 :: n :: r =>
          let fix mems (m : nat) (l : list Z) : option (list (jkey * jv) * list Z) :=
            match m with
            | O => Some ([], l)
            | S m' =>
                match l with
                | nr :: r0 =>
                    let '(raw, r1) := take_n (Z.to_nat nr) r0 in
                    match r1 with
                    | nd :: r2 =>
                        let '(dec, r3) := take_n (Z.to_nat nd) r2 in
                        match take_jv f r3 with
                        | Some (v, rest) =>
                            match mems m' rest with
                            | Some (ms, rest') => Some (((raw, dec), v) :: ms, rest')
                            | None => None
                            end
                        | None => None
                        end
                    | [] => None
                    end
                | [] => None
                end
            end in
          match mems (Z.to_nat n) r with Some (ms, rest) => Some (JObj ms, rest) | None => None end
      | _ => None
      end
  end.

(* ---- object trees on the case line (kinds and x,y only) ---- *)
Definition NULLMARK : Z := 4611686018427387904.
Definition enc_f (f : fnum) : Z := match f with FV k => k | _ => NULLMARK end.
Definition enc_fpts (ps : list fpt) : list Z := flat_map (fun p => [enc_f (fst p); enc_f (snd p)]) ps.

Fixpoint enc_tree (o : gobj) : list Z :=
  match o with
  | JPoint p _ => [0; enc_f (fst p); enc_f (snd p)]
  | JSimple p => [1; enc_f (fst p); enc_f (snd p)]
  | JRect mn mx => [2; enc_f (fst mn); enc_f (snd mn); enc_f (fst mx); enc_f (snd mx)]
  | JLine ps _ => 3 :: Z.of_nat (length ps) :: enc_fpts ps
  | JPoly rings _ => 4 :: Z.of_nat (length rings) :: flat_map (fun r => Z.of_nat (length r) :: enc_fpts r) rings
  | JFeature b _ => 5 :: enc_tree b
  | JColl k cs _ => 6 :: k :: Z.of_nat (length cs) :: flat_map enc_tree cs
  | JCircle c m => [7; enc_f (fst c); enc_f (snd c); enc_f m]
  end.

(* members text of the top-level object, as Members() returns it *)
Definition top_members (o : gobj) : list Z :=
  let ex := match o with
            | JPoint _ ex | JLine _ ex | JPoly _ ex | JFeature _ ex | JColl _ _ ex => ex
            | _ => None
            end in
  match ex with
  | Some e => match members e with Some ms => print_min (JObj ms) | None => [] end
  | None => []
  end.

(* ---- link to the predicate model: erase extras (defined on finite coordinates) ---- *)
Definition pt_of_fpt (p : fpt) : option pt :=
  match p with (FV x, FV y) => Some (x, y) | _ => None end.
Fixpoint pts_of (ps : list fpt) : option (list pt) :=
  match ps with
  | [] => Some []
  | p :: r => match pt_of_fpt p, pts_of r with Some q, Some t => Some (q :: t) | _, _ => None end
  end.
Fixpoint all_some {A} (l : list (option A)) : option (list A) :=
  match l with
  | [] => Some []
  | Some a :: r => match all_some r with Some t => Some (a :: t) | None => None end
  | None :: _ => None
  end.
Fixpoint to_obj (g : gobj) : option obj :=
  match g with
  | JPoint p _ => option_map OPoint (pt_of_fpt p)
  | JSimple p => option_map OSimple (pt_of_fpt p)
  | JRect mn mx => match pt_of_fpt mn, pt_of_fpt mx with Some a, Some b => Some (ORect (a, b)) | _, _ => None end
  | JLine ps _ => option_map OLine (pts_of ps)
  | JPoly rings _ => option_map OPoly (all_some (map pts_of rings))
  | JFeature b _ => option_map OFeature (to_obj b)
  | JColl k cs _ => option_map (OColl k) (all_some (map to_obj cs))
  | JCircle _ _ => None
  end.

Definition mk_opts (bits s : Z) : popts :=
  {| allow_simple := Z.odd bits; allow_rects := Z.odd (bits / 2); require_valid := Z.odd (bits / 4);
     disable_circle := Z.odd (bits / 8); l180 := 180 * 2 ^ s; l90 := 90 * 2 ^ s |}.

Fixpoint has_circle (o : gobj) : bool :=
  match o with
  | JCircle _ _ => true
  | JFeature b _ => has_circle b
  | JColl _ cs _ => existsb has_circle cs
  | _ => false
  end.

(* tags 70 / 73 / 74: args = s optbits ws document (ws: whitespace seed of the rendering, invisible here).
   Output: [code] on rejection, else
   0 f1 f2 f3 f4 f5 f6 f7 tree.. -7 json-bytes.. -7 members-bytes..
   where the six flags (C06: re-accepted, same tree, same bytes/answers; C08: index options,
   representation options, require-valid) hold in the model by theorem *)
Definition run_parse (l : list Z) : list Z :=
  match l with
  | s :: bits :: _ :: r =>
      match take_jv (length r) r with
      | Some (v, []) =>
          match parse (depth v) (mk_opts bits s) (2 ^ s) v with
          | PErr c => if c =? E_Unmodelled then [-8] else [c]    (* [-8]: gjson behaviour the model does not define (a string radius) *)
          | POk o => 0 :: [1; 1; 1; 1; 1; 1; (if has_circle o then 2 else 1)] ++ enc_tree o ++ -7 :: emit (fmt_dyadic s) o ++ -7 :: top_members o
          end
      | _ => [-1]
      end
  | _ => [-1]
  end.

Definition REST : Z := -10.      (* spec: the rest of the output is unconstrained *)
Definition NONZERO : Z := -11.   (* spec: a single non-zero element (rejected) *)
Definition IFACCEPTED : Z := -12. (* spec: no opinion on a rejection; otherwise match the tail *)

(* C07: the decoding clause (checked under the default representation options) and the rejection clause *)
Definition spec_parse (l : list Z) : list Z :=
  match l with
  | s :: bits :: _ :: r =>
      match take_jv (length r) r with
      | Some (v, []) =>
          if negb (bits mod 16 =? 0) then [-8]
          else
            match class_doc (depth v) v with
            | WF t => 0 :: repeat (-9) 7 ++ enc_tree t ++ [-7; REST]
            | DEFECT => [NONZERO]
            | UNSPEC => [-8]
            end
      | _ => [-1]
      end
  | _ => [-1]
  end.

(* C06: whenever the text is accepted, the three fixpoint flags hold *)
Definition spec_fixpoint (l : list Z) : list Z := [IFACCEPTED; 0; 1; 1; 1; -9; -9; -9; 1; REST].
(* C17 (objects built through Parse): whenever the text is accepted, the output is valid JSON,
   the four spellings agree and AppendJSON appends (flag 3) *)
Definition spec_wellformed (l : list Z) : list Z := [IFACCEPTED; 0; -9; -9; 1; -9; -9; -9; -9; REST].
(* C08: whenever the text is accepted, the three option flags hold *)
Definition spec_options (l : list Z) : list Z := [IFACCEPTED; 0; -9; -9; -9; 1; 1; 1; -9; REST].

(* ---- constructor-built objects (C17), tag 72: args = s ctree ----
   0 x y hasz z | 1 x y | 2 a b c d | 3 n coords | 4 nr (n coords)* | 5 mk [ws doc | n bytes] obj
   | 6 k n obj* | 7 cx cy meters steps *)
Definition dec_f (k : Z) : fnum := if NULLMARK <=? k then FNull else FV k.

Fixpoint take_fpts (n : nat) (l : list Z) : list fpt * list Z :=
  match n, l with
  | S k, x :: y :: r => let '(ps, rest) := take_fpts k r in ((dec_f x, dec_f y) :: ps, rest)
  | _, _ => ([], l)
  end.

Fixpoint take_frings (n : nat) (l : list Z) : list (list fpt) * list Z :=
  match n, l with
  | S k, c :: r =>
      let '(ps, rest) := take_fpts (Z.to_nat c) r in
      let '(rs, rest') := take_frings k rest in (ps :: rs, rest')
  | _, _ => ([], l)
  end.

Definition NEWFEATURE_EMPTY_OK : bool := true.   (* after the repair of F9 (false = pinned tree) *)

(* sjson.Delete(members, "feature") (feature.go:27-29): the first member whose decoded key is
   "feature" goes; a second one, if any, stays *)
Definition s_feature : list Z := [102; 101; 97; 116; 117; 114; 101].
Fixpoint delete_first_key (k : list Z) (ms : list (jkey * jv)) : list (jkey * jv) :=
  match ms with
  | [] => []
  | kv :: r => if bytes_eqb (snd (fst kv)) k then r else kv :: delete_first_key k r
  end.

(* NewFeature (feature.go:21-35) on a members text that is a JSON object *)
Definition new_feature_extra (ms0 : list (jkey * jv)) : option extra :=
  let ms := delete_first_key s_feature ms0 in
  match ms with
  | [] => if NEWFEATURE_EMPTY_OK then None else Some {| dims := 0; values := []; members := Some [] |}
  | _ => Some {| dims := 0; values := []; members := Some ms |}
  end.

Fixpoint take_ctor (fuel : nat) (l : list Z) : option (gobj * list Z) :=
  match fuel with
  | O => None
  | S f =>
      match l with
      | 0 :: x :: y :: hz :: z :: r =>
          Some (JPoint (dec_f x, dec_f y)
                       (if hz =? 1 then Some {| dims := 1; values := [dec_f z]; members := None |} else None), r)
      | 1 :: x :: y :: r => Some (JSimple (dec_f x, dec_f y), r)
      | 2 :: a :: b :: c :: d :: r => Some (JRect (dec_f a, dec_f b) (dec_f c, dec_f d), r)
      | 3 :: n :: r => let '(ps, rest) := take_fpts (Z.to_nat n) r in Some (JLine ps None, rest)
      | 4 :: nr :: r => let '(rs, rest) := take_frings (Z.to_nat nr) r in Some (JPoly rs None, rest)
      | 5 :: mk :: r =>
          let after : option (option extra * list Z) :=
            if mk =? 0 then Some (None, r)
            else if mk =? 1 then
              match r with
              | _ :: r1 =>
                  match take_jv (length r1) r1 with
                  | Some (JObj ms, rest) =>
                      (* a text that is exactly "{}" is skipped before the JSON test (feature.go:25) *)
                      Some (new_feature_extra ms, rest)
                  | _ => None
                  end
              | [] => None
              end
            else
              match r with
              | n :: r1 => let '(_, rest) := take_n (Z.to_nat n) r1 in Some (None, rest)   (* not a JSON object: ignored *)
              | [] => None
              end in
          match after with
          | Some (ex, rest) =>
              match take_ctor f rest with Some (b, rest') => Some (JFeature b ex, rest') | None => None end
          | None => None
          end
      | 6 :: k :: n :: r =>
          let fix kids (m : nat) (l : list Z) : option (list gobj * list Z) :=
            match m with
            | O => Some ([], l)
            | S m' =>
                match take_ctor f l with
                | Some (c, rest) => match kids m' rest with Some (cs, rest') => Some (c :: cs, rest') | None => None end
                | None => None
                end
            end in
          match kids (Z.to_nat n) r with Some (cs, rest) => Some (JColl k cs None, rest) | None => None end
      | 7 :: x :: y :: m :: _ :: r => Some (JCircle (dec_f x, dec_f y) (dec_f m), r)
      | _ => None
      end
  end.

Definition run_ctor (l : list Z) : list Z :=
  match l with
  | s :: r =>
      match take_ctor (length r) r with
      | Some (o, []) => [1; 1; 1; 1; 1; 1; -7] ++ emit (fmt_dyadic s) o
      | _ => [-1]
      end
  | _ => [-1]
  end.

Definition spec_ctor (l : list Z) : list Z := [1; 1; 1; 1; 1; 1; -7; REST].
