(* Pairs.v — the geometry.Geometry interface as one dispatch over the four
   geometry kinds (geometry/{point,rect,line,poly}.go): receiver a, argument b.
   No proofs here. *)
From GJ Require Import Base Kernel KernelSpec Series SeriesSpec Ring RingSpec PairSpec.

Definition mk_ring (ps : list pt) : rng := RS {| closed := true; pts := ps |}.
Definition mk_poly (rs : list (list pt)) : poly :=
  match rs with
  | [] => {| exterior := mk_ring []; holes := [] |}
  | e :: hs => {| exterior := mk_ring e; holes := map mk_ring hs |}
  end.
Definition mk_line (ps : list pt) : series := {| closed := false; pts := ps |}.


Inductive gshape := GPoint (p : pt) | GRect (r : rect) | GLine (l : rng) | GPoly (p : poly).

Definition g_of_shape (s : shape) : gshape :=
  match s with
  | SPoint p => GPoint p
  | SRect r => GRect r
  | SLine ps => GLine (RS (mk_line ps))
  | SPoly e hs => GPoly (mk_poly (e :: hs))
  end.

Definition ob (b : bool) : option bool := Some b.

(* the Geometry interface: receiver a, argument b (geometry/{point,rect,line,poly}.go) *)
Definition g_intersects (a b : gshape) : bool :=
  match a, b with
  | GPoint p, GPoint o => pt_eqb p o
  | GPoint p, GRect r => point_intersects_rect p r
  | GPoint p, GLine l => point_intersects_line p l
  | GPoint p, GPoly o => point_intersects_poly p o
  | GRect r, GPoint p => rect_contains_point r p
  | GRect r, GRect o => rect_intersects_rect r o
  | GRect r, GLine l => rect_intersects_line r l
  | GRect r, GPoly o => rect_intersects_poly r o
  | GLine l, GPoint p => line_contains_point_r l p
  | GLine l, GRect r => line_intersects_rect l r
  | GLine l, GLine o => line_intersects_line l o
  | GLine l, GPoly o => line_intersects_poly l o
  | GPoly p, GPoint o => poly_contains_point p o
  | GPoly p, GRect r => poly_intersects_rect p r
  | GPoly p, GLine l => poly_intersects_line p l
  | GPoly p, GPoly o => poly_intersects_poly p o
  end.

Definition g_contains (a b : gshape) : option bool :=
  match a, b with
  | GPoint p, GPoint o => ob (pt_eqb p o)
  | GPoint p, GRect r => ob (point_contains_rect p r)
  | GPoint p, GLine l => ob (point_contains_line p l)
  | GPoint p, GPoly o => ob (point_contains_poly p o)
  | GRect r, GPoint p => ob (rect_contains_point r p)
  | GRect r, GRect o => ob (rect_contains_rect r o)
  | GRect r, GLine l => ob (rect_contains_line r l)
  | GRect r, GPoly o => ob (rect_contains_poly r o)
  | GLine l, GPoint p => ob (line_contains_point_r l p)
  | GLine l, GRect r => line_contains_rect l r
  | GLine l, GLine o => line_contains_line l o
  | GLine l, GPoly o => line_contains_poly l o
  | GPoly p, GPoint o => ob (poly_contains_point p o)
  | GPoly p, GRect r => ob (poly_contains_rect p r)
  | GPoly p, GLine l => ob (poly_contains_line p l)
  | GPoly p, GPoly o => ob (poly_contains_poly p o)
  end.

