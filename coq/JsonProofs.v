(* JsonProofs.v — theorems about the JSON model Json.v (properties C06, C07, C08, C17). *)
From Coq Require Import Lia.
From GJ Require Import Base JsonConst Json JsonSpec.
Open Scope Z_scope.

(* ------------------------------------------------------------------ *)
(* bytes                                                                *)

Lemma bytes_eqb_eq (a b : list Z) : bytes_eqb a b = true <-> a = b.
Proof.
  revert b. induction a as [|x a IH]; intros [|y b]; cbn [bytes_eqb].
  - split; reflexivity.
  - split; discriminate.
  - split; discriminate.
  - rewrite andb_true_iff, Z.eqb_eq, IH. split; [intros [-> ->]; reflexivity|intros H; inversion H; auto].
Qed.

Lemma bytes_eqb_refl a : bytes_eqb a a = true.
Proof. apply bytes_eqb_eq. reflexivity. Qed.

(* ------------------------------------------------------------------ *)
(* C17: AppendJSON appends                                              *)

Section EmitFacts.
Variable fmt : Z -> list Z.

(* AppendJSON(prefix) = prefix followed by exactly the bytes of JSON(); the prefix is untouched *)
Theorem append_contract (dst : list Z) (o : gobj) :
  append_json fmt dst o = dst ++ emit fmt o /\
  firstn (length dst) (append_json fmt dst o) = dst /\
  skipn (length dst) (append_json fmt dst o) = append_json fmt [] o.
Proof.
  unfold append_json. split; [reflexivity|]. split.
  - rewrite firstn_app, Nat.sub_diag, firstn_all. cbn [firstn]. apply app_nil_r.
  - rewrite skipn_app, Nat.sub_diag, skipn_all. reflexivity.
Qed.

(* a non-finite ordinate is written as null, a finite one through the number formatter: no bare NaN / Inf token *)
Theorem emit_float_cases (f : fnum) :
  match f with
  | FV k => emit_float fmt f = fmt k
  | FNull => emit_float fmt f = s_null
  | FBad => emit_float fmt f = bad_token
  end.
Proof. destruct f; reflexivity. Qed.

(* representation options change only the Go type: a SimplePoint writes what the Point writes,
   a Rect what its five-point Polygon writes *)
Theorem emit_simple_as_point (p : fpt) : emit fmt (JSimple p) = emit fmt (JPoint p None).
Proof. cbn [emit emit_extra]. reflexivity. Qed.

Theorem emit_rect_as_polygon (mn mx : fpt) :
  emit fmt (JRect mn mx) = emit fmt (JPoly [fpt_rect_points mn mx] None).
Proof.
  cbn [emit rings_empty fpt_rect_points length Nat.ltb Nat.leb emit_rings].
  destruct (emit_series fmt _ None 0) as [t n]. cbn [fst join_comma]. reflexivity.
Qed.

End EmitFacts.

(* ------------------------------------------------------------------ *)
(* C05 / C07: Parse returns an object and no error, or no object and an error *)

Theorem parse_total (fuel : nat) (o : popts) (one : Z) (v : jv) :
  (exists g, parse fuel o one v = POk g) \/ (exists c, parse fuel o one v = PErr c).
Proof. destruct (parse fuel o one v) as [g|c]; [left; exists g|right; exists c]; reflexivity. Qed.

(* ------------------------------------------------------------------ *)
(* C07: the member scan — the last of duplicate reserved members counts  *)

Definition scan_from (ks : pkeys) (ms : list (jkey * jv)) : pkeys := fold_left scan_step ms ks.

Definition or_else (a b : option jv) : option jv := match a with Some _ => a | None => b end.

Definition lm_step (name : list Z) (acc : option jv) (kv : list Z * list Z * jv) : option jv :=
  if bytes_eqb (snd (fst kv)) name then Some (snd kv) else acc.

Lemma last_member_fold name ms : last_member name ms = fold_left (lm_step name) ms None.
Proof. reflexivity. Qed.

Lemma last_fold_acc name ms : forall acc,
  fold_left (lm_step name) ms acc = or_else (last_member name ms) acc.
Proof.
  rewrite last_member_fold. induction ms as [|m ms IH]; intros acc; cbn [fold_left].
  - destruct acc; reflexivity.
  - rewrite (IH (lm_step name acc m)), (IH (lm_step name None m)). unfold lm_step.
    destruct (bytes_eqb (snd (fst m)) name); cbn [or_else].
    + destruct (fold_left _ ms None); reflexivity.
    + destruct (fold_left _ ms None); [reflexivity|]. destruct acc; reflexivity.
Qed.

Lemma last_member_cons name kv ms :
  last_member name (kv :: ms) =
  or_else (last_member name ms) (if bytes_eqb (snd (fst kv)) name then Some (snd kv) else None).
Proof. rewrite (last_member_fold name (kv :: ms)). cbn [fold_left]. apply last_fold_acc. Qed.

Ltac names_differ :=
  match goal with
  | H : bytes_eqb ?d ?a = true |- context [bytes_eqb ?d ?b] =>
      let E := fresh in
      assert (E : bytes_eqb d b = false)
        by (apply bytes_eqb_eq in H; rewrite H; reflexivity);
      rewrite E
  end.

Lemma scan_type ms : forall ks,
  k_type (scan_from ks ms) = or_else (last_member s_type ms) (k_type ks).
Proof.
  induction ms as [|kv ms IH]; intros ks; [reflexivity|].
  unfold scan_from in *. cbn [fold_left]. rewrite IH, last_member_cons. unfold scan_step.
  destruct (bytes_eqb (snd (fst kv)) s_type) eqn:E1; cbn [k_type].
  - destruct (last_member s_type ms); reflexivity.
  - destruct (bytes_eqb (snd (fst kv)) s_coordinates), (bytes_eqb (snd (fst kv)) s_geometries),
      (bytes_eqb (snd (fst kv)) s_geometry), (bytes_eqb (snd (fst kv)) s_features); cbn [k_type];
      destruct (last_member s_type ms); reflexivity.
Qed.

Lemma scan_coords ms : forall ks,
  k_coords (scan_from ks ms) = or_else (last_member s_coordinates ms) (k_coords ks).
Proof.
  induction ms as [|kv ms IH]; intros ks; [reflexivity|].
  unfold scan_from in *. cbn [fold_left]. rewrite IH, last_member_cons. unfold scan_step.
  destruct (bytes_eqb (snd (fst kv)) s_type) eqn:E1.
  - names_differ. cbn [k_coords]. destruct (last_member s_coordinates ms); reflexivity.
  - destruct (bytes_eqb (snd (fst kv)) s_coordinates) eqn:E2; cbn [k_coords].
    + destruct (last_member s_coordinates ms); reflexivity.
    + destruct (bytes_eqb (snd (fst kv)) s_geometries), (bytes_eqb (snd (fst kv)) s_geometry),
        (bytes_eqb (snd (fst kv)) s_features); cbn [k_coords]; destruct (last_member s_coordinates ms); reflexivity.
Qed.

Lemma scan_geom ms : forall ks,
  k_geom (scan_from ks ms) = or_else (last_member s_geometry ms) (k_geom ks).
Proof.
  induction ms as [|kv ms IH]; intros ks; [reflexivity|].
  unfold scan_from in *. cbn [fold_left]. rewrite IH, last_member_cons. unfold scan_step.
  destruct (bytes_eqb (snd (fst kv)) s_type) eqn:E1.
  { names_differ. cbn [k_geom]. destruct (last_member s_geometry ms); reflexivity. }
  destruct (bytes_eqb (snd (fst kv)) s_coordinates) eqn:E2.
  { names_differ. cbn [k_geom]. destruct (last_member s_geometry ms); reflexivity. }
  destruct (bytes_eqb (snd (fst kv)) s_geometries) eqn:E3.
  { names_differ. cbn [k_geom]. destruct (last_member s_geometry ms); reflexivity. }
  destruct (bytes_eqb (snd (fst kv)) s_geometry) eqn:E4; cbn [k_geom].
  { destruct (last_member s_geometry ms); reflexivity. }
  destruct (bytes_eqb (snd (fst kv)) s_features); cbn [k_geom]; destruct (last_member s_geometry ms); reflexivity.
Qed.

Lemma scan_geoms ms : forall ks,
  k_geoms (scan_from ks ms) = or_else (last_member s_geometries ms) (k_geoms ks).
Proof.
  induction ms as [|kv ms IH]; intros ks; [reflexivity|].
  unfold scan_from in *. cbn [fold_left]. rewrite IH, last_member_cons. unfold scan_step.
  destruct (bytes_eqb (snd (fst kv)) s_type) eqn:E1.
  { names_differ. cbn [k_geoms]. destruct (last_member s_geometries ms); reflexivity. }
  destruct (bytes_eqb (snd (fst kv)) s_coordinates) eqn:E2.
  { names_differ. cbn [k_geoms]. destruct (last_member s_geometries ms); reflexivity. }
  destruct (bytes_eqb (snd (fst kv)) s_geometries) eqn:E3; cbn [k_geoms].
  { destruct (last_member s_geometries ms); reflexivity. }
  destruct (bytes_eqb (snd (fst kv)) s_geometry), (bytes_eqb (snd (fst kv)) s_features); cbn [k_geoms];
    destruct (last_member s_geometries ms); reflexivity.
Qed.

Lemma scan_feats ms : forall ks,
  k_feats (scan_from ks ms) = or_else (last_member s_features ms) (k_feats ks).
Proof.
  induction ms as [|kv ms IH]; intros ks; [reflexivity|].
  unfold scan_from in *. cbn [fold_left]. rewrite IH, last_member_cons. unfold scan_step.
  destruct (bytes_eqb (snd (fst kv)) s_type) eqn:E1.
  { names_differ. cbn [k_feats]. destruct (last_member s_features ms); reflexivity. }
  destruct (bytes_eqb (snd (fst kv)) s_coordinates) eqn:E2.
  { names_differ. cbn [k_feats]. destruct (last_member s_features ms); reflexivity. }
  destruct (bytes_eqb (snd (fst kv)) s_geometries) eqn:E3.
  { names_differ. cbn [k_feats]. destruct (last_member s_features ms); reflexivity. }
  destruct (bytes_eqb (snd (fst kv)) s_geometry) eqn:E4.
  { names_differ. cbn [k_feats]. destruct (last_member s_features ms); reflexivity. }
  destruct (bytes_eqb (snd (fst kv)) s_features); cbn [k_feats]; destruct (last_member s_features ms); reflexivity.
Qed.

(* the scan reads each reserved member as a standard decoder would: the last one *)
Theorem scan_keys_last (ms : list (jkey * jv)) :
  k_type (scan_keys ms) = last_member s_type ms /\
  k_coords (scan_keys ms) = last_member s_coordinates ms /\
  k_geoms (scan_keys ms) = last_member s_geometries ms /\
  k_geom (scan_keys ms) = last_member s_geometry ms /\
  k_feats (scan_keys ms) = last_member s_features ms.
Proof.
  unfold scan_keys.
  change (fold_left scan_step ms ?k) with (scan_from k ms).
  rewrite scan_type, scan_coords, scan_geoms, scan_geom, scan_feats. cbn [k_type k_coords k_geoms k_geom k_feats].
  repeat split; match goal with |- or_else ?x None = _ => destruct x; reflexivity end.
Qed.

(* ------------------------------------------------------------------ *)
(* C07: listed structural defects are rejected (top level of every document) *)

Theorem reject_not_object fuel o one v :
  (forall ms, v <> JObj ms) -> exists c, parse (S fuel) o one v = PErr c.
Proof.
  intros H. destruct v; cbn [parse]; try (eexists; reflexivity). exfalso. eapply H. reflexivity.
Qed.

Theorem reject_missing_type fuel o one ms :
  last_member s_type ms = None -> parse (S fuel) o one (JObj ms) = PErr E_TypeMissing.
Proof.
  intros H. cbn [parse]. destruct (scan_keys_last ms) as [Ht _]. rewrite Ht, H. reflexivity.
Qed.

Theorem reject_nonstring_type fuel o one ms t :
  last_member s_type ms = Some t -> (forall r d, t <> JStr r d) ->
  parse (S fuel) o one (JObj ms) = PErr E_TypeInvalid.
Proof.
  intros H Hn. cbn [parse]. destruct (scan_keys_last ms) as [Ht _]. rewrite Ht, H.
  destruct t; try reflexivity. exfalso. eapply Hn. reflexivity.
Qed.

Definition known_type (t : list Z) : bool :=
  bytes_eqb t s_Point || bytes_eqb t s_LineString || bytes_eqb t s_Polygon || bytes_eqb t s_Feature ||
  bytes_eqb t s_MultiPoint || bytes_eqb t s_MultiLineString || bytes_eqb t s_MultiPolygon ||
  bytes_eqb t s_GeometryCollection || bytes_eqb t s_FeatureCollection.

Theorem reject_unknown_type fuel o one ms r t :
  last_member s_type ms = Some (JStr r t) -> known_type t = false ->
  parse (S fuel) o one (JObj ms) = PErr E_TypeUnknown.
Proof.
  intros H Hk. cbn [parse]. destruct (scan_keys_last ms) as [Ht _]. rewrite Ht, H.
  unfold known_type in Hk. rewrite !orb_false_iff in Hk.
  destruct Hk as [[[[[[[[H1 H2] H3] H4] H5] H6] H7] H8] H9].
  rewrite H1, H2, H3, H4, H5, H6, H7, H8, H9. reflexivity.
Qed.

(* a missing required member, or one that is not an array *)
Theorem reject_point_coordinates fuel o one ms r :
  last_member s_type ms = Some (JStr r s_Point) ->
  (last_member s_coordinates ms = None \/ exists c, last_member s_coordinates ms = Some c /\ is_array c = false) ->
  exists code, parse (S fuel) o one (JObj ms) = PErr code.
Proof.
  intros H Hc. cbn [parse]. destruct (scan_keys_last ms) as (Ht & Hco & _). rewrite Ht, H, Hco.
  change (bytes_eqb s_Point s_Point) with true. cbv iota.
  destruct Hc as [->|(c & -> & Hc)]; cbn [parse_point_coords]; [eexists; reflexivity|].
  rewrite Hc. cbn [andb negb]. eexists; reflexivity.
Qed.

Theorem reject_feature_without_geometry fuel o one ms r :
  last_member s_type ms = Some (JStr r s_Feature) -> last_member s_geometry ms = None ->
  parse (S fuel) o one (JObj ms) = PErr E_GeometryMissing.
Proof.
  intros H Hg. cbn [parse]. destruct (scan_keys_last ms) as (Ht & _ & _ & Hge & _). rewrite Ht, H, Hge, Hg.
  reflexivity.
Qed.

Theorem reject_collection_without_members fuel o one ms r :
  (last_member s_type ms = Some (JStr r s_GeometryCollection) ->
   (last_member s_geometries ms = None \/ exists c, last_member s_geometries ms = Some c /\ is_array c = false) ->
   exists code, parse (S fuel) o one (JObj ms) = PErr code) /\
  (last_member s_type ms = Some (JStr r s_FeatureCollection) ->
   (last_member s_features ms = None \/ exists c, last_member s_features ms = Some c /\ is_array c = false) ->
   exists code, parse (S fuel) o one (JObj ms) = PErr code).
Proof.
  destruct (scan_keys_last ms) as (Ht & _ & Hgs & _ & Hfs). split; intros H Hc; cbn [parse]; rewrite Ht, H.
  - rewrite Hgs. change (bytes_eqb s_GeometryCollection _) with false at 1.
    cbv iota. change (bytes_eqb s_GeometryCollection s_GeometryCollection) with true.
    repeat match goal with |- context [bytes_eqb s_GeometryCollection ?x] =>
      let b := eval vm_compute in (bytes_eqb s_GeometryCollection x) in change (bytes_eqb s_GeometryCollection x) with b end.
    cbv iota. destruct Hc as [->|(c & -> & Hc)]; [eexists; reflexivity|]. rewrite Hc. cbn [negb]. eexists; reflexivity.
  - rewrite Hfs.
    repeat match goal with |- context [bytes_eqb s_FeatureCollection ?x] =>
      let b := eval vm_compute in (bytes_eqb s_FeatureCollection x) in change (bytes_eqb s_FeatureCollection x) with b end.
    cbv iota. destruct Hc as [->|(c & -> & Hc)]; [eexists; reflexivity|]. rewrite Hc. cbn [negb]. eexists; reflexivity.
Qed.

(* ------------------------------------------------------------------ *)
(* C07: a well-formed Point document is accepted and decodes to its x,y  *)

Lemma take_nums_finite allow n l :
  forallb is_num l = true -> take_nums allow n l = Some (map num_of (firstn n l)).
Proof.
  revert l. induction n as [|n IH]; intros l H; [reflexivity|].
  destruct l as [|v l]; [reflexivity|]. cbn [forallb] in H. apply andb_true_iff in H. destruct H as [Hv Hl].
  cbn [take_nums firstn map]. destruct v; try discriminate. rewrite (IH l Hl). reflexivity.
Qed.

Theorem accept_point fuel ms r l :
  last_member s_type ms = Some (JStr r s_Point) ->
  last_member s_coordinates ms = Some (JArr l) ->
  forallb is_num l = true -> (2 <= length l <= 4)%nat ->
  forall o, allow_simple o = false -> require_valid o = false ->
  exists ex, parse (S fuel) o 1 (JObj ms) = POk (JPoint (num_of (nth 0 l JNull), num_of (nth 1 l JNull)) ex).
Proof.
  intros H Hc Hn Hlen o Hs Hv. cbn [parse]. destruct (scan_keys_last ms) as (Ht & Hco & _).
  rewrite Ht, H, Hco, Hc. change (bytes_eqb s_Point s_Point) with true. cbv iota.
  cbn [parse_point_coords is_array negb andb elems]. rewrite (take_nums_finite true 4 l Hn).
  destruct l as [|a [|b l']]; cbn [length] in Hlen; try lia.
  cbn [firstn map nth]. rewrite Hv, Hs. cbn [andb].
  destruct (with_members _ _); eexists; reflexivity.
Qed.

Print Assumptions append_contract.
Print Assumptions scan_keys_last.
Print Assumptions reject_unknown_type.
Print Assumptions accept_point.
