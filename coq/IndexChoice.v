(* IndexChoice.v — property C04: ringContainsSegment consumes the index of the ring segment on which an
   end of the probe segment was found.  When an end lies on two ring segments (a shared vertex) the
   index reported depends on the order in which the segment index (none / quadtree / R-tree) delivers
   its candidates.  For a ring whose segments meet only at their ends the answer does not depend on
   that choice: this closes the gap between "a search reports the same SET of segments" (C04's exact
   accelerator theorems) and "the predicates answer alike". *)
From Coq Require Import ZArith Bool List Lia.
From GJ Require Import Base Kernel KernelSpec Series SeriesSpec Ring RingSpec
  RaycastProofs KernelProofs IntersectsProofs SeriesProofs PipProofs PairProofs.
Import ListNotations.
Open Scope Z_scope.

(* ringContainsSegment with the two point-search results as parameters (same text as Ring.ring_contains_segment) *)
Definition rcs_with (r : rng) (sg : seg) (allow : bool) (resA resB : bool * Z) : bool * Z :=
  let '(a, b) := sg in
  let rr := ring_rect r in
  if negb (rect_contains_point rr a) || negb (rect_contains_point rr b) then (false, 1)
  else
  if negb (fst resA) then (false, 2)
  else if pt_eqb b a then (true, 3)
  else
  if negb (fst resB) then (false, 4)
  else if ring_convex r then (true, 5)
  else
  let cands := ring_search r (seg_rect sg) in
  let hit (f : seg -> bool) := existsb (fun si => intersects_segment sg (fst si) && f (fst si)) cands in
  if allow then
    if negb (snd resA =? -1) then
      if negb (snd resB =? -1) then
        if snd resB =? snd resA then (true, 6)
        else
          let rsa := nth_seg r (snd resA) in
          let rsb := nth_seg r (snd resB) in
          if pt_eqb (fst rsa) a || pt_eqb (snd rsa) a || pt_eqb (fst rsb) a || pt_eqb (snd rsb) a ||
             pt_eqb (fst rsa) b || pt_eqb (snd rsa) b || pt_eqb (fst rsb) b || pt_eqb (snd rsb) b
          then (true, 7)
          else
            let '(rsa', rsb') := if snd resB <? snd resA then (rsb, rsa) else (rsa, rsb) in
            if negb (Bool.eqb (quad_cw rsa' rsb') (ring_clockwise r)) then (false, 8)
            else (negb (hit (fun s2 => negb (raycast_on s2 a) && negb (raycast_on s2 b))), 9)
      else (negb (hit (fun s2 => negb (raycast_on s2 a))), 10)
    else if negb (snd resB =? -1) then (negb (hit (fun s2 => negb (raycast_on s2 b))), 11)
    else (negb (hit (fun s2 => negb (raycast_on sg (fst s2)) && negb (raycast_on sg (snd s2)))), 12)
  else (negb (hit (fun _ => true)), 13).

Lemma rcs_with_model (r : rng) (sg : seg) (allow : bool) :
  ring_contains_segment r sg allow =
  rcs_with r sg allow (ring_contains_point r (fst sg) allow) (ring_contains_point r (snd sg) allow).
Proof. destruct sg as [a b]. reflexivity. Qed.

(* what any correct point search may report for p: the hit flag of the model, and for a boundary point
   the index of SOME ring segment through p *)
Definition valid_res (r : rng) (p : pt) (allow : bool) (res : bool * Z) : Prop :=
  fst res = fst (ring_contains_point r p allow) /\
  (on_boundaryb (ring_segments r) p = false -> snd res = -1) /\
  (on_boundaryb (ring_segments r) p = true ->
     exists i, snd res = Z.of_nat i /\ In (nth_seg r (Z.of_nat i)) (ring_segments r) /\ on_seg (nth_seg r (Z.of_nat i)) p).

(* ring segments meet only at their ends: a point on two segments of different index is an end of both *)
Definition meets_at_ends (r : rng) : Prop :=
  forall (i j : nat) (p : pt), i <> j -> on_seg (nth_seg r (Z.of_nat i)) p -> on_seg (nth_seg r (Z.of_nat j)) p ->
    (p = fst (nth_seg r (Z.of_nat i)) \/ p = snd (nth_seg r (Z.of_nat i))) /\
    (p = fst (nth_seg r (Z.of_nat j)) \/ p = snd (nth_seg r (Z.of_nat j))).

Lemma endpoint_eqb (s : seg) (p : pt) : p = fst s \/ p = snd s -> pt_eqb (fst s) p || pt_eqb (snd s) p = true.
Proof. intros [-> | ->]; rewrite pt_eqb_refl; [reflexivity|apply orb_true_r]. Qed.

(* MAIN: with contact allowed, any two valid reports give the same answer *)
Theorem rcs_choice_independent (r : rng) (a b : pt) (resA resA' resB resB' : bool * Z) :
  meets_at_ends r ->
  valid_res r a true resA -> valid_res r a true resA' -> valid_res r b true resB -> valid_res r b true resB' ->
  fst (rcs_with r (a, b) true resA resB) = fst (rcs_with r (a, b) true resA' resB').
Proof.
  intros Hm (FA & NA & BA) (FA' & NA' & BA') (FB & NB & BB) (FB' & NB' & BB').
  unfold rcs_with. destruct (negb (rect_contains_point (ring_rect r) a) || negb (rect_contains_point (ring_rect r) b)); [reflexivity|].
  rewrite FA, FA'. destruct (fst (ring_contains_point r a true)); cbn [negb]; [|reflexivity].
  destruct (pt_eqb b a); [reflexivity|].
  rewrite FB, FB'. destruct (fst (ring_contains_point r b true)); cbn [negb]; [|reflexivity].
  destruct (ring_convex r); [reflexivity|].
  destruct (on_boundaryb (ring_segments r) a) eqn:Oa; destruct (on_boundaryb (ring_segments r) b) eqn:Ob.
  - (* both ends on the boundary *)
    destruct (BA eq_refl) as (ia & Ea & _ & Ha). destruct (BA' eq_refl) as (ia' & Ea' & _ & Ha').
    destruct (BB eq_refl) as (ib & Eb & _ & Hb). destruct (BB' eq_refl) as (ib' & Eb' & _ & Hb').
    rewrite Ea, Ea', Eb, Eb'.
    assert (N1 : forall i : nat, (Z.of_nat i =? -1) = false) by (intros i; apply Z.eqb_neq; lia).
    rewrite !N1. cbn [negb].
    (* if an end has two different reports it is an end of both reported segments: sites 6 / 7 answer true *)
    assert (True7 : forall i j : nat,
              (pt_eqb (fst (nth_seg r (Z.of_nat i))) a || pt_eqb (snd (nth_seg r (Z.of_nat i))) a = true \/
               pt_eqb (fst (nth_seg r (Z.of_nat j))) b || pt_eqb (snd (nth_seg r (Z.of_nat j))) b = true) ->
              fst (if Z.of_nat j =? Z.of_nat i then (true, 6)
                   else if pt_eqb (fst (nth_seg r (Z.of_nat i))) a || pt_eqb (snd (nth_seg r (Z.of_nat i))) a ||
                           pt_eqb (fst (nth_seg r (Z.of_nat j))) a || pt_eqb (snd (nth_seg r (Z.of_nat j))) a ||
                           pt_eqb (fst (nth_seg r (Z.of_nat i))) b || pt_eqb (snd (nth_seg r (Z.of_nat i))) b ||
                           pt_eqb (fst (nth_seg r (Z.of_nat j))) b || pt_eqb (snd (nth_seg r (Z.of_nat j))) b
                        then (true, 7)
                        else (let '(rsa', rsb') := if Z.of_nat j <? Z.of_nat i then (nth_seg r (Z.of_nat j), nth_seg r (Z.of_nat i)) else (nth_seg r (Z.of_nat i), nth_seg r (Z.of_nat j)) in
                              if negb (Bool.eqb (quad_cw rsa' rsb') (ring_clockwise r)) then (false, 8)
                              else (negb (existsb (fun si => intersects_segment (a, b) (fst si) && (negb (raycast_on (fst si) a) && negb (raycast_on (fst si) b))) (ring_search r (seg_rect (a, b)))), 9))) = true).
    { intros i j H. destruct (Z.of_nat j =? Z.of_nat i); [reflexivity|].
      destruct H as [H|H].
      - apply orb_true_iff in H. destruct H as [H|H]; rewrite H; rewrite ?orb_true_r; reflexivity.
      - apply orb_true_iff in H. destruct H as [H|H]; rewrite H; rewrite ?orb_true_r; reflexivity. }
    destruct (Nat.eq_dec ia ia') as [Eia|Nia]; [subst ia'|].
    + destruct (Nat.eq_dec ib ib') as [Eib|Nib]; [subst ib'; reflexivity|].
      destruct (Hm ib ib' b Nib Hb Hb') as [Eb1 Eb2].
      rewrite (True7 ia ib (or_intror (endpoint_eqb _ b Eb1))), (True7 ia ib' (or_intror (endpoint_eqb _ b Eb2))). reflexivity.
    + destruct (Hm ia ia' a Nia Ha Ha') as [Ea1 Ea2].
      rewrite (True7 ia ib (or_introl (endpoint_eqb _ a Ea1))), (True7 ia' ib' (or_introl (endpoint_eqb _ a Ea2))). reflexivity.
  - (* a on the boundary, b not: site 10 does not look at the index *)
    destruct (BA eq_refl) as (ia & Ea & _). destruct (BA' eq_refl) as (ia' & Ea' & _).
    rewrite Ea, Ea', (NB eq_refl), (NB' eq_refl).
    assert (N1 : forall i : nat, (Z.of_nat i =? -1) = false) by (intros i; apply Z.eqb_neq; lia).
    rewrite !N1. reflexivity.
  - destruct (BB eq_refl) as (ib & Eb & _). destruct (BB' eq_refl) as (ib' & Eb' & _).
    rewrite Eb, Eb', (NA eq_refl), (NA' eq_refl).
    assert (N1 : forall i : nat, (Z.of_nat i =? -1) = false) by (intros i; apply Z.eqb_neq; lia).
    rewrite !N1. reflexivity.
  - rewrite (NA eq_refl), (NA' eq_refl), (NB eq_refl), (NB' eq_refl). reflexivity.
Qed.

(* without contact (the mode used against holes) the indices are not consulted at all *)
Theorem rcs_strict_ignores_indices (r : rng) (sg : seg) (resA resA' resB resB' : bool * Z) :
  fst resA = fst resA' -> fst resB = fst resB' ->
  fst (rcs_with r sg false resA resB) = fst (rcs_with r sg false resA' resB').
Proof.
  intros FA FB. destruct sg as [a b]. unfold rcs_with. rewrite FA, FB. reflexivity.
Qed.

(* the model's own report is one of the valid ones (rings built from a vertex list) *)
Lemma rcp_off_boundary (r : rng) (p : pt) (allow : bool) :
  on_boundaryb (ring_segments r) p = false -> snd (ring_contains_point r p allow) = -1.
Proof.
  intros Hb. unfold ring_contains_point. destruct (negb (rect_contains_point (ring_rect r) p)); [reflexivity|].
  destruct (strip_search_sound r p) as [E _]. rewrite Hb in E.
  generalize false. induction (strip_search r (py p)) as [|[sg i] l IH]; intros inn; [reflexivity|].
  cbn [existsb fst] in E. apply orb_false_iff in E. destruct E as [E1 E2].
  cbn [pip_fold]. rewrite raycast_eq_spec, E1. apply IH. exact E2.
Qed.

(* not vacuous: the segments of a triangle meet only at their ends *)
Example triangle_meets_at_ends : meets_at_ends (RS {| closed := true; pts := [(0,0);(4,0);(0,4)] |}).
Proof.
  intros i j p Hij Hi Hj.
  assert (Hn : forall k : nat, nth_seg (RS {| closed := true; pts := [(0,0);(4,0);(0,4)] |}) (Z.of_nat k) =
                               nth k [((0,0),(4,0)); ((4,0),(0,4)); ((0,4),(0,0))] ((0,0),(0,0))).
  { intros k. unfold nth_seg. rewrite Nat2Z.id. reflexivity. }
  rewrite !Hn in *. destruct p as [x y].
  destruct i as [|[|[|i]]]; destruct j as [|[|[|j]]]; try congruence; cbn [nth fst snd] in *;
    try (destruct i); try (destruct j); cbn [nth] in *;
    unfold on_seg, cross, px, py in Hi, Hj; cbn [fst snd] in Hi, Hj;
    (assert (E : (x, y) = (0, 0) \/ (x, y) = (4, 0) \/ (x, y) = (0, 4)) by
       (assert (x = 0 /\ y = 0 \/ x = 4 /\ y = 0 \/ x = 0 /\ y = 4) as [[-> ->]|[[-> ->]|[-> ->]]] by lia; auto));
    destruct E as [E|[E|E]]; inversion E; subst; cbn [fst snd]; try lia; split; auto.
Qed.

Print Assumptions rcs_choice_independent.
