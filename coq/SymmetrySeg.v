(* SymmetrySeg.v — property C12 / C19: Segment.IntersectsSegment and Line.IntersectsLine are invariant
   under the reflections and the transposition (any map that preserves "on the segment" and multiplies
   the orientation test by a constant sign). *)
From Coq Require Import ZArith Bool List Lia.
From GJ Require Import Base Kernel KernelSpec Series SeriesSpec Ring RingSpec
  RaycastProofs KernelProofs IntersectsProofs SeriesProofs PipProofs PairProofs PairSpec Pairs Invariance
  Jordan JordanQ JordanRing Crossing Mirror MirrorY Symmetry ObjSym.
Import ListNotations.
Open Scope Z_scope.

Section TransferSeg.
Variable tau : pt -> pt.
Hypothesis tau_on : forall s p, on_segb (taus tau s) (tau p) = on_segb s p.
Hypothesis tau_cross : forall a b p, cross (tau a) (tau b) (tau p) = - cross a b p.

Lemma on_seg_tau2 a b p : on_seg (tau a, tau b) (tau p) <-> on_seg (a, b) p.
Proof. rewrite <- !on_segb_iff. change (tau a, tau b) with (taus tau (a, b)). rewrite tau_on. tauto. Qed.

Lemma seg_meet_tau (s o : seg) : seg_meet (taus tau s) (taus tau o) <-> seg_meet s o.
Proof.
  destruct s as [a b], o as [c d]. unfold taus. cbn [fst snd]. unfold seg_meet.
  rewrite !on_seg_tau2, !tau_cross. split; intros H; repeat (destruct H as [H|H]; [tauto|]); right; right; right; right; lia.
Qed.

Theorem intersects_segment_tau (s o : seg) : intersects_segment (taus tau s) (taus tau o) = intersects_segment s o.
Proof. apply bool_eq_iff. rewrite !intersects_segment_iff. apply seg_meet_tau. Qed.

Theorem line_intersects_line_tau (ps qs : list pt) :
  line_intersects_line (Lr (map tau ps)) (Lr (map tau qs)) = line_intersects_line (Lr ps) (Lr qs).
Proof.
  apply bool_eq_iff. rewrite !line_intersects_line_spec, !map_length, !(path_segs_tau tau). split.
  - intros (H1 & H2 & sa & sb & Ha & Hb & Hm). split; [exact H1|]. split; [exact H2|].
    apply in_map_iff in Ha. destruct Ha as (sa' & <- & Ha). apply in_map_iff in Hb. destruct Hb as (sb' & <- & Hb).
    exists sa', sb'. split; [exact Ha|]. split; [exact Hb|]. apply seg_meet_tau. exact Hm.
  - intros (H1 & H2 & sa & sb & Ha & Hb & Hm). split; [exact H1|]. split; [exact H2|].
    exists (taus tau sa), (taus tau sb). split; [apply in_map; exact Ha|]. split; [apply in_map; exact Hb|]. apply seg_meet_tau. exact Hm.
Qed.
Theorem line_contains_point_tau (ps : list pt) (p : pt) :
  line_contains_point_r (Lr (map tau ps)) (tau p) = line_contains_point_r (Lr ps) p.
Proof.
  rewrite !line_intersects_point_spec. unfold in_lineb. rewrite (path_segs_tau tau). apply (on_boundaryb_tau tau tau_on).
Qed.
End TransferSeg.

Definition intersects_segment_mx := intersects_segment_tau mir on_segb_mir cross_mir.
Definition intersects_segment_my := intersects_segment_tau my on_segb_my cross_my.
Definition intersects_segment_tr := intersects_segment_tau tr on_segb_tr cross_tr.
Definition line_intersects_line_mx := line_intersects_line_tau mir on_segb_mir cross_mir.
Definition line_intersects_line_my := line_intersects_line_tau my on_segb_my cross_my.
Definition line_intersects_line_tr := line_intersects_line_tau tr on_segb_tr cross_tr.
Definition line_contains_point_mx := line_contains_point_tau mir on_segb_mir.
Definition line_contains_point_my := line_contains_point_tau my on_segb_my.
Definition line_contains_point_tr := line_contains_point_tau tr on_segb_tr.
Print Assumptions line_intersects_line_tr.
