(* Kernel.v — models of geometry/raycast.go and geometry/segment.go,
   branch for branch, over exact integer coordinates.  No proofs here. *)
From GJ Require Import Base.

(* ---- float idioms, by their exact meaning (DESIGN §3.1) ---- *)

(* u/dx == v/dy as IEEE: a division by zero gives ±Inf or NaN, which never
   equals a finite quotient nor (NaN) anything; Inf == Inf needs both
   denominators zero with equal-signed non-zero numerators. *)
Definition fq_eq (u dx v dy : Z) : bool :=
  if dx =? 0 then
    if dy =? 0 then
      (* ±Inf or NaN on both sides *)
      negb (u =? 0) && negb (v =? 0) && (Z.sgn u =? Z.sgn v)
    else false
  else if dy =? 0 then false
  else u * dy =? v * dx.

(* The nudged ordinate y' = y + eps (math.Nextafter up), eps infinitesimal
   with respect to the grid.  nud = whether the nudge happened. *)
Definition lt_n (y : Z) (nud : bool) (c : Z) : bool := y <? c.            (* y' < c *)
Definition gt_n (y : Z) (nud : bool) (c : Z) : bool :=                    (* y' > c *)
  if nud then c <=? y else c <? y.

(* (y' - c)/d1 >= n2/d2, reached only with d1 <> 0 and d2 <> 0. *)
Definition slope_ge (y : Z) (nud : bool) (c d1 n2 d2 : Z) : bool :=
  let n1 := y - c in
  let det := n1 * d2 - n2 * d1 in
  if nud then
    if det =? 0 then 0 <? d1                      (* eps*d2*d1*d2 >= 0, eps > 0 *)
    else 0 <? det * (d1 * d2)
  else 0 <=? det * (d1 * d2).

(* Segment.Raycast (raycast.go:12-99): returns (In, On). *)
Definition raycast (s : seg) (p : pt) : bool * bool :=
  let '(a, b) := s in
  let ax := px a in let ay := py a in
  let bx := px b in let by_ := py b in
  let x := px p in let y := py p in
  if (ay <? by_) && ((y <? ay) || (by_ <? y)) then (false, false)
  else if (by_ <? ay) && ((y <? by_) || (ay <? y)) then (false, false)
  else
  (* test if point is on the segment *)
  let degenerate_or_horizontal : option (bool * bool) :=
    if ay =? by_ then
      if ax =? bx then
        Some (if pt_eqb p a then (false, true) else (false, false))
      else if y =? by_ then
        if ax <? bx then
          if (ax <=? x) && (x <=? bx) then Some (false, true) else None
        else
          if (bx <=? x) && (x <=? ax) then Some (false, true) else None
      else None
    else None in
  match degenerate_or_horizontal with
  | Some r => r
  | None =>
  let vertical_on : bool :=
    (ax =? bx) && (x =? bx) &&
    (if ay <? by_ then (ay <=? y) && (y <=? by_) else (by_ <=? y) && (y <=? ay)) in
  if vertical_on then (false, true)
  else if fq_eq (x - ax) (bx - ax) (y - ay) (by_ - ay) then (false, true)
  else
  (* the actual raycast; nudge points level with an endpoint *)
  let nud := (y =? ay) || (y =? by_) in
  let out_of_range :=
    if ay <? by_ then lt_n y nud ay || gt_n y nud by_
    else lt_n y nud by_ || gt_n y nud ay in
  if out_of_range then (false, false)
  else
  let xdecision : option (bool * bool) :=
    if bx <? ax then
      if ax <=? x then Some (false, false)
      else if x <=? bx then Some (true, false)
      else None
    else
      if bx <=? x then Some (false, false)
      else if x <=? ax then Some (true, false)
      else None in
  match xdecision with
  | Some r => r
  | None =>
    if ay <? by_ then
      if slope_ge y nud ay (x - ax) (by_ - ay) (bx - ax) then (true, false) else (false, false)
    else
      if slope_ge y nud by_ (x - bx) (ay - by_) (ax - bx) then (true, false) else (false, false)
  end
  end.

Definition raycast_in (s : seg) (p : pt) : bool := fst (raycast s p).
Definition raycast_on (s : seg) (p : pt) : bool := snd (raycast s p).

(* Segment.CollinearPoint (segment.go:38-43) *)
Definition collinear_point (s : seg) (p : pt) : bool :=
  let '(a, b) := s in
  let cmpx := px p - px a in let cmpy := py p - py a in
  let rx := px b - px a in let ry := py b - py a in
  (cmpx * ry - cmpy * rx) =? 0.

(* Segment.ContainsPoint (segment.go:45-47) *)
Definition seg_contains_point (s : seg) (p : pt) : bool := raycast_on s p.

(* Segment.ContainsSegment (segment.go:134-136) *)
Definition seg_contains_segment (s o : seg) : bool :=
  raycast_on s (fst o) && raycast_on s (snd o).

(* bounding-box pre-test of IntersectsSegment on one axis (segment.go:57-88):
   returns true when the boxes are disjoint on that axis. *)
Definition axis_disjoint (a b c d : Z) : bool :=
  if b <? a then
    if d <? c then (c <? b) || (a <? d) else (d <? b) || (a <? c)
  else
    if d <? c then (c <? a) || (b <? d) else (d <? a) || (b <? c).

(* 0 <= n * (1/d) <= 1, d <> 0, decided by signs (segment.go:123-128) *)
Definition unit_frac (n d : Z) : bool :=
  if 0 <? d then (0 <=? n) && (n <=? d) else (d <=? n) && (n <=? 0).

(* Segment.IntersectsSegment (segment.go:54-131).
   [fixed] selects the collinear branch after the repair of finding F1
   (also test seg's endpoints against other); fixed=false is the pinned code. *)
Definition intersects_segment_gen (fixed : bool) (s o : seg) : bool :=
  let '(a, b) := s in let '(c, d) := o in
  if axis_disjoint (py a) (py b) (py c) (py d) then false
  else if axis_disjoint (px a) (px b) (px c) (px d) then false
  else if pt_eqb a c || pt_eqb a d || pt_eqb b c || pt_eqb b d then true
  else
  let cmpx := px c - px a in let cmpy := py c - py a in
  let rx := px b - px a in let ry := py b - py a in
  let cmpxr := cmpx * ry - cmpy * rx in
  if cmpxr =? 0 then
    if negb (negb (Bool.eqb (px c - px a <=? 0) (px c - px b <=? 0)) ||
             negb (Bool.eqb (py c - py a <=? 0) (py c - py b <=? 0)))
    then raycast_on s c || raycast_on s d ||
         (fixed && (raycast_on o a || raycast_on o b))
    else true
  else
  let sx := px d - px c in let sy := py d - py c in
  let cmpxs := cmpx * sy - cmpy * sx in
  let rxs := rx * sy - ry * sx in
  if rxs =? 0 then false
  else unit_frac cmpxs rxs && unit_frac cmpxr rxs.

Definition intersects_segment := intersects_segment_gen true.
Definition intersects_segment_pinned := intersects_segment_gen false.
