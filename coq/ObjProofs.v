(* ObjProofs.v — theorems about the object-layer model Obj.v against the
   specifications of ObjSpec.v: attributes (C11), the dispatch algebra (C09) and
   the composition laws of collections (C10). *)
From Coq Require Import Lia.
From GJ Require Import Base Kernel KernelSpec Series SeriesSpec SeriesProofs Ring RingSpec PipProofs
  PairSpec Pairs PairProofs Obj ObjSpec.
Open Scope Z_scope.

(* ------------------------------------------------------------------ *)
(* induction over object trees (children nested in a list)             *)

Section ObjInd.
Variable P : obj -> Prop.
Hypothesis Hpoint : forall p, P (OPoint p).
Hypothesis Hsimple : forall p, P (OSimple p).
Hypothesis Hrect : forall r, P (ORect r).
Hypothesis Hline : forall ps, P (OLine ps).
Hypothesis Hpoly : forall rs, P (OPoly rs).
Hypothesis Hfeature : forall b, P b -> P (OFeature b).
Hypothesis Hcoll : forall k cs, Forall P cs -> P (OColl k cs).

Fixpoint obj_ind' (o : obj) : P o :=
  match o with
  | OPoint p => Hpoint p
  | OSimple p => Hsimple p
  | ORect r => Hrect r
  | OLine ps => Hline ps
  | OPoly rs => Hpoly rs
  | OFeature b => Hfeature b (obj_ind' b)
  | OColl k cs =>
      Hcoll k cs ((fix go (l : list obj) : Forall P l :=
                     match l with
                     | [] => Forall_nil P
                     | c :: r => Forall_cons c (obj_ind' c) (go r)
                     end) cs)
  end.
End ObjInd.

(* ------------------------------------------------------------------ *)
(* C11: Empty, Valid, NumPoints                                        *)

Lemma flat_map_nil_iff {A B} (f : A -> list B) (l : list A) :
  flat_map f l = [] <-> forall x, In x l -> f x = [].
Proof.
  induction l as [|a l IH]; cbn [flat_map].
  - split; [intros _ x []|reflexivity].
  - split.
    + intros H. apply app_eq_nil in H. destruct H as [H1 H2]. intros x [<-|Hx]; [exact H1|].
      apply IH; assumption.
    + intros H. rewrite (H a (or_introl eq_refl)). apply IH. intros x Hx. apply H. right; exact Hx.
Qed.

Lemma line_empty_eq ps : series_empty (mk_line ps) = (length ps <? 2)%nat.
Proof. reflexivity. Qed.

Lemma poly_empty_eq rs :
  poly_empty (mk_poly rs) = match rs with [] => true | e :: _ => (length e <? 3)%nat end.
Proof.
  unfold poly_empty, mk_poly, mk_ring, ring_empty. destruct rs as [|e hs]; cbn [exterior]; rewrite RS_empty.
  - reflexivity.
  - apply closed_series_empty.
Qed.

(* Empty() = no part occupies space *)
Theorem o_empty_spec (o : obj) : o_empty o = spec_empty o.
Proof.
  induction o as [p|p|r|ps|rs|b IH|k cs IH] using obj_ind'; unfold spec_empty; cbn [o_empty positions];
    try reflexivity.
  - rewrite line_empty_eq. destruct (Nat.ltb_spec (length ps) 2); [reflexivity|].
    destruct ps; [cbn in *; lia|reflexivity].
  - rewrite poly_empty_eq. destruct rs as [|e hs]; [reflexivity|].
    destruct (Nat.ltb_spec (length e) 3); [reflexivity|]. destruct e; [cbn in *; lia|reflexivity].
  - exact IH.
  - induction cs as [|c cs IHcs]; [reflexivity|].
    cbn [forallb flat_map]. inversion IH as [|? ? Hc Hcs]; subst.
    rewrite Hc. unfold spec_empty at 1. destruct (positions c) eqn:E; cbn [andb app].
    + apply IHcs. exact Hcs.
    + reflexivity.
Qed.

Lemma forallb_flat_map {A B} (f : B -> bool) (g : A -> list B) (l : list A) :
  forallb f (flat_map g l) = forallb (fun x => forallb f (g x)) l.
Proof.
  induction l as [|a l IH]; [reflexivity|]. cbn [flat_map forallb]. rewrite forallb_app, IH. reflexivity.
Qed.

Lemma forallb_concat {A} (f : A -> bool) (ll : list (list A)) :
  forallb f (concat ll) = forallb (forallb f) ll.
Proof.
  induction ll as [|l ll IH]; [reflexivity|]. cbn [concat forallb]. rewrite forallb_app, IH. reflexivity.
Qed.

Lemma forallb_ext_in {A} (f g : A -> bool) (l : list A) :
  Forall (fun x => f x = g x) l -> forallb f l = forallb g l.
Proof. induction 1 as [|x l Hx Hl IH]; [reflexivity|]. cbn [forallb]. rewrite Hx, IH. reflexivity. Qed.

(* Valid() = every position (occupied or not) is in range *)
Theorem o_valid_spec (l180 l90 : Z) (o : obj) : o_valid l180 l90 o = spec_valid l180 l90 o.
Proof.
  unfold spec_valid.
  induction o as [p|p|r|ps|rs|b IH|k cs IH] using obj_ind'; cbn [o_valid all_positions forallb].
  - unfold pt_valid. rewrite andb_true_r. reflexivity.
  - unfold pt_valid. rewrite andb_true_r. reflexivity.
  - unfold rect_valid, pt_valid. rewrite andb_true_r. reflexivity.
  - reflexivity.
  - rewrite forallb_concat. reflexivity.
  - exact IH.
  - rewrite forallb_flat_map. apply forallb_ext_in. exact IH.
Qed.

Lemma fold_right_len_concat (rs : list (list pt)) :
  fold_right (fun r acc => Z.of_nat (length r) + acc) 0 rs = Z.of_nat (length (concat rs)).
Proof.
  induction rs as [|r rs IH]; [reflexivity|]. cbn [fold_right concat]. rewrite app_length, IH. lia.
Qed.

(* NumPoints() *)
Theorem o_npoints_spec (o : obj) : o_npoints o = spec_npoints o.
Proof.
  induction o as [p|p|r|ps|rs|b IH|k cs IH] using obj_ind'; cbn [o_npoints spec_npoints]; try reflexivity.
  - apply fold_right_len_concat.
  - exact IH.
  - induction IH as [|c cs Hc Hcs IHcs]; [reflexivity|]. cbn [fold_right map]. rewrite Hc, IHcs. reflexivity.
Qed.

(* ------------------------------------------------------------------ *)
(* C09: the dispatch algebra                                           *)

(* A.Within(B) = B.Contains(A), all kinds *)
Theorem within_is_contains_swapped (a b : obj) : o_within a b = o_contains b a.
Proof. reflexivity. Qed.

(* a Feature answers as its geometry: as receiver ... *)
Theorem feature_receiver_contains (a b : obj) : o_contains (OFeature a) b = o_contains a b.
Proof. reflexivity. Qed.
Theorem feature_receiver_intersects (a b : obj) : o_intersects (OFeature a) b = o_intersects a b.
Proof. reflexivity. Qed.
Theorem feature_attrs (a : obj) :
  o_empty (OFeature a) = o_empty a /\ o_rect (OFeature a) = o_rect a /\ o_npoints (OFeature a) = o_npoints a
  /\ forall l180 l90, o_valid l180 l90 (OFeature a) = o_valid l180 l90 a.
Proof. repeat split; reflexivity. Qed.

(* ... and as argument of the Spatial methods *)
Theorem feature_within_g (b : obj) (g : gshape) : o_within_g (OFeature b) g = o_within_g b g.
Proof. reflexivity. Qed.
Theorem feature_intersects_g (b : obj) (g : gshape) : o_intersects_g (OFeature b) g = o_intersects_g b g.
Proof. reflexivity. Qed.

Lemma existsb_ext_in {A} (f g : A -> bool) (l : list A) :
  Forall (fun x => f x = g x) l -> existsb f l = existsb g l.
Proof. induction 1 as [|x l Hx Hl IH]; [reflexivity|]. cbn [existsb]. rewrite Hx, IH. reflexivity. Qed.

(* ... and as argument of Contains / Intersects when it wraps a non-collection *)
Theorem feature_argument_contains (a b : obj) :
  ends_in_coll b = false -> o_contains a (OFeature b) = o_contains a b.
Proof.
  intros Hb. induction a as [p|p|r|ps|rs|a IH|k cs IH] using obj_ind'; cbn [o_contains]; try reflexivity.
  - exact IH.
  - destruct (forallb o_empty cs); [reflexivity|].
    unfold nonempty_parts_c. cbn [for_each_part]. rewrite Hb.
    assert (Hp : for_each_part b = [b]).
    { destruct b; cbn [for_each_part ends_in_coll] in *; try reflexivity; try discriminate.
      rewrite Hb. reflexivity. }
    rewrite Hp. cbn [filter o_empty].
    destruct (negb (o_empty b)); [|reflexivity]. cbn [forallb o_rect]. f_equal.
    apply existsb_ext_in. eapply Forall_impl; [|exact IH]. intros c Hc. cbv beta in *. rewrite Hc. reflexivity.
Qed.

Theorem feature_argument_intersects (a b : obj) :
  ends_in_coll b = false -> o_intersects a (OFeature b) = o_intersects a b.
Proof.
  intros Hb. induction a as [p|p|r|ps|rs|a IH|k cs IH] using obj_ind'; cbn [o_intersects]; try reflexivity.
  - exact IH.
  - unfold nonempty_parts. cbn [for_each].
    assert (Hp : for_each b = [b]) by (destruct b; cbn [for_each ends_in_coll] in *; try reflexivity; discriminate).
    rewrite Hp. cbn [filter o_empty].
    destruct (negb (o_empty b)); [|reflexivity]. cbn [existsb o_rect]. f_equal.
    apply existsb_ext_in. eapply Forall_impl; [|exact IH]. intros c Hc. cbv beta in *. rewrite Hc. reflexivity.
Qed.

(* a SimplePoint answers as the equivalent Point: receiver (definitional) and argument *)
Theorem simplepoint_receiver (p : pt) (b : obj) :
  o_contains (OSimple p) b = o_contains (OPoint p) b /\ o_intersects (OSimple p) b = o_intersects (OPoint p) b.
Proof. split; reflexivity. Qed.

Theorem simplepoint_argument (a : obj) (p : pt) :
  o_contains a (OSimple p) = o_contains a (OPoint p) /\ o_intersects a (OSimple p) = o_intersects a (OPoint p).
Proof.
  induction a as [q|q|r|ps|rs|a IH|k cs IH] using obj_ind'; cbn [o_contains o_intersects]; try (split; reflexivity).
  - exact IH.
  - unfold nonempty_parts_c, nonempty_parts. cbn [for_each_part for_each filter o_empty negb forallb existsb o_rect].
    split.
    + destruct (forallb o_empty cs); [reflexivity|]. f_equal.
      apply existsb_ext_in. eapply Forall_impl; [|exact IH]. intros c [Hc _]. cbv beta. rewrite Hc. reflexivity.
    + f_equal. apply existsb_ext_in. eapply Forall_impl; [|exact IH]. intros c [_ Hc]. cbv beta. rewrite Hc. reflexivity.
Qed.

(* leaf objects answer as the geometry-level predicates on their base geometry *)
Theorem leaf_contains (a b : obj) (ga gb : gshape) :
  leaf_geom a = Some ga -> leaf_geom b = Some gb -> o_contains a b = gcb ga gb.
Proof.
  destruct a; cbn [leaf_geom]; intros Ha; inversion Ha; subst;
    destruct b; cbn [leaf_geom]; intros Hb; inversion Hb; subst; reflexivity.
Qed.

Theorem leaf_intersects (a b : obj) (ga gb : gshape) :
  leaf_geom a = Some ga -> leaf_geom b = Some gb -> o_intersects a b = g_intersects gb ga.
Proof.
  destruct a; cbn [leaf_geom]; intros Ha; inversion Ha; subst;
    destruct b; cbn [leaf_geom]; intros Hb; inversion Hb; subst; reflexivity.
Qed.

(* ------------------------------------------------------------------ *)
(* C10: collections                                                    *)

Theorem coll_empty_spec k cs : o_empty (OColl k cs) = forallb o_empty cs.
Proof. reflexivity. Qed.

Theorem coll_npoints_spec k cs : o_npoints (OColl k cs) = fold_right Z.add 0 (map o_npoints cs).
Proof.
  cbn [o_npoints]. induction cs as [|c cs IH]; [reflexivity|]. cbn [fold_right map]. rewrite IH. reflexivity.
Qed.

Lemma in_combine_seq (cs : list obj) : forall s c j,
  In (c, j) (combine cs (seq s (length cs))) <-> (s <= j)%nat /\ nth_error cs (j - s) = Some c.
Proof.
  induction cs as [|x cs IH]; intros s c j; cbn [length seq combine].
  - split; [intros []|]. intros [_ H]. destruct (j - s)%nat; discriminate.
  - cbn [In]. rewrite IH. split.
    + intros [E|[H1 H2]].
      * inversion E; subst. split; [lia|]. rewrite Nat.sub_diag. reflexivity.
      * split; [lia|]. replace (j - s)%nat with (S (j - S s)) by lia. exact H2.
    + intros [H1 H2]. destruct (Nat.eq_dec j s) as [->|Hne].
      * rewrite Nat.sub_diag in H2. cbn in H2. inversion H2; subst. left; reflexivity.
      * right. split; [lia|]. replace (j - s)%nat with (S (j - S s)) in H2 by lia. exact H2.
Qed.

(* Search reports exactly the non-empty children whose rectangle meets the query,
   in document order, each once *)
Theorem coll_search_spec (cs : list obj) (q : rect) (i : nat) :
  In i (o_search cs q) <->
  exists c, nth_error cs i = Some c /\ o_empty c = false /\ rect_intersects_rect (o_rect c) q = true.
Proof.
  unfold o_search. rewrite in_map_iff. split.
  - intros ([c j] & E & Hin). cbn [snd] in E. subst j. apply filter_In in Hin. destruct Hin as [Hin Hv].
    cbn [fst] in Hv. unfold visits in Hv. apply andb_true_iff in Hv. destruct Hv as [He Hr].
    apply negb_true_iff in He. exists c. split; [|split; assumption].
    apply in_combine_seq in Hin. destruct Hin as [_ Hin]. rewrite Nat.sub_0_r in Hin. exact Hin.
  - intros (c & Hn & He & Hr). exists (c, i). split; [reflexivity|]. apply filter_In. split.
    + apply in_combine_seq. split; [lia|]. rewrite Nat.sub_0_r. exact Hn.
    + cbn [fst]. unfold visits. rewrite He, Hr. reflexivity.
Qed.

Theorem coll_search_nodup (cs : list obj) (q : rect) : NoDup (o_search cs q).
Proof.
  unfold o_search.
  assert (G : forall s (l : list obj), NoDup (map snd (filter (fun ci : obj * nat => visits (o_empty (fst ci)) (o_rect (fst ci)) q)
                                                 (combine l (seq s (length l)))))
              /\ forall j, In j (map snd (filter (fun ci : obj * nat => visits (o_empty (fst ci)) (o_rect (fst ci)) q)
                                                 (combine l (seq s (length l))))) -> (s <= j)%nat).
  { intros s l. revert s. induction l as [|x l IH]; intros s; cbn [length seq combine filter map].
    - split; [constructor|intros j []].
    - destruct (IH (S s)) as [N B].
      destruct (visits (o_empty (fst (x, s))) (o_rect (fst (x, s))) q); cbn [map snd].
      + split.
        * constructor; [|exact N]. intros Hin. apply B in Hin. lia.
        * intros j [<-|Hj]; [lia|]. apply B in Hj. lia.
      + split; [exact N|]. intros j Hj. apply B in Hj. lia. }
  apply (G 0%nat cs).
Qed.

(* a consumer that stops after k callbacks sees the first k of them *)
Theorem coll_search_early_stop (cs : list obj) (q : rect) (k : nat) :
  length (firstn k (o_search cs q)) = Nat.min k (length (o_search cs q)).
Proof. apply firstn_length. Qed.

(* intersects X: some non-empty child (whose rectangle meets the part's) intersects
   some non-empty part of X *)
Theorem coll_intersects_spec k cs x :
  o_intersects (OColl k cs) x = true <->
  exists c p, In c cs /\ In p (for_each x) /\ o_empty c = false /\ o_empty p = false /\
              rect_intersects_rect (o_rect c) (o_rect p) = true /\ o_intersects c p = true.
Proof.
  cbn [o_intersects]. unfold nonempty_parts. rewrite existsb_exists. split.
  - intros (p & Hp & H). apply filter_In in Hp. destruct Hp as [Hp He]. apply negb_true_iff in He.
    apply existsb_exists in H. destruct H as (c & Hc & H). unfold visits in H.
    rewrite !andb_true_iff, negb_true_iff in H. destruct H as [[H1 H2] H3].
    exists c, p. auto 10.
  - intros (c & p & Hc & Hp & Ec & Ep & Hr & Hi). exists p. split.
    + apply filter_In. split; [exact Hp|]. rewrite Ep. reflexivity.
    + apply existsb_exists. exists c. split; [exact Hc|]. unfold visits. rewrite Ec, Hr, Hi. reflexivity.
Qed.

(* contains X: non-empty, X has a non-empty part, and every non-empty part of X is
   contained by some non-empty child (whose rectangle meets the part's) *)
Theorem coll_contains_spec k cs x :
  o_contains (OColl k cs) x = true <->
  o_empty (OColl k cs) = false /\ nonempty_parts_c x <> [] /\
  forall p, In p (nonempty_parts_c x) ->
    exists c, In c cs /\ o_empty c = false /\ rect_intersects_rect (o_rect c) (o_rect p) = true /\ o_contains c p = true.
Proof.
  cbn [o_contains o_empty]. destruct (forallb o_empty cs); [split; [discriminate|intros [H _]; discriminate]|].
  destruct (nonempty_parts_c x) as [|p0 ps] eqn:E.
  - split; [discriminate|]. intros (_ & H & _). congruence.
  - rewrite forallb_forall. split.
    + intros H. split; [reflexivity|]. split; [discriminate|]. intros p Hp. specialize (H p Hp).
      apply existsb_exists in H. destruct H as (c & Hc & H). unfold visits in H.
      rewrite !andb_true_iff, negb_true_iff in H. destruct H as [[H1 H2] H3]. exists c. auto.
    + intros (_ & _ & H) p Hp. destruct (H p Hp) as (c & Hc & Ec & Hr & Hk).
      apply existsb_exists. exists c. split; [exact Hc|]. unfold visits. rewrite Ec, Hr, Hk. reflexivity.
Qed.

(* within a geometry X: non-empty and every child is non-empty, meets X's rectangle and is within X *)
Theorem coll_within_spec k cs g :
  o_within_g (OColl k cs) g = true <->
  o_empty (OColl k cs) = false /\
  forall c, In c cs -> o_empty c = false /\ rect_intersects_rect (o_rect c) (g_rect g) = true /\ o_within_g c g = true.
Proof.
  cbn [o_within_g o_empty]. rewrite andb_true_iff, negb_true_iff, forallb_forall. split.
  - intros [H1 H2]. split; [exact H1|]. intros c Hc. specialize (H2 c Hc). unfold visits in H2.
    rewrite !andb_true_iff, negb_true_iff in H2. tauto.
  - intros [H1 H2]. split; [exact H1|]. intros c Hc. destruct (H2 c Hc) as (A & B & C).
    unfold visits. rewrite A, B, C. reflexivity.
Qed.

Print Assumptions o_empty_spec.
Print Assumptions o_valid_spec.
Print Assumptions coll_search_spec.
Print Assumptions coll_contains_spec.
Print Assumptions feature_argument_contains.

(* ------------------------------------------------------------------ *)
(* C11: Rect() is the tight box over every occupied position           *)

Lemma fold_min_comm (l : list Z) : forall a b, fold_left Z.min l (Z.min a b) = Z.min a (fold_left Z.min l b).
Proof. induction l as [|x l IH]; intros a b; cbn [fold_left]; [reflexivity|]. rewrite <- Z.min_assoc. apply IH. Qed.
Lemma fold_max_comm (l : list Z) : forall a b, fold_left Z.max l (Z.max a b) = Z.max a (fold_left Z.max l b).
Proof. induction l as [|x l IH]; intros a b; cbn [fold_left]; [reflexivity|]. rewrite <- Z.max_assoc. apply IH. Qed.

Lemma min_list_app (f : pt -> Z) p r q r' :
  min_list (f p) (map f (r ++ q :: r')) = Z.min (min_list (f p) (map f r)) (min_list (f q) (map f r')).
Proof.
  unfold min_list. rewrite map_app, fold_left_app. cbn [map fold_left].
  rewrite fold_min_comm. reflexivity.
Qed.
Lemma max_list_app (f : pt -> Z) p r q r' :
  max_list (f p) (map f (r ++ q :: r')) = Z.max (max_list (f p) (map f r)) (max_list (f q) (map f r')).
Proof.
  unfold max_list. rewrite map_app, fold_left_app. cbn [map fold_left].
  rewrite fold_max_comm. reflexivity.
Qed.

Lemma union_rects_minmax (a b : rect) :
  union_rects a b =
  ((Z.min (px (fst a)) (px (fst b)), Z.min (py (fst a)) (py (fst b))),
   (Z.max (px (snd a)) (px (snd b)), Z.max (py (snd a)) (py (snd b)))).
Proof.
  destruct a as [[a1 a2] [a3 a4]], b as [[b1 b2] [b3 b4]]. unfold union_rects, px, py. cbn [fst snd].
  destruct (Z.ltb_spec b1 a1), (Z.ltb_spec b2 a2), (Z.ltb_spec a3 b3), (Z.ltb_spec a4 b4);
    repeat f_equal; lia.
Qed.

(* the union of two tight boxes is the tight box of the concatenation *)
Lemma union_bbox (l1 l2 : list pt) : l1 <> [] -> l2 <> [] ->
  union_rects (bbox_spec l1) (bbox_spec l2) = bbox_spec (l1 ++ l2).
Proof.
  intros H1 H2. destruct l1 as [|p r]; [congruence|]. destruct l2 as [|q r']; [congruence|].
  rewrite union_rects_minmax. cbn [bbox_spec app fst snd]. unfold px at 1 2 5 6, py at 1 2 5 6. cbn [fst snd].
  rewrite (min_list_app px), (min_list_app py), (max_list_app px), (max_list_app py). reflexivity.
Qed.

(* every ORect of the tree has min <= max *)
Fixpoint obj_wf (o : obj) : Prop :=
  match o with
  | ORect r => rect_wf r
  | OFeature b => obj_wf b
  | OColl _ cs => (fix all (l : list obj) : Prop := match l with [] => True | c :: r => obj_wf c /\ all r end) cs
  | _ => True
  end.

Lemma obj_wf_coll k cs : obj_wf (OColl k cs) <-> Forall obj_wf cs.
Proof.
  cbn [obj_wf]. induction cs as [|c cs IH]; [split; [constructor|trivial]|].
  split.
  - intros [H1 H2]. constructor; [exact H1|]. apply IH. exact H2.
  - intros H. inversion H; subst. split; [assumption|]. apply IH. assumption.
Qed.

Lemma spec_empty_false_iff o : spec_empty o = false <-> positions o <> [].
Proof. unfold spec_empty. destruct (positions o); split; congruence. Qed.

(* the cached rectangle of a collection, by the number of non-empty children seen *)
Lemma coll_rect_fold (n : nat) (cs : list obj) :
  Forall (fun c => o_empty c = false -> o_rect c = bbox_spec (positions c)) cs ->
  forall (pre : list pt) (count : nat) (prect : rect),
    (count = 0%nat <-> pre = []) -> (count <> 0%nat -> prect = bbox_spec pre) ->
    (count <> 0%nat -> n <> 1%nat) \/ (forall c, In c cs -> o_empty c = true) ->
    (n = 1%nat -> (count + length cs <= 1)%nat) ->
    let st := fold_left (coll_rect_step n) (map (fun c => (o_empty c, o_rect c)) cs) (count, prect) in
    (fst st = 0%nat <-> pre ++ flat_map positions cs = []) /\
    (fst st <> 0%nat -> snd st = bbox_spec (pre ++ flat_map positions cs)).
Proof.
  intros HF. induction HF as [|c cs Hc Hcs IH]; intros pre count prect Hz Hr Hq Hn; cbn [map fold_left flat_map]; cbv zeta.
  - rewrite app_nil_r. cbn [fst snd]. split; assumption.
  - destruct (o_empty c) eqn:Ec.
    + assert (Ep : positions c = []).
      { rewrite o_empty_spec in Ec. unfold spec_empty in Ec. destruct (positions c); [reflexivity|discriminate]. }
      rewrite Ep. cbn [app].
      change (coll_rect_step n (count, prect) (true, o_rect c)) with (count, prect).
      apply IH; try assumption.
      * destruct Hq as [Hq|Hq]; [left; exact Hq|right; intros x Hx; apply Hq; right; exact Hx].
      * intros E. specialize (Hn E). cbn [length] in Hn. lia.
    + assert (Ep : positions c <> []).
      { rewrite o_empty_spec in Ec. apply spec_empty_false_iff. exact Ec. }
      specialize (Hc eq_refl).
      assert (Hn1 : n = 1%nat -> count = 0%nat /\ cs = []).
      { intros E. specialize (Hn E). cbn [length] in Hn. split; [lia|]. destruct cs; [reflexivity|cbn in Hn; lia]. }
      destruct (Nat.eqb_spec count 0) as [E0|E0].
      * (* first non-empty child *)
        assert (pre = []) by (apply Hz; exact E0). subst pre. cbn [app].
        assert (Hs : coll_rect_step n (count, prect) (false, o_rect c) = (S count, o_rect c)).
        { unfold coll_rect_step. rewrite E0. reflexivity. }
        rewrite Hs.
        apply (IH (positions c) (S count) (o_rect c)).
        -- split; [lia|intros E; congruence].
        -- intros _. exact Hc.
        -- destruct (Nat.eq_dec n 1) as [E1|E1].
           ++ right. destruct (Hn1 E1) as [_ ->]. intros x [].
           ++ left. intros _. exact E1.
        -- intros E. destruct (Hn1 E) as [-> ->]. cbn. lia.
      * destruct (Nat.eqb_spec n 1) as [E1|E1].
        -- destruct (Hn1 E1) as [Ez _]. congruence.
        -- assert (Hpre : pre <> []) by (intros E; apply E0, Hz, E).
           assert (Hs : coll_rect_step n (count, prect) (false, o_rect c) = (S count, union_rects prect (o_rect c))).
           { unfold coll_rect_step. destruct (Nat.eqb_spec count 0); [congruence|].
             destruct (Nat.eqb_spec n 1); [congruence|]. reflexivity. }
           rewrite Hs, app_assoc.
           apply (IH (pre ++ positions c) (S count) (union_rects prect (o_rect c))).
           ++ split; [lia|]. intros E. apply app_eq_nil in E. tauto.
           ++ intros _. rewrite (Hr E0), Hc. apply union_bbox; assumption.
           ++ left. intros _. exact E1.
           ++ intros E. congruence.
Qed.

Theorem o_rect_spec (o : obj) : obj_wf o -> o_empty o = false -> o_rect o = bbox_spec (positions o).
Proof.
  induction o as [p|p|r|ps|rs|b IH|k cs IH] using obj_ind'; intros Hw He; cbn [o_rect positions].
  - destruct p; reflexivity.
  - destruct p; reflexivity.
  - destruct r as [[a b] [c d]]. destruct Hw as [H1 H2]. unfold px, py in *. cbn [fst snd] in *.
    unfold bbox_spec, min_list, max_list, px, py. cbn [map fold_left fst snd].
    rewrite !Z.min_l, !Z.max_r by lia. reflexivity.
  - cbn [o_empty] in He. rewrite line_empty_eq in He. rewrite He.
    rewrite series_rect_spec by (unfold mk_line, series_empty, npoints; cbn [closed pts andb orb]; exact He).
    reflexivity.
  - cbn [o_empty] in He. rewrite poly_empty_eq in He. destruct rs as [|e hs]; [discriminate|]. rewrite He.
    unfold poly_rect, mk_poly, mk_ring, ring_rect. cbn [exterior]. rewrite RS_rect.
    rewrite series_rect_spec by (rewrite closed_series_empty; exact He). reflexivity.
  - apply IH; assumption.
  - unfold coll_rect. rewrite map_length.
    assert (HF : Forall (fun c => o_empty c = false -> o_rect c = bbox_spec (positions c)) cs).
    { apply obj_wf_coll in Hw. rewrite Forall_forall in *. intros c Hc Ec. apply IH; auto. }
    pose proof (coll_rect_fold (length cs) cs HF [] 0%nat zrect) as G. cbv zeta in G. cbn [app] in G.
    destruct G as [G1 G2].
    + split; reflexivity.
    + intros H; congruence.
    + left. intros H; congruence.
    + intros E. lia.
    + apply G2. intros E. apply G1 in E.
      rewrite o_empty_spec in He. unfold spec_empty in He. cbn [positions] in He. rewrite E in He. discriminate.
Qed.

(* Center() = the midpoint of that box (twice it, to stay on the grid), the position itself for points *)
Theorem o_center_spec (o : obj) : obj_wf o -> o_empty o = false -> o_center2 o = spec_center2 o.
Proof.
  intros Hw He. destruct o; try reflexivity;
    unfold o_center2, spec_center2, spec_rect, rect_center2; rewrite (o_rect_spec _ Hw He);
    cbv zeta; f_equal; lia.
Qed.

Print Assumptions o_rect_spec.
Print Assumptions o_center_spec.
