(* SphereRectFull.v — property C14 over the reals, all branches: the rectangle
   RectFromCenter returns (latitude band, tangent longitude, clamping at a pole,
   widening to the full longitude range when a pole is reached or the band
   crosses the antimeridian) contains every location within the angular radius
   of the centre, longitudes read modulo a full turn.  Excluded: the radii below
   the resolution guard (degenerate rectangle by design) and the measure-zero
   case of a disc exactly tangent to a pole (the quotient is 0/0 there). *)
From Coq Require Import Reals Lra Lia.
From GJ Require Import Sphere SphereRect.
Open Scope R_scope.

(* geo.go RectFromCenter after the guard, in radians; r = meters / earthRadius *)
Definition rfc (lat0 lon0 r : R) : R * R * R * R :=
  let p0 := rad lat0 in let l0 := rad lon0 in
  let mnLat := p0 - r in let mxLat := p0 + r in
  let d := atan (sin r / sqrt (cos mxLat * cos mnLat)) in
  let mnLon := l0 - d in let mxLon := l0 + d in
  let '(mnLon1, mxLat1, mxLon1) := if Rlt_dec (PI / 2) mxLat then (- PI, PI / 2, PI) else (mnLon, mxLat, mxLon) in
  let '(mnLat2, mnLon2, mxLon2) := if Rlt_dec mnLat (- (PI / 2)) then (- (PI / 2), - PI, PI) else (mnLat, mnLon1, mxLon1) in
  let '(mnLon3, mxLon3) := if Rlt_dec mnLon2 (- PI) then (- PI, PI) else if Rlt_dec PI mxLon2 then (- PI, PI) else (mnLon2, mxLon2) in
  (mnLat2, mnLon3, mxLat1, mxLon3).

Definition lon_ok (d : R) : Prop := -180 <= d <= 180.

Lemma rad_lon_bounds d : lon_ok d -> - PI <= rad d <= PI.
Proof. unfold lon_ok, rad. pose proof PI_RGT_0. intros [A B]. split; nra. Qed.

Lemma rad_add_turn (lon : R) (j : Z) : rad (lon + 360 * IZR j) = rad lon + 2 * PI * IZR j.
Proof. unfold rad. field. Qed.

Lemma cos_turn (x : R) (j : Z) : (-1 <= j <= 1)%Z -> cos (x + 2 * PI * IZR j) = cos x.
Proof.
  intros Hj. assert (E : j = (-1)%Z \/ j = 0%Z \/ j = 1%Z) by lia. destruct E as [-> | [-> | ->] ].
  - replace (x + 2 * PI * -1) with (x - 2 * PI) by ring. rewrite <- (cos_period (x - 2 * PI) 1). f_equal. simpl. ring.
  - f_equal. ring.
  - rewrite <- (cos_period x 1). f_equal. simpl. ring.
Qed.

Lemma hav_turn (lat0 lon0 lat lon : R) (j : Z) : (-1 <= j <= 1)%Z -> hav lat0 lon0 lat (lon + 360 * IZR j) = hav lat0 lon0 lat lon.
Proof.
  intros Hj. rewrite !hav_cos, rad_add_turn.
  replace (rad lon + 2 * PI * IZR j - rad lon0) with (rad lon - rad lon0 + 2 * PI * IZR j) by ring.
  rewrite (cos_turn _ j Hj). reflexivity.
Qed.

Theorem rfc_covers (lat0 lon0 r lat lon : R) :
  lat_ok lat0 -> lon_ok lon0 -> lat_ok lat -> lon_ok lon -> 0 <= r <= PI ->
  Rabs (rad lat0) + r <> PI / 2 ->
  hav lat0 lon0 lat lon <= sin (r / 2) * sin (r / 2) ->
  let '(mnLat, mnLon, mxLat, mxLon) := rfc lat0 lon0 r in
  mnLat <= rad lat <= mxLat /\
  exists j : Z, (-1 <= j <= 1)%Z /\ mnLon <= rad lon + 2 * PI * IZR j <= mxLon.
Proof.
  intros H0 HL0 H1 HL1 Hr Htan Hh. pose proof PI_RGT_0 as Hpi.
  pose proof (disc_latitude_band lat0 lon0 lat lon r H0 H1 Hr Hh) as Hband.
  pose proof (rad_lat_bounds lat0 H0) as B0. pose proof (rad_lat_bounds lat H1) as B1.
  pose proof (rad_lon_bounds lon0 HL0) as BL0. pose proof (rad_lon_bounds lon HL1) as BL1.
  assert (Hb : rad lat0 - r <= rad lat <= rad lat0 + r) by (unfold Rabs in Hband; destruct (Rcase_abs (rad lat - rad lat0)); lra).
  unfold rfc. cbv zeta.
  set (d := atan (sin r / sqrt (cos (rad lat0 + r) * cos (rad lat0 - r)))).
  destruct (Rlt_dec (PI / 2) (rad lat0 + r)) as [North|NoNorth].
  { (* the disc reaches the north pole: full longitude range *)
    destruct (Rlt_dec (rad lat0 - r) (- (PI / 2))) as [South|NoSouth];
      destruct (Rlt_dec (- PI) (- PI)) as [F|_]; try lra; destruct (Rlt_dec PI PI) as [F|_]; try lra;
      (split; [lra|exists 0%Z; split; [lia|]; rewrite Rmult_0_r, Rplus_0_r; lra]). }
  destruct (Rlt_dec (rad lat0 - r) (- (PI / 2))) as [South|NoSouth].
  { destruct (Rlt_dec (- PI) (- PI)) as [F|_]; try lra. destruct (Rlt_dec PI PI) as [F|_]; try lra.
    split; [lra|exists 0%Z; split; [lia|]; rewrite Rmult_0_r, Rplus_0_r; lra]. }
  (* neither pole *)
  assert (Hclear : Rabs (rad lat0) + r < PI / 2).
  { unfold Rabs in *. destruct (Rcase_abs (rad lat0)); lra. }
  assert (Ed : d = asin (sin r / cos (rad lat0))) by (unfold d; apply rect_lon_is_tangent_longitude; lra).
  destruct (Rlt_dec (rad lon0 - d) (- PI)) as [WrapL|NoWrapL].
  { split; [lra|exists 0%Z; split; [lia|]; rewrite Rmult_0_r, Rplus_0_r; lra]. }
  destruct (Rlt_dec PI (rad lon0 + d)) as [WrapR|NoWrapR].
  { split; [lra|exists 0%Z; split; [lia|]; rewrite Rmult_0_r, Rplus_0_r; lra]. }
  split; [lra|].
  (* choose the turn that brings the longitude difference into [-PI, PI] *)
  set (L := rad lon - rad lon0).
  assert (Hj : exists j : Z, (-1 <= j <= 1)%Z /\ - PI <= L + 2 * PI * IZR j <= PI).
  { destruct (Rlt_dec PI L) as [Big|NotBig]; [exists (-1)%Z; split; [lia|]; unfold L in *; simpl; lra|].
    destruct (Rlt_dec L (- PI)) as [Small|NotSmall]; [exists 1%Z; split; [lia|]; unfold L in *; simpl; lra|].
    exists 0%Z. split; [lia|]. simpl. lra. }
  destruct Hj as (j & Hj & HLj). exists j. split; [exact Hj|].
  assert (Hhj : hav lat0 lon0 lat (lon + 360 * IZR j) <= sin (r / 2) * sin (r / 2)) by (rewrite (hav_turn _ _ _ _ j Hj); exact Hh).
  pose proof (disc_longitude_band lat0 lon0 lat (lon + 360 * IZR j) r H0 H1 (proj1 Hr) Hclear) as Band.
  rewrite rad_add_turn in Band.
  assert (Hrange : - PI <= rad lon + 2 * PI * IZR j - rad lon0 <= PI) by (unfold L in HLj; lra).
  specialize (Band Hrange Hhj). rewrite <- Ed in Band.
  unfold Rabs in Band. destruct (Rcase_abs (rad lon + 2 * PI * IZR j - rad lon0)); lra.
Qed.

(* the rectangle lies within the world bounds *)
Theorem rfc_in_bounds (lat0 lon0 r : R) :
  let '(mnLat, mnLon, mxLat, mxLon) := rfc lat0 lon0 r in
  - (PI / 2) <= mnLat /\ mxLat <= PI / 2 /\ - PI <= mnLon /\ mxLon <= PI.
Proof.
  pose proof PI_RGT_0 as Hpi. unfold rfc. cbv zeta.
  set (d := atan (sin r / sqrt (cos (rad lat0 + r) * cos (rad lat0 - r)))).
  destruct (Rlt_dec (PI / 2) (rad lat0 + r)) as [North|NoNorth];
    destruct (Rlt_dec (rad lat0 - r) (- (PI / 2))) as [South|NoSouth];
    try (destruct (Rlt_dec (- PI) (- PI)) as [F|_]; [lra|]; destruct (Rlt_dec PI PI) as [F|_]; [lra|]; repeat split; lra).
  destruct (Rlt_dec (rad lon0 - d) (- PI)) as [WrapL|NoWrapL]; [repeat split; lra|].
  destruct (Rlt_dec PI (rad lon0 + d)) as [WrapR|NoWrapR]; repeat split; lra.
Qed.

Print Assumptions rfc_covers.
