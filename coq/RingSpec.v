(* RingSpec.v — point-membership specifications (property C01), from its text:
   boundary, crossing parity (half-open rule), holes exclusive with their
   boundary belonging to the polygon. Independent of the code's shape. *)
From GJ Require Import Base Kernel KernelSpec Series SeriesSpec.

Definition on_boundaryb (sgs : list seg) (p : pt) : bool := existsb (fun s => on_segb s p) sgs.
Definition on_boundary (sgs : list seg) (p : pt) : Prop := exists s, In s sgs /\ on_seg s p.

(* parity of the number of edges crossed by the rightward ray *)
Definition parityb (sgs : list seg) (p : pt) : bool :=
  fold_right (fun s acc => xorb (crossesb s p) acc) false sgs.

Definition in_ringb (sgs : list seg) (p : pt) : bool := on_boundaryb sgs p || parityb sgs p.
Definition strictly_in_ringb (sgs : list seg) (p : pt) : bool := negb (on_boundaryb sgs p) && parityb sgs p.

(* polygon = exterior ring's edges + holes' edges *)
Definition in_polyb (ext : list seg) (hs : list (list seg)) (p : pt) : bool :=
  in_ringb ext p && forallb (fun h => negb (strictly_in_ringb h p)) hs.

Definition in_rectb (r : rect) (p : pt) : bool :=
  (px (fst r) <=? px p) && (px p <=? px (snd r)) && (py (fst r) <=? py p) && (py p <=? py (snd r)).

Definition in_lineb (ps : list pt) (p : pt) : bool := on_boundaryb (path_segs ps) p.

(* edges of a ring given by its points (closed series): the segment rule *)
Definition ring_edges (ps : list pt) : list seg := segments_spec {| closed := true; pts := ps |}.
