(* TieTac.v — support for the generated file of tools/gotrans (the Go -> Gallina
   translator of the straight-line geometry kernels): fractions compared by
   cross multiplication, and the tactic that proves "translated Go function =
   model function" for all inputs.  The tactic is semantic — it case-splits on
   the integer comparisons (and on the untranslated Raycast answers, as opaque
   booleans) and closes every branch by linear arithmetic — so it does not
   depend on how the Go code words its conditions. *)
From Coq Require Import ZArith Bool Lia.
From GJ Require Import Base Kernel Ring Obj.
Open Scope Z_scope.

(* n1/d1 < n2/d2 etc. for non-zero denominators *)
Definition qlt (n1 d1 n2 d2 : Z) : bool := if 0 <? d1 * d2 then n1 * d2 <? n2 * d1 else n2 * d1 <? n1 * d2.
Definition qle (n1 d1 n2 d2 : Z) : bool := if 0 <? d1 * d2 then n1 * d2 <=? n2 * d1 else n2 * d1 <=? n1 * d2.
Definition qeq (n1 d1 n2 d2 : Z) : bool := n1 * d2 =? n2 * d1.

Ltac tie_destruct_args :=
  repeat match goal with
  | x : pt |- _ => destruct x
  | x : seg |- _ => destruct x
  | x : rect |- _ => destruct x
  | x : (_ * _)%type |- _ => destruct x
  end.

Ltac tie_simpl := cbn [andb orb negb xorb Bool.eqb fst snd].

(* answers of the algorithms that are not translated (loops): opaque booleans *)
Ltac tie_opaque_in c :=
  let go t := (let b := fresh "opq" in set (b := t) in *; clearbody b; destruct b) in
  match c with
  | context [raycast_on ?s ?p] => go (raycast_on s p)
  | context [raycast_in ?s ?p] => go (raycast_in s p)
  | context [ring_empty ?l] => go (ring_empty l)
  | context [poly_empty ?l] => go (poly_empty l)
  | context [ring_intersects_line ?a ?b ?c] => go (ring_intersects_line a b c)
  | context [ring_intersects_ring ?a ?b ?c] => go (ring_intersects_ring a b c)
  | context [ring_contains_ring ?a ?b ?c] => go (ring_contains_ring a b c)
  | context [line_contains_point_r ?a ?b] => go (line_contains_point_r a b)
  | context [line_intersects_line ?a ?b] => go (line_intersects_line a b)
  | context [poly_contains_point ?a ?b] => go (poly_contains_point a b)
  | context [poly_contains_poly ?a ?b] => go (poly_contains_poly a b)
  | context [poly_intersects_poly ?a ?b] => go (poly_intersects_poly a b)
  | context [poly_contains_line ?a ?b] => go (poly_contains_line a b)
  | context [poly_intersects_line ?a ?b] => go (poly_intersects_line a b)
  end.

Ltac tie_step :=
  match goal with
  | |- ?g => tie_opaque_in g
  | |- context [?x <? ?y] => destruct (Z.ltb_spec x y)
  | |- context [?x <=? ?y] => destruct (Z.leb_spec x y)
  | |- context [?x =? ?y] => destruct (Z.eqb_spec x y)
  end; tie_simpl; try lia.

(* split on an atom of the condition that decides the outermost [if] of either side first:
   then only one branch survives and shared continuations are never split more than once per path *)
Ltac tie_atom c :=
  match c with
  | _ => tie_opaque_in c
  | context [?x <? ?y] => destruct (Z.ltb_spec x y)
  | context [?x <=? ?y] => destruct (Z.leb_spec x y)
  | context [?x =? ?y] => destruct (Z.eqb_spec x y)
  end; tie_simpl; try lia.

Ltac tie_head :=
  match goal with
  | |- (if ?c then _ else _) = _ => tie_atom c
  | |- _ = (if ?c then _ else _) => tie_atom c
  end.

(* both sides guard the same constant: prove the guards equal once, then forget how they were worded *)
Ltac tie_bool := repeat tie_head; repeat tie_step; try reflexivity; try lia.

Ltac tie_sync :=
  match goal with
  | |- (if ?c1 then ?v else _) = (if ?c2 then ?v else _) =>
      let H := fresh "G" in
      assert (H : c1 = c2) by tie_bool;
      rewrite H; clear H;
      lazymatch c2 with
      | ?x <? ?y => destruct (Z.ltb_spec x y)
      | ?x <=? ?y => destruct (Z.leb_spec x y)
      | ?x =? ?y => destruct (Z.eqb_spec x y)
      | _ => let E := fresh "E" in destruct c2 eqn:E
      end; tie_simpl; try reflexivity
  end.

Ltac tie_finish :=
  try reflexivity; try lia; repeat (f_equal; try lia); try (exfalso; lia).

(* rectangles of opaque operands become variables *)
Ltac tie_abstract_rects :=
  repeat match goal with
  | |- context [ring_rect ?l] => let r := fresh "rr" in set (r := ring_rect l) in *; clearbody r
  | |- context [poly_rect ?l] => let r := fresh "rr" in set (r := poly_rect l) in *; clearbody r
  end.

Ltac tie_tac T :=
  intros; unfold T;
  repeat progress unfold rect_contains_line, rect_contains_poly, point_contains_line, point_contains_poly;
  tie_abstract_rects; tie_destruct_args;
  repeat progress unfold qlt, qle, qeq,
    rect_contains_point, rect_intersects_rect, rect_contains_rect, rect_area, rect_eqb, seg_rect,
    collinear_point, seg_contains_point, seg_contains_segment,
    intersects_segment, intersects_segment_gen, axis_disjoint, unit_frac,
    point_intersects_rect, point_contains_rect, point_rect, pt_eqb, union_rects,
    rect_contains_line, rect_intersects_line, rect_contains_poly, rect_intersects_poly,
    point_contains_line, point_intersects_line, point_contains_poly, point_intersects_poly,
    line_intersects_rect, line_intersects_poly, poly_contains_rect, poly_intersects_rect, px, py;
  unfold rect, seg, pt; tie_simpl;
  repeat first [tie_sync | tie_head]; repeat tie_step; tie_finish.
