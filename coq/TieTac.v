(* TieTac.v — support for the generated file of tools/gotrans (the Go -> Gallina
   translator of the straight-line geometry kernels): fractions compared by
   cross multiplication, and the tactic that proves "translated Go function =
   model function" for all inputs.  The tactic is semantic — it case-splits on
   the integer comparisons (and on the untranslated Raycast answers, as opaque
   booleans) and closes every branch by linear arithmetic — so it does not
   depend on how the Go code words its conditions. *)
From Coq Require Import ZArith Bool Lia.
From GJ Require Import Base Kernel Ring Obj.
Open Scope Z_scope.

(* n1/d1 < n2/d2 etc. for non-zero denominators *)
Definition qlt (n1 d1 n2 d2 : Z) : bool := if 0 <? d1 * d2 then n1 * d2 <? n2 * d1 else n2 * d1 <? n1 * d2.
Definition qle (n1 d1 n2 d2 : Z) : bool := if 0 <? d1 * d2 then n1 * d2 <=? n2 * d1 else n2 * d1 <=? n1 * d2.
Definition qeq (n1 d1 n2 d2 : Z) : bool := n1 * d2 =? n2 * d1.

Ltac tie_destruct_args :=
  repeat match goal with
  | x : pt |- _ => destruct x
  | x : seg |- _ => destruct x
  | x : rect |- _ => destruct x
  | x : (_ * _)%type |- _ => destruct x
  end.

Ltac tie_simpl := cbn [andb orb negb xorb Bool.eqb fst snd].

Ltac tie_step :=
  match goal with
  | |- context [raycast_on ?s ?p] => let b := fresh "ray" in set (b := raycast_on s p) in *; clearbody b; destruct b
  | |- context [raycast_in ?s ?p] => let b := fresh "ray" in set (b := raycast_in s p) in *; clearbody b; destruct b
  | |- context [?x <? ?y] => destruct (Z.ltb_spec x y)
  | |- context [?x <=? ?y] => destruct (Z.leb_spec x y)
  | |- context [?x =? ?y] => destruct (Z.eqb_spec x y)
  end; tie_simpl; try lia.

(* split on an atom of the condition that decides the outermost [if] of either side first:
   then only one branch survives and shared continuations are never split more than once per path *)
Ltac tie_atom c :=
  match c with
  | context [raycast_on ?s ?p] => let b := fresh "ray" in set (b := raycast_on s p) in *; clearbody b; destruct b
  | context [raycast_in ?s ?p] => let b := fresh "ray" in set (b := raycast_in s p) in *; clearbody b; destruct b
  | context [?x <? ?y] => destruct (Z.ltb_spec x y)
  | context [?x <=? ?y] => destruct (Z.leb_spec x y)
  | context [?x =? ?y] => destruct (Z.eqb_spec x y)
  end; tie_simpl; try lia.

Ltac tie_head :=
  match goal with
  | |- (if ?c then _ else _) = _ => tie_atom c
  | |- _ = (if ?c then _ else _) => tie_atom c
  end.

(* both sides guard the same constant: prove the guards equal once, then forget how they were worded *)
Ltac tie_bool := repeat tie_head; repeat tie_step; try reflexivity; try lia.

Ltac tie_sync :=
  match goal with
  | |- (if ?c1 then ?v else _) = (if ?c2 then ?v else _) =>
      let H := fresh "G" in
      assert (H : c1 = c2) by tie_bool;
      rewrite H; clear H;
      lazymatch c2 with
      | ?x <? ?y => destruct (Z.ltb_spec x y)
      | ?x <=? ?y => destruct (Z.leb_spec x y)
      | ?x =? ?y => destruct (Z.eqb_spec x y)
      | _ => let E := fresh "E" in destruct c2 eqn:E
      end; tie_simpl; try reflexivity
  end.

Ltac tie_finish :=
  try reflexivity; try lia; repeat (f_equal; try lia); try (exfalso; lia).

Ltac tie_tac T :=
  intros; tie_destruct_args;
  unfold T;
  repeat progress unfold qlt, qle, qeq,
    rect_contains_point, rect_intersects_rect, rect_contains_rect, rect_area, rect_eqb, seg_rect,
    collinear_point, seg_contains_point, seg_contains_segment,
    intersects_segment, intersects_segment_gen, axis_disjoint, unit_frac,
    point_intersects_rect, point_contains_rect, point_rect, pt_eqb, union_rects, px, py;
  unfold rect, seg, pt; tie_simpl;
  repeat first [tie_sync | tie_head]; repeat tie_step; tie_finish.
