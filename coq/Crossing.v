(* Crossing.v — the general crossing-parity theorem behind "the answer does not depend on the
   direction of the ray" (properties C01 / C12).
   For a non-horizontal grid segment L -> H (L lower) whose ends are off the boundary of a closed
   ring, the ray-to-the-right parities at L and H differ exactly by the parity of the number of
   ring edges that cross the segment under a half-open rule along it: an edge counts when one of
   its ends is strictly right of the line L->H and the other is on or left of it, and L, H are
   strictly on opposite sides of the edge.  (Jordan.v is the special case "no edge meets".)
   Taking H far away gives: the ray to the right and the ray along any non-horizontal direction
   count the same parity. *)
From Coq Require Import ZArith Bool List Lia.
From GJ Require Import Base Kernel KernelSpec Series SeriesSpec Ring RingSpec
  RaycastProofs KernelProofs IntersectsProofs IntersectsQ SeriesProofs PipProofs PairProofs Jordan.
Import ListNotations.
Open Scope Z_scope.

Definition soppb (x y : Z) : bool := ((x <? 0) && (0 <? y)) || ((y <? 0) && (0 <? x)).

(* the abstract identity: all sign patterns, L and H off the edge *)
Lemma edge_arith_general ay by_ ly hy cL cH ca cb R :
  ly < hy -> (by_ - ay) * ca + (hy - ly) * cL + (ay - ly) * R = 0 -> cH = cL + R -> cb = ca - R ->
  (cL <> 0 \/ ay = by_ \/ ly < Z.min ay by_ \/ Z.max ay by_ < ly) ->
  (cH <> 0 \/ ay = by_ \/ hy < Z.min ay by_ \/ Z.max ay by_ < hy) ->
  (cL <> 0 \/ ay <> by_ \/ by_ <> ly \/ (0 < ca /\ 0 < cb) \/ (ca < 0 /\ cb < 0)) ->
  (cH <> 0 \/ ay <> by_ \/ by_ <> hy \/ (0 < ca /\ 0 < cb) \/ (ca < 0 /\ cb < 0)) ->
  xorb (xorb (crs ay by_ ly cL) (crs ay by_ hy cH)) (xorb (fRz ly hy ay ca) (fRz ly hy by_ cb)) =
  xorb (ca <? 0) (cb <? 0) && soppb cL cH.
Proof.
  intros Hy E1 E2 E3 DL DH DL' DH'. subst cH cb.
  assert (E1b : (by_ - ay) * (ca - R) + (hy - ly) * cL + (by_ - ly) * R = 0) by lia.
  assert (E1H : (by_ - ay) * ca + (hy - ly) * (cL + R) + (ay - hy) * R = 0) by lia.
  assert (E1bH : (by_ - ay) * (ca - R) + (hy - ly) * (cL + R) + (by_ - hy) * R = 0) by lia.
  unfold crs, fRz, soppb.
  revert DL DH DL' DH' E1b E1H E1bH.
  dcmp; try reflexivity; intros DL DH DL' DH' E1b E1H E1bH; exfalso; nia.
Qed.

(* ------------------------------------------------------------------ *)
(* one edge, on points                                                  *)

Definition Xc (L H : pt) (e : seg) : bool :=
  xorb (cross L H (fst e) <? 0) (cross L H (snd e) <? 0) &&
  soppb (cross (fst e) (snd e) L) (cross (fst e) (snd e) H).

Lemma off_seg_cases (a b p : pt) : on_segb (a, b) p = false ->
  (cross a b p <> 0 \/ py a = py b \/ py p < Z.min (py a) (py b) \/ Z.max (py a) (py b) < py p) /\
  (cross a b p <> 0 \/ py a <> py b \/ py b <> py p \/ px p < Z.min (px a) (px b) \/ Z.max (px a) (px b) < px p).
Proof.
  intros Hoff. assert (Hn : ~ on_seg (a, b) p) by (rewrite <- on_segb_iff; congruence).
  split.
  - destruct (Z.eq_dec (cross a b p) 0) as [C|C]; [|left; exact C].
    destruct (Z.eq_dec (py a) (py b)) as [E|E]; [right; left; exact E|].
    destruct (Z_lt_dec (py p) (Z.min (py a) (py b))) as [?|?]; [right; right; left; assumption|].
    destruct (Z_lt_dec (Z.max (py a) (py b)) (py p)) as [?|?]; [right; right; right; assumption|].
    exfalso. apply Hn. apply collinear_in_y; [exact C|exact E|lia].
  - destruct (Z.eq_dec (cross a b p) 0) as [C|C]; [|left; exact C].
    destruct (Z.eq_dec (py a) (py b)) as [E|E]; [|right; left; exact E].
    destruct (Z.eq_dec (py b) (py p)) as [F|F]; [|right; right; left; exact F].
    destruct (Z_lt_dec (px p) (Z.min (px a) (px b))) as [?|?]; [right; right; right; left; assumption|].
    destruct (Z_lt_dec (Z.max (px a) (px b)) (px p)) as [?|?]; [right; right; right; right; assumption|].
    exfalso. apply Hn. unfold on_seg. split; [exact C|]. lia.
Qed.

Lemma edge_general (a b L H : pt) : py L < py H ->
  on_segb (a, b) L = false -> on_segb (a, b) H = false ->
  xorb (gdiff L H (a, b)) (ftel L H (a, b)) = Xc L H (a, b).
Proof.
  intros Hy OL OH. unfold gdiff, ftel, Xc. cbn [fst snd]. rewrite !crossesb_crs.
  change (fR L H a) with (fRz (py L) (py H) (py a) (cross L H a)).
  change (fR L H b) with (fRz (py L) (py H) (py b) (cross L H b)).
  destruct (off_seg_cases a b L OL) as [DL DL']. destruct (off_seg_cases a b H OH) as [DH DH'].
  apply (edge_arith_general _ _ _ _ _ _ _ _ (rxs a b L H)).
  - exact Hy.
  - apply id_E1.
  - apply id_B.
  - apply id_D.
  - exact DL.
  - exact DH.
  - destruct DL' as [?|[?|[?|Hx]]]; [left; assumption|right; left; assumption|right; right; left; assumption|].
    destruct (Z.eq_dec (cross a b L) 0) as [C|C]; [|left; exact C].
    destruct (Z.eq_dec (py a) (py b)) as [E|E]; [|right; left; exact E].
    destruct (Z.eq_dec (py b) (py L)) as [F|F]; [|right; right; left; exact F].
    right; right; right. unfold cross. rewrite E, F.
    replace ((px H - px L) * (py L - py L) - (py H - py L) * (px a - px L)) with ((py H - py L) * (px L - px a)) by ring.
    replace ((px H - px L) * (py L - py L) - (py H - py L) * (px b - px L)) with ((py H - py L) * (px L - px b)) by ring.
    assert (0 < py H - py L) by lia. destruct Hx; [right|left]; split; nia.
  - destruct DH' as [?|[?|[?|Hx]]]; [left; assumption|right; left; assumption|right; right; left; assumption|].
    destruct (Z.eq_dec (cross a b H) 0) as [C|C]; [|left; exact C].
    destruct (Z.eq_dec (py a) (py b)) as [E|E]; [|right; left; exact E].
    destruct (Z.eq_dec (py b) (py H)) as [F|F]; [|right; right; left; exact F].
    right; right; right. unfold cross. rewrite E, F.
    replace ((px H - px L) * (py H - py L) - (py H - py L) * (px a - px L)) with ((py H - py L) * (px H - px a)) by ring.
    replace ((px H - px L) * (py H - py L) - (py H - py L) * (px b - px L)) with ((py H - py L) * (px H - px b)) by ring.
    assert (0 < py H - py L) by lia. destruct Hx; [right|left]; split; nia.
Qed.

(* ------------------------------------------------------------------ *)
(* around a closed ring                                                 *)

Theorem crossing_parity (ps : list pt) (L H : pt) : py L < py H ->
  on_boundaryb (ring_edges ps) L = false -> on_boundaryb (ring_edges ps) H = false ->
  xorb (parityb (ring_edges ps) L) (parityb (ring_edges ps) H) = xfold (Xc L H) (ring_edges ps).
Proof.
  intros Hy BL BH. rewrite parity_diff.
  pose proof (ring_edges_telescope (fR L H) ps) as TE.
  change (fun s : seg => xorb (fR L H (fst s)) (fR L H (snd s))) with (ftel L H) in TE.
  rewrite <- (xorb_false_r (xfold (gdiff L H) (ring_edges ps))), <- TE, xfold_xor.
  apply xfold_ext. intros [a b] Hin. apply edge_general; [exact Hy| |].
  - unfold on_boundaryb in BL. apply (proj1 (existsb_false_iff _ _) BL (a, b) Hin).
  - unfold on_boundaryb in BH. apply (proj1 (existsb_false_iff _ _) BH (a, b) Hin).
Qed.

Print Assumptions crossing_parity.
