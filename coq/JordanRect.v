(* JordanRect.v — property C02: a Rect used as a ring (rect.go implements the
   Series interface) is the closed series of its five corner points, so the
   point-set theorems of JordanQ.v / JordanRing.v hold for Rect operands:
   rect x line string and rect x polygon-without-holes intersect exactly when
   the closed box and the other closed set share a rational point. *)
From Coq Require Import QArith ZArith Bool List Lia.
From GJ Require Import Base Kernel KernelSpec Series SeriesSpec Ring RingSpec
  RaycastProofs KernelProofs IntersectsProofs IntersectsQ SeriesProofs PipProofs PairProofs
  Invariance Jordan JordanQ JordanRing.
Import ListNotations.
Local Open Scope Z_scope.

(* Rect-as-ring = the ring made of its corner points *)
Theorem RR_as_RS (q : rect) : rect_wf q -> RR q = RS {| closed := true; pts := rect_points q |}.
Proof.
  destruct q as [[a b] [c d]]. unfold rect_wf, px, py. cbn [fst snd]. intros [Hx Hy].
  unfold RR, RS, process_points, rect_points, rect_segments, series_empty, npoints, segments_spec, turn_count.
  cbn [pts closed length Nat.ltb Nat.leb andb orb Nat.sub nthp nth map seq tri_at Nat.eqb Nat.add last hd path_segs].
  rewrite pt_eqb_refl. cbn [andb Nat.sub map seq tri_at nthp nth Nat.eqb Nat.add zcross cw_term fold_left points_rect px py fst snd].
  f_equal.
  - unfold inflate, px, py. cbn [fst snd].
    repeat (match goal with
      | |- context [?x <? ?y] => destruct (Z.ltb_spec x y)
      end; cbn [fst snd]; try lia); repeat f_equal; lia.
  - replace ((c - a) * (d - b) - (b - b) * (c - c)) with ((c - a) * (d - b)) by ring.
    replace ((c - c) * (d - d) - (d - b) * (a - c)) with ((c - a) * (d - b)) by ring.
    replace ((a - c) * (b - d) - (d - d) * (a - a)) with ((c - a) * (d - b)) by ring.
    replace ((a - a) * (b - b) - (b - d) * (c - a)) with ((c - a) * (d - b)) by ring.
    assert (Hz : 0 <= (c - a) * (d - b)) by nia. set (z := (c - a) * (d - b)) in *. clearbody z.
    unfold turn_step. cbn [Z.eqb].
    destruct (Z.ltb_spec z 0); [lia|]. destruct (Z.ltb_spec 0 z); cbn [Z.eqb fst negb]; reflexivity.
  - symmetry. apply Z.ltb_ge. nia.
Qed.

Definition scr (k : Z) (q : rect) : rect := (sc k (fst q), sc k (snd q)).

Lemma rect_points_sc k q : map (sc k) (rect_points q) = rect_points (scr k q).
Proof. destruct q as [[a b] [c d]]. reflexivity. Qed.

Lemma scr_wf k q : 0 < k -> rect_wf q -> rect_wf (scr k q).
Proof.
  destruct q as [[a b] [c d]]. unfold rect_wf, scr, sc, aff, px, py. cbn [fst snd]. intros Hk [H1 H2]. nia.
Qed.

(* membership in the ring of the corner points = membership in the closed box *)
Lemma in_ringb_rect (q : rect) (p : pt) : rect_wf q -> in_ringb (ring_edges (rect_points q)) p = in_rectb q p.
Proof.
  intros Hw. rewrite <- rcp_hit_in_ringb, <- (RR_as_RS q Hw). destruct Hw as [H1 H2]. apply rect_ring_pip; assumption.
Qed.

Lemma in_ringb_rect_at k (q : rect) (P : pt) : 0 < k -> rect_wf q ->
  in_ringb (edges_at k (rect_points q)) P = in_rectb (scr k q) P.
Proof.
  intros Hk Hw. unfold edges_at. rewrite rect_points_sc. apply in_ringb_rect. apply scr_wf; assumption.
Qed.

(* Rect.IntersectsLine / Line.IntersectsRect *)
Theorem rect_intersects_line_pointset (q : rect) (qs : list pt) : rect_wf q ->
  (rect_intersects_line q (Lr qs) = true <->
   (2 <= length qs)%nat /\
   exists sg k P, In sg (path_segs qs) /\ 0 < k /\ on_seg (sc k (fst sg), sc k (snd sg)) P /\ in_rectb (scr k q) P = true).
Proof.
  intros Hw. unfold rect_intersects_line, Lr. rewrite (RR_as_RS q Hw), ring_intersects_line_pointset.
  assert (L5 : (3 <= length (rect_points q))%nat) by (destruct q as [[a b] [c d]]; cbn; lia).
  split.
  - intros (_ & H2 & sg & Hin & k & P & Hk & Hon & Hr). split; [exact H2|]. exists sg, k, P.
    split; [exact Hin|]. split; [exact Hk|]. split; [exact Hon|].
    fold (edges_at k (rect_points q)) in Hr. rewrite in_ringb_rect_at in Hr by assumption. exact Hr.
  - intros (H2 & sg & k & P & Hin & Hk & Hon & Hr). split; [exact L5|]. split; [exact H2|]. exists sg. split; [exact Hin|].
    exists k, P. split; [exact Hk|]. split; [exact Hon|]. fold (edges_at k (rect_points q)). rewrite in_ringb_rect_at by assumption. exact Hr.
Qed.

(* Poly.IntersectsRect / Rect.IntersectsPoly, polygon without holes *)
Theorem poly_intersects_rect_noholes (e : list pt) (q : rect) : rect_wf q ->
  (poly_intersects_rect (Pg e []) q = true <->
   (3 <= length e)%nat /\
   exists k P, 0 < k /\ in_ringb (edges_at k e) P = true /\ in_rectb (scr k q) P = true).
Proof.
  intros Hw. unfold poly_intersects_rect, poly_intersects_poly, rect_poly, Pg, Rg. cbn [exterior holes map existsb].
  rewrite (RR_as_RS q Hw).
  assert (L5 : (3 <= length (rect_points q))%nat) by (destruct q as [[a b] [c d]]; cbn; lia).
  destruct (ring_intersects_ring (RS {| closed := true; pts := rect_points q |}) (RS {| closed := true; pts := e |}) true) eqn:E;
    cbn [negb].
  - apply ring_intersects_ring_pointset in E. destruct E as (_ & H3 & k & P & Hk & I1 & I2).
    split; [intros _|reflexivity]. split; [exact H3|]. exists k, P. split; [exact Hk|]. split; [exact I2|].
    rewrite in_ringb_rect_at in I1 by assumption. exact I1.
  - split; [discriminate|]. intros (H3 & k & P & Hk & I1 & I2).
    assert (ring_intersects_ring (RS {| closed := true; pts := rect_points q |}) (RS {| closed := true; pts := e |}) true = true);
      [|congruence].
    apply ring_intersects_ring_pointset. split; [exact L5|]. split; [exact H3|]. exists k, P. split; [exact Hk|].
    split; [rewrite in_ringb_rect_at by assumption; exact I2|exact I1].
Qed.

Print Assumptions RR_as_RS.
Print Assumptions rect_intersects_line_pointset.
Print Assumptions poly_intersects_rect_noholes.

(* ------------------------------------------------------------------ *)
(* the Geometry interface: Intersects does not depend on the receiver   *)
(* ------------------------------------------------------------------ *)
From GJ Require Import PairSpec Pairs.

Definition no_hole_pair (a b : shape) : Prop :=
  match a, b with
  | SPoly _ ha, SPoly _ hb => ha = [] /\ hb = []
  | _, _ => True
  end.

Theorem g_intersects_sym (a b : shape) : no_hole_pair a b ->
  g_intersects (g_of_shape a) (g_of_shape b) = g_intersects (g_of_shape b) (g_of_shape a).
Proof.
  destruct a as [p|r|ps|e hs], b as [p'|r'|ps'|e' hs']; cbn [g_of_shape g_intersects no_hole_pair]; intros H;
    try reflexivity.
  - apply pt_eqb_sym.
  - apply rect_intersects_rect_sym.
  - apply line_intersects_line_sym.
  - destruct H as [-> ->]. apply (poly_intersects_poly_noholes_sym e e').
Qed.

Print Assumptions g_intersects_sym.
