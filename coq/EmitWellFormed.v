(* EmitWellFormed.v — property C17 assembled: for every well-formed object whose
   ordinates are real values (finite or NaN/Inf, no out-of-range read of the z/m
   array) and whose stored member texts are JSON, and for every number formatter
   that prints JSON numbers, the bytes of JSON() / AppendJSON are a text of the
   JSON grammar for an object whose first member is "type": <the kind's name>. *)
From Coq Require Import Lia.
From GJ Require Import Base JsonConst Json EmitProofs JsonGrammar.
Open Scope Z_scope.

Section Emit.
Variable fmt : Z -> list Z.
Hypothesis fmt_number : forall k, num_lexeme (fmt k) = true.

Definition total_points (rings : list (list fpt)) : nat := fold_right (fun r acc => (length r + acc)%nat) 0%nat rings.

Fixpoint lex_o (o : gobj) : Prop :=
  match o with
  | JPoint p ex => fpt_ok p /\ values_ok ex 1 /\ members_lex ex
  | JSimple p => fpt_ok p
  | JRect mn mx => fpt_ok mn /\ fpt_ok mx
  | JLine ps ex => Forall fpt_ok ps /\ values_ok ex (length ps) /\ members_lex ex
  | JPoly rings ex => Forall (Forall fpt_ok) rings /\ values_ok ex (total_points rings) /\ members_lex ex
  | JFeature b ex => lex_o b /\ members_lex ex
  | JColl k cs ex => members_lex ex /\ (fix all (l : list gobj) : Prop := match l with [] => True | c :: r => lex_o c /\ all r end) cs
  | JCircle c m => fpt_ok c /\ m <> FBad
  end.

Lemma key_lex (k : list Z) (v : jv) : str_body k = true -> lex_ok v = true ->
  (str_body (fst (fst (key k, v))) && lex_ok (snd (key k, v))) = true.
Proof. intros H1 H2. cbn [key fst snd]. rewrite H1, H2. reflexivity. Qed.

Lemma extra_members_lex (ex : option extra) (props : bool) : members_lex ex ->
  forallb (fun kv : list Z * list Z * jv => str_body (fst (fst kv)) && lex_ok (snd kv)) (extra_members ex props) = true.
Proof.
  intros H. unfold extra_members.
  assert (P : forallb (fun kv : list Z * list Z * jv => str_body (fst (fst kv)) && lex_ok (snd kv)) [props_member] = true) by reflexivity.
  destruct ex as [e|]; [|destruct props; [exact P|reflexivity]].
  cbn [members_lex] in H. destruct (members e) as [ms|]; [|destruct props; [exact P|reflexivity]].
  cbn [lex_ok] in H. rewrite forallb_app. apply andb_true_iff. split; [exact H|].
  destruct props; [|reflexivity].
  destruct (first_member s_properties ms); [reflexivity|exact P].
Qed.

Lemma rings_jv_lex (rings : list (list fpt)) (ex : option extra) (n : nat) : forall pidx,
  Forall (Forall fpt_ok) rings -> values_ok ex n -> (pidx + total_points rings <= n)%nat ->
  forallb lex_ok (rings_jv fmt rings ex pidx) = true.
Proof.
  induction rings as [|r rest IH]; intros pidx Hr Hv Hn; [reflexivity|].
  cbn [rings_jv forallb]. inversion Hr; subst. cbn [total_points fold_right] in Hn.
  rewrite (series_jv_lex fmt fmt_number r ex pidx n) by (assumption || (fold (total_points rest) in Hn; lia)).
  apply IH; [assumption|assumption|fold (total_points rest) in Hn; lia].
Qed.

Lemma rect_points_ok (mn mx : fpt) : fpt_ok mn -> fpt_ok mx -> Forall fpt_ok (fpt_rect_points mn mx).
Proof. intros [A B] [C D]. unfold fpt_rect_points. repeat constructor; cbn [fst snd]; assumption. Qed.

Lemma coords_jv_lex (c : gobj) : lex_o c -> multi_child_ok c -> lex_ok (coords_jv fmt c) = true.
Proof.
  destruct c as [p ex|p|mn mx|ps ex|rings ex|b ex|k cs ex|c m]; cbn [lex_o multi_child_ok coords_jv]; intros H Hm; try contradiction.
  - destruct H as (Hp & Hv & _). apply (point_jv_lex fmt fmt_number p ex 0 1); [assumption|assumption|lia].
  - apply (point_jv_lex fmt fmt_number p None 0 1); [assumption|exact I|lia].
  - destruct H as [A B]. cbn [lex_ok forallb]. rewrite (series_jv_lex fmt fmt_number _ None 0 5); [reflexivity| |exact I|cbn; lia].
    apply rect_points_ok; assumption.
  - destruct H as (Hp & Hv & _). apply (series_jv_lex fmt fmt_number ps ex 0 (length ps)); [assumption|assumption|lia].
  - destruct H as (Hp & Hv & _). cbn [lex_ok]. destruct (rings_empty rings); [reflexivity|].
    apply (rings_jv_lex rings ex (total_points rings) 0 Hp Hv). lia.
Qed.

Theorem emit_jv_lex (o : gobj) : wf_o o -> lex_o o -> lex_ok (emit_jv fmt o) = true.
Proof.
  destruct names_lex as (Nt & Nc & Ng & Ngs & Nf & Np & Nr & Nru & Nm & NC & NP & NL & NPo & NF & NMP & NML & NMPo & NGC & NFC).
  induction o as [p ex|p|mn mx|ps ex|rings ex|b ex IH|k cs ex IH|c m] using gobj_ind'; intros Hw Hl.
  - cbn [lex_o] in Hl. destruct Hl as (Hp & Hv & Hm). cbn [emit_jv lex_ok forallb].
    apply andb_true_iff; split; [apply key_lex; [exact Nt|exact NP]|].
    apply andb_true_iff; split; [apply key_lex; [exact Nc|]|apply extra_members_lex; exact Hm].
    apply (point_jv_lex fmt fmt_number p ex 0 1); [assumption|assumption|lia].
  - cbn [lex_o] in Hl. cbn [emit_jv lex_ok forallb].
    apply andb_true_iff; split; [apply key_lex; [exact Nt|exact NP]|].
    apply andb_true_iff; split; [apply key_lex; [exact Nc|]|reflexivity].
    apply (point_jv_lex fmt fmt_number p None 0 1); [assumption|exact I|lia].
  - cbn [lex_o] in Hl. destruct Hl as [A B]. cbn [emit_jv lex_ok forallb].
    apply andb_true_iff; split; [apply key_lex; [exact Nt|exact NPo]|].
    apply andb_true_iff; split; [apply key_lex; [exact Nc|]|reflexivity].
    cbn [lex_ok forallb]. rewrite (series_jv_lex fmt fmt_number _ None 0 5); [reflexivity|apply rect_points_ok; assumption|exact I|cbn; lia].
  - cbn [lex_o] in Hl. destruct Hl as (Hp & Hv & Hm). cbn [emit_jv lex_ok forallb].
    apply andb_true_iff; split; [apply key_lex; [exact Nt|exact NL]|].
    apply andb_true_iff; split; [apply key_lex; [exact Nc|]|apply extra_members_lex; exact Hm].
    apply (series_jv_lex fmt fmt_number ps ex 0 (length ps)); [assumption|assumption|lia].
  - cbn [lex_o] in Hl. destruct Hl as (Hp & Hv & Hm). cbn [emit_jv lex_ok forallb].
    apply andb_true_iff; split; [apply key_lex; [exact Nt|exact NPo]|].
    apply andb_true_iff; split; [apply key_lex; [exact Nc|]|apply extra_members_lex; exact Hm].
    cbn [lex_ok]. destruct (rings_empty rings); [reflexivity|]. apply (rings_jv_lex rings ex (total_points rings) 0 Hp Hv). lia.
  - cbn [lex_o] in Hl. destruct Hl as [Hb Hm]. cbn [wf_o] in Hw. destruct Hw as [_ Hwb]. cbn [emit_jv lex_ok forallb].
    apply andb_true_iff; split; [apply key_lex; [exact Nt|exact NF]|].
    apply andb_true_iff; split; [apply key_lex; [exact Ng|]|apply extra_members_lex; exact Hm].
    apply IH; assumption.
  - destruct (wf_coll_children k cs ex Hw) as [Hk [He Hc]]. cbn [lex_o] in Hl. destruct Hl as [Hm Hall].
    assert (HallF : Forall lex_o cs).
    { clear -Hall. induction cs as [|c cs IHc]; [constructor|]. destruct Hall as [A B]. constructor; [exact A|apply IHc; exact B]. }
    cbn [emit_jv lex_ok forallb].
    assert (Kt : str_body (coll_type k) = true).
    { unfold coll_type. destruct (k =? 0); [exact NMP|]. destruct (k =? 1); [exact NML|]. destruct (k =? 2); [exact NMPo|].
      destruct (k =? 3); [exact NGC|exact NFC]. }
    assert (Kk : str_body (coll_key k) = true).
    { unfold coll_key. destruct (k <? 3); [exact Nc|]. destruct (k =? 3); [exact Ngs|exact Nf]. }
    apply andb_true_iff; split; [apply key_lex; [exact Nt|exact Kt]|].
    apply andb_true_iff; split; [apply key_lex; [exact Kk|]|apply extra_members_lex; exact Hm].
    cbn [lex_ok]. apply forallb_forall. intros v Hv. apply in_map_iff in Hv. destruct Hv as (c & <- & Hin).
    rewrite Forall_forall in IH, Hc, HallF.
    destruct (k <? 3); [apply coords_jv_lex; [apply HallF|apply Hc]; exact Hin|apply IH; [exact Hin|apply Hc; exact Hin|apply HallF; exact Hin]].
  - cbn [lex_o] in Hl. destruct Hl as [[Cx Cy] Hm]. cbn [emit_jv lex_ok forallb key str_jv fst snd].
    rewrite Nt, Ng, Nc, Np, Nr, Nru, Nm, NC, NP, NF, !(num_jv_lex fmt fmt_number) by assumption. reflexivity.
Qed.

(* MAIN (C17): the bytes are a text of the JSON grammar, for an object whose first member is "type":"<name>" *)
Theorem emit_wellformed (o : gobj) : wf_o o -> lex_o o ->
  json_text (emit fmt o) (emit_jv fmt o) /\
  exists rest, emit_jv fmt o = JObj ((key s_type, str_jv (type_name o)) :: rest).
Proof.
  intros Hw Hl. split.
  - rewrite (emit_is_print fmt o Hw). apply print_min_is_json. apply emit_jv_lex; assumption.
  - apply emit_jv_type.
Qed.

End Emit.

Print Assumptions emit_wellformed.
