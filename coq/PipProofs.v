(* PipProofs.v — C01 "point membership is exact": the ray-casting point-in-ring
   of geometry/ring.go (bounding-box pre-check, horizontal-strip filter, parity
   toggle per crossing, early exit on an edge) equals the specification
   hit = (if the point is on the boundary then allowOnEdge else crossing parity). *)
From GJ Require Import Base Kernel KernelSpec RaycastProofs KernelProofs Series SeriesSpec SeriesProofs Ring RingSpec.
From Coq Require Import Sorting.Permutation Arith.

(* ------------------------------------------------------------------ *)
(* 0. generic list facts                                               *)
(* ------------------------------------------------------------------ *)

(* xor-fold of a boolean observation over a list *)
Definition xfold {A : Type} (f : A -> bool) (l : list A) : bool :=
  fold_right (fun x acc => xorb (f x) acc) false l.

Lemma xfold_app {A : Type} (f : A -> bool) (l1 l2 : list A) :
  xfold f (l1 ++ l2) = xorb (xfold f l1) (xfold f l2).
Proof.
  unfold xfold. induction l1 as [|x l1 IH]; cbn [app fold_right].
  - destruct (fold_right _ _ l2); reflexivity.
  - rewrite IH. rewrite xorb_assoc. reflexivity.
Qed.

Lemma xfold_ext {A : Type} (f g : A -> bool) (l : list A) :
  (forall x, In x l -> f x = g x) -> xfold f l = xfold g l.
Proof.
  unfold xfold. induction l as [|x l IH]; intros H; cbn [fold_right]; [reflexivity|].
  rewrite (H x) by (left; reflexivity). rewrite IH; [reflexivity|].
  intros y Hy. apply H. right; assumption.
Qed.

Lemma xfold_all_false {A : Type} (f : A -> bool) (l : list A) :
  (forall x, In x l -> f x = false) -> xfold f l = false.
Proof.
  unfold xfold. induction l as [|x l IH]; intros H; cbn [fold_right]; [reflexivity|].
  rewrite (H x) by (left; reflexivity). rewrite IH; [reflexivity|].
  intros y Hy. apply H. right; assumption.
Qed.

Lemma xfold_perm {A : Type} (f : A -> bool) (l l' : list A) :
  Permutation l l' -> xfold f l = xfold f l'.
Proof.
  unfold xfold. induction 1; cbn [fold_right].
  - reflexivity.
  - rewrite IHPermutation. reflexivity.
  - destruct (f x), (f y), (fold_right _ _ l); reflexivity.
  - congruence.
Qed.

Lemma xfold_filter_irrel {A : Type} (f k : A -> bool) (l : list A) :
  (forall x, k x = false -> f x = false) -> xfold f (filter k l) = xfold f l.
Proof.
  intros H. unfold xfold. induction l as [|x l IH]; cbn [filter fold_right]; [reflexivity|].
  destruct (k x) eqn:E; cbn [fold_right].
  - rewrite IH. reflexivity.
  - rewrite (H x E). rewrite IH. destruct (fold_right _ _ l); reflexivity.
Qed.

Lemma xfold_map {A B : Type} (g : A -> B) (f : B -> bool) (l : list A) :
  xfold f (map g l) = xfold (fun x => f (g x)) l.
Proof.
  unfold xfold. induction l as [|x l IH]; cbn [map fold_right]; [reflexivity|].
  rewrite IH. reflexivity.
Qed.

Lemma existsb_perm {A : Type} (f : A -> bool) (l l' : list A) :
  Permutation l l' -> existsb f l = existsb f l'.
Proof.
  induction 1; cbn [existsb].
  - reflexivity.
  - rewrite IHPermutation. reflexivity.
  - destruct (f x), (f y); reflexivity.
  - congruence.
Qed.

Lemma existsb_filter_irrel {A : Type} (f k : A -> bool) (l : list A) :
  (forall x, k x = false -> f x = false) -> existsb f (filter k l) = existsb f l.
Proof.
  intros H. induction l as [|x l IH]; cbn [filter existsb]; [reflexivity|].
  destruct (k x) eqn:E; cbn [existsb].
  - rewrite IH. reflexivity.
  - rewrite (H x E). rewrite IH. reflexivity.
Qed.

Lemma existsb_false_iff {A : Type} (f : A -> bool) (l : list A) :
  existsb f l = false <-> (forall x, In x l -> f x = false).
Proof.
  induction l as [|x l IH]; cbn [existsb In].
  - split; [intros _ y []|reflexivity].
  - rewrite orb_false_iff, IH. split.
    + intros [H1 H2] y [<-|Hy]; auto.
    + intros H. split; [apply H; left; reflexivity|]. intros y Hy. apply H. right; assumption.
Qed.

Lemma existsb_map {A B : Type} (g : A -> B) (f : B -> bool) (l : list A) :
  existsb f (map g l) = existsb (fun x => f (g x)) l.
Proof.
  induction l as [|x l IH]; cbn [map existsb]; [reflexivity|]. rewrite IH. reflexivity.
Qed.

Lemma map_fst_combine_seq {A : Type} (l : list A) : forall s,
  map fst (combine l (seq s (length l))) = l.
Proof.
  induction l as [|x l IH]; intros s; cbn [length seq combine map fst]; [reflexivity|].
  rewrite IH. reflexivity.
Qed.

Lemma map_fst_indexed {A : Type} (l : list A) : map fst (indexed l) = l.
Proof. unfold indexed. apply map_fst_combine_seq. Qed.

Lemma existsb_indexed {A : Type} (g : A -> bool) (l : list A) :
  existsb (fun si => g (fst si)) (indexed l) = existsb g l.
Proof. rewrite <- (existsb_map fst g). rewrite map_fst_indexed. reflexivity. Qed.

Lemma xfold_indexed {A : Type} (g : A -> bool) (l : list A) :
  xfold (fun si => g (fst si)) (indexed l) = xfold g l.
Proof. rewrite <- (xfold_map fst g). rewrite map_fst_indexed. reflexivity. Qed.

(* ------------------------------------------------------------------ *)
(* 1. the searcher fold equals "on an edge ? allow : parity"            *)
(* ------------------------------------------------------------------ *)

Theorem pip_fold_spec (allow : bool) (p : pt) (l : list (seg * nat)) (inn : bool) :
  fst (pip_fold allow p l inn) =
    if existsb (fun si => on_segb (fst si) p) l then allow
    else xorb inn (fold_right (fun si acc => xorb (crossesb (fst si) p) acc) false l).
Proof.
  revert inn. induction l as [|[sg i] r IH]; intros inn.
  - cbn [pip_fold existsb fold_right fst]. destruct inn; reflexivity.
  - cbn [pip_fold existsb fold_right fst]. rewrite raycast_eq_spec.
    destruct (on_segb sg p); cbn [orb negb andb fst].
    + reflexivity.
    + rewrite IH. rewrite andb_true_r.
      destruct (existsb (fun si => on_segb (fst si) p) r); [reflexivity|].
      destruct (crossesb sg p), inn,
        (fold_right (fun si acc => xorb (crossesb (fst si) p) acc) false r); reflexivity.
Qed.

(* ------------------------------------------------------------------ *)
(* 2. independence of the order in which candidates are reported        *)
(* ------------------------------------------------------------------ *)

Theorem pip_fold_perm (allow : bool) (p : pt) (l l' : list (seg * nat)) (inn : bool) :
  Permutation l l' -> fst (pip_fold allow p l inn) = fst (pip_fold allow p l' inn).
Proof.
  intros HP. rewrite !pip_fold_spec.
  rewrite (existsb_perm _ _ _ HP).
  change (fold_right (fun si acc => xorb (crossesb (fst si) p) acc) false l)
    with (xfold (fun si : seg * nat => crossesb (fst si) p) l).
  change (fold_right (fun si acc => xorb (crossesb (fst si) p) acc) false l')
    with (xfold (fun si : seg * nat => crossesb (fst si) p) l').
  rewrite (xfold_perm _ _ _ HP). reflexivity.
Qed.

(* ------------------------------------------------------------------ *)
(* 3. the strip filter drops only irrelevant segments                   *)
(* ------------------------------------------------------------------ *)

Definition strip_keep (y : Z) (si : seg * nat) : bool :=
  let '((_, mny), (_, mxy)) := seg_rect (fst si) in negb ((y <? mny) || (mxy <? y)).

Lemma strip_search_eq (r : rng) (y : Z) :
  strip_search r y = filter (strip_keep y) (indexed (ring_segments r)).
Proof. reflexivity. Qed.

Lemma strip_keep_false (p : pt) (si : seg * nat) :
  strip_keep (py p) si = false ->
  on_segb (fst si) p = false /\ crossesb (fst si) p = false.
Proof.
  destruct si as [[[ax ay] [bx by_]] i], p as [x y].
  unfold strip_keep, seg_rect, on_segb, crossesb, px, py. cbn [fst snd].
  rewrite negb_false_iff, orb_true_iff, !Z.ltb_lt. intros H.
  split.
  - destruct (Z.leb_spec (Z.min ay by_) y); destruct (Z.leb_spec y (Z.max ay by_));
      rewrite ?andb_false_r; try reflexivity; lia.
  - destruct (Z.leb_spec ay y); destruct (Z.ltb_spec y by_);
    destruct (Z.leb_spec by_ y); destruct (Z.ltb_spec y ay);
      cbn [andb orb]; try reflexivity; lia.
Qed.

Theorem strip_search_sound (r : rng) (p : pt) :
  existsb (fun si => on_segb (fst si) p) (strip_search r (py p)) = on_boundaryb (ring_segments r) p /\
  fold_right (fun si acc => xorb (crossesb (fst si) p) acc) false (strip_search r (py p)) = parityb (ring_segments r) p.
Proof.
  rewrite strip_search_eq. split.
  - rewrite existsb_filter_irrel by (intros si H; apply (strip_keep_false p si H)).
    unfold on_boundaryb. apply (existsb_indexed (fun s => on_segb s p)).
  - change (xfold (fun si : seg * nat => crossesb (fst si) p)
              (filter (strip_keep (py p)) (indexed (ring_segments r))) =
            xfold (fun s => crossesb s p) (ring_segments r)).
    rewrite xfold_filter_irrel by (intros si H; apply (strip_keep_false p si H)).
    apply (xfold_indexed (fun s => crossesb s p)).
Qed.

(* the whole of ringContainsPoint, for any ring *)
Lemma rcp_hit_gen (r : rng) (p : pt) (allow : bool) :
  rcp_hit r p allow =
    if rect_contains_point (ring_rect r) p
    then (if on_boundaryb (ring_segments r) p then allow else parityb (ring_segments r) p)
    else false.
Proof.
  unfold rcp_hit, ring_contains_point.
  destruct (rect_contains_point (ring_rect r) p); cbn [negb fst]; [|reflexivity].
  rewrite pip_fold_spec. destruct (strip_search_sound r p) as [-> ->].
  rewrite xorb_false_l. reflexivity.
Qed.

(* ------------------------------------------------------------------ *)
(* 7. Rect.ContainsPoint                                               *)
(* ------------------------------------------------------------------ *)

Theorem rect_contains_point_spec (r : rect) (p : pt) : rect_contains_point r p = in_rectb r p.
Proof. destruct r as [mn mx]. reflexivity. Qed.

(* ------------------------------------------------------------------ *)
(* RS projections                                                      *)
(* ------------------------------------------------------------------ *)

Lemma RS_rect (s : series) : r_rect (RS s) = series_rect s.
Proof. unfold RS, series_rect. destruct (process_points (pts s) (closed s)) as [[cv rc] cw]. reflexivity. Qed.
Lemma RS_segs (s : series) : r_segs (RS s) = segments_spec s.
Proof. unfold RS. destruct (process_points (pts s) (closed s)) as [[cv rc] cw]. reflexivity. Qed.
Lemma RS_pts (s : series) : r_pts (RS s) = pts s.
Proof. unfold RS. destruct (process_points (pts s) (closed s)) as [[cv rc] cw]. reflexivity. Qed.
Lemma RS_empty (s : series) : r_empty (RS s) = series_empty s.
Proof. unfold RS. destruct (process_points (pts s) (closed s)) as [[cv rc] cw]. reflexivity. Qed.
Lemma RS_convex (s : series) : r_convex (RS s) = series_convex s.
Proof. unfold RS, series_convex. destruct (process_points (pts s) (closed s)) as [[cv rc] cw]. reflexivity. Qed.
Lemma RS_cw (s : series) : r_cw (RS s) = series_clockwise s.
Proof. unfold RS, series_clockwise. destruct (process_points (pts s) (closed s)) as [[cv rc] cw]. reflexivity. Qed.

(* ------------------------------------------------------------------ *)
(* 8. Line.ContainsPoint                                               *)
(* ------------------------------------------------------------------ *)

Lemma raycast_on_eq (s : seg) (p : pt) : raycast_on s p = on_segb s p.
Proof. unfold raycast_on. rewrite raycast_eq_spec. reflexivity. Qed.

Lemma point_query_false (s : seg) (p : pt) :
  rect_intersects_rect (seg_rect s) (p, p) = false -> on_segb s p = false.
Proof.
  destruct s as [[ax ay] [bx by_]], p as [x y].
  unfold rect_intersects_rect, seg_rect, on_segb, px, py. cbn [fst snd].
  intros H.
  destruct (Z.leb_spec (Z.min ax bx) x); destruct (Z.leb_spec x (Z.max ax bx));
  destruct (Z.leb_spec (Z.min ay by_) y); destruct (Z.leb_spec y (Z.max ay by_));
    rewrite ?andb_false_r, ?andb_false_l; try reflexivity.
  exfalso. revert H.
  destruct (Z.ltb_spec y (Z.min ay by_)); [lia|].
  destruct (Z.ltb_spec (Z.max ay by_) y); [lia|].
  destruct (Z.ltb_spec x (Z.min ax bx)); [lia|].
  destruct (Z.ltb_spec (Z.max ax bx) x); [lia|].
  cbn [orb]. discriminate.
Qed.

Theorem line_contains_point_spec (ps : list pt) (p : pt) :
  line_contains_point {| closed := false; pts := ps |} p = in_lineb ps p.
Proof.
  unfold line_contains_point, ring_search, ring_segments, in_lineb, on_boundaryb.
  rewrite RS_segs. unfold segments_spec. cbn [closed pts].
  rewrite (existsb_filter_irrel (fun si : seg * nat => raycast_on (fst si) p)).
  - rewrite (existsb_indexed (fun s => raycast_on s p)).
    induction (path_segs ps) as [|s l IH]; cbn [existsb]; [reflexivity|].
    rewrite raycast_on_eq, IH. reflexivity.
  - intros si H. rewrite raycast_on_eq. apply point_query_false. exact H.
Qed.

(* ------------------------------------------------------------------ *)
(* 10. Prop-level reading of the specification                         *)
(* ------------------------------------------------------------------ *)

Theorem parityb_odd (sgs : list seg) (p : pt) :
  parityb sgs p = Nat.odd (length (filter (fun s => crossesb s p) sgs)).
Proof.
  unfold parityb. induction sgs as [|s l IH]; cbn [fold_right filter]; [reflexivity|].
  rewrite IH. destruct (crossesb s p); cbn [length].
  - rewrite Nat.odd_succ, <- Nat.negb_odd.
    destruct (Nat.odd (length (filter (fun s0 => crossesb s0 p) l))); reflexivity.
  - destruct (Nat.odd (length (filter (fun s0 => crossesb s0 p) l))); reflexivity.
Qed.

Theorem on_boundaryb_iff (sgs : list seg) (p : pt) :
  on_boundaryb sgs p = true <-> on_boundary sgs p.
Proof.
  unfold on_boundaryb, on_boundary. rewrite existsb_exists.
  split; intros [s [H1 H2]]; exists s; (split; [exact H1|]); apply on_segb_iff; exact H2.
Qed.

(* ------------------------------------------------------------------ *)
(* 4. even-crossings lemma and the bounding-box pre-check               *)
(* ------------------------------------------------------------------ *)

(* "vertex v is strictly above the ray's ordinate" *)
Definition above (p v : pt) : bool := py p <? py v.

(* a crossed edge spans the ordinate under the half-open rule *)
Lemma crossesb_spans (a b p : pt) :
  crossesb (a, b) p = true -> xorb (above p a) (above p b) = true.
Proof.
  rewrite crossesb_iff. unfold crosses, above.
  intros [[H _]|[H _]].
  - replace (py p <? py a) with false by (symmetry; apply Z.ltb_ge; lia).
    replace (py p <? py b) with true by (symmetry; apply Z.ltb_lt; lia). reflexivity.
  - replace (py p <? py a) with true by (symmetry; apply Z.ltb_lt; lia).
    replace (py p <? py b) with false by (symmetry; apply Z.ltb_ge; lia). reflexivity.
Qed.

Lemma not_spans_no_cross (a b p : pt) :
  xorb (above p a) (above p b) = false -> crossesb (a, b) p = false.
Proof.
  intros H. destruct (crossesb (a, b) p) eqn:E; [|reflexivity].
  apply crossesb_spans in E. congruence.
Qed.

(* (ii) p strictly right of both endpoints: never crossed *)
Lemma right_no_cross (a b p : pt) :
  px a < px p -> px b < px p -> crossesb (a, b) p = false.
Proof.
  intros Ha Hb. apply not_true_is_false. rewrite crossesb_iff.
  destruct a as [ax ay], b as [bx by_], p as [x y].
  unfold crosses, cross, px, py in *. cbn [fst snd] in *.
  intros [[[H1 H2] H3]|[[H1 H2] H3]].
  - assert (0 <= (x - bx) * (y - ay)) by nia.
    assert (0 < (x - ax) * (by_ - y)) by nia.
    nia.
  - assert (0 <= (x - ax) * (y - by_)) by nia.
    assert (0 < (x - bx) * (ay - y)) by nia.
    nia.
Qed.

(* (iii) p strictly left of both endpoints: crossed exactly when spanning *)
Lemma left_cross_iff_spans (a b p : pt) :
  px p < px a -> px p < px b ->
  crossesb (a, b) p = xorb (above p a) (above p b).
Proof.
  intros Ha Hb. apply bool_eq_iff. split; [apply crossesb_spans|].
  rewrite crossesb_iff.
  destruct a as [ax ay], b as [bx by_], p as [x y].
  unfold crosses, cross, above, px, py in *. cbn [fst snd] in *.
  destruct (Z.ltb_spec y ay); destruct (Z.ltb_spec y by_); cbn [xorb]; try discriminate; intros _.
  - right. split; [lia|].
    assert (0 <= (bx - x) * (ay - y)) by nia.
    assert (0 < (ax - x) * (ay - by_ - (ay - y)) \/ by_ = y) by nia.
    nia.
  - left. split; [lia|].
    assert (0 <= (bx - x) * (y - ay)) by nia.
    assert (0 < (ax - x) * (by_ - y)) by nia.
    nia.
Qed.

(* every point of a segment lies within the box of its endpoints *)
Definition inbox (r : rect) (v : pt) : Prop :=
  px (fst r) <= px v <= px (snd r) /\ py (fst r) <= py v <= py (snd r).

Lemma on_segb_inbox (r : rect) (a b p : pt) :
  inbox r a -> inbox r b -> on_segb (a, b) p = true -> inbox r p.
Proof.
  rewrite on_segb_iff. unfold on_seg, inbox. intros Ha Hb (_ & Hx & Hy). lia.
Qed.

Lemma rect_contains_point_inbox (r : rect) (p : pt) :
  rect_contains_point r p = true <-> inbox r p.
Proof.
  destruct r as [mn mx]. unfold rect_contains_point, inbox. cbn [fst snd].
  rewrite !andb_true_iff, !Z.leb_le. tauto.
Qed.

(* telescoping of the spanning indicator along a path *)
Lemma path_telescope (f : pt -> bool) (l : list pt) :
  xfold (fun s : seg => xorb (f (fst s)) (f (snd s))) (path_segs l) =
  xorb (f (hd pt0 l)) (f (last l pt0)).
Proof.
  induction l as [|a l IH].
  - cbn. destruct (f pt0); reflexivity.
  - destruct l as [|b r].
    + cbn. destruct (f a); reflexivity.
    + change (path_segs (a :: b :: r)) with ((a, b) :: path_segs (b :: r)).
      change (last (a :: b :: r) pt0) with (last (b :: r) pt0).
      unfold xfold in *. cbn [fold_right fst snd hd] in *. rewrite IH.
      destruct (f a), (f b), (f (last (b :: r) pt0)); reflexivity.
Qed.

(* ... and around a closed ring the total is even *)
Lemma ring_edges_telescope (f : pt -> bool) (ps : list pt) :
  xfold (fun s : seg => xorb (f (fst s)) (f (snd s))) (ring_edges ps) = false.
Proof.
  unfold ring_edges, segments_spec. cbn [closed pts].
  destruct (length ps <? 3)%nat; [reflexivity|].
  destruct (pt_eqb (last ps pt0) (hd pt0 ps)) eqn:E.
  - apply pt_eqb_eq in E. rewrite path_telescope, E. apply xorb_nilpotent.
  - rewrite xfold_app, path_telescope. unfold xfold. cbn [fold_right fst snd].
    destruct (f (hd pt0 ps)), (f (last ps pt0)); reflexivity.
Qed.

Lemma path_segs_endpoints (l : list pt) (a b : pt) :
  In (a, b) (path_segs l) -> In a l /\ In b l.
Proof.
  induction l as [|x l IH]; [intros []|].
  destruct l as [|y r]; [intros []|].
  change (path_segs (x :: y :: r)) with ((x, y) :: path_segs (y :: r)).
  intros [H|H].
  - inversion H; subst. split; [left; reflexivity|right; left; reflexivity].
  - destruct (IH H) as [H1 H2]. split; right; assumption.
Qed.

Lemma last_In (l : list pt) : l <> [] -> In (last l pt0) l.
Proof.
  induction l as [|x l IH]; [congruence|]. intros _.
  destruct l as [|y r]; [left; reflexivity|].
  change (last (x :: y :: r) pt0) with (last (y :: r) pt0).
  right. apply IH. discriminate.
Qed.

Lemma hd_In (l : list pt) : l <> [] -> In (hd pt0 l) l.
Proof. destruct l; [congruence|]. intros _. left; reflexivity. Qed.

Lemma ring_edges_endpoints (ps : list pt) (a b : pt) :
  In (a, b) (ring_edges ps) -> In a ps /\ In b ps.
Proof.
  unfold ring_edges, segments_spec. cbn [closed pts].
  destruct (Nat.ltb_spec (length ps) 3) as [H3|H3]; [intros []|].
  assert (Hne : ps <> []) by (intros ->; cbn in H3; lia).
  destruct (pt_eqb (last ps pt0) (hd pt0 ps)).
  - apply path_segs_endpoints.
  - intros H. apply in_app_or in H. destruct H as [H|[H|[]]].
    + apply path_segs_endpoints; assumption.
    + inversion H; subst. split; [apply last_In|apply hd_In]; assumption.
Qed.

Lemma ring_edges_short (ps : list pt) : (length ps < 3)%nat -> ring_edges ps = [].
Proof.
  intros H. unfold ring_edges, segments_spec. cbn [closed pts].
  destruct (Nat.ltb_spec (length ps) 3); [reflexivity|lia].
Qed.

Theorem outside_bbox_no_hit (ps : list pt) (p : pt) :
  rect_contains_point (bbox_spec ps) p = false ->
  on_boundaryb (ring_edges ps) p = false /\ parityb (ring_edges ps) p = false.
Proof.
  intros Hout.
  assert (HB : forall a b, In (a, b) (ring_edges ps) ->
                 inbox (bbox_spec ps) a /\ inbox (bbox_spec ps) b).
  { intros a b H. destruct (ring_edges_endpoints ps a b H) as [Ha Hb].
    split; [apply (bbox_spec_tight ps a Ha)|apply (bbox_spec_tight ps b Hb)]. }
  assert (Hnb : ~ inbox (bbox_spec ps) p).
  { rewrite <- rect_contains_point_inbox. congruence. }
  set (R := bbox_spec ps) in *. clearbody R.
  split.
  - unfold on_boundaryb. apply existsb_false_iff. intros [a b] Hin.
    destruct (HB a b Hin) as [Ha Hb].
    destruct (on_segb (a, b) p) eqn:E; [|reflexivity].
    exfalso. apply Hnb. apply (on_segb_inbox R a b p Ha Hb E).
  - change (xfold (fun s => crossesb s p) (ring_edges ps) = false).
    unfold inbox in *.
    destruct (Z.lt_ge_cases (px p) (px (fst R))) as [Hl|Hl].
    + (* left of the box: crossed iff spanning; the ring closes *)
      rewrite (xfold_ext _ (fun s : seg => xorb (above p (fst s)) (above p (snd s)))).
      * apply ring_edges_telescope.
      * intros [a b] Hin. destruct (HB a b Hin) as [Ha Hb]. cbn [fst snd].
        apply left_cross_iff_spans; lia.
    + apply xfold_all_false. intros [a b] Hin. destruct (HB a b Hin) as [Ha Hb].
      destruct (Z.lt_ge_cases (px (snd R)) (px p)) as [Hr|Hr].
      * (* right of the box *) apply right_no_cross; lia.
      * (* below or above the box: no edge spans *)
        apply not_spans_no_cross. unfold above.
        destruct (Z.lt_ge_cases (py p) (py (fst R))) as [Hd|Hd].
        -- replace (py p <? py a) with true by (symmetry; apply Z.ltb_lt; lia).
           replace (py p <? py b) with true by (symmetry; apply Z.ltb_lt; lia). reflexivity.
        -- replace (py p <? py a) with false by (symmetry; apply Z.ltb_ge; lia).
           replace (py p <? py b) with false by (symmetry; apply Z.ltb_ge; lia). reflexivity.
Qed.

(* ------------------------------------------------------------------ *)
(* 5. ringContainsPoint on a closed series                             *)
(* ------------------------------------------------------------------ *)

Lemma closed_series_empty (ps : list pt) :
  series_empty {| closed := true; pts := ps |} = (length ps <? 3)%nat.
Proof.
  unfold series_empty, npoints. cbn [closed pts andb].
  destruct (Nat.ltb_spec (length ps) 3); destruct (Nat.ltb_spec (length ps) 2);
    cbn [orb]; try reflexivity; lia.
Qed.

Theorem ring_contains_point_spec (ps : list pt) (p : pt) (allow : bool) :
  rcp_hit (RS {| closed := true; pts := ps |}) p allow =
    if on_boundaryb (ring_edges ps) p then allow else parityb (ring_edges ps) p.
Proof.
  rewrite rcp_hit_gen. unfold ring_rect, ring_segments. rewrite RS_rect, RS_segs.
  fold (ring_edges ps).
  destruct (Nat.ltb_spec (length ps) 3) as [H3|H3].
  - (* empty ring: no segment at all *)
    rewrite (ring_edges_short ps H3). cbn [on_boundaryb parityb existsb fold_right].
    destruct (rect_contains_point _ p); reflexivity.
  - rewrite series_rect_spec.
    + cbn [pts].
      destruct (rect_contains_point (bbox_spec ps) p) eqn:E; [reflexivity|].
      destruct (outside_bbox_no_hit ps p E) as [-> ->]. reflexivity.
    + rewrite closed_series_empty. apply Nat.ltb_ge. exact H3.
Qed.

(* ------------------------------------------------------------------ *)
(* 6. Poly.ContainsPoint                                               *)
(* ------------------------------------------------------------------ *)

Theorem poly_contains_point_spec (e : list pt) (hs : list (list pt)) (p : pt) :
  poly_contains_point
    {| exterior := RS {| closed := true; pts := e |};
       holes := map (fun h => RS {| closed := true; pts := h |}) hs |} p
  = in_polyb (ring_edges e) (map ring_edges hs) p.
Proof.
  unfold poly_contains_point, in_polyb, in_ringb, strictly_in_ringb. cbn [exterior holes].
  rewrite ring_contains_point_spec.
  assert (HH : negb (existsb (fun h => rcp_hit h p false)
                       (map (fun h => RS {| closed := true; pts := h |}) hs)) =
               forallb (fun h => negb (negb (on_boundaryb h p) && parityb h p)) (map ring_edges hs)).
  { induction hs as [|h hs IH]; cbn [map existsb forallb]; [reflexivity|].
    rewrite negb_orb, IH. rewrite ring_contains_point_spec.
    destruct (on_boundaryb (ring_edges h) p); reflexivity. }
  rewrite HH.
  destruct (on_boundaryb (ring_edges e) p); cbn [orb negb andb]; [reflexivity|].
  destruct (parityb (ring_edges e) p); reflexivity.
Qed.

(* ------------------------------------------------------------------ *)
(* 9. a Rect used as a ring answers as the closed box                   *)
(* ------------------------------------------------------------------ *)

Lemma rect_interior_parity (mnx mny mxx mxy x y : Z) :
  mnx < x < mxx -> mny < y < mxy ->
  parityb (rect_segments ((mnx, mny), (mxx, mxy))) (x, y) = true.
Proof.
  intros Hx Hy. unfold parityb, rect_segments. cbn [fold_right].
  assert (E1 : crossesb ((mnx, mny), (mxx, mny)) (x, y) = false).
  { apply not_true_is_false. rewrite crossesb_iff. unfold crosses, cross, px, py. cbn [fst snd]. lia. }
  assert (E2 : crossesb ((mxx, mny), (mxx, mxy)) (x, y) = true).
  { rewrite crossesb_iff. unfold crosses, cross, px, py. cbn [fst snd]. left. split; [lia|]. nia. }
  assert (E3 : crossesb ((mxx, mxy), (mnx, mxy)) (x, y) = false).
  { apply not_true_is_false. rewrite crossesb_iff. unfold crosses, cross, px, py. cbn [fst snd]. lia. }
  assert (E4 : crossesb ((mnx, mxy), (mnx, mny)) (x, y) = false).
  { apply not_true_is_false. rewrite crossesb_iff. unfold crosses, cross, px, py. cbn [fst snd].
    intros [[H _]|[_ H]]; [lia|nia]. }
  rewrite E1, E2, E3, E4. reflexivity.
Qed.

Lemma rect_sides_boundary (mnx mny mxx mxy x y : Z) :
  mnx <= x <= mxx -> mny <= y <= mxy ->
  (x = mnx \/ x = mxx \/ y = mny \/ y = mxy) ->
  on_boundaryb (rect_segments ((mnx, mny), (mxx, mxy))) (x, y) = true.
Proof.
  intros Hx Hy H. apply on_boundaryb_iff. unfold on_boundary, rect_segments.
  destruct H as [H|[H|[H|H]]]; subst.
  - exists ((mnx, mxy), (mnx, mny)). split; [cbn; tauto|].
    unfold on_seg, cross, px, py. cbn [fst snd]. lia.
  - exists ((mxx, mny), (mxx, mxy)). split; [cbn; tauto|].
    unfold on_seg, cross, px, py. cbn [fst snd]. lia.
  - exists ((mnx, mny), (mxx, mny)). split; [cbn; tauto|].
    unfold on_seg, cross, px, py. cbn [fst snd]. lia.
  - exists ((mxx, mxy), (mnx, mxy)). split; [cbn; tauto|].
    unfold on_seg, cross, px, py. cbn [fst snd]. lia.
Qed.

Theorem rect_ring_pip (q : rect) (p : pt) :
  px (fst q) <= px (snd q) -> py (fst q) <= py (snd q) ->
  rcp_hit (RR q) p true = in_rectb q p.
Proof.
  intros Hqx Hqy. rewrite rcp_hit_gen.
  change (ring_rect (RR q)) with q. change (ring_segments (RR q)) with (rect_segments q).
  rewrite rect_contains_point_spec.
  destruct (in_rectb q p) eqn:E; [|reflexivity].
  destruct q as [[mnx mny] [mxx mxy]], p as [x y].
  unfold in_rectb, px, py in *. cbn [fst snd] in *.
  rewrite !andb_true_iff, !Z.leb_le in E. destruct E as [[[E1 E2] E3] E4].
  destruct (Z.eq_dec x mnx) as [Ha|Ha]; [rewrite rect_sides_boundary; [reflexivity|lia|lia|tauto]|].
  destruct (Z.eq_dec x mxx) as [Hb|Hb]; [rewrite rect_sides_boundary; [reflexivity|lia|lia|tauto]|].
  destruct (Z.eq_dec y mny) as [Hc|Hc]; [rewrite rect_sides_boundary; [reflexivity|lia|lia|tauto]|].
  destruct (Z.eq_dec y mxy) as [Hd|Hd]; [rewrite rect_sides_boundary; [reflexivity|lia|lia|tauto]|].
  rewrite rect_interior_parity by lia.
  destruct (on_boundaryb _ _); reflexivity.
Qed.

(* ------------------------------------------------------------------ *)
Print Assumptions pip_fold_spec.
Print Assumptions pip_fold_perm.
Print Assumptions strip_search_sound.
Print Assumptions outside_bbox_no_hit.
Print Assumptions ring_contains_point_spec.
Print Assumptions poly_contains_point_spec.
Print Assumptions rect_contains_point_spec.
Print Assumptions line_contains_point_spec.
Print Assumptions rect_ring_pip.
Print Assumptions parityb_odd.
Print Assumptions on_boundaryb_iff.
