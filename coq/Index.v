(* Index.v — models of geometry/qtree.go and geometry/rtree.go: building the
   trees by successive inserts, compressing them to bytes, and searching the
   bytes; plus baseSeries.Search's dispatch (series.go:168-194).
   Items are segment indices (Z); bytes are Z in 0..255.  No proofs here. *)
From GJ Require Import Base Kernel.

(* ------------------------------------------------------------------ *)
(* numBytes / appendNum / readNum (qtree.go:139-172)                    *)

Definition num_bytes (n : Z) : Z :=
  if n <=? 255 then 1 else if n <=? 65535 then 2 else 4.

Definition u32 (n : Z) : Z := n mod 4294967296.

Definition le_bytes (k : nat) (n : Z) : list Z :=     (* k little-endian bytes of n *)
  map (fun i => (n / 2 ^ (8 * Z.of_nat i)) mod 256) (seq 0 k).

(* appendNum truncates to the width, as the Go conversions do *)
Definition enc_num (n ib : Z) : list Z :=
  if ib =? 1 then le_bytes 1 n else if ib =? 2 then le_bytes 2 n else le_bytes 4 n.

Definition width (ib : Z) : Z := if ib =? 1 then 1 else if ib =? 2 then 2 else 4.

(* reading: data as a list; out-of-range reads are None (Go would panic) *)
Definition byte_at (data : list Z) (a : Z) : option Z :=
  if a <? 0 then None else nth_error data (Z.to_nat a).

Fixpoint read_le (data : list Z) (a : Z) (k : nat) : option Z :=
  match k with
  | O => Some 0
  | S k' =>
      match byte_at data a, read_le data (a + 1) k' with
      | Some b, Some r => Some (b + 256 * r)
      | _, _ => None
      end
  end.

Definition read_num (data : list Z) (a ib : Z) : option Z :=
  read_le data a (Z.to_nat (width ib)).

(* ------------------------------------------------------------------ *)
(* Quadtree (qtree.go)                                                  *)

Definition qMaxItems : nat := 32.
Definition qMaxDepth : nat := 16.

Inductive qnode := QNode (split : bool) (items : list Z) (quads : list (option qnode)).
(* quads always has length 4 *)

Definition qempty : qnode := QNode false [] [None; None; None; None].

Section QTree.
  (* mid a b models the float expression (a + b) / 2; the theorems hold for any
     function, the executable instance is exact halving on a pre-scaled grid *)
  Variable mid : Z -> Z -> Z.
  (* the rectangle of segment [item]: series.SegmentAt(item).Rect() *)
  Variable rect_of : Z -> rect.

  (* chooseQuad (qtree.go:60-86) *)
  Definition choose_quad (bounds r : rect) : Z :=
    let '((bnx, bny), (bxx, bxy)) := bounds in
    let '((rnx, rny), (rxx, rxy)) := r in
    let mx := mid bnx bxx in let my := mid bny bxy in
    if rxx <? mx then
      if rxy <? my then 2 else if rny <? my then -1 else 0
    else if rnx <? mx then -1
    else if rxy <? my then 3
    else if rny <? my then -1
    else 1.

  (* quadBounds (qtree.go:88-113) *)
  Definition quad_bounds (bounds : rect) (q : Z) : rect :=
    let '((bnx, bny), (bxx, bxy)) := bounds in
    let mx := mid bnx bxx in let my := mid bny bxy in
    if q =? 0 then ((bnx, my), (mx, bxy))
    else if q =? 1 then ((mx, my), (bxx, bxy))
    else if q =? 2 then ((bnx, bny), (mx, my))
    else if q =? 3 then ((mx, bny), (bxx, my))
    else ((0, 0), (0, 0)).

  Definition get_quad (qs : list (option qnode)) (q : Z) : qnode :=
    match nth_error qs (Z.to_nat q) with Some (Some n) => n | _ => qempty end.

  Fixpoint set_nth {A} (l : list A) (i : nat) (x : A) : list A :=
    match l, i with
    | [], _ => []
    | _ :: r, O => x :: r
    | y :: r, S i' => y :: set_nth r i' x
    end.

  (* qNode.insert (qtree.go:16-58); d = qMaxDepth - depth *)
  Fixpoint qinsert (d : nat) (n : qnode) (bounds r : rect) (item : Z) : qnode :=
    let '(QNode split items quads) := n in
    match d with
    | O => QNode split (items ++ [item]) quads           (* depth == qMaxDepth *)
    | S d' =>
        let into_quad (sp : bool) (its : list Z) (qs : list (option qnode)) (r0 : rect) (it0 : Z) : qnode :=
          let q := choose_quad bounds r0 in
          if q =? -1 then QNode sp (its ++ [it0]) qs
          else QNode sp its
                 (set_nth qs (Z.to_nat q)
                    (Some (qinsert d' (get_quad qs q) (quad_bounds bounds q) r0 it0))) in
        if split then into_quad true items quads r item
        else if (length items =? qMaxItems)%nat then
          (* split: redistribute the current items, overflow keeps its order *)
          let n' := fold_left
                      (fun acc it0 =>
                         let '(QNode _ its qs) := acc in
                         into_quad false its qs (rect_of it0) it0)
                      items (QNode false [] quads) in
          let '(QNode _ its qs) := n' in
          into_quad true its qs r item
        else QNode split (items ++ [item]) quads
    end.

  (* qNode.search (qtree.go:115-138): candidates in callback order *)
  Fixpoint qsearch (fuel : nat) (n : qnode) (bounds q : rect) : list Z :=
    let '(QNode split items quads) := n in
    filter (fun it => rect_intersects_rect (rect_of it) q) items ++
    match fuel with
    | O => []
    | S f =>
        if split then
          flat_map (fun k =>
                      match nth_error quads (Z.to_nat k) with
                      | Some (Some c) =>
                          let qb := quad_bounds bounds k in
                          if rect_intersects_rect qb q then qsearch f c qb q else []
                      | _ => []
                      end) [0; 1; 2; 3]
        else []
    end.

  (* qNode.compress (qtree.go:173-214): the encoding of n placed at absolute
     address base; returns the bytes *)
  Definition q_ibytes (items : list Z) : Z :=
    fold_left (fun acc it => Z.max acc (num_bytes it)) items (num_bytes (Z.of_nat (length items))).

  Fixpoint qenc (fuel : nat) (base : Z) (n : qnode) : list Z :=
    let '(QNode split items quads) := n in
    let ib := q_ibytes items in
    let hdr := [ib] ++ enc_num (Z.of_nat (length items)) ib ++ flat_map (fun it => enc_num it ib) items in
    if negb split then hdr ++ [0]
    else
      match fuel with
      | O => hdr ++ [1]     (* unreachable within depth 16 *)
      | S f =>
          let slots_len := fold_left (fun acc o => acc + match o with None => 1 | Some _ => 5 end) quads 0 in
          let start := base + Z.of_nat (length hdr) + 1 + slots_len in
          (* children laid out one after the other from [start] *)
          let '(slots, kids, _) :=
            fold_left (fun st o =>
                         let '(slots, kids, addr) := st in
                         match o with
                         | None => (slots ++ [0], kids, addr)
                         | Some c =>
                             let e := qenc f addr c in
                             (slots ++ [1] ++ le_bytes 4 (u32 addr), kids ++ e, addr + Z.of_nat (length e))
                         end) quads ([], [], start) in
          hdr ++ [1] ++ slots ++ kids
      end.

  (* qCompressSearch (qtree.go:216-257); None = out-of-range read (panic) or fuel *)
  Fixpoint read_items (data : list Z) (a ib : Z) (k : nat) : option (list Z) :=
    match k with
    | O => Some []
    | S k' =>
        match read_num data a ib, read_items data (a + ib) ib k' with
        | Some it, Some r => Some (it :: r)
        | _, _ => None
        end
    end.

  Fixpoint qcsearch (fuel : nat) (data : list Z) (addr : Z) (bounds q : rect) : option (list Z) :=
    match fuel with
    | O => None
    | S f =>
        match byte_at data addr with
        | None => None
        | Some ib =>
            match read_num data (addr + 1) ib with
            | None => None
            | Some nitems =>
                let a1 := addr + 1 + ib in
                match read_items data a1 ib (Z.to_nat nitems) with
                | None => None
                | Some its =>
                    let here := filter (fun it => rect_intersects_rect (rect_of it) q) its in
                    let a2 := a1 + nitems * ib in
                    match byte_at data a2 with
                    | None => None
                    | Some sp =>
                        if sp =? 1 then
                          (* four slots *)
                          let fix slots (ks : list Z) (a : Z) (acc : list Z) : option (list Z) :=
                            match ks with
                            | [] => Some acc
                            | k :: ks' =>
                                match byte_at data a with
                                | None => None
                                | Some use =>
                                    if use =? 1 then
                                      match read_le data (a + 1) 4 with
                                      | None => None
                                      | Some naddr =>
                                          let qb := quad_bounds bounds k in
                                          if rect_intersects_rect qb q then
                                            match qcsearch f data naddr qb q with
                                            | None => None
                                            | Some r => slots ks' (a + 5) (acc ++ r)
                                            end
                                          else slots ks' (a + 5) acc
                                      end
                                    else slots ks' (a + 1) acc
                                end
                            end in
                          slots [0; 1; 2; 3] (a2 + 1) here
                        else Some here
                    end
                end
            end
        end
    end.

  (* buildIndex, QuadTree case (series.go:327-336): insert segments 0..n-1 *)
  Definition qbuild (bounds : rect) (n : nat) : qnode :=
    fold_left (fun root i => qinsert qMaxDepth root bounds (rect_of (Z.of_nat i)) (Z.of_nat i))
              (seq 0 n) qempty.
End QTree.

(* ------------------------------------------------------------------ *)
(* R-tree (rtree.go)                                                    *)

Definition rMaxEntries : nat := 16.

(* an rRect: its box and either a leaf item or a node's children *)
Inductive rnode := RItem (b : rect) (item : Z) | RNode (b : rect) (kids : list rnode).

Definition rbox (n : rnode) : rect := match n with RItem b _ => b | RNode b _ => b end.
Definition rkids (n : rnode) : list rnode := match n with RItem _ _ => [] | RNode _ k => k end.
Definition set_box (n : rnode) (b : rect) : rnode :=
  match n with RItem _ i => RItem b i | RNode _ k => RNode b k end.

(* rRect.expand (rtree.go:29-38) *)
Definition rexpand (r b : rect) : rect :=
  let '((rnx, rny), (rxx, rxy)) := r in let '((bnx, bny), (bxx, bxy)) := b in
  ((if bnx <? rnx then bnx else rnx, if bny <? rny then bny else rny),
   (if rxx <? bxx then bxx else rxx, if rxy <? bxy then bxy else rxy)).

(* rRect.contains (rtree.go:113-120) *)
Definition rcontains (r b : rect) : bool :=
  let '((rnx, rny), (rxx, rxy)) := r in let '((bnx, bny), (bxx, bxy)) := b in
  negb ((bnx <? rnx) || (rxx <? bxx) || (bny <? rny) || (rxy <? bxy)).

(* rRect.intersects (rtree.go:213-220) *)
Definition rintersects (r b : rect) : bool :=
  let '((rnx, rny), (rxx, rxy)) := r in let '((bnx, bny), (bxx, bxy)) := b in
  negb ((rxx <? bnx) || (bxx <? rnx) || (rxy <? bny) || (bxy <? rny)).

(* rRect.recalc (rtree.go:104-111) *)
Definition rrecalc (kids : list rnode) : rect :=
  match kids with
  | [] => ((0, 0), (0, 0))
  | k :: r => fold_left (fun acc c => rexpand acc (rbox c)) r (rbox k)
  end.

(* chooseLeastEnlargement (rtree.go:63-102); areas are exact on the grid *)
Definition enlarged_len (bn bx rn rx : Z) : Z :=
  if rx <? bx then (if bn <? rn then bx - bn else bx - rn)
  else (if bn <? rn then rx - bn else rx - rn).

Definition choose_least (kids : list rnode) (b : rect) : nat :=
  let '((bnx, bny), (bxx, bxy)) := b in
  let step (st : Z * Z * Z * Z) (c : rnode) : Z * Z * Z * Z :=
    let '(i, j, jenl, jarea) := st in
    let '((rnx, rny), (rxx, rxy)) := rbox c in
    let area := (rxx - rnx) * (rxy - rny) in
    let enl := enlarged_len bnx bxx rnx rxx * enlarged_len bny bxy rny rxy - area in
    if (j =? -1) || (enl <? jenl) then (i + 1, i, enl, area)
    else if (enl =? jenl) && (area <? jarea) then (i + 1, i, enl, area)
    else (i + 1, j, jenl, jarea) in
  let '(_, j, _, _) := fold_left step kids (0, -1, 0, 0) in
  Z.to_nat j.

(* splitLargestAxisEdgeSnap (rtree.go:133-174): the swap-remove loop.
   [kept] = rects[0..i-1] already examined and staying; [rest] = rects[i..count-1] *)
Fixpoint split_loop (fuel : nat) (axis_x : bool) (lb : rect)
         (kept rest right equals : list rnode) : list rnode * list rnode * list rnode :=
  match fuel with
  | O => (kept ++ rest, right, equals)
  | S f =>
      match rest with
      | [] => (kept, right, equals)
      | x :: rest' =>
          let '((lnx, lny), (lxx, lxy)) := lb in
          let '((xnx, xny), (xxx, xxy)) := rbox x in
          let mind := if axis_x then xnx - lnx else xny - lny in
          let maxd := if axis_x then lxx - xxx else lxy - xxy in
          if mind <? maxd then split_loop f axis_x lb (kept ++ [x]) rest' right equals
          else
            let right' := if maxd <? mind then right ++ [x] else right in
            let equals' := if maxd <? mind then equals else equals ++ [x] in
            (* rects[i] = rects[count-1]; count--; i-- *)
            match rest' with
            | [] => (kept, right', equals')
            | _ => split_loop f axis_x lb kept (last rest' x :: removelast rest') right' equals'
            end
      end
  end.

Definition rsplit (b : rect) (kids : list rnode) : rnode * rnode :=
  let '((bnx, bny), (bxx, bxy)) := b in
  (* largestAxis: axis 1 only when strictly larger *)
  let axis_x := negb (bxx - bnx <? bxy - bny) in
  let '(lft, rgt, equals) := split_loop (length kids) axis_x b [] kids [] [] in
  let '(lft', rgt') :=
    fold_left (fun lr e => let '(l, r) := lr in
                           if (length l <? length r)%nat then (l ++ [e], r) else (l, r ++ [e]))
              equals (lft, rgt) in
  (RNode (rrecalc lft') lft', RNode (rrecalc rgt') rgt').

(* rRect.insert (rtree.go:176-197): returns (node with the item inserted, grown) *)
Fixpoint rinsert (height : nat) (n : rnode) (ib : rect) (item : Z) : rnode * bool :=
  match n with
  | RItem _ _ => (n, false)                       (* unreachable: data is always a node here *)
  | RNode b kids =>
      match height with
      | O => (RNode b (kids ++ [RItem ib item]), negb (rcontains b ib))
      | S h =>
          let idx := choose_least kids ib in
          match nth_error kids idx with
          | None => (n, false)                    (* unreachable: kids is non-empty *)
          | Some child =>
              let '(child1, g) := rinsert h child ib item in
              let child2 := if g then set_box child1 (rexpand (rbox child1) ib) else child1 in
              let grown := if g then negb (rcontains b ib) else false in
              if (length (rkids child2) =? rMaxEntries + 1)%nat then
                let '(l, r) := rsplit (rbox child2) (rkids child2) in
                (RNode b (set_nth kids idx l ++ [r]), grown)
              else (RNode b (set_nth kids idx child2), grown)
          end
      end
  end.

Record rtree := { rheight : nat; rroot : option rnode }.
Definition rt_empty : rtree := {| rheight := 0; rroot := None |}.

(* rTree.insert (rtree.go:45-61) *)
Definition rt_insert (t : rtree) (ib : rect) (item : Z) : rtree :=
  let root0 := match rroot t with Some r => r | None => RNode ib [] end in
  let '(root1, g) := rinsert (rheight t) root0 ib item in
  let root2 := if g then set_box root1 (rexpand (rbox root1) ib) else root1 in
  if (length (rkids root2) =? rMaxEntries + 1)%nat then
    let '(l, r) := rsplit (rbox root2) (rkids root2) in
    let kids := [l; r] in
    {| rheight := S (rheight t); rroot := Some (RNode (rrecalc kids) kids) |}
  else {| rheight := rheight t; rroot := Some root2 |}.

Section RTree.
  Variable rect_of : Z -> rect.
  (* 8 little-endian bytes of a coordinate's float64 bits, and its inverse *)
  Variable fenc : Z -> list Z.
  Variable fdec : list Z -> option Z.

  Definition rbuild (n : nat) : rtree :=
    fold_left (fun t i => rt_insert t (rect_of (Z.of_nat i)) (Z.of_nat i)) (seq 0 n) rt_empty.

  (* the traversal of rnCompressSearch (rtree.go:335-382) on the tree itself:
     a node is skipped when its box misses the query; leaf items are tested
     against their own segment rectangle *)
  Fixpoint rsearch (n : rnode) (q : rect) : list Z :=
    match n with
    | RItem _ it => if rect_intersects_rect (rect_of it) q then [it] else []
    | RNode b kids =>
        if negb (rect_intersects_rect q b) then []
        else flat_map (fun c => rsearch c q) kids
    end.

  Definition enc_box (b : rect) : list Z :=
    let '((nx, ny), (xx, xy)) := b in fenc nx ++ fenc ny ++ fenc xx ++ fenc xy.

  (* rRect.compress (rtree.go:286-318) placed at absolute address base *)
  Fixpoint renc (height : nat) (base : Z) (n : rnode) : list Z :=
    let b := rbox n in let kids := rkids n in
    let hdr := enc_box b ++ [Z.of_nat (length kids) mod 256] in
    match height with
    | O =>
        let item_of c := match c with RItem _ it => it | RNode _ _ => 0 end in
        let ib := fold_left (fun acc c => Z.max acc (num_bytes (item_of c))) kids 1 in
        hdr ++ [ib] ++ flat_map (fun c => enc_num (item_of c) ib) kids
    | S h =>
        let start := base + Z.of_nat (length hdr) + 4 * Z.of_nat (length kids) in
        let '(addrs, body, _) :=
          fold_left (fun st c =>
                       let '(addrs, body, addr) := st in
                       let e := renc h addr c in
                       (addrs ++ le_bytes 4 (u32 addr), body ++ e, addr + Z.of_nat (length e)))
                    kids ([], [], start) in
        hdr ++ addrs ++ body
    end.

  (* rTree.compress (rtree.go:278-284) after the 5-byte header *)
  Definition rtenc (t : rtree) : list Z :=
    match rroot t with
    | None => []
    | Some r => [Z.of_nat (rheight t) mod 256] ++ renc (rheight t) 6 r
    end.

  Definition read_f (data : list Z) (a : Z) : option Z :=
    if a <? 0 then None else fdec (firstn 8 (skipn (Z.to_nat a) data)).

  (* rnCompressSearch (rtree.go:335-382) *)
  Fixpoint rncsearch (height : nat) (data : list Z) (addr : Z) (q : rect) : option (list Z) :=
    match read_f data addr, read_f data (addr + 8), read_f data (addr + 16), read_f data (addr + 24) with
    | Some nx, Some ny, Some xx, Some xy =>
        if negb (rect_intersects_rect q ((nx, ny), (xx, xy))) then Some []
        else
          match byte_at data (addr + 32) with
          | None => None
          | Some count =>
              match height with
              | O =>
                  match byte_at data (addr + 33) with
                  | None => None
                  | Some ib =>
                      match (fix items (k : nat) (a : Z) : option (list Z) :=
                               match k with
                               | O => Some []
                               | S k' => match read_num data a ib, items k' (a + ib) with
                                         | Some it, Some r => Some (it :: r)
                                         | _, _ => None
                                         end
                               end) (Z.to_nat count) (addr + 34) with
                      | None => None
                      | Some its => Some (filter (fun it => rect_intersects_rect (rect_of it) q) its)
                      end
                  end
              | S h =>
                  (fix kids (k : nat) (a : Z) : option (list Z) :=
                     match k with
                     | O => Some []
                     | S k' =>
                         match read_le data a 4 with
                         | None => None
                         | Some naddr =>
                             match rncsearch h data naddr q, kids k' (a + 4) with
                             | Some r1, Some r2 => Some (r1 ++ r2)
                             | _, _ => None
                             end
                         end
                     end) (Z.to_nat count) (addr + 33)
              end
          end
    | _, _, _, _ => None
    end.

  (* rCompressSearch (rtree.go:320-333) *)
  Definition rcsearch (data : list Z) (addr : Z) (q : rect) : option (list Z) :=
    if addr =? Z.of_nat (length data) then Some []
    else match byte_at data addr with
         | None => None
         | Some h => rncsearch (Z.to_nat h) data (addr + 1) q
         end.
End RTree.

(* setCompressed (series.go:298-303): header byte, u32 total length, payload *)
Definition set_compressed (kind : Z) (payload : list Z) : list Z :=
  [kind] ++ le_bytes 4 (u32 (5 + Z.of_nat (length payload))) ++ payload.
