(* IndexExec.v — executable instances of the index models: exact halving on a
   pre-scaled grid for the quadtree's mid-lines, IEEE-754 binary64 bytes for
   the R-tree's node boxes, and baseSeries.Search's dispatch on the index. *)
From Coq Require Import FSets.FMapPositive.
From GJ Require Import Base Kernel Series SeriesSpec Index.

(* 16 halvings stay integral after scaling by 2^16 *)
Definition QS : Z := 65536.
Definition scale_rect (r : rect) : rect :=
  let '((a, b), (c, d)) := r in ((a * QS, b * QS), (c * QS, d * QS)).
Definition mid_exact (a b : Z) : Z := (a + b) / 2.

(* float64 bits of the value k * 2^-s (k <> 0 normal, |k| < 2^53) *)
Definition f64_bits (s k : Z) : Z :=
  if k =? 0 then 0
  else
    let a := Z.abs k in
    let m := Z.log2 a in
    let e := m - s + 1023 in
    let frac := a * 2 ^ (52 - m) - 2 ^ 52 in
    (if k <? 0 then 2 ^ 63 else 0) + e * 2 ^ 52 + frac.

Definition f64_enc (s k : Z) : list Z := le_bytes 8 (f64_bits s k).

Definition f64_dec (s : Z) (bs : list Z) : option Z :=
  if negb (length bs =? 8)%nat then None
  else
    let bits := fold_right (fun b acc => b + 256 * acc) 0 bs in
    if bits mod 2 ^ 63 =? 0 then Some 0
    else
      let neg := 2 ^ 63 <=? bits in
      let e := (bits / 2 ^ 52) mod 2048 in
      let frac := bits mod 2 ^ 52 in
      let mant := 2 ^ 52 + frac in
      let sh := e - 1075 + s in
      let a := if 0 <=? sh then mant * 2 ^ sh else mant / 2 ^ (- sh) in
      Some (if neg then - a else a).

Definition seg_rects (s : series) : list rect := map seg_rect (segments_spec s).
(* SegmentAt(i).Rect() by index: a positive-keyed map, so that building a
   70,000-segment index stays feasible (lookup O(log n)) *)
Definition rect_map := PositiveMap.t rect.
Definition mk_rect_map (rs : list rect) : rect_map :=
  fst (fold_left (fun st r => let '(m, i) := st in (PositiveMap.add i r m, Pos.succ i)) rs
                 (PositiveMap.empty rect, 1%positive)).
Definition rect_of_list (rs : list rect) : Z -> rect :=
  let m := mk_rect_map rs in
  fun i => match PositiveMap.find (Z.to_pos (i + 1)) m with Some r => r | None => ((0, 0), (0, 0)) end.

Definition brute (rs : list rect) (q : rect) : list Z :=
  map (fun ri => Z.of_nat (snd ri))
      (filter (fun ri => rect_intersects_rect (fst ri) q) (combine rs (seq 0 (length rs)))).

(* buildIndex + setCompressed (series.go:298-336): the index bytes *)
Definition build_index_bytes (sc kind : Z) (s : series) : list Z :=
  let rs := seg_rects s in
  let n := length rs in
  if kind =? 1 then
    set_compressed 1 (rtenc (f64_enc sc) (rbuild (rect_of_list rs) n))
  else if kind =? 2 then
    let rs' := map scale_rect rs in
    let b := scale_rect (series_rect s) in
    set_compressed 2 (qenc (S qMaxDepth) 5 (qbuild mid_exact (rect_of_list rs') b n))
  else [].

(* baseSeries.Search (series.go:168-194): candidates in callback order.
   The tree traversals are used for the indexed kinds (equal to the search over
   the bytes by the codec theorems). *)
Definition series_search (kind : Z) (s : series) (q : rect) : list Z :=
  let rs := seg_rects s in
  let n := length rs in
  if kind =? 1 then
    match rroot (rbuild (rect_of_list rs) n) with
    | None => []
    | Some r => rsearch (rect_of_list rs) r q
    end
  else if kind =? 2 then
    let rs' := map scale_rect rs in
    let b := scale_rect (series_rect s) in
    qsearch mid_exact (rect_of_list rs') (S qMaxDepth) (qbuild mid_exact (rect_of_list rs') b n) b (scale_rect q)
  else
    brute rs q.

(* the same through the bytes *)
Definition series_search_bytes (sc kind : Z) (s : series) (q : rect) : option (list Z) :=
  let rs := seg_rects s in
  let data := build_index_bytes sc kind s in
  if kind =? 1 then rcsearch (rect_of_list rs) (f64_dec sc) data 5 q
  else if kind =? 2 then
    let rs' := map scale_rect rs in
    qcsearch mid_exact (rect_of_list rs') (S (S qMaxDepth)) data 5 (scale_rect (series_rect s)) (scale_rect q)
  else None.

(* brute force spec: the sorted list of segments whose rectangle meets q *)
Definition search_spec (s : series) (q : rect) : list Z :=
  brute (seg_rects s) q.
