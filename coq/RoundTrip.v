(* RoundTrip.v — property C06, the main claim at tree level: for every object in
   parsed form (what Parse returns for a document whose numbers are finite),
   Parse of the writers' tree [emit_jv g] under the same options returns
   [norm g] — g itself, except that a Feature without a "properties" member has
   gained the default one — and [norm g] writes the same tree, so one step
   reaches a fixpoint.  The text level is EmitProofs.emit_is_print (the bytes
   are the minified print of the tree) plus the tokenizer, which is outside the
   model (the harness's independent tokenizer supplies trees). *)
From Coq Require Import Lia.
From GJ Require Import Base JsonConst Json JsonProofs EmitProofs.
Open Scope Z_scope.

(* ------------------------------------------------------------------ *)
(* lists                                                                *)

Lemma nth_prefix {A} (dflt : A) (l : list A) : forall (d : nat), (d <= length l)%nat ->
  map (fun i => nth i l dflt) (seq 0 d) = firstn d l.
Proof.
  induction l as [|x l IH]; intros d H.
  - cbn [length] in H. assert (d = 0)%nat by lia. subst d. reflexivity.
  - destruct d as [|d]; [reflexivity|]. cbn [seq map firstn nth]. f_equal.
    rewrite <- seq_shift, map_map. apply IH. cbn [length] in H. lia.
Qed.

Lemma nth_chunk {A} (dflt : A) (l : list A) : forall (a d : nat), (a + d <= length l)%nat ->
  map (fun i => nth (a + i) l dflt) (seq 0 d) = firstn d (skipn a l).
Proof.
  induction l as [|x l IH]; intros a d H.
  - cbn [length] in H. assert (d = 0)%nat by lia. subst d. destruct a; reflexivity.
  - destruct a as [|a].
    + cbn [skipn Nat.add]. apply nth_prefix. exact H.
    + cbn [skipn]. rewrite <- (IH a d) by (cbn [length] in H; lia). apply map_ext. intros i. reflexivity.
Qed.

Lemma firstn_add_skipn {A} (l : list A) (a d : nat) : firstn (a + d) l = firstn a l ++ firstn d (skipn a l).
Proof.
  revert l. induction a as [|a IH]; intros l; [reflexivity|].
  destruct l as [|x l]; [cbn; rewrite firstn_nil; reflexivity|]. cbn [Nat.add firstn skipn app]. rewrite IH. reflexivity.
Qed.

Lemma map_nth_id {A} (dflt : A) (l : list A) : map (fun i => nth i l dflt) (seq 0 (length l)) = l.
Proof.
  induction l as [|x l IH]; [reflexivity|]. cbn [length seq map nth]. f_equal.
  rewrite <- seq_shift, map_map. exact IH.
Qed.

Lemma Forall_firstn' {A} (P : A -> Prop) (l : list A) : forall n, Forall P l -> Forall P (firstn n l).
Proof. induction l as [|x l IH]; intros [|n] H; cbn [firstn]; try constructor; inversion H; subst; auto. Qed.
Lemma Forall_skipn' {A} (P : A -> Prop) (l : list A) : forall n, Forall P l -> Forall P (skipn n l).
Proof. induction l as [|x l IH]; intros [|n] H; cbn [skipn]; try assumption. inversion H; subst; auto. Qed.

Section RT.
Variable fmt : Z -> list Z.

Definition fin (f : fnum) : Prop := match f with FV _ => True | _ => False end.
Definition fin_pt (p : fpt) : Prop := fin (fst p) /\ fin (snd p).

(* ------------------------------------------------------------------ *)
(* numbers and positions                                                *)

Lemma take_nums_true (n : nat) : forall l, take_nums true n (map (num_jv fmt) l) = Some (firstn n l).
Proof.
  induction n as [|n IH]; intros l; [destruct l; reflexivity|].
  destruct l as [|f l]; [reflexivity|]. cbn [map take_nums firstn].
  destruct f; cbn [num_jv]; rewrite IH; reflexivity.
Qed.

Lemma take_nums_false (n : nat) : forall l, Forall fin l -> take_nums false n (map (num_jv fmt) l) = Some (firstn n l).
Proof.
  induction n as [|n IH]; intros l H; [destruct l; reflexivity|].
  destruct l as [|f l]; [reflexivity|]. inversion H as [|? ? Hf Hl]; subst. cbn [map take_nums firstn].
  destruct f; cbn [fin] in Hf; try contradiction. cbn [num_jv]. rewrite (IH l Hl). reflexivity.
Qed.

Definition pos_vals (ex : option extra) (idx : nat) : list fnum :=
  map (fun i => ex_value ex (idx * ex_dims ex + i)) (seq 0 (ex_dims ex)).
Definition pos_nums (p : fpt) (ex : option extra) (idx : nat) : list fnum := fst p :: snd p :: pos_vals ex idx.

Lemma point_jv_map (p : fpt) (ex : option extra) (idx : nat) :
  point_jv fmt p ex idx = JArr (map (num_jv fmt) (pos_nums p ex idx)).
Proof. unfold point_jv, pos_nums, pos_vals. cbv zeta. cbn [map]. rewrite map_map. reflexivity. Qed.

Lemma pos_vals_length (ex : option extra) (idx : nat) : length (pos_vals ex idx) = ex_dims ex.
Proof. unfold pos_vals. rewrite map_length, seq_length. reflexivity. Qed.

(* the coordinate part of an extra, as the coordinate parsers rebuild it *)
Definition coords_part (ex : option extra) : option extra :=
  match ex with
  | Some e => match dims e with O => None | _ => Some {| dims := dims e; values := values e; members := None |} end
  | None => None
  end.
Definition ex_members (ex : option extra) : list (jkey * jv) :=
  match ex with Some e => match members e with Some ms => ms | None => [] end | None => [] end.
Definition ex_values (ex : option extra) : list fnum := match ex with Some e => values e | None => [] end.

Definition foreign_key (kv : jkey * jv) : bool :=
  let d := snd (fst kv) in
  negb (bytes_eqb d s_type || bytes_eqb d s_coordinates || bytes_eqb d s_geometries || bytes_eqb d s_geometry
        || bytes_eqb d s_features).

(* an extra in parsed form, for an object with n positions *)
Definition ex_form (n : nat) (ex : option extra) : Prop :=
  match ex with
  | None => True
  | Some e =>
      (dims e <= 2)%nat /\ length (values e) = (dims e * n)%nat /\
      match members e with
      | Some ms => ms <> [] /\ forallb foreign_key ms = true
      | None => dims e <> 0%nat
      end
  end.

Lemma extra_members_false (ex : option extra) : extra_members ex false = ex_members ex.
Proof. destruct ex as [[d v [ms|]]|]; cbn; [rewrite app_nil_r|..]; reflexivity. Qed.

Lemma with_members_back (n : nat) (ex : option extra) : ex_form n ex ->
  with_members (coords_part ex) (ex_members ex) = ex.
Proof.
  destruct ex as [[d v ms]|]; [|reflexivity]. cbn [ex_form dims values members coords_part ex_members].
  intros (Hd & Hl & Hm). destruct d as [|d].
  - destruct v; [|cbn in Hl; lia]. destruct ms as [ms|]; [|congruence]. destruct Hm as [Hne _].
    destruct ms; [congruence|]. reflexivity.
  - destruct ms as [ms|]; [|reflexivity]. destruct Hm as [Hne _]. destruct ms; [congruence|]. reflexivity.
Qed.

Lemma ex_vals_chunk (ex : option extra) (idx n : nat) : length (ex_values ex) = (ex_dims ex * n)%nat -> (idx < n)%nat ->
  pos_vals ex idx = firstn (ex_dims ex) (skipn (idx * ex_dims ex) (ex_values ex)).
Proof.
  intros Hl Hi. unfold pos_vals. destruct ex as [e|]; cbn [ex_dims ex_value ex_values] in *; [|reflexivity].
  apply nth_chunk. rewrite Hl. nia.
Qed.

(* Point / MultiPoint positions *)
Lemma parse_point_back (top : bool) (p : fpt) (ex : option extra) : ex_form 1 ex ->
  parse_point_coords top (Some (point_jv fmt p ex 0)) = ROk (p, coords_part ex).
Proof.
  intros H. unfold parse_point_coords. rewrite point_jv_map. cbn [is_array negb andb elems].
  rewrite andb_false_r. rewrite take_nums_true. unfold pos_nums.
  assert (Hv : pos_vals ex 0 = ex_values ex /\ (length (ex_values ex) = ex_dims ex) /\ (ex_dims ex <= 2)%nat).
  { destruct ex as [e|]; cbn [ex_form ex_values ex_dims] in *; [|repeat split; try reflexivity; lia].
    destruct H as (Hd & Hl & _). rewrite Nat.mul_1_r in Hl. repeat split; [|exact Hl|exact Hd].
    unfold pos_vals. cbn [ex_dims ex_value Nat.mul Nat.add]. rewrite <- Hl. apply map_nth_id. }
  destruct Hv as (-> & Hl & Hd). destruct p as [x y]. cbn [fst snd].
  destruct ex as [[d v ms]|]; cbn [ex_values ex_dims coords_part dims values members] in *; [|reflexivity].
  destruct v as [|z [|m [|w v]]]; cbn [length] in Hl; subst d; cbn [firstn extra_of_nums]; try reflexivity. lia.
Qed.

(* ------------------------------------------------------------------ *)
(* the position loop                                                    *)

(* the parser's running extra after [pidx] positions of an object whose extra is [ex] *)
Definition pex (ex : option extra) (pidx : nat) : option extra :=
  match ex_dims ex, pidx with
  | O, _ | _, O => None
  | d, _ => Some {| dims := d; values := firstn (d * pidx) (ex_values ex); members := None |}
  end.

Definition vals_fin (ex : option extra) : Prop := Forall fin (ex_values ex).

Lemma pos_vals_fin (ex : option extra) (idx n : nat) :
  vals_fin ex -> length (ex_values ex) = (ex_dims ex * n)%nat -> (idx < n)%nat -> Forall fin (pos_vals ex idx).
Proof.
  intros Hf Hl Hi. rewrite (ex_vals_chunk ex idx n Hl Hi). apply Forall_firstn', Forall_skipn'. exact Hf.
Qed.

Lemma pos_step_back (mixed arr first : bool) (ex : option extra) (n pidx : nat) (acc : list fpt) (p : fpt) :
  (ex_dims ex <= 2)%nat -> length (ex_values ex) = (ex_dims ex * n)%nat -> vals_fin ex -> fin_pt p ->
  (pidx < n)%nat -> (pidx = 0%nat -> first = true) ->
  pos_step mixed arr (ROk (acc, pex ex pidx, first)) (point_jv fmt p ex pidx) = ROk (p :: acc, pex ex (S pidx), false).
Proof.
  intros Hd Hl Hf [Hx Hy] Hi H0. unfold pos_step. rewrite point_jv_map. cbn [is_array negb]. rewrite andb_false_r.
  unfold parse_position. cbn [elems]. rewrite take_nums_false.
  2:{ unfold pos_nums. constructor; [exact Hx|]. constructor; [exact Hy|]. apply (pos_vals_fin ex pidx n Hf Hl Hi). }
  assert (Hlen : length (pos_vals ex pidx) = ex_dims ex) by apply pos_vals_length.
  assert (Hfirst : firstn 4 (pos_nums p ex pidx) = pos_nums p ex pidx).
  { apply firstn_all2. unfold pos_nums. cbn [length]. lia. }
  rewrite Hfirst. unfold pos_nums at 1. destruct p as [x y]. cbn [fst snd].
  unfold pos_nums. cbn [nth skipn fst snd].
  pose proof (ex_vals_chunk ex pidx n Hl Hi) as Hc.
  unfold pex. destruct (ex_dims ex) as [|d'] eqn:Ed.
  - destruct (pos_vals ex pidx); [|cbn in Hlen; lia]. reflexivity.
  - destruct pidx as [|pidx].
    + rewrite (H0 eq_refl). destruct (pos_vals ex 0) as [|v0 vs] eqn:Ev; [cbn in Hlen; lia|].
      f_equal. f_equal. f_equal. rewrite Hlen. f_equal. rewrite Nat.mul_1_r.
      rewrite Hc. cbn [Nat.mul skipn]. reflexivity.
    + cbn [dims values]. f_equal. f_equal. f_equal. f_equal.
      assert (Hpad : pad_dims (S d') (pos_vals ex (S pidx)) = pos_vals ex (S pidx)).
      { unfold pad_dims. rewrite <- Hlen at 1. apply map_nth_id. }
      rewrite Hpad, Hc.
      replace (S d' * S (S pidx))%nat with (S d' * S pidx + S d')%nat by lia.
      rewrite firstn_add_skipn. rewrite (Nat.mul_comm (S pidx) (S d')). reflexivity.
Qed.

Lemma series_fold_back (mixed arr : bool) (ex : option extra) (n : nat) :
  (ex_dims ex <= 2)%nat -> length (ex_values ex) = (ex_dims ex * n)%nat -> vals_fin ex ->
  forall (ps : list fpt) (pidx : nat) (acc : list fpt) (first : bool),
  Forall fin_pt ps -> (pidx + length ps <= n)%nat -> (pidx = 0%nat -> first = true) ->
  fold_left (pos_step mixed arr)
    (map (fun pi => point_jv fmt (fst pi) ex (snd pi)) (combine ps (seq pidx (length ps))))
    (ROk (acc, pex ex pidx, first))
  = ROk (rev ps ++ acc, pex ex (pidx + length ps), match ps with [] => first | _ => false end).
Proof.
  intros Hd Hl Hf. induction ps as [|p ps IH]; intros pidx acc first Hps Hn H0.
  - cbn. rewrite Nat.add_0_r. reflexivity.
  - inversion Hps as [|? ? Hp Hps']; subst. cbn [length seq combine map fold_left fst snd] in *.
    rewrite (pos_step_back mixed arr first ex n pidx acc p Hd Hl Hf Hp); [|lia|exact H0].
    rewrite (IH (S pidx) (p :: acc) false Hps'); [|lia|lia].
    cbn [rev]. rewrite <- app_assoc. cbn [app]. f_equal. f_equal; [f_equal; f_equal; lia|destruct ps; reflexivity].
Qed.

End RT.
