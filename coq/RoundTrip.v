(* RoundTrip.v — property C06, the main claim at tree level: for every object in
   parsed form (what Parse returns for a document whose numbers are finite),
   Parse of the writers' tree [emit_jv g] under the same options returns
   [norm g] — g itself, except that a Feature without a "properties" member has
   gained the default one — and [norm g] writes the same tree, so one step
   reaches a fixpoint.  The text level is EmitProofs.emit_is_print (the bytes
   are the minified print of the tree) plus the tokenizer, which is outside the
   model (the harness's independent tokenizer supplies trees). *)
From Coq Require Import Lia.
From GJ Require Import Base JsonConst Json JsonProofs EmitProofs.
Open Scope Z_scope.

(* ------------------------------------------------------------------ *)
(* lists                                                                *)

Lemma nth_prefix {A} (dflt : A) (l : list A) : forall (d : nat), (d <= length l)%nat ->
  map (fun i => nth i l dflt) (seq 0 d) = firstn d l.
Proof.
  induction l as [|x l IH]; intros d H.
  - cbn [length] in H. assert (d = 0)%nat by lia. subst d. reflexivity.
  - destruct d as [|d]; [reflexivity|]. cbn [seq map firstn nth]. f_equal.
    rewrite <- seq_shift, map_map. apply IH. cbn [length] in H. lia.
Qed.

Lemma nth_chunk {A} (dflt : A) (l : list A) : forall (a d : nat), (a + d <= length l)%nat ->
  map (fun i => nth (a + i) l dflt) (seq 0 d) = firstn d (skipn a l).
Proof.
  induction l as [|x l IH]; intros a d H.
  - cbn [length] in H. assert (d = 0)%nat by lia. subst d. destruct a; reflexivity.
  - destruct a as [|a].
    + cbn [skipn Nat.add]. apply nth_prefix. exact H.
    + cbn [skipn]. rewrite <- (IH a d) by (cbn [length] in H; lia). apply map_ext. intros i. reflexivity.
Qed.

Lemma firstn_add_skipn {A} (l : list A) (a d : nat) : firstn (a + d) l = firstn a l ++ firstn d (skipn a l).
Proof.
  revert l. induction a as [|a IH]; intros l; [reflexivity|].
  destruct l as [|x l]; [cbn; rewrite firstn_nil; reflexivity|]. cbn [Nat.add firstn skipn app]. rewrite IH. reflexivity.
Qed.

Lemma map_nth_id {A} (dflt : A) (l : list A) : map (fun i => nth i l dflt) (seq 0 (length l)) = l.
Proof.
  induction l as [|x l IH]; [reflexivity|]. cbn [length seq map nth]. f_equal.
  rewrite <- seq_shift, map_map. exact IH.
Qed.

Lemma Forall_firstn' {A} (P : A -> Prop) (l : list A) : forall n, Forall P l -> Forall P (firstn n l).
Proof. induction l as [|x l IH]; intros [|n] H; cbn [firstn]; try constructor; inversion H; subst; auto. Qed.
Lemma Forall_skipn' {A} (P : A -> Prop) (l : list A) : forall n, Forall P l -> Forall P (skipn n l).
Proof. induction l as [|x l IH]; intros [|n] H; cbn [skipn]; try assumption. inversion H; subst; auto. Qed.

Section RT.
Variable fmt : Z -> list Z.

Definition fin (f : fnum) : Prop := match f with FV _ => True | _ => False end.
Definition fin_pt (p : fpt) : Prop := fin (fst p) /\ fin (snd p).

(* ------------------------------------------------------------------ *)
(* numbers and positions                                                *)

Lemma take_nums_true (n : nat) : forall l, take_nums true n (map (num_jv fmt) l) = Some (firstn n l).
Proof.
  induction n as [|n IH]; intros l; [destruct l; reflexivity|].
  destruct l as [|f l]; [reflexivity|]. cbn [map take_nums firstn].
  destruct f; cbn [num_jv]; rewrite IH; reflexivity.
Qed.

Lemma take_nums_false (n : nat) : forall l, Forall fin l -> take_nums false n (map (num_jv fmt) l) = Some (firstn n l).
Proof.
  induction n as [|n IH]; intros l H; [destruct l; reflexivity|].
  destruct l as [|f l]; [reflexivity|]. inversion H as [|? ? Hf Hl]; subst. cbn [map take_nums firstn].
  destruct f; cbn [fin] in Hf; try contradiction. cbn [num_jv]. rewrite (IH l Hl). reflexivity.
Qed.

Definition pos_vals (ex : option extra) (idx : nat) : list fnum :=
  map (fun i => ex_value ex (idx * ex_dims ex + i)) (seq 0 (ex_dims ex)).
Definition pos_nums (p : fpt) (ex : option extra) (idx : nat) : list fnum := fst p :: snd p :: pos_vals ex idx.

Lemma point_jv_map (p : fpt) (ex : option extra) (idx : nat) :
  point_jv fmt p ex idx = JArr (map (num_jv fmt) (pos_nums p ex idx)).
Proof. unfold point_jv, pos_nums, pos_vals. cbv zeta. cbn [map]. rewrite map_map. reflexivity. Qed.

Lemma pos_vals_length (ex : option extra) (idx : nat) : length (pos_vals ex idx) = ex_dims ex.
Proof. unfold pos_vals. rewrite map_length, seq_length. reflexivity. Qed.

(* the coordinate part of an extra, as the coordinate parsers rebuild it *)
Definition coords_part (ex : option extra) : option extra :=
  match ex with
  | Some e => match dims e with O => None | _ => Some {| dims := dims e; values := values e; members := None |} end
  | None => None
  end.
Definition ex_members (ex : option extra) : list (jkey * jv) :=
  match ex with Some e => match members e with Some ms => ms | None => [] end | None => [] end.
Definition ex_values (ex : option extra) : list fnum := match ex with Some e => values e | None => [] end.

Definition foreign_key (kv : jkey * jv) : bool :=
  let d := snd (fst kv) in
  negb (bytes_eqb d s_type || bytes_eqb d s_coordinates || bytes_eqb d s_geometries || bytes_eqb d s_geometry
        || bytes_eqb d s_features).

(* an extra in parsed form, for an object with n positions *)
Definition ex_form (n : nat) (ex : option extra) : Prop :=
  match ex with
  | None => True
  | Some e =>
      (dims e <= 2)%nat /\ length (values e) = (dims e * n)%nat /\
      match members e with
      | Some ms => ms <> [] /\ forallb foreign_key ms = true
      | None => dims e <> 0%nat
      end
  end.

Lemma extra_members_false (ex : option extra) : extra_members ex false = ex_members ex.
Proof. destruct ex as [[d v [ms|]]|]; cbn; [rewrite app_nil_r|..]; reflexivity. Qed.

Lemma with_members_back (n : nat) (ex : option extra) : ex_form n ex ->
  with_members (coords_part ex) (ex_members ex) = ex.
Proof.
  destruct ex as [[d v ms]|]; [|reflexivity]. cbn [ex_form dims values members coords_part ex_members].
  intros (Hd & Hl & Hm). destruct d as [|d].
  - destruct v; [|cbn in Hl; lia]. destruct ms as [ms|]; [|congruence]. destruct Hm as [Hne _].
    destruct ms; [congruence|]. reflexivity.
  - destruct ms as [ms|]; [|reflexivity]. destruct Hm as [Hne _]. destruct ms; [congruence|]. reflexivity.
Qed.

Lemma ex_vals_chunk (ex : option extra) (idx n : nat) : length (ex_values ex) = (ex_dims ex * n)%nat -> (idx < n)%nat ->
  pos_vals ex idx = firstn (ex_dims ex) (skipn (idx * ex_dims ex) (ex_values ex)).
Proof.
  intros Hl Hi. unfold pos_vals. destruct ex as [e|]; cbn [ex_dims ex_value ex_values] in *; [|reflexivity].
  apply nth_chunk. rewrite Hl. nia.
Qed.

(* Point / MultiPoint positions *)
Lemma parse_point_back (top : bool) (p : fpt) (ex : option extra) : ex_form 1 ex ->
  parse_point_coords top (Some (point_jv fmt p ex 0)) = ROk (p, coords_part ex).
Proof.
  intros H. unfold parse_point_coords. rewrite point_jv_map. cbn [is_array negb andb elems].
  rewrite andb_false_r. rewrite take_nums_true. unfold pos_nums.
  assert (Hv : pos_vals ex 0 = ex_values ex /\ (length (ex_values ex) = ex_dims ex) /\ (ex_dims ex <= 2)%nat).
  { destruct ex as [e|]; cbn [ex_form ex_values ex_dims] in *; [|repeat split; try reflexivity; lia].
    destruct H as (Hd & Hl & _). rewrite Nat.mul_1_r in Hl. repeat split; [|exact Hl|exact Hd].
    unfold pos_vals. cbn [ex_dims ex_value Nat.mul Nat.add]. rewrite <- Hl. apply map_nth_id. }
  destruct Hv as (-> & Hl & Hd). destruct p as [x y]. cbn [fst snd].
  destruct ex as [[d v ms]|]; cbn [ex_values ex_dims coords_part dims values members] in *; [|reflexivity].
  destruct v as [|z [|m [|w v]]]; cbn [length] in Hl; subst d; cbn [firstn extra_of_nums]; try reflexivity. lia.
Qed.

(* ------------------------------------------------------------------ *)
(* the position loop                                                    *)

(* the parser's running extra after [pidx] positions of an object whose extra is [ex] *)
Definition pex (ex : option extra) (pidx : nat) : option extra :=
  match ex_dims ex, pidx with
  | O, _ | _, O => None
  | d, _ => Some {| dims := d; values := firstn (d * pidx) (ex_values ex); members := None |}
  end.

Definition vals_fin (ex : option extra) : Prop := Forall fin (ex_values ex).

Lemma pos_vals_fin (ex : option extra) (idx n : nat) :
  vals_fin ex -> length (ex_values ex) = (ex_dims ex * n)%nat -> (idx < n)%nat -> Forall fin (pos_vals ex idx).
Proof.
  intros Hf Hl Hi. rewrite (ex_vals_chunk ex idx n Hl Hi). apply Forall_firstn', Forall_skipn'. exact Hf.
Qed.

Lemma pos_step_back (mixed arr first : bool) (ex : option extra) (n pidx : nat) (acc : list fpt) (p : fpt) :
  (ex_dims ex <= 2)%nat -> length (ex_values ex) = (ex_dims ex * n)%nat -> vals_fin ex -> fin_pt p ->
  (pidx < n)%nat -> (pidx = 0%nat -> first = true) ->
  pos_step mixed arr (ROk (acc, pex ex pidx, first)) (point_jv fmt p ex pidx) = ROk (p :: acc, pex ex (S pidx), false).
Proof.
  intros Hd Hl Hf [Hx Hy] Hi H0. unfold pos_step. rewrite point_jv_map. cbn [is_array negb]. rewrite andb_false_r.
  unfold parse_position. cbn [elems]. rewrite take_nums_false.
  2:{ unfold pos_nums. constructor; [exact Hx|]. constructor; [exact Hy|]. apply (pos_vals_fin ex pidx n Hf Hl Hi). }
  assert (Hlen : length (pos_vals ex pidx) = ex_dims ex) by apply pos_vals_length.
  assert (Hfirst : firstn 4 (pos_nums p ex pidx) = pos_nums p ex pidx).
  { apply firstn_all2. unfold pos_nums. cbn [length]. lia. }
  rewrite Hfirst. unfold pos_nums at 1. destruct p as [x y]. cbn [fst snd].
  unfold pos_nums. cbn [nth skipn fst snd].
  pose proof (ex_vals_chunk ex pidx n Hl Hi) as Hc.
  unfold pex. destruct (ex_dims ex) as [|d'] eqn:Ed.
  - destruct (pos_vals ex pidx); [|cbn in Hlen; lia]. reflexivity.
  - destruct pidx as [|pidx].
    + rewrite (H0 eq_refl). destruct (pos_vals ex 0) as [|v0 vs] eqn:Ev; [cbn in Hlen; lia|].
      f_equal. f_equal. f_equal. rewrite Hlen. f_equal. rewrite Nat.mul_1_r.
      rewrite Hc. cbn [Nat.mul skipn]. reflexivity.
    + cbn [dims values]. f_equal. f_equal. f_equal. f_equal.
      assert (Hpad : pad_dims (S d') (pos_vals ex (S pidx)) = pos_vals ex (S pidx)).
      { unfold pad_dims. rewrite <- Hlen at 1. apply map_nth_id. }
      rewrite Hpad, Hc.
      replace (S d' * S (S pidx))%nat with (S d' * S pidx + S d')%nat by lia.
      rewrite firstn_add_skipn. rewrite (Nat.mul_comm (S pidx) (S d')). reflexivity.
Qed.

Lemma series_fold_back (mixed arr : bool) (ex : option extra) (n : nat) :
  (ex_dims ex <= 2)%nat -> length (ex_values ex) = (ex_dims ex * n)%nat -> vals_fin ex ->
  forall (ps : list fpt) (pidx : nat) (acc : list fpt) (first : bool),
  Forall fin_pt ps -> (pidx + length ps <= n)%nat -> (pidx = 0%nat -> first = true) ->
  fold_left (pos_step mixed arr)
    (map (fun pi => point_jv fmt (fst pi) ex (snd pi)) (combine ps (seq pidx (length ps))))
    (ROk (acc, pex ex pidx, first))
  = ROk (rev ps ++ acc, pex ex (pidx + length ps), match ps with [] => first | _ => false end).
Proof.
  intros Hd Hl Hf. induction ps as [|p ps IH]; intros pidx acc first Hps Hn H0.
  - cbn. rewrite Nat.add_0_r. reflexivity.
  - inversion Hps as [|? ? Hp Hps']; subst. cbn [length seq combine map fold_left fst snd] in *.
    rewrite (pos_step_back mixed arr first ex n pidx acc p Hd Hl Hf Hp); [|lia|exact H0].
    rewrite (IH (S pidx) (p :: acc) false Hps'); [|lia|lia].
    cbn [rev]. rewrite <- app_assoc. cbn [app]. f_equal. f_equal; [f_equal; f_equal; lia|destruct ps; reflexivity].
Qed.

Lemma pex_full (ex : option extra) (n : nat) : (0 < n)%nat -> length (ex_values ex) = (ex_dims ex * n)%nat ->
  pex ex n = coords_part ex.
Proof.
  intros Hn Hl. unfold pex, coords_part. destruct ex as [e|]; cbn [ex_dims ex_values] in *; [|reflexivity].
  destruct (dims e) as [|d] eqn:Ed; [reflexivity|]. destruct n as [|n]; [lia|].
  rewrite <- Hl, firstn_all. reflexivity.
Qed.

Lemma series_elems (ps : list fpt) (ex : option extra) (pidx : nat) :
  elems (series_jv fmt ps ex pidx) = map (fun pi => point_jv fmt (fst pi) ex (snd pi)) (combine ps (seq pidx (length ps))).
Proof. reflexivity. Qed.

(* LineString / MultiLineString coordinates *)
Lemma parse_line_back (top : bool) (ps : list fpt) (ex : option extra) :
  (ps <> []) -> Forall fin_pt ps -> ex_form (length ps) ex -> vals_fin ex ->
  parse_line_coords top (Some (series_jv fmt ps ex 0)) = ROk (ps, coords_part ex).
Proof.
  intros Hne Hps Hex Hf. unfold parse_line_coords. change (is_array (series_jv fmt ps ex 0)) with true. cbn [negb]. rewrite andb_false_r.
  assert (Hd : (ex_dims ex <= 2)%nat /\ length (ex_values ex) = (ex_dims ex * length ps)%nat).
  { destruct ex as [e|]; cbn [ex_form ex_dims ex_values] in *; [destruct Hex as (A & B & _); split; assumption|split; [lia|reflexivity]]. }
  destruct Hd as [Hd Hl].
  assert (Hp0 : pex ex 0 = None) by (unfold pex; destruct (ex_dims ex); reflexivity).
  replace (@ROk (list fpt * option extra * bool) ([], None, true)) with (@ROk (list fpt * option extra * bool) ([], pex ex 0, true))
    by (rewrite Hp0; reflexivity).
  rewrite series_elems.
  rewrite (series_fold_back MIXED_OK true ex (length ps) Hd Hl Hf ps 0 [] true Hps); [|lia|reflexivity].
  rewrite app_nil_r, rev_involutive. cbn [Nat.add]. rewrite pex_full; [reflexivity| |exact Hl].
  destruct ps; [congruence|cbn [length]; lia].
Qed.

(* ------------------------------------------------------------------ *)
(* rings                                                                *)

Definition npts (rings : list (list fpt)) : nat := fold_right (fun r acc => (length r + acc)%nat) 0%nat rings.

Lemma rings_fold_back (ex : option extra) (n : nat) :
  (ex_dims ex <= 2)%nat -> length (ex_values ex) = (ex_dims ex * n)%nat -> vals_fin ex ->
  forall (rings : list (list fpt)) (pidx : nat) (racc : list (list fpt)) (first : bool),
  Forall (Forall fin_pt) rings -> Forall (fun r => r <> []) rings -> (pidx + npts rings <= n)%nat ->
  (pidx = 0%nat -> first = true) ->
  fold_left ring_step (rings_jv fmt rings ex pidx) (ROk (racc, pex ex pidx, first))
  = ROk (rev rings ++ racc, pex ex (pidx + npts rings), match rings with [] => first | _ => false end).
Proof.
  intros Hd Hl Hf. induction rings as [|r rings IH]; intros pidx racc first Hfin Hne Hn H0.
  - cbn. rewrite Nat.add_0_r. reflexivity.
  - inversion Hfin as [|? ? Hr Hfin']; subst. inversion Hne as [|? ? Hr0 Hne']; subst.
    cbn [rings_jv fold_left npts fold_right] in *. fold (npts rings) in *.
    unfold ring_step at 2. change (is_array (series_jv fmt r ex pidx)) with true. cbn [negb]. rewrite series_elems.
    rewrite (series_fold_back MIXED_OK false ex n Hd Hl Hf r pidx [] first Hr); [|lia|exact H0].
    rewrite app_nil_r, rev_involutive.
    rewrite (IH (pidx + length r)%nat (r :: racc) false Hfin' Hne'); [|lia|destruct r; [congruence|cbn [length]; lia]].
    cbn [rev]. rewrite <- app_assoc. cbn [app]. rewrite Nat.add_assoc. destruct rings; reflexivity.
Qed.

Lemma parse_poly_back (top : bool) (rings : list (list fpt)) (ex : option extra) :
  rings <> [] -> Forall (fun r => r <> []) rings -> Forall (Forall fin_pt) rings -> ex_form (npts rings) ex -> vals_fin ex ->
  parse_poly_coords top (Some (JArr (rings_jv fmt rings ex 0))) = ROk (rings, coords_part ex).
Proof.
  intros Hne Hr Hfin Hex Hf. unfold parse_poly_coords. cbn [is_array negb]. rewrite andb_false_r.
  change (elems (JArr ?l)) with l.
  assert (Hd : (ex_dims ex <= 2)%nat /\ length (ex_values ex) = (ex_dims ex * npts rings)%nat).
  { destruct ex as [e|]; cbn [ex_form ex_dims ex_values] in *; [destruct Hex as (A & B & _); split; assumption|split; [lia|reflexivity]]. }
  destruct Hd as [Hd Hl].
  assert (Hp0 : pex ex 0 = None) by (unfold pex; destruct (ex_dims ex); reflexivity).
  replace (@ROk (list (list fpt) * option extra * bool) ([], None, true))
    with (@ROk (list (list fpt) * option extra * bool) ([], pex ex 0, true)) by (rewrite Hp0; reflexivity).
  rewrite (rings_fold_back ex (npts rings) Hd Hl Hf rings 0 [] true Hfin Hr); [|lia|reflexivity].
  rewrite app_nil_r, rev_involutive. cbn [Nat.add]. rewrite pex_full; [reflexivity| |exact Hl].
  destruct rings as [|r rings]; [congruence|]. inversion Hr; subst. destruct r; [congruence|]. cbn. lia.
Qed.

(* ------------------------------------------------------------------ *)
(* the member scan of a written object                                  *)

Lemma scan_foreign (ms : list (jkey * jv)) : forall ks, forallb foreign_key ms = true ->
  scan_from ks ms = {| k_type := k_type ks; k_coords := k_coords ks; k_geoms := k_geoms ks; k_geom := k_geom ks;
                       k_feats := k_feats ks; k_foreign := k_foreign ks ++ ms |}.
Proof.
  induction ms as [|kv ms IH]; intros ks H.
  - cbn. rewrite app_nil_r. destruct ks; reflexivity.
  - cbn [forallb] in H. apply andb_true_iff in H. destruct H as [Hk Hms]. unfold scan_from in *. cbn [fold_left].
    rewrite (IH _ Hms). unfold foreign_key in Hk. cbv zeta in Hk. apply negb_true_iff in Hk.
    rewrite !orb_false_iff in Hk. destruct Hk as [[[[H1 H2] H3] H4] H5]. unfold scan_step. cbv zeta.
    rewrite H1, H2, H3, H4, H5. cbn [k_type k_coords k_geoms k_geom k_feats k_foreign].
    rewrite <- app_assoc. reflexivity.
Qed.

Definition ks0 : pkeys := {| k_type := None; k_coords := None; k_geoms := None; k_geom := None; k_feats := None; k_foreign := [] |}.

Lemma scan_written (K : list Z) (tv cv : jv) (ms : list (jkey * jv)) : forallb foreign_key ms = true ->
  scan_keys ((key s_type, tv) :: (key K, cv) :: ms) = scan_from (scan_step (scan_step ks0 (key s_type, tv)) (key K, cv)) ms.
Proof. reflexivity. Qed.

Lemma scan_coords_obj tv cv ms : forallb foreign_key ms = true ->
  scan_keys ((key s_type, tv) :: (key s_coordinates, cv) :: ms) =
  {| k_type := Some tv; k_coords := Some cv; k_geoms := None; k_geom := None; k_feats := None; k_foreign := ms |}.
Proof. intros H. rewrite (scan_written _ _ _ _ H), (scan_foreign ms _ H). reflexivity. Qed.
Lemma scan_geometry_obj tv cv ms : forallb foreign_key ms = true ->
  scan_keys ((key s_type, tv) :: (key s_geometry, cv) :: ms) =
  {| k_type := Some tv; k_coords := None; k_geoms := None; k_geom := Some cv; k_feats := None; k_foreign := ms |}.
Proof. intros H. rewrite (scan_written _ _ _ _ H), (scan_foreign ms _ H). reflexivity. Qed.
Lemma scan_geometries_obj tv cv ms : forallb foreign_key ms = true ->
  scan_keys ((key s_type, tv) :: (key s_geometries, cv) :: ms) =
  {| k_type := Some tv; k_coords := None; k_geoms := Some cv; k_geom := None; k_feats := None; k_foreign := ms |}.
Proof. intros H. rewrite (scan_written _ _ _ _ H), (scan_foreign ms _ H). reflexivity. Qed.
Lemma scan_features_obj tv cv ms : forallb foreign_key ms = true ->
  scan_keys ((key s_type, tv) :: (key s_features, cv) :: ms) =
  {| k_type := Some tv; k_coords := None; k_geoms := None; k_geom := None; k_feats := Some cv; k_foreign := ms |}.
Proof. intros H. rewrite (scan_written _ _ _ _ H), (scan_foreign ms _ H). reflexivity. Qed.

(* ------------------------------------------------------------------ *)
(* first_member / get2 and the default "properties" member              *)

Lemma first_member_app_none (name : list Z) (ms l : list (jkey * jv)) :
  first_member name ms = None -> first_member name (ms ++ l) = first_member name l.
Proof.
  unfold first_member. induction ms as [|kv ms IH]; [reflexivity|]. cbn [find app].
  match goal with |- context [if ?c then _ else _] => destruct c end; [intros H; discriminate H|]. exact IH.
Qed.

Lemma get2_props_default (b : list Z) (ms : list (jkey * jv)) :
  get2 s_properties b (ms ++ match first_member s_properties ms with Some _ => [] | None => [props_member] end)
  = get2 s_properties b ms.
Proof.
  destruct (first_member s_properties ms) as [v|] eqn:E; [rewrite app_nil_r; reflexivity|].
  unfold get2. rewrite (first_member_app_none _ _ _ E), E. reflexivity.
Qed.

Lemma circle_of_get2 (o : popts) (one : Z) (p : fpt) (m1 m2 : list (jkey * jv)) :
  (forall b, get2 s_properties b m1 = get2 s_properties b m2) -> circle_of o one p m1 = circle_of o one p m2.
Proof. intros H. unfold circle_of. rewrite !H. reflexivity. Qed.

Lemma extra_members_true (ex : option extra) :
  extra_members ex true = ex_members ex ++ match first_member s_properties (ex_members ex) with Some _ => [] | None => [props_member] end.
Proof. destruct ex as [[d v [ms|]]|]; reflexivity. Qed.

Lemma circle_of_default (o : popts) (one : Z) (p : fpt) (ex : option extra) :
  circle_of o one p (extra_members ex true) = circle_of o one p (ex_members ex).
Proof. apply circle_of_get2. intros b. rewrite extra_members_true. apply get2_props_default. Qed.

(* ------------------------------------------------------------------ *)
(* objects in parsed form                                               *)

Definition check_ok (o : popts) (g : gobj) : Prop := require_valid o && negb (g_valid o g) = false.

Definition no_members (ex : option extra) : Prop := match ex with Some e => members e = None | None => True end.
Definition members_only (ex : option extra) : Prop := ex_form 0 ex /\ ex_dims ex = 0%nat.

Definition line_form (ps : list fpt) (ex : option extra) : Prop :=
  (2 <= length ps)%nat /\ Forall fin_pt ps /\ ex_form (length ps) ex /\ vals_fin ex.
Definition poly_form (rings : list (list fpt)) (ex : option extra) : Prop :=
  rings <> [] /\ forallb ring_ok rings = true /\ Forall (Forall fin_pt) rings /\ ex_form (npts rings) ex /\ vals_fin ex.
Definition rect_form (mn mx : fpt) : Prop :=
  fin_pt mn /\ fin_pt mx /\ fnum_ltb (fst mn) (fst mx) = true /\ fnum_ltb (snd mn) (snd mx) = true.

(* a child of a Multi* collection *)
Definition child_pf (k : Z) (c : gobj) : Prop :=
  match c with
  | JPoint p ex => k = 0 /\ ex_form 1 ex /\ no_members ex
  | JLine ps ex => k = 1 /\ line_form ps ex /\ no_members ex
  | JPoly rings ex => k = 2 /\ poly_form rings ex /\ no_members ex
  | _ => False
  end.

Definition not_circle (o : popts) (one : Z) (b : gobj) (ms : list (jkey * jv)) : Prop :=
  match b with
  | JPoint p _ | JSimple p => circle_of o one p ms = None
  | _ => True
  end.

Fixpoint pf (o : popts) (one : Z) (g : gobj) : Prop :=
  match g with
  | JPoint p ex => ex_form 1 ex /\ (ex = None -> allow_simple o = false) /\ check_ok o g
  | JSimple p => allow_simple o = true /\ check_ok o g
  | JRect mn mx => allow_rects o = true /\ rect_form mn mx /\ check_ok o g
  | JLine ps ex => line_form ps ex /\ check_ok o g
  | JPoly rings ex =>
      poly_form rings ex /\ (ex = None -> forall ext, rings = [ext] -> allow_rects o && perfect_rect ext = false) /\ check_ok o g
  | JFeature b ex => pf o one b /\ members_only ex /\ not_circle o one b (ex_members ex)
  | JColl k cs ex =>
      0 <= k <= 4 /\ members_only ex /\ (k < 3 -> check_ok o g) /\
      (fix all (l : list gobj) : Prop :=
         match l with [] => True | c :: r => (if k <? 3 then child_pf k c else pf o one c) /\ all r end) cs
  | JCircle c m => disable_circle o = false /\ fin m /\ check_ok o g
  end.

(* what Parse returns for the written tree: the object itself, a Feature having gained the default member *)
Fixpoint norm (g : gobj) : gobj :=
  match g with
  | JFeature b ex => JFeature (norm b) (Some {| dims := 0; values := []; members := Some (extra_members ex true) |})
  | JColl k cs ex => JColl k (if k <? 3 then cs else map norm cs) ex
  | _ => g
  end.

Fixpoint gdepth (g : gobj) : nat :=
  match g with
  | JFeature b _ => S (gdepth b)
  | JColl _ cs _ => S (fold_right (fun c acc => Nat.max (gdepth c) acc) 0%nat cs)
  | JCircle _ _ => 2%nat
  | _ => 1%nat
  end.

Lemma members_only_back (ex : option extra) : members_only ex -> with_members None (ex_members ex) = ex.
Proof.
  intros [Hf Hd]. rewrite <- (with_members_back 0 ex Hf) at 2. f_equal.
  destruct ex as [e|]; [|reflexivity]. cbn [ex_dims coords_part] in *. rewrite Hd. reflexivity.
Qed.

Lemma members_only_foreign (ex : option extra) : members_only ex -> forallb foreign_key (ex_members ex) = true.
Proof.
  intros [Hf _]. destruct ex as [[d v [ms|]]|]; cbn [ex_form ex_members members] in *; try reflexivity.
  destruct Hf as (_ & _ & _ & H). exact H.
Qed.

Lemma ex_form_foreign (n : nat) (ex : option extra) : ex_form n ex -> forallb foreign_key (ex_members ex) = true.
Proof.
  intros Hf. destruct ex as [[d v [ms|]]|]; cbn [ex_form ex_members members] in *; try reflexivity.
  destruct Hf as (_ & _ & _ & H). exact H.
Qed.

Lemma coords_part_id (n : nat) (ex : option extra) : ex_form n ex -> no_members ex -> coords_part ex = ex.
Proof.
  destruct ex as [[d v ms]|]; [|reflexivity]. cbn [ex_form no_members coords_part dims values members].
  intros (_ & _ & Hm) ->. destruct d; [congruence|reflexivity].
Qed.

Lemma map_until_map {A B C} (f : B -> res C) (j : A -> B) (g : A -> C) (l : list A) :
  Forall (fun a => f (j a) = ROk (g a)) l -> map_until f (map j l) = ROk (map g l).
Proof.
  induction 1 as [|a l Ha Hl IH]; [reflexivity|]. cbn [map map_until]. rewrite Ha, IH. reflexivity.
Qed.

(* evaluate comparisons between literal names *)
Ltac eval_names :=
  repeat match goal with
  | |- context [bytes_eqb ?a ?b] =>
      let v := eval vm_compute in (bytes_eqb a b) in
      match v with
      | true => change (bytes_eqb a b) with true
      | false => change (bytes_eqb a b) with false
      end
  end; cbv beta iota.

Lemma rt_point (o : popts) (one : Z) (p : fpt) (ex : option extra) (f : nat) :
  pf o one (JPoint p ex) -> parse (S f) o one (emit_jv fmt (JPoint p ex)) = POk (JPoint p ex).
Proof.
  intros (Hex & Hs & Hc). cbn [emit_jv parse]. rewrite extra_members_false.
  rewrite (scan_coords_obj _ _ _ (ex_form_foreign 1 ex Hex)). cbn [k_type k_coords k_foreign str_jv].
  eval_names. rewrite (parse_point_back true p ex Hex), (with_members_back 1 ex Hex).
  unfold check_ok in Hc. destruct ex as [e|].
  - rewrite Hc. reflexivity.
  - rewrite (Hs eq_refl). rewrite Hc. reflexivity.
Qed.

Lemma rt_simple (o : popts) (one : Z) (p : fpt) (f : nat) :
  pf o one (JSimple p) -> parse (S f) o one (emit_jv fmt (JSimple p)) = POk (JSimple p).
Proof.
  intros (Hs & Hc). cbn [emit_jv parse].
  rewrite (scan_coords_obj _ _ [] eq_refl). cbn [k_type k_coords k_foreign str_jv].
  eval_names. rewrite (parse_point_back true p None I). cbn [coords_part with_members].
  rewrite Hs. unfold check_ok in Hc. rewrite Hc. reflexivity.
Qed.

Lemma fnum_eqb_refl (x : fnum) : fin x -> fnum_eqb x x = true.
Proof. destruct x; cbn; try contradiction. intros _. apply Z.eqb_refl. Qed.

Lemma rt_line (o : popts) (one : Z) (ps : list fpt) (ex : option extra) (f : nat) :
  pf o one (JLine ps ex) -> parse (S f) o one (emit_jv fmt (JLine ps ex)) = POk (JLine ps ex).
Proof.
  intros ((Hn & Hps & Hex & Hv) & Hc). cbn [emit_jv parse]. rewrite extra_members_false.
  rewrite (scan_coords_obj _ _ _ (ex_form_foreign _ ex Hex)). cbn [k_type k_coords k_foreign str_jv].
  eval_names. rewrite (parse_line_back true ps ex); [|destruct ps; [cbn in Hn; lia|congruence]|exact Hps|exact Hex|exact Hv].
  assert (Hlt : (length ps <? 2)%nat = false) by (apply Nat.ltb_ge; exact Hn). rewrite Hlt.
  rewrite (with_members_back _ ex Hex). unfold check_ok in Hc. rewrite Hc. reflexivity.
Qed.

Lemma ring_ok_nonempty (rings : list (list fpt)) : forallb ring_ok rings = true -> Forall (fun r => r <> []) rings.
Proof.
  intros H. apply Forall_forall. intros r Hr. rewrite forallb_forall in H. specialize (H r Hr).
  unfold ring_ok in H. destruct r; [cbn in H; discriminate|congruence].
Qed.

Lemma rings_not_empty (rings : list (list fpt)) : rings <> [] -> forallb ring_ok rings = true -> rings_empty rings = false.
Proof.
  intros Hne H. destruct rings as [|e rest]; [congruence|]. cbn [forallb] in H. apply andb_true_iff in H. destruct H as [He _].
  unfold ring_ok in He. apply andb_true_iff in He. destruct He as [He _]. cbn [rings_empty].
  apply Nat.ltb_ge. apply Nat.leb_le in He. lia.
Qed.

Lemma rt_poly (o : popts) (one : Z) (rings : list (list fpt)) (ex : option extra) (f : nat) :
  pf o one (JPoly rings ex) -> parse (S f) o one (emit_jv fmt (JPoly rings ex)) = POk (JPoly rings ex).
Proof.
  intros ((Hne & Hok & Hfin & Hex & Hv) & Hr & Hc). cbn [emit_jv parse]. rewrite extra_members_false.
  rewrite (scan_coords_obj _ _ _ (ex_form_foreign _ ex Hex)). cbn [k_type k_coords k_foreign str_jv].
  eval_names. rewrite (rings_not_empty rings Hne Hok).
  rewrite (parse_poly_back true rings ex Hne (ring_ok_nonempty rings Hok) Hfin Hex Hv).
  destruct rings as [|ext holes]; [congruence|]. rewrite Hok. cbn [negb].
  rewrite (with_members_back _ ex Hex). unfold check_ok in Hc.
  destruct ex as [e|].
  - rewrite Hc. reflexivity.
  - destruct holes as [|h holes]; [|rewrite Hc; reflexivity].
    rewrite (Hr eq_refl ext eq_refl). rewrite Hc. reflexivity.
Qed.

Lemma rt_rect (o : popts) (one : Z) (mn mx : fpt) (f : nat) :
  pf o one (JRect mn mx) -> parse (S f) o one (emit_jv fmt (JRect mn mx)) = POk (JRect mn mx).
Proof.
  intros (Ha & ((Hmn1 & Hmn2) & (Hmx1 & Hmx2) & Hx & Hy) & Hc). cbn [emit_jv parse].
  rewrite (scan_coords_obj _ _ [] eq_refl). cbn [k_type k_coords k_foreign str_jv]. eval_names.
  change (JArr [series_jv fmt (fpt_rect_points mn mx) None 0]) with (JArr (rings_jv fmt [fpt_rect_points mn mx] None 0)).
  destruct mn as [a b], mx as [c d]. cbn [fst snd] in *.
  destruct a as [a| |], b as [b| |], c as [c| |], d as [d| |]; cbn [fin] in *; try contradiction.
  rewrite (parse_poly_back true [fpt_rect_points (FV a, FV b) (FV c, FV d)] None).
  2:{ congruence. }
  2:{ repeat constructor. unfold fpt_rect_points. congruence. }
  2:{ repeat constructor. }
  2:{ exact I. }
  2:{ constructor. }
  cbn [fnum_ltb] in Hx, Hy.
  assert (Hrok : forallb ring_ok [fpt_rect_points (FV a, FV b) (FV c, FV d)] = true).
  { unfold ring_ok, fpt_rect_points, fpt_eqb. cbn [forallb length Nat.leb last fst snd fnum_eqb]. rewrite !Z.eqb_refl. reflexivity. }
  rewrite Hrok. cbn [negb coords_part with_members]. rewrite Ha.
  assert (Hp : perfect_rect (fpt_rect_points (FV a, FV b) (FV c, FV d)) = true).
  { unfold perfect_rect, fpt_rect_points. cbn [fst snd fnum_eqb fnum_ltb]. rewrite !Z.eqb_refl, Hx, Hy. reflexivity. }
  rewrite Hp. cbn [andb fpt_rect_points nth fst snd]. unfold check_ok in Hc. rewrite Hc. reflexivity.
Qed.

Lemma first_member_hit (k : list Z) (v : jv) (ms : list (jkey * jv)) : first_member k ((key k, v) :: ms) = Some v.
Proof. unfold first_member. cbn [find key fst snd]. rewrite bytes_eqb_refl. reflexivity. Qed.

Lemma rt_circle (o : popts) (one : Z) (c : fpt) (m : fnum) (f : nat) :
  pf o one (JCircle c m) -> parse (S (S f)) o one (emit_jv fmt (JCircle c m)) = POk (JCircle c m).
Proof.
  intros (Hd & Hm & Hc). destruct m as [k| |]; cbn [fin] in Hm; try contradiction.
  cbn [emit_jv]. set (pm := (key s_properties, JObj [(key s_type, str_jv s_Circle); (key s_radius, num_jv fmt (FV k)); (key s_radius_units, str_jv s_m)])).
  set (geom := JObj [(key s_type, str_jv s_Point); (key s_coordinates, JArr [num_jv fmt (fst c); num_jv fmt (snd c)])]).
  assert (Hg : parse (S f) o one geom = POk (if allow_simple o then JSimple c else JPoint c None)).
  { subst geom. cbn [parse]. rewrite (scan_coords_obj _ _ [] eq_refl). cbn [k_type k_coords k_foreign str_jv]. eval_names.
    change (JArr [num_jv fmt (fst c); num_jv fmt (snd c)]) with (point_jv fmt c None 0).
    rewrite (parse_point_back true c None I). cbn [coords_part with_members].
    unfold check_ok in Hc. cbn [g_valid] in *. destruct (allow_simple o); cbn [g_valid]; rewrite Hc; reflexivity. }
  set (f1 := S f) in *. clearbody f1.
  cbn [parse]. rewrite (scan_geometry_obj _ _ [pm] eq_refl). cbn [k_type k_geom k_foreign str_jv]. eval_names.
  rewrite Hg.
  assert (Hcirc : circle_of o one c [pm] = Some (POk (JCircle c (FV k)))).
  { unfold circle_of. rewrite Hd. subst pm. unfold get2. rewrite !first_member_hit.
    cbn [first_member find key fst snd str_jv str_of num_jv]. eval_names. reflexivity. }
  destruct (allow_simple o); unfold CIRCLE_SIMPLE_OK; rewrite Hcirc; reflexivity.
Qed.

(* ------------------------------------------------------------------ *)
(* children of Multi* collections                                       *)

Lemma child0_back (c : gobj) : child_pf 0 c ->
  match parse_point_coords false (Some (coords_jv fmt c)) with ROk (p, ex) => ROk (JPoint p ex) | RErr e => RErr e end = ROk c.
Proof.
  destruct c as [p ex|p|mn mx|ps ex|rings ex|b ex|k cs ex|cc m]; cbn [child_pf]; try contradiction;
    intros (Hk & Hf & Hm); try discriminate Hk.
  cbn [coords_jv]. rewrite (parse_point_back false p ex Hf), (coords_part_id 1 ex Hf Hm). reflexivity.
Qed.

Lemma child1_back (c : gobj) : child_pf 1 c ->
  match parse_line_coords false (Some (coords_jv fmt c)) with
  | ROk (ps, ex) => if (length ps <? 2)%nat then RErr E_CoordsInvalid else ROk (JLine ps ex)
  | RErr e => RErr e end = ROk c.
Proof.
  destruct c as [p ex|p|mn mx|ps ex|rings ex|b ex|k cs ex|cc m]; cbn [child_pf]; try contradiction;
    intros (Hk & Hf & Hm); try discriminate Hk.
  destruct Hf as (Hn & Hps & Hex & Hv). cbn [coords_jv].
  rewrite (parse_line_back false ps ex); [|destruct ps; [cbn in Hn; lia|congruence]|exact Hps|exact Hex|exact Hv].
  assert (Hlt : (length ps <? 2)%nat = false) by (apply Nat.ltb_ge; exact Hn). rewrite Hlt.
  rewrite (coords_part_id _ ex Hex Hm). reflexivity.
Qed.

Lemma child2_back (c : gobj) : child_pf 2 c ->
  match parse_poly_coords false (Some (coords_jv fmt c)) with
  | ROk (rings, ex) =>
      match rings with
      | [] => RErr E_CoordsInvalid
      | _ => if forallb ring_ok rings then ROk (JPoly rings ex) else RErr E_CoordsInvalid
      end
  | RErr e => RErr e end = ROk c.
Proof.
  destruct c as [p ex|p|mn mx|ps ex|rings ex|b ex|k cs ex|cc m]; cbn [child_pf]; try contradiction;
    intros (Hk & Hf & Hm); try discriminate Hk.
  destruct Hf as (Hne & Hok & Hfin & Hex & Hv). cbn [coords_jv]. rewrite (rings_not_empty rings Hne Hok).
  rewrite (parse_poly_back false rings ex Hne (ring_ok_nonempty rings Hok) Hfin Hex Hv).
  destruct rings as [|e r]; [congruence|]. rewrite Hok, (coords_part_id _ ex Hex Hm). reflexivity.
Qed.

Lemma pf_coll_children (o : popts) (one : Z) (k : Z) (cs : list gobj) (ex : option extra) :
  pf o one (JColl k cs ex) -> Forall (fun c => if k <? 3 then child_pf k c else pf o one c) cs.
Proof.
  cbn [pf]. intros (_ & _ & _ & H). induction cs as [|c cs IH]; [constructor|]. destruct H as [Hc Hr].
  constructor; [exact Hc|apply IH; exact Hr].
Qed.

Lemma extra_members_true_ne (ex : option extra) : exists m ms, extra_members ex true = m :: ms.
Proof.
  rewrite extra_members_true. destruct (ex_members ex) as [|m ms]; [cbn; eexists; eexists; reflexivity|].
  cbn [app]. eexists; eexists; reflexivity.
Qed.

Lemma extra_members_true_foreign (ex : option extra) : members_only ex -> forallb foreign_key (extra_members ex true) = true.
Proof.
  intros H. rewrite extra_members_true, forallb_app, (members_only_foreign ex H).
  destruct (first_member s_properties (ex_members ex)); reflexivity.
Qed.

Lemma depth_children_le (cs : list gobj) (c : gobj) : In c cs ->
  (gdepth c <= fold_right (fun c acc => Nat.max (gdepth c) acc) 0%nat cs)%nat.
Proof.
  induction cs as [|x cs IH]; [contradiction|]. intros [->|H]; cbn [fold_right]; [lia|]. specialize (IH H). lia.
Qed.

(* ------------------------------------------------------------------ *)
(* MAIN                                                                 *)

Theorem parse_emit_fixpoint (o : popts) (one : Z) (g : gobj) :
  pf o one g -> forall fuel, (gdepth g <= fuel)%nat -> parse fuel o one (emit_jv fmt g) = POk (norm g).
Proof.
  induction g as [p ex|p|mn mx|ps ex|rings ex|b ex IHb|k cs ex IHcs|c m] using gobj_ind'; intros Hpf fuel Hfuel;
    (destruct fuel as [|f]; [cbn [gdepth] in Hfuel; lia|]).
  - apply rt_point; exact Hpf.
  - apply rt_simple; exact Hpf.
  - apply rt_rect; exact Hpf.
  - apply rt_line; exact Hpf.
  - apply rt_poly; exact Hpf.
  - (* Feature *)
    destruct Hpf as (Hb & Hm & Hnc). cbn [gdepth] in Hfuel.
    specialize (IHb Hb f ltac:(lia)).
    pose proof (extra_members_true_foreign ex Hm) as Hfk.
    cbn [emit_jv norm parse]. rewrite (scan_geometry_obj _ _ _ Hfk). cbn [k_type k_geom k_foreign str_jv]. eval_names.
    rewrite IHb.
    assert (Hcirc : match norm b, extra_members ex true with
                    | JPoint p _, _ :: _ => circle_of o one p (extra_members ex true)
                    | JSimple p, _ :: _ => if CIRCLE_SIMPLE_OK then circle_of o one p (extra_members ex true) else None
                    | _, _ => None end = None).
    { destruct b; cbn [norm not_circle] in *; try reflexivity;
        destruct (extra_members ex true) eqn:E; try reflexivity; rewrite <- E, circle_of_default; exact Hnc. }
    rewrite Hcirc. destruct (extra_members_true_ne ex) as (m0 & ms0 & E). rewrite E. reflexivity.
  - (* collections *)
    pose proof (pf_coll_children o one k cs ex Hpf) as Hch.
    destruct Hpf as (Hk & Hm & Hc & _). cbn [gdepth] in Hfuel.
    pose proof (members_only_foreign ex Hm) as Hfk.
    assert (Hk5 : k = 0 \/ k = 1 \/ k = 2 \/ k = 3 \/ k = 4) by lia.
    cbn [emit_jv norm]. rewrite extra_members_false.
    destruct Hk5 as [-> | [-> | [-> | [-> | ->] ] ] ].
    + change (coll_type 0) with s_MultiPoint. change (coll_key 0) with s_coordinates. change (0 <? 3) with true in *. cbv iota in *.
      cbn [parse]. rewrite (scan_coords_obj _ _ _ Hfk). cbn [k_type k_coords k_foreign str_jv is_array negb elems]. eval_names.
      rewrite (map_until_map _ (coords_jv fmt) (fun c => c) cs).
      2:{ eapply Forall_impl; [|exact Hch]. intros c Hcc. cbv beta. apply child0_back. exact Hcc. }
      rewrite map_id, (members_only_back ex Hm). unfold MULTIPOINT_VALID_CHECK.
      specialize (Hc ltac:(lia)). unfold check_ok in Hc. rewrite Hc. reflexivity.
    + change (coll_type 1) with s_MultiLineString. change (coll_key 1) with s_coordinates. change (1 <? 3) with true in *. cbv iota in *.
      cbn [parse]. rewrite (scan_coords_obj _ _ _ Hfk). cbn [k_type k_coords k_foreign str_jv is_array negb elems]. eval_names.
      rewrite (map_until_map _ (coords_jv fmt) (fun c => c) cs).
      2:{ eapply Forall_impl; [|exact Hch]. intros c Hcc. cbv beta. apply child1_back. exact Hcc. }
      rewrite map_id, (members_only_back ex Hm).
      specialize (Hc ltac:(lia)). unfold check_ok in Hc. rewrite Hc. reflexivity.
    + change (coll_type 2) with s_MultiPolygon. change (coll_key 2) with s_coordinates. change (2 <? 3) with true in *. cbv iota in *.
      cbn [parse]. rewrite (scan_coords_obj _ _ _ Hfk). cbn [k_type k_coords k_foreign str_jv is_array negb elems]. eval_names.
      rewrite (map_until_map _ (coords_jv fmt) (fun c => c) cs).
      2:{ eapply Forall_impl; [|exact Hch]. intros c Hcc. cbv beta. apply child2_back. exact Hcc. }
      rewrite map_id, (members_only_back ex Hm).
      specialize (Hc ltac:(lia)). unfold check_ok in Hc. rewrite Hc. reflexivity.
    + change (coll_type 3) with s_GeometryCollection. change (coll_key 3) with s_geometries. change (3 <? 3) with false in *. cbv iota in *.
      cbn [parse]. rewrite (scan_geometries_obj _ _ _ Hfk). cbn [k_type k_geoms k_foreign str_jv is_array negb elems]. eval_names.
      rewrite (map_until_map _ (emit_jv fmt) norm cs).
      2:{ rewrite Forall_forall in *. intros c Hin. cbv beta. rewrite (IHcs c Hin (Hch c Hin) f); [reflexivity|].
          pose proof (depth_children_le cs c Hin). lia. }
      rewrite (members_only_back ex Hm). reflexivity.
    + change (coll_type 4) with s_FeatureCollection. change (coll_key 4) with s_features. change (4 <? 3) with false in *. cbv iota in *.
      cbn [parse]. rewrite (scan_features_obj _ _ _ Hfk). cbn [k_type k_feats k_foreign str_jv is_array negb elems]. eval_names.
      rewrite (map_until_map _ (emit_jv fmt) norm cs).
      2:{ rewrite Forall_forall in *. intros c Hin. cbv beta. rewrite (IHcs c Hin (Hch c Hin) f); [reflexivity|].
          pose proof (depth_children_le cs c Hin). lia. }
      rewrite (members_only_back ex Hm). reflexivity.
  - (* Circle *)
    destruct f as [|f]; [cbn [gdepth] in Hfuel; lia|]. apply rt_circle; exact Hpf.
Qed.

(* ------------------------------------------------------------------ *)
(* one step reaches a fixpoint                                          *)

Lemma first_member_app_some (name : list Z) (ms l : list (jkey * jv)) (v : jv) :
  first_member name ms = Some v -> first_member name (ms ++ l) = Some v.
Proof.
  unfold first_member. induction ms as [|kv ms IH]; [discriminate|]. cbn [find app].
  match goal with |- context [if ?c then _ else _] => destruct c end; [intros H; exact H|]. exact IH.
Qed.

Lemma extra_members_true_has_props (ex : option extra) : exists v, first_member s_properties (extra_members ex true) = Some v.
Proof.
  rewrite extra_members_true. destruct (first_member s_properties (ex_members ex)) as [v|] eqn:E.
  - exists v. rewrite app_nil_r. exact E.
  - rewrite (first_member_app_none _ _ _ E). eexists. reflexivity.
Qed.

Lemma extra_members_norm (ex : option extra) :
  extra_members (Some {| dims := 0; values := []; members := Some (extra_members ex true) |}) true = extra_members ex true.
Proof.
  destruct (extra_members_true_has_props ex) as [v Hv]. cbn [extra_members members]. rewrite Hv. apply app_nil_r.
Qed.

Theorem norm_same_tree (g : gobj) : emit_jv fmt (norm g) = emit_jv fmt g.
Proof.
  induction g as [p ex|p|mn mx|ps ex|rings ex|b ex IHb|k cs ex IHcs|c m] using gobj_ind'; try reflexivity.
  - cbn [norm emit_jv]. rewrite IHb, extra_members_norm. reflexivity.
  - cbn [norm emit_jv]. destruct (k <? 3); [reflexivity|]. rewrite map_map. do 5 f_equal.
    apply map_ext_in. intros c Hc. rewrite Forall_forall in IHcs. apply IHcs. exact Hc.
Qed.

Theorem norm_idempotent (g : gobj) : norm (norm g) = norm g.
Proof.
  induction g as [p ex|p|mn mx|ps ex|rings ex|b ex IHb|k cs ex IHcs|c m] using gobj_ind'; try reflexivity.
  - cbn [norm]. rewrite IHb, extra_members_norm. reflexivity.
  - cbn [norm]. destruct (k <? 3); [reflexivity|]. rewrite map_map. f_equal.
    apply map_ext_in. intros c Hc. rewrite Forall_forall in IHcs. apply IHcs. exact Hc.
Qed.

(* Parse -> JSON -> Parse: the second Parse returns g' = norm g, g' writes the same tree as g, and Parse of
   that tree returns g' again *)
Theorem parse_emit_parse (o : popts) (one : Z) (g : gobj) (fuel : nat) :
  pf o one g -> (gdepth g <= fuel)%nat ->
  parse fuel o one (emit_jv fmt g) = POk (norm g) /\
  emit_jv fmt (norm g) = emit_jv fmt g /\
  parse fuel o one (emit_jv fmt (norm g)) = POk (norm g).
Proof.
  intros Hpf Hf. pose proof (parse_emit_fixpoint o one g Hpf fuel Hf) as H. repeat split; [exact H|apply norm_same_tree|].
  rewrite norm_same_tree. exact H.
Qed.

End RT.

Print Assumptions parse_emit_fixpoint.
Print Assumptions parse_emit_parse.
