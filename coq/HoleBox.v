(* HoleBox.v — property C02 / C03: the bounding-box shortcut of ringContainsRing (arguments of 16 points
   and more) is sound in strict mode.  If the four sides of a rectangle lie strictly inside a ring, so
   does every rational point of the rectangle: no edge of the ring can enter the rectangle, because an
   edge with a point inside would have both ends strictly inside (it cannot cross a side), then so would
   every vertex of the ring (walking round the cycle), and a corner of the rectangle could not be inside
   the ring's own bounding box.  Hence "the box of the line is strictly inside the hole" implies "the
   line is strictly inside the hole", and Poly.IntersectsLine with holes (Holes.v) is exact for line
   strings of any length. *)
From Coq Require Import ZArith Bool List Lia.
From GJ Require Import Base Kernel KernelSpec Series SeriesSpec Ring RingSpec
  RaycastProofs KernelProofs IntersectsProofs IntersectsQ SeriesProofs PipProofs PairProofs Invariance
  Jordan JordanQ JordanRing JordanRect Convex Holes LineSound.
Import ListNotations.
Open Scope Z_scope.

Definition strictly_in_box (q : rect) (p : pt) : Prop :=
  px (fst q) < px p < px (snd q) /\ py (fst q) < py p < py (snd q).

Lemma box_sides (x0 y0 x1 y1 : Z) :
  ring_edges (rect_points ((x0, y0), (x1, y1))) =
  [((x0, y0), (x1, y0)); ((x1, y0), (x1, y1)); ((x1, y1), (x0, y1)); ((x0, y1), (x0, y0))].
Proof.
  unfold ring_edges, segments_spec, rect_points. cbn [closed pts length Nat.ltb Nat.leb last hd path_segs]. rewrite pt_eqb_refl. reflexivity.
Qed.

Lemma box_boundary_point (q : rect) (p : pt) : rect_wf q -> in_rectb q p = true -> ~ strictly_in_box q p ->
  exists s, In s (ring_edges (rect_points q)) /\ on_seg s p.
Proof.
  intros Hw Hin Hns.
  destruct q as [[x0 y0] [x1 y1]], p as [x y]. unfold rect_wf, in_rectb, strictly_in_box, px, py in *. cbn [fst snd] in *.
  rewrite !andb_true_iff, !Z.leb_le in Hin.
  assert (C : x = x0 \/ x = x1 \/ y = y0 \/ y = y1) by lia.
  destruct C as [C|[C|[C|C]]]; subst.
  - exists ((x0, y1), (x0, y0)). split; [unfold ring_edges, segments_spec, rect_points; cbn [closed pts length Nat.ltb Nat.leb last hd path_segs]; rewrite pt_eqb_refl; cbn [In]; auto|]. unfold on_seg, cross, px, py. cbn [fst snd]. split; [ring|]. lia.
  - exists ((x1, y0), (x1, y1)). split; [unfold ring_edges, segments_spec, rect_points; cbn [closed pts length Nat.ltb Nat.leb last hd path_segs]; rewrite pt_eqb_refl; cbn [In]; auto|]. unfold on_seg, cross, px, py. cbn [fst snd]. split; [ring|]. lia.
  - exists ((x0, y0), (x1, y0)). split; [unfold ring_edges, segments_spec, rect_points; cbn [closed pts length Nat.ltb Nat.leb last hd path_segs]; rewrite pt_eqb_refl; cbn [In]; auto|]. unfold on_seg, cross, px, py. cbn [fst snd]. split; [ring|]. lia.
  - exists ((x1, y1), (x0, y1)). split; [unfold ring_edges, segments_spec, rect_points; cbn [closed pts length Nat.ltb Nat.leb last hd path_segs]; rewrite pt_eqb_refl; cbn [In]; auto|]. unfold on_seg, cross, px, py. cbn [fst snd]. split; [ring|]. lia.
Qed.

Lemma seg_meet_at_first (s : seg) (U V : pt) : on_seg s U -> seg_meet s (U, V).
Proof. destruct s as [a b]. intros H. unfold seg_meet. left. exact H. Qed.
Lemma seg_meet_at_second (s : seg) (U V : pt) : on_seg s V -> seg_meet s (U, V).
Proof. destruct s as [a b]. intros H. unfold seg_meet. right. left. exact H. Qed.

(* a segment that meets no side of the box and starts strictly inside ends strictly inside *)
Lemma box_edge (q : rect) (U V : pt) : rect_wf q ->
  (forall s, In s (ring_edges (rect_points q)) -> ~ seg_meet s (U, V)) ->
  strictly_in_box q U -> strictly_in_box q V.
Proof.
  intros Hw Hno HU.
  pose proof (parity_constant_off_boundary (rect_points q) U V Hno) as Par.
  assert (NbU : on_boundaryb (ring_edges (rect_points q)) U = false).
  { destruct (on_boundaryb (ring_edges (rect_points q)) U) eqn:E; [|reflexivity]. exfalso.
    apply on_boundaryb_iff in E. destruct E as (s & Hs & Hon). apply (Hno s Hs). apply seg_meet_at_first. exact Hon. }
  assert (NbV : on_boundaryb (ring_edges (rect_points q)) V = false).
  { destruct (on_boundaryb (ring_edges (rect_points q)) V) eqn:E; [|reflexivity]. exfalso.
    apply on_boundaryb_iff in E. destruct E as (s & Hs & Hon). apply (Hno s Hs). apply seg_meet_at_second. exact Hon. }
  assert (InU : in_rectb q U = true).
  { destruct q as [[x0 y0] [x1 y1]], U as [x y]. unfold strictly_in_box, in_rectb, px, py in *. cbn [fst snd] in *.
    rewrite !andb_true_iff, !Z.leb_le. lia. }
  pose proof (in_ringb_rect q U Hw) as RU. pose proof (in_ringb_rect q V Hw) as RV.
  unfold in_ringb in RU, RV. rewrite NbU in RU. rewrite NbV in RV. cbn [orb] in RU, RV.
  assert (InV : in_rectb q V = true) by (rewrite <- RV, <- Par, RU; exact InU).
  assert (Dec : strictly_in_box q V \/ ~ strictly_in_box q V) by (unfold strictly_in_box; lia).
  destruct Dec as [Y|N]; [exact Y|exfalso].
  destruct (box_boundary_point q V Hw InV N) as (s & Hs & Hon). apply (Hno s Hs). apply seg_meet_at_second. exact Hon.
Qed.

(* a property that crosses every edge of a path holds along the whole path *)
Lemma path_propagate (P : pt -> Prop) (l : list pt) :
  (forall u v, In (u, v) (path_segs l) -> (P u <-> P v)) -> (exists x, In x l /\ P x) -> forall y, In y l -> P y.
Proof.
  induction l as [|a l IH]; intros Hstep (x & Hx & Px) y Hy; [destruct Hy|].
  destruct l as [|b r].
  - destruct Hx as [<-|[]]. destruct Hy as [<-|[]]. exact Px.
  - assert (Hab : P a <-> P b) by (apply Hstep; left; reflexivity).
    assert (Hstep' : forall u v, In (u, v) (path_segs (b :: r)) -> (P u <-> P v)) by (intros u v H; apply Hstep; right; exact H).
    assert (Pb : P b).
    { destruct Hx as [<-|Hx]; [apply Hab; exact Px|]. apply (IH Hstep' (ex_intro _ x (conj Hx Px)) b). left. reflexivity. }
    destruct Hy as [<-|Hy]; [apply Hab; exact Pb|]. apply (IH Hstep' (ex_intro _ b (conj (or_introl eq_refl) Pb)) y Hy).
Qed.

Lemma box_edges_at (k : Z) (q : rect) : 0 < k ->
  ring_edges (rect_points (scr k q)) = map (scs k) (ring_edges (rect_points q)).
Proof. intros Hk. rewrite <- rect_points_sc. apply sc_edges. exact Hk. Qed.

Lemma on_boundary_not_strict (E : list seg) (e : seg) (P : pt) : In e E -> on_seg e P -> strictly_in_ringb E P = false.
Proof.
  intros Hin Hon. unfold strictly_in_ringb.
  assert (B : on_boundaryb E P = true) by (apply on_boundaryb_iff; exists e; split; assumption).
  rewrite B. reflexivity.
Qed.

Section Fill.
Variables (h : list pt) (q : rect).
Hypothesis Hw : rect_wf q.
Hypothesis H3 : (3 <= length h)%nat.
Hypothesis Sides : forall sd, In sd (ring_edges (rect_points q)) -> all_strictly_inside h (fst sd) (snd sd).

(* no edge of the ring meets a side of the rectangle, at any scale *)
Lemma no_meet (k : Z) (e sd : seg) : 0 < k -> In e (edges_at k h) -> In sd (ring_edges (rect_points q)) ->
  ~ seg_meet (scs k sd) e.
Proof.
  intros Hk He Hsd Hm. destruct sd as [A B], e as [U V]. unfold scs, affs in Hm. cbn [fst snd] in Hm.
  fold (sc k A) in Hm. fold (sc k B) in Hm.
  destruct (seg_meet_common_scaled _ _ _ _ Hm) as (j & Y & Hj & HY1 & HY2).
  rewrite !sc_sc in HY1.
  pose proof (Sides (A, B) Hsd (j * k) Y ltac:(nia) HY1) as S. cbn [fst snd] in S.
  assert (Hin : In (scs j (U, V)) (edges_at (j * k) h)) by (rewrite (edges_at_mul j k h Hj); apply in_map; exact He).
  unfold edges_at in Hin. rewrite (on_boundary_not_strict _ _ Y Hin) in S; [discriminate S|].
  unfold scs, affs. cbn [fst snd]. exact HY2.
Qed.

(* if one vertex of the ring were strictly inside the rectangle, all would be - and a corner of the
   rectangle could not lie in the ring's bounding box *)
Lemma no_vertex_inside (k : Z) (v : pt) : 0 < k -> In v (map (sc k) h) -> ~ strictly_in_box (scr k q) v.
Proof.
  intros Hk Hv Hin.
  assert (H3k : (3 <= length (map (sc k) h))%nat) by (rewrite map_length; exact H3).
  destruct (ring_edges_closed_path' (map (sc k) h) H3k) as (l & Hl & Hsub & _).
  assert (All : forall y, In y l -> strictly_in_box (scr k q) y).
  { apply path_propagate.
    - intros u w Huw. rewrite <- Hl in Huw. fold (edges_at k h) in Huw.
      split; intros HS; apply (box_edge (scr k q) _ _ (scr_wf k q Hk Hw)) with (2 := HS); intros s Hs Hm;
        rewrite (box_edges_at k q Hk) in Hs; apply in_map_iff in Hs; destruct Hs as (sd & <- & Hsd).
      + apply (no_meet k (u, w) sd Hk Huw Hsd Hm).
      + apply (no_meet k (u, w) sd Hk Huw Hsd). apply seg_meet_swap_r. exact Hm.
    - exists v. split; [apply Hsub; exact Hv|exact Hin]. }
  (* every vertex of h has x > x0 *)
  assert (Hne : h <> []) by (intros ->; cbn in H3; lia).
  destruct (bbox_spec_attained h Hne) as (p1 & _ & _ & _ & I1 & _ & _ & _ & E1 & _). cbv zeta in E1.
  pose proof (All (sc k p1) (Hsub _ (in_map (sc k) h p1 I1))) as S1.
  (* the first corner of the rectangle is strictly inside the ring, hence inside its bounding box *)
  destruct q as [[x0 y0] [x1 y1]] eqn:Eq.
  assert (Hside : In ((x0, y0), (x1, y0)) (ring_edges (rect_points ((x0, y0), (x1, y1))))).
  { unfold ring_edges, segments_spec, rect_points. cbn [closed pts length Nat.ltb Nat.leb last hd path_segs]. rewrite pt_eqb_refl. left. reflexivity. }
  pose proof (Sides _ Hside 1 (x0, y0) ltac:(lia)) as SC. cbn [fst snd] in SC. rewrite !sc_1, map_sc_1 in SC.
  specialize (SC (on_seg_left _ _)).
  apply strictly_in_in_bbox in SC. apply rect_contains_point_inbox in SC. unfold inbox in SC.
  unfold strictly_in_box, scr in S1. rewrite !sc_xy in S1. unfold px, py in *. cbn [fst snd] in *. nia.
Qed.

Lemma edge_vertex (k : Z) (U V : pt) : In (U, V) (edges_at k h) -> In U (map (sc k) h).
Proof. intros H. unfold edges_at in H. apply (ring_edges_endpoints _ U V H). Qed.

(* MAIN of the section: every rational point of the rectangle is strictly inside the ring *)
Lemma fill (k : Z) (P : pt) : 0 < k -> in_rectb (scr k q) P = true -> strictly_in_ringb (edges_at k h) P = true.
Proof.
  intros Hk HP.
  set (L := (px (fst (scr k q)), py P)).
  (* L is on the left side, hence strictly inside the ring *)
  assert (SL : strictly_in_ringb (edges_at k h) L = true).
  { destruct q as [[x0 y0] [x1 y1]] eqn:Eq.
    assert (Hside : In ((x0, y1), (x0, y0)) (ring_edges (rect_points ((x0, y0), (x1, y1))))).
    { unfold ring_edges, segments_spec, rect_points. cbn [closed pts length Nat.ltb Nat.leb last hd path_segs]. rewrite pt_eqb_refl.
      right. right. right. left. reflexivity. }
    apply (Sides _ Hside k L Hk). cbn [fst snd]. unfold L, scr. rewrite !sc_xy.
    destruct P as [x y]. unfold in_rectb, scr in HP. rewrite !sc_xy in HP. unfold on_seg, cross, px, py in *. cbn [fst snd] in *.
    rewrite !andb_true_iff, !Z.leb_le in HP. destruct Hw as [W1 W2]. cbn [fst snd] in W1, W2. split; [ring|]. split; nia. }
  (* no edge of the ring meets the horizontal segment from L to P *)
  assert (NoEdge : forall e, In e (ring_edges (map (sc k) h)) -> ~ seg_meet e (L, P)).
  { intros [U V] He Hm. fold (edges_at k h) in He.
    destruct (seg_meet_common_scaled _ _ _ _ Hm) as (j & X & Hj & HX1 & HX2).
    assert (Hjk : 0 < j * k) by nia.
    assert (HeJ : In (scs j (U, V)) (edges_at (j * k) h)) by (rewrite (edges_at_mul j k h Hj); apply in_map; exact He).
    (* X lies in the closed rectangle at scale j k *)
    assert (InX : in_rectb (scr (j * k) q) X = true).
    { destruct q as [[x0 y0] [x1 y1]]. destruct P as [x y], X as [xx xy]. unfold L, in_rectb, scr in *. rewrite !sc_xy in *.
      unfold on_seg, cross, px, py in *. cbn [fst snd] in *. rewrite !andb_true_iff, !Z.leb_le in *.
      destruct HX2 as (_ & Hxr & Hyr). rewrite Z.min_id, Z.max_id in Hyr. nia. }
    assert (Dec : strictly_in_box (scr (j * k) q) X \/ ~ strictly_in_box (scr (j * k) q) X) by (unfold strictly_in_box; lia).
    destruct Dec as [SX|NX].
    - (* strictly inside: then the end U of the edge is strictly inside too *)
      apply (no_vertex_inside (j * k) (sc j U) Hjk).
      + replace (map (sc (j * k)) h) with (map (sc j) (map (sc k) h)) by (rewrite map_map; apply map_ext; intros p; apply sc_sc).
        apply in_map. apply (edge_vertex k U V He).
      + apply (box_edge (scr (j * k) q) X (sc j U) (scr_wf _ q Hjk Hw)); [|exact SX].
        intros s Hs Hm'. rewrite (box_edges_at (j * k) q Hjk) in Hs. apply in_map_iff in Hs. destruct Hs as (sd & <- & Hsd).
        apply (no_meet (j * k) (scs j (U, V)) sd Hjk HeJ Hsd).
        unfold scs at 2, affs. cbn [fst snd]. fold (sc j U). fold (sc j V).
        apply (sub_segment_meet _ (sc j U) (sc j V) X HX1). apply seg_meet_swap_r. exact Hm'.
    - (* on the boundary of the rectangle: a point of a side that is on the ring *)
      destruct (box_boundary_point (scr (j * k) q) X (scr_wf _ q Hjk Hw) InX NX) as (s & Hs & Hon).
      rewrite (box_edges_at (j * k) q Hjk) in Hs. apply in_map_iff in Hs. destruct Hs as ([A B] & <- & Hsd).
      pose proof (Sides (A, B) Hsd (j * k) X Hjk) as S. cbn [fst snd] in S.
      unfold scs, affs in Hon. cbn [fst snd] in Hon. specialize (S Hon).
      unfold edges_at in HeJ. rewrite (on_boundary_not_strict _ _ X HeJ) in S; [discriminate S|].
      unfold scs, affs. cbn [fst snd]. exact HX1. }
  pose proof (parity_constant_off_boundary (map (sc k) h) L P NoEdge) as Par.
  unfold strictly_in_ringb, edges_at in *. apply andb_true_iff in SL. destruct SL as [_ PL].
  apply andb_true_iff. split; [|rewrite <- Par; exact PL].
  apply negb_true_iff. destruct (on_boundaryb (ring_edges (map (sc k) h)) P) eqn:E; [|reflexivity]. exfalso.
  apply on_boundaryb_iff in E. destruct E as (e & He & Hon). apply (NoEdge e He). apply seg_meet_at_second. exact Hon.
Qed.
End Fill.

Lemma bbox_rect_points (q : rect) : rect_wf q -> bbox_spec (rect_points q) = q.
Proof.
  destruct q as [[x0 y0] [x1 y1]]. unfold rect_wf, px, py. cbn [fst snd]. intros [W1 W2].
  unfold bbox_spec, rect_points, min_list, max_list, px, py. cbn [map fold_left fst snd].
  apply f_equal2; apply f_equal2; lia.
Qed.

Lemma rect_points_nonempty (q : rect) (b : bool) : series_empty {| closed := b; pts := rect_points q |} = false.
Proof. destruct q as [[x0 y0] [x1 y1]], b; reflexivity. Qed.

Lemma rect_points_rect (q : rect) (b : bool) : rect_wf q -> series_rect {| closed := b; pts := rect_points q |} = q.
Proof. intros Hw. rewrite (series_rect_spec _ (rect_points_nonempty q b)). cbn [pts]. apply bbox_rect_points. exact Hw. Qed.

Lemma rect_points_segs (q : rect) :
  segments_spec {| closed := true; pts := rect_points q |} = segments_spec {| closed := false; pts := rect_points q |}.
Proof.
  destruct q as [[x0 y0] [x1 y1]]. unfold segments_spec, rect_points. cbn [closed pts length Nat.ltb Nat.leb last hd]. rewrite pt_eqb_refl. reflexivity.
Qed.

(* the rectangle as the open line through its five corner points: the same points, segments and box *)
Lemma rcr_core_box_as_line (h : list pt) (q : rect) (allow : bool) : rect_wf q ->
  rcr_core (Rg h) (RR q) allow = rcr_core (Rg h) (Lr (rect_points q)) allow.
Proof.
  intros Hw. rewrite (RR_as_RS q Hw).
  unfold rcr_core, ring_empty, ring_rect, ring_points, ring_segments, Lr.
  rewrite !RS_empty, !RS_rect, !RS_pts, !RS_segs.
  rewrite !rect_points_nonempty, !(rect_points_rect q _ Hw), rect_points_segs. reflexivity.
Qed.

(* the shortcut: the box of the line strictly inside the hole => the line strictly inside the hole *)
Lemma shortcut_strict (h qs : list pt) : hole_ok h -> (2 <= length qs)%nat ->
  rcr_core (Rg h) (RR (ring_rect (Lr qs))) false = true -> rcr_core (Rg h) (Lr qs) false = true.
Proof.
  intros Hok H2 Hbox.
  assert (Eq : ring_empty (Lr qs) = false).
  { unfold ring_empty, Lr. rewrite RS_empty. unfold series_empty, npoints. cbn [closed pts andb orb]. apply Nat.ltb_ge. exact H2. }
  assert (Hne : qs <> []) by (intros ->; cbn in H2; lia).
  assert (Er : ring_rect (Lr qs) = bbox_spec qs).
  { unfold ring_rect, Lr. rewrite RS_rect. unfold ring_empty, Lr in Eq. rewrite RS_empty in Eq. rewrite (series_rect_spec _ Eq). reflexivity. }
  rewrite Er in Hbox. set (q := bbox_spec qs) in *.
  assert (Hw : rect_wf q) by (apply ContainsBoxes.bbox_wf; exact Hne).
  rewrite (rcr_core_box_as_line h q false Hw) in Hbox.
  assert (L5 : (2 <= length (rect_points q))%nat) by (destruct q as [[a b] [c d]]; cbn; lia).
  apply (rcr_core_line_strict h (rect_points q) Hok L5) in Hbox. destruct Hbox as [H3 Hsides].
  apply (rcr_core_line_strict h qs Hok H2). split; [exact H3|].
  assert (Sides : forall sd, In sd (ring_edges (rect_points q)) -> all_strictly_inside h (fst sd) (snd sd)).
  { intros sd Hsd. apply Hsides. destruct q as [[x0 y0] [x1 y1]].
    unfold ring_edges, segments_spec, rect_points in Hsd. cbn [closed pts length Nat.ltb Nat.leb last hd] in Hsd. rewrite pt_eqb_refl in Hsd. exact Hsd. }
  intros [a b] Hin k P Hk HP. cbn [fst snd] in HP. fold (edges_at k h).
  apply (fill h q Hw H3 Sides k P Hk).
  (* P lies between two points of the line, hence in its bounding box *)
  destruct (path_segs_endpoints qs a b Hin) as [Ha Hb].
  pose proof (bbox_spec_tight qs a Ha) as Ta. pose proof (bbox_spec_tight qs b Hb) as Tb. cbv zeta in Ta, Tb. fold q in Ta, Tb.
  destruct q as [[x0 y0] [x1 y1]], a as [ax ay], b as [bx by_], P as [x y].
  unfold in_rectb, scr. rewrite !sc_xy in *. unfold on_seg, px, py in *. cbn [fst snd] in *.
  rewrite !andb_true_iff, !Z.leb_le. destruct HP as (_ & Hx & Hy). nia.
Qed.

(* ringContainsRing for a hole and a line string of ANY length, strict mode *)
Lemma rcr_line_strict_all (h qs : list pt) : hole_ok h -> (2 <= length qs)%nat ->
  (ring_contains_ring (Rg h) (Lr qs) false = true <-> (3 <= length h)%nat /\ line_strictly_inside h qs).
Proof.
  intros Hok H2. rewrite <- (rcr_core_line_strict h qs Hok H2).
  unfold ring_contains_ring.
  destruct (ring_empty (Rg h) || ring_empty (Lr qs)) eqn:Ee.
  - unfold rcr_core. rewrite Ee. tauto.
  - destruct ((complexRingMinPoints <=? ring_npoints (Lr qs))%nat && rcr_core (Rg h) (RR (ring_rect (Lr qs))) false) eqn:Es; [|tauto].
    apply andb_true_iff in Es. destruct Es as [_ Es]. pose proof (shortcut_strict h qs Hok H2 Es) as C. rewrite C. tauto.
Qed.

(* Holes.v without the bound on the length of the line string *)
Theorem poly_intersects_line_holes_all (e : list pt) (hs : list (list pt)) (qs : list pt) :
  Forall hole_ok hs ->
  (poly_intersects_line (Pg e hs) (Lr qs) = true <->
   ((3 <= length e)%nat /\ (2 <= length qs)%nat /\
    exists sg, In sg (path_segs qs) /\ shares_point e (fst sg) (snd sg)) /\
   forall h, In h hs -> ~ line_strictly_inside h qs).
Proof.
  intros Hok. unfold poly_intersects_line, Pg. cbn [exterior holes].
  pose proof (ring_intersects_line_pointset e qs) as EX.
  change (RS {| closed := true; pts := e |}) with (Rg e) in EX.
  change (RS {| closed := false; pts := qs |}) with (Lr qs) in EX.
  destruct (ring_intersects_line (Rg e) (Lr qs) true) eqn:Ei; cbn [negb].
  - destruct (proj1 EX eq_refl) as (H3 & H2 & Hsh). rewrite negb_true_iff. rewrite existsb_false_iff. split.
    + intros Hno. split; [split; [exact H3|split; [exact H2|exact Hsh]]|].
      intros h Hh Hin. rewrite Forall_forall in Hok.
      assert (Hc : ring_contains_ring (Rg h) (Lr qs) false = true).
      { apply (rcr_line_strict_all h qs (Hok h Hh) H2). split; [|exact Hin].
        apply (line_strictly_inside_nonempty h qs H2 Hin). }
      rewrite (Hno (Rg h)) in Hc; [discriminate Hc|]. apply in_map. exact Hh.
    + intros [_ Hno] r Hr. apply in_map_iff in Hr. destruct Hr as (h & <- & Hh). rewrite Forall_forall in Hok.
      destruct (ring_contains_ring (Rg h) (Lr qs) false) eqn:Hc; [exfalso|reflexivity].
      apply (rcr_line_strict_all h qs (Hok h Hh) H2) in Hc. apply (Hno h Hh). apply Hc.
  - split; [discriminate|]. intros [Hx _]. apply (proj2 EX) in Hx. discriminate Hx.
Qed.


Theorem poly_intersects_line_pointset_all (e : list pt) (hs : list (list pt)) (qs : list pt) :
  Forall hole_ok hs -> holes_valid e hs ->
  (poly_intersects_line (Pg e hs) (Lr qs) = true <->
   (3 <= length e)%nat /\ (2 <= length qs)%nat /\
   exists sg, In sg (path_segs qs) /\ poly_shares_point e hs (fst sg) (snd sg)).
Proof.
  intros Hok Hval. rewrite (poly_intersects_line_holes_all e hs qs Hok). split.
  - intros [(H3 & H2 & [a b] & Hin & k0 & P0 & Hk0 & On0 & In0) Hno]. cbn [fst snd] in On0.
    split; [exact H3|]. split; [exact H2|].
    (* is P0 strictly inside some hole? decide hole by hole *)
    assert (Dec : (forall h, In h hs -> strictly_in_ringb (edges_at k0 h) P0 = false) \/
                  exists h, In h hs /\ strictly_in_ringb (edges_at k0 h) P0 = true).
    { clear -hs. induction hs as [|h l IH]; [left; intros ? []|].
      destruct (strictly_in_ringb (edges_at k0 h) P0) eqn:E.
      - right. exists h. split; [left; reflexivity|exact E].
      - destruct IH as [IH|(h' & Hh' & E')]; [left|right].
        + intros x [<-|Hx]; [exact E|apply IH; exact Hx].
        + exists h'. split; [right; exact Hh'|exact E']. }
    destruct Dec as [Free|(h1 & Hh1 & S1)].
    { exists (a, b). split; [exact Hin|]. exists k0, P0. split; [exact Hk0|]. split; [exact On0|]. split; [exact In0|exact Free]. }
    (* P0 is strictly inside h1, but the line is not wholly inside h1 *)
    rewrite Forall_forall in Hok. pose proof (Hok h1 Hh1) as Hok1.
    (* some edge of h1 meets some segment of the line: otherwise the whole line would be strictly inside *)
    assert (Hmeet : exists f sg, In f (ring_edges h1) /\ In sg (path_segs qs) /\ seg_meetb f sg = true).
    { destruct (existsb (fun f => existsb (fun sg => seg_meetb f sg) (path_segs qs)) (ring_edges h1)) eqn:Ex.
      - apply existsb_exists in Ex. destruct Ex as (f & Hf & Ex). apply existsb_exists in Ex.
        destruct Ex as (sg & Hsg & Hm). exists f, sg. auto.
      - exfalso. apply (Hno h1 Hh1).
        assert (Hnm : forall f sg, In f (ring_edges h1) -> In sg (path_segs qs) -> seg_meetb f sg = false).
        { intros f sg Hf Hsg. rewrite existsb_false_iff in Ex. pose proof (Ex f Hf) as Ex'.
          rewrite existsb_false_iff in Ex'. apply Ex'. exact Hsg. }
        pose proof (chain_status h1 qs Hnm) as CS.
        assert (Par : parityb (ring_edges h1) (hd pt0 qs) = true).
        { rewrite <- (CS (a, b) k0 P0 Hin Hk0 On0). exact S1. }
        intros sg Hsg k P Hk HP. fold (edges_at k h1). rewrite (CS sg k P Hsg Hk HP). exact Par. }
    destruct Hmeet as ([c d] & [a2 b2] & Hf & Hsg & Hm). apply seg_meetb_iff in Hm.
    destruct (seg_meet_common_scaled c d a2 b2 Hm) as (k & T & Hk & On1 & On2).
    exists (a2, b2). split; [exact Hsg|]. exists k, T. split; [exact Hk|]. split; [exact On2|].
    assert (Hfk : In (scs k (c, d)) (edges_at k h1)) by (rewrite edges_at_map by exact Hk; apply in_map; exact Hf).
    destruct (Hval h1 Hh1 k (scs k (c, d)) T Hk Hfk On1) as [V1 V2]. split; assumption.
  - intros (H3 & H2 & [a b] & Hin & k & P & Hk & On & InE & Free). cbn [fst snd] in On. split.
    + split; [exact H3|]. split; [exact H2|]. exists (a, b). split; [exact Hin|].
      exists k, P. split; [exact Hk|]. split; [exact On|exact InE].
    + intros h Hh Hall. pose proof (Hall (a, b) Hin k P Hk On) as S. fold (edges_at k h) in S. rewrite (Free h Hh) in S. discriminate S.
Qed.


Print Assumptions poly_intersects_line_pointset_all.
