(* ObjLaws.v — property C09: "if A contains a non-empty B then A intersects B", for the receivers
   whose Contains is decided by rectangles (Point, Rect): all four argument kinds (polygons without
   holes).  For Line and Polygon receivers the law leans on the soundness of ringContainsSegment with
   boundary contact, which is not proved (and has known defects): law flags. *)
From Coq Require Import ZArith Bool List Lia.
From GJ Require Import Base Kernel KernelSpec Series SeriesSpec Ring RingSpec PairSpec Pairs PairProofs
  KernelProofs IntersectsProofs SeriesProofs PipProofs Obj ObjSpec ObjProofs BoxLaws ContainsBoxes
  Jordan JordanQ JordanRing JordanRect ObjSym ObjSelf.
Import ListNotations.
Open Scope Z_scope.

Lemma scr_1 q : scr 1 q = q.
Proof. destruct q as [a b]. unfold scr. cbn [fst snd]. rewrite !sc_1. reflexivity. Qed.

Lemma in_rectb_of_bbox (r : rect) (ps : list pt) (x : pt) :
  rect_contains_rect r (bbox_spec ps) = true -> In x ps -> in_rectb r x = true.
Proof.
  intros Hc Hx. apply rcr_iff in Hc. pose proof (bbox_spec_tight ps x Hx) as T. cbv zeta in T.
  unfold in_rectb. rewrite !andb_true_iff, !Z.leb_le. lia.
Qed.

Lemma degenerate_bbox_points (ps : list pt) (p x : pt) : bbox_spec ps = (p, p) -> In x ps -> x = p.
Proof.
  intros E Hx. pose proof (bbox_spec_tight ps x Hx) as T. cbv zeta in T. rewrite E in T. cbn [fst snd] in T.
  apply pt_eq_coords; lia.
Qed.

Lemma line_rect_bbox ps : (2 <= length ps)%nat -> ring_rect (RS (mk_line ps)) = bbox_spec ps.
Proof.
  intros H2. unfold ring_rect. rewrite RS_rect. apply series_rect_spec.
  unfold series_empty, npoints, mk_line. cbn [closed pts andb orb]. apply Nat.ltb_ge. exact H2.
Qed.

Lemma poly_rect_bbox e hs : (3 <= length e)%nat -> poly_rect (mk_poly (e :: hs)) = bbox_spec e.
Proof.
  intros H3. unfold poly_rect, mk_poly. cbn [exterior]. unfold ring_rect, mk_ring. rewrite RS_rect.
  apply series_rect_spec. rewrite closed_series_empty. apply Nat.ltb_ge. exact H3.
Qed.

Definition rect_decided (s : shape) : Prop := match s with SPoint _ | SRect _ => True | _ => False end.

Theorem g_contains_intersects (a b : shape) : rect_decided a -> s_wf a -> s_wf b -> s_empty b = false ->
  g_contains (g_of_shape a) (g_of_shape b) = Some true ->
  g_intersects (g_of_shape a) (g_of_shape b) = true.
Proof.
  destruct a as [p|r|?|? ?]; cbn [rect_decided]; try tauto; intros _ Hwa Hwb Hne;
    destruct b as [q|o|ps|e hs]; cbn [g_of_shape g_contains g_intersects ob s_wf s_empty] in *; intros H; injection H as H'.
  - exact H'.
  - unfold point_contains_rect in H'. apply rect_eqb_eq in H'. subst o. unfold point_intersects_rect, point_rect, rect_contains_point.
    cbn [fst snd]. rewrite !Z.leb_refl. reflexivity.
  - apply Nat.ltb_ge in Hne. unfold point_contains_line in H'. apply andb_true_iff in H'. destruct H' as [_ He].
    apply rect_eqb_eq in He. rewrite (line_rect_bbox ps Hne) in He. unfold point_rect in He.
    unfold point_intersects_line. change (RS (mk_line ps)) with (Lr ps). rewrite line_intersects_point_spec.
    destruct ps as [|x [|y l]]; cbn in Hne; try lia.
    assert (x = p) by (apply (degenerate_bbox_points _ p x He); left; reflexivity).
    assert (y = p) by (apply (degenerate_bbox_points _ p y He); right; left; reflexivity). subst x y.
    unfold in_lineb, on_boundaryb. cbn [path_segs existsb]. apply orb_true_iff. left. apply on_segb_iff. apply on_seg_left.
  - subst hs. apply Nat.ltb_ge in Hne. unfold point_contains_poly in H'. apply andb_true_iff in H'. destruct H' as [_ He].
    apply rect_eqb_eq in He. change (poly_rect (mk_poly [e]) = point_rect p) in He.
    rewrite (poly_rect_bbox e [] Hne) in He. unfold point_rect in He.
    unfold point_intersects_poly. change (mk_poly [e]) with (Pg e []). rewrite poly_intersects_point_spec.
    unfold in_polyb. cbn [map forallb]. rewrite andb_true_r.
    destruct (ring_edges_closed_path' e Hne) as (l & Hl & Hsub & Hhd).
    destruct (ring_edges_closed_path e Hne) as (qs & Hqs & _ & Hq3).
    destruct qs as [|x [|y l']]; cbn in Hq3; try lia.
    assert (Hxy : In (x, y) (ring_edges e)) by (rewrite Hqs; left; reflexivity).
    destruct (ring_edges_endpoints e x y Hxy) as [Hx Hy].
    assert (x = p) by (apply (degenerate_bbox_points _ p x He); exact Hx). subst x.
    unfold in_ringb. apply orb_true_iff. left. apply on_boundaryb_iff. exists (p, y). split; [exact Hxy|apply on_seg_left].
  - exact H'.
  - apply rcr_rir; assumption.
  - apply Nat.ltb_ge in Hne. unfold rect_contains_line in H'. apply andb_true_iff in H'. destruct H' as [_ Hc].
    rewrite (line_rect_bbox ps Hne) in Hc. change (RS (mk_line ps)) with (Lr ps).
    apply (rect_intersects_line_pointset r ps Hwa). split; [exact Hne|].
    destruct ps as [|x [|y l]]; cbn in Hne; try lia.
    exists (x, y), 1, x. split; [left; reflexivity|]. split; [lia|]. cbn [fst snd]. rewrite !sc_1, scr_1.
    split; [apply on_seg_left|]. apply (in_rectb_of_bbox r _ x Hc). left. reflexivity.
  - subst hs. apply Nat.ltb_ge in Hne. unfold rect_contains_poly in H'. apply andb_true_iff in H'. destruct H' as [_ Hc].
    change (rect_contains_rect r (poly_rect (mk_poly [e])) = true) in Hc.
    rewrite (poly_rect_bbox e [] Hne) in Hc. unfold rect_intersects_poly. change (mk_poly [e]) with (Pg e []).
    apply (poly_intersects_rect_noholes e r Hwa). split; [exact Hne|].
    destruct (ring_edges_closed_path e Hne) as (qs & Hqs & _ & Hq3).
    destruct qs as [|x [|y l']]; cbn in Hq3; try lia.
    assert (Hxy : In (x, y) (ring_edges e)) by (rewrite Hqs; left; reflexivity).
    destruct (ring_edges_endpoints e x y Hxy) as [Hx Hy].
    exists 1, x. split; [lia|]. rewrite edges_at_1, scr_1. split.
    + unfold in_ringb. apply orb_true_iff. left. apply on_boundaryb_iff. exists (x, y). split; [exact Hxy|apply on_seg_left].
    + apply (in_rectb_of_bbox r e x Hc Hx).
Qed.

Print Assumptions g_contains_intersects.

(* ... and for every receiver when the argument is a point: Contains and Intersects are one function *)
Theorem g_contains_point_intersects (a : shape) (q : pt) :
  g_contains (g_of_shape a) (GPoint q) = Some true -> g_intersects (g_of_shape a) (GPoint q) = true.
Proof.
  destruct a as [p|r|ps|e hs]; cbn [g_of_shape g_contains g_intersects ob]; intros H; injection H as H'; exact H'.
Qed.
