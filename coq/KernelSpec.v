(* KernelSpec.v — specifications of the segment-level kernels, written from the
   text of property C19, independent of the code's shape. *)
From GJ Require Import Base.

(* twice the signed area of triangle a b p; >0 iff p is left of a->b *)
Definition cross (a b p : pt) : Z :=
  (px b - px a) * (py p - py a) - (py b - py a) * (px p - px a).

(* p lies on the closed segment *)
Definition on_seg (s : seg) (p : pt) : Prop :=
  let '(a, b) := s in
  cross a b p = 0 /\
  Z.min (px a) (px b) <= px p <= Z.max (px a) (px b) /\
  Z.min (py a) (py b) <= py p <= Z.max (py a) (py b).

(* the rightward horizontal ray from p crosses the segment under the half-open
   rule: an endpoint level with the point counts as below it, i.e. the edge
   spans [ylow, yhigh) around p.y, and p is strictly left of the edge there *)
Definition crosses (s : seg) (p : pt) : Prop :=
  let '(a, b) := s in
  (py a <= py p < py b /\ 0 < cross a b p) \/
  (py b <= py p < py a /\ cross a b p < 0).

(* boolean versions, used by executable oracles and by vm_compute checks *)
Definition on_segb (s : seg) (p : pt) : bool :=
  let '(a, b) := s in
  (cross a b p =? 0) &&
  (Z.min (px a) (px b) <=? px p) && (px p <=? Z.max (px a) (px b)) &&
  (Z.min (py a) (py b) <=? py p) && (py p <=? Z.max (py a) (py b)).

Definition crossesb (s : seg) (p : pt) : bool :=
  let '(a, b) := s in
  ((py a <=? py p) && (py p <? py b) && (0 <? cross a b p)) ||
  ((py b <=? py p) && (py p <? py a) && (cross a b p <? 0)).

(* the textbook orientation test for closed-segment intersection *)
Definition seg_meet (s o : seg) : Prop :=
  let '(a, b) := s in let '(c, d) := o in
  on_seg s c \/ on_seg s d \/ on_seg o a \/ on_seg o b \/
  ((0 < cross a b c /\ cross a b d < 0 \/ cross a b c < 0 /\ 0 < cross a b d) /\
   (0 < cross c d a /\ cross c d b < 0 \/ cross c d a < 0 /\ 0 < cross c d b)).

Definition seg_meetb (s o : seg) : bool :=
  let '(a, b) := s in let '(c, d) := o in
  on_segb s c || on_segb s d || on_segb o a || on_segb o b ||
  (((0 <? cross a b c) && (cross a b d <? 0) || (cross a b c <? 0) && (0 <? cross a b d)) &&
   ((0 <? cross c d a) && (cross c d b <? 0) || (cross c d a <? 0) && (0 <? cross c d b))).
