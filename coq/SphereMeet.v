(* SphereMeet.v — property C13 over the reals: the converse of SphereTriangle.circles_meet_only_if_close.
   If the centre distance is at most the sum of the radii, the two discs share a location: a centre when
   one disc reaches the other's centre, otherwise the point of the great arc from A to B at distance rA
   from A (slerp of the unit vectors), turned back into a latitude / longitude. *)
From Coq Require Import Reals Lra Lia.
From GJ Require Import Sphere SphereRect SphereTriangle.
Open Scope R_scope.

(* every unit vector is the vector of a location *)
Lemma realize (x y z : R) : x * x + y * y + z * z = 1 ->
  exists lat lon, lat_ok lat /\ cos (rad lat) * cos (rad lon) = x /\ cos (rad lat) * sin (rad lon) = y /\ sin (rad lat) = z.
Proof.
  intros U.
  assert (Hz : -1 <= z <= 1) by nra.
  pose proof PI_RGT_0 as Hpi.
  set (lat := asin z * (180 / PI)).
  assert (Rl : rad lat = asin z) by (unfold rad, lat; field; lra).
  assert (Lok : lat_ok lat).
  { pose proof (asin_bound z) as B. unfold lat_ok, lat. split.
    - apply Rmult_le_reg_r with (PI / 180); [lra|]. replace (asin z * (180 / PI) * (PI / 180)) with (asin z) by (field; lra). lra.
    - apply Rmult_le_reg_r with (PI / 180); [lra|]. replace (asin z * (180 / PI) * (PI / 180)) with (asin z) by (field; lra). lra. }
  assert (Cl : cos (rad lat) = sqrt (x * x + y * y)).
  { rewrite Rl, cos_asin by exact Hz. f_equal. unfold Rsqr. lra. }
  assert (Sl : sin (rad lat) = z) by (rewrite Rl; apply sin_asin; exact Hz).
  set (c := sqrt (x * x + y * y)) in *.
  assert (Hc0 : 0 <= c) by apply sqrt_pos.
  assert (Hcc : c * c = x * x + y * y) by (apply sqrt_sqrt; nra).
  destruct (Req_dec c 0) as [Z|NZ].
  - exists lat, 0. split; [exact Lok|]. rewrite Cl, Z. assert (x = 0 /\ y = 0) as [-> ->] by (rewrite Z in Hcc; split; nra).
    repeat split; first [lra|nra].
  - assert (Hc : 0 < c) by lra.
    set (u := x / c). set (v := y / c).
    assert (Huv : u * u + v * v = 1).
    { unfold u, v. replace (x / c * (x / c) + y / c * (y / c)) with ((x * x + y * y) / (c * c)) by (field; lra). rewrite <- Hcc. field. lra. }
    assert (Hu : -1 <= u <= 1) by nra.
    assert (Sa : sin (acos u) = Rabs v).
    { rewrite sin_acos by exact Hu. replace (1 - u²) with (v²) by (unfold Rsqr; lra). apply sqrt_Rsqr_abs. }
    assert (Ca : cos (acos u) = u) by (apply cos_acos; exact Hu).
    assert (Xc : x = c * u) by (unfold u; field; lra). assert (Yc : y = c * v) by (unfold v; field; lra).
    destruct (Rle_dec 0 v) as [Pv|Nv].
    + exists lat, (acos u * (180 / PI)). split; [exact Lok|].
      assert (Rn : rad (acos u * (180 / PI)) = acos u) by (unfold rad; field; lra).
      rewrite Rn, Cl, Ca, Sa, (Rabs_right v) by lra. repeat split; first [lra|nra].
    + exists lat, (- acos u * (180 / PI)). split; [exact Lok|].
      assert (Rn : rad (- acos u * (180 / PI)) = - acos u) by (unfold rad; field; lra).
      rewrite Rn, Cl, cos_neg, sin_neg, Ca, Sa, (Rabs_left v) by lra. repeat split; first [lra|nra].
Qed.

Lemma perp (a1 a2 a3 : R) : a1 * a1 + a2 * a2 + a3 * a3 = 1 ->
  exists c1 c2 c3, c1 * c1 + c2 * c2 + c3 * c3 = 1 /\ a1 * c1 + a2 * c2 + a3 * c3 = 0.
Proof.
  intros U. destruct (Req_dec (a1 * a1 + a2 * a2) 0) as [Z|NZ].
  - exists 1, 0, 0. assert (a1 = 0) by nra. subst. split; lra.
  - set (m := sqrt (a1 * a1 + a2 * a2)).
    assert (Hm : m * m = a1 * a1 + a2 * a2) by (apply sqrt_sqrt; nra).
    assert (Hp : 0 < m) by (pose proof (sqrt_pos (a1 * a1 + a2 * a2)); fold m in H; destruct H as [H|H]; [exact H|nra]).
    exists (- a2 / m), (a1 / m), 0. split.
    + replace (- a2 / m * (- a2 / m) + a1 / m * (a1 / m) + 0 * 0) with ((a1 * a1 + a2 * a2) / (m * m)) by (field; lra).
      rewrite <- Hm. field. lra.
    + field. lra.
Qed.

Lemma sumsq0 (x y z : R) : x * x + y * y + z * z = 0 -> x = 0 /\ y = 0 /\ z = 0.
Proof.
  intros H. pose proof (Rle_0_sqr x) as A. pose proof (Rle_0_sqr y) as B. pose proof (Rle_0_sqr z) as C. unfold Rsqr in *.
  assert (x * x = 0) by lra. assert (y * y = 0) by lra. assert (z * z = 0) by lra.
  repeat split; apply Rsqr_0_uniq; unfold Rsqr; assumption.
Qed.

(* an orthonormal frame of the plane through a and b *)
Lemma frame (a1 a2 a3 b1 b2 b3 th : R) :
  a1 * a1 + a2 * a2 + a3 * a3 = 1 -> b1 * b1 + b2 * b2 + b3 * b3 = 1 ->
  a1 * b1 + a2 * b2 + a3 * b3 = cos th -> 0 <= sin th ->
  exists c1 c2 c3, c1 * c1 + c2 * c2 + c3 * c3 = 1 /\ a1 * c1 + a2 * c2 + a3 * c3 = 0 /\
    b1 = cos th * a1 + sin th * c1 /\ b2 = cos th * a2 + sin th * c2 /\ b3 = cos th * a3 + sin th * c3.
Proof.
  intros Ua Ub D Hs. pose proof (sin2_cos2 th) as SC. unfold Rsqr in SC.
  destruct (Req_dec (sin th) 0) as [Z|NZ].
  - destruct (perp a1 a2 a3 Ua) as (c1 & c2 & c3 & Uc & Oc). exists c1, c2, c3. split; [exact Uc|]. split; [exact Oc|].
    rewrite Z. assert (Q : (b1 - cos th * a1) * (b1 - cos th * a1) + (b2 - cos th * a2) * (b2 - cos th * a2) + (b3 - cos th * a3) * (b3 - cos th * a3) = 0).
    { replace ((b1 - cos th * a1) * (b1 - cos th * a1) + (b2 - cos th * a2) * (b2 - cos th * a2) + (b3 - cos th * a3) * (b3 - cos th * a3))
        with ((b1 * b1 + b2 * b2 + b3 * b3) - 2 * cos th * (a1 * b1 + a2 * b2 + a3 * b3) + cos th * cos th * (a1 * a1 + a2 * a2 + a3 * a3)) by ring.
      rewrite Ua, Ub, D. rewrite Z in SC. assert (X : cos th * cos th = 1) by lra. replace (1 - 2 * cos th * cos th + cos th * cos th * 1) with (1 - cos th * cos th) by ring. lra. }
    destruct (sumsq0 _ _ _ Q) as (Q1 & Q2 & Q3).
    repeat split; lra.
  - assert (Hp : 0 < sin th) by lra. set (s := sin th) in *. set (c := cos th) in *.
    exists ((b1 - c * a1) / s), ((b2 - c * a2) / s), ((b3 - c * a3) / s). split; [|split; [|repeat split; field; lra]].
    + replace ((b1 - c * a1) / s * ((b1 - c * a1) / s) + (b2 - c * a2) / s * ((b2 - c * a2) / s) + (b3 - c * a3) / s * ((b3 - c * a3) / s))
        with (((b1 * b1 + b2 * b2 + b3 * b3) - 2 * c * (a1 * b1 + a2 * b2 + a3 * b3) + c * c * (a1 * a1 + a2 * a2 + a3 * a3)) / (s * s)) by (field; lra).
      rewrite Ua, Ub, D. fold c. replace (1 - 2 * c * c + c * c * 1) with (s * s) by lra. field. lra.
    + replace (a1 * ((b1 - c * a1) / s) + a2 * ((b2 - c * a2) / s) + a3 * ((b3 - c * a3) / s))
        with (((a1 * b1 + a2 * b2 + a3 * b3) - c * (a1 * a1 + a2 * a2 + a3 * a3)) / s) by (field; lra).
      rewrite Ua, D. fold c. field. lra.
Qed.

(* the point of the arc at angle al from a *)
Lemma arc_point (a1 a2 a3 b1 b2 b3 th al : R) :
  a1 * a1 + a2 * a2 + a3 * a3 = 1 -> b1 * b1 + b2 * b2 + b3 * b3 = 1 ->
  a1 * b1 + a2 * b2 + a3 * b3 = cos th -> 0 <= sin th ->
  exists p1 p2 p3, p1 * p1 + p2 * p2 + p3 * p3 = 1 /\ a1 * p1 + a2 * p2 + a3 * p3 = cos al /\
    p1 * b1 + p2 * b2 + p3 * b3 = cos (th - al).
Proof.
  intros Ua Ub D Hs. destruct (frame _ _ _ _ _ _ th Ua Ub D Hs) as (c1 & c2 & c3 & Uc & Oc & E1 & E2 & E3).
  pose proof (sin2_cos2 al) as SC. unfold Rsqr in SC.
  exists (cos al * a1 + sin al * c1), (cos al * a2 + sin al * c2), (cos al * a3 + sin al * c3). split; [|split].
  - replace ((cos al * a1 + sin al * c1) * (cos al * a1 + sin al * c1) + (cos al * a2 + sin al * c2) * (cos al * a2 + sin al * c2) + (cos al * a3 + sin al * c3) * (cos al * a3 + sin al * c3))
      with (cos al * cos al * (a1 * a1 + a2 * a2 + a3 * a3) + 2 * cos al * sin al * (a1 * c1 + a2 * c2 + a3 * c3) + sin al * sin al * (c1 * c1 + c2 * c2 + c3 * c3)) by ring.
    rewrite Ua, Oc, Uc. lra.
  - replace (a1 * (cos al * a1 + sin al * c1) + a2 * (cos al * a2 + sin al * c2) + a3 * (cos al * a3 + sin al * c3))
      with (cos al * (a1 * a1 + a2 * a2 + a3 * a3) + sin al * (a1 * c1 + a2 * c2 + a3 * c3)) by ring.
    rewrite Ua, Oc. ring.
  - rewrite E1, E2, E3, cos_minus.
    replace ((cos al * a1 + sin al * c1) * (cos th * a1 + sin th * c1) + (cos al * a2 + sin al * c2) * (cos th * a2 + sin th * c2) + (cos al * a3 + sin al * c3) * (cos th * a3 + sin th * c3))
      with (cos al * cos th * (a1 * a1 + a2 * a2 + a3 * a3) + (cos al * sin th + sin al * cos th) * (a1 * c1 + a2 * c2 + a3 * c3) + sin al * sin th * (c1 * c1 + c2 * c2 + c3 * c3)) by ring.
    rewrite Ua, Oc, Uc. ring.
Qed.

Lemma angle_of_cos (a b c d al : R) : lat_ok a -> lat_ok c -> 0 <= al <= PI ->
  sdot a b c d = cos al -> distance_to a b c d = al * Rearth.
Proof.
  intros Ha Hc Hal E. pose proof (angle_range a b c d Ha Hc) as R. pose proof (cos_angle a b c d Ha Hc) as C.
  rewrite E in C. assert (angle a b c d = al).
  { rewrite <- (acos_cos (angle a b c d)) by exact R. rewrite C. apply acos_cos. exact Hal. }
  unfold angle in H. rewrite <- H. field. pose proof Rearth_pos. lra.
Qed.

(* MAIN: if the centre distance is at most the sum of the radii, the discs share a location *)
Theorem circles_meet_if_close (latA lonA rA latB lonB rB : R) :
  lat_ok latA -> lat_ok latB -> 0 <= rA <= piR -> 0 <= rB <= piR ->
  distance_to latA lonA latB lonB <= rA + rB ->
  exists plat plon, lat_ok plat /\ circle_contains_point latA lonA rA plat plon /\ circle_contains_point latB lonB rB plat plon.
Proof.
  intros Ha Hb HrA HrB Hd. pose proof Rearth_pos as HR. pose proof PI_RGT_0 as Hpi.
  set (D := distance_to latA lonA latB lonB) in *.
  destruct (Rle_dec D rA) as [L1|G1].
  { exists latB, lonB. split; [exact Hb|]. split.
    - apply (circle_contains_point_spec latA lonA rA latB lonB Ha Hb HrA). rewrite distance_sym. exact L1.
    - apply (circle_contains_point_spec latB lonB rB latB lonB Hb Hb HrB). rewrite distance_refl. lra. }
  destruct (Rle_dec D rB) as [L2|G2].
  { exists latA, lonA. split; [exact Ha|]. split.
    - apply (circle_contains_point_spec latA lonA rA latA lonA Ha Ha HrA). rewrite distance_refl. lra.
    - apply (circle_contains_point_spec latB lonB rB latA lonA Hb Ha HrB). exact L2. }
  (* neither disc reaches the other's centre: walk rA along the arc from A to B *)
  pose proof (angle_range latA lonA latB lonB Ha Hb) as Rth. pose proof (cos_angle latA lonA latB lonB Ha Hb) as Cth.
  set (th := angle latA lonA latB lonB) in *. set (al := rA / Rearth).
  assert (Dth : D = th * Rearth) by (unfold th, angle; fold D; field; lra).
  assert (Hal : 0 <= al /\ al < th).
  { unfold al. split.
    - apply Rmult_le_pos; [lra|left; apply Rinv_0_lt_compat; exact HR].
    - apply Rmult_lt_reg_r with Rearth; [exact HR|]. replace (rA / Rearth * Rearth) with rA by (field; lra). lra. }
  rewrite sdot_as_vectors in Cth.
  assert (Hs : 0 <= sin th) by (apply sin_ge_0; lra).
  destruct (arc_point _ _ _ _ _ _ th al (unit_vector latA lonA) (unit_vector latB lonB) (eq_sym Cth) Hs)
    as (p1 & p2 & p3 & Up & Ap & Pb).
  destruct (realize p1 p2 p3 Up) as (plat & plon & Hp & E1 & E2 & E3).
  exists plat, plon. split; [exact Hp|].
  assert (DA : distance_to latA lonA plat plon = al * Rearth).
  { apply angle_of_cos; [exact Ha|exact Hp|lra|]. rewrite sdot_as_vectors, E1, E2, E3. exact Ap. }
  assert (DB : distance_to plat plon latB lonB = (th - al) * Rearth).
  { apply angle_of_cos; [exact Hp|exact Hb|lra|]. rewrite sdot_as_vectors, E1, E2, E3. exact Pb. }
  assert (EA : al * Rearth = rA) by (unfold al; field; lra).
  split.
  - apply (circle_contains_point_spec latA lonA rA plat plon Ha Hp HrA). rewrite distance_sym, DA. lra.
  - apply (circle_contains_point_spec latB lonB rB plat plon Hb Hp HrB). rewrite DB.
    replace ((th - al) * Rearth) with (th * Rearth - al * Rearth) by ring. rewrite <- Dth, EA. lra.
Qed.

(* both directions: Circle.Intersects(Circle) = "centre distance <= sum of radii" is exact as point sets *)
Theorem circles_meet_iff (latA lonA rA latB lonB rB : R) :
  lat_ok latA -> lat_ok latB -> 0 <= rA <= piR -> 0 <= rB <= piR ->
  (distance_to latA lonA latB lonB <= rA + rB <->
   exists plat plon, lat_ok plat /\ circle_contains_point latA lonA rA plat plon /\ circle_contains_point latB lonB rB plat plon).
Proof.
  intros Ha Hb HrA HrB. split; [apply circles_meet_if_close; assumption|].
  intros (plat & plon & Hp & HA & HB). apply (circles_meet_only_if_close latA lonA rA latB lonB rB plat plon); assumption.
Qed.

(* the converse of SphereTriangle.circle_contains_circle_sound: if every location of B is within A then
   centre distance + radius of B <= radius of A (the far point of B on the great circle through the centres
   is at exactly that distance from A, as long as it does not pass the antipode of A) *)
Theorem circle_contains_circle_complete (latA lonA rA latB lonB rB : R) :
  lat_ok latA -> lat_ok latB -> 0 <= rA <= piR -> 0 <= rB <= piR ->
  distance_to latA lonA latB lonB + rB <= piR ->
  (forall plat plon, lat_ok plat -> circle_contains_point latB lonB rB plat plon -> circle_contains_point latA lonA rA plat plon) ->
  distance_to latA lonA latB lonB + rB <= rA.
Proof.
  intros Ha Hb HrA HrB Hfar Hall. pose proof Rearth_pos as HR. pose proof PI_RGT_0 as Hpi.
  set (D := distance_to latA lonA latB lonB) in *.
  pose proof (angle_range latA lonA latB lonB Ha Hb) as Rth. pose proof (cos_angle latA lonA latB lonB Ha Hb) as Cth.
  set (th := angle latA lonA latB lonB) in *. set (be := rB / Rearth).
  assert (Dth : D = th * Rearth) by (unfold th, angle; fold D; field; lra).
  assert (Ebe : be * Rearth = rB) by (unfold be; field; lra).
  assert (Hbe : 0 <= be) by (unfold be; apply Rmult_le_pos; [lra|left; apply Rinv_0_lt_compat; exact HR]).
  assert (Hsum : th + be <= PI).
  { apply Rmult_le_reg_r with Rearth; [exact HR|]. replace ((th + be) * Rearth) with (th * Rearth + be * Rearth) by ring.
    rewrite <- Dth, Ebe. unfold piR in Hfar. lra. }
  assert (Hbpi : be <= PI) by lra.
  rewrite sdot_as_vectors in Cth.
  assert (Hs : 0 <= sin th) by (apply sin_ge_0; lra).
  destruct (arc_point _ _ _ _ _ _ th (th + be) (unit_vector latA lonA) (unit_vector latB lonB) (eq_sym Cth) Hs)
    as (p1 & p2 & p3 & Up & Ap & Pb).
  replace (th - (th + be)) with (- be) in Pb by ring. rewrite cos_neg in Pb.
  destruct (realize p1 p2 p3 Up) as (plat & plon & Hp & E1 & E2 & E3).
  assert (DA : distance_to latA lonA plat plon = (th + be) * Rearth).
  { apply angle_of_cos; [exact Ha|exact Hp|lra|]. rewrite sdot_as_vectors, E1, E2, E3. exact Ap. }
  assert (DB : distance_to plat plon latB lonB = be * Rearth).
  { apply angle_of_cos; [exact Hp|exact Hb|lra|]. rewrite sdot_as_vectors, E1, E2, E3. exact Pb. }
  assert (InB : circle_contains_point latB lonB rB plat plon).
  { apply (circle_contains_point_spec latB lonB rB plat plon Hb Hp HrB). rewrite DB, Ebe. lra. }
  pose proof (Hall plat plon Hp InB) as InA.
  apply (circle_contains_point_spec latA lonA rA plat plon Ha Hp HrA) in InA. rewrite distance_sym, DA in InA.
  replace ((th + be) * Rearth) with (th * Rearth + be * Rearth) in InA by ring. rewrite <- Dth, Ebe in InA. exact InA.
Qed.

Print Assumptions circles_meet_iff.
Print Assumptions circle_contains_circle_complete.
