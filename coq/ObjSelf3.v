(* ObjSelf3.v — property C09 at the object level: a non-empty object contains itself, through
   Features, collections and nesting (every non-empty part of the object is contained by the child
   it comes from; at the leaves the geometry-level fact of ObjSelf2.v). *)
From Coq Require Import ZArith Bool List Lia.
From GJ Require Import Base Kernel KernelSpec Series SeriesSpec Ring RingSpec PairSpec Pairs PairProofs
  KernelProofs IntersectsProofs SeriesProofs PipProofs Obj ObjSpec ObjProofs BoxLaws ContainsBoxes
  Jordan JordanQ JordanRing JordanRect ObjSym ObjSelf ObjLaws ObjLaws2 ObjLaws3 ObjSelf2.
Import ListNotations.
Open Scope Z_scope.

Lemma gcb_self (x : shape) : self_ok x -> s_empty x = false -> gcb (g_of_shape x) (g_of_shape x) = true.
Proof. intros Hok Hne. unfold gcb. rewrite (g_contains_self x Hok Hne). reflexivity. Qed.

(* a leaf contains itself *)
Lemma leaf_self (a : obj) (ga : gshape) : leaf_geom a = Some ga -> (forall x, In x (sleaves a) -> self_ok x) ->
  o_empty a = false -> o_contains a a = true.
Proof.
  intros Hl Hok Hne. rewrite (leaf_contains a a ga ga Hl Hl).
  destruct a as [p|p|r|ps|rs|b|k cs]; cbn [leaf_geom] in Hl; inversion Hl; subst; cbn [sleaves o_empty] in *.
  - apply (gcb_self (SPoint p)); [apply Hok; left; reflexivity|reflexivity].
  - apply (gcb_self (SPoint p)); [apply Hok; left; reflexivity|reflexivity].
  - apply (gcb_self (SRect r)); [apply Hok; left; reflexivity|reflexivity].
  - apply (gcb_self (SLine ps)); [apply Hok; left; reflexivity|]. cbn [s_empty]. rewrite <- line_empty_eq. exact Hne.
  - rewrite <- poly_shape_geom. apply gcb_self; [apply Hok; left; reflexivity|].
    rewrite poly_empty_eq in Hne. destruct rs as [|e hs]; [discriminate Hne|exact Hne].
Qed.

Lemma atomic_parts (b : obj) : ends_in_coll b = false -> for_each_part b = [b].
Proof.
  induction b as [p|p|r|ps|rs|b IH|k cs IH] using obj_ind'; cbn [ends_in_coll for_each_part]; intros H; try reflexivity; try discriminate.
  rewrite H. reflexivity.
Qed.

Lemma parts_atomic (a : obj) : forall p, In p (for_each_part a) -> ends_in_coll p = false.
Proof.
  induction a as [q|q|r|ps|rs|b IH|k cs IH] using obj_ind'; intros p Hp; cbn [for_each_part] in Hp;
    try (destruct Hp as [<-|[]]; reflexivity).
  - destruct (ends_in_coll b) eqn:E; [apply IH; exact Hp|]. destruct Hp as [<-|[]]. cbn [ends_in_coll]. exact E.
  - apply in_flat_map in Hp. destruct Hp as (c & Hc & Hp). rewrite Forall_forall in IH. apply (IH c Hc p Hp).
Qed.

Lemma part_nonempty_whole (a : obj) : forall p, In p (for_each_part a) -> o_empty p = false -> o_empty a = false.
Proof.
  induction a as [q|q|r|ps|rs|b IH|k cs IH] using obj_ind'; intros p Hp Hne; cbn [for_each_part] in Hp;
    try (destruct Hp as [<-|[]]; exact Hne).
  - destruct (ends_in_coll b); [cbn [o_empty]; apply (IH p Hp Hne)|]. destruct Hp as [<-|[]]. exact Hne.
  - apply in_flat_map in Hp. destruct Hp as (c & Hc & Hp). rewrite Forall_forall in IH.
    pose proof (IH c Hc p Hp Hne) as Ec. cbn [o_empty].
    destruct (forallb o_empty cs) eqn:F; [|reflexivity]. rewrite forallb_forall in F. rewrite (F c Hc) in Ec. discriminate.
Qed.

Lemma nonempty_has_part (a : obj) : o_empty a = false -> exists p, In p (for_each_part a) /\ o_empty p = false.
Proof.
  induction a as [q|q|r|ps|rs|b IH|k cs IH] using obj_ind'; intros Hne; cbn [for_each_part];
    try (eexists; split; [left; reflexivity|exact Hne]).
  - destruct (ends_in_coll b); [apply IH; exact Hne|]. eexists; split; [left; reflexivity|exact Hne].
  - cbn [o_empty] in Hne. destruct (nonempty_child' cs Hne) as (c & Hc & Ec). rewrite Forall_forall in IH.
    destruct (IH c Hc Ec) as (p & Hp & Ep). exists p. split; [apply in_flat_map; exists c; split; assumption|exact Ep].
Qed.

Lemma feature_argument_contains_coll (a b : obj) : ends_in_coll b = true -> o_contains a (OFeature b) = o_contains a b.
Proof.
  intros Hb. induction a as [p|p|r|ps|rs|a IH|k cs IH] using obj_ind'; cbn [o_contains]; try reflexivity.
  - exact IH.
  - unfold nonempty_parts_c. cbn [for_each_part]. rewrite Hb. reflexivity.
Qed.

Lemma feature_argument_contains_any (a b : obj) : o_contains a (OFeature b) = o_contains a b.
Proof. destruct (ends_in_coll b) eqn:E; [apply feature_argument_contains_coll|apply feature_argument_contains]; exact E. Qed.

(* every non-empty part of an object is contained by the object *)
Lemma own_part (a : obj) : obj_wf a -> (forall x, In x (sleaves a) -> self_ok x) ->
  forall p, In p (for_each_part a) -> o_empty p = false -> o_contains a p = true.
Proof.
  induction a as [q|q|r|ps|rs|b IH|k cs IH] using obj_ind'; intros Hw Hok p Hp Hne; cbn [for_each_part] in Hp.
  - destruct Hp as [<-|[]]. eapply leaf_self; [reflexivity|exact Hok|exact Hne].
  - destruct Hp as [<-|[]]. eapply leaf_self; [reflexivity|exact Hok|exact Hne].
  - destruct Hp as [<-|[]]. eapply leaf_self; [reflexivity|exact Hok|exact Hne].
  - destruct Hp as [<-|[]]. eapply leaf_self; [reflexivity|exact Hok|exact Hne].
  - destruct Hp as [<-|[]]. eapply leaf_self; [reflexivity|exact Hok|exact Hne].
  - cbn [obj_wf sleaves] in *. destruct (ends_in_coll b) eqn:E.
    + cbn [o_contains]. apply IH; assumption.
    + destruct Hp as [<-|[]]. cbn [o_contains]. rewrite feature_argument_contains_any. cbn [o_empty] in Hne.
      apply IH; try assumption. rewrite (atomic_parts b E). left. reflexivity.
  - apply in_flat_map in Hp. destruct Hp as (c & Hc & Hp).
    pose proof (proj1 (obj_wf_coll k cs) Hw) as Hwc. rewrite Forall_forall in Hwc. rewrite Forall_forall in IH.
    destruct (part_c_rect_in_obj c p (Hwc c Hc) Hp Hne) as [_ Hwp].
    apply (coll_contains_iff k cs p Hw Hwp).
    pose proof (part_nonempty_whole c p Hp Hne) as Ec.
    split; [|split].
    + cbn [o_empty]. destruct (forallb o_empty cs) eqn:F; [|reflexivity]. rewrite forallb_forall in F. rewrite (F c Hc) in Ec. discriminate.
    + unfold nonempty_parts_c. rewrite (atomic_parts p (parts_atomic c p Hp)). cbn [filter]. rewrite Hne. discriminate.
    + intros q Hq. unfold nonempty_parts_c in Hq. rewrite (atomic_parts p (parts_atomic c p Hp)) in Hq. cbn [filter] in Hq.
      rewrite Hne in Hq. cbn [negb] in Hq. destruct Hq as [<-|[]].
      exists c. split; [exact Hc|]. split; [exact Ec|]. apply (IH c Hc (Hwc c Hc)); try assumption.
      intros x Hx. apply Hok. cbn [sleaves]. apply in_flat_map. exists c. split; assumption.
Qed.

(* MAIN *)
Theorem o_contains_self (a : obj) : obj_wf a -> (forall x, In x (sleaves a) -> self_ok x) ->
  o_empty a = false -> o_contains a a = true.
Proof.
  induction a as [q|q|r|ps|rs|b IH|k cs IH] using obj_ind'; intros Hw Hok Hne;
    try (eapply leaf_self; [reflexivity|exact Hok|exact Hne]).
  - cbn [o_contains]. rewrite feature_argument_contains_any. apply IH; assumption.
  - apply (coll_contains_iff k cs (OColl k cs) Hw Hw). split; [exact Hne|]. split.
    + destruct (nonempty_has_part (OColl k cs) Hne) as (p & Hp & Ep). intros E.
      assert (Hin : In p (nonempty_parts_c (OColl k cs))) by (unfold nonempty_parts_c; apply filter_In; split; [exact Hp|rewrite Ep; reflexivity]).
      rewrite E in Hin. destruct Hin.
    + intros p Hp. unfold nonempty_parts_c in Hp. apply filter_In in Hp. destruct Hp as [Hp Ep]. apply negb_true_iff in Ep.
      cbn [for_each_part] in Hp. apply in_flat_map in Hp. destruct Hp as (c & Hc & Hp).
      pose proof (proj1 (obj_wf_coll k cs) Hw) as Hwc. rewrite Forall_forall in Hwc.
      exists c. split; [exact Hc|]. split; [apply (part_nonempty_whole c p Hp Ep)|].
      apply (own_part c (Hwc c Hc)); try assumption.
      intros x Hx. apply Hok. cbn [sleaves]. apply in_flat_map. exists c. split; assumption.
Qed.

Print Assumptions o_contains_self.

(* not vacuous: a FeatureCollection holding a concave polygon with a hole, an empty line string, a
   Feature of a collection and a flat rectangle contains itself *)
Definition self_a : obj :=
  OColl 4 [OFeature (OPoly [[(0,0);(8,0);(8,8);(4,4);(0,8);(0,0)]; [(1,1);(3,1);(2,3);(1,1)]]); OLine [];
           OFeature (OColl 3 [OLine [(10,0);(14,0);(14,5)]; OSimple (5,1)]); ORect ((11,0),(13,0))].
Example self_objects : o_empty self_a = false /\ o_contains self_a self_a = true.
Proof. vm_compute. split; reflexivity. Qed.
