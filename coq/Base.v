(* Base.v — common vocabulary of the geometry models.
   Coordinates are integers: the harness scales every case onto a common dyadic
   grid 2^-s (DESIGN §3.1), so a Go float64 coordinate x is the integer x*2^s.
   All kernel operations (difference, product of differences, comparison,
   quotient comparison) commute exactly with that scaling. *)
From Coq Require Export ZArith List Bool Lia.
Export ListNotations.
Open Scope Z_scope.

Definition pt : Type := (Z * Z)%type.
Definition seg : Type := (pt * pt)%type.
(* A rectangle is (min, max). *)
Definition rect : Type := (pt * pt)%type.

Definition px (p : pt) : Z := fst p.
Definition py (p : pt) : Z := snd p.

Definition pt_eqb (p q : pt) : bool := (px p =? px q) && (py p =? py q).

Lemma pt_eqb_eq p q : pt_eqb p q = true <-> p = q.
Proof.
  destruct p as [a b], q as [c d]; unfold pt_eqb, px, py; simpl.
  rewrite andb_true_iff, !Z.eqb_eq. split.
  - intros [-> ->]; reflexivity.
  - intros H; inversion H; auto.
Qed.

Lemma pt_eqb_refl p : pt_eqb p p = true.
Proof. apply pt_eqb_eq; reflexivity. Qed.

Lemma pt_eqb_sym p q : pt_eqb p q = pt_eqb q p.
Proof. unfold pt_eqb. rewrite (Z.eqb_sym (px p)), (Z.eqb_sym (py p)). reflexivity. Qed.

(* Segment.Rect (segment.go:25-36) *)
Definition seg_rect (s : seg) : rect :=
  let '(a, b) := s in
  ((Z.min (px a) (px b), Z.min (py a) (py b)),
   (Z.max (px a) (px b), Z.max (py a) (py b))).

(* Rect.ContainsPoint (rect.go:116-119) *)
Definition rect_contains_point (r : rect) (p : pt) : bool :=
  let '(mn, mx) := r in
  (px mn <=? px p) && (px p <=? px mx) && (py mn <=? py p) && (py p <=? py mx).

(* Rect.IntersectsRect (rect.go:137-145) *)
Definition rect_intersects_rect (r o : rect) : bool :=
  let '(rmn, rmx) := r in let '(omn, omx) := o in
  if (py omx <? py rmn) || (py rmx <? py omn) then false
  else if (px omx <? px rmn) || (px rmx <? px omn) then false
  else true.

(* Rect.ContainsRect (rect.go:125-133) *)
Definition rect_contains_rect (r o : rect) : bool :=
  let '(rmn, rmx) := r in let '(omn, omx) := o in
  if (px omn <? px rmn) || (px rmx <? px omx) then false
  else if (py omn <? py rmn) || (py rmx <? py omx) then false
  else true.

Definition rect_eqb (r o : rect) : bool :=
  pt_eqb (fst r) (fst o) && pt_eqb (snd r) (snd o).

(* Rect.Area (rect.go:30-32) — exact on the grid (scaled by 2^2s, order preserved) *)
Definition rect_area (r : rect) : Z :=
  let '(mn, mx) := r in (px mx - px mn) * (py mx - py mn).

Definition b2z (b : bool) : Z := if b then 1 else 0.
